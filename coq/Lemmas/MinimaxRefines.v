(** MinimaxRefines — summary: the reference value of the search theorems is the minimax value of the
    SPECIFICATION game tree.

    The search theorems of Lemmas/SearchBoardInst.v relate the score returned by the model of the Go search
    to [b_mm z use_q qfuel depth true (norm p)], minimax over the MODEL's own tree of abstract boards.  Here:

      [b_mm_is_spec_mm]          for [RG]-related nodes, any specification-side leaf / exploration predicates
                                 that correspond to the model's, [b_mm ... p] and [spec_mm ... g] (Spec/Minimax.v,
                                 over [spec_legal], [g_play], [drawn_here], [terminal_value] of the FIDE
                                 specification) are equal as scores (Go's [==]; both valid)
      [b_mm_is_spec_mm_material] the same with the hypotheses discharged for the engines' configuration: full
                                 exploration, captures-only quiescence, material leaf
      [board_search_is_spec_minimax], [..._table], [..._game], [board_window_is_spec]
                                 the full-window search on the real board returns the specification's minimax
                                 value; windowed searches satisfy the fail-soft contract against it.

    Ingredients (parts 1-5): [sfold_same_set] / [sfold_perm] (the [smax] loop depends neither on the order nor
    on the multiplicity of the children, up to [go_eq]; Leibniz equality fails, [sfold_perm_not_leibniz]);
    [RG], [RG_new], [RG_of_Game], [RG_child]; [legal_correspond], [legal_permutation] (the accepted
    pseudo-legal moves are a permutation of [spec_legal]; [spec_legal_nodup]); [has_legal_spec],
    [term_value_spec]; [mm_refines] / [qv_refines]; [bleaf_spec], [bex_spec], [bqex_spec].
    Part 6: computed instances and the depth-0 witness [depth0_corner].

    Side conditions:
      - [zt_ok z]: the Zobrist table has no en-passant keys off ranks 3/6 (C07's condition; repetition
        detection goes through hashes);
      - [b_leaves_ok]: the quiescence fuel suffices (otherwise both values contain [invalid_score], on which
        [smax] depends on the move order); [qh + depth <= 127]: mate distances fit int8;
      - the Draw flag: at inner nodes ([root = false]) [bdrawn p = drawn_here g] - automatic for children
        ([RG_child]); at the root nothing, EXCEPT at depth 0 with quiescence, where [qv]/[spec_qv] look at the
        draw of the node itself.  For the search this is the known corner: [AlphaBeta.Search] clears a
        claimable draw at the root and then quiesces, while [spec_mm 0 true g] is 0 when a draw condition
        holds at [g]; hence the hypothesis [depth = 0 -> use_q = true -> drawn_here gs = false] below
        (iterative deepening starts at depth 1). *)
From Coq Require Import NArith ZArith List Bool Lia.
From Morlock.Model Require Import Bits Score Attacks Move Position Zobrist Board Search TT SearchBoard Abs.
From Morlock.Spec Require Import Chess Game Minimax.
From Morlock.Lemmas Require Import ScoreLemmas SearchScore BoardHeap1 SearchContract SearchBoardInst1 SearchBoardInst2
     SearchBoardInst4 SearchBoardInst GameLemmas6
     MinimaxRefines1 MinimaxRefines2 MinimaxRefines3 MinimaxRefines4 MinimaxRefines5.
Import ListNotations.
Open Scope Z_scope.

(** * the reference values coincide *)
Theorem b_mm_is_spec_mm : forall z use_q qfuel d root p g expl qexpl leaf,
  zt_ok z -> RG z p g ->
  (* the leaf evaluation and the exploration predicates correspond on related nodes *)
  (forall p g, RG z p g -> leaf g = bleaf p) ->
  (forall p g m c, RG z p g -> bchild z p m = Some c -> expl g (g_play g (abs_move m)) (abs_move m) = bex p c m) ->
  (forall p g m c, RG z p g -> bchild z p m = Some c -> qexpl g (g_play g (abs_move m)) (abs_move m) = bqex p c m) ->
  (* the Draw flag of the node says what the specification says, where the values look at it *)
  (root = false -> bdrawn p = drawn_here g) ->
  (d = O -> use_q = true -> bdrawn p = drawn_here g) ->
  (* fuel and int8 *)
  b_leaves_ok z use_q qfuel d root p -> qh use_q qfuel + Z.of_nat d <= 127 ->
  go_eq (b_mm z use_q qfuel d root p) (spec_mm expl qexpl leaf use_q qfuel d root g) = true /\
  valid (b_mm z use_q qfuel d root p) = true /\ valid (spec_mm expl qexpl leaf use_q qfuel d root g) = true.
Proof.
  intros z use_q qfuel d root p g expl qexpl leaf Hzt HRG Hleaf Hex Hqex Hdr Hdq Hl Hd.
  destruct (mm_go_eq z Hzt use_q qfuel bleaf bex bqex H_leaf_valid expl qexpl leaf Hleaf Hex Hqex d root p g HRG Hdr Hdq Hl Hd)
    as (E & V1 & V2 & _).
  auto.
Qed.

Theorem b_mm_is_spec_mm_material : forall z use_q qfuel d root p g,
  zt_ok z -> RG z p g ->
  (root = false -> bdrawn p = drawn_here g) ->
  (d = O -> use_q = true -> bdrawn p = drawn_here g) ->
  b_leaves_ok z use_q qfuel d root p -> qh use_q qfuel + Z.of_nat d <= 127 ->
  go_eq (b_mm z use_q qfuel d root p) (spec_mm expl_all qexpl_captures spec_leaf_material use_q qfuel d root g) = true /\
  valid (b_mm z use_q qfuel d root p) = true /\
  valid (spec_mm expl_all qexpl_captures spec_leaf_material use_q qfuel d root g) = true.
Proof.
  intros z use_q qfuel d root p g Hzt HRG. apply b_mm_is_spec_mm; try assumption.
  - apply bleaf_spec.
  - apply bex_spec.
  - apply bqex_spec.
Qed.

(** every child of a related node is a related node with the right Draw flag: below the root the flag
    hypotheses are automatic *)
Corollary b_mm_is_spec_mm_child : forall z use_q qfuel d p g m c,
  zt_ok z -> RG z p g -> bchild z p m = Some c ->
  b_leaves_ok z use_q qfuel d false c -> qh use_q qfuel + Z.of_nat d <= 127 ->
  go_eq (b_mm z use_q qfuel d false c)
        (spec_mm expl_all qexpl_captures spec_leaf_material use_q qfuel d false (g_play g (abs_move m))) = true.
Proof.
  intros z use_q qfuel d p g m c Hzt HRG Hc Hl Hd. destruct (RG_child z Hzt p g m c HRG Hc) as [HRGc Hdc].
  apply (b_mm_is_spec_mm_material z use_q qfuel d false c _ Hzt HRGc (fun _ => Hdc) (fun _ _ => Hdc) Hl Hd).
Qed.

(** * the searches return the specification's minimax value *)
Notation spec_value use_q qfuel := (spec_mm expl_all qexpl_captures spec_leaf_material use_q qfuel).

Lemma go_eq_trans_valid a b c : valid a = true -> valid b = true -> valid c = true ->
  go_eq a b = true -> go_eq b c = true -> go_eq a c = true.
Proof. intros Va Vb Vc. rewrite !go_eq_iabs by assumption. congruence. Qed.

Lemma root_value z use_q qfuel depth p gs : zt_ok z -> RG z (norm p) gs ->
  (depth = O -> use_q = true -> drawn_here gs = false) ->
  b_leaves_ok z use_q qfuel depth true (norm p) -> qh use_q qfuel + Z.of_nat depth <= 127 ->
  go_eq (b_mm z use_q qfuel depth true (norm p)) (spec_value use_q qfuel depth true gs) = true /\
  valid (b_mm z use_q qfuel depth true (norm p)) = true /\ valid (spec_value use_q qfuel depth true gs) = true.
Proof.
  intros Hzt HRG H0 Hl Hd. apply b_mm_is_spec_mm_material; try assumption.
  - intros H; discriminate H.
  - intros Ed Eq. rewrite (H0 Ed Eq). reflexivity.
Qed.

(** C03 against the specification, no table *)
Theorem board_search_is_spec_minimax : forall z cancel use_q qfuel,
  (forall n, cancel n = true -> cancel (S n) = true) ->
  forall g depth st nodes sc pv p gs,
  qh use_q qfuel + Z.of_nat depth <= 127 ->
  BAt p g -> RootFlag p g -> b_leaves_ok z use_q qfuel depth true (norm p) ->
  b_search z cancel use_q qfuel g NoTT [] depth neginf_score inf_score = (st, nodes, sc, pv, false) ->
  zt_ok z -> RG z (norm p) gs ->
  (depth = O -> use_q = true -> drawn_here gs = false) ->
  go_eq sc (spec_value use_q qfuel depth true gs) = true /\ valid sc = true.
Proof.
  intros z cancel use_q qfuel Hmono g depth st nodes sc pv p gs Hd HB HR Hl Hrun Hzt HRG H0.
  destruct (board_full_window_nott z cancel use_q qfuel Hmono g depth st nodes sc pv p Hd HB HR Hl Hrun) as [E1 V1].
  destruct (root_value z use_q qfuel depth p gs Hzt HRG H0 Hl Hd) as (E2 & V2 & V3).
  split; [|exact V1]. eapply go_eq_trans_valid; [exact V1|exact V2|exact V3|exact E1|exact E2].
Qed.

(** the same with a transposition table whose hashes identify values ([b_HashValue], the property's own
    precondition) *)
Theorem board_search_is_spec_minimax_table : forall z cancel use_q qfuel,
  (forall n, cancel n = true -> cancel (S n) = true) -> b_HashValue z use_q qfuel ->
  forall g t depth st nodes sc pv p gs,
  qh use_q qfuel + Z.of_nat depth <= 127 -> b_TTInv z use_q qfuel t ->
  BAt p g -> RootFlag p g -> b_leaves_ok z use_q qfuel depth true (norm p) ->
  b_search z cancel use_q qfuel g t [] depth neginf_score inf_score = (st, nodes, sc, pv, false) ->
  zt_ok z -> RG z (norm p) gs ->
  (depth = O -> use_q = true -> drawn_here gs = false) ->
  go_eq sc (spec_value use_q qfuel depth true gs) = true /\ valid sc = true.
Proof.
  intros z cancel use_q qfuel Hmono Hhash g t depth st nodes sc pv p gs Hd HT HB HR Hl Hrun Hzt HRG H0.
  destruct (board_full_window z cancel use_q qfuel Hmono Hhash g t depth st nodes sc pv p Hd HT HB HR Hl Hrun) as [E1 V1].
  destruct (root_value z use_q qfuel depth p gs Hzt HRG H0 Hl Hd) as (E2 & V2 & V3).
  split; [|exact V1]. eapply go_eq_trans_valid; [exact V1|exact V2|exact V3|exact E1|exact E2].
Qed.

(** for a board that carries a game in the sense of C05 ([Game]: any board reached from [new_board] of a
    legal set-up by successful PushMoves, [played_game] in GameLemmas7) the specification game is that game *)
Theorem board_search_is_spec_minimax_game : forall z cancel use_q qfuel,
  (forall n, cancel n = true -> cancel (S n) = true) ->
  forall h b depth st nodes sc pv p gs,
  qh use_q qfuel + Z.of_nat depth <= 127 ->
  BAt p (h, b) -> RootFlag p (h, b) -> b_leaves_ok z use_q qfuel depth true (norm p) ->
  b_search z cancel use_q qfuel (h, b) NoTT [] depth neginf_score inf_score = (st, nodes, sc, pv, false) ->
  zt_ok z -> Game z h b gs ->
  (depth = O -> use_q = true -> drawn_here gs = false) ->
  go_eq sc (spec_value use_q qfuel depth true gs) = true /\ valid sc = true.
Proof.
  intros z cancel use_q qfuel Hmono h b depth st nodes sc pv p gs Hd HB HR Hl Hrun Hzt HGame H0.
  apply (board_search_is_spec_minimax z cancel use_q qfuel Hmono (h, b) depth st nodes sc pv p gs); try assumption.
  apply RG_norm. eapply RG_of_Game; eassumption.
Qed.

(** a search from a freshly set-up board *)
Corollary new_board_search_is_spec_minimax : forall z cancel use_q qfuel,
  (forall n, cancel n = true -> cancel (S n) = true) ->
  forall pos turn np fm depth st nodes sc pv,
  wf_b pos turn = true -> (turn = White \/ turn = Black) -> (np <= max_int)%N -> zt_ok z ->
  qh use_q qfuel + Z.of_nat depth <= 127 ->
  let gb := new_board z [] pos turn np fm in
  b_leaves_ok z use_q qfuel depth true (norm (abs (fst gb) (snd gb))) ->
  b_search z cancel use_q qfuel gb NoTT [] depth neginf_score inf_score = (st, nodes, sc, pv, false) ->
  go_eq sc (spec_value use_q qfuel depth true (g_start (abs_pos pos) (color_of turn) (Z.of_N np) fm)) = true /\
  valid sc = true.
Proof.
  intros z cancel use_q qfuel Hmono pos turn np fm depth st nodes sc pv Hw Ht Hnp Hzt Hd gb Hl Hrun.
  destruct (RG_new z pos turn np fm Hw Ht Hnp) as (HRG & HB & Hdraw). fold gb in HRG, HB, Hdraw.
  apply (board_search_is_spec_minimax z cancel use_q qfuel Hmono gb depth st nodes sc pv (abs (fst gb) (snd gb))
           (g_start (abs_pos pos) (color_of turn) (Z.of_N np) fm)); try assumption.
  - intros _ H. discriminate H.
  - intros _ _. reflexivity.
Qed.

(** C13 against the specification: the fail-soft window contract *)
Theorem board_window_is_spec : forall z cancel use_q qfuel,
  (forall n, cancel n = true -> cancel (S n) = true) ->
  forall g depth low high st nodes sc pv p gs,
  qh use_q qfuel + Z.of_nat depth <= 127 ->
  BAt p g -> RootFlag p g -> b_leaves_ok z use_q qfuel depth true (norm p) ->
  valid low = true -> valid high = true -> less low high = true ->
  b_search z cancel use_q qfuel g NoTT [] depth low high = (st, nodes, sc, pv, false) ->
  zt_ok z -> RG z (norm p) gs ->
  (depth = O -> use_q = true -> drawn_here gs = false) ->
  let v := spec_value use_q qfuel depth true gs in
  valid sc = true /\
  (le v low -> le v sc /\ le sc low) /\
  (less low v = true -> less v high = true -> go_eq sc v = true) /\
  (le high v -> le high sc /\ le sc v).
Proof.
  intros z cancel use_q qfuel Hmono g depth low high st nodes sc pv p gs Hd HB HR Hl Va Vb Hab Hrun Hzt HRG H0 v.
  destruct (board_search_spec_nott z cancel use_q qfuel Hmono g depth low high st nodes sc pv false p Hd HB HR Hl Va Vb Hrun)
    as (_ & _ & _ & _ & _ & K). destruct (K eq_refl) as (Vs & _).
  pose proof (board_window_nott z cancel use_q qfuel Hmono g depth low high st nodes sc pv p Hd HB HR Hl Va Vb Hab Hrun) as W.
  cbv zeta in W. destruct W as (W1 & W2 & W3).
  destruct (root_value z use_q qfuel depth p gs Hzt HRG H0 Hl Hd) as (E & V2 & V3). fold v in E, V3.
  apply go_eq_iabs in E; [|assumption|assumption].
  split; [exact Vs|].
  rewrite !le_iabs in W1, W3 by assumption. rewrite !lt_iabs in W2 by assumption.
  rewrite go_eq_iabs in W2 by assumption. rewrite E in W1, W2, W3.
  rewrite !le_iabs by assumption. rewrite !lt_iabs by assumption. rewrite go_eq_iabs by assumption.
  auto.
Qed.

Print Assumptions b_mm_is_spec_mm.
Print Assumptions b_mm_is_spec_mm_material.
Print Assumptions board_search_is_spec_minimax.
Print Assumptions board_search_is_spec_minimax_table.
Print Assumptions board_search_is_spec_minimax_game.
Print Assumptions new_board_search_is_spec_minimax.
Print Assumptions board_window_is_spec.
