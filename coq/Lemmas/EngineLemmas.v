(** C10 / C14 / C19, engine part: summary of EngineLemmas1-4 (the main theorems with their assumptions).
    EngineLemmas5 links the refinement relation used here to the ones of the C05 development (GameLemmas4.ARel, GameLemmas6.GRel). *)
From Coq Require Import NArith ZArith List Bool.
From Morlock.Model Require Import Bits Attacks Move Position Zobrist Board Fen Abs Engine EngineSpec.
From Morlock.Spec Require Import Chess Game.
From Morlock.Lemmas Require Import BoardHeap1.
From Morlock.Lemmas Require Export EngineLemmas1 EngineLemmas2 EngineLemmas3 EngineLemmas4.
Import ListNotations.
Open Scope N_scope.

(** what [ERel e g] says about the observable state of the engine's game: position, side to move, half-move clock
    (the specification's unbounded clock capped at [max_int] = math.MaxInt, where the Go counter saturates),
    full-move number, and the chain of earlier (position, side to move) states used for repetition detection *)
Theorem ERel_observables e g : ERel e g ->
  let h := e_heap e in let b := e_board e in
  abs_pos (b_position h b) = g_pos g /\ color_of (b_turn b) = g_turn g /\
  Z.of_N (b_noprogress h b) = Z.min (g_clock g) (Z.of_N max_int) /\ b_moves b = g_fullmove g /\
  estates (tl (data h b)) (opponent (b_turn b)) = g_past g.
Proof. intros [Hwf Hrel]. cbv zeta. now apply grel_now. Qed.

Check engine_move_iff_legal.
Print Assumptions engine_move_iff_legal.
Check engine_move_rejected_unchanged_any.
Print Assumptions engine_move_rejected_unchanged_any.
Check reset_refines.
Print Assumptions reset_refines.
Check engine_fen_standard.
Print Assumptions engine_fen_standard.
Check g_clock_since_last.
Check g_fullmove_all.
Check position_fresh.
Print Assumptions position_fresh.
Check setup_extend.
Print Assumptions setup_extend.
Check position_continuation.
Print Assumptions position_continuation.
Check position_sequence.
Print Assumptions position_sequence.
Check position_sequence_fen.
Print Assumptions position_sequence_fen.
Check legacy_repetition_exits.
Print Assumptions legacy_repetition_exits.
Print Assumptions run_extension.
Print Assumptions mixed_by_theorem.
