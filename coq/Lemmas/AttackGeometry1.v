(** AttackGeometry1 — the rotated bitboards as bit permutations of the plain occupancy.
    Bridging lemmas for 64-bit words, the xor-fold characterisation of [new_rotated], the lifting
    lemma (bit [g s] of a rotated word = bit [s] of the occupancy), [rotated_xor_lockstep] and
    [new_rotated_r0]. *)
From Coq Require Import NArith List Bool Lia ZifyBool ZifyNat ZifyN.
From Morlock.gen Require Import GenTables.
From Morlock.Model Require Import Bits Attacks.
Import ListNotations.
Open Scope N_scope.

(** * 64-bit word bridging lemmas *)

Lemma tb_mask64 x i : N.testbit (mask64 x) i = (i <? 64) && N.testbit x i.
Proof.
  unfold mask64. rewrite N.land_spec. destruct (N.ltb_spec i 64) as [H|H].
  - rewrite N.ones_spec_low by lia. now rewrite andb_true_r.
  - rewrite N.ones_spec_high by lia. now rewrite andb_false_r.
Qed.

Lemma tb_shl64 x k i : N.testbit (shl64 x k) i = (i <? 64) && (k <=? i) && N.testbit x (i - k).
Proof.
  unfold shl64. rewrite tb_mask64. destruct (N.leb_spec k i) as [H|H].
  - rewrite N.shiftl_spec_high' by lia. now rewrite andb_true_r.
  - rewrite N.shiftl_spec_low by lia. now rewrite !andb_false_r.
Qed.

Lemma tb_shr64 x k i : N.testbit (shr64 x k) i = N.testbit x (i + k).
Proof. unfold shr64. apply N.shiftr_spec'. Qed.

Lemma tb_bitmask j i : N.testbit (bitmask j) i = (i <? 64) && (j =? i).
Proof. unfold bitmask, shl64. now rewrite tb_mask64, N.shiftl_1_l, N.pow2_bits_eqb. Qed.

Lemma is_set_testbit b sq : sq < 64 -> is_set b sq = N.testbit b sq.
Proof.
  intros H. unfold is_set. destruct (N.testbit b sq) eqn:E.
  - apply negb_true_iff, N.eqb_neq. intro Z0.
    assert (H0 : N.testbit (N.land b (bitmask sq)) sq = true).
    { rewrite N.land_spec, tb_bitmask, E, N.eqb_refl.
      destruct (N.ltb_spec sq 64); [reflexivity|lia]. }
    rewrite Z0, N.bits_0 in H0. discriminate.
  - apply negb_false_iff, N.eqb_eq. apply N.bits_inj. intro i.
    rewrite N.land_spec, tb_bitmask, N.bits_0.
    destruct (N.eqb_spec sq i) as [->|Hne].
    + rewrite E. reflexivity.
    + now rewrite !andb_false_r.
Qed.

Lemma high_bits_zero x i : x < 2 ^ 64 -> 64 <= i -> N.testbit x i = false.
Proof.
  intros Hx Hi. destruct (N.eq_dec x 0) as [->|Hn]. { apply N.bits_0. }
  apply N.bits_above_log2. apply N.log2_lt_pow2; [lia|].
  eapply N.lt_le_trans; [exact Hx|]. apply N.pow_le_mono_r; lia.
Qed.

(** * lists of squares *)

Lemma in_seqN s n : In s (seqN n) <-> s < N.of_nat n.
Proof.
  unfold seqN. rewrite in_map_iff. split.
  - intros [x [<- H]]. apply in_seq in H. lia.
  - intros H. exists (N.to_nat s). split; [apply N2Nat.id|]. apply in_seq. lia.
Qed.
Lemma in_seqN64 s : In s (seqN 64) <-> s < 64.
Proof. rewrite in_seqN. change (N.of_nat 64) with 64. tauto. Qed.
Lemma in_seqN256 s : In s (seqN 256) <-> s < 256.
Proof. rewrite in_seqN. replace (N.of_nat 256) with 256 by (vm_compute; reflexivity). tauto. Qed.

Fixpoint nodupb (l : list N) : bool :=
  match l with [] => true | x :: r => negb (existsb (N.eqb x) r) && nodupb r end.
Lemma nodupb_ok l : nodupb l = true -> NoDup l.
Proof.
  induction l as [|x r IH]; cbn [nodupb]; intros H; [constructor|].
  apply andb_true_iff in H as [H1 H2]. constructor; auto.
  intro Hin. apply negb_true_iff in H1.
  assert (H3 : existsb (N.eqb x) r = true).
  { apply existsb_exists. exists x. split; auto. apply N.eqb_refl. }
  congruence.
Qed.
Lemma seqN64_nodup : NoDup (seqN 64).
Proof. apply nodupb_ok. vm_compute. reflexivity. Qed.

(** * xor-sums of booleans over a list *)

Definition xsum (f : N -> bool) (l : list N) : bool := fold_right xorb false (map f l).

Lemma xsum_ext f h l : (forall s, In s l -> f s = h s) -> xsum f l = xsum h l.
Proof.
  unfold xsum. induction l as [|a l IH]; intros H; cbn [map fold_right]; [reflexivity|].
  rewrite H by (left; reflexivity). rewrite IH; [reflexivity|]. intros s Hs. apply H. now right.
Qed.
Lemma xsum_xor f h l : xsum (fun s => xorb (f s) (h s)) l = xorb (xsum f l) (xsum h l).
Proof.
  unfold xsum. induction l as [|a l IH]; cbn [map fold_right]; [reflexivity|].
  rewrite IH. destruct (f a), (h a), (fold_right xorb false (map f l)), (fold_right xorb false (map h l)); reflexivity.
Qed.
Lemma xsum_zero f l : (forall s, In s l -> f s = false) -> xsum f l = false.
Proof.
  unfold xsum. induction l as [|a l IH]; intros H; cbn [map fold_right]; [reflexivity|].
  rewrite H by (left; reflexivity). rewrite IH; [reflexivity|]. intros s Hs. apply H. now right.
Qed.
Lemma xsum_single f l s0 : NoDup l -> In s0 l ->
  (forall s, In s l -> s <> s0 -> f s = false) -> xsum f l = f s0.
Proof.
  induction l as [|a l IH]; intros ND Hin H; [destruct Hin|].
  inversion ND as [|x xs Hnot ND']; subst.
  change (xsum f (a :: l)) with (xorb (f a) (xsum f l)).
  destruct Hin as [->|Hin].
  - rewrite xsum_zero; [apply xorb_false_r|].
    intros s Hs. apply H; [now right|]. intro E; subst; contradiction.
  - rewrite (H a); [|now left|intro E; subst; contradiction].
    rewrite xorb_false_l. apply IH; auto. intros s Hs Hne. apply H; auto. now right.
Qed.

(** * the components of [new_rotated] as xor-folds *)

Definition rot_step1 (g : N -> N) (occ acc s : N) : N :=
  if is_set occ s then N.lxor acc (bitmask (g s)) else acc.

Definition g_id (s : N) : N := s.
Definition g90 (s : N) : N := nthN g_rot90 s 0.
Definition g45L (s : N) : N := nthN g_rot45L s 0.
Definition g45R (s : N) : N := nthN g_rot45R s 0.

Lemma fold_bits g occ l : (forall s, In s l -> s < 64) -> forall acc j,
  N.testbit (fold_left (rot_step1 g occ) l acc) j =
  xorb (N.testbit acc j) (xsum (fun s => N.testbit occ s && N.testbit (bitmask (g s)) j) l).
Proof.
  unfold xsum. induction l as [|s l IH]; intros Hl acc j; cbn [fold_left map fold_right].
  - now rewrite xorb_false_r.
  - rewrite IH by (intros x Hx; apply Hl; now right).
    unfold rot_step1. rewrite is_set_testbit by (apply Hl; now left).
    destruct (N.testbit occ s).
    + rewrite andb_true_l, N.lxor_spec. now rewrite xorb_assoc.
    + rewrite andb_false_l, xorb_false_l. reflexivity.
Qed.

Section Proj.
  Variables (P : rotated -> N) (g : N -> N).
  Hypothesis Pxor : forall r sq, P (rot_xor r sq) = N.lxor (P r) (bitmask (g sq)).
  Hypothesis Pempty : P rot_empty = 0.

  Lemma proj_fold bb l : forall acc,
    P (fold_left (fun acc sq => if is_set bb sq then rot_xor acc sq else acc) l acc) =
    fold_left (rot_step1 g bb) l (P acc).
  Proof.
    induction l as [|a l IH]; intros acc; cbn [fold_left]; [reflexivity|].
    rewrite IH. f_equal. unfold rot_step1. destruct (is_set bb a); auto.
  Qed.

  (** every bit of a component of [new_rotated occ] *)
  Lemma rot_bits occ j :
    N.testbit (P (new_rotated occ)) j =
    xsum (fun s => N.testbit occ s && N.testbit (bitmask (g s)) j) (seqN 64).
  Proof.
    unfold new_rotated. rewrite proj_fold, fold_bits.
    - rewrite Pempty, N.bits_0. apply xorb_false_l.
    - intros s Hs. now apply in_seqN64.
  Qed.

  (** lifting: when [g] is injective on the board and maps into the board, bit [g s] of the rotated
      word is bit [s] of the occupancy *)
  Lemma rot_lift :
    (forall s s', s < 64 -> s' < 64 -> g s = g s' -> s = s') -> (forall s, s < 64 -> g s < 64) ->
    forall occ s, s < 64 -> N.testbit (P (new_rotated occ)) (g s) = N.testbit occ s.
  Proof.
    intros Hinj Hrange occ s Hs. rewrite rot_bits.
    rewrite (xsum_single _ _ s).
    - rewrite tb_bitmask, N.eqb_refl.
      specialize (Hrange s Hs). destruct (N.ltb_spec (g s) 64); [|lia]. now rewrite !andb_true_r.
    - apply seqN64_nodup.
    - now apply in_seqN64.
    - intros s' Hs' Hne. apply in_seqN64 in Hs'. rewrite tb_bitmask.
      destruct (N.eqb_spec (g s') (g s)) as [E|E].
      + exfalso. apply Hne. now apply Hinj.
      + now rewrite !andb_false_r.
  Qed.

  (** incremental update = rebuild, componentwise *)
  Lemma rot_lockstep_comp occ sq : sq < 64 ->
    P (rot_xor (new_rotated occ) sq) = P (new_rotated (N.lxor occ (bitmask sq))).
  Proof.
    intros Hsq. apply N.bits_inj. intro j.
    rewrite Pxor, N.lxor_spec, !rot_bits.
    rewrite (xsum_ext (fun s => N.testbit (N.lxor occ (bitmask sq)) s && N.testbit (bitmask (g s)) j)
                      (fun s => xorb (N.testbit occ s && N.testbit (bitmask (g s)) j)
                                     ((sq =? s) && N.testbit (bitmask (g s)) j))).
    - rewrite xsum_xor. f_equal.
      rewrite (xsum_single _ _ sq).
      + now rewrite N.eqb_refl.
      + apply seqN64_nodup.
      + now apply in_seqN64.
      + intros s _ Hne. destruct (N.eqb_spec sq s); [congruence|reflexivity].
    - intros s Hs. apply in_seqN64 in Hs. rewrite N.lxor_spec, tb_bitmask.
      destruct (N.ltb_spec s 64); [|lia]. rewrite andb_true_l.
      destruct (N.testbit occ s), (sq =? s), (N.testbit (bitmask (g s)) j); reflexivity.
  Qed.
End Proj.

Lemma r0_xor r sq : r0 (rot_xor r sq) = N.lxor (r0 r) (bitmask (g_id sq)).
Proof. reflexivity. Qed.
Lemma r90_xor r sq : r90 (rot_xor r sq) = N.lxor (r90 r) (bitmask (g90 sq)).
Proof. reflexivity. Qed.
Lemma r45L_xor r sq : r45L (rot_xor r sq) = N.lxor (r45L r) (bitmask (g45L sq)).
Proof. reflexivity. Qed.
Lemma r45R_xor r sq : r45R (rot_xor r sq) = N.lxor (r45R r) (bitmask (g45R sq)).
Proof. reflexivity. Qed.

Lemma rot_eq a b : r0 a = r0 b -> r90 a = r90 b -> r45L a = r45L b -> r45R a = r45R b -> a = b.
Proof. destruct a, b; simpl; intros; subst; reflexivity. Qed.

Theorem rotated_xor_lockstep : forall occ sq, sq < 64 ->
  rot_xor (new_rotated occ) sq = new_rotated (N.lxor occ (bitmask sq)).
Proof.
  intros occ sq Hsq. apply rot_eq.
  - apply (rot_lockstep_comp r0 g_id r0_xor eq_refl); exact Hsq.
  - apply (rot_lockstep_comp r90 g90 r90_xor eq_refl); exact Hsq.
  - apply (rot_lockstep_comp r45L g45L r45L_xor eq_refl); exact Hsq.
  - apply (rot_lockstep_comp r45R g45R r45R_xor eq_refl); exact Hsq.
Qed.
Print Assumptions rotated_xor_lockstep.

Theorem new_rotated_r0 : forall occ, r0 (new_rotated occ) = mask64 occ.
Proof.
  intros occ. apply N.bits_inj. intro j.
  rewrite (rot_bits r0 g_id r0_xor eq_refl), tb_mask64. unfold g_id.
  destruct (N.ltb_spec j 64) as [Hj|Hj].
  - rewrite (xsum_single _ _ j).
    + rewrite tb_bitmask, N.eqb_refl. destruct (N.ltb_spec j 64); [|lia]. now rewrite !andb_true_r.
    + apply seqN64_nodup.
    + now apply in_seqN64.
    + intros s _ Hne. rewrite tb_bitmask. destruct (N.eqb_spec s j); [contradiction|]. now rewrite !andb_false_r.
  - rewrite andb_false_l. apply xsum_zero. intros s _. rewrite tb_bitmask.
    destruct (N.ltb_spec j 64); [lia|]. now rewrite andb_false_r.
Qed.
Print Assumptions new_rotated_r0.

(** * the three rotation tables are injective maps of the board into itself *)

Definition inj_ok (g : N -> N) : bool :=
  forallb (fun s => (g s <? 64) && forallb (fun s' => implb (g s =? g s') (s =? s')) (seqN 64)) (seqN 64).

Lemma inj_ok_spec g : inj_ok g = true ->
  (forall s s', s < 64 -> s' < 64 -> g s = g s' -> s = s') /\ (forall s, s < 64 -> g s < 64).
Proof.
  intros H. unfold inj_ok in H. rewrite forallb_forall in H. split.
  - intros s s' Hs Hs' E. apply in_seqN64 in Hs, Hs'. specialize (H s Hs).
    apply andb_true_iff in H as [_ H]. rewrite forallb_forall in H. specialize (H s' Hs').
    rewrite E, N.eqb_refl in H. cbn [implb] in H. now apply N.eqb_eq.
  - intros s Hs. apply in_seqN64 in Hs. specialize (H s Hs).
    apply andb_true_iff in H as [H _]. now apply N.ltb_lt.
Qed.

Lemma g_id_inj : inj_ok g_id = true. Proof. vm_compute. reflexivity. Qed.
Lemma g90_inj : inj_ok g90 = true. Proof. vm_compute. reflexivity. Qed.
Lemma g45L_inj : inj_ok g45L = true. Proof. vm_compute. reflexivity. Qed.
Lemma g45R_inj : inj_ok g45R = true. Proof. vm_compute. reflexivity. Qed.

Lemma lift_r0 occ s : s < 64 -> N.testbit (r0 (new_rotated occ)) (g_id s) = N.testbit occ s.
Proof. destruct (inj_ok_spec _ g_id_inj) as [A B]. now apply (rot_lift r0 g_id r0_xor eq_refl A B). Qed.
Lemma lift_r90 occ s : s < 64 -> N.testbit (r90 (new_rotated occ)) (g90 s) = N.testbit occ s.
Proof. destruct (inj_ok_spec _ g90_inj) as [A B]. now apply (rot_lift r90 g90 r90_xor eq_refl A B). Qed.
Lemma lift_r45L occ s : s < 64 -> N.testbit (r45L (new_rotated occ)) (g45L s) = N.testbit occ s.
Proof. destruct (inj_ok_spec _ g45L_inj) as [A B]. now apply (rot_lift r45L g45L r45L_xor eq_refl A B). Qed.
Lemma lift_r45R occ s : s < 64 -> N.testbit (r45R (new_rotated occ)) (g45R s) = N.testbit occ s.
Proof. destruct (inj_ok_spec _ g45R_inj) as [A B]. now apply (rot_lift r45R g45R r45R_xor eq_refl A B). Qed.
