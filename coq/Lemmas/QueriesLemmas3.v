(** QueriesLemmas3 — geometry of the empty-board lines from a square (finite checks over the 64 squares
    and 8 directions), [first_occupied] as [find] on such a line, and the attack boards in terms of
    [reach]. *)
From Coq Require Import NArith ZArith List Bool Lia ZifyBool ZifyNat ZifyN.
From Morlock.Model Require Import Bits Attacks Move Position Abs Queries.
From Morlock.Spec Require Import Chess.
From Morlock.Lemmas Require Import AttackGeometry AttackGeometry_Extra PositionLemmas MoveGen1 MoveGen2
  QueriesLemmas1 QueriesLemmas2.
Import ListNotations.
Open Scope nat_scope.

(** the line from [t] in direction [d] on the empty board *)
Definition line (t : nat) (d : Z * Z) : list nat := ray free (file_of t) (rank_of t) (fst d) (snd d) 7.
Definition dirs8 : list (Z * Z) := rook_dirs ++ bishop_dirs.

Definition dir_eqb (d d' : Z * Z) : bool := Z.eqb (fst d) (fst d') && Z.eqb (snd d) (snd d').
Lemma dir_eqb_eq d d' : dir_eqb d d' = true -> d = d'.
Proof.
  destruct d, d'. unfold dir_eqb. cbn [fst snd]. intros H. apply andb_true_iff in H as [H1 H2].
  apply Z.eqb_eq in H1, H2. congruence.
Qed.

Fixpoint nodupb_nat (l : list nat) : bool :=
  match l with [] => true | x :: r => negb (mem_nat x r) && nodupb_nat r end.
Lemma nodupb_nat_ok l : nodupb_nat l = true -> NoDup l.
Proof.
  induction l as [|x r IH]; intros H; [constructor|]. cbn [nodupb_nat] in H.
  apply andb_true_iff in H as [H1 H2]. constructor; [|now apply IH].
  intros Hin. apply mem_nat_In in Hin. rewrite Hin in H1. discriminate.
Qed.

Fixpoint list_eqb (a b : list nat) : bool :=
  match a, b with
  | [], [] => true
  | x :: a', y :: b' => Nat.eqb x y && list_eqb a' b'
  | _, _ => false
  end.
Lemma list_eqb_eq a : forall b, list_eqb a b = true -> a = b.
Proof.
  induction a as [|x a IH]; intros [|y b] H; try discriminate; [reflexivity|].
  cbn [list_eqb] in H. apply andb_true_iff in H as [H1 H2]. apply Nat.eqb_eq in H1. subst y.
  f_equal. now apply IH.
Qed.

(** finite checks *)
Definition line_nodup_ok : bool :=
  forallb (fun t => forallb (fun d => nodupb_nat (line t d)) dirs8) all_squares.
Definition line_disj_ok : bool :=
  forallb (fun t => forallb (fun d => forallb (fun d' =>
     dir_eqb d d' || forallb (fun x => negb (mem_nat x (line t d'))) (line t d)) dirs8) dirs8) all_squares.
Definition line_after_ok : bool :=
  forallb (fun t => forallb (fun d => forallb (fun p => list_eqb (after p (line t d)) (line p d)) (line t d)) dirs8)
          all_squares.

Lemma line_nodup_ok_true : line_nodup_ok = true. Proof. vm_compute. reflexivity. Qed.
Lemma line_disj_ok_true : line_disj_ok = true. Proof. vm_compute. reflexivity. Qed.
Lemma line_after_ok_true : line_after_ok = true. Proof. vm_compute. reflexivity. Qed.

Lemma line_nodup t d : t < 64 -> In d dirs8 -> NoDup (line t d).
Proof.
  intros Ht Hd. pose proof line_nodup_ok_true as H. unfold line_nodup_ok in H.
  rewrite forallb_forall in H. specialize (H t (proj2 (in_all_squares t) Ht)).
  rewrite forallb_forall in H. apply nodupb_nat_ok. now apply H.
Qed.

(** lines in different directions from one square share no square *)
Lemma line_disj t d d' x : t < 64 -> In d dirs8 -> In d' dirs8 -> In x (line t d) -> In x (line t d') -> d = d'.
Proof.
  intros Ht Hd Hd' Hx Hx'. pose proof line_disj_ok_true as H. unfold line_disj_ok in H.
  rewrite forallb_forall in H. specialize (H t (proj2 (in_all_squares t) Ht)).
  rewrite forallb_forall in H. specialize (H d Hd). rewrite forallb_forall in H. specialize (H d' Hd').
  apply orb_true_iff in H as [H|H]; [now apply dir_eqb_eq|].
  rewrite forallb_forall in H. specialize (H x Hx). apply negb_true_iff in H.
  apply mem_nat_In in Hx'. congruence.
Qed.

(** walking on from a square of the line = the rest of the line *)
Lemma line_after t d p : t < 64 -> In d dirs8 -> In p (line t d) -> after p (line t d) = line p d.
Proof.
  intros Ht Hd Hp. pose proof line_after_ok_true as H. unfold line_after_ok in H.
  rewrite forallb_forall in H. specialize (H t (proj2 (in_all_squares t) Ht)).
  rewrite forallb_forall in H. specialize (H d Hd). rewrite forallb_forall in H.
  apply list_eqb_eq. now apply H.
Qed.

Lemma line_lt t d x : In x (line t d) -> x < 64.
Proof. unfold line. apply ray_lt. Qed.

Lemma in_dirs8_rook d : In d rook_dirs -> In d dirs8.
Proof. intros H. unfold dirs8. apply in_or_app. now left. Qed.
Lemma in_dirs8_bishop d : In d bishop_dirs -> In d dirs8.
Proof. intros H. unfold dirs8. apply in_or_app. now right. Qed.
Lemma rook_bishop_dirs_disjoint d : In d rook_dirs -> In d bishop_dirs -> False.
Proof.
  unfold rook_dirs, bishop_dirs. cbn [In]. intros H1 H2.
  repeat (destruct H1 as [H1|H1]; [subst d; repeat (destruct H2 as [H2|H2]; [discriminate|]); exact H2|]).
  exact H1.
Qed.

(** [first_occupied] is [find] along the empty-board line *)
Lemma first_occupied_find b df dr n : forall f r,
  first_occupied b f r df dr n = find (occupied b) (ray free f r df dr n).
Proof.
  induction n as [|n IH]; intros f r; [reflexivity|].
  cbn [first_occupied ray]. destruct (on_board (f + df) (r + dr)); [|reflexivity].
  unfold free at 1. cbn [find]. destruct (occupied b (sq_of (f + df) (r + dr))); [reflexivity|apply IH].
Qed.

Lemma first_occupied_line b t d :
  first_occupied b (file_of t) (rank_of t) (fst d) (snd d) 7 = find (occupied b) (line t d).
Proof. apply first_occupied_find. Qed.

(** [reach] (MoveGen1) is [reachL] on the lines from the square *)
Lemma reach_reachL occ dirs s t : reach occ dirs s t = reachL (Z * Z) (line s) dirs occ t.
Proof. reflexivity. Qed.

Lemma reach_ext occ occ' dirs s t : (forall x, occ x = occ' x) -> reach occ dirs s t = reach occ' dirs s t.
Proof. intros H. rewrite <- !slide_mem. now rewrite (slide_ext_all occ occ' s dirs H). Qed.

(** the attack boards through [reach] *)
Open Scope N_scope.
Definition line_ok (ab : rotated -> N -> N) (dirs : list (Z * Z)) : Prop :=
  forall occ sq x, sq < 64 ->
    N.testbit (ab (new_rotated occ) sq) x = (x <? 64) && reach (Statements.occ_of occ) dirs (N.to_nat sq) (N.to_nat x).

Lemma rook_line_ok : line_ok rook_attackboard rook_dirs.
Proof.
  intros occ sq x Hsq. rewrite Statements.rook_attack_geometric by exact Hsq.
  cbn [attacks_from]. now rewrite slide_mem.
Qed.
Lemma bishop_line_ok : line_ok bishop_attackboard bishop_dirs.
Proof.
  intros occ sq x Hsq. rewrite Statements.bishop_attack_geometric by exact Hsq.
  cbn [attacks_from]. now rewrite slide_mem.
Qed.

Print Assumptions line_after.
Print Assumptions line_disj.
Print Assumptions rook_line_ok.
