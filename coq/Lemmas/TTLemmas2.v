(** C17 -- transposition table under concurrent use, part 2: the fill counter.
    [used_counts_slots] (atomic increment), monotone occupancy, [used_racy_refuted] (the code as found:
    plain [t.used++]), and the one-sided bound that survives the race. *)
From Coq Require Import NArith ZArith List Bool Lia Arith.
From Morlock.Model Require Import Bits Score Move TT.
From Morlock.Lemmas Require Import TTLemmas.
Import ListNotations.
Open Scope N_scope.

(** * Counting *)
Definition cnt {A} (f : A -> bool) (l : list A) : nat := length (filter f l).
Definition b2nat (b : bool) : nat := if b then 1%nat else 0%nat.

Lemma cnt_upd {A} (f : A -> bool) l i t t' :
  nth_error l i = Some t -> (cnt f (upd l i t') + b2nat (f t) = cnt f l + b2nat (f t'))%nat.
Proof.
  unfold cnt. revert i; induction l as [|x l IH]; intros [|i] H; simpl in *; try discriminate.
  - inversion H; subst x. destruct (f t), (f t'); simpl; lia.
  - specialize (IH i H). destruct (f x); simpl; lia.
Qed.

Lemma cnt_le_length {A} (f : A -> bool) l : (cnt f l <= length l)%nat.
Proof. unfold cnt. induction l as [|x l IH]; simpl; auto. destruct (f x); simpl; lia. Qed.

Lemma upd_overflow {A} (l : list A) i v : (length l <= i)%nat -> upd l i v = l.
Proof. revert i; induction l as [|x l IH]; intros [|i] H; simpl in *; auto; try lia. f_equal. apply IH. lia. Qed.

Definition is_some {A} (p : option A) : bool := match p with Some _ => true | None => false end.
Definition is_bump (t : thread) : bool := match t_pc t with PBump => true | _ => false end.
Definition is_bl (t : thread) : bool := match t_pc t with PBumpLoaded _ => true | _ => false end.
Definition is_pending (t : thread) : bool := match t_pc t with PBump | PBumpLoaded _ => true | _ => false end.

Lemma c_occupied_cnt s : c_occupied s = N.of_nat (cnt is_some (c_slots s)).
Proof. reflexivity. Qed.

Lemma c_occupied_le s : c_occupied s <= N.of_nat (length (c_slots s)).
Proof. rewrite c_occupied_cnt. pose proof (cnt_le_length (@is_some nat) (c_slots s)). lia. Qed.

(** effect of a CAS on the number of occupied slots *)
Lemma occ_cas sl k old fresh :
  (N.to_nat k < length sl)%nat -> nthN sl k None = old ->
  (cnt is_some (updN sl k (Some fresh)) + b2nat (@is_some nat old) = cnt is_some sl + 1)%nat.
Proof.
  intros Hk Ho. unfold updN, nthN in *.
  pose proof (tt_nth_error_nth sl (N.to_nat k) None Hk) as E. rewrite Ho in E.
  apply (cnt_upd is_some sl (N.to_nat k) old (Some fresh)) in E. simpl in E. exact E.
Qed.

(** * A slot, once occupied, stays occupied *)
Theorem occupied_stays a s i s' k id :
  cstep a s i = Some s' -> nth_error (c_slots s) k = Some (Some id) ->
  exists id', nth_error (c_slots s') k = Some (Some id').
Proof.
  intros H Hk. destruct (list_eq_dec (fun x y : option nat => ltac:(decide equality; apply Nat.eq_dec))
                                     (c_slots s') (c_slots s)) as [E|Hne].
  - rewrite E. eauto.
  - destruct (replace_monotone _ _ _ _ H Hne) as (k0 & fresh & E & _ & _). rewrite E. unfold updN.
    destruct (Nat.eq_dec (N.to_nat k0) k) as [<-|Hn].
    + exists fresh. apply tt_nth_error_upd_eq. apply nth_error_Some. congruence.
    + exists id. rewrite tt_nth_error_upd_neq; auto.
Qed.

Theorem occupied_stays_run a sched : forall s k id,
  nth_error (c_slots s) k = Some (Some id) -> exists id', nth_error (c_slots (crun a s sched)) k = Some (Some id').
Proof.
  induction sched as [|i sched IH]; intros s k id Hk; [eauto|].
  rewrite crun_cons. destruct (cstep a s i) as [s'|] eqn:E; [|eauto].
  destruct (occupied_stays _ _ _ _ _ _ E Hk) as [id' Hk']. eauto.
Qed.

Theorem occupied_monotone a s i s' : cstep a s i = Some s' -> c_occupied s <= c_occupied s'.
Proof.
  intro H. rewrite !c_occupied_cnt.
  destruct (list_eq_dec (fun x y : option nat => ltac:(decide equality; apply Nat.eq_dec))
                        (c_slots s') (c_slots s)) as [E|Hne].
  - rewrite E. lia.
  - destruct (replace_monotone _ _ _ _ H Hne) as (k0 & fresh & E & _ & _). rewrite E.
    destruct (Nat.lt_ge_cases (N.to_nat k0) (length (c_slots s))) as [Hl|Hl].
    + pose proof (occ_cas (c_slots s) k0 _ fresh Hl eq_refl) as Ho.
      destruct (nthN (c_slots s) k0 None); simpl in Ho; lia.
    + unfold updN. rewrite upd_overflow by exact Hl. lia.
Qed.

Theorem occupied_monotone_run a sched : forall s, c_occupied s <= c_occupied (crun a s sched).
Proof.
  induction sched as [|i sched IH]; intro s; [simpl; lia|].
  rewrite crun_cons. destruct (cstep a s i) as [s'|] eqn:E; auto.
  pose proof (occupied_monotone _ _ _ _ E). pose proof (IH s'). lia.
Qed.

(** * The counter.  One invariant for both variants:
    [D] = occupied slots minus pending counter updates never decreases; the counter and every value a thread
    has read from the counter stay below it.  With the atomic increment the first is an equality. *)
Definition pendingN (s : cstate) : N := N.of_nat (cnt is_pending (c_threads s)).
Definition bumpN (s : cstate) : N := N.of_nat (cnt is_bump (c_threads s)).

Record UInv (s : cstate) : Prop := mkUInv {
  ui_used : c_used s + pendingN s <= c_occupied s;
  ui_loaded : forall j tj u, nth_error (c_threads s) j = Some tj -> t_pc tj = PBumpLoaded u ->
                             u + pendingN s <= c_occupied s }.

Record UInvA (s : cstate) : Prop := mkUInvA {
  ua_eq : c_used s + bumpN s = c_occupied s;
  ua_nobl : forall j tj u, nth_error (c_threads s) j = Some tj -> t_pc tj <> PBumpLoaded u }.

Ltac step_cases H :=
  apply cstep_inv in H;
  destruct H as [t hash rest Ht Hpc Hops
                |t hash bound ply depth sc m rest Ht Hpc Hops
                |t fr ptr hash bound ply depth sc m rest Ht Hpc Hops Hv
                |t fr hash bound ply depth sc m rest Ht Hpc Hops Hv Hcur
                |t fr p hash bound ply depth sc m rest Ht Hpc Hops Hv Hcur
                |t fr ptr hash bound ply depth sc m rest Ht Hpc Hops Hv Hcur
                |t op rest Ha Ht Hpc Hops
                |t op rest Ha Ht Hpc Hops
                |t u0 op rest Ht Hpc Hops].

Ltac cnt_thread f Ht Hpc :=
  match goal with
  | |- context [cnt f (upd ?l ?i ?t')] =>
      let E := fresh "Ecnt" in
      pose proof (cnt_upd f l i _ t' Ht) as E; unfold f at 2 4 in E; rewrite Hpc in E; simpl in E
  end.

Theorem UInvA_step n progs s i s' :
  CInv n progs s -> UInvA s -> cstep true s i = Some s' -> UInvA s'.
Proof.
  intros HC [Heq Hnb] H.
  assert (Hlen : (0 < length (c_slots s))%nat) by (destruct (ci_len _ _ _ HC); lia).
  step_cases H; (split;
    [ unfold bumpN in *; rewrite c_occupied_cnt in *; simpl; cnt_thread is_bump Ht Hpc
    | simpl; intros j tj u Hj; apply tt_nth_error_upd_inv in Hj; destruct Hj as [[-> ->]|[_ Hj]];
      [simpl; discriminate | eapply Hnb; eauto] ]); try lia.
  - pose proof (occ_cas (c_slots s) (c_key s hash) _ fr (c_key_lt s hash Hlen) Hcur) as Ho. simpl in Ho. lia.
  - pose proof (occ_cas (c_slots s) (c_key s hash) _ fr (c_key_lt s hash Hlen) Hcur) as Ho. simpl in Ho. lia.
  - exfalso. eapply Hnb; eauto.
Qed.

Lemma cnt_map_none {A B} (f : B -> bool) (g : A -> B) l : (forall x, f (g x) = false) -> cnt f (map g l) = 0%nat.
Proof. intro H. unfold cnt. induction l as [|x l IH]; simpl; auto. rewrite H. auto. Qed.

Lemma cnt_repeat_none {A} (f : A -> bool) x n : f x = false -> cnt f (repeat x n) = 0%nat.
Proof. intro H. unfold cnt. induction n as [|n IH]; simpl; auto. rewrite H. auto. Qed.

Lemma UInvA_init n progs : UInvA (c_init n progs).
Proof.
  split.
  - unfold bumpN. rewrite c_occupied_cnt. simpl.
    rewrite cnt_map_none by reflexivity. rewrite cnt_repeat_none by reflexivity. reflexivity.
  - simpl. intros j tj u Hj. rewrite nth_error_map in Hj. destruct (nth_error progs j); [|discriminate].
    inversion Hj; subst tj. simpl. discriminate.
Qed.

Lemma UInvA_run n progs sched :
  (0 < n)%nat -> let s := crun true (c_init n progs) sched in CInv n progs s /\ UInvA s.
Proof.
  intro Hn. apply crun_invariant with (P := fun s => CInv n progs s /\ UInvA s).
  - intros s i s' [HC HU] Hst. split; [eapply CInv_step; eauto|eapply UInvA_step; eauto].
  - split; [apply CInv_init; auto|apply UInvA_init].
Qed.

Lemma quiescent_no_pending (f : thread -> bool) s :
  (forall t, t_pc t = PIdle -> f t = false) -> c_quiescent s = true -> cnt f (c_threads s) = 0%nat.
Proof.
  intros Hf Hq. unfold c_quiescent in Hq. unfold cnt.
  induction (c_threads s) as [|t l IH]; simpl in *; auto.
  apply andb_true_iff in Hq. destruct Hq as [Ht Hl].
  rewrite Hf; auto. destruct (t_pc t); auto; discriminate.
Qed.

(** ** used_counts_slots (atomic increment): for every number of threads, all programs, all schedules *)
Theorem used_counts_slots n progs sched :
  (0 < n)%nat ->
  let s := crun true (c_init n progs) sched in
  c_used s + N.of_nat (cnt is_bump (c_threads s)) = c_occupied s /\
  0 <= c_used s <= N.of_nat n /\
  length (c_slots s) = n /\
  (c_quiescent s = true -> c_used s = c_occupied s).
Proof.
  intros Hn s. destruct (UInvA_run n progs sched Hn) as [HC [Heq _]]. fold s in HC, Heq.
  destruct (ci_len _ _ _ HC) as [Hl _]. pose proof (c_occupied_le s) as Hle. rewrite Hl in Hle.
  unfold bumpN in Heq. repeat split; auto; try lia.
  intro Hq. rewrite (quiescent_no_pending is_bump s) in Heq; auto; [simpl in Heq; lia|].
  intros t Hpc. unfold is_bump. rewrite Hpc. reflexivity.
Qed.

(** the sequential reading: what [Used()] reports is [c_used / nslots]; it is a fraction in [0,1] that equals
    the true fill whenever no store is in flight *)
Corollary fill_fraction_exact n progs sched :
  (0 < n)%nat ->
  let s := crun true (c_init n progs) sched in
  c_quiescent s = true -> (c_used s, N.of_nat (length (c_slots s))) = (c_occupied s, N.of_nat n) /\ c_occupied s <= N.of_nat n.
Proof.
  intros Hn s Hq. destruct (used_counts_slots n progs sched Hn) as (_ & Hb & Hl & He). fold s in Hb, Hl, He.
  rewrite Hl, (He Hq). split; auto. rewrite <- (He Hq). lia.
Qed.

(** ** The one-sided bound holds for BOTH variants (so the racy counter never over-reports) *)
Theorem UInv_step a n progs s i s' :
  CInv n progs s -> UInv s -> cstep a s i = Some s' -> UInv s'.
Proof.
  intros HC [Hu Hld] H.
  assert (Hlen : (0 < length (c_slots s))%nat) by (destruct (ci_len _ _ _ HC); lia).
  step_cases H; (split;
    [ unfold pendingN in *; rewrite c_occupied_cnt in *; simpl; cnt_thread is_pending Ht Hpc
    | unfold pendingN in *; rewrite c_occupied_cnt in *; simpl; cnt_thread is_pending Ht Hpc;
      intros j tj u Hj Hpj; apply tt_nth_error_upd_inv in Hj; destruct Hj as [[-> ->]|[_ Hj]];
      [simpl in Hpj; try discriminate | specialize (Hld j tj u Hj Hpj)] ]); try lia.
  - pose proof (occ_cas (c_slots s) (c_key s hash) _ fr (c_key_lt s hash Hlen) Hcur) as Ho. simpl in Ho. lia.
  - pose proof (occ_cas (c_slots s) (c_key s hash) _ fr (c_key_lt s hash Hlen) Hcur) as Ho. simpl in Ho. lia.
  - pose proof (occ_cas (c_slots s) (c_key s hash) _ fr (c_key_lt s hash Hlen) Hcur) as Ho. simpl in Ho. lia.
  - pose proof (occ_cas (c_slots s) (c_key s hash) _ fr (c_key_lt s hash Hlen) Hcur) as Ho. simpl in Ho. lia.
  - inversion Hpj; subst u. lia.
  - specialize (Hld i t u0 Ht Hpc). lia.
Qed.

Lemma UInv_init n progs : UInv (c_init n progs).
Proof.
  split.
  - unfold pendingN. rewrite c_occupied_cnt. simpl.
    rewrite cnt_map_none by reflexivity. rewrite cnt_repeat_none by reflexivity. reflexivity.
  - simpl. intros j tj u Hj Hp. rewrite nth_error_map in Hj. destruct (nth_error progs j); [|discriminate].
    inversion Hj; subst tj. simpl in Hp. discriminate.
Qed.

(** for the code as found AND the repaired one: the counter never exceeds the number of occupied slots,
    so the reported fill fraction is always in [0,1] -- it can only under-report *)
Theorem used_le_occupied a n progs sched :
  (0 < n)%nat ->
  let s := crun a (c_init n progs) sched in
  c_used s <= c_occupied s /\ c_occupied s <= N.of_nat n /\ 0 <= c_used s <= N.of_nat n.
Proof.
  intros Hn s.
  assert (H : CInv n progs s /\ UInv s).
  { apply crun_invariant with (P := fun s => CInv n progs s /\ UInv s).
    - intros s0 i s' [HC HU] Hst. split; [eapply CInv_step; eauto|eapply UInv_step; eauto].
    - split; [apply CInv_init; auto|apply UInv_init]. }
  destruct H as [HC [Hu _]]. destruct (ci_len _ _ _ HC) as [Hl _].
  pose proof (c_occupied_le s) as Hle. rewrite Hl in Hle. lia.
Qed.

(** ** used_racy_refuted: the code as found ([t.used++], two plain steps) loses updates.
    Two threads store into two different empty slots; both read the counter (0) before either writes it back. *)
Definition racy_progs : list (list top) :=
  [ [TWrite 0 0 1%Z 2%Z (Score.mate_in 3) (Move.mkMove 1 12 28 1 0 0)];
    [TWrite 1 1 2%Z 3%Z (Score.heuristic 0) (Move.mkMove 0 6 21 2 0 0)] ].
Definition racy_sched : list nat := [0;1;0;1;0;1;0;1]%nat.

Example used_racy_refuted :
  let s := crun false (c_init 2 racy_progs) racy_sched in
  c_quiescent s = true /\ c_slots s = [Some 0%nat; Some 1%nat] /\ c_occupied s = 2 /\ c_used s = 1.
Proof. vm_compute. repeat split; reflexivity. Qed.

(** hence the equality of [used_counts_slots] is false for the plain increment *)
Theorem used_counts_slots_fails_when_racy :
  ~ (forall n progs sched, (0 < n)%nat ->
       let s := crun false (c_init n progs) sched in c_quiescent s = true -> c_used s = c_occupied s).
Proof.
  intro H. specialize (H 2%nat racy_progs racy_sched ltac:(lia)). vm_compute in H. specialize (H eq_refl). discriminate.
Qed.

(** the same programs and schedule with the atomic increment count correctly (non-vacuity of [used_counts_slots]) *)
Example used_atomic_same_schedule :
  let s := crun true (c_init 2 racy_progs) racy_sched in
  c_quiescent s = true /\ c_occupied s = 2 /\ c_used s = 2.
Proof. vm_compute. repeat split; reflexivity. Qed.

(** a state with a pending increment: used + #PBump = occupied with #PBump = 1 *)
Example used_atomic_midway :
  let s := crun true (c_init 2 racy_progs) [0;1;0;1;0]%nat in
  c_used s = 1 /\ cnt is_bump (c_threads s) = 1%nat /\ c_occupied s = 2 /\ c_quiescent s = false.
Proof. vm_compute. repeat split; reflexivity. Qed.

Print Assumptions occupied_stays_run.
Print Assumptions occupied_monotone_run.
Print Assumptions used_counts_slots.
Print Assumptions fill_fraction_exact.
Print Assumptions used_le_occupied.
Print Assumptions used_racy_refuted.
Print Assumptions used_counts_slots_fails_when_racy.
