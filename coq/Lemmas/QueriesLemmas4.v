(** QueriesLemmas4 — one x-ray sweep of FindPins ([pins_on_line]) in terms of the mailbox board:
    (attacker, pinned, target) is reported iff [pinned] is an own piece, it is the first piece seen
    from the target in one of the sweep's directions, and the first piece behind it in that direction
    is an enemy queen or slider of the sweep's kind.  In particular the word [candidate] of pins.go
    never has more than one bit ([candidate_one_bit]). *)
From Coq Require Import NArith ZArith List Bool Lia ZifyBool ZifyNat ZifyN.
From Morlock.Model Require Import Bits Attacks Move Position Abs Queries.
From Morlock.Spec Require Import Chess.
From Morlock.Lemmas Require Import AttackGeometry AttackGeometry_Extra PositionLemmas MoveGen1 MoveGen2
  QueriesLemmas1 QueriesLemmas2 QueriesLemmas3.
Import ListNotations.
Open Scope N_scope.

(** the word [candidate] of pins.go *)
Definition candidate (pos : position) (side target : N) (ab : rotated -> N -> N) (slider pinned : N) : N :=
  N.land (andnot (ab (rot_xor (rotated_bb pos) pinned) target) (ab (rotated_bb pos) target))
         (N.lor (pget pos (opponent side) Queen) (pget pos (opponent side) slider)).

Lemma pins_on_line_unfold pos side target ab slider :
  pins_on_line pos side target ab slider =
  flat_map (fun pinned => if candidate pos side target ab slider pinned =? 0 then []
                          else [(ctz (candidate pos side target ab slider pinned), pinned, target)])
           (bits_asc (N.land (ab (rotated_bb pos) target) (pget pos side NoPiece))).
Proof. reflexivity. Qed.

(** "walking from [t] in direction [d], the first piece is on [p], and the first piece behind it on [a]" *)
Definition pin_geometry (b : mboard) (dirs : list (Z * Z)) (t p a : nat) : Prop :=
  exists d, In d dirs /\
    first_occupied b (file_of t) (rank_of t) (fst d) (snd d) 7 = Some p /\
    first_occupied b (file_of p) (rank_of p) (fst d) (snd d) 7 = Some a.

Section Sweep.
  Variables (pos : position) (side t : N) (ab : rotated -> N -> N) (dirs : list (Z * Z)) (slider : N).
  Hypothesis HI : Inv pos.
  Hypothesis Hc : vcol side.
  Hypothesis Ht : t < 64.
  Hypothesis Hab : line_ok ab dirs.
  Hypothesis Hsub : forall d, In d dirs -> In d dirs8.
  Hypothesis Hsl : vpc slider.

  Notation b := (brd (abs_pos pos)).
  Notation occ := (occupied (brd (abs_pos pos))).
  Notation tn := (N.to_nat t).
  Notation attackers := (N.lor (pget pos (opponent side) Queen) (pget pos (opponent side) slider)).

  Lemma occ_bit x : occ (N.to_nat x) = N.testbit (all_bb pos) x.
  Proof. rewrite (occupied_abs pos HI). unfold AttackGeometry2.occ_of. now rewrite N2Nat.id. Qed.

  Lemma line_bit x :
    N.testbit (ab (rotated_bb pos) t) x = (x <? 64) && reach occ dirs tn (N.to_nat x).
  Proof.
    pose proof HI as [_ [_ [_ [_ [_ [Hrot _]]]]]]. rewrite Hrot, Hab by exact Ht. f_equal.
    apply reach_ext. intros y. symmetry. apply (occupied_abs pos HI).
  Qed.

  Lemma xray_bit p x : p < 64 -> N.testbit (all_bb pos) p = true ->
    N.testbit (ab (rot_xor (rotated_bb pos) p) t) x =
    (x <? 64) && reach (without occ (N.to_nat p)) dirs tn (N.to_nat x).
  Proof.
    intros Hp Hop. pose proof HI as [_ [_ [_ [_ [_ [Hrot _]]]]]].
    rewrite Hrot, Statements.rotated_xor_lockstep, Hab by assumption. f_equal.
    apply reach_ext. intros y. unfold Statements.occ_of, without.
    rewrite N.lxor_spec, PositionLemmas.tb_bitmask, (occupied_abs pos HI). unfold AttackGeometry2.occ_of.
    destruct (Nat.eqb_spec y (N.to_nat p)) as [->|Hne].
    - rewrite N2Nat.id, Hop, N.eqb_refl. destruct (N.ltb_spec p 64); [reflexivity|lia].
    - destruct (N.eqb_spec (N.of_nat y) p) as [E|E]; [lia|].
      now rewrite andb_false_r, xorb_false_r, andb_true_r.
  Qed.

  Lemma own_occupied p : N.testbit (pget pos side NoPiece) p = true -> p < 64 /\ N.testbit (all_bb pos) p = true.
  Proof.
    intros H. split; [eapply word_tb_lt; [apply pget_word; exact HI|exact H]|].
    rewrite (Inv_all _ _ HI). destruct Hc as [E|E]; subst side; unfold White, Black; rewrite H; auto using orb_true_r.
  Qed.

  Lemma attacker_occupied a : N.testbit attackers a = true -> a < 64 /\ N.testbit (all_bb pos) a = true.
  Proof.
    intros H. rewrite N.lor_spec in H. pose proof (vcol_opponent side) as Ho.
    apply orb_true_iff in H as [H|H].
    - split; [eapply word_tb_lt; [apply pget_word; exact HI|exact H]|].
      eapply (Inv_piece_all pos (opponent side) Queen); eauto. unfold vpc, Queen. lia.
    - split; [eapply word_tb_lt; [apply pget_word; exact HI|exact H]|].
      eapply (Inv_piece_all pos (opponent side) slider); eauto.
  Qed.

  Lemma Hnd : forall d, In d dirs -> NoDup (line tn d).
  Proof. intros d Hd. apply line_nodup; [lia|auto]. Qed.
  Lemma Hdj : forall d d' x, In d dirs -> In d' dirs -> In x (line tn d) -> In x (line tn d') -> d = d'.
  Proof. intros d d' x Hd Hd'. apply line_disj; [lia|auto|auto]. Qed.

  (** the bits of [candidate] *)
  Lemma candidate_bit p a : p < 64 -> N.testbit (all_bb pos) p = true ->
    (N.testbit (candidate pos side t ab slider p) a = true <->
     N.testbit attackers a = true /\ behind (Z * Z) (line tn) dirs occ (N.to_nat p) (N.to_nat a)).
  Proof.
    intros Hp Hop. unfold candidate, andnot.
    rewrite N.land_spec, N.ldiff_spec, xray_bit, line_bit by assumption.
    assert (Hoc : occ (N.to_nat p) = true) by now rewrite occ_bit.
    rewrite <- (xray_dirs (Z * Z) (line tn) dirs Hnd Hdj occ _ _ Hoc).
    unfold revealed. rewrite <- !reach_reachL. split.
    - intros H. apply andb_true_iff in H as [H Hatt]. apply andb_true_iff in H as [H1 H2].
      apply andb_true_iff in H1 as [Ha H1]. rewrite Ha, andb_true_l in H2. apply negb_true_iff in H2.
      split; [exact Hatt|]. split; [exact H1|]. split; [exact H2|].
      rewrite occ_bit. now apply attacker_occupied.
    - intros [Hatt [H1 [H2 _]]]. destruct (attacker_occupied a Hatt) as [Ha _].
      destruct (N.ltb_spec a 64); [|lia]. now rewrite H1, H2, Hatt.
  Qed.

  (** the subtle point of pins.go: removing one pinned piece reveals at most one attacker, so
      [LastPopSquare(candidate)] is THE attacker *)
  Theorem candidate_one_bit p a a' : N.testbit (pget pos side NoPiece) p = true ->
    N.testbit (candidate pos side t ab slider p) a = true ->
    N.testbit (candidate pos side t ab slider p) a' = true -> a = a'.
  Proof.
    intros Hown H1 H2. destruct (own_occupied p Hown) as [Hp Hop].
    apply candidate_bit in H1 as [_ H1]; try assumption. apply candidate_bit in H2 as [_ H2]; try assumption.
    apply N2Nat.inj. eapply (behind_unique (Z * Z) (line tn) dirs Hdj); eassumption.
  Qed.

  Lemma behind_geometry p a :
    behind (Z * Z) (line tn) dirs occ p a <-> pin_geometry b dirs tn p a.
  Proof.
    unfold behind, pin_geometry. split; intros [d [Hd [H1 H2]]]; exists d; (split; [exact Hd|]).
    - rewrite !first_occupied_line. split; [exact H1|].
      rewrite <- (line_after tn d p); [exact H2|lia|auto|]. apply find_some in H1. tauto.
    - rewrite !first_occupied_line in *. split; [exact H1|].
      rewrite (line_after tn d p); [exact H2|lia|auto|]. apply find_some in H1. tauto.
  Qed.

  (** membership in one sweep *)
  Theorem in_pins_on_line a p t' :
    In (a, p, t') (pins_on_line pos side t ab slider) <->
    t' = t /\ N.testbit (pget pos side NoPiece) p = true /\ N.testbit attackers a = true /\
    pin_geometry b dirs tn (N.to_nat p) (N.to_nat a).
  Proof.
    rewrite pins_on_line_unfold, in_flat_map. split.
    - intros [p0 [Hp0 H]]. apply bits_asc_spec in Hp0. rewrite N.land_spec in Hp0.
      apply andb_true_iff in Hp0 as [Hline Hown]. destruct (own_occupied p0 Hown) as [Hp Hop].
      destruct (N.eqb_spec (candidate pos side t ab slider p0) 0) as [E|E]; [destruct H|].
      destruct H as [H|[]]. injection H as Ea Ep Et. subst a p t'.
      destruct (ctz_spec _ E) as [Hbit _]. apply candidate_bit in Hbit as [Hatt Hb]; try assumption.
      split; [reflexivity|]. split; [exact Hown|]. split; [exact Hatt|]. now apply behind_geometry.
    - intros [-> [Hown [Hatt Hg]]]. destruct (own_occupied p Hown) as [Hp Hop].
      apply behind_geometry in Hg.
      assert (Hbit : N.testbit (candidate pos side t ab slider p) a = true) by (apply candidate_bit; auto).
      exists p. split.
      + apply bits_asc_spec. rewrite N.land_spec, Hown, andb_true_r, line_bit.
        destruct (N.ltb_spec p 64); [|lia]. rewrite andb_true_l, reach_reachL.
        destruct Hg as [d [Hd [H1 _]]]. eapply find_reach; eassumption.
      + destruct (N.eqb_spec (candidate pos side t ab slider p) 0) as [E|E].
        * rewrite E, N.bits_0 in Hbit. discriminate.
        * left. destruct (ctz_spec _ E) as [Hbit' _].
          now rewrite (candidate_one_bit p _ _ Hown Hbit' Hbit).
  Qed.

  Lemma nodup_pins_on_line : NoDup (pins_on_line pos side t ab slider).
  Proof.
    rewrite pins_on_line_unfold. apply nodup_flat_map; [apply bits_asc_nodup| |].
    - intros p _. destruct (_ =? 0); [constructor|]. constructor; [intros []|constructor].
    - intros p p' z _ _ H1 H2.
      destruct (candidate pos side t ab slider p =? 0); [destruct H1|].
      destruct (candidate pos side t ab slider p' =? 0); [destruct H2|].
      destruct H1 as [<-|[]]. destruct H2 as [H2|[]]. now inversion H2.
  Qed.
End Sweep.

(** own piece / enemy slider on the mailbox board *)
Lemma own_bit_is_color pos side p : Inv pos -> vcol side -> p < 64 ->
  (N.testbit (pget pos side NoPiece) p = true <-> is_color (brd (abs_pos pos)) (color_of side) (N.to_nat p) = true).
Proof.
  intros HI Hc Hp. unfold is_color. split.
  - intros H. apply Inv_union_some in H as [pc [Hpc H]]; try assumption.
    destruct (vpc_kind _ Hpc) as [k ->]. apply at_piece in H; try assumption. rewrite H.
    now apply color_eqb_eq.
  - destruct (at_ (brd (abs_pos pos)) (N.to_nat p)) as [[c' k]|] eqn:E; [|discriminate].
    intros H. apply color_eqb_eq in H. subst c'. apply at_piece in E; try assumption.
    apply Inv_union_some; try assumption. exists (code_of_kind k). split; [apply vpc_code|exact E].
Qed.

Lemma attacker_bit_at pos side sk a : Inv pos -> vcol side -> a < 64 ->
  (N.testbit (N.lor (pget pos (opponent side) Queen) (pget pos (opponent side) (code_of_kind sk))) a = true <->
   exists k', at_ (brd (abs_pos pos)) (N.to_nat a) = Some (other (color_of side), k') /\ (k' = Q \/ k' = sk)).
Proof.
  intros HI Hc Ha. pose proof (vcol_opponent side) as Ho. rewrite (other_color_of side Hc), N.lor_spec, orb_true_iff.
  change Queen with (code_of_kind Q). split.
  - intros [H|H]; apply at_piece in H; try assumption; eauto.
  - intros [k' [H [->| ->]]]; apply at_piece in H; auto.
Qed.

Print Assumptions candidate_one_bit.
Print Assumptions in_pins_on_line.
