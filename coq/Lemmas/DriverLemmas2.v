(** * Driver transition system: effect of one step on the output (no_stale_bestmove,
      isready_answered in step form), and the four safety theorems over reachable states. *)
From Coq Require Import List Bool Arith PeanoNat Lia.
From Morlock.Model Require Import Driver.
From Morlock.Lemmas Require Import DriverLemmas1.
Import ListNotations.

Ltac crush_loop :=
  unfold handle_cmd, handle_upd, ensure_inactive, engine_halt, run_cont, do_exit, finish, launch,
         book_go, search_completed, emit in *; simpl in *; dmatch; simpl in *; bool2prop.

(** what a new line says about the step that emitted it *)
Definition new_ok (s s' : dstate) (x : out_line) : Prop :=
  match x with
  | LReady => pc s = PIdle /\ exists rest, inp s = CIsReady :: rest /\ inp s' = rest
  | LInfo q d => q = active s /\ active s' = q /\ searches s' = searches s
  | LBest q d => q <> 0 /\ q = searches s' /\ active s' = 0
                 /\ ((active s = q /\ searches s = q) \/ searches s' = S (searches s))
  end.

Section Effect.
  Variable cap : nat.

  Theorem step_effect : forall s s', InvA s -> step cap s s' ->
    searches s <= searches s'
    /\ (active s' = active s \/ active s' = 0 \/ (active s' = searches s' /\ searches s' = S (searches s)))
    /\ (emitted s' = emitted s \/ exists x, emitted s' = x :: emitted s /\ new_ok s s' x).
  Proof.
    intros s s' I [l H]. apply fire_view in H.
    assert (A := a_act s I). assert (K := a_cont s I).
    destruct H; simpl; try (split; [lia|split; auto]).
    - crush_loop; (split; [lia|split; auto]).
    - destruct c; crush_loop; (split; [try lia|split; auto]); try lia.
      all: try (right; eexists; split; [reflexivity|]; simpl; eauto 10).
      all: try (right; eexists; split; [reflexivity|]; simpl; repeat split; auto; lia).
    - destruct u; crush_loop; (split; [try lia|split; auto]); try lia.
      all: try (right; eexists; split; [reflexivity|]; simpl; repeat split; auto; lia).
    - rewrite H in K. destruct k; crush_loop; (split; [try lia|split; auto]); try lia.
      all: try (right; eexists; split; [reflexivity|]; simpl; repeat split; auto; lia).
  Qed.
End Effect.

(** ** The safety theorems over all reachable states *)
Section Safety.
  Variable cap : nat.
  Variable script : list cmd.

  (** C16: no send on the closed output channel (the only writer is the loop, which closes the
      output when it exits). *)
  Theorem no_send_on_closed : forall s, reachable cap script s -> crashed s = false.
  Proof. intros s R. apply (a_crash s (InvA_reachable cap script s R)). Qed.

  Theorem output_closed_iff_exited : forall s, reachable cap script s ->
    (out_closed s = true <-> pc s = PExited).
  Proof. intros s R. apply (a_closed s (InvA_reachable cap script s R)). Qed.

  (** C04: at most one bestmove per search. *)
  Theorem at_most_one_bestmove : forall s, reachable cap script s ->
    forall q, count_best q (emitted s) <= 1.
  Proof. intros s R. apply (a_one s (InvA_reachable cap script s R)). Qed.

  (** [active] is 0 or the latest search. *)
  Theorem active_is_latest : forall s, reachable cap script s -> active s = 0 \/ active s = searches s.
  Proof. intros s R. apply (a_act s (InvA_reachable cap script s R)). Qed.

  (** C16: a bestmove line is new in a step only if it is for the latest go, and either [active]
      held its sequence number before the step (and is cleared by it), or the step itself consumed
      that go (book move). *)
  Theorem no_stale_bestmove_step : forall s s', reachable cap script s -> step cap s s' ->
    forall q d, In (LBest q d) (emitted s') -> ~ In (LBest q d) (emitted s) ->
      q <> 0 /\ q = searches s' /\ active s' = 0
      /\ ((active s = q /\ searches s = q) \/ searches s' = S (searches s)).
  Proof.
    intros s s' R St q d Hin Hnot.
    destruct (step_effect cap s s' (InvA_reachable cap script s R) St) as [_ [_ [E|[x [E N]]]]].
    - rewrite E in Hin. contradiction.
    - rewrite E in Hin. destruct Hin as [->|Hin]; [|contradiction]. exact N.
  Qed.

  (** A search is [dead] once [active] has moved away from it; dead searches stay dead and never
      get a bestmove any more.  Every search but the latest is dead, and so is the latest after
      a superseding command (see [superseded_dead]) or its own answer. *)
  Definition dead (s : dstate) (q : nat) : Prop := q <> 0 /\ q <= searches s /\ active s <> q.

  Lemma dead_step : forall s s' q, reachable cap script s -> step cap s s' -> dead s q ->
    dead s' q /\ (forall d, In (LBest q d) (emitted s') -> In (LBest q d) (emitted s)).
  Proof.
    intros s s' q R St [D0 [D1 D2]].
    destruct (step_effect cap s s' (InvA_reachable cap script s R) St) as [M [A E]].
    split.
    - repeat split; auto; lia.
    - intros d Hin. destruct E as [E|[x [E N]]]; rewrite E in Hin; auto.
      destruct Hin as [->|Hin]; auto. simpl in N. lia.
  Qed.

  Inductive star : dstate -> dstate -> Prop :=
  | star_refl : forall s, star s s
  | star_step : forall s s' s'', star s s' -> step cap s' s'' -> star s s''.

  Lemma star_reachable : forall s s', reachable cap script s -> star s s' -> reachable cap script s'.
  Proof. intros s s' R St. induction St; auto. eapply reach_step; [apply IHSt; exact R | exact H]. Qed.

  Theorem no_stale_bestmove : forall s s' q, reachable cap script s -> dead s q -> star s s' ->
    dead s' q /\ forall d, In (LBest q d) (emitted s') -> In (LBest q d) (emitted s).
  Proof.
    intros s s' q R D St. induction St.
    - split; auto.
    - destruct (IHSt R D) as [D' Hsub].
      destruct (dead_step s' s'' q (star_reachable _ _ R St) H D') as [D'' Hsub'].
      split; auto.
  Qed.

  Theorem older_searches_dead : forall s q, reachable cap script s -> q <> 0 -> q < searches s -> dead s q.
  Proof.
    intros s q R Hq Hlt. repeat split; auto; try lia.
    destruct (active_is_latest s R); lia.
  Qed.

  Definition supersedes (c : cmd) : bool :=
    match c with CIsReady | CJunk | CStop => false | _ => true end.

  (** consuming position / ucinewgame / go / quit (or a malformed go / position, or the end of
      input) kills every search started so far *)
  Theorem superseded_dead : forall s s' q, reachable cap script s -> fire cap LCmd s = Some s' ->
    (match inp s with [] => true | c :: _ => supersedes c end) = true ->
    q <> 0 -> q <= searches s -> dead s' q.
  Proof.
    intros s s' q R F Hc Hq Hle.
    assert (I := InvA_reachable cap script s R). assert (A := a_act s I).
    simpl in F. destruct (pc s) eqn:Hpc; try discriminate.
    destruct (inp s) as [|c rest] eqn:Hin; inversion F; subst; clear F.
    - unfold dead. crush_loop; repeat split; auto; lia.
    - unfold dead. destruct c; try discriminate; crush_loop; repeat split; auto; lia.
  Qed.

  (** C16: every isready consumed has been answered - in the same atomic step. *)
  Theorem isready_answered : forall s, reachable cap script s ->
    count_ready (emitted s) = count_cmd is_isready (consumed s).
  Proof. intros s R. apply (a_ready s (InvA_reachable cap script s R)). Qed.

  Theorem isready_answered_step : forall s s' rest, reachable cap script s ->
    pc s = PIdle -> inp s = CIsReady :: rest -> fire cap LCmd s = Some s' ->
    emitted s' = LReady :: emitted s /\ pc s' = PIdle /\ inp s' = rest /\ consumed s' = CIsReady :: consumed s.
  Proof.
    intros s s' rest R Hpc Hin F. simpl in F. rewrite Hpc, Hin in F. inversion F; subst. clear F.
    assert (O := closed_false s (InvA_reachable cap script s R)). rewrite Hpc in O.
    simpl. unfold emit. simpl. rewrite O by discriminate. simpl. auto.
  Qed.

  (** ghost bookkeeping: consumed and remaining input make up the script; only LCmd consumes *)
  Theorem consumed_inp : forall s, reachable cap script s -> rev (consumed s) ++ inp s = script.
  Proof.
    intros s R. induction R; auto.
    destruct H as [l H]. apply fire_view in H.
    destruct H; simpl; auto.
    - crush_loop; auto.
    - assert (E : rev (c :: consumed s) ++ rest = script).
      { simpl. rewrite <- app_assoc. simpl. rewrite <- H0. exact IHR. }
      destruct c; crush_loop; auto.
    - destruct u; crush_loop; auto.
    - destruct k; crush_loop; auto.
  Qed.
End Safety.

Print Assumptions no_send_on_closed.
Print Assumptions at_most_one_bestmove.
Print Assumptions no_stale_bestmove.
Print Assumptions no_stale_bestmove_step.
Print Assumptions superseded_dead.
Print Assumptions isready_answered.
Print Assumptions isready_answered_step.
