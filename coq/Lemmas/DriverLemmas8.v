(** * Driver transition system: the loop's way out of Halt stays open (persistence of
      enabledness), so that weak fairness for the loop and the search goroutine makes Halt return. *)
From Coq Require Import List Bool Arith PeanoNat Lia.
From Morlock.Model Require Import Driver.
From Morlock.Lemmas Require Import DriverLemmas1 DriverLemmas2 DriverLemmas3 DriverLemmas4 DriverLemmas5.
Import ListNotations.

Section Persist.
  Variable cap : nat.
  Variable script : list cmd.

  Definition closed_mono (r r' : srch) : Prop :=
    (h_init r = true -> h_init r' = true) /\ (h_quit r = true -> h_quit r' = true)
    /\ (h_done r = true -> h_done r' = true).

  Lemma closed_mono_refl : forall r, closed_mono r r.
  Proof. intros r. unfold closed_mono. tauto. Qed.

  Lemma upd_mono : forall h f l h' r, (forall r, h_id (f r) = h_id r) -> (forall r, closed_mono r (f r)) ->
    find_h h' l = Some r -> exists r', find_h h' (upd_h h f l) = Some r' /\ closed_mono r r'.
  Proof.
    intros h f l h' r Hid Hm F. rewrite (find_h_upd h f l r h' Hid F).
    eexists. split; [reflexivity|]. destruct (h' =? h); auto. apply closed_mono_refl.
  Qed.

  Lemma iter_mono : forall k b r, closed_mono r (srch_iter k b r).
  Proof.
    intros k b r. unfold closed_mono, srch_iter, srch_exit. destruct (b || h_quit r); simpl; auto.
  Qed.

  (** the closers of a search only ever close: a step of any OTHER goroutine than the loop keeps
      init / quit / done closed *)
  Lemma closers_stable : forall l s s' h r, fire cap l s = Some s' ->
    (match l with LCmd | LRecv | LHaltInit | LHaltDone => False | _ => True end) ->
    find_h h (srchs s) = Some r ->
    pc s' = pc s /\ exists r', find_h h (srchs s') = Some r' /\ closed_mono r r'.
  Proof.
    intros l s s' h r F Hl Fh. apply fire_view in F.
    destruct F; try contradiction; simpl; (split; [reflexivity|]).
    - apply upd_mono; auto. intros rr. apply (proj1 (iter_keeps k stop rr)). apply iter_mono.
    - apply upd_mono; auto. intros rr. unfold closed_mono, srch_exit; simpl; auto.
    - apply upd_mono; auto. intros rr. unfold closed_mono, srch_frecv; simpl; auto.
    - apply upd_mono; auto. intros rr. unfold closed_mono, srch_set_fwd; simpl; auto.
    - apply upd_mono; auto. intros rr. unfold closed_mono, srch_set_fwd; simpl; auto.
    - apply upd_mono; auto. intros rr. unfold closed_mono, srch_set_fwd; simpl; auto.
    - exists r. split; auto. apply closed_mono_refl.
    - apply upd_mono; auto. intros rr. unfold closed_mono, srch_set_quit; simpl; auto.
  Qed.

  (** while the loop is blocked in Halt, only its own two steps move it *)
  Lemma blocked_loop_steps : forall l s s' h k, fire cap l s = Some s' ->
    pc s = PHaltInit h k \/ pc s = PHaltDone h k ->
    l = LHaltInit \/ l = LHaltDone \/ (match l with LCmd | LRecv | LHaltInit | LHaltDone => False | _ => True end).
  Proof.
    intros l s s' h k F Hpc. destruct l; auto; simpl in F; destruct Hpc as [Hpc|Hpc]; rewrite Hpc in F; discriminate.
  Qed.

  (** once `<-h.init.Closed()` can pass it can pass until it does *)
  Theorem haltinit_persists : forall l s s' x, fire cap LHaltInit s = Some x ->
    fire cap l s = Some s' -> l <> LHaltInit -> exists x', fire cap LHaltInit s' = Some x'.
  Proof.
    intros l s s' x FI F Hl. simpl in FI. unfold with_srch in FI.
    destruct (pc s) eqn:Hpc; try discriminate.
    destruct (find_h h (srchs s)) as [r|] eqn:Fh; try discriminate.
    destruct (h_init r) eqn:Hi; try discriminate.
    destruct (blocked_loop_steps l s s' h k F (or_introl Hpc)) as [E|[E|E]]; [contradiction| |].
    - subst l. simpl in F. rewrite Hpc in F. discriminate.
    - destruct (closers_stable l s s' h r F E Fh) as [P [r' [Fr' [M _]]]].
      simpl. unfold with_srch. rewrite P, Hpc, Fr', (M Hi). eauto.
  Qed.

  (** once `<-h.done.Closed()` can pass it can pass until it does *)
  Theorem haltdone_persists : forall l s s' x, fire cap LHaltDone s = Some x ->
    fire cap l s = Some s' -> l <> LHaltDone -> exists x', fire cap LHaltDone s' = Some x'.
  Proof.
    intros l s s' x FI F Hl. simpl in FI. unfold with_srch in FI.
    destruct (pc s) eqn:Hpc; try discriminate.
    destruct (find_h h (srchs s)) as [r|] eqn:Fh; try discriminate.
    destruct (h_done r) eqn:Hi; try discriminate.
    destruct (blocked_loop_steps l s s' h k F (or_intror Hpc)) as [E|[E|E]]; [|contradiction|].
    - subst l. simpl in F. rewrite Hpc in F. discriminate.
    - destruct (closers_stable l s s' h r F E Fh) as [P [r' [Fr' [_ [_ M]]]]].
      simpl. unfold with_srch. rewrite P, Hpc, Fr', (M Hi). eauto.
  Qed.

  (** and when the loop cannot pass yet, the search it waits for can step, and that step is what
      it waits for: with init open the next completed iteration closes init; with quit closed the
      next step of the search (iteration or halt) closes done. (DriverLemmas6: iter_closes_init,
      quit_then_exit; DriverLemmas4: halt_way_forward.)  Hence, under weak fairness for the loop
      and for the search goroutine, Halt returns after at most two steps of each once scheduled. *)
  Theorem blocked_halt_waits_for_search : forall s h k, reachable cap script s ->
    pc s = PHaltInit h k \/ pc s = PHaltDone h k ->
    (forall x, fire cap LHaltInit s <> Some x) -> (forall x, fire cap LHaltDone s <> Some x) ->
    exists r d s', find_h h (srchs s) = Some r /\ h_proc r = PRun d /\ fire cap (LIter h false) s = Some s'
      /\ (pc s = PHaltInit h k -> h_init r = false)
      /\ (pc s = PHaltDone h k -> h_quit r = true /\ h_done r = false).
  Proof.
    intros s h k R Hpc N1 N2.
    destruct (halt_way_forward cap script s h k R Hpc) as [r [F [[x X]|[[x X]|[d [s' [Hp X]]]]]]].
    - exfalso. eapply N1; eauto.
    - exfalso. eapply N2; eauto.
    - exists r, d, s'. repeat split; auto.
      + intros P. destruct (h_init r) eqn:Hi; auto. exfalso.
        eapply N1. apply view_fire. eapply V_hinit; eauto.
      + destruct (InvAB_reachable cap script s R) as [_ [_ P _]]. unfold pcB in P. rewrite H in P.
        destruct P as [_ P]. apply (P r F).
      + destruct (h_done r) eqn:Hd; auto. exfalso.
        eapply N2. apply view_fire. eapply V_hdone; eauto.
  Qed.
End Persist.

Print Assumptions haltinit_persists.
Print Assumptions haltdone_persists.
Print Assumptions blocked_halt_waits_for_search.
