(** QueriesLemmas2 — the x-ray argument of FindPins on abstract lines (lists of squares).
    A line is the list of squares met when walking from the target on the empty board.  With [occ] the
    occupancy and [p] an occupied square: the squares [a] that become reachable when [p] is removed,
    were not reachable before and are occupied are exactly: [p] is the first occupied square of its
    line and [a] is the first occupied square behind [p] — hence at most one such [a]. *)
From Coq Require Import ZArith List Bool Lia Arith.
From Morlock.Spec Require Import Chess.
From Morlock.Lemmas Require Import MoveGen1.
Import ListNotations.
Open Scope nat_scope.

(** the part of the line behind [p] *)
Fixpoint after (p : nat) (l : list nat) : list nat :=
  match l with
  | [] => []
  | x :: r => if Nat.eqb x p then r else after p r
  end.
Definition clear (occ : nat -> bool) (l : list nat) : bool := forallb (fun x => negb (occ x)) l.
(** the occupancy with [p] taken off the board *)
Definition without (occ : nat -> bool) (p : nat) : nat -> bool := fun x => occ x && negb (Nat.eqb x p).

Lemma pre_of_incl a L : forall l, pre_of a L = Some l -> forall y, In y l -> In y L.
Proof.
  induction L as [|x r IH]; intros l H y Hy; [discriminate|].
  cbn [pre_of] in H. destruct (Nat.eqb a x).
  - inversion H; subst. destruct Hy.
  - destruct (pre_of a r) as [l'|]; [|discriminate]. cbn [option_map] in H. inversion H; subst.
    destruct Hy as [<-|Hy]; [now left|right; now apply (IH l')].
Qed.

Lemma pre_of_in a L l : pre_of a L = Some l -> In a L.
Proof.
  revert l. induction L as [|x r IH]; intros l H; [discriminate|].
  cbn [pre_of] in H. destruct (Nat.eqb_spec a x) as [->|Hne]; [now left|].
  destruct (pre_of a r) as [l'|]; [|discriminate]. right. now apply (IH l').
Qed.

Lemma clear_ext occ occ' l : (forall y, In y l -> occ y = occ' y) -> clear occ l = clear occ' l.
Proof.
  induction l as [|x r IH]; intros H; [reflexivity|]. cbn [clear forallb].
  rewrite (H x) by now left. f_equal. apply IH. intros y Hy. apply H. now right.
Qed.

Lemma find_ext {A} (f g : A -> bool) l : (forall x, f x = g x) -> find f l = find g l.
Proof. intros H. induction l as [|x r IH]; [reflexivity|]. cbn [find]. now rewrite H, IH. Qed.

(** [find occ L = Some a]: [a] is on the line, occupied, and everything before it is empty *)
Lemma find_pre occ a L :
  find occ L = Some a <-> exists l, pre_of a L = Some l /\ clear occ l = true /\ occ a = true.
Proof.
  induction L as [|x r IH].
  - cbn. split; [discriminate|intros [l [H _]]; discriminate].
  - cbn [find pre_of]. split.
    + destruct (occ x) eqn:Ox.
      * intros H. inversion H; subst. rewrite Nat.eqb_refl. exists []. auto.
      * intros H. apply IH in H as [l [H1 [H2 H3]]].
        destruct (Nat.eqb_spec a x) as [->|Hne]; [congruence|].
        rewrite H1. exists (x :: l). cbn [option_map clear forallb]. rewrite Ox. auto.
    + intros [l [H1 [H2 H3]]]. destruct (Nat.eqb_spec a x) as [->|Hne].
      * now rewrite H3.
      * destruct (pre_of a r) as [l'|] eqn:E; [|discriminate]. cbn [option_map] in H1. inversion H1; subst.
        cbn [clear forallb] in H2. apply andb_true_iff in H2 as [H2 H2'].
        apply negb_true_iff in H2. rewrite H2. apply IH. exists l'. auto.
Qed.

(** the x-ray lemma on one line *)
Lemma xray_line occ p a L : NoDup L -> occ p = true ->
  ((exists l, pre_of a L = Some l /\ clear (without occ p) l = true /\ clear occ l = false) /\ occ a = true)
  <-> (find occ L = Some p /\ find occ (after p L) = Some a).
Proof.
  intros ND Hp. induction L as [|x r IH].
  - cbn. split; [intros [[l [H _]] _]; discriminate|intros [H _]; discriminate].
  - inversion ND as [|? ? Hx NDr]; subst. specialize (IH NDr).
    cbn [pre_of find after].
    destruct (Nat.eqb_spec a x) as [->|Hax].
    + (* a is the head: neither side holds *)
      split.
      * intros [[l [H1 [_ H3]]] _]. inversion H1; subst. discriminate.
      * intros [H1 H2]. exfalso. destruct (Nat.eqb_spec x p) as [->|Hxp].
        -- apply find_some in H2 as [H2 _]. contradiction.
        -- destruct (occ x) eqn:Ox; [inversion H1; congruence|].
           apply find_some in H2 as [_ H2]. congruence.
    + destruct (Nat.eqb_spec x p) as [->|Hxp].
      * (* the head is p *)
        rewrite Hp. split.
        -- intros [[l [H1 [H2 _]]] Ha]. split; [reflexivity|].
           destruct (pre_of a r) as [l'|] eqn:E; [|discriminate]. cbn [option_map] in H1. inversion H1; subst.
           cbn [clear forallb] in H2. apply andb_true_iff in H2 as [_ H2].
           apply find_pre. exists l'. split; [exact E|]. split; [|exact Ha].
           rewrite <- H2. apply clear_ext. intros y Hy. unfold without.
           destruct (Nat.eqb_spec y p) as [->|]; [|now rewrite andb_true_r].
           exfalso. apply Hx. eapply pre_of_incl; eassumption.
        -- intros [_ H2]. apply find_pre in H2 as [l' [H1 [H2 H3]]]. split; [|exact H3].
           exists (p :: l'). rewrite H1. split; [reflexivity|]. cbn [clear forallb]. rewrite Hp.
           split; [|reflexivity]. unfold without at 1. rewrite Nat.eqb_refl, andb_false_r. cbn [negb andb].
           rewrite <- H2. apply clear_ext. intros y Hy. unfold without.
           destruct (Nat.eqb_spec y p) as [->|]; [|now rewrite andb_true_r].
           exfalso. apply Hx. eapply pre_of_incl; eassumption.
      * (* the head is neither a nor p *)
        destruct (occ x) eqn:Ox.
        -- split.
           ++ intros [[l [H1 [H2 _]]] _]. exfalso.
              destruct (pre_of a r) as [l'|]; [|discriminate]. cbn [option_map] in H1. inversion H1; subst.
              cbn [clear forallb] in H2. unfold without at 1 in H2. rewrite Ox in H2.
              destruct (Nat.eqb_spec x p); [contradiction|]. discriminate.
           ++ intros [H1 _]. inversion H1. contradiction.
        -- rewrite <- IH. split.
           ++ intros [[l [H1 [H2 H3]]] Ha]. split; [|exact Ha].
              destruct (pre_of a r) as [l'|]; [|discriminate]. cbn [option_map] in H1. inversion H1; subst.
              exists l'. split; [reflexivity|]. cbn [clear forallb] in H2, H3. rewrite Ox in H3.
              unfold without at 1 in H2. rewrite Ox in H2. cbn [andb negb] in H2, H3. auto.
           ++ intros [[l' [H1 [H2 H3]]] Ha]. split; [|exact Ha].
              exists (x :: l'). rewrite H1. split; [reflexivity|]. cbn [clear forallb]. rewrite Ox.
              unfold without at 1. rewrite Ox. cbn [andb negb]. auto.
Qed.

(* ------------------------------------------------------------------ *)
(** * several lines from one target *)

Section Dirs.
  Variable D : Type.
  Variable line : D -> list nat.
  Variable dirs : list D.
  Hypothesis Hnd : forall d, In d dirs -> NoDup (line d).
  Hypothesis Hdj : forall d d' x, In d dirs -> In d' dirs -> In x (line d) -> In x (line d') -> d = d'.

  Definition reachL (occ : nat -> bool) (x : nat) : bool :=
    existsb (fun d => match pre_of x (line d) with Some l => clear occ l | None => false end) dirs.

  (** the squares revealed by removing [p] that are occupied *)
  Definition revealed (occ : nat -> bool) (p a : nat) : Prop :=
    reachL (without occ p) a = true /\ reachL occ a = false /\ occ a = true.
  Definition behind (occ : nat -> bool) (p a : nat) : Prop :=
    exists d, In d dirs /\ find occ (line d) = Some p /\ find occ (after p (line d)) = Some a.

  Theorem xray_dirs occ p a : occ p = true -> (revealed occ p a <-> behind occ p a).
  Proof.
    intros Hp. unfold revealed, behind, reachL. split.
    - intros [H1 [H2 H3]]. apply existsb_exists in H1 as [d [Hd H1]]. exists d. split; [exact Hd|].
      apply (xray_line occ p a (line d) (Hnd d Hd) Hp). split; [|exact H3].
      destruct (pre_of a (line d)) as [l|] eqn:E; [|discriminate].
      exists l. split; [reflexivity|]. split; [exact H1|].
      destruct (clear occ l) eqn:C; [|reflexivity]. exfalso.
      assert (X : existsb (fun d => match pre_of a (line d) with Some l => clear occ l | None => false end) dirs = true).
      { apply existsb_exists. exists d. split; [exact Hd|]. now rewrite E. }
      congruence.
    - intros [d [Hd H]]. apply (xray_line occ p a (line d) (Hnd d Hd) Hp) in H as [[l [H1 [H2 H3]]] Ha].
      split; [|split; [|exact Ha]].
      + apply existsb_exists. exists d. split; [exact Hd|]. now rewrite H1.
      + destruct (existsb _ dirs) eqn:X; [|reflexivity]. exfalso.
        apply existsb_exists in X as [d' [Hd' X]].
        destruct (pre_of a (line d')) as [l'|] eqn:E'; [|discriminate].
        assert (d = d').
        { apply (Hdj d d' a Hd Hd'); eapply pre_of_in; eassumption. }
        subst d'. congruence.
  Qed.

  (** at most one square is revealed *)
  Theorem behind_unique occ p a a' : behind occ p a -> behind occ p a' -> a = a'.
  Proof.
    intros [d [Hd [H1 H2]]] [d' [Hd' [H1' H2']]].
    assert (d = d').
    { apply (Hdj d d' p Hd Hd'); [apply find_some in H1|apply find_some in H1']; tauto. }
    subst d'. congruence.
  Qed.

  Lemma find_reach occ d p : In d dirs -> find occ (line d) = Some p -> reachL occ p = true.
  Proof.
    intros Hd H. apply find_pre in H as [l [H1 [H2 _]]]. unfold reachL. apply existsb_exists.
    exists d. split; [exact Hd|]. now rewrite H1.
  Qed.

  Lemma reach_on_line occ x : reachL occ x = true -> exists d, In d dirs /\ In x (line d).
  Proof.
    unfold reachL. intros H. apply existsb_exists in H as [d [Hd H]]. exists d. split; [exact Hd|].
    destruct (pre_of x (line d)) as [l|] eqn:E; [|discriminate]. eapply pre_of_in; eassumption.
  Qed.
End Dirs.

Print Assumptions xray_dirs.
Print Assumptions behind_unique.
