(** The search contract on the real board, part 2: the leaf evaluation (material as a float32 bit pattern)
    and the transposition-table law for the tables of Model/TT.v. *)
From Coq Require Import NArith ZArith List Bool Lia ZifyBool ZifyNat ZifyN.
From Morlock.Model Require Import Bits Score Attacks Move Position Zobrist Board Search TT SearchBoard Abs.
From Morlock.Lemmas Require Import PositionLemmas BoardHeap1 BoardHeap2 MoveRefines2 SearchContract SearchBoardInst1.
Import ListNotations.
Open Scope Z_scope.

(** * 1. material is a small integer *)
Lemma pos_popcount_le p : (pos_popcount p <= N.pos (Pos.size p))%N.
Proof. induction p as [q IH|q IH|]; cbn [pos_popcount Pos.size]; lia. Qed.

Lemma popcount_le64 b : (b < 2 ^ 64)%N -> (popcount b <= 64)%N.
Proof.
  intros Hb. destruct b as [|p]; [cbn; lia|]. cbn [popcount].
  pose proof (pos_popcount_le p) as H1. change (N.pos (Pos.size p)) with (N.size (N.pos p)) in H1.
  pose proof (N.size_le (N.pos p)) as H2.
  assert (H3 : (2 ^ N.size (N.pos p) < 2 ^ 65)%N).
  { eapply N.le_lt_trans; [exact H2|]. rewrite N.succ_double_spec. change (2 ^ 65)%N with (2 * 2 ^ 64)%N. lia. }
  apply N.pow_lt_mono_r_iff in H3; lia.
Qed.

Lemma msum_bound pos turn : PositionLemmas.Inv pos -> - mbound <= msum pos turn <= mbound.
Proof.
  intros HI. unfold msum, mbound. cbn [fold_left].
  change (nominal_value Pawn) with 1. change (nominal_value Bishop) with 3. change (nominal_value Knight) with 3.
  change (nominal_value Rook) with 5. change (nominal_value Queen) with 9. change (nominal_value King) with 100.
  pose proof (fun c p => popcount_le64 _ (pget_word pos c p HI)) as Hb.
  pose proof (Hb turn Pawn). pose proof (Hb turn Bishop). pose proof (Hb turn Knight).
  pose proof (Hb turn Rook). pose proof (Hb turn Queen). pose proof (Hb turn King).
  pose proof (Hb (opponent turn) Pawn). pose proof (Hb (opponent turn) Bishop). pose proof (Hb (opponent turn) Knight).
  pose proof (Hb (opponent turn) Rook). pose proof (Hb (opponent turn) Queen). pose proof (Hb (opponent turn) King).
  lia.
Qed.

Lemma mclamp_id v : - mbound <= v <= mbound -> mclamp v = v.
Proof. unfold mclamp, mbound. lia. Qed.
Lemma mclamp_range v : - mbound <= mclamp v <= mbound.
Proof. unfold mclamp, mbound. lia. Qed.

Lemma f32_small_valid_tab :
  forallb (fun n => valid (heuristic (f32_of_int (Z.of_nat n))) && valid (heuristic (f32_of_int (- Z.of_nat n)))) (seq 0 (N.to_nat 7745)) = true.
Proof. vm_compute. reflexivity. Qed.

Lemma f32_small_valid v : - mbound <= v <= mbound -> valid (heuristic (f32_of_int v)) = true.
Proof.
  unfold mbound. intros Hv. pose proof f32_small_valid_tab as T. rewrite forallb_forall in T.
  destruct (Z_le_gt_dec 0 v) as [Hp|Hn].
  - specialize (T (Z.to_nat v)). rewrite Z2Nat.id in T by lia.
    apply andb_true_iff in T; [apply T|]. apply in_seq. lia.
  - specialize (T (Z.to_nat (- v))). rewrite Z2Nat.id in T by lia. rewrite Z.opp_involutive in T.
    apply andb_true_iff in T; [apply T|]. apply in_seq. lia.
Qed.

Theorem H_leaf_valid : forall p, valid (heuristic (bleaf p)) = true.
Proof. intros p. unfold bleaf. apply f32_small_valid. apply mclamp_range. Qed.

(** on a legal position the clamp is the identity: [bleaf] is eval.Material *)
Lemma bleaf_exact p : GInv p -> bleaf p = f32_of_int (msum (a_position p) (a_turn p)).
Proof.
  intros (_ & Gw & _). destruct (wf_b_elim _ _ Gw) as [HI _]. unfold bleaf. rewrite mclamp_id; [reflexivity|].
  apply msum_bound. exact HI.
Qed.

Theorem H_leaf : forall p g, At p g -> material g = bleaf p.
Proof.
  intros p g [HB _]. destruct (BAt_getters _ _ HB) as (Ep & Et & _). rewrite bleaf_exact by apply HB.
  unfold material, msum. rewrite Ep, Et. reflexivity.
Qed.

(** * 2. the transposition-table law *)
Lemma upd_beyond {A} : forall (l : list A) i v, (length l <= i)%nat -> upd l i v = l.
Proof. induction l as [|x r IH]; intros [|i] v H; cbn in *; try reflexivity; try lia. f_equal. apply IH. lia. Qed.

Lemma nth_upd_cases {A} (l : list A) i j v d :
  nth j (upd l i v) d = if (Nat.eqb i j && Nat.ltb i (length l))%bool then v else nth j l d.
Proof.
  destruct (Nat.eqb_spec i j) as [->|Hne]; cbn [andb].
  - destruct (Nat.ltb_spec j (length l)) as [Hl|Hl].
    + apply nth_upd_eq. exact Hl.
    + rewrite upd_beyond by exact Hl. reflexivity.
  - apply nth_upd_neq. exact Hne.
Qed.

Lemma tt_law_table t h b ply d sc m h' b' d' sc' m' :
  0 <= d < 65536 ->
  tt_read (tt_write t h b ply d sc m) h' = Some (b', d', sc', m') ->
  (h' = h /\ b' = b /\ d' = d /\ sc' = sc) \/ tt_read t h' = Some (b', d', sc', m').
Proof.
  intros Hd Hr. unfold tt_write, tt_write_ok in Hr.
  destruct (val (Some (fresh_entry h b ply d sc m)) <? val (nthN (slots t) (key t h) None))%N; cbn [fst] in Hr; [right; exact Hr|].
  unfold tt_read in *.
  assert (Hk : key (mkTable (updN (slots t) (key t h) (Some (fresh_entry h b ply d sc m)))
                            match nthN (slots t) (key t h) None with None => (used t + 1)%N | Some _ => used t end) h' = key t h').
  { unfold key, nslots. cbn [slots]. unfold updN. rewrite upd_length. reflexivity. }
  rewrite Hk in Hr. cbn [slots] in Hr. unfold nthN, updN in Hr. rewrite nth_upd_cases in Hr.
  destruct (Nat.eqb (N.to_nat (key t h)) (N.to_nat (key t h')) && Nat.ltb (N.to_nat (key t h)) (length (slots t)))%bool; [|right; exact Hr].
  cbn [fresh_entry e_hash e_bound e_depth e_score e_from e_to e_promo] in Hr.
  destruct (N.eqb_spec h h') as [<-|Hne]; [|discriminate Hr]. injection Hr as <- <- <- _. left.
  split; [reflexivity|]. split; [reflexivity|]. split; [|reflexivity].
  unfold wrap16z. rewrite Z.mod_small by lia. lia.
Qed.

Theorem board_tt_law : TTLaw ttv ttv_read ttv_write.
Proof.
  intros t h b ply d sc m h' b' d' sc' m' Hd Hr. destruct t as [|t|mn t]; cbn [ttv_read ttv_write] in *.
  - discriminate Hr.
  - eapply tt_law_table; eassumption.
  - unfold tt_write_mindepth in Hr. destruct (d <? mn); [right; exact Hr|]. eapply tt_law_table; eassumption.
Qed.
Print Assumptions board_tt_law.
