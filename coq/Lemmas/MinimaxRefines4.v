(** MinimaxRefines, part 4: the leaf evaluation and the exploration predicates of the configuration the
    engines use correspond on related nodes:
      - [material_spec]        eval.Material of the bit boards ([msum], the integer under [bleaf]/[material])
                               is the material balance of the mailbox board ([spec_material_int])
      - [bleaf_spec]           hence [bleaf p = f32_of_int (spec_material_int g)]
      - [bex_spec]             full exploration
      - [bqex_spec]            captures-only quiescence: [is_capture_or_ep m] (the type recorded in the move) is
                               "the destination is occupied or the move is an en-passant capture" on the
                               specification board. *)
From Coq Require Import NArith ZArith List Bool Lia ZifyBool ZifyNat ZifyN.
From Morlock.Model Require Import Bits Score Attacks Move Position Zobrist Board Search SearchBoard Abs.
From Morlock.Spec Require Import Chess Game Minimax.
From Morlock.Lemmas Require Import PositionLemmas BoardHeap1 MoveRefines2 MoveGen2 MoveGen3 MoveGen11
     GameLemmas1 GameLemmas2 GameLemmas4 SearchContract SearchBoardInst1 SearchBoardInst2 MinimaxRefines2.
Import ListNotations.
Open Scope Z_scope.

(** * the specification-side configuration *)
Definition spec_leaf_material (g : gstate) : Z := f32_of_int (spec_material_int g).
Definition expl_all : gstate -> gstate -> smove -> bool := fun _ _ _ => true.
Definition qexpl_captures : gstate -> gstate -> smove -> bool := fun g _ sm => is_capture_move (g_pos g) sm.

(** * material *)
Definition cl (f : nat -> bool) (l : list nat) : Z := Z.of_nat (length (filter f l)).
Lemma cl_cons f s l : cl f (s :: l) = (if f s then 1 else 0) + cl f l.
Proof. unfold cl. cbn [filter]. destruct (f s); cbn [length]; lia. Qed.
Lemma cl_nil f : cl f [] = 0.
Proof. reflexivity. Qed.

Definition mat_term (t : color) (b : mboard) (l : list nat) (k : kind) : Z :=
  (cl (is_ck t k b) l - cl (is_ck (other t) k b) l) * kind_value k.
Definition mat_sum (t : color) (b : mboard) (l : list nat) : Z :=
  mat_term t b l P + mat_term t b l Bi + mat_term t b l Kn + mat_term t b l R + mat_term t b l Q + mat_term t b l K.

Definition mat_step (t : color) (b : mboard) (acc : Z) (s : nat) : Z :=
  match at_ b s with
  | Some (c, k) => if color_eqb c t then acc + kind_value k else acc - kind_value k
  | None => acc
  end.

Lemma mat_fold t b l : forall acc, fold_left (mat_step t b) l acc = acc + mat_sum t b l.
Proof.
  induction l as [|s l IH]; intros acc; cbn [fold_left].
  - unfold mat_sum, mat_term. rewrite !cl_nil. lia.
  - rewrite IH. unfold mat_sum, mat_term. rewrite !cl_cons.
    unfold mat_step.
    assert (E : forall c0 k0, is_ck c0 k0 b s = match at_ b s with Some (c, k) => color_eqb c c0 && kind_eqb k k0 | None => false end)
      by reflexivity.
    rewrite !E. clear E.
    destruct (at_ b s) as [[c k]|]; [|lia].
    destruct c, t, k; cbn [color_eqb kind_eqb andb other kind_value]; lia.
Qed.

Lemma spec_material_sum g : spec_material_int g = mat_sum (g_turn g) (brd (g_pos g)) all_squares.
Proof.
  unfold spec_material_int. change (fold_left _ all_squares 0) with (fold_left (mat_step (g_turn g) (brd (g_pos g))) all_squares 0).
  rewrite mat_fold. lia.
Qed.

Lemma popcount_ck pos c k : PositionLemmas.Inv pos -> vcol c ->
  Z.of_N (popcount (pget pos c (code_of_kind k))) = cl (is_ck (color_of c) k (brd (abs_pos pos))) all_squares.
Proof.
  intros HI Hc. rewrite (popcount_cnt _ (pget_word _ _ _ HI)), cnt_ncount.
  rewrite (ncount_ext _ (is_ck (color_of c) k (brd (abs_pos pos)))) by (intros s Hs; exact (tb_ck pos HI c k s Hc Hs)).
  unfold cl, ncount. lia.
Qed.

Theorem material_spec pos turn : PositionLemmas.Inv pos -> vcol turn ->
  msum pos turn = mat_sum (color_of turn) (brd (abs_pos pos)) all_squares.
Proof.
  intros HI Ht. unfold msum. cbn [fold_left].
  change (nominal_value Pawn) with 1. change (nominal_value Bishop) with 3. change (nominal_value Knight) with 3.
  change (nominal_value Rook) with 5. change (nominal_value Queen) with 9. change (nominal_value King) with 100.
  change Pawn with (code_of_kind P). change Bishop with (code_of_kind Bi). change Knight with (code_of_kind Kn).
  change Rook with (code_of_kind R). change Queen with (code_of_kind Q). change King with (code_of_kind K).
  rewrite !(popcount_ck pos turn _ HI Ht), !(popcount_ck pos (opponent turn) _ HI (vcol_opponent turn)).
  rewrite (color_of_vcol turn Ht).
  unfold mat_sum, mat_term. cbn [kind_value]. lia.
Qed.

Section Config.
  Variable z : ztable.

  Theorem bleaf_spec p g : RG z p g -> spec_leaf_material g = bleaf p.
  Proof.
    intros HRG. destruct (RG_facts z p g HRG) as (Ht & _ & HI & Ep & Ec & _).
    rewrite (bleaf_exact p (proj1 HRG)). unfold spec_leaf_material. f_equal.
    rewrite spec_material_sum, (material_spec _ _ HI Ht), Ep, Ec. reflexivity.
  Qed.

  Theorem bex_spec p g m c : RG z p g -> bchild z p m = Some c ->
    expl_all g (g_play g (abs_move m)) (abs_move m) = bex p c m.
  Proof. reflexivity. Qed.

  Theorem bqex_spec p g m c : RG z p g -> bchild z p m = Some c ->
    qexpl_captures g (g_play g (abs_move m)) (abs_move m) = bqex p c m.
  Proof.
    intros HRG Hc. destruct (RG_facts z p g HRG) as (Ht & Hwf & _ & Ep & _).
    destruct (bchild_inv z p m c Hc) as (Hin & _).
    destruct (pseudo_move_metadata (a_position p) (a_turn p) m Hwf Ht Hin) as (_ & _ & Hcap & _ & Hep & _).
    unfold qexpl_captures, bqex, is_capture_move, is_capture_or_ep. rewrite <- Ep.
    change ((mtype m =? CapturePromotion)%N || (mtype m =? Capture)%N) with (is_capture m).
    apply eq_true_iff_eq. rewrite !orb_true_iff, N.eqb_eq. rewrite Hcap, Hep. tauto.
  Qed.
End Config.

Print Assumptions material_spec.
Print Assumptions bleaf_spec.
Print Assumptions bqex_spec.
