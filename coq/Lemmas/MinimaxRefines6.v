(** MinimaxRefines, part 6: non-vacuity and the depth-0 corner, by computation.

    Position: White Kg6, Ra1; Black Kg8; White to move (the K+R v K example of SearchBoardInst5), with the
    Zobrist table [gz] of GameLemmas8, which satisfies [zt_ok].

      - [kr_values]       the specification value [spec_mm] (computed on the mailbox board from [spec_legal],
                          [g_play], ...) and the model value [b_mm] (computed on bit boards) are both
                          "mate in 1" at depth 2 and at depth 1 with quiescence, both 5.0 at depth 1 without
      - [kr_applied]      [new_board_search_is_spec_minimax] applied to a computed run of the search: its
                          premises are satisfiable
      - [depth0_corner]   WITNESS that the hypothesis [depth = 0 -> use_q = true -> drawn_here gs = false]
                          of [board_search_is_spec_minimax] cannot be dropped: after
                          1.Rb1 Kh8 2.Ra1 Kg8 3.Rb1 Kh8 4.Ra1 Kg8 the start position stands for the third time;
                          every other hypothesis holds ([RG], [BAt], [RootFlag], [b_leaves_ok], [zt_ok]), the
                          depth-0 search with quiescence returns 5.0 = [b_mm 0 true (norm p)] (it clears the
                          claimable draw at the root, then quiesces), whereas [spec_mm 0 true gs] = 0.
                          At depth 1 the two agree again (mate in 1: the root is expanded on both sides).
    The lists [spec_legal] and the model's accepted pseudo-legal moves are in different orders already in this
    position (rook moves towards the h-file first in the specification, last in the model). *)
From Coq Require Import NArith ZArith List Bool Lia.
From Morlock.Model Require Import Bits Score Attacks Move Position Zobrist Board Search TT SearchBoard Abs.
From Morlock.Spec Require Import Chess Game Minimax.
From Morlock.Lemmas Require Import ScoreLemmas SearchScore BoardHeap1 BoardHeap2 BoardHeap3 MoveRefines SearchContract
     SearchBoardInst1 SearchBoardInst2 SearchBoardInst4 SearchBoardInst SearchBoardInst5
     GameLemmas4 GameLemmas6 GameLemmas7 GameLemmas8
     MinimaxRefines2 MinimaxRefines4 MinimaxRefines.
Import ListNotations.
Open Scope Z_scope.

Definition kb : gboard := new_board gz [] kr_pos White 0 1.
Definition kn : aboard := abs (fst kb) (snd kb).
Definition kg : gstate := g_start (abs_pos kr_pos) (color_of White) (Z.of_N 0) 1.
Notation sv use_q qfuel := (spec_mm expl_all qexpl_captures spec_leaf_material use_q qfuel).

Example kr_values :
  sv false 0%nat 2%nat true kg = mate_in 1 /\ b_mm gz false 0 2 true (norm kn) = mate_in 1 /\
  sv false 0%nat 1%nat true kg = heuristic 1084227584 /\ b_mm gz false 0 1 true (norm kn) = heuristic 1084227584 /\
  sv true 4%nat 1%nat true kg = mate_in 1 /\ b_mm gz true 4 1 true (norm kn) = mate_in 1.
Proof. vm_compute. repeat split; reflexivity. Qed.

Example kr_applied :
  exists st nodes sc pv,
    b_search gz never false 0 kb NoTT [] 2 neginf_score inf_score = (st, nodes, sc, pv, false) /\
    go_eq sc (sv false 0%nat 2%nat true kg) = true /\ valid sc = true.
Proof.
  destruct (b_search gz never false 0 kb NoTT [] 2 neginf_score inf_score) as [[[[st nodes] sc] pv] halted] eqn:E.
  assert (halted = false) as -> by (vm_compute in E; congruence).
  exists st, nodes, sc, pv. split; [reflexivity|].
  apply (new_board_search_is_spec_minimax gz never false 0 (fun n H => H) kr_pos White 0 1 2 st nodes sc pv);
    [exact kr_pos_wf|left; reflexivity|vm_compute; discriminate|exact gz_ok|unfold qh; lia|apply leaves_ok_noq; reflexivity|exact E].
Qed.

(** * the depth-0 corner *)
Definition Rb1 := mkMove Normal 7 6 Rook NoPiece NoPiece.
Definition Kh8 := mkMove Normal 57 56 King NoPiece NoPiece.
Definition Ra1 := mkMove Normal 6 7 Rook NoPiece NoPiece.
Definition Kg8 := mkMove Normal 56 57 King NoPiece NoPiece.
Definition kshuffle : list move := [Rb1; Kh8; Ra1; Kg8].

Lemma play_with_played_gen pos turn np fm : forall ms ms0 h b h' b',
  played_board gz pos turn np fm ms0 h b ->
  play_with push_move ms h b = Some (h', b') ->
  played_board gz pos turn np fm (ms0 ++ ms) h' b'.
Proof.
  induction ms as [|m r IH]; intros ms0 h b h' b' Hpl H; cbn [play_with] in H.
  - inversion H; subst. now rewrite app_nil_r.
  - destruct (existsb (move_eqb m) (pseudo_legal_moves (b_position h b) (b_turn b))) eqn:E; [|discriminate].
    apply in_of_existsb in E.
    destruct (push_move gz h b m) as [[h1 b1] ok] eqn:Ep. destruct ok; [|discriminate].
    replace (ms0 ++ m :: r) with ((ms0 ++ [m]) ++ r) by (now rewrite <- app_assoc).
    eapply IH; [|exact H]. econstructor; eauto.
Qed.

Definition dgs : gstate := spec_game kr_pos White 0 1 (kshuffle ++ kshuffle).

(** boolean deciders for the fuel conditions *)
Section Decide.
  Variable z : ztable.
  Fixpoint qfinb (f : nat) (p : aboard) : bool :=
    match f with
    | O => false
    | S f' => bdrawn p ||
              forallb (fun m => match bchild z p m with
                                | Some c => if bqex p c m then qfinb f' c else true
                                | None => true
                                end) (bmoves p)
    end.
  Lemma qfinb_sound : forall f p, qfinb f p = true -> qfin aboard bmoves (bchild z) bdrawn bqex f p.
  Proof.
    induction f as [|f IH]; intros p H; [discriminate H|]. cbn [qfinb] in H. cbn [qfin].
    apply orb_true_iff in H as [H|H]; [left; exact H|right].
    intros m c Hin Hc He. rewrite forallb_forall in H. specialize (H m Hin). rewrite Hc, He in H. apply IH. exact H.
  Qed.
  Variables (use_q : bool) (qfuel : nat).
  Fixpoint leavesb (d : nat) (root : bool) (p : aboard) : bool :=
    (negb root && bdrawn p) ||
    match d with
    | O => if use_q then qfinb qfuel p else true
    | S d' => forallb (fun m => match bchild z p m with
                                | Some c => if bex p c m then leavesb d' false c else true
                                | None => true
                                end) (bmoves p)
    end.
  Lemma leavesb_sound : forall d root p, leavesb d root p = true -> b_leaves_ok z use_q qfuel d root p.
  Proof.
    unfold b_leaves_ok. induction d as [|d IH]; intros root p H; cbn [leavesb] in H; cbn [leaves_ok];
      apply orb_true_iff in H as [H|H]; try (left; exact H); right.
    - intros Hq. rewrite Hq in H. apply qfinb_sound. exact H.
    - intros m c Hin Hc He. rewrite forallb_forall in H. specialize (H m Hin). rewrite Hc, He in H. apply IH. exact H.
  Qed.
End Decide.

Example depth0_corner :
  exists h b, let p := abs h b in
    played_board gz kr_pos White 0 1 (kshuffle ++ kshuffle) h b /\
    (* all the other hypotheses of board_search_is_spec_minimax *)
    zt_ok gz /\ BAt p (h, b) /\ RootFlag p (h, b) /\ RG gz (norm p) dgs /\
    b_leaves_ok gz true 4 0 true (norm p) /\ b_leaves_ok gz true 4 1 true (norm p) /\
    (* a draw can be claimed *)
    drawn_here dgs = true /\ gb_draw (h, b) = true /\
    (* depth 0 with quiescence: the search and the model's reference value say 5.0, the specification 0 *)
    (let '(_, _, sc, _, halted) := b_search gz never true 4 (h, b) NoTT [] 0 neginf_score inf_score in (sc, halted))
      = (heuristic 1084227584, false) /\
    b_mm gz true 4 0 true (norm p) = heuristic 1084227584 /\
    sv true 4%nat 0%nat true dgs = zero_score /\
    (* depth 1: they agree *)
    (let '(_, _, sc, _, halted) := b_search gz never true 4 (h, b) NoTT [] 1 neginf_score inf_score in (sc, halted))
      = (mate_in 1, false) /\
    sv true 4%nat 1%nat true dgs = mate_in 1.
Proof.
  destruct (play_with push_move (kshuffle ++ kshuffle) (fst kb) (snd kb)) as [[h b]|] eqn:E;
    [|vm_compute in E; discriminate].
  exists h, b. cbv zeta.
  assert (Hpl : played_board gz kr_pos White 0 1 (kshuffle ++ kshuffle) h b).
  { change (kshuffle ++ kshuffle) with ([] ++ (kshuffle ++ kshuffle)). eapply play_with_played_gen; [|exact E].
    constructor. reflexivity. }
  destruct (played_game gz gz_ok kr_pos White 0 1 kr_pos_wf (or_introl eq_refl) ltac:(vm_compute; discriminate) _ h b Hpl) as [HGame _].
  fold dgs in HGame.
  assert (Hwf : wf h b) by apply HGame.
  assert (HRG0 : RG gz (abs h b) dgs).
  { destruct HGame as (_ & HA & HR & _). split; [|split; assumption].
    split; [apply Hwf|]. split.
    - destruct HA as [Hh _]. destruct (GameLemmas3.hist_head gz _ _ Hh) as [_ [q [n [r [Ed Hq]]]]].
      unfold a_position. rewrite Ed. exact Hq.
    - intros c _ Hc. exfalso. vm_compute in E. injection E as <- <-. unfold acastled in Hc.
      cbn [abs a_cw a_cb b_castled_w b_castled_b] in Hc. destruct (c =? White)%N; discriminate Hc. }
  assert (HB : BAt (abs h b) (h, b)).
  { split; [exact Hwf|]. split; [apply aeq_nr_refl|apply HRG0]. }
  split; [exact Hpl|]. split; [exact gz_ok|]. split; [exact HB|].
  vm_compute in E. injection E as <- <-.
  split; [intros H; vm_compute in H; discriminate H|].
  split; [apply RG_norm; exact HRG0|].
  split; [apply leavesb_sound; vm_compute; reflexivity|].
  split; [apply leavesb_sound; vm_compute; reflexivity|].
  vm_compute. repeat split; reflexivity.
Qed.

Print Assumptions kr_applied.
Print Assumptions depth0_corner.
