(** AttackGeometry3 — king, knight and pawn-capture boards equal the geometric step targets. *)
From Coq Require Import NArith ZArith List Bool Lia ZifyBool ZifyNat ZifyN.
From Morlock.gen Require Import GenTables.
From Morlock.Model Require Import Bits Attacks.
From Morlock.Spec Require Import Chess.
From Morlock.Lemmas Require Import AttackGeometry1 AttackGeometry2.
Import ListNotations.
Open Scope N_scope.

(** * king and knight: 64 table entries each *)

Definition step_tbl_ok (f : N -> N) (k : kind) : bool :=
  forallb (fun sq => f sq =? bb_of_list (attacks_from (fun _ => false) Wh k (N.to_nat sq))) (seqN 64).

Lemma king_tbl_ok : step_tbl_ok king_attackboard K = true.
Proof. vm_compute. reflexivity. Qed.
Lemma knight_tbl_ok : step_tbl_ok knight_attackboard Kn = true.
Proof. vm_compute. reflexivity. Qed.

Theorem king_attack_geometric : forall sq t, sq < 64 ->
  N.testbit (king_attackboard sq) t =
  (t <? 64) && mem_nat (N.to_nat t) (attacks_from (fun _ => false) Wh K (N.to_nat sq)).
Proof.
  intros sq t Hsq. apply in_seqN64 in Hsq.
  pose proof king_tbl_ok as H. unfold step_tbl_ok in H. rewrite forallb_forall in H.
  specialize (H sq Hsq). apply N.eqb_eq in H. rewrite H, tb_bb_of_list.
  apply mem_bounded. intros x. cbn [attacks_from]. apply step_lt.
Qed.
Print Assumptions king_attack_geometric.

Theorem knight_attack_geometric : forall sq t, sq < 64 ->
  N.testbit (knight_attackboard sq) t =
  (t <? 64) && mem_nat (N.to_nat t) (attacks_from (fun _ => false) Wh Kn (N.to_nat sq)).
Proof.
  intros sq t Hsq. apply in_seqN64 in Hsq.
  pose proof knight_tbl_ok as H. unfold step_tbl_ok in H. rewrite forallb_forall in H.
  specialize (H sq Hsq). apply N.eqb_eq in H. rewrite H, tb_bb_of_list.
  apply mem_bounded. intros x. cbn [attacks_from]. apply step_lt.
Qed.
Print Assumptions knight_attack_geometric.

(** * pawn captures *)

Definition fH (t : N) : bool := N.testbit (bitfile FileH) t.
Definition fA (t : N) : bool := N.testbit (bitfile FileA) t.

(** geometric pawn attack relation, 64 x 64 finite check, in the shape the shifts produce *)
Definition wpawn_rel_ok : bool :=
  forallb (fun s => forallb (fun t =>
    Bool.eqb (mem_nat (N.to_nat t) (attacks_from (fun _ => false) Wh P (N.to_nat s)))
             (((t =? s + 9) && negb (fH t)) || ((t =? s + 7) && negb (fA t)))) (seqN 64)) (seqN 64).
Definition bpawn_rel_ok : bool :=
  forallb (fun s => forallb (fun t =>
    Bool.eqb (mem_nat (N.to_nat t) (attacks_from (fun _ => false) Bl P (N.to_nat s)))
             (((s =? t + 9) && negb (fA t)) || ((s =? t + 7) && negb (fH t)))) (seqN 64)) (seqN 64).
Lemma wpawn_rel_ok_true : wpawn_rel_ok = true. Proof. vm_compute. reflexivity. Qed.
Lemma bpawn_rel_ok_true : bpawn_rel_ok = true. Proof. vm_compute. reflexivity. Qed.

Lemma wpawn_rel s t : s < 64 -> t < 64 ->
  mem_nat (N.to_nat t) (attacks_from (fun _ => false) Wh P (N.to_nat s)) =
  ((t =? s + 9) && negb (fH t)) || ((t =? s + 7) && negb (fA t)).
Proof.
  intros Hs Ht. apply in_seqN64 in Hs, Ht. pose proof wpawn_rel_ok_true as H.
  unfold wpawn_rel_ok in H. rewrite forallb_forall in H. specialize (H s Hs).
  rewrite forallb_forall in H. specialize (H t Ht). now apply eqb_prop in H.
Qed.
Lemma bpawn_rel s t : s < 64 -> t < 64 ->
  mem_nat (N.to_nat t) (attacks_from (fun _ => false) Bl P (N.to_nat s)) =
  ((s =? t + 9) && negb (fA t)) || ((s =? t + 7) && negb (fH t)).
Proof.
  intros Hs Ht. apply in_seqN64 in Hs, Ht. pose proof bpawn_rel_ok_true as H.
  unfold bpawn_rel_ok in H. rewrite forallb_forall in H. specialize (H s Hs).
  rewrite forallb_forall in H. specialize (H t Ht). now apply eqb_prop in H.
Qed.

Lemma bool_eq_iff (a b : bool) : (a = true <-> b = true) -> a = b.
Proof. destruct a, b; intros [H1 H2]; auto; try (symmetry; auto); exfalso; try (discriminate (H1 eq_refl)); discriminate (H2 eq_refl). Qed.

Lemma in_all_squares s : In s all_squares <-> (s < 64)%nat.
Proof. unfold all_squares. rewrite in_seq. lia. Qed.

Lemma fH_high t : 64 <= t -> fH t = false.
Proof. intros H. unfold fH, bitfile. rewrite tb_shl64. destruct (N.ltb_spec t 64); [lia|reflexivity]. Qed.
Lemma fA_high t : 64 <= t -> fA t = false.
Proof. intros H. unfold fA, bitfile. rewrite tb_shl64. destruct (N.ltb_spec t 64); [lia|reflexivity]. Qed.

Lemma white_pawn_capture pawns t :
  N.testbit (pawn_captureboard 0 pawns) t =
  (t <? 64) && existsb (fun s => N.testbit pawns (N.of_nat s) &&
     mem_nat (N.to_nat t) (attacks_from (fun _ => false) Wh P s)) all_squares.
Proof.
  change (pawn_captureboard 0 pawns) with
    (N.lor (andnot (shl64 pawns 9) (bitfile FileH)) (andnot (shl64 pawns 7) (bitfile FileA))).
  unfold andnot. rewrite N.lor_spec, !N.ldiff_spec, !tb_shl64. fold (fH t). fold (fA t).
  destruct (N.ltb_spec t 64) as [Ht|Ht]; [|reflexivity]. rewrite !andb_true_l.
  apply bool_eq_iff. rewrite existsb_exists. split.
  - intros H. apply orb_true_iff in H as [H|H].
    + apply andb_true_iff in H as [H Hf]. apply andb_true_iff in H as [Hle Hp]. apply N.leb_le in Hle.
      exists (N.to_nat (t - 9)). split; [apply in_all_squares; lia|].
      rewrite N2Nat.id, Hp, andb_true_l.
      rewrite <- (N2Nat.id (t - 9)), wpawn_rel by lia. rewrite N2Nat.id.
      replace (t - 9 + 9) with t by lia. now rewrite N.eqb_refl, Hf.
    + apply andb_true_iff in H as [H Hf]. apply andb_true_iff in H as [Hle Hp]. apply N.leb_le in Hle.
      exists (N.to_nat (t - 7)). split; [apply in_all_squares; lia|].
      rewrite N2Nat.id, Hp, andb_true_l.
      rewrite <- (N2Nat.id (t - 7)), wpawn_rel by lia. rewrite N2Nat.id.
      replace (t - 7 + 7) with t by lia. rewrite N.eqb_refl, Hf. apply orb_true_r.
  - intros [s [Hs H]]. apply in_all_squares in Hs. apply andb_true_iff in H as [Hp Hm].
    rewrite <- (Nat2N.id s) in Hm. rewrite wpawn_rel in Hm by lia.
    apply orb_true_iff in Hm as [Hm|Hm]; apply andb_true_iff in Hm as [He Hf]; apply N.eqb_eq in He.
    + apply orb_true_iff. left. rewrite Hf, andb_true_r.
      replace (t - 9) with (N.of_nat s) by lia. rewrite Hp, andb_true_r. apply N.leb_le. lia.
    + apply orb_true_iff. right. rewrite Hf, andb_true_r.
      replace (t - 7) with (N.of_nat s) by lia. rewrite Hp, andb_true_r. apply N.leb_le. lia.
Qed.

Lemma black_pawn_capture pawns t : pawns < 2 ^ 64 ->
  N.testbit (pawn_captureboard 1 pawns) t =
  (t <? 64) && existsb (fun s => N.testbit pawns (N.of_nat s) &&
     mem_nat (N.to_nat t) (attacks_from (fun _ => false) Bl P s)) all_squares.
Proof.
  intros Hp64.
  change (pawn_captureboard 1 pawns) with
    (N.lor (andnot (shr64 pawns 9) (bitfile FileA)) (andnot (shr64 pawns 7) (bitfile FileH))).
  unfold andnot. rewrite N.lor_spec, !N.ldiff_spec, !tb_shr64. fold (fH t). fold (fA t).
  destruct (N.ltb_spec t 64) as [Ht|Ht].
  - rewrite andb_true_l. apply bool_eq_iff. rewrite existsb_exists. split.
    + intros H. apply orb_true_iff in H as [H|H]; apply andb_true_iff in H as [Hp Hf].
      * assert (Hlt : t + 9 < 64).
        { destruct (N.lt_ge_cases (t + 9) 64) as [L|L]; [exact L|].
          rewrite (high_bits_zero _ _ Hp64 L) in Hp. discriminate. }
        exists (N.to_nat (t + 9)). split; [apply in_all_squares; lia|].
        rewrite N2Nat.id, Hp, andb_true_l.
        rewrite <- (N2Nat.id (t + 9)), bpawn_rel by lia. rewrite N2Nat.id.
        now rewrite N.eqb_refl, Hf.
      * assert (Hlt : t + 7 < 64).
        { destruct (N.lt_ge_cases (t + 7) 64) as [L|L]; [exact L|].
          rewrite (high_bits_zero _ _ Hp64 L) in Hp. discriminate. }
        exists (N.to_nat (t + 7)). split; [apply in_all_squares; lia|].
        rewrite N2Nat.id, Hp, andb_true_l.
        rewrite <- (N2Nat.id (t + 7)), bpawn_rel by lia. rewrite N2Nat.id.
        rewrite N.eqb_refl, Hf. apply orb_true_r.
    + intros [s [Hs H]]. apply in_all_squares in Hs. apply andb_true_iff in H as [Hp Hm].
      rewrite <- (Nat2N.id s) in Hm. rewrite bpawn_rel in Hm by lia.
      apply orb_true_iff in Hm as [Hm|Hm]; apply andb_true_iff in Hm as [He Hf]; apply N.eqb_eq in He.
      * apply orb_true_iff. left. rewrite Hf, andb_true_r. now rewrite <- He.
      * apply orb_true_iff. right. rewrite Hf, andb_true_r. now rewrite <- He.
  - rewrite andb_false_l.
    rewrite !(high_bits_zero pawns) by (auto; lia). reflexivity.
Qed.

(** [pawns < 2^64] is needed: the model's [shr64] does not truncate, so a (non-uint64) value with a bit
    at position >= 64 would shift a phantom pawn onto the board.  Go's uint64 always satisfies it. *)
Theorem pawn_capture_geometric : forall c pawns t, (c = 0 \/ c = 1) -> pawns < 2 ^ 64 ->
  N.testbit (pawn_captureboard c pawns) t =
  (t <? 64) && existsb (fun s => N.testbit pawns (N.of_nat s) &&
     mem_nat (N.to_nat t) (attacks_from (fun _ => false) (if c =? 0 then Wh else Bl) P s)) all_squares.
Proof.
  intros c pawns t [->| ->] Hp.
  - apply white_pawn_capture.
  - now apply black_pawn_capture.
Qed.
Print Assumptions pawn_capture_geometric.

(** witness that the bound is necessary for Black: a value with bit 70 set is not a uint64 *)
Lemma pawn_capture_bound_needed :
  N.testbit (pawn_captureboard 1 (2 ^ 70)) 61 = true /\
  (61 <? 64) && existsb (fun s => N.testbit (2 ^ 70) (N.of_nat s) &&
     mem_nat (N.to_nat 61) (attacks_from (fun _ => false) Bl P s)) all_squares = false.
Proof. split; vm_compute; reflexivity. Qed.

(** the white half does not need the bound *)
Theorem pawn_capture_geometric_white : forall pawns t,
  N.testbit (pawn_captureboard 0 pawns) t =
  (t <? 64) && existsb (fun s => N.testbit pawns (N.of_nat s) &&
     mem_nat (N.to_nat t) (attacks_from (fun _ => false) Wh P s)) all_squares.
Proof. exact white_pawn_capture. Qed.
