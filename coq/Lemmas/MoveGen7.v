(** MoveGen7 — king steps and castling emission; consequences of [wf_b]; assembly:
    [pseudo_legal_sound] (every emitted move is a pseudo candidate of the specification and carries the
    prescribed record) and [pseudo_legal_complete] (every pseudo candidate is emitted). *)
From Coq Require Import NArith ZArith List Bool Lia ZifyBool ZifyNat ZifyN.
From Morlock.Model Require Import Bits Attacks Move Position Abs.
From Morlock.Spec Require Import Chess.
From Morlock.Lemmas Require Import AttackGeometry AttackGeometry_Extra PositionLemmas MoveGen1 MoveGen2 MoveGen3 MoveGen4 MoveGen5 MoveGen6.
Import ListNotations.
Open Scope N_scope.

(** * consequences of well-formedness *)

Record WF (p : position) (turn : N) : Prop := mkWF {
  wf_inv : Inv p;
  wf_wk : popcount (pget p White King) = 1;
  wf_bk : popcount (pget p Black King) = 1;
  wf_ranks : N.land (N.lor (pget p White Pawn) (pget p Black Pawn)) (N.lor (bitrank 0) (bitrank 7)) = 0;
  wf_h1 : home_ok p WhiteKingSideCastle E1 H1 White = true;
  wf_h2 : home_ok p WhiteQueenSideCastle E1 A1 White = true;
  wf_h3 : home_ok p BlackKingSideCastle E8 H8 Black = true;
  wf_h4 : home_ok p BlackQueenSideCastle E8 A8 Black = true;
  wf_ep : ep_ok p turn = true;
  wf_nocheck : is_checked p (opponent turn) = false
}.

Lemma wf_b_WF p turn : wf_b p turn = true -> WF p turn.
Proof.
  unfold wf_b. rewrite !andb_true_iff, !N.eqb_eq, negb_true_iff.
  intros [[[[[[[[[H1 H2] H3] H4] H5] H6] H7] H8] H9] H10].
  constructor; try assumption. now apply inv_b_iff.
Qed.

Lemma wf_king p turn : WF p turn -> vcol turn -> popcount (pget p turn King) = 1.
Proof. intros W [->| ->]; [apply (wf_wk _ _ W)|apply (wf_bk _ _ W)]. Qed.

Lemma wf_ep_empty p turn : WF p turn -> enpassant p <> 0 -> N.testbit (all_bb p) (enpassant p) = false.
Proof.
  intros W Hne. pose proof (wf_ep _ _ W) as H. pose proof (wf_inv _ _ W) as HI.
  pose proof HI as [_ [_ [_ [_ [_ [_ [_ He]]]]]]].
  unfold ep_ok in H. destruct (N.eqb_spec (enpassant p) 0); [contradiction|].
  assert (E : is_empty p (enpassant p) = true).
  { destruct (turn =? White); repeat (apply andb_true_iff in H as [H ?]); assumption. }
  rewrite is_empty_tb in E by exact He. now apply negb_true_iff in E.
Qed.

(** the unique king *)
Lemma king_unique p turn s : Inv p -> popcount (pget p turn King) = 1 ->
  (N.testbit (pget p turn King) s = true <-> s = ctz (pget p turn King)).
Proof.
  intros HI H1. rewrite <- bits_asc_spec, (popcount_one_bits _ H1). cbn [In].
  split; [intros [E|[]]; auto|intros ->; now left].
Qed.

Lemma king_nonzero p turn : popcount (pget p turn King) = 1 -> pget p turn King <> 0.
Proof. intros H E. rewrite E in H. discriminate. Qed.

Lemma home_king p turn right ks rs : Inv p -> popcount (pget p turn King) = 1 -> ks < 64 ->
  home_ok p right ks rs turn = true -> is_allowed (castling p) right = true ->
  ctz (pget p turn King) = ks.
Proof.
  intros HI H1 Hks H Ha. unfold home_ok in H. rewrite Ha in H. cbn [negb orb] in H.
  apply andb_true_iff in H as [H _]. rewrite is_set_tb64 in H by exact Hks.
  symmetry. now apply king_unique.
Qed.

(** * castling masks *)

Lemma mask2_empty a b0 x : a < 64 -> b0 < 64 ->
  (N.land (N.lor (bitmask a) (bitmask b0)) x = 0 <-> N.testbit x a = false /\ N.testbit x b0 = false).
Proof.
  intros Ha Hb. rewrite land_zero_bits. split.
  - intros H. split.
    + destruct (N.testbit x a) eqn:E; [|reflexivity]. exfalso. apply (H a); [|exact E].
      rewrite N.lor_spec, !tb_bitmask, N.eqb_refl. destruct (N.ltb_spec a 64); [reflexivity|lia].
    + destruct (N.testbit x b0) eqn:E; [|reflexivity]. exfalso. apply (H b0); [|exact E].
      rewrite N.lor_spec, !tb_bitmask, N.eqb_refl. destruct (N.ltb_spec b0 64); [apply orb_true_r|lia].
  - intros [H1 H2] i Hi Hx. rewrite N.lor_spec, !tb_bitmask in Hi.
    apply orb_true_iff in Hi as [Hi|Hi]; apply andb_true_iff in Hi as [_ Hi]; apply N.eqb_eq in Hi; subst i; congruence.
Qed.

Lemma mask3_empty a b0 c0 x : a < 64 -> b0 < 64 -> c0 < 64 ->
  (N.land (N.lor (N.lor (bitmask a) (bitmask b0)) (bitmask c0)) x = 0 <->
   N.testbit x a = false /\ N.testbit x b0 = false /\ N.testbit x c0 = false).
Proof.
  intros Ha Hb Hc0. rewrite land_zero_bits. split.
  - intros H. repeat split.
    + destruct (N.testbit x a) eqn:E; [|reflexivity]. exfalso. apply (H a); [|exact E].
      rewrite !N.lor_spec, !tb_bitmask, N.eqb_refl. destruct (N.ltb_spec a 64); [reflexivity|lia].
    + destruct (N.testbit x b0) eqn:E; [|reflexivity]. exfalso. apply (H b0); [|exact E].
      rewrite !N.lor_spec, !tb_bitmask, N.eqb_refl. destruct (N.ltb_spec b0 64); [now rewrite orb_true_r|lia].
    + destruct (N.testbit x c0) eqn:E; [|reflexivity]. exfalso. apply (H c0); [|exact E].
      rewrite !N.lor_spec, !tb_bitmask, N.eqb_refl. destruct (N.ltb_spec c0 64); [now rewrite orb_true_r|lia].
  - intros [H1 [H2 H3]] i Hi Hx. rewrite !N.lor_spec, !tb_bitmask in Hi.
    apply orb_true_iff in Hi as [Hi|Hi]; [apply orb_true_iff in Hi as [Hi|Hi]|];
    apply andb_true_iff in Hi as [_ Hi]; apply N.eqb_eq in Hi; subst i; congruence.
Qed.

(** * specification side of castling *)

Lemma castle_mk_in b c right ks rs between dst : right = true ->
  at_ b ks = Some (c, K) -> at_ b rs = Some (c, R) -> (forall x, In x between -> occupied b x = false) ->
  In (mkSmove ks dst None) (castle_pseudo_mk b c right ks rs between dst).
Proof.
  intros -> E1 E2 H. unfold castle_pseudo_mk. rewrite E1, E2, color_eqb_refl. cbn [andb].
  assert (F : forallb (fun s => negb (occupied b s)) between = true).
  { apply forallb_forall. intros x Hx. now rewrite (H x Hx). }
  rewrite F. now left.
Qed.

Lemma castle_mk_inv b c right ks rs between dst sm :
  In sm (castle_pseudo_mk b c right ks rs between dst) ->
  sm = mkSmove ks dst None /\ right = true /\ at_ b ks = Some (c, K) /\ at_ b rs = Some (c, R) /\
  (forall x, In x between -> occupied b x = false).
Proof.
  unfold castle_pseudo_mk. intros H.
  destruct right; [|destruct H]. cbn [andb] in H.
  destruct (at_ b ks) as [[c1 [| | | | |]]|]; try (destruct H; fail).
  destruct (color_eqb c c1) eqn:Ec1; [|destruct H]. apply color_eqb_eq in Ec1. subst c1. cbn [andb] in H.
  destruct (at_ b rs) as [[c2 [| | | | |]]|]; try (destruct H; fail).
  destruct (color_eqb c c2) eqn:Ec2; [|destruct H]. apply color_eqb_eq in Ec2. subst c2. cbn [andb] in H.
  destruct (forallb (fun s => negb (occupied b s)) between) eqn:F; [|destruct H].
  destruct H as [<-|[]]. repeat split; try reflexivity.
  intros x Hx. rewrite forallb_forall in F. specialize (F x Hx). now apply negb_true_iff in F.
Qed.

Lemma concretize_castle sp c ks dst c' : at_ (brd sp) ks = Some (c', K) ->
  (Z.abs (file_of ks - file_of dst) =? 2)%Z = true -> at_ (brd sp) dst = None ->
  concretize sp c (mkSmove ks dst None) =
  mkMove (if (file_of dst <? file_of ks)%Z then KingSideCastle else QueenSideCastle)
         (N.of_nat ks) (N.of_nat dst) King NoPiece NoPiece.
Proof.
  intros E H2 Ed. unfold concretize, expected_type, is_ep_move, is_castling_move, is_double_step, moving, captured.
  cbn [sfrom sto spromo]. rewrite E, H2, Ed. reflexivity.
Qed.

(** * castling emission *)

Lemma castle_emit_in p turn from right mask rooksq t dst m : dst < 64 -> (t =? Capture) = false ->
  (In m (castle_emit p turn from right mask rooksq t dst) <->
   is_allowed (castling p) right = true /\ N.land mask (all_bb p) = 0 /\
   N.land (pget p turn Rook) (bitmask rooksq) <> 0 /\ m = mkMove t from dst King NoPiece NoPiece).
Proof.
  intros Hd Ht. unfold castle_emit.
  destruct (is_allowed (castling p) right); cbn [andb]; [|split; [intros []|intros [H _]; discriminate]].
  destruct (N.eqb_spec (N.land mask (all_bb p)) 0) as [E|E]; cbn [andb];
    [|split; [intros []|intros [_ [H _]]; contradiction]].
  destruct (N.eqb_spec (N.land (pget p turn Rook) (bitmask rooksq)) 0) as [E2|E2]; cbn [negb];
    [split; [intros []|intros [_ [_ [H _]]]; contradiction]|].
  rewrite emit_move_in, Ht. split.
  - intros [to [Hb ->]]. rewrite tb_bitmask in Hb. assert (to = dst) by lia. subst to. auto.
  - intros [_ [_ [_ ->]]]. exists dst. split; [|reflexivity]. rewrite tb_bitmask, N.eqb_refl.
    destruct (N.ltb_spec dst 64); [reflexivity|lia].
Qed.

Lemma rook_bit p turn rs : rs < 64 ->
  (N.land (pget p turn Rook) (bitmask rs) <> 0 <-> N.testbit (pget p turn Rook) rs = true).
Proof.
  intros H. rewrite <- (is_set_tb64 _ _ H). unfold is_set. rewrite negb_true_iff, N.eqb_neq. tauto.
Qed.

Section King.
  Variables (p : position) (turn : N).
  Hypothesis W : WF p turn.
  Hypothesis Hc : vcol turn.
  Local Notation sp := (abs_pos p).
  Local Notation b := (brd (abs_pos p)).
  Local Notation c := (color_of turn).
  Local Notation kb := (pget p turn King).
  Let HI : Inv p := wf_inv _ _ W.
  Let H1k : popcount kb = 1 := wf_king _ _ W Hc.

  Lemma king_sq_lt : ctz kb < 64.
  Proof. eapply word_tb_lt; [apply (pget_word p turn King HI)|]. now apply king_unique. Qed.

  Lemma king_at : at_ b (N.to_nat (ctz kb)) = Some (c, K).
  Proof. apply at_piece; try assumption; [apply king_sq_lt|]. now apply king_unique. Qed.

  (** one castling emission, given the facts that identify the squares *)
  Lemma castle_case_sound from right mask rooksq t dst ks m sright ksn rsn dstn betw :
    In m (castle_emit p turn from right mask rooksq t dst) ->
    from = ctz kb -> dst < 64 -> rooksq < 64 -> ks < 64 -> (t =? Capture) = false ->
    (forall f d, abs_move (mkMove t f d King NoPiece NoPiece) = mkSmove (N.to_nat f) (N.to_nat d) None) ->
    home_ok p right ks rooksq turn = true ->
    sright = is_allowed (castling p) right ->
    ksn = N.to_nat ks -> rsn = N.to_nat rooksq -> dstn = N.to_nat dst ->
    (N.land mask (all_bb p) = 0 -> forall x, In x betw -> occupied b x = false) -> In dstn betw ->
    (Z.abs (file_of ksn - file_of dstn) =? 2)%Z = true ->
    t = (if (file_of dstn <? file_of ksn)%Z then KingSideCastle else QueenSideCastle) ->
    In (abs_move m) (castle_pseudo_mk b c sright ksn rsn betw dstn) /\ metadata_ok p turn m.
  Proof.
    intros Hm Hfrom Hd Hr Hks Ht Hab Hhome Hsr Eksn Ersn Edstn Hmask Hdin Hfile Htype.
    apply castle_emit_in in Hm as [Ha [Hz [Hrook ->]]]; try assumption.
    apply rook_bit in Hrook; [|exact Hr].
    pose proof (home_king p turn right ks rooksq HI H1k Hks Hhome Ha) as Ek.
    rewrite Hfrom, Ek.
    assert (Eks : at_ b ksn = Some (c, K)) by (rewrite Eksn, <- Ek; apply king_at).
    assert (Ers : at_ b rsn = Some (c, R)) by (rewrite Ersn; apply at_piece; assumption).
    pose proof (Hmask Hz) as Hemp.
    rewrite Hab, <- Eksn, <- Edstn.
    split.
    - apply castle_mk_in; try assumption. now rewrite Hsr.
    - unfold metadata_ok. rewrite Hab, <- Eksn, <- Edstn.
      rewrite (concretize_castle sp c _ _ c Eks Hfile).
      + now rewrite <- Htype, Eksn, Edstn, !N_of_to.
      + specialize (Hemp dstn Hdin). unfold occupied in Hemp.
        destruct (at_ b dstn); [discriminate|reflexivity].
  Qed.

  Lemma castle_case_complete right mask rooksq t dst ks sright ksn rsn dstn betw sm :
    In sm (castle_pseudo_mk b c sright ksn rsn betw dstn) ->
    dst < 64 -> rooksq < 64 -> ks < 64 -> (t =? Capture) = false ->
    (forall f d, abs_move (mkMove t f d King NoPiece NoPiece) = mkSmove (N.to_nat f) (N.to_nat d) None) ->
    sright = is_allowed (castling p) right ->
    ksn = N.to_nat ks -> rsn = N.to_nat rooksq -> dstn = N.to_nat dst ->
    ((forall x, In x betw -> occupied b x = false) -> N.land mask (all_bb p) = 0) ->
    exists m, In m (castle_emit p turn (ctz kb) right mask rooksq t dst) /\ abs_move m = sm.
  Proof.
    intros H Hd Hr Hks Ht Hab Hsr Eksn Ersn Edstn Hmask.
    apply castle_mk_inv in H as [-> [Hright [Eks [Ers Hemp]]]].
    rewrite Eksn in Eks. rewrite Ersn in Ers.
    apply at_piece in Eks; try assumption. apply at_piece in Ers; try assumption.
    change (code_of_kind K) with King in Eks. change (code_of_kind R) with Rook in Ers.
    apply king_unique in Eks; try assumption.
    exists (mkMove t (ctz kb) dst King NoPiece NoPiece). split.
    - apply castle_emit_in; try assumption. split; [now rewrite <- Hsr|]. split; [now apply Hmask|].
      split; [now apply rook_bit|reflexivity].
    - now rewrite Hab, <- Eks, Eksn, Edstn.
  Qed.

  Lemma occ_list (l : list N) : (forall x, In x l -> N.testbit (all_bb p) x = false) ->
    forall y, In y (map N.to_nat l) -> occupied b y = false.
  Proof.
    intros H y Hy. apply in_map_iff in Hy as [x [<- Hx]]. rewrite occupied_tb by exact HI. now apply H.
  Qed.

  Lemma occ_list_inv (l : list N) x : (forall y, In y (map N.to_nat l) -> occupied b y = false) ->
    In x l -> N.testbit (all_bb p) x = false.
  Proof.
    intros H Hx. rewrite <- occupied_tb by exact HI. apply H. now apply in_map.
  Qed.

End King.

Theorem king_moves_sound p turn m : WF p turn -> vcol turn -> In m (king_moves p turn) ->
    In (abs_move m) (pseudo_candidates (abs_pos p) (color_of turn)) /\ metadata_ok p turn m.
  Proof.
    intros W Hc. pose proof (wf_inv _ _ W) as HI. pose proof (wf_king _ _ W Hc) as H1k.
    unfold king_moves. destruct (N.eqb_spec (pget p turn King) 0) as [E|E]; [intros []|]. cbv zeta.
    intros H. apply in_app_or in H as [H|H].
    - (* steps *)
      change (king_attackboard (ctz (pget p turn King))) with (attackboard (rotated_bb p) (ctz (pget p turn King)) (code_of_kind K)) in H.
      change King with (code_of_kind K) in H.
      destruct (step_moves_sound p turn HI Hc K (ctz (pget p turn King)) m (king_sq_lt p turn W Hc) ltac:(discriminate)
                  (proj2 (king_unique p turn _ HI H1k) eq_refl) H) as [S1 S2].
      split; [|exact S2]. unfold pseudo_candidates. apply in_or_app. left.
      eapply piece_candidates_in; [| |exact S1]; [pose proof (king_sq_lt p turn W Hc); lia|apply (king_at p turn W Hc)].
    - (* castling *)
      unfold castle_emits in H. unfold pseudo_candidates, castle_pseudo.
      pose proof (wf_h1 _ _ W) as Hh1. pose proof (wf_h2 _ _ W) as Hh2.
      pose proof (wf_h3 _ _ W) as Hh3. pose proof (wf_h4 _ _ W) as Hh4.
      pose proof Hc as Hc'; destruct Hc' as [Ec|Ec]; subst turn; cbn [N.eqb White] in H; cbn [color_of N.eqb White];
      apply in_app_or in H as [H|H].
      + destruct (castle_case_sound p _ W Hc _ _ _ _ _ _ E1 m (wk (rts (abs_pos p))) e1 h1 g1 [f1; g1] H) as [S1 S2];
          try reflexivity; try assumption; try (right; left; reflexivity).
        * intros Hz. apply mask2_empty in Hz as [Z1 Z2]; [|reflexivity|reflexivity].
          apply (occ_list p _ W [F1; G1]). intros x [<-|[<-|[]]]; assumption.
        * split; [|exact S2]. apply in_or_app. right. apply in_or_app. now left.
      + destruct (castle_case_sound p _ W Hc _ _ _ _ _ _ E1 m (wq (rts (abs_pos p))) e1 a1 c1 [d1; c1; b1] H) as [S1 S2];
          try reflexivity; try assumption; try (right; left; reflexivity).
        * intros Hz. apply mask3_empty in Hz as [Z1 [Z2 Z3]]; [|reflexivity|reflexivity|reflexivity].
          apply (occ_list p _ W [D1; C1; B1]). intros x [<-|[<-|[<-|[]]]]; assumption.
        * split; [|exact S2]. apply in_or_app. right. apply in_or_app. now right.
      + destruct (castle_case_sound p _ W Hc _ _ _ _ _ _ E8 m (bk (rts (abs_pos p))) e8 h8 g8 [f8; g8] H) as [S1 S2];
          try reflexivity; try assumption; try (right; left; reflexivity).
        * intros Hz. apply mask2_empty in Hz as [Z1 Z2]; [|reflexivity|reflexivity].
          apply (occ_list p _ W [F8; G8]). intros x [<-|[<-|[]]]; assumption.
        * split; [|exact S2]. apply in_or_app. right. apply in_or_app. now left.
      + destruct (castle_case_sound p _ W Hc _ _ _ _ _ _ E8 m (bq (rts (abs_pos p))) e8 a8 c8 [d8; c8; b8] H) as [S1 S2];
          try reflexivity; try assumption; try (right; left; reflexivity).
        * intros Hz. apply mask3_empty in Hz as [Z1 [Z2 Z3]]; [|reflexivity|reflexivity|reflexivity].
          apply (occ_list p _ W [D8; C8; B8]). intros x [<-|[<-|[<-|[]]]]; assumption.
        * split; [|exact S2]. apply in_or_app. right. apply in_or_app. now right.
  Qed.

Theorem castle_complete p turn sm : WF p turn -> vcol turn -> In sm (castle_pseudo (abs_pos p) (color_of turn)) ->
    exists m, In m (king_moves p turn) /\ abs_move m = sm.
  Proof.
    intros W Hc H. pose proof (wf_inv _ _ W) as HI. pose proof (wf_king _ _ W Hc) as H1k.
    assert (G : exists m, In m (castle_emits p turn (ctz (pget p turn King))) /\ abs_move m = sm).
    { unfold castle_pseudo in H. unfold castle_emits.
      pose proof Hc as Hc'; destruct Hc' as [Ec|Ec]; subst turn; cbn [N.eqb White]; cbn [color_of N.eqb White] in H;
      apply in_app_or in H as [H|H].
      - destruct (castle_case_complete p _ W Hc WhiteKingSideCastle whiteKingSideCastlingMask H1 KingSideCastle G1 E1 _ _ _ _ _ _ H)
          as [m [Hm Em]]; try reflexivity.
        + intros Hocc. apply mask2_empty; [reflexivity|reflexivity|].
          split; apply (occ_list_inv p _ W [F1; G1] _ Hocc); cbn; tauto.
        + exists m. split; [apply in_or_app; now left|exact Em].
      - destruct (castle_case_complete p _ W Hc WhiteQueenSideCastle whiteQueenSideCastlingMask A1 QueenSideCastle C1 E1 _ _ _ _ _ _ H)
          as [m [Hm Em]]; try reflexivity.
        + intros Hocc. apply mask3_empty; [reflexivity|reflexivity|reflexivity|].
          repeat split; apply (occ_list_inv p _ W [D1; C1; B1] _ Hocc); cbn; tauto.
        + exists m. split; [apply in_or_app; now right|exact Em].
      - destruct (castle_case_complete p _ W Hc BlackKingSideCastle blackKingSideCastlingMask H8 KingSideCastle G8 E8 _ _ _ _ _ _ H)
          as [m [Hm Em]]; try reflexivity.
        + intros Hocc. apply mask2_empty; [reflexivity|reflexivity|].
          split; apply (occ_list_inv p _ W [F8; G8] _ Hocc); cbn; tauto.
        + exists m. split; [apply in_or_app; now left|exact Em].
      - destruct (castle_case_complete p _ W Hc BlackQueenSideCastle blackQueenSideCastlingMask A8 QueenSideCastle C8 E8 _ _ _ _ _ _ H)
          as [m [Hm Em]]; try reflexivity.
        + intros Hocc. apply mask3_empty; [reflexivity|reflexivity|reflexivity|].
          repeat split; apply (occ_list_inv p _ W [D8; C8; B8] _ Hocc); cbn; tauto.
        + exists m. split; [apply in_or_app; now right|exact Em]. }
    destruct G as [m [Hm Em]]. exists m. split; [|exact Em].
    unfold king_moves. destruct (N.eqb_spec (pget p turn King) 0) as [E|E]; [now apply king_nonzero in E|].
    cbv zeta. apply in_or_app. now right.
  Qed.

Theorem king_steps_complete p turn s sm : WF p turn -> vcol turn -> (s < 64)%nat -> at_ (brd (abs_pos p)) s = Some (color_of turn, K) ->
    In sm (piece_moves (abs_pos p) (color_of turn) K s) -> exists m, In m (king_moves p turn) /\ abs_move m = sm.
  Proof.
    intros W Hc Hs E H. pose proof (wf_inv _ _ W) as HI. pose proof (wf_king _ _ W Hc) as H1k. set (from := N.of_nat s). assert (Hf : from < 64) by (unfold from; lia).
    assert (Es : s = N.to_nat from) by (unfold from; lia). rewrite Es in E, H.
    apply at_piece in E; try assumption. change (code_of_kind K) with King in E.
    apply king_unique in E; try assumption.
    destruct (step_moves_complete p turn HI Hc K from sm Hf ltac:(discriminate) H) as [m [Hm Em]].
    exists m. split; [|exact Em].
    unfold king_moves. destruct (N.eqb_spec (pget p turn King) 0) as [E0|E0]; [now apply king_nonzero in E0|].
    cbv zeta. apply in_or_app. left. rewrite <- E. exact Hm.
  Qed.

(** * assembly *)

Theorem pseudo_legal_sound p turn m : WF p turn -> vcol turn -> In m (pseudo_legal_moves p turn) ->
  In (abs_move m) (pseudo_candidates (abs_pos p) (color_of turn)) /\ metadata_ok p turn m.
Proof.
  intros W Hc H. pose proof (wf_inv _ _ W) as HI. rewrite pseudo_legal_split in H.
  apply in_app_or in H as [H|H]; [|apply in_app_or in H as [H|H]].
  - destruct (officer_moves_sound p turn m HI Hc H) as [S1 S2]. split; [|exact S2].
    unfold pseudo_candidates. apply in_or_app. now left.
  - destruct (pawn_moves_sound p turn HI Hc (wf_ep_empty p turn W) (wf_ranks _ _ W) m H) as [S1 S2].
    split; [|exact S2]. unfold pseudo_candidates. apply in_or_app. now left.
  - now apply king_moves_sound.
Qed.

Theorem pseudo_legal_complete p turn sm : WF p turn -> vcol turn ->
  In sm (pseudo_candidates (abs_pos p) (color_of turn)) ->
  exists m, In m (pseudo_legal_moves p turn) /\ abs_move m = sm.
Proof.
  intros W Hc H. pose proof (wf_inv _ _ W) as HI.
  assert (G : exists m, (In m (officer_moves p turn) \/ In m (pawn_moves p turn) \/ In m (king_moves p turn)) /\ abs_move m = sm).
  { unfold pseudo_candidates in H. apply in_app_or in H as [H|H].
    - apply piece_candidates_inv in H as [s [k [Hs [E H]]]].
      destruct k.
      + destruct (pawn_moves_complete p turn HI Hc (wf_ep_empty p turn W) (wf_ranks _ _ W) s sm Hs E H) as [m [Hm Em]].
        exists m. auto.
      + destruct (officer_moves_complete p turn Bi s sm HI Hc Hs ltac:(discriminate) ltac:(discriminate) E H) as [m [Hm Em]].
        exists m. auto.
      + destruct (officer_moves_complete p turn Kn s sm HI Hc Hs ltac:(discriminate) ltac:(discriminate) E H) as [m [Hm Em]].
        exists m. auto.
      + destruct (officer_moves_complete p turn R s sm HI Hc Hs ltac:(discriminate) ltac:(discriminate) E H) as [m [Hm Em]].
        exists m. auto.
      + destruct (officer_moves_complete p turn Q s sm HI Hc Hs ltac:(discriminate) ltac:(discriminate) E H) as [m [Hm Em]].
        exists m. auto.
      + destruct (king_steps_complete p turn s sm W Hc Hs E H) as [m [Hm Em]]. exists m. auto.
    - destruct (castle_complete p turn sm W Hc H) as [m [Hm Em]]. exists m. auto. }
  destruct G as [m [Hm Em]]. exists m. split; [|exact Em]. rewrite pseudo_legal_split.
  destruct Hm as [Hm|[Hm|Hm]]; apply in_or_app; [now left|right|right]; apply in_or_app; [now left|now right].
Qed.

Print Assumptions pseudo_legal_sound.
Print Assumptions pseudo_legal_complete.
