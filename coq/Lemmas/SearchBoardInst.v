(** The alpha-beta / quiescence contract of Lemmas/SearchContract.v for the REAL board:
    [search_board z full_exploration captures_only material cancel use_q qfuel g t [] depth low high].

    Tree (SearchBoardInst1): nodes are abstract boards [aboard]; [bmoves p] the pseudo-legal moves of the
    position, [bchild z p m] the abstract push from [p] with its result flag reset (None iff the move is
    not pseudo-legal or PushMove refuses it), [bdrawn c] the Draw flag that push sets, [bmated] is_checked,
    [bleaf] eval.Material as a float32 pattern, [bex] everything, [bqex] captures, [bhash] the board hash.
    [BAt p g]: heap board [g] stands at node [p] (wf, same abstraction up to the result field, [GInv]).
    The reference value of a search from board [g] at node [p] is [mm depth true (norm p)]: minimax from
    the node with its result flag reset (the search clears a claimable draw at the root); [mm_norm] says
    this is [mm depth true p] except for depth 0 with quiescence at a drawn root.

    Main theorems: [board_search_spec], [board_full_window] (C03), [board_window] (C13),
    [board_halt_restores] (C12), [board_pv_sound], [board_qs_contract], [board_tt_law], each for a general
    table under [HashValue] and ([*_nott]) for [NoTT] without any table hypothesis. *)
From Coq Require Import NArith ZArith List Bool Lia.
From Morlock.Model Require Import Bits Score Attacks Move Position Zobrist Board Search TT SearchBoard Abs.
From Morlock.Lemmas Require Import ScoreLemmas SearchScore SearchStep BoardHeap1 BoardHeap2 BoardHeap3
     SearchContract SearchBoardInst1 SearchBoardInst2 SearchBoardInst3 SearchBoardInst4.
Import ListNotations.
Open Scope Z_scope.

Section Board.
  Variable z : ztable.
  Variable cancel : nat -> bool.
  Variable use_q : bool.
  Variable qfuel : nat.
  Hypothesis cancel_mono : forall n, cancel n = true -> cancel (S n) = true.

  Definition b_mm : nat -> bool -> aboard -> score := mm use_q qfuel aboard bmoves (bchild z) bdrawn bmated bleaf bex bqex.
  Definition b_qv : nat -> aboard -> score := qv aboard bmoves (bchild z) bdrawn bmated bleaf bqex.
  Definition b_leaves_ok : nat -> bool -> aboard -> Prop := leaves_ok use_q qfuel aboard bmoves (bchild z) bdrawn bex bqex.
  Definition b_PVok : nat -> aboard -> list move -> Prop := PVok aboard bmoves (bchild z).
  Definition b_PVroot := PVroot use_q qfuel aboard bmoves (bchild z) bdrawn bmated bleaf bex bqex.
  (** hash identifies the (draw-ignoring) value: the property's own precondition *)
  Definition b_HashValue : Prop := HashValue use_q qfuel aboard bmoves (bchild z) bdrawn bmated bleaf bex bqex bhash.
  Definition b_TTInv : ttv -> Prop := TTInv ttv ttv_read use_q qfuel aboard bmoves (bchild z) bdrawn bmated bleaf bex bqex bhash.
  Definition b_search := search_board z full_exploration captures_only material cancel use_q qfuel.

  Notation s_g := (s_g gboard ttv).
  Notation s_tt := (s_tt gboard ttv).
  Notation s_polls := (s_polls gboard ttv).

  (** ** the reference value at the root *)
  Lemma mm_norm d p : (d <> O \/ use_q = false \/ bdrawn p = false) -> b_mm d true (norm p) = b_mm d true p.
  Proof.
    intros H. unfold b_mm. destruct d as [|d']; [|reflexivity].
    cbn [mm negb andb]. unfold quiet. destruct use_q; [|reflexivity].
    destruct H as [H|[H|H]]; [contradiction|discriminate H|].
    destruct qfuel as [|f]; [reflexivity|]. cbn [qv]. rewrite H. reflexivity.
  Qed.

  (** without quiescence there is no fuel condition *)
  Lemma leaves_ok_noq : use_q = false -> forall d root p, b_leaves_ok d root p.
  Proof.
    intros Hq. unfold b_leaves_ok. induction d as [|d IH]; intros root p; cbn [leaves_ok]; right.
    - unfold quiet_ok. rewrite Hq. intros H; discriminate H.
    - intros m c _ _ _. apply IH.
  Qed.

  (** ** general table *)
  Section Table.
    Hypothesis Hhash : b_HashValue.
    Let Htab : NoTable ttv ttv_read \/ (TTLaw ttv ttv_read ttv_write /\ b_HashValue) :=
      or_intror (conj board_tt_law Hhash).
    Let PT : ttv -> Prop := fun _ => True.

    Theorem board_search_spec g t depth low high st nodes sc pv halted p :
      qh use_q qfuel + Z.of_nat depth <= 127 -> b_TTInv t ->
      BAt p g -> RootFlag p g -> b_leaves_ok depth true (norm p) -> valid low = true -> valid high = true ->
      b_search g t [] depth low high = (st, nodes, sc, pv, halted) ->
      (* the board is handed back at the same node, with the draw result it came with *)
      BAt p (s_g st) /\ (gb_draw g = true -> b_result (snd (s_g st)) = b_result (snd g)) /\
      (* the table holds only true exact values, whenever the search was stopped *)
      b_TTInv (s_tt st) /\
      (* halted exactly when the final poll was answered "cancelled" *)
      halted = cancel (Nat.pred (s_polls st)) /\
      (halted = true -> sc = invalid_score /\ pv = [] /\ nodes = 0%N) /\
      (halted = false ->
         valid sc = true /\ Rm low high (b_mm depth true (norm p)) sc /\ b_PVok depth (norm p) pv /\
         b_PVroot depth true (norm p) low high sc pv).
    Proof.
      intros Hd HT HB HR HL Va Vb Heq.
      destruct (board_search_gen z cancel use_q qfuel cancel_mono ttv_read PT (fun _ _ _ => eq_refl) (fun _ _ _ _ _ _ _ _ => I) Htab
                  g t depth low high st nodes sc pv halted p Hd I HT HB HR HL Va Vb Heq) as (K1 & K2 & _ & K4 & K5 & K6 & K7).
      auto 10.
    Qed.

    (** C03 *)
    Theorem board_full_window g t depth st nodes sc pv p :
      qh use_q qfuel + Z.of_nat depth <= 127 -> b_TTInv t ->
      BAt p g -> RootFlag p g -> b_leaves_ok depth true (norm p) ->
      b_search g t [] depth neginf_score inf_score = (st, nodes, sc, pv, false) ->
      go_eq sc (b_mm depth true (norm p)) = true /\ valid sc = true.
    Proof.
      intros Hd HT HB HR HL Heq.
      exact (board_full_window_gen z cancel use_q qfuel cancel_mono ttv_read PT (fun _ _ _ => eq_refl) (fun _ _ _ _ _ _ _ _ => I) Htab
               g t depth st nodes sc pv p Hd I HT HB HR HL Heq).
    Qed.

    (** C13 *)
    Theorem board_window g t depth low high st nodes sc pv p :
      qh use_q qfuel + Z.of_nat depth <= 127 -> b_TTInv t ->
      BAt p g -> RootFlag p g -> b_leaves_ok depth true (norm p) ->
      valid low = true -> valid high = true -> less low high = true ->
      b_search g t [] depth low high = (st, nodes, sc, pv, false) ->
      let v := b_mm depth true (norm p) in
      (le v low -> le v sc /\ le sc low) /\
      (less low v = true -> less v high = true -> go_eq sc v = true) /\
      (le high v -> le high sc /\ le sc v).
    Proof.
      intros Hd HT HB HR HL Va Vb Hab Heq.
      exact (board_window_gen z cancel use_q qfuel cancel_mono ttv_read PT (fun _ _ _ => eq_refl) (fun _ _ _ _ _ _ _ _ => I) Htab
               g t depth low high st nodes sc pv p Hd I HT HB HR HL Va Vb Hab Heq).
    Qed.

    (** C12: whatever the cancellation point, the board comes back at its node with its draw result,
        the table holds only true exact values, and [halted] reports the final poll *)
    Theorem board_halt_restores g t depth low high st nodes sc pv halted p :
      qh use_q qfuel + Z.of_nat depth <= 127 -> b_TTInv t ->
      BAt p g -> RootFlag p g -> b_leaves_ok depth true (norm p) -> valid low = true -> valid high = true ->
      b_search g t [] depth low high = (st, nodes, sc, pv, halted) ->
      BAt p (s_g st) /\ (gb_draw g = true -> b_result (snd (s_g st)) = b_result (snd g)) /\
      b_TTInv (s_tt st) /\ (cancel (Nat.pred (s_polls st)) = true -> halted = true /\ sc = invalid_score /\ pv = [] /\ nodes = 0%N).
    Proof.
      intros Hd HT HB HR HL Va Vb Heq.
      destruct (board_search_spec g t depth low high st nodes sc pv halted p Hd HT HB HR HL Va Vb Heq) as (K1 & K2 & K3 & K4 & K5 & _).
      split; [exact K1|]. split; [exact K2|]. split; [exact K3|]. intros Hc. rewrite Hc in K4. split; [exact K4|apply K5; exact K4].
    Qed.

    Theorem board_pv_sound g t d' st nodes sc pv p :
      qh use_q qfuel + Z.of_nat (S d') <= 127 -> b_TTInv t ->
      BAt p g -> RootFlag p g -> b_leaves_ok (S d') true (norm p) ->
      b_search g t [] (S d') neginf_score inf_score = (st, nodes, sc, pv, false) ->
      b_PVok (S d') (norm p) pv /\
      ((exists m c, In m (bmoves (norm p)) /\ bchild z (norm p) m = Some c /\ bex (norm p) c m = true) ->
       exists m rem c, pv = m :: rem /\ In m (bmoves (norm p)) /\ bchild z (norm p) m = Some c /\ bex (norm p) c m = true /\
                       go_eq (T (b_mm d' false c)) (b_mm (S d') true (norm p)) = true /\ go_eq (T (b_mm d' false c)) sc = true).
    Proof.
      intros Hd HT HB HR HL Heq.
      exact (board_pv_sound_gen z cancel use_q qfuel cancel_mono ttv_read PT (fun _ _ _ => eq_refl) (fun _ _ _ _ _ _ _ _ => I) Htab
               g t d' st nodes sc pv p Hd I HT HB HR HL Heq).
    Qed.
  End Table.

  (** ** no table: no hypothesis on hashes *)
  Definition rd0 : ttv -> N -> option (N * Z * score * move) := fun _ _ => None.
  Let P0 : ttv -> Prop := fun t => t = NoTT.
  Lemma P0_read : forall t h, P0 t -> rd0 t h = ttv_read t h.
  Proof. intros t h ->. reflexivity. Qed.
  Lemma P0_write : forall t h b ply d sc m, P0 t -> P0 (ttv_write t h b ply d sc m).
  Proof. intros t h b ply d sc m ->. reflexivity. Qed.
  Lemma rd0_tab : NoTable ttv rd0 \/ (TTLaw ttv rd0 ttv_write /\ b_HashValue).
  Proof. left. intros t h. reflexivity. Qed.
  Lemma rd0_TTInv t : TTInv ttv rd0 use_q qfuel aboard bmoves (bchild z) bdrawn bmated bleaf bex bqex bhash t.
  Proof. intros h bound d sc m H. discriminate H. Qed.

  Theorem board_search_spec_nott g depth low high st nodes sc pv halted p :
    qh use_q qfuel + Z.of_nat depth <= 127 ->
    BAt p g -> RootFlag p g -> b_leaves_ok depth true (norm p) -> valid low = true -> valid high = true ->
    b_search g NoTT [] depth low high = (st, nodes, sc, pv, halted) ->
    BAt p (s_g st) /\ (gb_draw g = true -> b_result (snd (s_g st)) = b_result (snd g)) /\
    s_tt st = NoTT /\
    halted = cancel (Nat.pred (s_polls st)) /\
    (halted = true -> sc = invalid_score /\ pv = [] /\ nodes = 0%N) /\
    (halted = false ->
       valid sc = true /\ Rm low high (b_mm depth true (norm p)) sc /\ b_PVok depth (norm p) pv /\
       b_PVroot depth true (norm p) low high sc pv).
  Proof.
    intros Hd HB HR HL Va Vb Heq.
    destruct (board_search_gen z cancel use_q qfuel cancel_mono rd0 P0 P0_read P0_write rd0_tab
                g NoTT depth low high st nodes sc pv halted p Hd eq_refl (rd0_TTInv NoTT) HB HR HL Va Vb Heq)
      as (K1 & K2 & K3 & _ & K5 & K6 & K7).
    auto 10.
  Qed.

  Theorem board_full_window_nott g depth st nodes sc pv p :
    qh use_q qfuel + Z.of_nat depth <= 127 ->
    BAt p g -> RootFlag p g -> b_leaves_ok depth true (norm p) ->
    b_search g NoTT [] depth neginf_score inf_score = (st, nodes, sc, pv, false) ->
    go_eq sc (b_mm depth true (norm p)) = true /\ valid sc = true.
  Proof.
    intros Hd HB HR HL Heq.
    exact (board_full_window_gen z cancel use_q qfuel cancel_mono rd0 P0 P0_read P0_write rd0_tab
             g NoTT depth st nodes sc pv p Hd eq_refl (rd0_TTInv NoTT) HB HR HL Heq).
  Qed.

  Theorem board_window_nott g depth low high st nodes sc pv p :
    qh use_q qfuel + Z.of_nat depth <= 127 ->
    BAt p g -> RootFlag p g -> b_leaves_ok depth true (norm p) ->
    valid low = true -> valid high = true -> less low high = true ->
    b_search g NoTT [] depth low high = (st, nodes, sc, pv, false) ->
    let v := b_mm depth true (norm p) in
    (le v low -> le v sc /\ le sc low) /\
    (less low v = true -> less v high = true -> go_eq sc v = true) /\
    (le high v -> le high sc /\ le sc v).
  Proof.
    intros Hd HB HR HL Va Vb Hab Heq.
    exact (board_window_gen z cancel use_q qfuel cancel_mono rd0 P0 P0_read P0_write rd0_tab
             g NoTT depth low high st nodes sc pv p Hd eq_refl (rd0_TTInv NoTT) HB HR HL Va Vb Hab Heq).
  Qed.

  Theorem board_pv_sound_nott g d' st nodes sc pv p :
    qh use_q qfuel + Z.of_nat (S d') <= 127 ->
    BAt p g -> RootFlag p g -> b_leaves_ok (S d') true (norm p) ->
    b_search g NoTT [] (S d') neginf_score inf_score = (st, nodes, sc, pv, false) ->
    b_PVok (S d') (norm p) pv /\
    ((exists m c, In m (bmoves (norm p)) /\ bchild z (norm p) m = Some c /\ bex (norm p) c m = true) ->
     exists m rem c, pv = m :: rem /\ In m (bmoves (norm p)) /\ bchild z (norm p) m = Some c /\ bex (norm p) c m = true /\
                     go_eq (T (b_mm d' false c)) (b_mm (S d') true (norm p)) = true /\ go_eq (T (b_mm d' false c)) sc = true).
  Proof.
    intros Hd HB HR HL Heq.
    exact (board_pv_sound_gen z cancel use_q qfuel cancel_mono rd0 P0 P0_read P0_write rd0_tab
             g NoTT d' st nodes sc pv p Hd eq_refl (rd0_TTInv NoTT) HB HR HL Heq).
  Qed.

  Theorem board_halt_restores_nott g depth low high st nodes sc pv halted p :
    qh use_q qfuel + Z.of_nat depth <= 127 ->
    BAt p g -> RootFlag p g -> b_leaves_ok depth true (norm p) -> valid low = true -> valid high = true ->
    b_search g NoTT [] depth low high = (st, nodes, sc, pv, halted) ->
    BAt p (s_g st) /\ (gb_draw g = true -> b_result (snd (s_g st)) = b_result (snd g)) /\
    (cancel (Nat.pred (s_polls st)) = true -> halted = true /\ sc = invalid_score /\ pv = [] /\ nodes = 0%N).
  Proof.
    intros Hd HB HR HL Va Vb Heq.
    destruct (board_search_spec_nott g depth low high st nodes sc pv halted p Hd HB HR HL Va Vb Heq) as (K1 & K2 & _ & K4 & K5 & _).
    split; [exact K1|]. split; [exact K2|]. intros Hc. rewrite Hc in K4. split; [exact K4|apply K5; exact K4].
  Qed.
End Board.

Print Assumptions board_search_spec.
Print Assumptions board_full_window.
Print Assumptions board_window.
Print Assumptions board_halt_restores.
Print Assumptions board_pv_sound.
Print Assumptions board_search_spec_nott.
Print Assumptions board_full_window_nott.
Print Assumptions board_window_nott.
Print Assumptions board_halt_restores_nott.
Print Assumptions board_qs_contract.
Print Assumptions board_tt_law.
