(** C04, legality of the answer, part 4: whole UCI sessions on the sequential model.

    A session is any list of `position <line>`, `ucinewgame` and `go depth d` commands, run the way the
    correspondence harness runs the model (ocaml/dispatch6.ml): [u_position], [cmd_ucinewgame] on the
    driver part, [go_depth].  [session] returns, for every `go`, the line of the most recent `position`
    command before it, the depth and the output.

    [session_answers]: if every position line is one a GUI may send ([valid_cmd] of C10: GUI form, a valid
    FEN of a legal position or startpos, legal moves), the session never exits and EVERY go is answered
    by info lines followed by exactly one bestmove that is legal in [setup line] - the game the last
    position line describes, built from the line alone on the specification - and is the null move only
    if that game has no legal move.  This holds across continuation lines (table kept), new positions
    (table re-created by [mk_table]), ucinewgame, repeated go's, and at roots where a draw can be
    claimed.  It combines [position_step] (C10), [cmd_position_good] (part 3) and [go_depth_answer]
    (part 2). *)
From Coq Require Import NArith ZArith List Bool Lia.
From Morlock.Model Require Import Bits Score Attacks Move Position Zobrist Board Search TT SearchBoard Abs Fen Engine EngineSpec UciSeq.
From Morlock.Spec Require Import Chess Game.
From Morlock.Lemmas Require Import PositionLemmas BoardHeap1 SearchContract SearchBoardInst1 SearchBoardInst
     EngineLemmas1 EngineLemmas2 EngineLemmas3 EngineLemmas4 UciLegal1 UciLegal2 UciLegal3.
Import ListNotations.
Open Scope Z_scope.

Inductive ucmd := UPos (line : str) | UNew | UGo (d : nat).

Definition u_newgame (u : ueng) : ueng := mkU (cmd_ucinewgame (u_d u)) (u_tt u) (u_hash u) (u_depth u).

(** one answered go: the last position line before it (if any), the depth asked for, the output *)
Definition answer := (option str * nat * list uout)%type.

Section Session.
  Variable z : ztable.
  Variable use_q : bool.
  Variable qfuel : nat.
  Variable mk_table : N -> ttv.

  Fixpoint session (u : ueng) (last : option str) (cmds : list ucmd) : option (list answer) :=
    match cmds with
    | [] => Some []
    | UPos line :: r =>
        match u_position z mk_table u line with
        | Some u' => session u' (Some line) r
        | None => None
        end
    | UNew :: r => session (u_newgame u) last r
    | UGo d :: r =>
        let (outs, u') := go_depth z use_q qfuel u d in
        match session u' last r with
        | Some l => Some ((last, d, outs) :: l)
        | None => None
        end
    end.

  Definition valid_ucmd (c : ucmd) : Prop :=
    match c with
    | UPos line => valid_cmd (CPosition line)
    | UNew => True
    | UGo d => (1 <= d)%nat /\ qh use_q qfuel + Z.of_nat d <= 127
    end.

  (** the answer to a go is legal in the game of the last position line *)
  Definition answered (a : answer) : Prop :=
    let '(last, d, outs) := a in
    match last with
    | Some line =>
        exists g infos, setup line = Some g /\
          outs = map OInfo infos ++ [OBest (best_of infos)] /\ infos <> [] /\ (length infos <= d)%nat /\
          map depth_of infos = seq 1 (length infos) /\
          Forall (fun i => answer_ok g (hd_error (pv_of i))) infos /\
          answer_ok g (best_of infos)
    | None => True
    end.

  (** the table option always yields a sound table; the quiescence fuel suffices at every node *)
  Hypothesis Hmk : forall h, TabOK z use_q qfuel (mk_table h).
  Hypothesis Hleaves : forall d p, GInv p -> LeavesUpTo z use_q qfuel d p.

  (** invariant between commands *)
  Definition SInv (u : ueng) (last : option str) : Prop :=
    match last with
    | None => d_last (u_d u) = []
    | Some line =>
        gui_form line /\ (d_last (u_d u) = [] \/ d_last (u_d u) = line) /\
        exists g, setup line = Some g /\ ERel (d_eng (u_d u)) g /\ EInv (d_eng (u_d u)) /\
                  CastledOK (d_eng (u_d u)) /\ TabOK z use_q qfuel (u_tt u)
    end.

  Lemma SInv_DInv u last : SInv u last -> DInv (u_d u).
  Proof.
    destruct last as [line|]; [|intros H; left; exact H].
    intros (Hgf & [Hl|Hl] & g & Hs & R & I & _); [left; exact Hl|].
    right. rewrite Hl. split; [exact Hgf|]. exists g. auto.
  Qed.

  Lemma SInv_good u last : SInv u last -> d_last (u_d u) = [] \/ EGood (d_eng (u_d u)).
  Proof.
    destruct last as [line|]; [|intros H; left; exact H].
    intros (_ & _ & g & _ & [Hwf _] & I & C & _). right. split; [exact Hwf|]. split; assumption.
  Qed.

  Lemma go_depth_shape u d : exists infos t' h1,
    go_depth z use_q qfuel u d =
      (map OInfo infos ++ [OBest (best_of infos)],
       mkU (mkD (mkEngine h1 (e_board (d_eng (u_d u)))) (d_last (u_d u))) t' (u_hash u) (u_depth u)).
  Proof.
    unfold go_depth. destruct (fork (e_heap (d_eng (u_d u))) (e_board (d_eng (u_d u)))) as [h1 f].
    destruct (iterate z use_q qfuel (S d) 1 (Some d) (h1, f) (u_tt u) []) as [[infos g'] t'].
    exists infos, t', h1. reflexivity.
  Qed.

  Theorem session_answers : forall cmds u last,
    SInv u last -> Forall valid_ucmd cmds ->
    exists answers, session u last cmds = Some answers /\ Forall answered answers /\
                    length answers = length (filter (fun c => match c with UGo _ => true | _ => false end) cmds).
  Proof.
    induction cmds as [|c r IH]; intros u last HS Hv.
    - exists []. split; [reflexivity|]. split; [constructor|reflexivity].
    - inversion Hv as [|? ? Hc Hr]; subst. destruct c as [line| |d]; cbn [session filter].
      + (* position *)
        destruct Hc as (Hgf & [g Hs] & Hleg).
        destruct (position_step z (u_d u) line g (SInv_DInv u last HS) Hgf Hs Hleg) as (st' & Ecmd & R & I & Hl).
        pose proof (cmd_position_good z (u_d u) line st' (SInv_good u last HS) Hleg Ecmd) as (_ & _ & HC).
        unfold u_position. rewrite Ecmd.
        apply IH; [|exact Hr]. cbn [SInv u_d u_tt].
        split; [exact Hgf|]. split; [right; exact Hl|]. exists g. repeat (split; [assumption|]).
        destruct (negb (match d_last (u_d u) with [] => true | _ => false end) && is_continuation line (d_last (u_d u))) eqn:Ec;
          [|apply Hmk].
        apply andb_true_iff in Ec as [E1 _].
        destruct last as [line0|].
        * destruct HS as (_ & _ & g0 & _ & _ & _ & _ & HT). exact HT.
        * cbn [SInv] in HS. rewrite HS in E1. discriminate E1.
      + (* ucinewgame *)
        apply IH; [|exact Hr]. destruct last as [line0|]; cbn [SInv u_newgame u_d u_tt cmd_ucinewgame d_last d_eng] in *.
        * destruct HS as (Hgf & _ & Hrest). split; [exact Hgf|]. split; [left; reflexivity|exact Hrest].
        * reflexivity.
      + (* go depth d *)
        destruct Hc as [Hd1 Hq].
        destruct (go_depth z use_q qfuel u d) as [outs u'] eqn:Ego.
        assert (HS' : SInv u' last /\ answered (last, d, outs)).
        { destruct last as [line|].
          - destruct HS as (Hgf & Hl & g & Hs & R & I & C & HT).
            pose proof (engine_GInv _ (proj1 R) I C) as HGI.
            destruct (go_depth_answer z use_q qfuel u d g outs u' R I C HT Hd1 Hq (Hleaves d _ HGI) Ego)
              as (infos & Eo & Hne & Hdep & Hlen & Fa & Hbest & _ & _ & R' & I' & C' & Hl' & _ & _ & HT' & _).
            split.
            + cbn [SInv]. split; [exact Hgf|]. split; [rewrite Hl'; exact Hl|]. exists g. auto 10.
            + cbn [answered]. exists g, infos. repeat (split; [assumption|]). split; [|exact Hbest].
              eapply Forall_impl; [|exact Fa]. intros i [Hi _]. exact Hi.
          - split; [|exact I]. cbn [SInv] in *.
            destruct (go_depth_shape u d) as (infos & t' & h1 & E). rewrite Ego in E. injection E as _ ->.
            cbn [u_d d_last]. exact HS. }
        destruct HS' as [HS' Ha].
        destruct (IH u' last HS' Hr) as (answers & Es & Fa & Hlen). rewrite Es.
        exists ((last, d, outs) :: answers). split; [reflexivity|]. split; [constructor; assumption|].
        cbn [length]. rewrite Hlen. reflexivity.
  Qed.

  (** the form asked for: position lines, then one go *)
  Corollary positions_then_go : forall lines line d u0,
    d_last (u_d u0) = [] ->
    Forall (fun l => valid_cmd (CPosition l)) (lines ++ [line]) ->
    (1 <= d)%nat -> qh use_q qfuel + Z.of_nat d <= 127 ->
    exists outs g infos,
      session u0 None (map UPos (lines ++ [line]) ++ [UGo d]) = Some [(Some line, d, outs)] /\
      setup line = Some g /\
      outs = map OInfo infos ++ [OBest (best_of infos)] /\ infos <> [] /\ (length infos <= d)%nat /\
      answer_ok g (best_of infos).
  Proof.
    intros lines line d u0 H0 Hv Hd1 Hq.
    assert (Hgen : forall ls u last a, session u last (map UPos (ls ++ [line]) ++ [UGo d]) = Some a ->
                     exists outs, a = [(Some line, d, outs)]).
    { induction ls as [|l ls IHl]; intros u last a Hs.
      - cbn [app map session] in Hs. destruct (u_position z mk_table u line) as [u1|]; [|discriminate Hs].
        destruct (go_depth z use_q qfuel u1 d) as [outs u2]. injection Hs as <-. exists outs. reflexivity.
      - cbn [app map session] in Hs. destruct (u_position z mk_table u l) as [u1|]; [|discriminate Hs].
        exact (IHl u1 (Some l) a Hs). }
    destruct (session_answers (map UPos (lines ++ [line]) ++ [UGo d]) u0 None H0) as (answers & Es & Fa & _).
    { apply Forall_app. split.
      - apply Forall_forall. intros c Hc. apply in_map_iff in Hc as (l & <- & Hl).
        exact (proj1 (Forall_forall _ _) Hv l Hl).
      - constructor; [split; assumption|constructor]. }
    destruct (Hgen lines u0 None answers Es) as [outs ->].
    inversion Fa as [|? ? Ha _]; subst. cbn [answered] in Ha.
    destruct Ha as (g & infos & Hs & Eo & Hne & Hlen & _ & _ & Hb).
    exists outs, g, infos. auto 10.
  Qed.
End Session.

Print Assumptions session_answers.
Print Assumptions positions_then_go.
