(** C02 — playing a legal move produces the position the rules prescribe.
    Main theorems; the work is in MoveRefines1 (edit lists, shape of moves), MoveRefines2 (refinement from the
    shape), MoveRefines3 (attack symmetry, no king capture), MoveRefines4 (shape of every pseudo-legal move),
    MoveRefines5 (closure of legality). *)
From Coq Require Import NArith ZArith List Bool Lia ZifyBool ZifyNat ZifyN.
From Morlock.Model Require Import Bits Attacks Move Position Abs.
From Morlock.Spec Require Import Chess.
From Morlock.Lemmas Require Import PositionLemmas MoveRefines1 MoveRefines2 MoveRefines3 MoveRefines4 MoveRefines5.
Import ListNotations.
Open Scope N_scope.

(** The representation invariant is preserved: all views of the new position (square lookup, per-piece and
    per-colour sets, occupancy, rotated occupancy used by the attack queries) agree ([Inv], [square_spec]). *)
Theorem move_inv p turn m p' : Inv p -> wf_b p turn = true -> In m (pseudo_legal_moves p turn) ->
  pos_move p m = Some p' -> Inv p'.
Proof. intros HI Hwf Hin Hmv. eapply shape_move_inv; [exact HI | exact (pseudo_shape _ _ _ Hwf Hin) | exact Hmv]. Qed.

(** The new position is the one the rules prescribe. *)
Theorem move_refines p turn m p' : Inv p -> wf_b p turn = true -> In m (pseudo_legal_moves p turn) ->
  pos_move p m = Some p' -> abs_pos p' = apply_move (abs_pos p) (color_of turn) (abs_move m).
Proof. intros HI Hwf Hin Hmv. exact (shape_move_refines _ _ _ _ Hwf (pseudo_shape _ _ _ Hwf Hin) Hmv). Qed.

(** Castling rights: a right survives iff it was held and neither the origin nor the destination of the move
    is the home square of the king or of the rook concerned ([drop_rights]). *)
Corollary castling_rights_spec p turn m p' : Inv p -> wf_b p turn = true -> In m (pseudo_legal_moves p turn) ->
  pos_move p m = Some p' ->
  castling p' = andnot (castling p) (castling_rights_lost m) /\
  abs_rights (castling p') =
    drop_rights (drop_rights (abs_rights (castling p)) (N.to_nat (mfrom m))) (N.to_nat (mto m)).
Proof. intros HI Hwf Hin Hmv. pose proof (pseudo_shape _ _ _ Hwf Hin) as Hsh.
  destruct (shape_move_result _ _ _ _ HI Hsh Hmv) as [ret [-> _]]. split; [reflexivity|].
  unfold move_fields. cbn [castling]. apply rights_refine.
  - now destruct HI as [_ [_ [_ [_ [_ [_ [H _]]]]]]].
  - exact (sh_from _ _ _ Hsh).
  - exact (sh_to _ _ _ Hsh).
  - exact (shape_rights_cond _ _ _ Hwf Hsh). Qed.

(** En passant: a target square exists exactly after a double pawn step, and it is the square passed over. *)
Corollary ep_only_after_jump p turn m p' : Inv p -> wf_b p turn = true -> In m (pseudo_legal_moves p turn) ->
  pos_move p m = Some p' ->
  (enpassant p' <> 0 <-> mtype m = Jump) /\
  (mtype m = Jump -> mpiece m = Pawn /\ pawn_jump_rel turn (mfrom m) (mto m) = true /\
                     enpassant p' = jump_mid turn (mfrom m) (mto m)).
Proof. intros HI Hwf Hin Hmv. pose proof (pseudo_shape _ _ _ Hwf Hin) as Hsh.
  destruct (shape_move_result _ _ _ _ HI Hsh Hmv) as [ret [-> _]]. unfold move_fields. cbn [enpassant].
  destruct Hsh as [Ht Hf Hto Ho Hk]. split.
  - split.
    + intros H. destruct (N.eq_dec (mtype m) Jump) as [E|E]; [assumption|]. now rewrite ep_target_nojump in H.
    + intros E. rewrite ep_target_jump by assumption.
      destruct Hk as [Hty|Hty|Hty|Hty Hpc Hd Hrel Hmid|Hty|Hty|Hty|Hty|Hty]; try (rewrite Hty in E; discriminate).
      now destruct (jump_geom turn _ _ Ht Hf Hto Hrel) as [_ [_ [_ [G _]]]].
  - intros E. destruct Hk as [Hty|Hty|Hty|Hty Hpc Hd Hrel Hmid|Hty|Hty|Hty|Hty|Hty]; try (rewrite Hty in E; discriminate).
    split; [assumption|]. split; [assumption|]. rewrite ep_target_jump by assumption.
    now destruct (jump_geom turn _ _ Ht Hf Hto Hrel) as [_ [_ [_ [_ G]]]]. Qed.

(** Legal positions are closed under legal moves. *)
Theorem move_wf p turn m p' : Inv p -> wf_b p turn = true -> In m (pseudo_legal_moves p turn) ->
  pos_move p m = Some p' -> wf_b p' (opponent turn) = true.
Proof. intros HI Hwf Hin Hmv. exact (shape_move_wf _ _ _ _ Hwf (pseudo_shape _ _ _ Hwf Hin) Hmv). Qed.

(** The same for the members of [legal_moves]. *)
Corollary legal_move_spec p turn m : wf_b p turn = true -> In m (legal_moves p turn) ->
  exists p', pos_move p m = Some p' /\ Inv p' /\ wf_b p' (opponent turn) = true /\
             abs_pos p' = apply_move (abs_pos p) (color_of turn) (abs_move m).
Proof. intros Hwf Hin. unfold legal_moves in Hin. apply filter_In in Hin as [Hin Hm].
  destruct (pos_move p m) as [p'|] eqn:E; [|discriminate].
  pose proof (wf_b_elim _ _ Hwf) as [HI _]. exists p'. split; [reflexivity|].
  split; [exact (move_inv _ _ _ _ HI Hwf Hin E)|]. split; [exact (move_wf _ _ _ _ HI Hwf Hin E)|].
  exact (move_refines _ _ _ _ HI Hwf Hin E). Qed.

(** Sequences of legal moves. *)
Inductive played : position -> N -> list move -> position -> N -> Prop :=
| played_nil p t : played p t [] p t
| played_cons p t m p1 ms p2 t2 :
    In m (pseudo_legal_moves p t) -> pos_move p m = Some p1 -> played p1 (opponent t) ms p2 t2 ->
    played p t (m :: ms) p2 t2.

Fixpoint spec_play (sp : spos) (c : color) (ms : list smove) : spos :=
  match ms with [] => sp | m :: r => spec_play (apply_move sp c m) (other c) r end.

Theorem reachable_inv p t ms p' t' : wf_b p t = true -> played p t ms p' t' ->
  wf_b p' t' = true /\ Inv p' /\ abs_pos p' = spec_play (abs_pos p) (color_of t) (map abs_move ms).
Proof. intros Hwf H. induction H as [p t | p t m p1 ms p2 t2 Hin Hmv Hpl IH].
  - split; [assumption|]. split; [now destruct (wf_b_elim _ _ Hwf)|reflexivity].
  - pose proof (wf_b_elim _ _ Hwf) as [HI _].
    pose proof (move_wf _ _ _ _ HI Hwf Hin Hmv) as Hwf1.
    destruct (IH Hwf1) as [A [B C]]. split; [assumption|]. split; [assumption|].
    cbn [map spec_play]. rewrite C. rewrite (move_refines _ _ _ _ HI Hwf Hin Hmv).
    rewrite (color_of_vcol t (sh_turn _ _ _ (pseudo_shape _ _ _ Hwf Hin))). reflexivity. Qed.

(** The position moved from is left untouched: [pos_move] is a function on immutable values; the Go code
    copies the receiver ([ret := *p]) before applying the edits, which is what the model expresses. *)

Print Assumptions move_inv.
Print Assumptions move_refines.
Print Assumptions castling_rights_spec.
Print Assumptions ep_only_after_jump.
Print Assumptions move_wf.
Print Assumptions legal_move_spec.
Print Assumptions reachable_inv.

(** Non-vacuity: the initial position is legal and 1. e2-e4 (a Jump from square 11 to 27) can be played. *)
Definition back_rank : list N := [Rook; Knight; Bishop; King; Queen; Bishop; Knight; Rook].
Definition row (c base : N) (l : list N) : list placement :=
  map (fun ip => mkPlacement (base + fst ip) c (snd ip)) (combine (seqN 8) l).
Definition initial_placements : list placement :=
  row White 0 back_rank ++ row White 8 (repeat Pawn 8) ++ row Black 48 (repeat Pawn 8) ++ row Black 56 back_rank.
Definition e2e4 : move := mkMove Jump 11 27 Pawn NoPiece NoPiece.

Lemma move_eqb_eq a b : move_eqb a b = true -> a = b.
Proof. destruct a as [a1 a2 a3 a4 a5 a6], b as [b1 b2 b3 b4 b5 b6]. unfold move_eqb. cbn [mtype mfrom mto mpiece mpromo mcapture]. rewrite !andb_true_iff, !N.eqb_eq.
  intros [[[[[-> ->] ->] ->] ->] ->]. reflexivity. Qed.

Lemma in_of_existsb m l : existsb (move_eqb m) l = true -> In m l.
Proof. intros H. apply existsb_exists in H as [x [Hx E]]. apply move_eqb_eq in E. now subst. Qed.

Example initial_position_legal :
  exists p0, new_position initial_placements 15 0 = Some p0 /\ wf_b p0 0 = true /\
             In e2e4 (pseudo_legal_moves p0 0) /\
             exists p1, pos_move p0 e2e4 = Some p1 /\ enpassant p1 = 19 /\ wf_b p1 1 = true /\
                        spos_eqb (abs_pos p1) (apply_move (abs_pos p0) Wh (abs_move e2e4)) = true.
Proof. eexists. split; [vm_compute; reflexivity|]. split; [vm_compute; reflexivity|]. split.
  - apply in_of_existsb. vm_compute. reflexivity.
  - eexists. split; [vm_compute; reflexivity|]. split; [reflexivity|]. split; vm_compute; reflexivity. Qed.

(** Finding (already known for the pinned snapshot, kept here as a machine-checked witness): with the
    first-match [castling_rights_lost_legacy] of the unrepaired Go code, Ra1xa8 (both rooks at home, all rights
    held) keeps Black's queen-side right although the rook on a8 has just been captured; the rules (and the
    repaired function used by the model) drop it. The move is a pseudo-legal and legal move of the position. *)
Definition rooks_placements : list placement :=
  [mkPlacement E1 White King; mkPlacement H1 White Rook; mkPlacement A1 White Rook;
   mkPlacement E8 Black King; mkPlacement H8 Black Rook; mkPlacement A8 Black Rook].
Definition ra1xa8 : move := mkMove Capture A1 A8 Rook NoPiece Rook.

Example legacy_castling_rights_lost_wrong :
  exists p0, new_position rooks_placements 15 0 = Some p0 /\ wf_b p0 0 = true /\ In ra1xa8 (legal_moves p0 0) /\
    is_allowed (andnot (castling p0) (castling_rights_lost_legacy ra1xa8)) BlackQueenSideCastle = true /\
    is_allowed (andnot (castling p0) (castling_rights_lost ra1xa8)) BlackQueenSideCastle = false /\
    bq (rts (apply_move (abs_pos p0) Wh (abs_move ra1xa8))) = false.
Proof. eexists. split; [vm_compute; reflexivity|]. split; [vm_compute; reflexivity|]. split.
  - apply in_of_existsb. vm_compute. reflexivity.
  - repeat split; vm_compute; reflexivity. Qed.
