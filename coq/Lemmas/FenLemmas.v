(** FEN codec and move/square parsers (C14 codec part, C19 codec part): entry point.
    FenLemmas1: strings, Atoi/Itoa, colour/castling/square/move parsers.
    FenLemmas2: the board field; positions are determined by their squares; NewPosition of a board's placements.
    FenLemmas3: decode_total, decode_wf, decode_encode, encode_decode_canonical, decode_reencode,
                legacy decoder refutation, non-vacuity. *)
From Morlock.Lemmas Require Export FenLemmas1 FenLemmas2 FenLemmas3.

Print Assumptions decode_total.
Print Assumptions decode_wf.
Print Assumptions atoi_itoa.
Print Assumptions decode_encode.
Print Assumptions encode_decode_canonical.
Print Assumptions decode_reencode.
Print Assumptions parse_move_accepts.
Print Assumptions parse_square_str_roundtrip.
