(** MirrorMobility2 — C20, mobility under the colour mirror, part 2: a weak representation invariant [Wk]
    (word sizes and rotated boards only — it survives ANY [pos_xor], also the phantom en-passant capture of the
    side not to move, which breaks [Inv]); [pos_xor] commutes with [mirror_pos]; attack queries and check
    commute with the mirror under [Wk]. *)
From Coq Require Import NArith ZArith List Bool Lia ZifyBool ZifyNat ZifyN Permutation.
From Morlock.Model Require Import Bits Attacks Move Position Abs Search Fen Engines.
From Morlock.Spec Require Import Chess.
From Morlock.Lemmas Require Import PositionLemmas AttackGeometry1 AttackGeometry_Extra MoveGen2 MoveGen4
     AttackGeometry3 EnginesLemmas5 EnginesLemmas6 EnginesLemmas7 EnginesLemmas8 EnginesLemmas9 MirrorMobility1.
Import ListNotations.
Open Scope N_scope.

(* ------------------------------------------------------------------ *)
(** * the weak invariant *)

Definition Wk (q : position) : Prop :=
  length (pieces q) = 14%nat /\ Forall (fun x => x < 2 ^ 64) (pieces q) /\
  rotated_bb q = new_rotated (all_bb q) /\ all_bb q < 2 ^ 64.

Lemma Inv_Wk p : Inv p -> Wk p.
Proof.
  intros HI. pose proof (all_bb_word p HI) as Hw. destruct HI as [H1 [H2 [_ [_ [_ [H6 _]]]]]].
  repeat split; assumption.
Qed.

Lemma Wk_len q : Wk q -> length (pieces q) = 14%nat.
Proof. now intros [H _]. Qed.

Lemma Wk_pget_word q c k : Wk q -> pget q c k < 2 ^ 64.
Proof.
  intros [_ [HF _]]. unfold pget, nthN.
  destruct (Nat.lt_ge_cases (N.to_nat (pidx c k)) (length (pieces q))) as [H|H].
  - rewrite Forall_forall in HF. apply HF. now apply nth_In.
  - rewrite nth_overflow by assumption. reflexivity.
Qed.

Lemma all_bb_mirror_gen q : all_bb (mirror_pos q) = flip_bb (all_bb q).
Proof. unfold all_bb at 1, mirror_pos. cbn [rotated_bb]. apply r0_new_rotated, flip_bb_word. Qed.

Lemma Forall_firstn {A} (P : A -> Prop) n l : Forall P l -> Forall P (firstn n l).
Proof. intros H. revert n. induction H as [|x r Hx Hr IH]; intros [|n]; cbn; constructor; auto. Qed.
Lemma Forall_skipn {A} (P : A -> Prop) n l : Forall P l -> Forall P (skipn n l).
Proof. intros H. revert n. induction H as [|x r Hx Hr IH]; intros [|n]; cbn; auto. Qed.

Lemma Wk_mirror q : Wk q -> Wk (mirror_pos q).
Proof.
  intros [H1 [H2 [H3 H4]]]. split; [now apply length_mirror_pieces|]. split.
  - unfold mirror_pos. cbn [pieces]. apply Forall_app. split; apply Forall_forall; intros x Hx;
      apply in_map_iff in Hx as [y [<- _]]; apply flip_bb_word.
  - split; [|rewrite all_bb_mirror_gen; apply flip_bb_word].
    rewrite all_bb_mirror_gen. reflexivity.
Qed.

Lemma nthN_word l i : Forall (fun x => x < 2 ^ 64) l -> nthN l i 0 < 2 ^ 64.
Proof.
  intros HF. unfold nthN. destruct (Nat.lt_ge_cases (N.to_nat i) (length l)) as [H|H].
  - rewrite Forall_forall in HF. apply HF. now apply nth_In.
  - rewrite nth_overflow by assumption. reflexivity.
Qed.

Lemma Wk_pos_xor q s c pc : Wk q -> s < 64 -> Wk (pos_xor q s c pc).
Proof.
  intros [H1 [H2 [H3 H4]]] Hs. unfold Wk, pos_xor. cbn [pieces rotated_bb].
  split; [now rewrite !length_updN|]. split.
  - unfold updN. apply Forall_upd.
    + apply Forall_upd; [exact H2|]. apply lxor_word; [now apply nthN_word|apply bitmask_word].
    + apply lxor_word; [|apply bitmask_word]. apply nthN_word. apply Forall_upd; [exact H2|].
      apply lxor_word; [now apply nthN_word|apply bitmask_word].
  - split.
    + rewrite H3. rewrite (rot_xor_lockstep _ _ Hs). unfold all_bb at 2. cbn [rotated_bb].
      rewrite r0_new_rotated; [reflexivity|]. apply lxor_word; [exact H4|apply bitmask_word].
    + unfold all_bb. cbn [rotated_bb]. unfold rot_xor. cbn [r0]. fold (all_bb q).
      apply lxor_word; [exact H4|apply bitmask_word].
Qed.

(* ------------------------------------------------------------------ *)
(** * [pos_xor] and the mirror: the piece list, for abstract xor / flip *)

Section Lists.
  Variable X : N -> N -> N.
  Variable f : N -> N.
  Variables bm bm' : N.
  Hypothesis Hf : forall a, f (X a bm) = X (f a) bm'.

  Definition xor2 (l : list N) (c pc b : N) : list N :=
    let l1 := updN l (pidx c NoPiece) (X (nthN l (pidx c NoPiece) 0) b) in
    updN l1 (pidx c pc) (X (nthN l1 (pidx c pc) 0) b).
  Definition mir (l : list N) : list N := map f (firstn 7 (skipn 7 l)) ++ map f (firstn 7 l).

  Lemma mir_xor2 l c pc : length l = 14%nat -> (c = 0 \/ c = 1) -> 1 <= pc <= 6 ->
    mir (xor2 l c pc bm) = xor2 (mir l) (opponent c) pc bm'.
  Proof.
    intros Hl Hc Hp.
    destruct l as [|a0 [|a1 [|a2 [|a3 [|a4 [|a5 [|a6 [|b0 [|b1 [|b2 [|b3 [|b4 [|b5 [|b6 [|x r]]]]]]]]]]]]]]]; try discriminate.
    assert (Hp' : pc = 1 \/ pc = 2 \/ pc = 3 \/ pc = 4 \/ pc = 5 \/ pc = 6) by lia.
    destruct Hc as [-> | ->]; destruct Hp' as [-> |[-> |[-> |[-> |[-> | -> ]]]]]; cbv; rewrite !Hf; reflexivity.
  Qed.

End Lists.

Section Lists2.
  Variable X : N -> N -> N.
  Variable bm : N.
  Hypothesis HX : forall a, X (X a bm) bm = a.
  Lemma xor2_twice l c pc : length l = 14%nat -> (c = 0 \/ c = 1) -> 1 <= pc <= 6 ->
    xor2 X (xor2 X l c pc bm) c pc bm = l.
  Proof.
    intros Hl Hc Hp.
    destruct l as [|a0 [|a1 [|a2 [|a3 [|a4 [|a5 [|a6 [|b0 [|b1 [|b2 [|b3 [|b4 [|b5 [|b6 [|x r]]]]]]]]]]]]]]]; try discriminate.
    assert (Hp' : pc = 1 \/ pc = 2 \/ pc = 3 \/ pc = 4 \/ pc = 5 \/ pc = 6) by lia.
    destruct Hc as [-> | ->]; destruct Hp' as [-> |[-> |[-> |[-> |[-> | -> ]]]]]; cbv; rewrite !HX; reflexivity.
  Qed.
End Lists2.

Lemma mkPos_eq a a' b b' c c' d d' : a = a' -> b = b' -> c = c' -> d = d' -> mkPos a b c d = mkPos a' b' c' d'.
Proof. intros -> -> -> ->. reflexivity. Qed.

Lemma pieces_pos_xor q s c pc : pieces (pos_xor q s c pc) = xor2 N.lxor (pieces q) c pc (bitmask s).
Proof. reflexivity. Qed.

Lemma pieces_mirror q : pieces (mirror_pos q) = mir flip_bb (pieces q).
Proof. reflexivity. Qed.

Lemma mirror_pos_unfold q : mirror_pos q =
  mkPos (mir flip_bb (pieces q)) (new_rotated (flip_bb (all_bb q))) (mirror_castling (castling q))
        (if enpassant q =? 0 then 0 else mirror_sq (enpassant q)).
Proof. reflexivity. Qed.

Lemma pos_xor_unfold q s c pc : pos_xor q s c pc =
  mkPos (xor2 N.lxor (pieces q) c pc (bitmask s)) (rot_xor (rotated_bb q) s) (castling q) (enpassant q).
Proof. reflexivity. Qed.

(** the mirror of a square toggle is the toggle of the mirrored square for the other colour *)
Theorem mirror_pos_xor q s c pc : Wk q -> s < 64 -> (c = 0 \/ c = 1) -> 1 <= pc <= 6 ->
  mirror_pos (pos_xor q s c pc) = pos_xor (mirror_pos q) (mirror_sq s) (opponent c) pc.
Proof.
  intros [H1 [H2 [H3 H4]]] Hs Hc Hp.
  assert (Hf : forall a, flip_bb (N.lxor a (bitmask s)) = N.lxor (flip_bb a) (bitmask (mirror_sq s))).
  { intros a. now rewrite flip_bb_lxor, flip_bb_bitmask. }
  rewrite (mirror_pos_unfold (pos_xor q s c pc)), (pos_xor_unfold (mirror_pos q)).
  apply mkPos_eq.
  - rewrite pieces_pos_xor, pieces_mirror.
    exact (mir_xor2 N.lxor flip_bb _ _ Hf _ c pc H1 Hc Hp).
  - rewrite all_bb_pos_xor, Hf. unfold mirror_pos. cbn [rotated_bb].
    now rewrite (rot_xor_lockstep _ _ (mirror_sq_lt s Hs)).
  - reflexivity.
  - reflexivity.
Qed.

Theorem pos_xor_twice q s c pc : Wk q -> (c = 0 \/ c = 1) -> 1 <= pc <= 6 ->
  pos_xor (pos_xor q s c pc) s c pc = q.
Proof.
  intros [H1 _] Hc Hp. destruct q as [l rot ca ep]. cbn [pieces] in H1.
  rewrite (pos_xor_unfold (pos_xor _ _ _ _)). apply mkPos_eq.
  - rewrite pieces_pos_xor. cbn [pieces].
    apply xor2_twice; try assumption. intros a. now rewrite N.lxor_assoc, N.lxor_nilpotent, N.lxor_0_r.
  - rewrite pos_xor_unfold. cbn [rotated_bb]. apply rot_xor_invol.
  - reflexivity.
  - reflexivity.
Qed.

(* ------------------------------------------------------------------ *)
(** * attack queries and check under [Wk] *)

Theorem is_attacked_by_flip q c sq l : Wk q -> (c = 0 \/ c = 1) -> sq < 64 -> (forall x, In x l -> x <= 6) ->
  is_attacked_by (mirror_pos q) (opponent c) (mirror_sq sq) l = is_attacked_by q c sq l.
Proof.
  intros HW Hc Hs Hl. pose proof HW as [H1 [H2 [H3 H4]]].
  unfold is_attacked_by. rewrite (opponent_invol c Hc). apply existsb_ext_in. intros x Hx.
  specialize (Hl x Hx).
  destruct (x =? Pawn).
  - rewrite (pget_mirror q c Pawn H1 Hc) by (unfold Pawn; lia).
    pose proof (pawn_captureboard_flip (opponent c) (pget q (opponent c) Pawn) (vcol_opponent c) (Wk_pget_word _ _ _ HW)) as E.
    rewrite (opponent_invol c Hc) in E. rewrite E, <- (flip_bb_bitmask sq Hs).
    apply (f_equal negb). rewrite N.land_comm, (N.land_comm _ (bitmask sq)).
    apply land_flip_eqb0, bitmask_word.
  - rewrite (pget_mirror q c x H1 Hc Hl).
    rewrite (flip_eqb0 _ (Wk_pget_word q (opponent c) x HW)).
    apply (f_equal (andb _)). apply (f_equal negb).
    unfold mirror_pos at 1. cbn [rotated_bb]. rewrite (attackboard_flip _ _ x Hs), <- H3.
    rewrite N.land_comm, (N.land_comm _ (pget q (opponent c) x)).
    apply land_flip_eqb0, Wk_pget_word, HW.
Qed.

Lemma AllPieces_le x : In x AllPieces -> x <= 6.
Proof. unfold AllPieces, King, Queen, Rook, Knight, Bishop, Pawn. cbn [In]. lia. Qed.

Corollary is_attacked_flip q c sq : Wk q -> (c = 0 \/ c = 1) -> sq < 64 ->
  is_attacked (mirror_pos q) (opponent c) (mirror_sq sq) = is_attacked q c sq.
Proof. intros HW Hc Hs. apply is_attacked_by_flip; try assumption. exact AllPieces_le. Qed.

Lemma ctz_bitmask_b : forallb (fun k => ctz (bitmask k) =? k) (seqN 64) = true.
Proof. vm_compute. reflexivity. Qed.

Lemma ctz_bitmask k : k < 64 -> ctz (bitmask k) = k.
Proof.
  intros Hk. pose proof ctz_bitmask_b as H. rewrite forallb_forall in H. apply N.eqb_eq, H. now apply in_seqN64.
Qed.

(** check of the side whose king board is a single square *)
Theorem is_checked_flip q c k : Wk q -> (c = 0 \/ c = 1) -> k < 64 -> pget q c King = bitmask k ->
  is_checked (mirror_pos q) (opponent c) = is_checked q c.
Proof.
  intros HW Hc Hk Hkb. unfold is_checked.
  rewrite (pget_mirror q (opponent c) King (Wk_len _ HW) (vcol_opponent c)) by (unfold King; lia).
  rewrite (opponent_invol c Hc), Hkb, (flip_bb_bitmask k Hk).
  rewrite (ctz_bitmask k Hk), (ctz_bitmask _ (mirror_sq_lt k Hk)).
  pose proof (mirror_sq_lt k Hk) as Hm.
  destruct (N.eqb_spec (mirror_sq k) 64); [lia|]. destruct (N.eqb_spec k 64); [lia|].
  now apply is_attacked_flip.
Qed.

Lemma is_checked_fields q ca ep c : is_checked (mkPos (pieces q) (rotated_bb q) ca ep) c = is_checked q c.
Proof. reflexivity. Qed.

(** a board with one bit set is that bit's mask *)
Lemma one_bit_board kb k : kb < 2 ^ 64 -> popcount kb = 1 -> N.testbit kb k = true -> k < 64 /\ kb = bitmask k.
Proof.
  intros Hw H1 Hb. pose proof (word_tb_lt _ _ Hw Hb) as Hk. split; [exact Hk|].
  pose proof (popcount_one_bits _ H1) as Hbits.
  apply N.bits_inj. intros i. rewrite AttackGeometry1.tb_bitmask.
  apply bool_eq_iff. rewrite <- bits_asc_spec, Hbits.
  assert (Ek : k = ctz kb).
  { apply bits_asc_spec in Hb. rewrite Hbits in Hb. destruct Hb as [E|[]]. now symmetry. }
  rewrite <- Ek. cbn [In]. rewrite andb_true_iff, N.ltb_lt, N.eqb_eq. split.
  - intros [E|[]]. subst i. split; [exact Hk|reflexivity].
  - intros [_ E]. now left.
Qed.

(* ------------------------------------------------------------------ *)
(** * the king board through a toggle *)

Lemma king_pos_xor q s c' pc c : Wk q -> (c' = 0 \/ c' = 1) -> 1 <= pc <= 6 -> (c = 0 \/ c = 1) ->
  pget (pos_xor q s c' pc) c King =
  if (c =? c') && (pc =? King) then N.lxor (pget q c King) (bitmask s) else pget q c King.
Proof.
  intros HW Hc' Hp Hc. rewrite (pget_pos_xor q s c' pc c King (Wk_len _ HW) Hc' Hp Hc) by (unfold King; lia).
  rewrite (N.eqb_sym King pc). change (King =? 0) with false. now rewrite orb_false_r.
Qed.

(** the relation carried along the toggles of a move: weak invariant, mirror image, king board of [c] *)
Definition Rel (c : N) (q q' : position) (kb : N) : Prop :=
  Wk q /\ q' = mirror_pos q /\ pget q c King = kb.

Lemma Rel_step c q q' kb s c' pc : Rel c q q' kb -> s < 64 -> (c' = 0 \/ c' = 1) -> 1 <= pc <= 6 -> (c = 0 \/ c = 1) ->
  Rel c (pos_xor q s c' pc) (pos_xor q' (mirror_sq s) (opponent c') pc)
      (if (c =? c') && (pc =? King) then N.lxor kb (bitmask s) else kb).
Proof.
  intros [HW [-> Hk]] Hs Hc' Hp Hc. split; [now apply Wk_pos_xor|]. split.
  - symmetry. now apply mirror_pos_xor.
  - rewrite <- Hk. now apply king_pos_xor.
Qed.

Lemma Rel_checked c q q' k ca ep ca' ep' : Rel c q q' (bitmask k) -> k < 64 -> (c = 0 \/ c = 1) ->
  is_checked (mkPos (pieces q') (rotated_bb q') ca' ep') (opponent c) =
  is_checked (mkPos (pieces q) (rotated_bb q) ca ep) c.
Proof.
  intros [HW [-> Hk]] Hk64 Hc. rewrite !is_checked_fields. now apply (is_checked_flip q c k).
Qed.

Print Assumptions mirror_pos_xor.
Print Assumptions pos_xor_twice.
Print Assumptions is_attacked_by_flip.
Print Assumptions is_checked_flip.
