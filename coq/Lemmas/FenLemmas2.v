(** FEN codec, part 2: the piece-placement field.  [parse_board] reads back what [encode_rank] wrote;
    [new_position] of the placements read back is the original position (Leibniz equality, from the
    representation invariant). *)
From Coq Require Import NArith ZArith List Bool Lia ZifyBool ZifyNat ZifyN.
From Morlock.Model Require Import Bits Attacks Move Position Fen Abs.
From Morlock.Lemmas Require Import PositionLemmas FenLemmas1.
Import ListNotations.
Open Scope N_scope.

(* ------------------------------------------------------------------ *)
(** * positions are determined by their squares (under the invariant) *)

Lemma pget_ext_piece a b c p : Inv a -> Inv b -> (forall s, s < 64 -> square a s = square b s) ->
  vcol c -> vpc p -> pget a c p = pget b c p.
Proof. intros Ha Hb Hs Hc Hp. apply N.bits_inj. intros i.
  destruct (N.lt_ge_cases i 64) as [Hi|Hi].
  - pose proof (pbit_square a c p i Ha Hi Hc Hp) as Pa. pose proof (pbit_square b c p i Hb Hi Hc Hp) as Pb.
    rewrite (Hs i Hi) in Pa.
    destruct (N.testbit (pget a c p) i) eqn:Ea; destruct (N.testbit (pget b c p) i) eqn:Eb; try reflexivity.
    + symmetry. apply Pb. apply Pa. reflexivity.
    + apply Pa. apply Pb. reflexivity.
  - rewrite (proj1 (word_bits _) (pget_word a c p Ha) i Hi). rewrite (proj1 (word_bits _) (pget_word b c p Hb) i Hi). reflexivity. Qed.

Lemma pget_ext a b c p : Inv a -> Inv b -> (forall s, s < 64 -> square a s = square b s) ->
  vcol c -> p <= 6 -> pget a c p = pget b c p.
Proof. intros Ha Hb Hs Hc Hp. destruct (N.eq_dec p 0) as [->|Hnz].
  - pose proof Ha as [_ [_ [_ [HUa _]]]]. pose proof Hb as [_ [_ [_ [HUb _]]]].
    change 0 with NoPiece. rewrite (HUa c Hc), (HUb c Hc).
    rewrite !(pget_ext_piece a b c) by (auto; unfold vpc, Pawn, Bishop, Knight, Rook, Queen, King; lia). reflexivity.
  - apply pget_ext_piece; auto. unfold vpc. lia. Qed.

Lemma idx14 i : (i < 14)%nat -> exists c p, vcol c /\ p <= 6 /\ i = N.to_nat (pidx c p).
Proof. intros Hi. unfold vcol, pidx.
  destruct i as [|[|[|[|[|[|[|[|[|[|[|[|[|[|i]]]]]]]]]]]]]]; [..|lia].
  1: exists 0, 0.
  2: exists 0, 1.
  3: exists 0, 2.
  4: exists 0, 3.
  5: exists 0, 4.
  6: exists 0, 5.
  7: exists 0, 6.
  8: exists 1, 0.
  9: exists 1, 1.
  10: exists 1, 2.
  11: exists 1, 3.
  12: exists 1, 4.
  13: exists 1, 5.
  14: exists 1, 6.
  all: (split; [auto|split; [lia|reflexivity]]). Qed.

Theorem Inv_ext a b : Inv a -> Inv b -> (forall s, s < 64 -> square a s = square b s) ->
  castling a = castling b -> enpassant a = enpassant b -> a = b.
Proof. intros Ha Hb Hs Hc He.
  assert (HP : pieces a = pieces b).
  { apply nth_ext with (d := 0) (d' := 0).
    - now rewrite (Inv_len _ Ha), (Inv_len _ Hb).
    - intros i Hi. rewrite (Inv_len _ Ha) in Hi. destruct (idx14 i Hi) as [c [p [Hvc [Hp ->]]]].
      apply (pget_ext a b c p Ha Hb Hs Hvc Hp). }
  assert (HA : all_bb a = all_bb b).
  { pose proof Ha as [_ [_ [_ [_ [HAa _]]]]]. pose proof Hb as [_ [_ [_ [_ [HAb _]]]]]. rewrite HAa, HAb.
    rewrite (pget_ext a b White NoPiece), (pget_ext a b Black NoPiece); auto; unfold vcol, White, Black, NoPiece; auto; lia. }
  assert (HR : rotated_bb a = rotated_bb b).
  { pose proof Ha as [_ [_ [_ [_ [_ [HRa _]]]]]]. pose proof Hb as [_ [_ [_ [_ [_ [HRb _]]]]]]. rewrite HRa, HRb, HA. reflexivity. }
  destruct a, b. cbn in *. subst. reflexivity. Qed.

(* ------------------------------------------------------------------ *)
(** * NewPosition of duplicate-free placements *)

Lemma is_empty_square pos s : Inv pos -> s < 64 -> (is_empty pos s = true <-> square pos s = None).
Proof. intros HI Hs. rewrite is_empty_tb by assumption. rewrite (square_none pos s HI Hs).
  destruct (N.testbit (all_bb pos) s); cbn; split; congruence. Qed.

Definition np_step (acc : option position) (pl : placement) : option position :=
  match acc with
  | None => None
  | Some pos => if is_empty pos (pl_square pl) then Some (pos_xor pos (pl_square pl) (pl_color pl) (pl_piece pl)) else None
  end.

Lemma new_position_fold pls ca ep : new_position pls ca ep = fold_left np_step pls (Some (empty_position ca ep)).
Proof. reflexivity. Qed.

Lemma np_fold pls : forall pos0, Inv pos0 -> Forall placement_ok pls -> NoDup (map pl_square pls) ->
  (forall pl, In pl pls -> is_empty pos0 (pl_square pl) = true) ->
  exists pos', fold_left np_step pls (Some pos0) = Some pos' /\ Inv pos' /\
    castling pos' = castling pos0 /\ enpassant pos' = enpassant pos0 /\
    (forall pl, In pl pls -> square pos' (pl_square pl) = Some (pl_color pl, pl_piece pl)) /\
    (forall s, s < 64 -> (forall pl, In pl pls -> pl_square pl <> s) -> square pos' s = square pos0 s).
Proof. induction pls as [|pl r IH]; intros pos0 HI HF ND HE.
  - exists pos0. cbn [fold_left]. split; [reflexivity|]. split; [exact HI|]. split; [reflexivity|]. split; [reflexivity|].
    split; [intros ? []|reflexivity].
  - inversion HF as [|? ? Hpl HFr]; subst. inversion ND as [|? ? Hnot NDr]; subst.
    destruct Hpl as [Hsq [Hc Hp]].
    assert (He : is_empty pos0 (pl_square pl) = true) by (apply HE; now left).
    destruct (pos_xor_add pos0 _ _ _ HI Hsq He Hc Hp) as [HI1 Hsq1].
    set (pos1 := pos_xor pos0 (pl_square pl) (pl_color pl) (pl_piece pl)) in *.
    assert (Hne : forall pl', In pl' r -> pl_square pl' <> pl_square pl).
    { intros pl' Hin E. apply Hnot. rewrite <- E. now apply in_map. }
    assert (HE1 : forall pl', In pl' r -> is_empty pos1 (pl_square pl') = true).
    { intros pl' Hin. assert (Hlt : pl_square pl' < 64).
      { rewrite Forall_forall in HFr. apply (HFr pl' Hin). }
      apply is_empty_square; [assumption|assumption|]. rewrite Hsq1 by assumption.
      destruct (N.eqb_spec (pl_square pl') (pl_square pl)) as [E|_]; [exfalso; now apply (Hne pl' Hin)|].
      apply is_empty_square; [assumption|assumption|]. apply HE. now right. }
    destruct (IH pos1 HI1 HFr NDr HE1) as [pos' [Hf [HI' [Hca [Hep [Hin Hout]]]]]].
    exists pos'. cbn [fold_left np_step]. rewrite He. fold pos1. split; [exact Hf|]. split; [exact HI'|].
    split; [rewrite Hca; reflexivity|]. split; [rewrite Hep; reflexivity|]. split.
    + intros pl' [<-|Hin']; [|now apply Hin].
      rewrite Hout by assumption. rewrite Hsq1 by assumption. now rewrite N.eqb_refl.
    + intros s Hs Hno. rewrite Hout; [|assumption|intros pl' Hin'; apply Hno; now right].
      rewrite Hsq1 by assumption. destruct (N.eqb_spec s (pl_square pl)) as [E|_]; [|reflexivity].
      exfalso. apply (Hno pl); [now left | now symmetry]. Qed.

(* ------------------------------------------------------------------ *)
(** * the squares of the board in FEN order: a8 = 63 down to h1 = 0 *)

Fixpoint descZ (z : Z) (k : nat) : list Z :=
  match k with O => [] | S k' => z :: descZ (z - 1) k' end.

Lemma in_descZ k : forall z x, In x (descZ z k) <-> (z - Z.of_nat k < x <= z)%Z.
Proof. induction k as [|k IH]; intros z x; cbn [descZ In].
  - lia.
  - rewrite IH. lia. Qed.

Lemma NoDup_descZ k : forall z, NoDup (descZ z k).
Proof. induction k as [|k IH]; intros z; cbn [descZ]; constructor; [|apply IH].
  rewrite in_descZ. lia. Qed.

Lemma descZ_app a : forall z b, descZ z (a + b) = descZ z a ++ descZ (z - Z.of_nat a) b.
Proof. induction a as [|a IH]; intros z b.
  - cbn. f_equal. lia.
  - cbn [Nat.add descZ app]. f_equal. rewrite IH. f_equal. f_equal. lia. Qed.

Definition cellpl (pos : position) (z : Z) : list placement :=
  match square pos (Z.to_N z) with Some (c, p) => [mkPlacement (Z.to_N z) c p] | None => [] end.

Definition board_pls (pos : position) : list placement := flat_map (cellpl pos) (descZ 63 64).

Lemma in_cellpl pos z pl : In pl (cellpl pos z) ->
  pl_square pl = Z.to_N z /\ square pos (Z.to_N z) = Some (pl_color pl, pl_piece pl).
Proof. unfold cellpl. destruct (square pos (Z.to_N z)) as [[c p]|]; [|intros []].
  intros [<-|[]]. cbn. auto. Qed.

Lemma in_board_pls pos pl : In pl (board_pls pos) <->
  pl_square pl < 64 /\ square pos (pl_square pl) = Some (pl_color pl, pl_piece pl).
Proof. unfold board_pls. rewrite in_flat_map. split.
  - intros [z [Hz Hin]]. apply in_descZ in Hz. apply in_cellpl in Hin as [E1 E2]. rewrite E1. split; [lia | assumption].
  - intros [Hlt Hsq]. exists (Z.of_N (pl_square pl)). split; [apply in_descZ; lia|].
    unfold cellpl. rewrite N2Z.id, Hsq. left. destruct pl; reflexivity. Qed.

Lemma NoDup_cells pos zs : (forall z, In z zs -> (0 <= z)%Z) -> NoDup zs ->
  NoDup (map pl_square (flat_map (cellpl pos) zs)).
Proof. induction zs as [|z zs IH]; intros Hnn ND; [constructor|].
  inversion ND as [|? ? Hnot ND']; subst. cbn [flat_map]. rewrite map_app.
  assert (IH' : NoDup (map pl_square (flat_map (cellpl pos) zs))) by (apply IH; auto; intros; apply Hnn; now right).
  unfold cellpl at 1. destruct (square pos (Z.to_N z)) as [[c p]|]; [|exact IH'].
  cbn [map app pl_square]. constructor; [|exact IH'].
  intros Hin. apply in_map_iff in Hin as [pl [E Hpl]]. apply in_flat_map in Hpl as [z' [Hz' Hpl]].
  apply in_cellpl in Hpl as [E1 _]. assert (0 <= z)%Z by (apply Hnn; now left). assert (0 <= z')%Z by (apply Hnn; now right).
  assert (z' = z) by lia. subst. contradiction. Qed.

Lemma empty_is_empty ca ep s : is_empty (empty_position ca ep) s = true.
Proof. unfold is_empty, all_bb, empty_position, is_set. cbn [rotated_bb rot_empty r0]. reflexivity. Qed.

Lemma empty_square ca ep s : ca < 16 -> ep < 64 -> s < 64 -> square (empty_position ca ep) s = None.
Proof. intros Hca Hep Hs. apply is_empty_square; [now apply empty_position_inv | assumption | apply empty_is_empty]. Qed.

(** NewPosition of the board's placements, with its castling rights and e.p. square, is the board *)
Theorem new_position_board pos : Inv pos ->
  new_position (board_pls pos) (castling pos) (enpassant pos) = Some pos.
Proof. intros HI. pose proof HI as [_ [_ [_ [_ [_ [_ [Hca Hep]]]]]]].
  rewrite new_position_fold.
  destruct (np_fold (board_pls pos) (empty_position (castling pos) (enpassant pos))) as [pos' [Hf [HI' [Hc [He [Hin Hout]]]]]].
  - now apply empty_position_inv.
  - apply Forall_forall. intros pl Hpl. apply in_board_pls in Hpl as [Hlt Hsq].
    apply square_some in Hsq as [Hvc [Hvp _]]; try assumption. split; [assumption|]. split; assumption.
  - apply NoDup_cells; [|apply NoDup_descZ]. intros z Hz. apply in_descZ in Hz. lia.
  - intros pl _. apply empty_is_empty.
  - rewrite Hf. f_equal. apply Inv_ext; try assumption.
    intros s Hs. destruct (square pos s) as [[c p]|] eqn:E.
    + assert (Hpl : In (mkPlacement s c p) (board_pls pos)) by (apply in_board_pls; cbn; auto).
      apply (Hin _ Hpl).
    + rewrite Hout; [now apply empty_square | assumption |].
      intros pl Hpl Es. apply in_board_pls in Hpl as [_ Hsq]. rewrite Es in Hsq. congruence. Qed.

(* ------------------------------------------------------------------ *)
(** * the text of one rank, as a function of the squares it covers *)

Definition trail (b : N) : str := if 0 <? b then itoa (Z.of_N b) else [].

Fixpoint rank_str (pos : position) (sqs : list N) (b : N) : str :=
  match sqs with
  | [] => trail b
  | s :: r => match square pos s with
              | None => rank_str pos r (b + 1)
              | Some (c, p) => trail b ++ print_piece c p :: rank_str pos r 0
              end
  end.

Lemma encode_rank_gen pos r : forall fs out b,
  (let '(o, bl) := fold_left (fun (st : str * N) (f : N) =>
       let '(out, blanks) := st in
       match square pos (new_square (8 - f - 1) (8 - r - 1)) with
       | None => (out, blanks + 1)
       | Some (c, p) => (out ++ (if 0 <? blanks then itoa (Z.of_N blanks) else []) ++ [print_piece c p], 0)
       end) fs (out, b) in o ++ (if 0 <? bl then itoa (Z.of_N bl) else [])) =
  out ++ rank_str pos (map (fun f => new_square (8 - f - 1) (8 - r - 1)) fs) b.
Proof. induction fs as [|f fs IH]; intros out b.
  - reflexivity.
  - cbn [fold_left map rank_str]. destruct (square pos (new_square (8 - f - 1) (8 - r - 1))) as [[c p]|].
    + rewrite IH. unfold trail. rewrite <- !app_assoc. reflexivity.
    + apply IH. Qed.

Lemma rank_squares_all :
  forallb (fun r => str_eqb (map (fun f => new_square (8 - f - 1) (8 - r - 1)) (seqN 8))
                            (map Z.to_N (descZ (63 - 8 * Z.of_N r) 8))) (seqN 8) = true.
Proof. vm_compute. reflexivity. Qed.

Lemma str_eqb_eq a : forall b, str_eqb a b = true -> a = b.
Proof. induction a as [|x a IH]; intros [|y b] H; cbn in H; try discriminate; [reflexivity|].
  apply andb_true_iff in H as [H1 H2]. apply N.eqb_eq in H1. subst. f_equal. now apply IH. Qed.

Lemma encode_rank_eq pos r : r < 8 ->
  encode_rank pos r = rank_str pos (map Z.to_N (descZ (63 - 8 * Z.of_N r) 8)) 0.
Proof. intros Hr. pose proof rank_squares_all as H. rewrite forallb_forall in H.
  assert (Hin : In r (seqN 8)) by (apply in_seqN; lia). specialize (H r Hin). apply str_eqb_eq in H.
  rewrite <- H. unfold encode_rank. exact (encode_rank_gen pos r (seqN 8) [] 0). Qed.

(* ------------------------------------------------------------------ *)
(** * parsing it back *)

Lemma parse_board_app s1 : forall s2 z acc, parse_board (s1 ++ s2) z acc =
  match parse_board s1 z acc with Some (pls, z') => parse_board s2 z' (rev pls) | None => None end.
Proof. induction s1 as [|r t IH]; intros s2 z acc.
  - cbn. now rewrite rev_involutive.
  - cbn [app parse_board]. destruct (r =? 47); [apply IH|]. destruct (is_ascii_digit r); [apply IH|].
    destruct (fen_parse_piece r) as [[c p]|]; [|reflexivity].
    destruct ((z <? 0) || (63 <? z))%Z; [reflexivity | apply IH]. Qed.

Lemma parse_trail b rest z acc : b <= 9 ->
  parse_board (trail b ++ rest) (z + Z.of_N b)%Z acc = parse_board rest z acc.
Proof. intros Hb. unfold trail. destruct (N.ltb_spec 0 b) as [Hpos|Hz].
  - rewrite itoa_small by lia. cbn [app parse_board].
    assert (E1 : (48 + b =? 47) = false) by lia. assert (E2 : is_ascii_digit (48 + b) = true) by (unfold is_ascii_digit; lia).
    rewrite E1, E2. f_equal. lia.
  - assert (b = 0) by lia. subst. cbn [app]. f_equal. lia. Qed.

Lemma piece_char_all :
  forallb (fun c => forallb (fun p =>
     let r := print_piece c p in
     negb (r =? 47) && negb (is_ascii_digit r) &&
     match fen_parse_piece r with Some (c', p') => (c' =? c) && (p' =? p) | None => false end) [1;2;3;4;5;6]) [0;1] = true.
Proof. vm_compute. reflexivity. Qed.

Lemma piece_char c p : vcol c -> vpc p ->
  (print_piece c p =? 47) = false /\ is_ascii_digit (print_piece c p) = false /\
  fen_parse_piece (print_piece c p) = Some (c, p).
Proof. intros Hc Hp. pose proof piece_char_all as H. rewrite forallb_forall in H.
  assert (Hci : In c [0; 1]) by (destruct Hc as [->| ->]; cbn; auto).
  assert (Hpi : In p [1;2;3;4;5;6]) by (unfold vpc in Hp; cbn; lia).
  specialize (H c Hci). rewrite forallb_forall in H. specialize (H p Hpi). cbn zeta in H.
  apply andb_true_iff in H as [H H3]. apply andb_true_iff in H as [H1 H2].
  apply negb_true_iff in H1, H2. split; [assumption|]. split; [assumption|].
  destruct (fen_parse_piece (print_piece c p)) as [[c' p']|]; [|discriminate].
  apply andb_true_iff in H3 as [E1 E2]. apply N.eqb_eq in E1, E2. now subst. Qed.

Lemma parse_rank_str pos (HI : Inv pos) : forall k z b acc rest,
  (Z.of_nat k - 1 <= z <= 63)%Z -> (Z.of_N b + Z.of_nat k <= 9)%Z ->
  parse_board (rank_str pos (map Z.to_N (descZ z k)) b ++ rest) (z + Z.of_N b)%Z acc =
  parse_board rest (z - Z.of_nat k)%Z (rev (flat_map (cellpl pos) (descZ z k)) ++ acc).
Proof. induction k as [|k IH]; intros z b acc rest Hz Hb.
  - cbn [descZ map rank_str flat_map rev app]. rewrite parse_trail by lia. f_equal. lia.
  - cbn [descZ map rank_str flat_map]. unfold cellpl at 1.
    destruct (square pos (Z.to_N z)) as [[c p]|] eqn:E.
    + apply square_some in E as [Hc [Hp _]]; [|assumption|lia].
      destruct (piece_char c p Hc Hp) as [E1 [E2 E3]].
      rewrite <- app_assoc. rewrite parse_trail by lia.
      cbn [app parse_board]. rewrite E1, E2, E3.
      assert (Eb : ((z <? 0) || (63 <? z))%Z = false) by lia. rewrite Eb.
      pose proof (IH (z - 1)%Z 0 (mkPlacement (Z.to_N z) c p :: acc) rest ltac:(lia) ltac:(lia)) as IH0.
      replace (z - 1 + Z.of_N 0)%Z with (z - 1)%Z in IH0 by lia.
      rewrite IH0. f_equal; [lia|].
      cbn [app rev]. rewrite <- app_assoc. reflexivity.
    + replace (z + Z.of_N b)%Z with (z - 1 + Z.of_N (b + 1))%Z by lia.
      rewrite IH by lia. f_equal. lia. Qed.

Definition rank_sep (r : N) : str := if r <? 7 then [47] else [].
Definition board_str (pos : position) : str :=
  fold_left (fun acc r => acc ++ encode_rank pos r ++ (if r <? 7 then [47] else [])) (seqN 8) [].

Lemma fold_app_concat {A} (g : A -> str) l : forall a, fold_left (fun acc r => acc ++ g r) l a = a ++ concat (map g l).
Proof. induction l as [|x l IH]; intros a; cbn [fold_left map concat].
  - now rewrite app_nil_r.
  - rewrite IH. now rewrite app_assoc. Qed.

Lemma board_str_concat pos :
  board_str pos = concat (map (fun r => encode_rank pos r ++ rank_sep r) (seqN 8)).
Proof. unfold board_str. exact (fold_app_concat (fun r => encode_rank pos r ++ rank_sep r) (seqN 8) []). Qed.

Lemma parse_ranks pos (HI : Inv pos) : forall m, (m <= 8)%nat -> forall acc,
  parse_board (concat (map (fun r => encode_rank pos r ++ rank_sep r) (map N.of_nat (seq (8 - m) m))))
              (8 * Z.of_nat m - 1)%Z acc =
  Some (rev (rev (flat_map (cellpl pos) (descZ (8 * Z.of_nat m - 1) (8 * m))) ++ acc), (-1)%Z).
Proof. induction m as [|m IH]; intros Hm acc.
  - cbn. reflexivity.
  - replace (8 - S m)%nat with (7 - m)%nat by lia.
    cbn [seq map concat]. replace (S (7 - m)) with (8 - m)%nat by lia.
    rewrite encode_rank_eq by lia.
    replace (63 - 8 * Z.of_N (N.of_nat (7 - m)))%Z with (8 * Z.of_nat (S m) - 1)%Z by lia.
    rewrite <- !app_assoc.
    replace (8 * Z.of_nat (S m) - 1)%Z with (8 * Z.of_nat (S m) - 1 + Z.of_N 0)%Z at 2 by lia.
    rewrite parse_rank_str by (assumption || lia).
    assert (Esep : forall rest z a, parse_board (rank_sep (N.of_nat (7 - m)) ++ rest) z a = parse_board rest z a).
    { intros rest z a. unfold rank_sep. destruct (N.of_nat (7 - m) <? 7); reflexivity. }
    rewrite Esep.
    replace (8 * Z.of_nat (S m) - 1 - Z.of_nat 8)%Z with (8 * Z.of_nat m - 1)%Z by lia.
    rewrite IH by lia. f_equal. f_equal. f_equal.
    replace (8 * S m)%nat with (8 + 8 * m)%nat by lia. rewrite descZ_app, flat_map_app, rev_app_distr, <- app_assoc.
    replace (8 * Z.of_nat (S m) - 1 - Z.of_nat 8)%Z with (8 * Z.of_nat m - 1)%Z by lia. reflexivity. Qed.

(** Reading back the board field gives the placements of the board, in order, cursor at -1 *)
Theorem parse_board_encode pos : Inv pos ->
  parse_board (board_str pos) 63%Z [] = Some (board_pls pos, (-1)%Z).
Proof. intros HI. rewrite board_str_concat.
  pose proof (parse_ranks pos HI 8 (le_n 8) []) as H.
  change (8 - 8)%nat with 0%nat in H. change (map N.of_nat (seq 0 8)) with (seqN 8) in H.
  change (8 * Z.of_nat 8 - 1)%Z with 63%Z in H. change (8 * 8)%nat with 64%nat in H.
  rewrite H. rewrite app_nil_r, rev_involutive. reflexivity. Qed.

(** every accepted board field consists of '/', digits and piece letters: no white space *)
Lemma fen_piece_nospace r cp : fen_parse_piece r = Some cp -> is_space r = false.
Proof. unfold fen_parse_piece, parse_piece.
  repeat match goal with |- context[if (?a =? ?x) || (?a =? ?y) then _ else _] =>
    destruct (N.eqb_spec a x); [subst; intros _; reflexivity|];
    destruct (N.eqb_spec a y); [subst; intros _; reflexivity|]; cbn [orb] end.
  discriminate. Qed.

Lemma parse_board_nospace s : forall z acc, parse_board s z acc <> None -> nospace s.
Proof. induction s as [|r t IH]; intros z acc H; [constructor|].
  cbn [parse_board] in H.
  destruct (N.eqb_spec r 47) as [->|_]; [constructor; [reflexivity | eapply IH; exact H]|].
  destruct (is_ascii_digit r) eqn:Ed; [constructor; [now apply digit_nospace | eapply IH; exact H]|].
  destruct (fen_parse_piece r) as [[c p]|] eqn:Ep; [|congruence].
  destruct ((z <? 0) || (63 <? z))%Z; [congruence|].
  constructor; [eapply fen_piece_nospace; exact Ep | eapply IH; exact H]. Qed.

Lemma board_str_nospace pos : Inv pos -> nospace (board_str pos) /\ board_str pos <> [].
Proof. intros HI. split.
  - eapply parse_board_nospace. rewrite (parse_board_encode pos HI). discriminate.
  - intros E. pose proof (parse_board_encode pos HI) as H. rewrite E in H. cbn in H. discriminate. Qed.

(** placements produced by an accepted board field are on the board *)
Lemma parse_board_ok s : forall z acc pls z', Forall placement_ok acc ->
  parse_board s z acc = Some (pls, z') -> Forall placement_ok pls.
Proof. induction s as [|r t IH]; intros z acc pls z' Hacc H; cbn [parse_board] in H.
  - inversion H; subst. apply Forall_rev. assumption.
  - destruct (r =? 47); [eapply IH; eassumption|].
    destruct (is_ascii_digit r); [eapply IH; eassumption|].
    destruct (fen_parse_piece r) as [[c p]|] eqn:Ep; [|discriminate].
    destruct ((z <? 0) || (63 <? z))%Z eqn:Eb; [discriminate|].
    eapply IH; [|exact H]. constructor; [|assumption]. unfold placement_ok. cbn.
    split; [lia|]. unfold fen_parse_piece in Ep. destruct (parse_piece r) as [q|] eqn:Eq; [|discriminate].
    inversion Ep; subst. split; [destruct (is_upper r); unfold White, Black; auto|].
    unfold parse_piece in Eq. unfold Pawn, Bishop, Knight, Rook, Queen, King in Eq.
    repeat match type of Eq with (if ?b then _ else _) = _ => destruct b end; inversion Eq; subst; lia. Qed.

Print Assumptions Inv_ext.
Print Assumptions new_position_board.
Print Assumptions parse_board_encode.
