(** The search contract on the real board, part 3: two runs of the generic search are literally equal
    when their push operations agree on every board that is not flagged [df] ("unblocked Draw flag"), and
    their table reads agree on the tables that occur.  The search only pushes from boards that passed its
    "result is not a draw" test, or that it has just popped; structurally (no board invariant needed):
    a pop after a push is never flagged, a pop of an unflagged board is unflagged, the no-legal-move
    adjudication is unflagged, and every call returns a board that is unflagged or untouched.
    Used to transfer the contract from the instance whose laws hold ([gb_push'], and - for [NoTT] - a
    table that is never read) to [search_board] itself. *)
From Coq Require Import NArith ZArith List Bool Lia.
From Morlock.Model Require Import Bits Score Attacks Move Search.
From Morlock.Lemmas Require Import SearchContract.
Import ListNotations.
Open Scope Z_scope.

Section RunEq.
  Variable G : Type.
  Variable g_draw : G -> bool.
  Variable g_hash : G -> N.
  Variable g_ply : G -> Z.
  Variable g_moves : G -> list move.
  Variables g_push g_push' : G -> move -> option G.
  Variable g_pop : G -> G.
  Variable g_mated : G -> G * bool.
  Variable TT : Type.
  Variables tt_read tt_read' : TT -> N -> option (N * Z * score * move).
  Variable tt_write : TT -> N -> N -> Z -> Z -> score -> move -> TT.
  Variable explore : G -> (move -> Z) * (G -> move -> bool).
  Variable qexplore : G -> (move -> Z) * (G -> move -> bool).
  Variable leaf_eval : G -> Z.
  Variable cancel : nat -> bool.
  Variable use_quiescence : bool.
  Variable qfuel : nat.

  Variable df : G -> bool.          (* boards on which the primed push differs *)
  Variable P : TT -> Prop.          (* tables on which the primed read agrees *)
  Hypothesis Hdf : forall g, g_draw g = false -> df g = false.
  Hypothesis Hpush : forall g m, df g = false -> g_push' g m = g_push g m.
  Hypothesis Hpp : forall g m g1, g_push g m = Some g1 -> df (g_pop g1) = false.
  Hypothesis Hpop : forall g, df g = false -> df (g_pop g) = false.
  Hypothesis Hmt : forall g, df (fst (g_mated g)) = false.
  Hypothesis Hread : forall t h, P t -> tt_read' t h = tt_read t h.
  Hypothesis Hwrite : forall t h b ply d sc m, P t -> P (tt_write t h b ply d sc m).

  Notation sst := (sst G TT).
  Notation s_g := (s_g G TT).
  Notation s_tt := (s_tt G TT).
  Notation qsA := (qsearch G g_draw g_moves g_push g_pop g_mated TT qexplore leaf_eval cancel).
  Notation qsB := (qsearch G g_draw g_moves g_push' g_pop g_mated TT qexplore leaf_eval cancel).
  Notation qlA := (q_loop G g_draw g_moves g_push g_pop g_mated TT qexplore leaf_eval cancel).
  Notation qlB := (q_loop G g_draw g_moves g_push' g_pop g_mated TT qexplore leaf_eval cancel).
  Notation abA := (ab G g_draw g_hash g_ply g_moves g_push g_pop g_mated TT tt_read tt_write explore qexplore
                      leaf_eval cancel use_quiescence qfuel).
  Notation abB := (ab G g_draw g_hash g_ply g_moves g_push' g_pop g_mated TT tt_read' tt_write explore qexplore
                      leaf_eval cancel use_quiescence qfuel).

  (** the board handed back is unflagged, or it is the board received *)
  Definition Ret (st st' : sst) : Prop := df (s_g st') = false \/ s_g st' = s_g st.

  Lemma pop_unflagged st g1 st2 mv : g_push (s_g st) mv = Some g1 -> Ret (set_g G TT st g1) st2 -> df (g_pop (s_g st2)) = false.
  Proof. intros Ep [H|H]; [apply Hpop; exact H|]. rewrite H. cbn [Search.s_g set_g]. eapply Hpp; exact Ep. Qed.

  (** ** quiescence *)
  Lemma q_loop_eq f pred beta :
    (forall st qn a b, qsB f st qn a b = qsA f st qn a b /\ s_tt (fst (fst (qsA f st qn a b))) = s_tt st /\ Ret st (fst (fst (qsA f st qn a b)))) ->
    forall ms st qn alpha has, df (s_g st) = false ->
      qlB f pred beta ms st qn alpha has = qlA f pred beta ms st qn alpha has /\
      s_tt (fst (fst (fst (qlA f pred beta ms st qn alpha has)))) = s_tt st /\
      df (s_g (fst (fst (fst (qlA f pred beta ms st qn alpha has))))) = false.
  Proof.
    intros IH. induction ms as [|mv rest IHms]; intros st qn alpha has Hd; [split; [reflexivity|split; [reflexivity|exact Hd]]|].
    cbn [q_loop]. rewrite (Hpush _ mv Hd). destruct (g_push (s_g st) mv) as [g1|] eqn:Ep; [|apply IHms; exact Hd].
    destruct (pred g1 mv).
    - destruct (IH (set_g G TT st g1) qn (dec (negate beta)) (dec (negate alpha))) as [E1 [T1 R1]]. rewrite E1.
      destruct (qsA f (set_g G TT st g1) qn (dec (negate beta)) (dec (negate alpha))) as [[st2 qn2] s]. cbn [fst] in T1, R1.
      pose proof (pop_unflagged st g1 st2 mv Ep R1) as Hd3.
      destruct (go_eq (smax alpha (negate (inc s))) beta || less beta (smax alpha (negate (inc s)))).
      + split; [reflexivity|]. split; [exact T1|exact Hd3].
      + destruct (IHms (set_g G TT st2 (g_pop (s_g st2))) qn2 (smax alpha (negate (inc s))) true Hd3) as [E2 [T2 D2]].
        split; [exact E2|]. split; [rewrite T2; exact T1|exact D2].
    - assert (Hd3 : df (g_pop (s_g (set_g G TT st g1))) = false) by (eapply Hpp; exact Ep).
      destruct (go_eq alpha beta || less beta alpha).
      + split; [reflexivity|]. split; [reflexivity|exact Hd3].
      + destruct (IHms (set_g G TT (set_g G TT st g1) (g_pop (s_g (set_g G TT st g1)))) qn alpha true Hd3) as [E2 [T2 D2]].
        split; [exact E2|]. split; [rewrite T2; reflexivity|exact D2].
  Qed.

  Lemma qsearch_eq : forall f st qn a b,
    qsB f st qn a b = qsA f st qn a b /\ s_tt (fst (fst (qsA f st qn a b))) = s_tt st /\ Ret st (fst (fst (qsA f st qn a b))).
  Proof.
    induction f as [|f IH]; intros st qn a b; [split; [reflexivity|split; [reflexivity|right; reflexivity]]|].
    rewrite !qsearch_unfold. unfold poll. destruct (cancel (Search.s_polls G TT st)); [split; [reflexivity|split; [reflexivity|right; reflexivity]]|].
    set (st1 := mkSst G TT (s_g st) (s_tt st) (s_nodes G TT st) (S (s_polls G TT st)) (s_ponder G TT st)).
    destruct (g_draw (s_g st1)) eqn:Ed; [split; [reflexivity|split; [reflexivity|right; reflexivity]]|].
    destruct (qexplore (s_g st1)) as [prio pred].
    destruct (q_loop_eq f pred b IH (movelist (g_moves (s_g st1)) prio) st1 (qn + 1)%N (smax a (heuristic (leaf_eval (s_g st1)))) false (Hdf _ Ed))
      as [E1 [T1 D1]].
    rewrite E1.
    destruct (qlA f pred b (movelist (g_moves (s_g st1)) prio) st1 (qn + 1)%N (smax a (heuristic (leaf_eval (s_g st1)))) false)
      as [[[st2 qn2] a2] has]. cbn [fst] in T1, D1.
    split; [reflexivity|]. destruct (negb has).
    - pose proof (Hmt (s_g st2)) as Hm. destruct (g_mated (s_g st2)) as [g' mated]. cbn [fst] in Hm |- *.
      split; [exact T1|left; exact Hm].
    - split; [exact T1|left; exact D1].
  Qed.

  (** ** the loop of [ab] *)
  Section Loop.
    Variables recA recB : sst -> score -> score -> sst * score * list move.
    Hypothesis Hrec : forall st a b, P (s_tt st) ->
      recB st a b = recA st a b /\ P (s_tt (fst (fst (recA st a b)))) /\ Ret st (fst (fst (recA st a b))).
    Variable pred : G -> move -> bool.
    Variable beta : score.
    Notation glA := (gloop G g_push g_pop sst s_g (set_g G TT) recA pred beta).
    Notation glB := (gloop G g_push' g_pop sst s_g (set_g G TT) recB pred beta).

    Lemma gloop_eq : forall ms st alpha pv has, P (s_tt st) -> df (s_g st) = false ->
      glB ms st alpha pv has = glA ms st alpha pv has /\
      P (s_tt (fst (fst (fst (fst (glA ms st alpha pv has)))))) /\
      df (s_g (fst (fst (fst (fst (glA ms st alpha pv has)))))) = false.
    Proof.
      induction ms as [|mv rest IHms]; intros st alpha pv has HP Hd; [split; [reflexivity|split; [exact HP|exact Hd]]|].
      cbn [gloop]. rewrite (Hpush _ mv Hd). destruct (g_push (s_g st) mv) as [g1|] eqn:Ep; [|apply IHms; assumption].
      destruct (pred g1 mv).
      - destruct (Hrec (set_g G TT st g1) (dec (negate beta)) (dec (negate alpha)) HP) as [E1 [P1 R1]]. rewrite E1.
        destruct (recA (set_g G TT st g1) (dec (negate beta)) (dec (negate alpha))) as [[st2 s] rem]. cbn [fst] in P1, R1.
        pose proof (pop_unflagged st g1 st2 mv Ep R1) as Hd3.
        destruct (less alpha (negate (inc s))).
        + destruct (go_eq (negate (inc s)) beta || less beta (negate (inc s))); [split; [reflexivity|split; [exact P1|exact Hd3]]|apply IHms; assumption].
        + destruct (go_eq alpha beta || less beta alpha); [split; [reflexivity|split; [exact P1|exact Hd3]]|apply IHms; assumption].
      - assert (Hd3 : df (g_pop (s_g (set_g G TT st g1))) = false) by (eapply Hpp; exact Ep).
        destruct (go_eq alpha beta || less beta alpha); [split; [reflexivity|split; [exact HP|exact Hd3]]|apply IHms; assumption].
    Qed.
  End Loop.

  (** ** [ab] *)
  Definition ABeq (d : nat) (root : bool) : Prop := forall st a b,
    (root = true -> df (s_g st) = false) -> P (s_tt st) ->
    abB d root st a b = abA d root st a b /\ P (s_tt (fst (fst (abA d root st a b)))) /\ Ret st (fst (fst (abA d root st a b))).

  Lemma ab_eq : forall d root, ABeq d root.
  Proof.
    induction d as [|d IH]; intros root st a b Hroot HP; rewrite !ab_unfold; unfold ab_body, poll.
    - destruct (cancel (Search.s_polls G TT st)); [split; [reflexivity|split; [exact HP|right; reflexivity]]|].
      set (st1 := mkSst G TT (s_g st) (s_tt st) (s_nodes G TT st) (S (s_polls G TT st)) (s_ponder G TT st)).
      destruct (negb root && g_draw (s_g st1)); [split; [reflexivity|split; [exact HP|right; reflexivity]]|].
      rewrite (Hread (s_tt st1) (g_hash (s_g st1)) HP).
      destruct (match tt_read (s_tt st1) (g_hash (s_g st1)) with
                | Some (bound, d0, sc, _) => if negb root && (Z.of_nat 0 =? d0) && (bound =? ExactBound)%N then Some sc else None
                | None => None end) as [sc|]; [split; [reflexivity|split; [exact HP|right; reflexivity]]|].
      unfold ab_leaf, quiet_search, poll.
      assert (Eq : (if use_quiescence then qsB qfuel st1 0%N a b else (st1, 1%N, heuristic (leaf_eval (s_g st1)))) =
                   (if use_quiescence then qsA qfuel st1 0%N a b else (st1, 1%N, heuristic (leaf_eval (s_g st1)))))
        by (destruct use_quiescence; [apply qsearch_eq|reflexivity]).
      rewrite Eq.
      assert (Et : s_tt (fst (fst (if use_quiescence then qsA qfuel st1 0%N a b else (st1, 1%N, heuristic (leaf_eval (s_g st1)))))) = s_tt st1 /\
                   Ret st1 (fst (fst (if use_quiescence then qsA qfuel st1 0%N a b else (st1, 1%N, heuristic (leaf_eval (s_g st1)))))))
        by (destruct use_quiescence; [apply qsearch_eq|split; [reflexivity|right; reflexivity]]).
      destruct (if use_quiescence then qsA qfuel st1 0%N a b else (st1, 1%N, heuristic (leaf_eval (s_g st1)))) as [[st2 nodes] sc].
      cbn [fst] in Et. destruct Et as [Et R2]. assert (HP2 : P (s_tt st2)) by (rewrite Et; exact HP).
      destruct (less a sc && less sc b); [|split; [reflexivity|split; [exact HP2|exact R2]]].
      cbn [add_nodes Search.s_polls Search.s_g Search.s_tt Search.s_nodes Search.s_ponder].
      destruct (cancel (Search.s_polls G TT st2)); [split; [reflexivity|split; [exact HP2|exact R2]]|].
      split; [reflexivity|]. cbn [fst set_tt Search.s_tt Search.s_g]. split; [apply Hwrite; exact HP2|exact R2].
    - destruct (cancel (Search.s_polls G TT st)); [split; [reflexivity|split; [exact HP|right; reflexivity]]|].
      set (st1 := mkSst G TT (s_g st) (s_tt st) (s_nodes G TT st) (S (s_polls G TT st)) (s_ponder G TT st)).
      destruct (negb root && g_draw (s_g st1)) eqn:Edr; [split; [reflexivity|split; [exact HP|right; reflexivity]]|].
      assert (Hdf1 : df (s_g st) = false).
      { destruct root; [apply Hroot; reflexivity|]. cbn [negb andb] in Edr. apply Hdf. exact Edr. }
      rewrite (Hread (s_tt st1) (g_hash (s_g st1)) HP).
      destruct (match tt_read (s_tt st1) (g_hash (s_g st1)) with
                | Some (bound, d0, sc, _) => if negb root && (Z.of_nat (S d) =? d0) && (bound =? ExactBound)%N then Some sc else None
                | None => None end) as [sc|]; [split; [reflexivity|split; [exact HP|right; reflexivity]]|].
      unfold ab_node.
      set (best := match tt_read (s_tt st1) (g_hash (s_g st1)) with Some (_, _, _, m) => m | None => no_move end).
      set (stn := add_nodes G TT st1 1%N).
      assert (HPn : P (s_tt stn)) by exact HP.
      assert (Hdn : df (s_g stn) = false) by exact Hdf1.
      destruct (explore (s_g stn)) as [prio pred0].
      assert (Hrec : forall st a b, P (s_tt st) ->
                abB d false st a b = abA d false st a b /\ P (s_tt (fst (fst (abA d false st a b)))) /\ Ret st (fst (fst (abA d false st a b))))
        by (intros st0 a0 b0 HP0; apply (IH false st0 a0 b0); [intros H; discriminate H|exact HP0]).
      assert (Htail : forall pred stx, P (s_tt stx) -> df (s_g stx) = false ->
        ab_tail G g_hash g_ply g_mated TT tt_write cancel (S d) a
          (gloop G g_push' g_pop sst s_g (set_g G TT) (abB d false) pred b (movelist (g_moves (s_g stn)) (first_prio best prio)) stx a [] false) =
        ab_tail G g_hash g_ply g_mated TT tt_write cancel (S d) a
          (gloop G g_push g_pop sst s_g (set_g G TT) (abA d false) pred b (movelist (g_moves (s_g stn)) (first_prio best prio)) stx a [] false) /\
        P (s_tt (fst (fst (ab_tail G g_hash g_ply g_mated TT tt_write cancel (S d) a
          (gloop G g_push g_pop sst s_g (set_g G TT) (abA d false) pred b (movelist (g_moves (s_g stn)) (first_prio best prio)) stx a [] false))))) /\
        df (s_g (fst (fst (ab_tail G g_hash g_ply g_mated TT tt_write cancel (S d) a
          (gloop G g_push g_pop sst s_g (set_g G TT) (abA d false) pred b (movelist (g_moves (s_g stn)) (first_prio best prio)) stx a [] false))))) = false).
      { intros pred stx HPx Hdx.
        destruct (gloop_eq (abA d false) (abB d false) Hrec pred b (movelist (g_moves (s_g stn)) (first_prio best prio)) stx a [] false HPx Hdx)
          as [E1 [P1 D1]].
        rewrite E1.
        destruct (gloop G g_push g_pop sst s_g (set_g G TT) (abA d false) pred b
                    (movelist (g_moves (s_g stn)) (first_prio best prio)) stx a [] false) as [[[[st2 al] pv] has] cut].
        cbn [fst] in P1, D1. split; [reflexivity|]. unfold ab_tail.
        destruct (negb has).
        - pose proof (Hmt (s_g st2)) as Hm. destruct (g_mated (s_g st2)) as [g' mated]. cbn [fst] in Hm |- *. split; [exact P1|exact Hm].
        - destruct (negb cut && less a al); [|split; [exact P1|exact D1]].
          unfold poll. destruct (cancel (Search.s_polls G TT st2)); [split; [exact P1|exact D1]|].
          cbn [fst set_tt Search.s_tt Search.s_g]. split; [apply Hwrite; exact P1|exact D1]. }
      destruct (s_ponder G TT stn) as [|pm prest].
      + destruct (Htail pred0 stn HPn Hdn) as [E [HP' HD']]. split; [exact E|]. split; [exact HP'|left; exact HD'].
      + destruct (Htail (fun _ m => move_equals pm m) (set_ponder G TT stn prest) HPn Hdn) as [E [HP' HD']].
        split; [exact E|]. split; [exact HP'|left; exact HD'].
  Qed.
End RunEq.
