(** A concrete toy game instantiating every Variable and Hypothesis of Section [Contract] of
    Lemmas/SearchContract.v: the hypotheses are jointly satisfiable and the conclusions of the main
    theorems are exercised on computed runs. *)
From Coq Require Import NArith ZArith List Bool Lia ZifyBool ZifyNat ZifyN.
From Morlock.Model Require Import Bits Score Attacks Move Search.
From Morlock.Lemmas Require Import ScoreLemmas SearchScore SearchStep MoveListPerm SearchContract.
Import ListNotations.
Open Scope Z_scope.

(** * The game tree: binary paths of length <= 3, newest move first *)
Definition tpos := list bool.
Definition mv0 : move := mkMove 0 0 0 0 0 0.
Definition mv1 : move := mkMove 0 1 0 0 0 0.
Definition mv2 : move := mkMove 0 2 0 0 0 0.   (* pseudo-legal, never legal *)
Definition tmoves (p : tpos) : list move := [mv0; mv1; mv2].
Definition tchild (p : tpos) (m : move) : option tpos :=
  if (length p <? 3)%nat then
    if (mfrom m =? 0)%N then Some (false :: p)
    else if (mfrom m =? 1)%N then Some (true :: p) else None
  else None.
Definition thash (p : tpos) : N :=
  fold_right (fun (b : bool) acc => (2 * acc + (if b then 1 else 0))%N) 1%N p.
Definition tdrawn (p : tpos) : bool := (thash p =? 7)%N.        (* exactly [true; true] *)
Definition tmated (p : tpos) : bool := hd false p.
(** 0.0, 1.0, -1.0, 2.0, -2.0, -0.0 *)
Definition tleafs : list Z := [0; 1065353216; 3212836864; 1073741824; 3221225472; 2147483648].
Definition tleaf (p : tpos) : Z := nth (N.to_nat (thash p mod 6)) tleafs 0.
Definition tex (p c : tpos) (m : move) : bool := negb ((thash p =? 2)%N && (mfrom m =? 0)%N).  (* all but ([false], mv0) *)
Definition tqex (p c : tpos) (m : move) : bool := (mfrom m =? 1)%N.

(** * The board *)
Definition TG : Type := (tpos * bool)%type.
Definition tg_draw (g : TG) : bool := snd g.
Definition tg_hash (g : TG) : N := thash (fst g).
Definition tg_ply (g : TG) : Z := Z.of_nat (length (fst g)).
Definition tg_moves (g : TG) : list move := tmoves (fst g).
Definition tg_push (g : TG) (m : move) : option TG := option_map (fun c => (c, tdrawn c)) (tchild (fst g) m).
Definition tg_pop (g : TG) : TG := (tl (fst g), false).
Definition tg_mated (g : TG) : TG * bool := ((fst g, false), tmated (fst g)).
Definition tg_clear (g : TG) : TG := (fst g, false).
Definition tg_restore (g0 g : TG) : TG := (fst g, snd g0).
Definition TAt (p : tpos) (g : TG) : Prop := fst g = p.

(** * The table: association list, newest entry first *)
Definition TTT : Type := list (N * (N * Z * score * move)).
Definition ttt_read (t : TTT) (h : N) : option (N * Z * score * move) :=
  match find (fun e => (fst e =? h)%N) t with Some e => Some (snd e) | None => None end.
Definition ttt_write (t : TTT) (h b : N) (ply d : Z) (sc : score) (m : move) : TTT := (h, (b, d, sc, m)) :: t.

Definition texplore (g : TG) : (move -> Z) * (TG -> move -> bool) :=
  (fun m => Z.of_N (mfrom m), fun g1 m => tex (fst g) (fst g1) m).
Definition tqexplore (g : TG) : (move -> Z) * (TG -> move -> bool) :=
  (fun m => Z.of_N (mfrom m), fun g1 m => tqex (fst g) (fst g1) m).
Definition tg_leaf (g : TG) : Z := tleaf (fst g).

Definition cancel_a : nat -> bool := fun _ => false.
Definition cancel_b : nat -> bool := fun n => (5 <=? n)%nat.

(** * Abbreviations for the instantiated objects *)
Definition toy_mm : nat -> bool -> tpos -> score := mm true 4 tpos tmoves tchild tdrawn tmated tleaf tex tqex.
Definition toy_qv : nat -> tpos -> score := qv tpos tmoves tchild tdrawn tmated tleaf tqex.
Definition toy_search (cancel : nat -> bool) :=
  ab_search TG tg_draw tg_hash tg_ply tg_moves tg_push tg_pop tg_mated tg_clear tg_restore TTT ttt_read ttt_write
            texplore tqexplore tg_leaf cancel true 4.
Definition toy_TTInv : TTT -> Prop := TTInv TTT ttt_read true 4 tpos tmoves tchild tdrawn tmated tleaf tex tqex thash.
Definition toy_Rep : tpos -> TG -> Prop := Rep TG tg_draw tpos tdrawn TAt.
Definition toy_PVok : nat -> tpos -> list move -> Prop := PVok tpos tmoves tchild.
Definition toy_PVroot := PVroot true 4 tpos tmoves tchild tdrawn tmated tleaf tex tqex.


(** * The hypotheses of Section [Contract] hold *)
Lemma tchild_some p m c : tchild p m = Some c -> (length p < 3)%nat /\ exists b, c = b :: p.
Proof.
  unfold tchild. destruct (length p <? 3)%nat eqn:E; [|discriminate].
  apply Nat.ltb_lt in E. intros H. split; [exact E|].
  destruct (mfrom m =? 0)%N; [injection H as <-; eexists; reflexivity|].
  destruct (mfrom m =? 1)%N; [injection H as <-; eexists; reflexivity|discriminate].
Qed.

Lemma thash_cons b p : thash (b :: p) = (2 * thash p + (if b then 1 else 0))%N.
Proof. reflexivity. Qed.
Lemma thash_pos p : (1 <= thash p)%N.
Proof. induction p as [|b p IH]; [cbn; lia|]. rewrite thash_cons. destruct b; lia. Qed.

Lemma thash_inj : forall p q, thash p = thash q -> p = q.
Proof.
  induction p as [|b p IH]; intros [|c q] H.
  - reflexivity.
  - rewrite thash_cons in H. change (thash []) with 1%N in H. pose proof (thash_pos q). destruct c; lia.
  - rewrite thash_cons in H. change (thash []) with 1%N in H. pose proof (thash_pos p). destruct b; lia.
  - rewrite !thash_cons in H.
    assert (b = c /\ thash p = thash q) as [-> Hq] by (destruct b, c; (split; [reflexivity|lia]) || lia).
    f_equal. apply IH. exact Hq.
Qed.

Lemma toy_H_moves : forall p g, TAt p g -> tg_moves g = tmoves p.
Proof. intros p g Hat. unfold TAt in Hat. subst p. reflexivity. Qed.
Lemma toy_H_leaf : forall p g, TAt p g -> tg_leaf g = tleaf p.
Proof. intros p g Hat. unfold TAt in Hat. subst p. reflexivity. Qed.
Lemma toy_H_hash : forall p g, TAt p g -> tg_hash g = thash p.
Proof. intros p g Hat. unfold TAt in Hat. subst p. reflexivity. Qed.
Lemma toy_H_push_none : forall p g m, TAt p g -> In m (tmoves p) -> tg_push g m = None -> tchild p m = None.
Proof.
  intros p g m Hat _ H. unfold TAt in Hat. subst p. unfold tg_push in H. destruct (tchild (fst g) m); [discriminate H|reflexivity].
Qed.
Lemma toy_H_push_some : forall p g m g1, TAt p g -> In m (tmoves p) -> tg_push g m = Some g1 ->
  exists c, tchild p m = Some c /\ TAt c g1 /\ tg_draw g1 = tdrawn c.
Proof.
  intros p g m g1 Hat _ H. unfold TAt in Hat. subst p. unfold tg_push in H. destruct (tchild (fst g) m) as [c|]; [|discriminate H].
  injection H as <-. exists c. split; [reflexivity|split; reflexivity].
Qed.
Lemma toy_H_pop : forall p g m g1 c g2, TAt p g -> tg_push g m = Some g1 -> tchild p m = Some c ->
  TAt c g2 -> TAt p (tg_pop g2).
Proof.
  intros p g m g1 c g2 _ _ Hc Hg2. destruct (tchild_some p m c Hc) as [_ [b ->]].
  unfold TAt, tg_pop in *. cbn [fst]. rewrite Hg2. reflexivity.
Qed.
Lemma toy_push_fst p g' m g1 c : TAt p g' -> tg_push g' m = Some g1 -> tchild p m = Some c -> fst g1 = c.
Proof.
  intros Hat Hp Hc. unfold TAt in Hat. subst p. unfold tg_push in Hp. rewrite Hc in Hp. injection Hp as <-. reflexivity.
Qed.
Lemma toy_H_ex : forall p g g' m g1 c, TAt p g -> TAt p g' -> tg_push g' m = Some g1 -> tchild p m = Some c ->
  snd (texplore g) g1 m = tex p c m.
Proof.
  intros p g g' m g1 c Hg Hg' Hp Hc. cbn [texplore snd]. rewrite Hg, (toy_push_fst p g' m g1 c Hg' Hp Hc). reflexivity.
Qed.
Lemma toy_H_qex : forall p g g' m g1 c, TAt p g -> TAt p g' -> tg_push g' m = Some g1 -> tchild p m = Some c ->
  snd (tqexplore g) g1 m = tqex p c m.
Proof. intros. reflexivity. Qed.
Lemma toy_H_mated : forall p g, TAt p g -> (forall m, In m (tmoves p) -> tchild p m = None) ->
  TAt p (fst (tg_mated g)) /\ snd (tg_mated g) = tmated p.
Proof. intros p g Hat _. unfold TAt in Hat. subst p. split; reflexivity. Qed.
Lemma tleafs_valid : forall n, valid (heuristic (nth n tleafs 0)) = true.
Proof. intros n. do 7 (destruct n as [|n]; [vm_compute; reflexivity|]). destruct n; vm_compute; reflexivity. Qed.
Lemma toy_H_leaf_valid : forall p, valid (heuristic (tleaf p)) = true.
Proof. intros p. apply tleafs_valid. Qed.

Lemma cancel_a_mono : forall n, cancel_a n = true -> cancel_a (S n) = true.
Proof. intros n H. discriminate H. Qed.
Lemma cancel_b_mono : forall n, cancel_b n = true -> cancel_b (S n) = true.
Proof. unfold cancel_b. intros n H. lia. Qed.

Lemma toy_TTLaw : TTLaw TTT ttt_read ttt_write.
Proof.
  intros t h b ply d sc m h' b' d' sc' m' _ H. unfold ttt_read, ttt_write in *. cbn [find fst] in H.
  destruct (h =? h')%N eqn:E.
  - apply N.eqb_eq in E. cbn [snd] in H. injection H as <- <- <- <-. left. auto.
  - right. exact H.
Qed.
Lemma toy_HashValue : HashValue true 4 tpos tmoves tchild tdrawn tmated tleaf tex tqex thash.
Proof. intros p p' d H. apply thash_inj in H. subst p'. reflexivity. Qed.
Lemma toy_H_table : NoTable TTT ttt_read \/
  (TTLaw TTT ttt_read ttt_write /\ HashValue true 4 tpos tmoves tchild tdrawn tmated tleaf tex tqex thash).
Proof. right. split; [exact toy_TTLaw|exact toy_HashValue]. Qed.
(** the table is not the trivial one: the first disjunct of [H_table] is false here *)
Lemma toy_table_nontrivial : ~ NoTable TTT ttt_read.
Proof. intros H. specialize (H [(1%N, (0%N, 0, zero_score, no_move))] 1%N). discriminate H. Qed.

Lemma toy_H_clear : forall p g, TAt p g -> TAt p (tg_clear g).
Proof. intros p g H. exact H. Qed.
Lemma toy_H_restore : forall p g0 g, TAt p g -> TAt p (tg_restore g0 g) /\ tg_draw (tg_restore g0 g) = tg_draw g0.
Proof. intros p g0 g H. split; [exact H|reflexivity]. Qed.

(** the quiescence fuel suffices everywhere, hence every leaf of every search is fine *)
Lemma toy_qfin_gen : forall n p, (3 - length p < n)%nat -> qfin tpos tmoves tchild tdrawn tqex n p.
Proof.
  induction n as [|n IH]; intros p H; [lia|]. cbn [qfin]. right. intros m c _ Hc _.
  destruct (tchild_some p m c Hc) as [Hl [b ->]]. apply IH. cbn [length]. lia.
Qed.
Lemma toy_qfin : forall p, qfin tpos tmoves tchild tdrawn tqex 4 p.
Proof. intros p. apply toy_qfin_gen. lia. Qed.
Lemma toy_leaves_ok : forall d root p, leaves_ok true 4 tpos tmoves tchild tdrawn tex tqex d root p.
Proof.
  induction d as [|d IH]; intros root p; cbn [leaves_ok]; right.
  - intros _. apply toy_qfin.
  - intros m c _ _ _. apply IH.
Qed.
Lemma toy_TTInv_nil : toy_TTInv [].
Proof. intros h bound d sc m H. discriminate H. Qed.

(** * The main theorem instantiated, every Section hypothesis discharged *)
Definition toy_concl (cancel : nat -> bool) (depth : nat) (low high : score) (p : tpos)
           (st : sst TG TTT) (nodes : N) (sc : score) (pv : list move) (halted : bool) : Prop :=
  TAt p (s_g TG TTT st) /\ (tdrawn p = true -> tg_draw (s_g TG TTT st) = true) /\
  toy_TTInv (s_tt TG TTT st) /\
  halted = cancel (Nat.pred (s_polls TG TTT st)) /\
  (halted = true -> sc = invalid_score /\ pv = [] /\ nodes = 0%N) /\
  (halted = false ->
     valid sc = true /\ Rm low high (toy_mm depth true p) sc /\ toy_PVok depth p pv /\
     toy_PVroot depth true p low high sc pv).

Theorem toy_search_spec_gen (cancel : nat -> bool) :
  (forall n, cancel n = true -> cancel (S n) = true) ->
  forall g t depth low high st nodes sc pv halted p,
  (depth <= 123)%nat -> toy_TTInv t -> toy_Rep p g ->
  (depth <> O \/ tdrawn p = false) ->
  valid low = true -> valid high = true ->
  toy_search cancel g t [] depth low high = (st, nodes, sc, pv, halted) ->
  toy_concl cancel depth low high p st nodes sc pv halted.
Proof.
  intros Hmono g t depth low high st nodes sc pv halted p Hd Ht Hrep Hcase Va Vb Heq.
  refine (ab_search_spec TG tg_draw tg_hash tg_ply tg_moves tg_push tg_pop tg_mated tg_clear tg_restore
            TTT ttt_read ttt_write texplore tqexplore tg_leaf cancel true 4%nat
            tpos tmoves tchild tdrawn tmated tleaf tex tqex thash TAt
            toy_H_moves toy_H_leaf toy_H_hash toy_H_push_none toy_H_push_some toy_H_pop toy_H_ex toy_H_qex
            toy_H_mated toy_H_leaf_valid Hmono toy_H_table toy_H_clear toy_H_restore
            g t [] depth low high st nodes sc pv halted p _ Ht eq_refl Hrep _ (toy_leaves_ok depth true p) Va Vb Heq).
  - unfold qh. lia.
  - destruct Hcase as [H|H]; [left; exact H|right; right; exact H].
Qed.

(** oracle (b): the sixth and every later poll is answered "cancelled" *)
Theorem toy_search_spec g t depth low high st nodes sc pv halted p :
  (depth <= 123)%nat -> toy_TTInv t -> toy_Rep p g ->
  (depth <> O \/ tdrawn p = false) ->
  valid low = true -> valid high = true ->
  toy_search cancel_b g t [] depth low high = (st, nodes, sc, pv, halted) ->
  toy_concl cancel_b depth low high p st nodes sc pv halted.
Proof. exact (toy_search_spec_gen cancel_b cancel_b_mono g t depth low high st nodes sc pv halted p). Qed.
Print Assumptions toy_search_spec.

(** oracle (a): never cancelled *)
Theorem toy_search_spec_a g t depth low high st nodes sc pv halted p :
  (depth <= 123)%nat -> toy_TTInv t -> toy_Rep p g ->
  (depth <> O \/ tdrawn p = false) ->
  valid low = true -> valid high = true ->
  toy_search cancel_a g t [] depth low high = (st, nodes, sc, pv, halted) ->
  toy_concl cancel_a depth low high p st nodes sc pv halted.
Proof. exact (toy_search_spec_gen cancel_a cancel_a_mono g t depth low high st nodes sc pv halted p). Qed.
Print Assumptions toy_search_spec_a.

(** * Computed runs (non-vacuity of the conclusions) *)
Definition R0 : TG := ([], false).
Definition sleb (a b : score) : bool := negb (less b a).      (* [le a b] of SearchScore as a boolean *)
(** the first move of [pv] is legal, explored, and attains [sc] *)
Definition pv_attains (d' : nat) (p : tpos) (sc : score) (pv : list move) : bool :=
  match pv with
  | m :: _ => match tchild p m with
              | Some c => tex p c m && go_eq (T (toy_mm d' false c)) sc
              | None => false
              end
  | [] => false
  end.
(** [pv] is a line of legal moves *)
Fixpoint pv_path (p : tpos) (pv : list move) : bool :=
  match pv with
  | [] => true
  | m :: rest => match tchild p m with Some c => pv_path c rest | None => false end
  end.
(** the three cases of C13 for the window (a, b), true value v, result r *)
Definition window_ok (a b v r : score) : bool :=
  implb (sleb v a) (sleb v r && sleb r a) &&
  implb (less a v && less v b) (go_eq r v) &&
  implb (sleb b v) (sleb b r && sleb r v).
Definition full_ok (d : nat) (g : TG) (t : TTT) : bool :=
  let '(st, nodes, sc, pv, halted) := toy_search cancel_a g t [] d neginf_score inf_score in
  negb halted && go_eq sc (toy_mm d true (fst g)) && valid sc && (length pv <=? d)%nat && pv_path (fst g) pv &&
  match d with
  | O => true
  | S d' => implb (existsb (fun m => match tchild (fst g) m with Some c => tex (fst g) c m | None => false end) (tmoves (fst g)))
                  (pv_attains d' (fst g) sc pv)
  end.

(** oracle (a), empty table, full window, from the root: the minimax value and a principal variation *)
Example toy_full_3 : full_ok 3 R0 [] = true. Proof. vm_compute; reflexivity. Qed.
Example toy_full_2 : full_ok 2 R0 [] = true. Proof. vm_compute; reflexivity. Qed.
Example toy_full_1 : full_ok 1 R0 [] = true. Proof. vm_compute; reflexivity. Qed.
Example toy_full_0 : full_ok 0 R0 [] = true. Proof. vm_compute; reflexivity. Qed.
Example toy_full_4 : full_ok 4 R0 [] = true. Proof. vm_compute; reflexivity. Qed.
(** the values themselves: 1.0, 1.0, mate in 3, mate in 3 *)
Example toy_values : map (fun d => toy_mm d true []) [0; 1; 2; 3]%nat =
  [heuristic 1065353216; heuristic 1065353216; mate_in 3; mate_in 3].
Proof. vm_compute; reflexivity. Qed.
Example toy_run_3 :
  let '(st, nodes, sc, pv, halted) := toy_search cancel_a R0 [] [] 3 neginf_score inf_score in
  (halted, sc, pv, nodes, s_g TG TTT st, s_polls TG TTT st) = (false, mate_in 3, [mv0; mv1; mv1], 9%N, R0, 18%nat).
Proof. vm_compute; reflexivity. Qed.

(** narrow windows: the three cases *)
Definition h00 : score := heuristic 0.            (* 0.0 *)
Definition h10 : score := heuristic 1065353216.   (* 1.0 *)
Definition h20 : score := heuristic 1073741824.   (* 2.0 *)
Definition hm1 : score := heuristic 3212836864.   (* -1.0 *)
Definition win_ok (d : nat) (a b : score) : bool :=
  let '(st, nodes, sc, pv, halted) := toy_search cancel_a R0 [] [] d a b in
  negb halted && valid sc && window_ok a b (toy_mm d true []) sc.
(** depth 3, value = mate in 3 >= high: fail high *)
Example toy_window_3 : win_ok 3 h00 h10 = true /\ sleb h10 (toy_mm 3 true []) = true.
Proof. vm_compute; split; reflexivity. Qed.
(** depth 1, value = 1.0: inside (0.0, 2.0) exact; (0.0, 1.0) fails high; (2.0, +inf) fails low; (-1.0, 0.0) fails high *)
Example toy_window_1_inside :
  win_ok 1 h00 h20 = true /\ less h00 (toy_mm 1 true []) && less (toy_mm 1 true []) h20 = true /\
  (let '(_, _, sc, pv, _) := toy_search cancel_a R0 [] [] 1 h00 h20 in go_eq sc h10 && pv_attains 0 [] sc pv) = true.
Proof. vm_compute; repeat split; reflexivity. Qed.
Example toy_window_1_high : win_ok 1 h00 h10 = true /\ sleb h10 (toy_mm 1 true []) = true.
Proof. vm_compute; split; reflexivity. Qed.
Example toy_window_1_low : win_ok 1 h20 inf_score = true /\ sleb (toy_mm 1 true []) h20 = true.
Proof. vm_compute; split; reflexivity. Qed.
Example toy_window_1_high' : win_ok 1 hm1 h00 = true /\ sleb h00 (toy_mm 1 true []) = true.
Proof. vm_compute; split; reflexivity. Qed.
(** every pair of bounds from a small set, depths 0..4: the window-agnostic contract [Rm] for ALL pairs
    (also improper windows low >= high), the three cases for the proper ones ([less a b]) *)
Definition bounds : list score := [neginf_score; mate_in (-2); hm1; h00; h10; h20; mate_in 3; mate_in 1; inf_score].
Definition rm_ok (a b v r : score) : bool := go_eq r v || (sleb v r && sleb r a) || (sleb b r && sleb r v).
Lemma rm_ok_Rm a b v r : rm_ok a b v r = true -> Rm a b v r.
Proof.
  unfold rm_ok, Rm, le, sleb. intros H.
  apply orb_true_iff in H. destruct H as [H|H]; [apply orb_true_iff in H; destruct H as [H|H]|].
  - left. exact H.
  - right. left. apply andb_true_iff in H. destruct H as [H1 H2]. apply negb_true_iff in H1, H2. split; assumption.
  - right. right. apply andb_true_iff in H. destruct H as [H1 H2]. apply negb_true_iff in H1, H2. split; assumption.
Qed.
Example toy_Rm_all :
  forallb (fun d => forallb (fun a => forallb (fun b =>
    let '(st, nodes, sc, pv, halted) := toy_search cancel_a R0 [] [] d a b in
    negb halted && valid sc && rm_ok a b (toy_mm d true []) sc && (length pv <=? d)%nat && pv_path [] pv)
    bounds) bounds) [0; 1; 2; 3; 4]%nat = true.
Proof. vm_compute; reflexivity. Qed.
Example toy_window_all :
  forallb (fun d => forallb (fun a => forallb (fun b => implb (less a b) (win_ok d a b)) bounds) bounds) [0; 1; 2; 3; 4]%nat = true.
Proof. vm_compute; reflexivity. Qed.

(** oracle (b): halted, nothing reported, the board handed back at the root, nothing written *)
Example toy_cancel_3 :
  let '(st, nodes, sc, pv, halted) := toy_search cancel_b R0 [] [] 3 neginf_score inf_score in
  (halted, sc, pv, nodes, s_g TG TTT st, s_tt TG TTT st) = (true, invalid_score, [], 0%N, R0, []).
Proof. vm_compute; reflexivity. Qed.
(** depth 0 needs 6 polls: still halted; cancelling later lets shallow searches finish *)
Example toy_cancel_0 :
  let '(st, nodes, sc, pv, halted) := toy_search cancel_b R0 [] [] 0 neginf_score inf_score in
  (halted, s_g TG TTT st) = (true, R0).
Proof. vm_compute; reflexivity. Qed.

(** the table of a first search is reused by a second one *)
Definition table_after (d : nat) (t : TTT) : TTT :=
  let '(st, _, _, _, _) := toy_search cancel_a R0 t [] d neginf_score inf_score in s_tt TG TTT st.
Definition nodes_of (d : nat) (t : TTT) : N :=
  let '(_, nodes, _, _, _) := toy_search cancel_a R0 t [] d neginf_score inf_score in nodes.
Example toy_reuse_2_3 : length (table_after 2 []) = 3%nat /\ full_ok 3 R0 (table_after 2 []) = true.
Proof. vm_compute; split; reflexivity. Qed.
(** same depth twice: the children are answered from the table (fewer nodes), same value *)
Example toy_reuse_3_3 :
  full_ok 3 R0 (table_after 3 []) = true /\ (nodes_of 3 (table_after 3 []) <? nodes_of 3 [])%N = true.
Proof. vm_compute; split; reflexivity. Qed.
Example toy_reuse_windows :
  forallb (fun a => forallb (fun b =>
    let '(st, nodes, sc, pv, halted) := toy_search cancel_a R0 (table_after 2 []) [] 3 a b in
    negb halted && valid sc && rm_ok a b (toy_mm 3 true []) sc &&
    implb (less a b) (window_ok a b (toy_mm 3 true []) sc)) bounds) bounds = true.
Proof. vm_compute; reflexivity. Qed.

(** a root at which a draw can be claimed: searched anyway, the flag is restored *)
Definition RD : TG := ([true; true], true).
Example toy_drawn_root_Rep : toy_Rep [true; true] RD.
Proof. split; reflexivity. Qed.
Example toy_drawn_root :
  let '(st, nodes, sc, pv, halted) := toy_search cancel_a RD [] [] 1 neginf_score inf_score in
  (halted, s_g TG TTT st) = (false, RD) /\ go_eq sc (toy_mm 1 true [true; true]) = true /\
  go_eq (toy_mm 1 false [true; true]) zero_score = true /\ pv_attains 0 [true; true] sc pv = true.
Proof. vm_compute; repeat split; reflexivity. Qed.

(** the theorem applied to a computed run: its premises are satisfiable and it yields the facts above *)
Example toy_spec_applied :
  exists st nodes sc pv,
    toy_search cancel_b R0 [] [] 3 neginf_score inf_score = (st, nodes, sc, pv, true) /\
    toy_concl cancel_b 3 neginf_score inf_score [] st nodes sc pv true.
Proof.
  destruct (toy_search cancel_b R0 [] [] 3 neginf_score inf_score) as [[[[st nodes] sc] pv] halted] eqn:E.
  assert (halted = true) as -> by (vm_compute in E; congruence).
  exists st, nodes, sc, pv. split; [reflexivity|].
  apply (toy_search_spec R0 [] 3 neginf_score inf_score st nodes sc pv true []);
    [lia|exact toy_TTInv_nil|split; reflexivity|left; discriminate|reflexivity|reflexivity|exact E].
Qed.
Example toy_spec_applied_a :
  exists st nodes sc pv,
    toy_search cancel_a R0 [] [] 3 neginf_score inf_score = (st, nodes, sc, pv, false) /\
    toy_concl cancel_a 3 neginf_score inf_score [] st nodes sc pv false.
Proof.
  destruct (toy_search cancel_a R0 [] [] 3 neginf_score inf_score) as [[[[st nodes] sc] pv] halted] eqn:E.
  assert (halted = false) as -> by (vm_compute in E; congruence).
  exists st, nodes, sc, pv. split; [reflexivity|].
  apply (toy_search_spec_a R0 [] 3 neginf_score inf_score st nodes sc pv false []);
    [lia|exact toy_TTInv_nil|split; reflexivity|left; discriminate|reflexivity|reflexivity|exact E].
Qed.

(** other start nodes, depth 0..3 (the drawn node only from depth 1 on) *)
Example toy_other_roots :
  forallb (fun p => forallb (fun d => full_ok d (p, tdrawn p) [])
                            (if tdrawn p then [1; 2; 3]%nat else [0; 1; 2; 3]%nat))
          [[false]; [true]; [false; false]; [true; false]; [false; true]; [true; true]; [true; true; false]] = true.
Proof. vm_compute; reflexivity. Qed.

(** the premise [depth <> 0 \/ use_quiescence = false \/ drawn p = false] of [ab_search_spec] cannot be
    dropped: at the claimable-draw node, depth 0 with quiescence, the search (flag cleared) returns
    mate in 1 whereas the reference [mm 0 true] is 0 (its quiescence value looks at [drawn] again) *)
Example toy_depth0_drawn_root :
  (let '(_, _, sc, _, halted) := toy_search cancel_a RD [] [] 0 neginf_score inf_score in (halted, sc)) = (false, mate_in 1) /\
  toy_mm 0 true [true; true] = zero_score.
Proof. vm_compute; split; reflexivity. Qed.
