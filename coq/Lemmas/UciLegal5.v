(** C10 (and C04) over whole sessions that also change options and search: the engine game after ANY
    list of `position`, `ucinewgame`, `go depth d` and `setoption name Hash value n` commands is the
    game the last position line describes.

    [srun] runs a session on the sequential model ([UciSeq]: the model the harness compares with real
    driver sessions line by line) and returns the final state; [session_game]: the invariant [SInv]
    (the engine refines [setup line] for the last position line, history chain included) is kept by
    every command, so searching (which forks the board and threads the table) and changing the table
    size between two position lines (which only takes effect at the next fresh set-up) never disturb
    the game; a following continuation line continues it.  The proof re-uses the step lemmas of
    [session_answers] (UciLegal4). *)
From Coq Require Import NArith ZArith List Bool Lia.
From Morlock.Model Require Import Bits Score Attacks Move Position Zobrist Board Search TT SearchBoard Abs Fen Engine EngineSpec UciSeq.
From Morlock.Spec Require Import Chess Game.
From Morlock.Lemmas Require Import PositionLemmas BoardHeap1 SearchContract SearchBoardInst1 SearchBoardInst
     EngineLemmas1 EngineLemmas2 EngineLemmas3 EngineLemmas4 UciLegal1 UciLegal2 UciLegal3 UciLegal4.
Import ListNotations.
Open Scope Z_scope.

Inductive ucmd2 := UC (c : ucmd) | UHash (n : N).

(** setoption name Hash value n (0 .. 16384; the driver ignores other values): recorded, used by the next Reset *)
Definition u_sethash (u : ueng) (n : N) : ueng := mkU (u_d u) (u_tt u) n (u_depth u).

Definition last_line (last : option str) (c : ucmd2) : option str :=
  match c with UC (UPos line) => Some line | _ => last end.

Section Session2.
  Variable z : ztable.
  Variable use_q : bool.
  Variable qfuel : nat.
  Variable mk_table : N -> ttv.

  Definition sstep (u : ueng) (c : ucmd2) : option ueng :=
    match c with
    | UC (UPos line) => u_position z mk_table u line
    | UC UNew => Some (u_newgame u)
    | UC (UGo d) => Some (snd (go_depth z use_q qfuel u d))
    | UHash n => Some (u_sethash u n)
    end.

  Fixpoint srun (u : ueng) (last : option str) (cmds : list ucmd2) : option (ueng * option str) :=
    match cmds with
    | [] => Some (u, last)
    | c :: r => match sstep u c with
                | Some u' => srun u' (last_line last c) r
                | None => None
                end
    end.

  Definition valid_ucmd2 (c : ucmd2) : Prop :=
    match c with UC c => valid_ucmd use_q qfuel c | UHash _ => True end.

  Hypothesis Hmk : forall h, TabOK z use_q qfuel (mk_table h).
  Hypothesis Hleaves : forall d p, GInv p -> LeavesUpTo z use_q qfuel d p.

  Lemma sstep_inv u last c :
    SInv z use_q qfuel u last -> valid_ucmd2 c ->
    exists u', sstep u c = Some u' /\ SInv z use_q qfuel u' (last_line last c).
  Proof.
    intros HS Hc. destruct c as [[line| |d]|n]; cbn [sstep last_line valid_ucmd2 valid_ucmd] in *.
    - (* position *)
      destruct Hc as (Hgf & [g Hs] & Hleg).
      destruct (position_step z (u_d u) line g (SInv_DInv z use_q qfuel u last HS) Hgf Hs Hleg) as (st' & Ecmd & R & I & Hl).
      pose proof (cmd_position_good z (u_d u) line st' (SInv_good z use_q qfuel u last HS) Hleg Ecmd) as (_ & _ & HC).
      unfold u_position. rewrite Ecmd. eexists. split; [reflexivity|]. cbn [SInv u_d u_tt].
      split; [exact Hgf|]. split; [right; exact Hl|]. exists g. repeat (split; [assumption|]).
      destruct (negb (match d_last (u_d u) with [] => true | _ => false end) && is_continuation line (d_last (u_d u))) eqn:Ec;
        [|apply Hmk].
      apply andb_true_iff in Ec as [E1 _].
      destruct last as [line0|].
      + destruct HS as (_ & _ & g0 & _ & _ & _ & _ & HT). exact HT.
      + cbn [SInv] in HS. rewrite HS in E1. discriminate E1.
    - (* ucinewgame *)
      eexists. split; [reflexivity|].
      destruct last as [line0|]; cbn [SInv u_newgame u_d u_tt cmd_ucinewgame d_last d_eng] in *.
      + destruct HS as (Hgf & _ & Hrest). split; [exact Hgf|]. split; [left; reflexivity|exact Hrest].
      + reflexivity.
    - (* go depth d *)
      destruct Hc as [Hd1 Hq].
      destruct (go_depth z use_q qfuel u d) as [outs u'] eqn:Ego. cbn [snd].
      eexists. split; [reflexivity|].
      destruct last as [line|].
      + destruct HS as (Hgf & Hl & g & Hs & R & I & C & HT).
        pose proof (engine_GInv _ (proj1 R) I C) as HGI.
        destruct (go_depth_answer z use_q qfuel u d g outs u' R I C HT Hd1 Hq (Hleaves d _ HGI) Ego)
          as (infos & Eo & Hne & Hdep & Hlen & Fa & Hbest & _ & _ & R' & I' & C' & Hl' & _ & _ & HT' & _).
        cbn [SInv]. split; [exact Hgf|]. split; [rewrite Hl'; exact Hl|]. exists g. auto 10.
      + cbn [SInv] in *.
        destruct (go_depth_shape z use_q qfuel u d) as (infos & t' & h1 & E). rewrite Ego in E. injection E as _ ->.
        cbn [u_d d_last]. exact HS.
    - (* setoption name Hash *)
      eexists. split; [reflexivity|]. destruct last as [line|]; exact HS.
  Qed.

  Fixpoint last_of (last : option str) (cmds : list ucmd2) : option str :=
    match cmds with [] => last | c :: r => last_of (last_line last c) r end.

  Theorem session_inv : forall cmds u last,
    SInv z use_q qfuel u last -> Forall valid_ucmd2 cmds ->
    exists u', srun u last cmds = Some (u', last_of last cmds) /\ SInv z use_q qfuel u' (last_of last cmds).
  Proof.
    induction cmds as [|c r IH]; intros u last HS Hv; cbn [srun last_of].
    - exists u. split; [reflexivity|exact HS].
    - inversion Hv as [|? ? Hc Hr]; subst.
      destruct (sstep_inv u last c HS Hc) as (u1 & E1 & HS1). rewrite E1.
      exact (IH u1 (last_line last c) HS1 Hr).
  Qed.

  (** the statement of C10 over such sessions: the driver never exits and, if a position line was sent,
      the engine ends in the game [setup line] of the LAST one (position, side, clocks, the whole history
      chain that repetition detection reads) *)
  Theorem session_game : forall cmds u0 line,
    d_last (u_d u0) = [] -> Forall valid_ucmd2 cmds -> last_of None cmds = Some line ->
    exists u' g, srun u0 None cmds = Some (u', Some line) /\ setup line = Some g /\
                 ERel (d_eng (u_d u')) g /\ EInv (d_eng (u_d u')).
  Proof.
    intros cmds u0 line H0 Hv Hl.
    destruct (session_inv cmds u0 None H0 Hv) as (u' & Er & HS). rewrite Hl in *.
    destruct HS as (_ & _ & g & Hs & R & I & _). exists u', g. auto.
  Qed.
End Session2.

Print Assumptions session_inv.
Print Assumptions session_game.
