(** MoveGen8 — each pseudo-legal move is listed once: [NoDup (pseudo_legal_moves p turn)] (from the
    structure of the emission loops) and, since the record is determined by (from, to, promotion)
    ([metadata_ok]), [NoDup (map abs_move (pseudo_legal_moves p turn))].  Then [pseudo_legal_spec]. *)
From Coq Require Import NArith ZArith List Bool Lia ZifyBool ZifyNat ZifyN.
From Morlock.Model Require Import Bits Attacks Move Position Abs.
From Morlock.Spec Require Import Chess.
From Morlock.Lemmas Require Import AttackGeometry AttackGeometry_Extra PositionLemmas MoveGen1 MoveGen2 MoveGen3 MoveGen4 MoveGen5 MoveGen6 MoveGen7.
Import ListNotations.
Open Scope N_scope.

(** * generic list facts *)

Lemma NoDup_app_intro {A} (l1 l2 : list A) : NoDup l1 -> NoDup l2 ->
  (forall x, In x l1 -> In x l2 -> False) -> NoDup (l1 ++ l2).
Proof.
  induction l1 as [|a l1 IH]; intros H1 H2 H; [exact H2|].
  inversion H1 as [|x xs Hnot ND]; subst. cbn [app]. constructor.
  - intro Hin. apply in_app_or in Hin as [Hin|Hin]; [contradiction|].
    apply (H a); [now left|exact Hin].
  - apply IH; auto. intros x Hx Hx2. apply (H x); [now right|exact Hx2].
Qed.

Lemma NoDup_flat_map_key {A B K} (key : A -> K) (tag : B -> K) (f : A -> list B) l :
  NoDup (map key l) -> (forall x, In x l -> NoDup (f x)) ->
  (forall x y, In x l -> In y (f x) -> tag y = key x) -> NoDup (flat_map f l).
Proof.
  induction l as [|a l IH]; cbn [map flat_map]; intros H1 H2 H3; [constructor|].
  inversion H1 as [|x xs Hnot ND]; subst. apply NoDup_app_intro.
  - apply H2. now left.
  - apply IH; auto. intros x Hx. apply H2. now right.
    intros x y Hx Hy. apply H3; [now right|exact Hy].
  - intros y Hy1 Hy2. apply in_flat_map in Hy2 as [a' [Ha' Hy2]]. apply Hnot.
    rewrite <- (H3 a y (or_introl eq_refl) Hy1), (H3 a' y (or_intror Ha') Hy2). now apply in_map.
Qed.

Lemma NoDup_map_tag {A B} (f : A -> B) (g : B -> A) l : (forall x, g (f x) = x) -> NoDup l -> NoDup (map f l).
Proof.
  intros Hg. induction 1 as [|a l Hnot ND IH]; cbn [map]; constructor; [|exact IH].
  intro Hin. apply in_map_iff in Hin as [x [E Hx]]. apply (f_equal g) in E. rewrite !Hg in E. now subst.
Qed.

Lemma NoDup_map_inj_in {A B} (f : A -> B) l : (forall x y, In x l -> In y l -> f x = f y -> x = y) ->
  NoDup l -> NoDup (map f l).
Proof.
  intros Hinj. induction 1 as [|a l Hnot ND IH]; cbn [map]; constructor.
  - intro Hin. apply in_map_iff in Hin as [x [E Hx]]. apply Hinj in E; [|now right|now left]. now subst.
  - apply IH. intros x y Hx Hy. apply Hinj; now right.
Qed.

Lemma map_id_eq {A} (l : list A) : map (fun x => x) l = l.
Proof. apply map_id. Qed.

(** * emission lists *)

Lemma emit_move_fields p turn t piece from bb y : In y (emit_move p turn t piece from bb) ->
  mtype y = t /\ mpiece y = piece /\ mfrom y = from.
Proof. intros H. apply emit_move_in in H as [to [_ ->]]. auto. Qed.

Lemma emit_promo_fields p turn t piece from bb y : In y (emit_promo p turn t piece from bb) ->
  mtype y = t /\ mpiece y = piece /\ mfrom y = from.
Proof. intros H. apply emit_promo_in in H as [to [pc [_ [_ ->]]]]. auto. Qed.

Lemma emit_move_nodup p turn t piece from bb : NoDup (emit_move p turn t piece from bb).
Proof. unfold emit_move. apply (NoDup_map_tag _ mto); [reflexivity|apply bits_asc_nodup]. Qed.

Lemma QRNB_nodup : NoDup QueenRookKnightBishop.
Proof. apply nodupb_ok. reflexivity. Qed.

Lemma emit_promo_nodup p turn t piece from bb : NoDup (emit_promo p turn t piece from bb).
Proof.
  unfold emit_promo. apply (NoDup_flat_map_key (fun x => x) mto).
  - rewrite map_id_eq. apply bits_asc_nodup.
  - intros to _. cbv zeta. apply (NoDup_map_tag _ mpromo); [reflexivity|apply QRNB_nodup].
  - intros to y _ Hy. cbv zeta in Hy. apply in_map_iff in Hy as [pc [<- _]]. reflexivity.
Qed.

(** a list of (type, moves) groups *)
Lemma groups_nodup (gs : list (N * list move)) :
  NoDup (map fst gs) -> (forall g, In g gs -> NoDup (snd g) /\ forall y, In y (snd g) -> mtype y = fst g) ->
  NoDup (flat_map snd gs).
Proof.
  intros H1 H2. apply (NoDup_flat_map_key fst mtype); [exact H1| |].
  - intros g Hg. apply (H2 g Hg).
  - intros g y Hg Hy. now apply (H2 g Hg).
Qed.

Lemma step_moves_nodup p turn piece from ab : NoDup (step_moves p turn piece from ab).
Proof.
  unfold step_moves. cbv zeta. apply NoDup_app_intro; try apply emit_move_nodup.
  intros y H1 H2. apply emit_move_fields in H1 as [E1 _]. apply emit_move_fields in H2 as [E2 _].
  rewrite E1 in E2. discriminate.
Qed.

Lemma step_moves_fields p turn piece from ab y : In y (step_moves p turn piece from ab) ->
  mpiece y = piece /\ mfrom y = from /\ (mtype y = Normal \/ mtype y = Capture).
Proof.
  unfold step_moves. cbv zeta. intros H. apply in_app_or in H as [H|H];
  apply emit_move_fields in H as [E1 [E2 E3]]; auto.
Qed.

Lemma officer_moves_nodup p turn : NoDup (officer_moves p turn).
Proof.
  unfold officer_moves. apply (NoDup_flat_map_key (fun x => x) mpiece).
  - rewrite map_id_eq. apply QRNB_nodup.
  - intros piece _. apply (NoDup_flat_map_key (fun x => x) mfrom).
    + rewrite map_id_eq. apply bits_asc_nodup.
    + intros from _. apply step_moves_nodup.
    + intros from y _ Hy. now apply step_moves_fields in Hy.
  - intros piece y _ Hy. apply in_flat_map in Hy as [from [_ Hy]]. now apply step_moves_fields in Hy.
Qed.

Lemma officer_moves_piece p turn y : In y (officer_moves p turn) -> In (mpiece y) QueenRookKnightBishop.
Proof.
  unfold officer_moves. intros H. apply in_flat_map in H as [piece [Hp H]].
  apply in_flat_map in H as [from [_ H]]. apply step_moves_fields in H as [-> _]. exact Hp.
Qed.

Lemma pawn_moves_from_groups p turn from :
  pawn_moves_from p turn from =
  flat_map snd
    [(Capture, emit_move p turn Capture Pawn from
        (andnot (N.land (N.land (pawn_captureboard turn (bitmask from)) (own_mask p turn)) (opp_all p turn)) (pawn_promotion_rank turn)));
     (Push, emit_move p turn Push Pawn from (andnot (pawn_moveboard (all_bb p) turn (bitmask from)) (pawn_promotion_rank turn)));
     (Jump, emit_move p turn Jump Pawn from
        (N.land (pawn_moveboard (all_bb p) turn (pawn_moveboard (all_bb p) turn (bitmask from))) (pawn_jump_rank turn)));
     (CapturePromotion, emit_promo p turn CapturePromotion Pawn from
        (N.land (N.land (N.land (pawn_captureboard turn (bitmask from)) (own_mask p turn)) (opp_all p turn)) (pawn_promotion_rank turn)));
     (Promotion, emit_promo p turn Promotion Pawn from (N.land (pawn_moveboard (all_bb p) turn (bitmask from)) (pawn_promotion_rank turn)));
     (EnPassant, if negb (enpassant p =? 0)
                 then emit_move p turn EnPassant Pawn from
                        (N.land (N.land (pawn_captureboard turn (bitmask from)) (own_mask p turn)) (bitmask (enpassant p)))
                 else [])].
Proof. unfold pawn_moves_from. cbn [flat_map snd]. now rewrite app_nil_r. Qed.

Lemma pawn_moves_from_nodup p turn from : NoDup (pawn_moves_from p turn from).
Proof.
  rewrite pawn_moves_from_groups. apply groups_nodup.
  - apply nodupb_ok. reflexivity.
  - intros g Hg. cbn [In] in Hg.
    destruct Hg as [<-|[<-|[<-|[<-|[<-|[<-|[]]]]]]]; cbn [fst snd]; split;
    try apply emit_move_nodup; try apply emit_promo_nodup;
    try (intros y Hy; now apply emit_move_fields in Hy);
    try (intros y Hy; now apply emit_promo_fields in Hy).
    + destruct (negb (enpassant p =? 0)); [apply emit_move_nodup|constructor].
    + intros y Hy. destruct (negb (enpassant p =? 0)); [now apply emit_move_fields in Hy|destruct Hy].
Qed.

Lemma pawn_moves_from_fields p turn from y : In y (pawn_moves_from p turn from) ->
  mpiece y = Pawn /\ mfrom y = from.
Proof.
  rewrite pawn_moves_from_groups. intros H. apply in_flat_map in H as [g [Hg H]]. cbn [In] in Hg.
  destruct Hg as [<-|[<-|[<-|[<-|[<-|[<-|[]]]]]]]; cbn [snd] in H;
  try (apply emit_move_fields in H as [_ [E1 E2]]; now auto);
  try (apply emit_promo_fields in H as [_ [E1 E2]]; now auto).
  destruct (negb (enpassant p =? 0)); [|destruct H]. apply emit_move_fields in H as [_ [E1 E2]]. auto.
Qed.

Lemma pawn_moves_nodup p turn : NoDup (pawn_moves p turn).
Proof.
  unfold pawn_moves. apply (NoDup_flat_map_key (fun x => x) mfrom).
  - rewrite map_id_eq. apply bits_asc_nodup.
  - intros from _. apply pawn_moves_from_nodup.
  - intros from y _ Hy. now apply pawn_moves_from_fields in Hy.
Qed.

Lemma pawn_moves_piece p turn y : In y (pawn_moves p turn) -> mpiece y = Pawn.
Proof.
  unfold pawn_moves. intros H. apply in_flat_map in H as [from [_ H]]. now apply pawn_moves_from_fields in H.
Qed.

Lemma castle_emit_nodup p turn from right mask rooksq t dst : NoDup (castle_emit p turn from right mask rooksq t dst).
Proof. unfold castle_emit. destruct (_ && _ && _); [apply emit_move_nodup|constructor]. Qed.

Lemma castle_emit_fields p turn from right mask rooksq t dst y :
  In y (castle_emit p turn from right mask rooksq t dst) -> mtype y = t /\ mpiece y = King.
Proof.
  unfold castle_emit. destruct (_ && _ && _); [|intros []]. intros H.
  apply emit_move_fields in H as [E1 [E2 _]]. auto.
Qed.

Lemma king_moves_nodup p turn : NoDup (king_moves p turn).
Proof.
  unfold king_moves. destruct (pget p turn King =? 0); [constructor|]. cbv zeta.
  apply NoDup_app_intro.
  - apply step_moves_nodup.
  - unfold castle_emits. destruct (turn =? White); (apply NoDup_app_intro; [apply castle_emit_nodup|apply castle_emit_nodup|]);
    intros y H1 H2; apply castle_emit_fields in H1 as [E1 _]; apply castle_emit_fields in H2 as [E2 _];
    rewrite E1 in E2; discriminate.
  - intros y H1 H2. apply step_moves_fields in H1 as [_ [_ H1]].
    unfold castle_emits in H2. destruct (turn =? White); apply in_app_or in H2 as [H2|H2];
    apply castle_emit_fields in H2 as [E2 _]; rewrite E2 in H1; destruct H1; discriminate.
Qed.

Lemma king_moves_piece p turn y : In y (king_moves p turn) -> mpiece y = King.
Proof.
  unfold king_moves. destruct (pget p turn King =? 0); [intros []|]. cbv zeta. intros H.
  apply in_app_or in H as [H|H].
  - now apply step_moves_fields in H.
  - unfold castle_emits in H. destruct (turn =? White); apply in_app_or in H as [H|H];
    now apply castle_emit_fields in H.
Qed.

(** each move is emitted once (no hypothesis on the position) *)
Theorem pseudo_legal_nodup p turn : NoDup (pseudo_legal_moves p turn).
Proof.
  rewrite pseudo_legal_split. apply NoDup_app_intro; [apply officer_moves_nodup| |].
  - apply NoDup_app_intro; [apply pawn_moves_nodup|apply king_moves_nodup|].
    intros y H1 H2. apply pawn_moves_piece in H1. apply king_moves_piece in H2. rewrite H1 in H2. discriminate.
  - intros y H1 H2. apply officer_moves_piece in H1. apply in_app_or in H2 as [H2|H2].
    + apply pawn_moves_piece in H2. rewrite H2 in H1. cbn in H1. intuition discriminate.
    + apply king_moves_piece in H2. rewrite H2 in H1. cbn in H1. intuition discriminate.
Qed.

(** * the moves, identified by (from, to, promotion), are listed once *)
Theorem pseudo_legal_abs_nodup p turn : WF p turn -> vcol turn ->
  NoDup (map abs_move (pseudo_legal_moves p turn)).
Proof.
  intros W Hc. apply NoDup_map_inj_in; [|apply pseudo_legal_nodup].
  intros x y Hx Hy E.
  destruct (pseudo_legal_sound p turn x W Hc Hx) as [_ Mx].
  destruct (pseudo_legal_sound p turn y W Hc Hy) as [_ My].
  unfold metadata_ok in Mx, My. rewrite Mx, My, E. reflexivity.
Qed.

(** * deliverable 2 *)
Theorem pseudo_legal_spec : forall p turn, wf_b p turn = true -> (turn = 0 \/ turn = 1) ->
  (forall sm, (exists m, In m (pseudo_legal_moves p turn) /\ abs_move m = sm /\ metadata_ok p turn m) <->
              pseudo_candidate (abs_pos p) (color_of turn) sm) /\
  NoDup (map abs_move (pseudo_legal_moves p turn)).
Proof.
  intros p turn Hwf Hc. apply wf_b_WF in Hwf. split; [|now apply pseudo_legal_abs_nodup].
  intros sm. unfold pseudo_candidate. split.
  - intros [m [Hm [<- _]]]. now apply pseudo_legal_sound.
  - intros H. destruct (pseudo_legal_complete p turn sm Hwf Hc H) as [m [Hm Em]].
    exists m. split; [exact Hm|]. split; [exact Em|]. now apply pseudo_legal_sound.
Qed.
Print Assumptions pseudo_legal_spec.

(** the hypothesis on [turn] is necessary: a colour code other than 0/1 indexes past the piece table, no
    move is emitted, while [color_of] reads it as Black *)
Example pseudo_legal_turn_needed :
  wf_b pos_init 2 = true /\ pseudo_legal_moves pos_init 2 = [] /\
  pseudo_candidates (abs_pos pos_init) (color_of 2) <> [].
Proof. split; [vm_compute; reflexivity|]. split; [vm_compute; reflexivity|]. vm_compute. discriminate. Qed.
