(** * Trace acceptor of Model/Driver.v: declarative semantics [accepts] and
      completeness of the subset construction: [accepts (script, MNone) obs -> obs_ok script obs = true]
      (and the converse, so that [obs_ok] decides [accepts]). *)
From Coq Require Import List Bool Arith PeanoNat Lia.
From Morlock.Model Require Import Driver.
Import ListNotations.

(** ** Boolean equality of configurations is equality *)

Lemma bool_beq_eq : forall a b, internal_bool_beq a b = true <-> a = b.
Proof. intros [] []; simpl; split; intros H; auto; discriminate. Qed.

Lemma goopts_beq_eq : forall a b, goopts_beq a b = true <-> a = b.
Proof.
  intros [a1 a2 a3 a4] [b1 b2 b3 b4]. simpl. rewrite !andb_true_iff, !bool_beq_eq. split.
  - intros [-> [-> [-> ->]]]. reflexivity.
  - intros H. inversion H. auto.
Qed.

Lemma cmd_beq_eq : forall a b, cmd_beq a b = true <-> a = b.
Proof.
  intros a b. destruct a, b; simpl; try (split; intros H; [discriminate H || reflexivity | discriminate H || reflexivity]).
  - rewrite bool_beq_eq. split; intros H; [now subst | now inversion H].
  - rewrite goopts_beq_eq. split; intros H; [now subst | now inversion H].
Qed.

Lemma list_beq_eq : forall a b : list cmd, internal_list_beq cmd cmd_beq a b = true <-> a = b.
Proof.
  induction a as [|x a IH]; intros [|y b]; simpl; try (split; intros H; [discriminate H || reflexivity | discriminate H || reflexivity]).
  rewrite andb_true_iff, cmd_beq_eq, IH. split.
  - intros [-> ->]. reflexivity.
  - intros H. inversion H. auto.
Qed.

Lemma mon_beq_eq : forall a b, mon_beq a b = true <-> a = b.
Proof. intros [] []; simpl; split; intros H; auto; discriminate. Qed.

Lemma cfg_eqb_eq : forall a b, cfg_eqb a b = true <-> a = b.
Proof.
  intros [l m] [l' m']. unfold cfg_eqb. simpl. rewrite andb_true_iff, list_beq_eq, mon_beq_eq. split.
  - intros [-> ->]. reflexivity.
  - intros H. inversion H. auto.
Qed.

Lemma mem_cfg : forall c l, existsb (cfg_eqb c) l = true <-> In c l.
Proof.
  intros c l. rewrite existsb_exists. split.
  - intros [x [H1 H2]]. apply cfg_eqb_eq in H2. now subst.
  - intros H. exists c. split; auto. now apply cfg_eqb_eq.
Qed.

Lemma add_cfgs_In : forall new acc c, In c (add_cfgs new acc) <-> In c new \/ In c acc.
Proof.
  unfold add_cfgs. induction new as [|x new IH]; intros acc c; simpl.
  - tauto.
  - rewrite IH. destruct (existsb (cfg_eqb x) acc) eqn:E.
    + apply mem_cfg in E. split; [tauto|]. intros [[<-|H]|H]; auto.
    + simpl. split; [tauto|]. intros [[<-|H]|H]; auto.
Qed.

(** ** Declarative semantics of the acceptor *)

Inductive accepts : cfg -> list obs_line -> Prop :=
| acc_end : forall l, accepts (l, MExited) []
| acc_eps : forall c c' obs, In c' (cfg_eps c) -> accepts c' obs -> accepts c obs
| acc_obs : forall c c' o obs, In c' (cfg_obs o c) -> accepts c' obs -> accepts c (o :: obs).

(** eps-reachability *)
Inductive eps_star : cfg -> cfg -> Prop :=
| es_refl : forall c, eps_star c c
| es_step : forall c c' c'', In c' (cfg_eps c) -> eps_star c' c'' -> eps_star c c''.

Lemma eps_star_accepts : forall c c' obs, eps_star c c' -> accepts c' obs -> accepts c obs.
Proof. intros c c' obs H. induction H; intros A; auto. eapply acc_eps; eauto. Qed.

Lemma eps_star_snoc : forall a b c, eps_star a b -> In c (cfg_eps b) -> eps_star a c.
Proof.
  intros a b c H. induction H; intros Hc.
  - eapply es_step; eauto. apply es_refl.
  - eapply es_step; eauto.
Qed.

(** ** Every silent step decreases the rank; observation steps do not increase it *)

Definition rank (c : cfg) : nat :=
  length (fst c) + match snd c with MExited => 0 | _ => 1 end.

Lemma eps_rank : forall c c', In c' (cfg_eps c) -> rank c' < rank c.
Proof.
  intros [l m] c' H. unfold rank.
  destruct l as [|x r]; [|destruct x as [| |[]| | | | | |]]; destruct m; simpl in H;
    try contradiction; try (destruct H as [<-|[]]; simpl; lia).
Qed.

Lemma obs_rank : forall o c c', In c' (cfg_obs o c) -> rank c' <= rank c.
Proof.
  intros o [l m] c' H. unfold rank.
  destruct o; (destruct l as [|x r]; [|destruct x as [| |[]| | | | | |]]); destruct m; simpl in H;
    try contradiction; try (destruct H as [<-|[]]; simpl; lia).
Qed.

(** ** The breadth-first closure *)

(* [acc] is closed under silent steps except for the successors of [front] *)
Definition bfs_inv (front acc : list cfg) : Prop :=
  (forall c, In c front -> In c acc)
  /\ (forall c c', In c acc -> In c' (cfg_eps c) -> In c' acc \/ In c front).

Definition closed (l : list cfg) : Prop := forall c c', In c l -> In c' (cfg_eps c) -> In c' l.

Lemma fresh_In : forall acc next c,
  In c (filter (fun c => negb (existsb (cfg_eqb c) acc)) next) <-> In c next /\ ~ In c acc.
Proof.
  intros acc next c. rewrite filter_In, negb_true_iff. split; intros [H1 H2]; split; auto.
  - intros H. apply mem_cfg in H. congruence.
  - destruct (existsb (cfg_eqb c) acc) eqn:E; auto. apply mem_cfg in E. contradiction.
Qed.

Lemma cfg_in_dec : forall (c : cfg) l, In c l \/ ~ In c l.
Proof.
  intros c l. destruct (existsb (cfg_eqb c) l) eqn:E.
  - left. now apply mem_cfg.
  - right. intros H. apply mem_cfg in H. congruence.
Qed.

Lemma eps_closure_complete : forall fuel front acc,
  bfs_inv front acc -> (forall c, In c front -> rank c < fuel) ->
  let r := eps_closure fuel front acc in
  (forall c, In c acc -> In c r) /\ closed r.
Proof.
  induction fuel as [|f IH]; intros front acc [I1 I2] Hr; simpl.
  - split; auto. intros c c' Hc Hc'. destruct (I2 c c' Hc Hc') as [H|H]; auto.
    apply Hr in H. lia.
  - set (next := flat_map cfg_eps front).
    set (fresh := filter (fun c => negb (existsb (cfg_eqb c) acc)) next).
    assert (Hnext : forall c c', In c front -> In c' (cfg_eps c) -> In c' acc \/ In c' fresh).
    { intros c c' Hc Hc'. destruct (cfg_in_dec c' acc) as [H|H]; auto. right.
      apply fresh_In. split; auto. apply in_flat_map. eauto. }
    destruct fresh as [|x fr] eqn:Efresh.
    + split; auto. intros c c' Hc Hc'. destruct (I2 c c' Hc Hc') as [H|H]; auto.
      destruct (Hnext c c' H Hc') as [H'|[]]; auto.
    + rewrite <- Efresh in *. clear Efresh x fr.
      assert (B : bfs_inv fresh (add_cfgs fresh acc)).
      { split.
        - intros c Hc. apply add_cfgs_In. auto.
        - intros c c' Hc Hc'. apply add_cfgs_In in Hc. rewrite add_cfgs_In. destruct Hc as [Hc|Hc]; auto.
          destruct (I2 c c' Hc Hc') as [H|H]; auto.
          destruct (Hnext c c' H Hc'); auto. }
      assert (R : forall c, In c fresh -> rank c < f).
      { intros c Hc. apply fresh_In in Hc. destruct Hc as [Hc _]. apply in_flat_map in Hc.
        destruct Hc as [c0 [H0 H1]]. apply eps_rank in H1. apply Hr in H0. lia. }
      destruct (IH fresh (add_cfgs fresh acc) B R) as [J1 J2]. split; auto.
      intros c Hc. apply J1. apply add_cfgs_In. auto.
Qed.

Lemma eps_closure_sound : forall fuel front acc (P : cfg -> Prop),
  (forall c c', P c -> In c' (cfg_eps c) -> P c') ->
  (forall c, In c front -> P c) -> (forall c, In c acc -> P c) ->
  forall c, In c (eps_closure fuel front acc) -> P c.
Proof.
  induction fuel as [|f IH]; intros front acc P HP Hf Ha c; simpl; auto.
  set (fresh := filter (fun c => negb (existsb (cfg_eqb c) acc)) (flat_map cfg_eps front)).
  assert (F : forall c, In c fresh -> P c).
  { intros c0 Hc. apply fresh_In in Hc. destruct Hc as [Hc _]. apply in_flat_map in Hc.
    destruct Hc as [c1 [H0 H1]]. eapply HP; eauto. }
  destruct fresh as [|x fr] eqn:E; auto.
  rewrite <- E in *. apply IH; auto.
  intros c0 Hc. apply add_cfgs_In in Hc. destruct Hc; auto.
Qed.

(** the closure started from [cs]: contains [cs], closed, nothing but eps-successors of [cs] *)
Lemma closure_spec : forall fuel cs, (forall c, In c cs -> rank c < fuel) ->
  let r := eps_closure fuel cs cs in
  (forall c, In c cs -> In c r) /\ closed r
  /\ (forall c, In c r -> exists c0, In c0 cs /\ eps_star c0 c).
Proof.
  intros fuel cs Hr. simpl.
  destruct (eps_closure_complete fuel cs cs) as [A B]; auto.
  { split; auto. }
  split; [|split]; auto.
  apply (eps_closure_sound fuel cs cs (fun c => exists c0, In c0 cs /\ eps_star c0 c)).
  - intros c c' [c0 [H0 H1]] Hc'. exists c0. split; auto. eapply eps_star_snoc; eauto.
  - intros c Hc. exists c. split; auto. apply es_refl.
  - intros c Hc. exists c. split; auto. apply es_refl.
Qed.

Lemma closure_rank : forall fuel cs, (forall c, In c cs -> rank c < fuel) ->
  forall c, In c (eps_closure fuel cs cs) -> rank c < fuel.
Proof.
  intros fuel cs Hr. apply eps_closure_sound; auto.
  intros c c' H Hc'. apply eps_rank in Hc'. lia.
Qed.

Lemma closed_star : forall l c c', closed l -> In c l -> eps_star c c' -> In c' l.
Proof. intros l c c' Cl Hc St. induction St; auto. apply IHSt. eapply Cl; eauto. Qed.

Lemma obs_run_nil : forall fuel cs,
  obs_run fuel cs [] = existsb (fun c : cfg => match c with (_, MExited) => true | _ => false end) (eps_closure fuel cs cs).
Proof. reflexivity. Qed.

Lemma obs_run_cons : forall fuel cs o rest,
  obs_run fuel cs (o :: rest) = obs_run fuel (add_cfgs (flat_map (cfg_obs o) (eps_closure fuel cs cs)) []) rest.
Proof. reflexivity. Qed.

(** ** Completeness: every accepted trace passes the checker *)
Lemma accepts_obs_run : forall fuel c obs, accepts c obs ->
  forall cs, (forall c, In c cs -> rank c < fuel) -> In c (eps_closure fuel cs cs) ->
  obs_run fuel cs obs = true.
Proof.
  intros fuel c obs A. induction A; intros cs Hr Hc.
  - rewrite obs_run_nil. apply existsb_exists. exists (l, MExited). split; auto.
  - apply IHA; auto. destruct (closure_spec fuel cs Hr) as [_ [Cl _]]. eapply Cl; eauto.
  - rewrite obs_run_cons. apply IHA.
    + intros c0 H0. apply add_cfgs_In in H0. destruct H0 as [H0|[]].
      apply in_flat_map in H0. destruct H0 as [c1 [H1 H2]].
      apply obs_rank in H2. apply (closure_rank fuel cs Hr) in H1. lia.
    + apply closure_spec.
      * intros c0 H0. apply add_cfgs_In in H0. destruct H0 as [H0|[]].
        apply in_flat_map in H0. destruct H0 as [c1 [H1 H2]].
        apply obs_rank in H2. apply (closure_rank fuel cs Hr) in H1. lia.
      * apply add_cfgs_In. left. apply in_flat_map. eauto.
Qed.

Theorem accepts_obs_ok : forall script obs, accepts (script, MNone) obs -> obs_ok script obs = true.
Proof.
  intros script obs A. unfold obs_ok.
  assert (Hr : forall c, In c [(script, MNone)] -> rank c < length script + 2).
  { intros c [<-|[]]. unfold rank. simpl. lia. }
  eapply accepts_obs_run; eauto.
  apply closure_spec; auto. now left.
Qed.

(** ** Soundness of the checker (converse): a passing trace is accepted *)
Lemma obs_run_accepts : forall fuel obs cs, (forall c, In c cs -> rank c < fuel) ->
  obs_run fuel cs obs = true -> exists c, In c cs /\ accepts c obs.
Proof.
  intros fuel obs. induction obs as [|o rest IH]; intros cs Hr H.
  - rewrite obs_run_nil in H. apply existsb_exists in H. destruct H as [[l m] [H1 H2]].
    destruct m; try discriminate.
    destruct (closure_spec fuel cs Hr) as [_ [_ S]]. destruct (S _ H1) as [c0 [H0 St]].
    exists c0. split; auto. eapply eps_star_accepts; eauto. apply acc_end.
  - rewrite obs_run_cons in H. apply IH in H.
    + destruct H as [c [Hc A]]. apply add_cfgs_In in Hc. destruct Hc as [Hc|[]].
      apply in_flat_map in Hc. destruct Hc as [c1 [H1 H2]].
      destruct (closure_spec fuel cs Hr) as [_ [_ S]]. destruct (S _ H1) as [c0 [H0 St]].
      exists c0. split; auto. eapply eps_star_accepts; eauto. eapply acc_obs; eauto.
    + intros c0 H0. apply add_cfgs_In in H0. destruct H0 as [H0|[]].
      apply in_flat_map in H0. destruct H0 as [c1 [H1 H2]].
      apply obs_rank in H2. apply (closure_rank fuel cs Hr) in H1. lia.
Qed.

Theorem obs_ok_accepts : forall script obs, obs_ok script obs = true -> accepts (script, MNone) obs.
Proof.
  intros script obs H. unfold obs_ok in H. apply obs_run_accepts in H.
  - destruct H as [c [[<-|[]] A]]. exact A.
  - intros c [<-|[]]. unfold rank. simpl. lia.
Qed.

Theorem obs_ok_iff : forall script obs, obs_ok script obs = true <-> accepts (script, MNone) obs.
Proof. intros. split; [apply obs_ok_accepts | apply accepts_obs_ok]. Qed.

Print Assumptions obs_ok_iff.
