(** C02, part 3: attack boards are symmetric (a attacks b iff b attacks a, same piece, same occupancy);
    hence in a position where the side not to move is not in check, no pseudo-legal move captures a king. *)
From Coq Require Import NArith ZArith List Bool Lia ZifyBool ZifyNat ZifyN.
From Morlock.gen Require Import GenTables GenRookRank GenRookFile GenBishopL GenBishopR.
From Morlock.Model Require Import Bits Attacks Move Position Abs.
From Morlock.Lemmas Require Import AttackGeometry_Extra PositionLemmas MoveRefines1.
Import ListNotations.
Open Scope N_scope.

Lemma pow2_bits n x : x < 2 ^ n <-> (forall i, n <= i -> N.testbit x i = false).
Proof. split.
  - intros Hx i Hi. destruct (N.eq_dec x 0) as [->|Hn]. apply N.bits_0.
    apply N.bits_above_log2. apply N.log2_lt_pow2; [lia|]. eapply N.lt_le_trans; [exact Hx|].
    apply N.pow_le_mono_r; lia.
  - intros H. destruct (N.eq_dec x 0) as [->|Hn]. { apply N.neq_0_lt_0. apply N.pow_nonzero. lia. }
    apply N.log2_lt_pow2; [lia|]. destruct (N.lt_ge_cases (N.log2 x) n) as [L|L]; [assumption|].
    pose proof (N.bit_log2 _ Hn) as T. rewrite H in T by assumption. discriminate. Qed.

Lemma land_lt_pow2 x y n : y < 2 ^ n -> N.land x y < 2 ^ n.
Proof. rewrite !pow2_bits. intros H i Hi. rewrite N.land_spec, H by assumption. apply andb_false_r. Qed.

Lemma in_seqN256 x : In x (seqN 256) <-> x < 256.
Proof. rewrite in_seqN. lia. Qed.

(** * line tables *)
Definition line_sym (T : list (list N)) (key : N -> N) : bool :=
  forallb (fun a => forallb (fun st => let v := tbl2 T a st in forallb (fun b =>
    if N.testbit v b then (key b =? key a) && N.testbit (tbl2 T b st) a else true) (seqN 64)) (seqN 256)) (seqN 64).

Lemma line_sym_lift T key : line_sym T key = true -> forall a st b, a < 64 -> st < 256 -> b < 64 ->
  N.testbit (tbl2 T a st) b = true -> key b = key a /\ N.testbit (tbl2 T b st) a = true.
Proof. intros H a st b Ha Hst Hb Ht. unfold line_sym in H. rewrite forallb_forall in H.
  specialize (H a (proj2 (in_seqN64 a) Ha)). rewrite forallb_forall in H.
  specialize (H st (proj2 (in_seqN256 st) Hst)). cbv zeta in H. rewrite forallb_forall in H.
  specialize (H b (proj2 (in_seqN64 b) Hb)). rewrite Ht in H. apply andb_true_iff in H as [H1 H2].
  apply N.eqb_eq in H1. auto. Qed.

Definition key45L (s : N) : N := nthN g_off45L s 0 * 256 + nthN g_mask45L s 0.
Definition key45R (s : N) : N := nthN g_off45R s 0 * 256 + nthN g_mask45R s 0.

Lemma rank_sym : line_sym g_rookrank sq_rank = true. Proof. vm_compute. reflexivity. Qed.
Lemma file_sym : line_sym g_rookfile sq_file = true. Proof. vm_compute. reflexivity. Qed.
Lemma d45L_sym : line_sym g_bishopl key45L = true. Proof. vm_compute. reflexivity. Qed.
Lemma d45R_sym : line_sym g_bishopr key45R = true. Proof. vm_compute. reflexivity. Qed.

Lemma key45L_split a b : a < 64 -> b < 64 -> key45L b = key45L a ->
  nthN g_off45L b 0 = nthN g_off45L a 0 /\ nthN g_mask45L b 0 = nthN g_mask45L a 0.
Proof. intros Ha Hb E.
  assert (G : forallb (fun a => forallb (fun b => imp (key45L b =? key45L a)
     ((nthN g_off45L b 0 =? nthN g_off45L a 0) && (nthN g_mask45L b 0 =? nthN g_mask45L a 0))) (seqN 64)) (seqN 64) = true)
    by (vm_compute; reflexivity).
  apply N.eqb_eq in E. pose proof (imp_true _ _ (forall64_2 _ G a b Ha Hb) E) as G'.
  apply andb_true_iff in G' as [G1 G2]. apply N.eqb_eq in G1, G2. auto. Qed.

Lemma key45R_split a b : a < 64 -> b < 64 -> key45R b = key45R a ->
  nthN g_off45R b 0 = nthN g_off45R a 0 /\ nthN g_mask45R b 0 = nthN g_mask45R a 0.
Proof. intros Ha Hb E.
  assert (G : forallb (fun a => forallb (fun b => imp (key45R b =? key45R a)
     ((nthN g_off45R b 0 =? nthN g_off45R a 0) && (nthN g_mask45R b 0 =? nthN g_mask45R a 0))) (seqN 64)) (seqN 64) = true)
    by (vm_compute; reflexivity).
  apply N.eqb_eq in E. pose proof (imp_true _ _ (forall64_2 _ G a b Ha Hb) E) as G'.
  apply andb_true_iff in G' as [G1 G2]. apply N.eqb_eq in G1, G2. auto. Qed.

Lemma mask45_lt a : a < 64 -> nthN g_mask45L a 0 < 2 ^ 8 /\ nthN g_mask45R a 0 < 2 ^ 8.
Proof. intros Ha.
  assert (G : forallb (fun a => (nthN g_mask45L a 0 <? 256) && (nthN g_mask45R a 0 <? 256)) (seqN 64) = true)
    by (vm_compute; reflexivity).
  pose proof (forall64 _ G a Ha) as G'. cbv beta in G'. apply andb_true_iff in G' as [G1 G2].
  apply N.ltb_lt in G1, G2. change (2 ^ 8) with 256. auto. Qed.

(** * symmetry *)
Lemma rook_sym bb a b : a < 64 -> b < 64 ->
  N.testbit (rook_attackboard bb a) b = true -> N.testbit (rook_attackboard bb b) a = true.
Proof. intros Ha Hb. unfold rook_attackboard. cbv zeta. rewrite !N.lor_spec, !orb_true_iff. intros [H|H].
  - left. apply (line_sym_lift _ _ rank_sym) in H; try assumption.
    + destruct H as [E H]. now rewrite E.
    + change 255 with (N.ones 8). rewrite N.land_ones. apply N.mod_lt. discriminate.
  - right. apply (line_sym_lift _ _ file_sym) in H; try assumption.
    + destruct H as [E H]. now rewrite E.
    + change 255 with (N.ones 8). rewrite N.land_ones. apply N.mod_lt. discriminate. Qed.

Lemma bishop_sym bb a b : a < 64 -> b < 64 ->
  N.testbit (bishop_attackboard bb a) b = true -> N.testbit (bishop_attackboard bb b) a = true.
Proof. intros Ha Hb. unfold bishop_attackboard. cbv zeta. rewrite !N.lor_spec, !orb_true_iff. intros [H|H].
  - left. apply (line_sym_lift _ _ d45L_sym) in H; try assumption.
    + destruct H as [E H]. apply key45L_split in E as [E1 E2]; try assumption. now rewrite E1, E2.
    + change 256 with (2 ^ 8). apply land_lt_pow2. now apply mask45_lt.
  - right. apply (line_sym_lift _ _ d45R_sym) in H; try assumption.
    + destruct H as [E H]. apply key45R_split in E as [E1 E2]; try assumption. now rewrite E1, E2.
    + change 256 with (2 ^ 8). apply land_lt_pow2. now apply mask45_lt. Qed.

Lemma king_sym a b : a < 64 -> b < 64 ->
  N.testbit (king_attackboard a) b = true -> N.testbit (king_attackboard b) a = true.
Proof. intros Ha Hb H.
  assert (G : forallb (fun a => forallb (fun b => imp (N.testbit (king_attackboard a) b) (N.testbit (king_attackboard b) a)) (seqN 64)) (seqN 64) = true)
    by (vm_compute; reflexivity).
  exact (imp_true _ _ (forall64_2 _ G a b Ha Hb) H). Qed.

Lemma knight_sym a b : a < 64 -> b < 64 ->
  N.testbit (knight_attackboard a) b = true -> N.testbit (knight_attackboard b) a = true.
Proof. intros Ha Hb H.
  assert (G : forallb (fun a => forallb (fun b => imp (N.testbit (knight_attackboard a) b) (N.testbit (knight_attackboard b) a)) (seqN 64)) (seqN 64) = true)
    by (vm_compute; reflexivity).
  exact (imp_true _ _ (forall64_2 _ G a b Ha Hb) H). Qed.

Theorem attackboard_sym bb a b piece : a < 64 -> b < 64 ->
  N.testbit (attackboard bb a piece) b = true -> N.testbit (attackboard bb b piece) a = true.
Proof. intros Ha Hb. unfold attackboard.
  destruct (piece =? King); [now apply king_sym|].
  destruct (piece =? Queen).
  { unfold queen_attackboard. rewrite !N.lor_spec, !orb_true_iff. intros [H|H]; [left; now apply rook_sym | right; now apply bishop_sym]. }
  destruct (piece =? Rook); [now apply rook_sym|].
  destruct (piece =? Bishop); [now apply bishop_sym|].
  destruct (piece =? Knight); [now apply knight_sym|].
  rewrite N.bits_0. discriminate. Qed.

Print Assumptions attackboard_sym.

(* ------------------------------------------------------------------ *)
(** * no pseudo-legal move captures a king *)

Lemma land_nonzero x y i : N.testbit x i = true -> N.testbit y i = true -> (N.land x y =? 0) = false.
Proof. intros Hx Hy. apply N.eqb_neq. intros E. eapply (proj1 (land_zero_bits x y) E); eassumption. Qed.

Lemma nonzero_bit x i : N.testbit x i = true -> (x =? 0) = false.
Proof. intros H. apply N.eqb_neq. intros ->. rewrite N.bits_0 in H. discriminate. Qed.

Definition is_slider_or_step (piece : N) : Prop :=
  piece = King \/ piece = Queen \/ piece = Rook \/ piece = Knight \/ piece = Bishop.

Lemma attacked_by_piece p c k piece from : is_slider_or_step piece ->
  N.testbit (pget p (opponent c) piece) from = true ->
  N.testbit (attackboard (rotated_bb p) k piece) from = true -> is_attacked p c k = true.
Proof. intros Hp Hb Ha. unfold is_attacked, is_attacked_by. apply existsb_exists. exists piece. split.
  - unfold AllPieces. destruct Hp as [->|[->|[->|[->| ->]]]]; cbn; tauto.
  - assert (E : (piece =? Pawn) = false) by (destruct Hp as [->|[->|[->|[->| ->]]]]; reflexivity).
    rewrite E. cbv zeta. rewrite (nonzero_bit _ _ Hb), (land_nonzero _ _ _ Ha Hb). reflexivity. Qed.

Lemma attacked_by_pawn p c k : k < 64 ->
  N.testbit (pawn_captureboard (opponent c) (pget p (opponent c) Pawn)) k = true -> is_attacked p c k = true.
Proof. intros Hk Hb. unfold is_attacked, is_attacked_by. apply existsb_exists. exists Pawn. split.
  - cbn. tauto.
  - cbn [N.eqb Pawn Pos.eqb]. rewrite (land_nonzero _ _ k Hb); [reflexivity|].
    rewrite tb_bitmask, N.eqb_refl. destruct (N.ltb_spec k 64); [reflexivity | lia]. Qed.

Lemma king_unique b s : popcount b = 1 -> N.testbit b s = true -> ctz b = s.
Proof. intros Hp Hs. rewrite ctz_hd. rewrite popcount_length in Hp. apply bits_asc_spec in Hs.
  destruct (bits_asc b) as [|x [|y r]]; cbn [length] in Hp; try lia. destruct Hs as [->|[]]. reflexivity. Qed.

Lemma not_checked_no_attack p c s : Inv p -> popcount (pget p c King) = 1 -> is_checked p c = false ->
  N.testbit (pget p c King) s = true -> is_attacked p c s = false.
Proof. intros HI Hpc Hchk Hs. unfold is_checked in Hchk. cbv zeta in Hchk.
  rewrite (king_unique _ _ Hpc Hs) in Hchk.
  assert (Hlt : s < 64) by (eapply word_tb_lt; [apply (pget_word p c King HI)|exact Hs]).
  destruct (N.eqb_spec s 64); [lia|]. exact Hchk. Qed.

Theorem no_king_capture_piece p turn piece from to : Inv p -> vcol turn ->
  popcount (pget p (opponent turn) King) = 1 -> is_checked p (opponent turn) = false ->
  is_slider_or_step piece -> from < 64 ->
  N.testbit (pget p turn piece) from = true ->
  N.testbit (attackboard (rotated_bb p) from piece) to = true ->
  N.testbit (pget p (opponent turn) King) to = true -> False.
Proof. intros HI Ht Hpc Hchk Hp Hf Hb Ha Hk.
  assert (Hto : to < 64) by (eapply word_tb_lt; [apply (pget_word p (opponent turn) King HI)|exact Hk]).
  pose proof (not_checked_no_attack _ _ _ HI Hpc Hchk Hk) as Hna.
  rewrite (attacked_by_piece p (opponent turn) to piece from Hp) in Hna; [discriminate| |].
  - now rewrite opponent_invol.
  - now apply attackboard_sym. Qed.

Lemma tb_shr64 x k i : N.testbit (shr64 x k) i = N.testbit x (i + k).
Proof. apply N.shiftr_spec'. Qed.

Lemma pawn_cap_mono turn pawns from to : vcol turn -> from < 64 -> N.testbit pawns from = true ->
  N.testbit (pawn_captureboard turn (bitmask from)) to = true ->
  N.testbit (pawn_captureboard turn pawns) to = true.
Proof. intros Ht Hf Hp. unfold pawn_captureboard, andnot.
  destruct Ht as [->| ->]; cbn [N.eqb White Pos.eqb]; rewrite !N.lor_spec, !N.ldiff_spec, ?tb_shl64, ?tb_shr64, !tb_bitmask.
  - destruct (N.eqb_spec (to - 9) from) as [E|E]; [rewrite E, Hp|]; (destruct (N.eqb_spec (to - 7) from) as [E'|E']; [rewrite E', Hp|]);
    generalize (N.testbit pawns (to - 9)), (N.testbit pawns (to - 7)), (N.testbit (bitfile FileH) to), (N.testbit (bitfile FileA) to);
    intros b1 b2 b3 b4; lia.
  - destruct (N.eqb_spec (to + 9) from) as [E|E]; [rewrite E, Hp|]; (destruct (N.eqb_spec (to + 7) from) as [E'|E']; [rewrite E', Hp|]);
    generalize (N.testbit pawns (to + 9)), (N.testbit pawns (to + 7)), (N.testbit (bitfile FileH) to), (N.testbit (bitfile FileA) to);
    intros b1 b2 b3 b4; lia. Qed.

Theorem no_king_capture_pawn p turn from to : Inv p -> vcol turn ->
  popcount (pget p (opponent turn) King) = 1 -> is_checked p (opponent turn) = false -> from < 64 ->
  N.testbit (pget p turn Pawn) from = true ->
  N.testbit (pawn_captureboard turn (bitmask from)) to = true ->
  N.testbit (pget p (opponent turn) King) to = true -> False.
Proof. intros HI Ht Hpc Hchk Hf Hb Ha Hk.
  assert (Hto : to < 64) by (eapply word_tb_lt; [apply (pget_word p (opponent turn) King HI)|exact Hk]).
  pose proof (not_checked_no_attack _ _ _ HI Hpc Hchk Hk) as Hna.
  rewrite (attacked_by_pawn p (opponent turn) to Hto) in Hna; [discriminate|].
  rewrite opponent_invol by assumption. now apply (pawn_cap_mono turn _ from). Qed.

Print Assumptions no_king_capture_piece.
Print Assumptions no_king_capture_pawn.
