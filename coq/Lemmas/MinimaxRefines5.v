(** MinimaxRefines, part 5: the specification's move list has no repetition - [NoDup (spec_legal p c)] for
    EVERY specification position (no well-formedness needed) - hence the accepted pseudo-legal moves of a
    related board, mapped by [abs_move], are a PERMUTATION of [spec_legal] ([legal_permutation]).

    Rays: a ray under any occupancy is a prefix of the ray on the empty board; the targets on the empty board
    are repetition-free by a sweep over the 64 squares.  Pawns: the (at most four) destination squares are
    distinct (sweep over square, colour and the two emptiness tests).  Moves from different squares differ in
    [sfrom]; a castling move is no king step. *)
From Coq Require Import ZArith List Bool Arith Lia Permutation.
From Morlock.Model Require Import Bits Attacks Move Position Zobrist Board Abs.
From Morlock.Spec Require Import Chess Game.
From Morlock.Lemmas Require Import AttackGeometry2 AttackGeometry3 MoveGen8 BoardHeap1 SearchContract SearchBoardInst1
     MinimaxRefines2.
Import ListNotations.
Open Scope Z_scope.

(** * list facts *)
Fixpoint nodupn (l : list nat) : bool :=
  match l with [] => true | x :: r => negb (mem_nat x r) && nodupn r end.
Lemma nodupn_ok l : nodupn l = true -> NoDup l.
Proof.
  induction l as [|x r IH]; cbn [nodupn]; intros H; [constructor|].
  apply andb_true_iff in H as [H1 H2]. constructor; [|apply IH; exact H2].
  intro Hin. apply mem_nat_In in Hin. rewrite Hin in H1. discriminate H1.
Qed.

Lemma NoDup_app_l {A} (l1 l2 : list A) : NoDup (l1 ++ l2) -> NoDup l1.
Proof.
  induction l1 as [|a l1 IH]; intros H; [constructor|]. cbn [app] in H. inversion H as [|x xs Hnot ND]; subst.
  constructor; [|apply IH; exact ND]. intro Hin. apply Hnot. apply in_or_app. left; exact Hin.
Qed.
Lemma NoDup_app_r {A} (l1 l2 : list A) : NoDup (l1 ++ l2) -> NoDup l2.
Proof. induction l1 as [|a l1 IH]; intros H; [exact H|]. cbn [app] in H. inversion H; subst. apply IH. assumption. Qed.
Lemma NoDup_app_disj {A} (l1 l2 : list A) x : NoDup (l1 ++ l2) -> In x l1 -> In x l2 -> False.
Proof.
  induction l1 as [|a l1 IH]; intros H H1 H2; [destruct H1|]. cbn [app] in H. inversion H as [|y ys Hnot ND]; subst.
  destruct H1 as [->|H1]; [apply Hnot; apply in_or_app; right; exact H2|apply IH; assumption].
Qed.

Lemma NoDup_flat_prefix {A B} (F G : A -> list B) l : (forall x, exists rest, F x = G x ++ rest) ->
  NoDup (flat_map F l) -> NoDup (flat_map G l).
Proof.
  intros HP. induction l as [|a l IH]; cbn [flat_map]; intros H; [constructor|].
  destruct (HP a) as [rest Ea].
  assert (Hincl : forall x, In x (flat_map G l) -> In x (flat_map F l)).
  { intros x Hx. apply in_flat_map in Hx as (y & Hy & Hx). apply in_flat_map. exists y. split; [exact Hy|].
    destruct (HP y) as [ry Ey]. rewrite Ey. apply in_or_app. left; exact Hx. }
  apply NoDup_app_intro.
  - apply NoDup_app_l in H. rewrite Ea in H. apply NoDup_app_l in H. exact H.
  - apply IH. apply NoDup_app_r in H. exact H.
  - intros x H1 H2. apply (NoDup_app_disj _ _ x H); [rewrite Ea; apply in_or_app; left; exact H1|apply Hincl; exact H2].
Qed.

Lemma flat_map_snd_map {A B} (F : A -> list B) l : flat_map snd (map (fun t => (t, F t)) l) = flat_map F l.
Proof. induction l as [|a l IH]; [reflexivity|]. cbn [map flat_map snd]. rewrite IH. reflexivity. Qed.
Lemma map_fst_map {A B} (F : A -> B) l : map fst (map (fun t => (t, F t)) l) = l.
Proof. induction l as [|a l IH]; [reflexivity|]. cbn [map fst]. rewrite IH. reflexivity. Qed.

(** * attack targets are repetition-free *)
Definition nocc : nat -> bool := fun _ => false.

Lemma ray_prefix occ df dr n : forall f r, exists rest, ray nocc f r df dr n = ray occ f r df dr n ++ rest.
Proof.
  induction n as [|n IH]; intros f r; cbn [ray]; [exists []; reflexivity|]. cbv zeta.
  destruct (on_board (f + df) (r + dr)); [|exists []; reflexivity].
  change (nocc (sq_of (f + df) (r + dr))) with false. cbv iota.
  destruct (occ (sq_of (f + df) (r + dr))).
  - exists (ray nocc (f + df) (r + dr) df dr n). reflexivity.
  - destruct (IH (f + df) (r + dr)) as [rest E]. exists rest. rewrite E. reflexivity.
Qed.

Lemma slide_empty_tab : forallb (fun s => nodupn (slide_targets nocc s (rook_dirs ++ bishop_dirs)) &&
                                         nodupn (slide_targets nocc s rook_dirs) &&
                                         nodupn (slide_targets nocc s bishop_dirs)) all_squares = true.
Proof. vm_compute. reflexivity. Qed.

Lemma slide_nodup occ s dirs : (s < 64)%nat ->
  dirs = rook_dirs ++ bishop_dirs \/ dirs = rook_dirs \/ dirs = bishop_dirs -> NoDup (slide_targets occ s dirs).
Proof.
  intros Hs Hd. unfold slide_targets.
  apply (NoDup_flat_prefix (fun d => ray nocc (file_of s) (rank_of s) (fst d) (snd d) 7)).
  - intros d. apply ray_prefix.
  - pose proof slide_empty_tab as T. rewrite forallb_forall in T. specialize (T s (proj2 (in_all_squares s) Hs)).
    apply andb_true_iff in T as [T T3]. apply andb_true_iff in T as [T1 T2].
    destruct Hd as [->|[->| ->]]; apply nodupn_ok; assumption.
Qed.

Lemma step_tab : forallb (fun s => nodupn (step_targets s knight_offsets) && nodupn (step_targets s king_offsets)) all_squares = true.
Proof. vm_compute. reflexivity. Qed.

(** pawns: the destination squares of the groups push / double step / the two captures *)
Definition pawn_keys (c : color) (s : nat) (x1 x2 : bool) : list nat :=
  let f := file_of s in let r := rank_of s in let d := pawn_dir c in
  (if on_board f (r + d) && x1 then [sq_of f (r + d)] else []) ++
  (if (r =? start_rank c) && x1 && x2 then [sq_of f (r + 2 * d)] else []) ++
  step_targets s [(1, d); (-1, d)].
Lemma pawn_keys_tab : forallb (fun s => forallb (fun c => forallb (fun x1 => forallb (fun x2 =>
    nodupn (pawn_keys c s x1 x2)) [true; false]) [true; false]) [Wh; Bl]) all_squares = true.
Proof. vm_compute. reflexivity. Qed.
Lemma pawn_keys_nodup c s x1 x2 : (s < 64)%nat -> NoDup (pawn_keys c s x1 x2).
Proof.
  intros Hs. pose proof pawn_keys_tab as T. rewrite forallb_forall in T. specialize (T s (proj2 (in_all_squares s) Hs)).
  rewrite forallb_forall in T. specialize (T c ltac:(destruct c; cbn; auto)).
  rewrite forallb_forall in T. specialize (T x1 ltac:(destruct x1; cbn; auto)).
  rewrite forallb_forall in T. specialize (T x2 ltac:(destruct x2; cbn; auto)).
  apply nodupn_ok. exact T.
Qed.

Lemma attacks_nodup occ c k s : (s < 64)%nat -> k <> P -> NoDup (attacks_from occ c k s).
Proof.
  intros Hs Hk. pose proof step_tab as T. rewrite forallb_forall in T. specialize (T s (proj2 (in_all_squares s) Hs)).
  apply andb_true_iff in T as [T1 T2].
  destruct k; cbn [attacks_from]; try (apply slide_nodup; auto); try (apply nodupn_ok; assumption).
  contradiction.
Qed.

(** * the moves of one piece *)
Lemma promo_kinds_nodup : NoDup promo_kinds.
Proof. unfold promo_kinds. repeat constructor; cbn; intuition discriminate. Qed.

Lemma pawn_moves_to_spec c s t : NoDup (pawn_moves_to c s t) /\
  forall y, In y (pawn_moves_to c s t) -> sto y = t /\ sfrom y = s.
Proof.
  unfold pawn_moves_to. destruct (rank_of t =? last_rank c).
  - split.
    + apply NoDup_map_inj_in; [|apply promo_kinds_nodup]. intros x y _ _ E. inversion E. reflexivity.
    + intros y Hy. apply in_map_iff in Hy as (k & <- & _). auto.
  - split; [repeat constructor; intros []|]. intros y [<-|[]]. auto.
Qed.

Definition capg (p : spos) (c : color) (s t : nat) : list smove :=
  if is_color (brd p) (other c) t then pawn_moves_to c s t
  else match eps p with
       | Some e => if Nat.eqb e t then [mkSmove s t None] else []
       | None => []
       end.
Lemma capg_spec p c s t : NoDup (capg p c s t) /\ forall y, In y (capg p c s t) -> sto y = t /\ sfrom y = s.
Proof.
  unfold capg. destruct (is_color (brd p) (other c) t); [apply pawn_moves_to_spec|].
  destruct (eps p) as [e|]; [|split; [constructor|intros y []]].
  destruct (Nat.eqb e t); [|split; [constructor|intros y []]].
  split; [repeat constructor; intros []|]. intros y [<-|[]]. auto.
Qed.

Definition pawn_groups (p : spos) (c : color) (s : nat) : list (nat * list smove) :=
  let b := brd p in let f := file_of s in let r := rank_of s in let d := pawn_dir c in
  (if on_board f (r + d) && negb (occupied b (sq_of f (r + d))) then [(sq_of f (r + d), pawn_moves_to c s (sq_of f (r + d)))] else []) ++
  (if (r =? start_rank c) && negb (occupied b (sq_of f (r + d))) && negb (occupied b (sq_of f (r + 2 * d)))
   then [(sq_of f (r + 2 * d), [mkSmove s (sq_of f (r + 2 * d)) None])] else []) ++
  map (fun t => (t, capg p c s t)) (step_targets s [(1, d); (-1, d)]).

Lemma pawn_groups_moves p c s : piece_moves p c P s = flat_map snd (pawn_groups p c s).
Proof.
  unfold piece_moves, pawn_groups. cbv zeta. rewrite !flat_map_app, flat_map_snd_map.
  cbn [attacks_from]. fold (capg p c s).
  f_equal; [|f_equal].
  - destruct (on_board _ _ && _); cbn [flat_map snd]; [rewrite app_nil_r|]; reflexivity.
  - destruct (_ && _ && _); cbn [flat_map snd app]; reflexivity.
Qed.

Lemma pawn_groups_keys p c s : map fst (pawn_groups p c s) =
  pawn_keys c s (negb (occupied (brd p) (sq_of (file_of s) (rank_of s + pawn_dir c))))
                (negb (occupied (brd p) (sq_of (file_of s) (rank_of s + 2 * pawn_dir c)))).
Proof.
  unfold pawn_groups, pawn_keys. cbv zeta. rewrite !map_app, map_fst_map.
  f_equal; [|f_equal].
  - destruct (on_board _ _ && _); reflexivity.
  - destruct (_ && _ && _); reflexivity.
Qed.

Lemma pawn_groups_spec p c s g : In g (pawn_groups p c s) ->
  NoDup (snd g) /\ forall y, In y (snd g) -> sto y = fst g /\ sfrom y = s.
Proof.
  unfold pawn_groups. cbv zeta. intros H. apply in_app_or in H as [H|H]; [|apply in_app_or in H as [H|H]].
  - destruct (on_board _ _ && _); [|destruct H]. destruct H as [<-|[]]. cbn [fst snd]. apply pawn_moves_to_spec.
  - destruct (_ && _ && _); [|destruct H]. destruct H as [<-|[]]. cbn [fst snd].
    split; [repeat constructor; intros []|]. intros y [<-|[]]. auto.
  - apply in_map_iff in H as (t & <- & _). cbn [fst snd]. apply capg_spec.
Qed.

Lemma piece_moves_nodup p c k s : (s < 64)%nat -> NoDup (piece_moves p c k s).
Proof.
  intros Hs. destruct (kind_eqb k P) eqn:Ek.
  - assert (k = P) as -> by (destruct k; try discriminate Ek; reflexivity).
    rewrite pawn_groups_moves.
    apply (NoDup_flat_map_key fst sto snd).
    + rewrite pawn_groups_keys. apply pawn_keys_nodup. exact Hs.
    + intros g Hg. apply (pawn_groups_spec p c s g Hg).
    + intros g y Hg Hy. apply (pawn_groups_spec p c s g Hg). exact Hy.
  - assert (Hk : k <> P) by (intros ->; discriminate Ek).
    assert (E : piece_moves p c k s = map (fun t => mkSmove s t None)
                  (filter (fun t => negb (is_color (brd p) c t)) (attacks_from (occupied (brd p)) c k s)))
      by (destruct k; try reflexivity; contradiction).
    rewrite E. apply NoDup_map_inj_in; [intros x y _ _ H; inversion H; reflexivity|].
    apply NoDup_filter. apply attacks_nodup; assumption.
Qed.

Lemma piece_moves_from p c k s y : In y (piece_moves p c k s) -> sfrom y = s.
Proof.
  destruct (kind_eqb k P) eqn:Ek.
  - assert (k = P) as -> by (destruct k; try discriminate Ek; reflexivity).
    rewrite pawn_groups_moves. intros H. apply in_flat_map in H as (g & Hg & Hy).
    apply (pawn_groups_spec p c s g Hg). exact Hy.
  - assert (Hk : k <> P) by (intros ->; discriminate Ek).
    assert (E : piece_moves p c k s = map (fun t => mkSmove s t None)
                  (filter (fun t => negb (is_color (brd p) c t)) (attacks_from (occupied (brd p)) c k s)))
      by (destruct k; try reflexivity; contradiction).
    rewrite E. intros H. apply in_map_iff in H as (t & <- & _). reflexivity.
Qed.

(** * all candidates *)
Definition sq_moves (p : spos) (c : color) (s : nat) : list smove :=
  match at_ (brd p) s with
  | Some (c', k) => if color_eqb c c' then piece_moves p c k s else []
  | None => []
  end.

Lemma sq_moves_nodup p c s : (s < 64)%nat -> NoDup (sq_moves p c s).
Proof.
  intros Hs. unfold sq_moves. destruct (at_ (brd p) s) as [[c' k]|]; [|constructor].
  destruct (color_eqb c c'); [apply piece_moves_nodup; exact Hs|constructor].
Qed.
Lemma sq_moves_from p c s y : In y (sq_moves p c s) -> sfrom y = s.
Proof.
  unfold sq_moves. destruct (at_ (brd p) s) as [[c' k]|]; [|intros []].
  destruct (color_eqb c c'); [apply piece_moves_from|intros []].
Qed.

Lemma king_steps_tab : forallb (fun ks => negb (mem_nat (ks - 2) (step_targets ks king_offsets)) &&
                                          negb (mem_nat (ks + 2) (step_targets ks king_offsets))) [e1; e8] = true.
Proof. vm_compute. reflexivity. Qed.

(** a castling candidate is not among the piece moves: the piece on the king's square is the king, and the
    destination is two files away *)
Lemma castle_one_spec p c (right : bool) ks rs between transit dst y :
  (ks = e1 \/ ks = e8) -> (dst = ks - 2 \/ dst = ks + 2)%nat ->
  In y (if right && (match at_ (brd p) ks with Some (c', K) => color_eqb c c' | _ => false end)
                 && (match at_ (brd p) rs with Some (c', R) => color_eqb c c' | _ => false end)
                 && forallb (fun s => negb (occupied (brd p) s)) between
                 && negb (attacked (brd p) (other c) ks) && negb (attacked (brd p) (other c) transit)
        then [mkSmove ks dst None] else []) ->
  y = mkSmove ks dst None /\ ~ In y (flat_map (sq_moves p c) all_squares).
Proof.
  intros Hks Hdst H.
  destruct (right && _ && _ && _ && _ && _) eqn:E; [|destruct H]. destruct H as [<-|[]]. split; [reflexivity|].
  repeat (apply andb_true_iff in E as [E ?]).
  intros Hin. apply in_flat_map in Hin as (s & _ & Hy).
  pose proof (sq_moves_from p c s _ Hy) as Es. cbn [sfrom] in Es. subst s.
  unfold sq_moves in Hy. destruct (at_ (brd p) ks) as [[c' k]|]; [|discriminate].
  destruct k; try discriminate. destruct (color_eqb c c'); [|discriminate].
  cbn [piece_moves] in Hy. apply in_map_iff in Hy as (t & Et & Ht). inversion Et; subst t.
  apply filter_In in Ht as [Ht _]. cbn [attacks_from] in Ht.
  pose proof king_steps_tab as T. rewrite forallb_forall in T. specialize (T ks ltac:(destruct Hks as [->| ->]; cbn; auto)).
  apply andb_true_iff in T as [T1 T2]. apply mem_nat_In in Ht.
  destruct Hdst as [->| ->]; [rewrite Ht in T1; discriminate T1|rewrite Ht in T2; discriminate T2].
Qed.

Theorem candidates_nodup p c : NoDup (candidates p c).
Proof.
  unfold candidates. fold (sq_moves p c).
  change (flat_map (fun s => sq_moves p c s) all_squares) with (flat_map (sq_moves p c) all_squares).
  assert (HM : NoDup (flat_map (sq_moves p c) all_squares)).
  { apply (NoDup_flat_map_key (fun s => s) sfrom).
    - rewrite map_id. apply seq_NoDup.
    - intros s Hs. apply sq_moves_nodup. apply in_all_squares. exact Hs.
    - intros s y _ Hy. apply (sq_moves_from p c s y Hy). }
  assert (HC : NoDup (castle_moves p c) /\ forall y, In y (castle_moves p c) -> ~ In y (flat_map (sq_moves p c) all_squares)).
  { unfold castle_moves. cbv zeta. destruct c.
    - split.
      + apply NoDup_app_intro.
        * destruct (_ && _ && _ && _ && _ && _); repeat constructor; intros [].
        * destruct (_ && _ && _ && _ && _ && _); repeat constructor; intros [].
        * intros y H1 H2.
          destruct (castle_one_spec p Wh _ e1 h1 _ f1 g1 y ltac:(left; reflexivity) ltac:(left; reflexivity) H1) as [-> _].
          destruct (castle_one_spec p Wh _ e1 a1 _ d1 c1 _ ltac:(left; reflexivity) ltac:(right; reflexivity) H2) as [E _].
          discriminate E.
      + intros y H. apply in_app_or in H as [H|H].
        * apply (castle_one_spec p Wh _ e1 h1 _ f1 g1 y ltac:(left; reflexivity) ltac:(left; reflexivity) H).
        * apply (castle_one_spec p Wh _ e1 a1 _ d1 c1 y ltac:(left; reflexivity) ltac:(right; reflexivity) H).
    - split.
      + apply NoDup_app_intro.
        * destruct (_ && _ && _ && _ && _ && _); repeat constructor; intros [].
        * destruct (_ && _ && _ && _ && _ && _); repeat constructor; intros [].
        * intros y H1 H2.
          destruct (castle_one_spec p Bl _ e8 h8 _ f8 g8 y ltac:(right; reflexivity) ltac:(left; reflexivity) H1) as [-> _].
          destruct (castle_one_spec p Bl _ e8 a8 _ d8 c8 _ ltac:(right; reflexivity) ltac:(right; reflexivity) H2) as [E _].
          discriminate E.
      + intros y H. apply in_app_or in H as [H|H].
        * apply (castle_one_spec p Bl _ e8 h8 _ f8 g8 y ltac:(right; reflexivity) ltac:(left; reflexivity) H).
        * apply (castle_one_spec p Bl _ e8 a8 _ d8 c8 y ltac:(right; reflexivity) ltac:(right; reflexivity) H). }
  destruct HC as [HC1 HC2]. apply NoDup_app_intro; [exact HM|exact HC1|].
  intros y H1 H2. exact (HC2 y H2 H1).
Qed.

Theorem spec_legal_nodup p c : NoDup (spec_legal p c).
Proof. unfold spec_legal. apply NoDup_filter. apply candidates_nodup. Qed.

(** * the permutation *)
Theorem legal_permutation z p g : RG z p g ->
  Permutation (map abs_move (filter (legalb aboard (bchild z) p) (bmoves p))) (spec_legal (g_pos g) (g_turn g)).
Proof. intros HRG. apply legal_perm; [exact HRG|apply spec_legal_nodup]. Qed.

Print Assumptions spec_legal_nodup.
Print Assumptions legal_permutation.
