(** EnginesLemmas7 — C20, part 6c: attack queries commute with the colour mirror.
    Specification side (pure geometry: file unchanged, rank r -> 7 - r, pawn direction swapped with the colour),
    then transfer to the bit-level [is_attacked] through [is_attacked_iff]. *)
From Coq Require Import NArith ZArith List Bool Lia ZifyBool ZifyNat ZifyN.
From Morlock.Model Require Import Bits Attacks Move Position Abs Search Fen Engines.
From Morlock.Spec Require Import Chess.
From Morlock.Lemmas Require Import PositionLemmas AttackGeometry3 MoveGen2 EnginesLemmas3 EnginesLemmas5 EnginesLemmas6.
Import ListNotations.
Open Scope Z_scope.

(* ------------------------------------------------------------------ *)
(** * coordinates *)

Lemma file_rank_mirror_b :
  forallb (fun s => (file_of (mirror_nat s) =? file_of s) && (rank_of (mirror_nat s) =? 7 - rank_of s)) (seq 0 64) = true.
Proof. vm_compute. reflexivity. Qed.

Lemma file_rank_mirror s : (s < 64)%nat -> file_of (mirror_nat s) = file_of s /\ rank_of (mirror_nat s) = 7 - rank_of s.
Proof.
  intros Hs. pose proof file_rank_mirror_b as H. rewrite forallb_forall in H.
  assert (Hin : In s (seq 0 64)) by (apply in_seq; lia).
  specialize (H s Hin). apply andb_true_iff in H as [H1 H2]. split; now apply Z.eqb_eq.
Qed.

Lemma on_board_mirror f r : on_board f (7 - r) = on_board f r.
Proof. unfold on_board. apply bool_eq_iff. rewrite !andb_true_iff, !Z.leb_le, !Z.ltb_lt. lia. Qed.

Lemma on_board_lt f r : on_board f r = true -> (sq_of f r < 64)%nat.
Proof. unfold on_board, sq_of. rewrite !andb_true_iff, !Z.leb_le, !Z.ltb_lt. lia. Qed.

Lemma sq_of_mirror f r : on_board f r = true -> sq_of f (7 - r) = mirror_nat (sq_of f r).
Proof.
  unfold on_board. rewrite !andb_true_iff, !Z.leb_le, !Z.ltb_lt. intros [[[H1 H2] H3] H4].
  assert (Hf : f = 0 \/ f = 1 \/ f = 2 \/ f = 3 \/ f = 4 \/ f = 5 \/ f = 6 \/ f = 7) by lia.
  assert (Hr : r = 0 \/ r = 1 \/ r = 2 \/ r = 3 \/ r = 4 \/ r = 5 \/ r = 6 \/ r = 7) by lia.
  destruct Hf as [-> |[-> |[-> |[-> |[-> |[-> |[-> | -> ]]]]]]];
  destruct Hr as [-> |[-> |[-> |[-> |[-> |[-> |[-> | -> ]]]]]]]; reflexivity.
Qed.

Lemma mirror_nat_inj a b : mirror_nat a = mirror_nat b -> a = b.
Proof. intros H. rewrite <- (mirror_nat_invol a), H. apply mirror_nat_invol. Qed.

Lemma mem_nat_in t l : mem_nat t l = true <-> In t l.
Proof.
  unfold mem_nat. rewrite existsb_exists. split.
  - intros [x [Hx E]]. apply Nat.eqb_eq in E. now subst.
  - intros H. exists t. split; [exact H|apply Nat.eqb_refl].
Qed.

Lemma mem_nat_map_mirror t l : mem_nat (mirror_nat t) (map mirror_nat l) = mem_nat t l.
Proof.
  apply bool_eq_iff. rewrite !mem_nat_in, in_map_iff. split.
  - intros [x [E Hx]]. apply mirror_nat_inj in E. now subst.
  - intros H. now exists t.
Qed.

Lemma mem_flat_map_same {A} (g : A -> list nat) l l' t : (forall x, In x l <-> In x l') ->
  mem_nat t (flat_map g l) = mem_nat t (flat_map g l').
Proof.
  intros H. apply bool_eq_iff. rewrite !mem_nat_in, !in_flat_map.
  split; intros [x [Hx Ht]]; exists x; (split; [now apply H|exact Ht]).
Qed.

(* ------------------------------------------------------------------ *)
(** * rays and steps *)

Definition negdr (o : Z * Z) : Z * Z := (fst o, - snd o).

Section Geometry.
  Variables occ occ' : nat -> bool.
  Hypothesis Hocc : forall x, (x < 64)%nat -> occ' (mirror_nat x) = occ x.

  Lemma ray_mirror df dr : forall n f r,
    ray occ' f (7 - r) df (- dr) n = map mirror_nat (ray occ f r df dr n).
  Proof.
    induction n as [|n IH]; intros f r; [reflexivity|]. cbn [ray].
    replace (7 - r + - dr) with (7 - (r + dr)) by lia.
    rewrite on_board_mirror. destruct (on_board (f + df) (r + dr)) eqn:E; [|reflexivity].
    rewrite (sq_of_mirror _ _ E), (Hocc _ (on_board_lt _ _ E)).
    destruct (occ (sq_of (f + df) (r + dr))); cbn [map]; [reflexivity|]. f_equal. apply IH.
  Qed.

  Lemma slide_targets_mirror s dirs : (s < 64)%nat ->
    slide_targets occ' (mirror_nat s) (map negdr dirs) = map mirror_nat (slide_targets occ s dirs).
  Proof.
    intros Hs. destruct (file_rank_mirror s Hs) as [Ef Er]. unfold slide_targets. rewrite Ef, Er.
    induction dirs as [|d dirs IH]; [reflexivity|]. cbn [map flat_map]. rewrite map_app, <- IH. f_equal.
    unfold negdr. cbn [fst snd]. apply ray_mirror.
  Qed.

  Lemma step_targets_mirror s offs : (s < 64)%nat ->
    step_targets (mirror_nat s) (map negdr offs) = map mirror_nat (step_targets s offs).
  Proof.
    intros Hs. destruct (file_rank_mirror s Hs) as [Ef Er]. unfold step_targets. rewrite Ef, Er.
    induction offs as [|o offs IH]; [reflexivity|]. cbn [map flat_map]. rewrite map_app, <- IH. f_equal.
    unfold negdr. cbn [fst snd]. replace (7 - rank_of s + - snd o) with (7 - (rank_of s + snd o)) by lia.
    rewrite on_board_mirror. destruct (on_board (file_of s + fst o) (rank_of s + snd o)) eqn:E; [|reflexivity].
    cbn [map]. now rewrite (sq_of_mirror _ _ E).
  Qed.

  Lemma same_knight x : In x knight_offsets <-> In x (map negdr knight_offsets).
  Proof. unfold knight_offsets, negdr. cbn [map fst snd Z.opp In]. tauto. Qed.
  Lemma same_king x : In x king_offsets <-> In x (map negdr king_offsets).
  Proof. unfold king_offsets, negdr. cbn [map fst snd Z.opp In]. tauto. Qed.
  Lemma same_rook x : In x rook_dirs <-> In x (map negdr rook_dirs).
  Proof. unfold rook_dirs, negdr. cbn [map fst snd Z.opp In]. tauto. Qed.
  Lemma same_bishop x : In x bishop_dirs <-> In x (map negdr bishop_dirs).
  Proof. unfold bishop_dirs, negdr. cbn [map fst snd Z.opp In]. tauto. Qed.
  Lemma same_queen x : In x (rook_dirs ++ bishop_dirs) <-> In x (map negdr (rook_dirs ++ bishop_dirs)).
  Proof. unfold rook_dirs, bishop_dirs, negdr. cbn [app map fst snd Z.opp In]. tauto. Qed.

  (** the squares attacked from the mirrored square by the same kind of piece of the other colour are the
      mirror images *)
  Theorem attacks_from_mirror c k s t : (s < 64)%nat ->
    mem_nat (mirror_nat t) (attacks_from occ' (other c) k (mirror_nat s)) = mem_nat t (attacks_from occ c k s).
  Proof.
    intros Hs. destruct k; cbn [attacks_from].
    - (* pawn *)
      replace [(1, pawn_dir (other c)); (-1, pawn_dir (other c))] with (map negdr [(1, pawn_dir c); (-1, pawn_dir c)])
        by (destruct c; reflexivity).
      rewrite (step_targets_mirror s _ Hs). apply mem_nat_map_mirror.
    - unfold slide_targets at 1. rewrite (mem_flat_map_same _ _ _ _ same_bishop).
      fold (slide_targets occ' (mirror_nat s) (map negdr bishop_dirs)).
      rewrite (slide_targets_mirror s _ Hs). apply mem_nat_map_mirror.
    - unfold step_targets at 1. rewrite (mem_flat_map_same _ _ _ _ same_knight).
      fold (step_targets (mirror_nat s) (map negdr knight_offsets)).
      rewrite (step_targets_mirror s _ Hs). apply mem_nat_map_mirror.
    - unfold slide_targets at 1. rewrite (mem_flat_map_same _ _ _ _ same_rook).
      fold (slide_targets occ' (mirror_nat s) (map negdr rook_dirs)).
      rewrite (slide_targets_mirror s _ Hs). apply mem_nat_map_mirror.
    - unfold slide_targets at 1. rewrite (mem_flat_map_same _ _ _ _ same_queen).
      fold (slide_targets occ' (mirror_nat s) (map negdr (rook_dirs ++ bishop_dirs))).
      rewrite (slide_targets_mirror s _ Hs). apply mem_nat_map_mirror.
    - unfold step_targets at 1. rewrite (mem_flat_map_same _ _ _ _ same_king).
      fold (step_targets (mirror_nat s) (map negdr king_offsets)).
      rewrite (step_targets_mirror s _ Hs). apply mem_nat_map_mirror.
  Qed.
End Geometry.

(* ------------------------------------------------------------------ *)
(** * attacked *)

Lemma occupied_mirror_board b x : (x < 64)%nat -> occupied (mirror_board b) (mirror_nat x) = occupied b x.
Proof.
  intros Hx. unfold occupied. rewrite (at_mirror_board b _ (mirror_nat_lt x Hx)), mirror_nat_invol.
  destruct (at_ b x) as [[c k]|]; reflexivity.
Qed.

Lemma color_eqb_other_other a b : color_eqb (other a) (other b) = color_eqb a b.
Proof. destruct a, b; reflexivity. Qed.

Lemma existsb_mirror (g : nat -> bool) : existsb (fun s => g (mirror_nat s)) all_squares = existsb g all_squares.
Proof.
  apply bool_eq_iff. rewrite !existsb_exists. split.
  - intros [s [Hs H]]. exists (mirror_nat s). split; [|exact H]. apply in_all_squares, mirror_nat_lt. now apply in_all_squares.
  - intros [s [Hs H]]. exists (mirror_nat s). split; [apply in_all_squares, mirror_nat_lt; now apply in_all_squares|].
    now rewrite mirror_nat_invol.
Qed.

Lemma existsb_ext_in {A} (f g : A -> bool) l : (forall x, In x l -> f x = g x) -> existsb f l = existsb g l.
Proof.
  induction l as [|a l IH]; intros H; [reflexivity|]. cbn [existsb].
  rewrite (H a (or_introl eq_refl)), IH; [reflexivity|]. intros x Hx. apply H. now right.
Qed.

(** the specification's [attacked] commutes with the mirror *)
Theorem attacked_mirror b c t : attacked (mirror_board b) (other c) (mirror_nat t) = attacked b c t.
Proof.
  unfold attacked.
  set (G := fun s' => match at_ b s' with
                      | Some (c', k) => color_eqb c' c && mem_nat t (attacks_from (occupied b) c' k s')
                      | None => false end).
  rewrite <- (existsb_mirror G). apply existsb_ext_in. intros s Hs. apply in_all_squares in Hs.
  rewrite (at_mirror_board b s Hs). unfold G.
  destruct (at_ b (mirror_nat s)) as [[c' k]|]; [|reflexivity]. cbn [mirror_cell].
  rewrite color_eqb_other_other. f_equal.
  rewrite <- (mirror_nat_invol s) at 1.
  apply (attacks_from_mirror (occupied b) (occupied (mirror_board b)) (occupied_mirror_board b) c' k (mirror_nat s) t).
  now apply mirror_nat_lt.
Qed.

(* ------------------------------------------------------------------ *)
(** * transfer to the bit level *)

Open Scope N_scope.

Lemma other_other c : other (other c) = c.
Proof. now destruct c. Qed.

(** C20 (6): attack queries commute with the mirror, for every position satisfying the representation invariant *)
Theorem is_attacked_mirror p c sq : Inv p -> (c = 0 \/ c = 1) -> sq < 64 ->
  is_attacked (mirror_pos p) (opponent c) (mirror_sq sq) = is_attacked p c sq.
Proof.
  intros HI Hc Hs.
  rewrite (is_attacked_iff (mirror_pos p) (opponent c) (mirror_sq sq) (mirror_inv p HI) (vcol_opponent c) (mirror_sq_lt sq Hs)).
  rewrite (is_attacked_iff p c sq HI Hc Hs).
  rewrite (brd_abs_mirror p HI), (color_of_opponent c Hc), <- mirror_nat_N.
  apply attacked_mirror.
Qed.

Corollary is_defended_mirror p c sq : Inv p -> (c = 0 \/ c = 1) -> sq < 64 ->
  is_defended (mirror_pos p) (opponent c) (mirror_sq sq) = is_defended p c sq.
Proof.
  intros HI Hc Hs. unfold is_defended. apply (is_attacked_mirror p (opponent c) sq HI (vcol_opponent c) Hs).
Qed.

Print Assumptions attacked_mirror.
Print Assumptions is_attacked_mirror.
