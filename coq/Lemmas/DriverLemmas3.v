(** * Driver transition system: the search/handle invariant [InvB]
      (per-handle protocol facts, engine slot, loop blocked in Halt). *)
From Coq Require Import List Bool Arith PeanoNat Lia.
From Morlock.Model Require Import Driver.
From Morlock.Lemmas Require Import DriverLemmas1 DriverLemmas2.
Import ListNotations.

(** ** One search record *)
Definition hok (r : srch) : Prop :=
  h_id r <> 0
  /\ (h_quit r = true -> h_init r = true)
  /\ (h_init r = true <-> 1 <= h_pv r)
  /\ (forall d, In d (h_sent r) -> 1 <= d <= h_pv r)
  /\ (forall d, h_out r = Some d -> In d (h_sent r))
  /\ (forall d, h_fwd r = FPost d -> In d (h_sent r))
  /\ (h_last r = 0 \/ In (h_last r) (h_sent r))
  /\ (h_pv r = 0 \/ In (h_pv r) (h_sent r))
  /\ match h_proc r with
     | PRun k => k = S (h_pv r) /\ h_done r = false /\ h_oclosed r = false
     | PExit => h_init r = true /\ h_done r = true /\ h_oclosed r = true
     end.

(* transformers keep the identity and only add to the ghost list of sent depths *)
Definition good_f (f : srch -> srch) : Prop :=
  (forall r, h_id (f r) = h_id r) /\ (forall r x, In x (h_sent r) -> In x (h_sent (f r)))
  /\ (forall r, h_quit r = true -> h_quit (f r) = true)
  /\ (forall r, h_init r = true -> h_init (f r) = true).

Lemma good_iter : forall k b, good_f (srch_iter k b).
Proof.
  intros k b. unfold good_f, srch_iter, srch_exit. repeat split; intros r;
    destruct (b || h_quit r); simpl; auto.
Qed.
Lemma good_exit : good_f srch_exit.
Proof. unfold good_f, srch_exit. repeat split; intros; simpl; auto. Qed.
Lemma good_quit : good_f srch_set_quit.
Proof. unfold good_f, srch_set_quit. repeat split; intros; simpl; auto. Qed.
Lemma good_frecv : forall d, good_f (srch_frecv d).
Proof. unfold good_f, srch_frecv. repeat split; intros; simpl; auto. Qed.
Lemma good_fwd : forall f, good_f (srch_set_fwd f).
Proof. unfold good_f, srch_set_fwd. repeat split; intros; simpl; auto. Qed.

Lemma hok_iter : forall r k b, hok r -> h_proc r = PRun k -> hok (srch_iter k b r).
Proof.
  intros r k b H Hp. unfold hok in *. rewrite Hp in H.
  destruct H as [H1 [H2 [H3 [H4 [H5 [H6 [H7 [HP [H8 [H9 H10]]]]]]]]]].
  unfold srch_iter, srch_exit. destruct (b || h_quit r); simpl.
  - repeat split; auto; try lia.
    + destruct H as [<-|Hd]; try lia. apply H4 in Hd. lia.
    + destruct H as [<-|Hd]; try lia. apply H4 in Hd. lia.
    + intros d Hd. inversion Hd; auto.
    + destruct H7; auto.
  - repeat split; auto; try lia.
    + destruct H as [<-|Hd]; try lia. apply H4 in Hd. lia.
    + destruct H as [<-|Hd]; try lia. apply H4 in Hd. lia.
    + intros d Hd. inversion Hd; auto.
    + destruct H7; auto.
Qed.

Lemma hok_exit : forall r k, hok r -> h_proc r = PRun k -> h_quit r = true -> hok (srch_exit r).
Proof.
  intros r k H Hp Hq. unfold hok in *. rewrite Hp in H.
  destruct H as [H1 [H2 [H3 [H4 [H5 [H6 [H7 [HP [H8 [H9 H10]]]]]]]]]].
  unfold srch_exit; simpl. repeat split; auto.
  - intros _. apply H3. auto.
  - apply H4; auto. - apply H4; auto.
Qed.

Lemma hok_quit : forall r, hok r -> h_init r = true -> hok (srch_set_quit r).
Proof.
  intros r H Hi. unfold hok in *.
  destruct H as [H1 [H2 [H3 [H4 [H5 [H6 [H7 [HP H8]]]]]]]].
  unfold srch_set_quit; simpl. repeat split; auto; try apply H3; try apply H4; auto.
Qed.

Lemma hok_frecv : forall r d, hok r -> h_out r = Some d -> hok (srch_frecv d r).
Proof.
  intros r d H Ho. unfold hok in *.
  destruct H as [H1 [H2 [H3 [H4 [H5 [H6 [H7 [HP H8]]]]]]]].
  unfold srch_frecv; simpl. repeat split; auto; try apply H3; try apply H4; auto.
  - discriminate.
  - intros d' Hd. inversion Hd; subst. auto.
Qed.

Lemma hok_fwd : forall r f, hok r -> (forall d, f <> FPost d) -> hok (srch_set_fwd f r).
Proof.
  intros r f H Hf. unfold hok in *.
  destruct H as [H1 [H2 [H3 [H4 [H5 [H6 [H7 [HP H8]]]]]]]].
  unfold srch_set_fwd; simpl. repeat split; auto; try apply H3; try apply H4; auto.
  intros d Hd. exfalso. eapply Hf; eauto.
Qed.

Lemma hok_new : forall q o, q <> 0 -> hok (new_srch q o).
Proof.
  intros q o Hq. unfold hok, new_srch; simpl. repeat split; auto; try discriminate; try lia.
Qed.

(** ** State level *)

Definition knows (l : list srch) (q d : nat) : Prop :=
  exists r, find_h q l = Some r /\ In d (h_sent r).

Definition upd_known (l : list srch) (u : upd) : Prop :=
  match u with
  | UInfo q d => knows l q d
  | UDone q d => q <> 0 /\ exists r, find_h q l = Some r /\ (d = 0 \/ In d (h_sent r))
  | UExp q => True
  end.

Definition line_known (l : list srch) (x : out_line) : Prop :=
  match x with LInfo q d => knows l q d | _ => True end.

Record coreB (l : list srch) (n : nat) (e : option nat) (p : list upd) (m : list out_line) : Prop := {
  c_hok : forall r, In r l -> hok r /\ h_id r <= n;
  c_nodup : NoDup (map h_id l);
  c_eact : forall h, e = Some h -> h = n /\ exists r, find_h h l = Some r;
  c_ponder : forall u, In u p -> upd_known l u;
  c_lines : forall x, In x m -> line_known l x
}.

Definition CoreB (s : dstate) : Prop := coreB (srchs s) (searches s) (eactive s) (ponder s) (emitted s).

Definition pcB (s : dstate) : Prop :=
  match pc s with
  | PHaltInit h k => eactive s = Some h
  | PHaltDone h k => eactive s = Some h /\ (forall r, find_h h (srchs s) = Some r -> h_quit r = true /\ h_init r = true)
  | _ => True
  end.

Record InvB (s : dstate) : Prop := {
  b_core : CoreB s;
  b_pc : pcB s;
  b_active : active s <> 0 -> eactive s = Some (active s)
}.

Lemma knows_upd : forall l h f q d, good_f f -> knows l q d -> knows (upd_h h f l) q d.
Proof.
  intros l h f q d [G1 [G2 [G3 G4]]] [r [F I]].
  exists (if q =? h then f r else r). split.
  - apply find_h_upd; auto.
  - destruct (q =? h); auto.
Qed.

Lemma find_h_cons_ne : forall a l q, h_id a <> q -> find_h q (a :: l) = find_h q l.
Proof. intros a l q H. unfold find_h. simpl. apply Nat.eqb_neq in H. now rewrite H. Qed.

Lemma find_h_le : forall l n q r, (forall r, In r l -> hok r /\ h_id r <= n) -> find_h q l = Some r -> q <= n /\ q <> 0.
Proof.
  intros l n q r H F. apply find_h_In in F. destruct F as [F1 F2]. apply H in F1.
  destruct F1 as [[F1 _] F3]. subst. auto.
Qed.

Lemma knows_cons : forall l n a q d, (forall r, In r l -> hok r /\ h_id r <= n) -> h_id a = S n ->
  knows l q d -> knows (a :: l) q d.
Proof.
  intros l n a q d H Ha [r [F I]]. exists r. split; auto.
  rewrite find_h_cons_ne; auto. destruct (find_h_le _ _ _ _ H F). lia.
Qed.

(** changing everything but the searches: ponder shrinks or keeps, lines grow by known ones *)
Lemma coreB_weaken : forall l n e p m e' p' m',
  coreB l n e p m -> (e' = e \/ e' = None) -> (forall u, In u p' -> In u p \/ upd_known l u) ->
  (forall x, In x m' -> In x m \/ line_known l x) -> coreB l n e' p' m'.
Proof.
  intros l n e p m e' p' m' C He Hp Hm. constructor; try apply C.
  - intros h Hh. destruct He as [->| ->]; [|discriminate]. now apply (c_eact _ _ _ _ _ C).
  - intros u Hu. destruct (Hp u Hu) as [Hu'|Hu']; auto. now apply (c_ponder _ _ _ _ _ C).
  - intros x Hx. destruct (Hm x Hx) as [Hx'|Hx']; auto. now apply (c_lines _ _ _ _ _ C).
Qed.

Lemma upd_known_cons : forall l n a u, (forall r, In r l -> hok r /\ h_id r <= n) -> h_id a = S n ->
  upd_known l u -> upd_known (a :: l) u.
Proof.
  intros l n a u H Ha K. destruct u; cbn [upd_known] in *; auto.
  - eapply knows_cons; eauto.
  - destruct K as [K0 [r [F I]]]. split; auto. exists r. split; auto.
    rewrite find_h_cons_ne; auto. destruct (find_h_le _ _ _ _ H F). lia.
Qed.

Lemma coreB_launch : forall l n e p m o,
  coreB l n e p m -> coreB (new_srch (S n) o :: l) (S n) (Some (S n)) p m.
Proof.
  intros l n e p m o C. assert (H := c_hok _ _ _ _ _ C). constructor.
  - intros r [<-|Hr].
    + split; [apply hok_new; lia|simpl; lia].
    + destruct (H r Hr). split; auto.
  - simpl. constructor; [|apply C]. intros Hin. apply in_map_iff in Hin.
    destruct Hin as [r [E Hr]]. apply H in Hr. lia.
  - intros h Hh. inversion Hh; subst. split; auto. exists (new_srch (S n) o).
    unfold find_h. simpl. now rewrite Nat.eqb_refl.
  - intros u Hu. eapply upd_known_cons; eauto. now apply (c_ponder _ _ _ _ _ C).
  - intros x Hx. apply (c_lines _ _ _ _ _ C) in Hx. destruct x; cbn [line_known] in *; auto.
    eapply knows_cons; eauto.
Qed.

Lemma coreB_book : forall l n p m, coreB l n None p m -> coreB l (S n) None p m.
Proof.
  intros l n p m C. constructor; try apply C.
  - intros r Hr. destruct (c_hok _ _ _ _ _ C r Hr). split; auto.
  - discriminate.
Qed.

Lemma upd_known_upd : forall l h f u, good_f f -> upd_known l u -> upd_known (upd_h h f l) u.
Proof.
  intros l h f u G K. destruct u; cbn [upd_known] in *; auto.
  - now apply knows_upd.
  - destruct K as [K0 [r [F I]]]. split; auto. destruct G as [G1 [G2 [G3 G4]]].
    exists (if seq =? h then f r else r). split.
    + apply find_h_upd; auto.
    + destruct (seq =? h); auto. destruct I; auto.
Qed.

(** updating one search with a good transformer that keeps [hok] *)
Lemma coreB_upd : forall l n e p m h f r,
  coreB l n e p m -> good_f f -> find_h h l = Some r -> hok (f r) -> coreB (upd_h h f l) n e p m.
Proof.
  intros l n e p m h f r C G F Hf. assert (G' := G). destruct G' as [G1 [G2 [G3 G4]]]. constructor.
  - intros r' Hr'. apply In_upd_h in Hr'. destruct Hr' as [r0 [Hin [[Hne ->]|[He ->]]]].
    + now apply (c_hok _ _ _ _ _ C).
    + assert (r0 = r).
      { assert (X := In_find_h l r0 (c_nodup _ _ _ _ _ C) Hin). rewrite He in X. congruence. }
      subst r0. split; auto. rewrite G1. now apply (c_hok _ _ _ _ _ C).
  - rewrite upd_h_ids; auto. apply C.
  - intros h' Hh'. destruct (c_eact _ _ _ _ _ C h' Hh') as [E [r' F']]. split; auto.
    eexists. apply find_h_upd; eauto.
  - intros u Hu. apply upd_known_upd; auto. now apply (c_ponder _ _ _ _ _ C).
  - intros x Hx. apply (c_lines _ _ _ _ _ C) in Hx. destruct x; cbn [line_known] in *; auto. now apply knows_upd.
Qed.

Lemma coreB_post : forall l n e p m u, coreB l n e p m -> upd_known l u -> coreB l n e (p ++ [u]) m.
Proof.
  intros l n e p m u C K. eapply coreB_weaken; eauto.
  intros u' Hu'. apply in_app_or in Hu'. destruct Hu' as [Hu'|[<-|[]]]; auto.
Qed.

(** ** Preservation *)

Lemma find_h_upd_inv : forall h f l h' r', (forall r, h_id (f r) = h_id r) ->
  find_h h' (upd_h h f l) = Some r' ->
  exists r, find_h h' l = Some r /\ r' = (if h' =? h then f r else r).
Proof.
  intros h f l h' r' Hf F. destruct (find_h h' l) as [r|] eqn:E.
  - exists r. split; auto. rewrite (find_h_upd h f l r h' Hf E) in F. congruence.
  - rewrite (find_h_upd_none h f l h' Hf E) in F. discriminate.
Qed.

Lemma pcB_upd : forall s s' h f, pcB s -> good_f f -> srchs s' = upd_h h f (srchs s) ->
  pc s' = pc s -> eactive s' = eactive s -> pcB s'.
Proof.
  intros s s' h f P [G1 [G2 [G3 G4]]] E1 E2 E3. unfold pcB in *. rewrite E2, E3, E1.
  destruct (pc s); auto. destruct P as [P1 P2]. split; auto.
  intros r' F. apply find_h_upd_inv in F; auto. destruct F as [r [F ->]].
  destruct (P2 r F). destruct (h0 =? h); auto.
Qed.

Lemma InvB_upd : forall s s' h f r, InvB s -> good_f f -> find_h h (srchs s) = Some r -> hok (f r) ->
  srchs s' = upd_h h f (srchs s) -> searches s' = searches s -> eactive s' = eactive s ->
  active s' = active s -> pc s' = pc s -> emitted s' = emitted s ->
  (ponder s' = ponder s \/ exists u, ponder s' = ponder s ++ [u] /\ upd_known (srchs s) u) -> InvB s'.
Proof.
  intros s s' h f r [C P A] G F Hf E1 E2 E3 E4 E5 E6 E7. constructor.
  - unfold CoreB in *. rewrite E1, E2, E3, E6. destruct E7 as [->|[u [-> K]]].
    + eapply coreB_upd; eauto.
    + eapply coreB_upd; eauto. now apply coreB_post.
  - eapply pcB_upd; eauto.
  - rewrite E4, E3. exact A.
Qed.

Lemma InvB_post : forall s s', InvB s ->
  srchs s' = srchs s -> searches s' = searches s -> eactive s' = eactive s ->
  active s' = active s -> pc s' = pc s -> emitted s' = emitted s ->
  (ponder s' = ponder s \/ exists u, ponder s' = ponder s ++ [u] /\ upd_known (srchs s) u) -> InvB s'.
Proof.
  intros s s' [C P A] E1 E2 E3 E4 E5 E6 E7. constructor.
  - unfold CoreB in *. rewrite E1, E2, E3, E6. destruct E7 as [->|[u [-> K]]]; auto.
    now apply coreB_post.
  - unfold pcB in *. rewrite E5, E3, E1. exact P.
  - rewrite E4, E3. exact A.
Qed.

Lemma hok_of_find : forall s h r, InvB s -> find_h h (srchs s) = Some r -> hok r /\ h_id r = h /\ h <= searches s.
Proof.
  intros s h r [C _ _] F. apply find_h_In in F. destruct F as [F1 F2].
  destruct (c_hok _ _ _ _ _ C r F1). subst. auto.
Qed.

Ltac bool2prop' :=
  repeat match goal with
  | H : (_ =? _) = true |- _ => apply Nat.eqb_eq in H
  | H : (_ =? _) = false |- _ => apply Nat.eqb_neq in H
  | H : (_ && _) = true |- _ => apply andb_true_iff in H; destruct H
  | H : (_ && _) = false |- _ => apply andb_false_iff in H; destruct H
  | H : negb _ = true |- _ => apply negb_true_iff in H
  | H : negb _ = false |- _ => apply negb_false_iff in H
  end.

Ltac side_lines :=
  let x := fresh "x" in let Hx := fresh "Hx" in
  intros x Hx; simpl in Hx;
  repeat (destruct Hx as [<-|Hx]; [right; simpl; auto|]); auto.

Section InvBStep.
  Variable cap : nat.

  (* the loop steps, by brute force on the handler code *)
  Ltac side_ponder :=
    let u := fresh "u" in let Hu := fresh "Hu" in
    intros u Hu; simpl in Hu;
    first [ left; exact Hu
          | left; match goal with Hp : ponder _ = _ :: _ |- _ => rewrite Hp end; right; exact Hu ].

  Ltac fin C :=
    constructor;
    [ unfold CoreB; simpl;
      repeat match goal with He : eactive _ = _ |- _ => rewrite He end;
      first [ eapply coreB_launch | apply coreB_book | idtac ];
      (eapply coreB_weaken; [exact C | auto | side_ponder | side_lines ])
    | unfold pcB; simpl; repeat match goal with He : eactive _ = _ |- _ => rewrite He end; auto
    | simpl; repeat match goal with He : eactive _ = _ |- _ => rewrite He end; auto; try (intros; exfalso; congruence); try (intros; exfalso; lia) ].

  Theorem InvB_step : forall s s', InvA s -> InvB s -> step cap s s' -> InvB s'.
  Proof.
    intros s s' IA IB [l H]. apply fire_view in H.
    assert (A := a_act s IA). assert (K := a_cont s IA).
    assert (C := b_core s IB). assert (P := b_pc s IB). assert (BA := b_active s IB).
    unfold pcB in P. unfold CoreB in C.
    destruct H.
    - (* eof *) crush_loop; fin C.
    - (* command *)
      assert (O : out_closed s = false) by (apply closed_false; auto; rewrite H; discriminate).
      destruct c as [| |ok|o| | | | |]; try destruct ok; crush_loop; bool2prop'; try discriminate; fin C.
    - (* update *)
      assert (O : out_closed s = false) by (apply closed_false; auto; rewrite H; discriminate).
      assert (KU : upd_known (srchs s) u).
      { apply (c_ponder _ _ _ _ _ C). rewrite H0. now left. }
      destruct u; crush_loop; bool2prop'; try discriminate; subst; fin C.
    - (* Halt: init closed *)
      destruct (hok_of_find _ _ _ IB H0) as [Hk _]. rewrite H in P.
      constructor.
      + unfold CoreB. simpl. eapply coreB_upd; eauto. apply good_quit. now apply hok_quit.
      + unfold pcB. simpl. split; auto. intros r' F.
        rewrite (find_h_upd h srch_set_quit (srchs s) r h) in F; auto.
        rewrite Nat.eqb_refl in F. inversion F; subst. simpl. auto.
      + simpl. exact BA.
    - (* Halt returns *)
      assert (O : out_closed s = false) by (apply closed_false; auto; rewrite H; discriminate).
      rewrite H in K. rewrite H in P.
      destruct k; crush_loop; bool2prop'; try discriminate; subst; fin C.
    - (* iter *)
      destruct (hok_of_find _ _ _ IB H) as [Hk _].
      apply (InvB_upd s _ h (srch_iter k stop) r IB (good_iter k stop) H (hok_iter r k stop Hk H0));
        try reflexivity; now left.
    - destruct (hok_of_find _ _ _ IB H) as [Hk _].
      apply (InvB_upd s _ h srch_exit r IB good_exit H (hok_exit r k Hk H0 H1)); try reflexivity; now left.
    - destruct (hok_of_find _ _ _ IB H) as [Hk _].
      apply (InvB_upd s _ h (srch_frecv d) r IB (good_frecv d) H (hok_frecv r d Hk H1)); try reflexivity; now left.
    - destruct (hok_of_find _ _ _ IB H) as [Hk [Hid _]].
      assert (Hf : hok (srch_set_fwd FRead r)) by (apply hok_fwd; auto; discriminate).
      apply (InvB_upd s _ h (srch_set_fwd FRead) r IB (good_fwd _) H Hf); try reflexivity.
      right. eexists. split; [reflexivity|]. simpl. exists r. split; auto. apply Hk. auto.
    - destruct (hok_of_find _ _ _ IB H) as [Hk _].
      assert (Hf : hok (srch_set_fwd (if g_inf (h_opt r) then FFin else FPostDone) r)).
      { apply hok_fwd; auto. destruct (g_inf (h_opt r)); discriminate. }
      apply (InvB_upd s _ h _ r IB (good_fwd _) H Hf); try reflexivity. now left.
    - destruct (hok_of_find _ _ _ IB H) as [Hk [Hid _]].
      assert (Hf : hok (srch_set_fwd FFin r)) by (apply hok_fwd; auto; discriminate).
      apply (InvB_upd s _ h (srch_set_fwd FFin) r IB (good_fwd _) H Hf); try reflexivity.
      right. eexists. split; [reflexivity|]. simpl. split.
      + destruct Hk as [Hk _]. congruence.
      + exists r. split; auto. apply Hk.
    - apply (InvB_post s _ IB); try reflexivity. right. eexists. split; [reflexivity|]. exact I.
    - destruct (hok_of_find _ _ _ IB H0) as [Hk _].
      apply (InvB_upd s _ h srch_set_quit r IB good_quit H0 (hok_quit r Hk H1)); try reflexivity; now left.
  Qed.
End InvBStep.

Section InvBReach.
  Variable cap : nat.
  Variable script : list cmd.

  Lemma InvB_init : InvB (init_state script).
  Proof.
    constructor.
    - unfold CoreB; simpl. constructor; simpl; try tauto; try discriminate. constructor.
    - unfold pcB; simpl; auto.
    - simpl. congruence.
  Qed.

  Theorem InvAB_reachable : forall s, reachable cap script s -> InvA s /\ InvB s.
  Proof.
    intros s R. induction R.
    - split; [apply InvA_init | apply InvB_init].
    - destruct IHR as [IA IB]. split.
      + eapply InvA_step; eauto.
      + eapply InvB_step; eauto.
  Qed.
End InvBReach.
