(** EnginesLemmas3 — C20, parts 4 and 5: totality of TUROCHAMP's IsConsiderableMove, and the evaluation
    skeletons are defined and bounded (divisors >= 1, inputs bounded). *)
From Coq Require Import NArith ZArith List Bool Lia ZifyBool ZifyNat ZifyN.
From Morlock.Model Require Import Bits Attacks Move Position Abs Search Fen Engines.
From Morlock.Spec Require Import Chess.
From Morlock.Lemmas Require Import PositionLemmas AttackGeometry1 GameLemmas1 MoveGen3 MoveGen11 EnginesLemmas1.
Import ListNotations.

(* ------------------------------------------------------------------ *)
(** * (4) IsConsiderableMove never panics on a legal move *)

Lemma turo_value2_kind k : exists v, turo_value2 (code_of_kind k) = Some v /\ (2 <= v)%Z.
Proof. destruct k; vm_compute; eexists; (split; [reflexivity|discriminate]). Qed.

Lemma legal_piece_valid p turn m : wf_b p turn = true -> (turn = 0 \/ turn = 1)%N -> In m (legal_moves p turn) ->
  exists k, mpiece m = code_of_kind k.
Proof.
  intros Hwf Hc Hin. pose proof (move_metadata_ok p turn m Hwf Hc Hin) as M. cbv zeta in M.
  destruct M as [_ [[k [_ Hk]] _]]. now exists k.
Qed.

Lemma legal_capture_valid p turn m : wf_b p turn = true -> (turn = 0 \/ turn = 1)%N -> In m (legal_moves p turn) ->
  (is_capture m = true -> exists k, mcapture m = code_of_kind k) /\
  (is_capture m = false -> mcapture m = NoPiece).
Proof.
  intros Hwf Hc Hin. pose proof (move_metadata_ok p turn m Hwf Hc Hin) as M. cbv zeta in M.
  destruct M as [_ [_ [Hcap [Hcv _]]]]. unfold captured in Hcv. unfold occupied in Hcap.
  destruct (at_ (brd (abs_pos p)) (sto (abs_move m))) as [[c k]|].
  - split; [intros _; now exists k|]. intros H. destruct Hcap as [_ Hcap]. rewrite Hcap in H; [discriminate|reflexivity].
  - split; [|intros _; exact Hcv]. intros H. apply Hcap in H. discriminate.
Qed.

(** C20 (4) *)
Theorem considerable_total p turn m : wf_b p turn = true -> (turn = 0 \/ turn = 1)%N -> In m (legal_moves p turn) ->
  forall post post_turn second_last, considerable post post_turn second_last m <> None.
Proof.
  intros Hwf Hc Hin post post_turn sl. unfold considerable.
  destruct (is_capture m) eqn:Ecap; [|discriminate].
  destruct (legal_piece_valid p turn m Hwf Hc Hin) as [k Hk].
  destruct (proj1 (legal_capture_valid p turn m Hwf Hc Hin) Ecap) as [k' Hk'].
  destruct (turo_value2_kind k) as [v [Hv _]]. destruct (turo_value2_kind k') as [v' [Hv' _]].
  rewrite Hk, Hk', Hv, Hv'. discriminate.
Qed.

Corollary considerable_after_total p turn m sl : wf_b p turn = true -> (turn = 0 \/ turn = 1)%N ->
  In m (legal_moves p turn) -> exists b, considerable_after p turn sl m = Some b.
Proof.
  intros Hwf Hc Hin. unfold considerable_after. destruct (pos_move p m) as [post|]; [|now exists false].
  pose proof (considerable_total p turn m Hwf Hc Hin post (opponent turn) sl) as H.
  destruct (considerable post (opponent turn) sl m) as [b|]; [now exists b|congruence].
Qed.

(** en passant is not IsCapture: its (unset) capture field is never read — reading it would panic *)
Theorem ep_not_capture p turn m : wf_b p turn = true -> (turn = 0 \/ turn = 1)%N -> In m (legal_moves p turn) ->
  mtype m = EnPassant -> is_capture m = false /\ mcapture m = NoPiece /\ turo_value2 (mcapture m) = None.
Proof.
  intros Hwf Hc Hin Ht. assert (E : is_capture m = false) by (unfold is_capture; now rewrite Ht).
  split; [exact E|]. pose proof (proj2 (legal_capture_valid p turn m Hwf Hc Hin) E) as Hn.
  split; [exact Hn|]. now rewrite Hn.
Qed.

(** the considerable-moves filter selects legal moves, each once *)
Theorem considerable_moves_ok p turn sl :
  incl (considerable_moves p turn sl) (legal_moves p turn) /\ NoDup (considerable_moves p turn sl).
Proof.
  unfold considerable_moves. split; [intros m H; now apply filter_In in H|apply NoDup_filter, legal_moves_nodup].
Qed.

(* ------------------------------------------------------------------ *)
(** * piece counts *)

Lemma cntZ_nonneg x : (0 <= cntZ x)%Z.
Proof. unfold cntZ. lia. Qed.

Lemma filter_length_le {A} (f : A -> bool) l : (length (filter f l) <= length l)%nat.
Proof. induction l as [|a l IH]; cbn; [lia|]. destruct (f a); cbn; lia. Qed.

Lemma cnt_le f : (cnt f <= 64)%nat.
Proof. unfold cnt. pose proof (filter_length_le f (seqN 64)) as H. now rewrite length_seqN in H. Qed.

Lemma popcount_le64 x : (x < 2 ^ 64)%N -> (popcount x <= 64)%N.
Proof. intros H. rewrite (popcount_cnt x H). pose proof (cnt_le (N.testbit x)). lia. Qed.

Lemma popcount_lor_disjoint a b : (a < 2 ^ 64)%N -> (b < 2 ^ 64)%N -> N.land a b = 0%N ->
  popcount (N.lor a b) = (popcount a + popcount b)%N.
Proof.
  intros Ha Hb Hd. rewrite (popcount_cnt _ (lor_word _ _ Ha Hb)), (popcount_cnt _ Ha), (popcount_cnt _ Hb).
  rewrite <- Nnat.Nat2N.inj_add. f_equal.
  rewrite (cnt_ext (N.testbit (N.lor a b)) (fun s => N.testbit a s || N.testbit b s)) by (intros s _; apply N.lor_spec).
  apply cnt_or. intros s _. rewrite <- N.land_spec, Hd. apply N.bits_0.
Qed.

Lemma land_lor_zero a b c : N.land a c = 0%N -> N.land b c = 0%N -> N.land (N.lor a b) c = 0%N.
Proof. intros H1 H2. rewrite N.land_lor_distr_l, H1, H2. reflexivity. Qed.

(** under the representation invariant the six piece boards of a colour partition its colour board *)
Theorem piece_counts_sum pos c : Inv pos -> (c = 0 \/ c = 1)%N ->
  (cntZ (pget pos c Pawn) + cntZ (pget pos c Bishop) + cntZ (pget pos c Knight) + cntZ (pget pos c Rook) +
   cntZ (pget pos c Queen) + cntZ (pget pos c King) = cntZ (pget pos c NoPiece))%Z /\
  (cntZ (pget pos c NoPiece) <= 64)%Z.
Proof.
  intros HI Hc. pose proof HI as [_ [_ [Hdis [Hun _]]]].
  assert (W : forall k, (pget pos c k < 2 ^ 64)%N) by (intros k; now apply pget_word).
  assert (D : forall k k', (1 <= k <= 6)%N -> (1 <= k' <= 6)%N -> k <> k' -> N.land (pget pos c k) (pget pos c k') = 0%N).
  { intros k k' Hk Hk' Hne. apply Hdis; try assumption. intros E. injection E as E. contradiction. }
  split.
  - unfold cntZ. rewrite (Hun c Hc).
    rewrite !popcount_lor_disjoint; try (repeat apply lor_word; apply W);
      try (repeat apply land_lor_zero; apply D; unfold Pawn, Bishop, Knight, Rook, Queen, King; lia).
    lia.
  - unfold cntZ. pose proof (popcount_le64 _ (W NoPiece)). lia.
Qed.

(* ------------------------------------------------------------------ *)
(** * (5) TUROCHAMP material *)

Definition turo_sum2 (pos : position) (turn : N) : Z :=
  (20 * cntZ (pget pos turn Queen) + 10 * cntZ (pget pos turn Rook) + 6 * cntZ (pget pos turn Knight) +
   7 * cntZ (pget pos turn Bishop) + 2 * cntZ (pget pos turn Pawn))%Z.

Lemma turo_material2_eq pos turn :
  turo_material2 pos turn = Some (if (turo_sum2 pos turn =? 0)%Z then 1%Z else turo_sum2 pos turn).
Proof.
  unfold turo_material2, QueenRookKnightBishopPawn. cbn [fold_left].
  change (turo_value2 Queen) with (Some 20%Z). change (turo_value2 Rook) with (Some 10%Z).
  change (turo_value2 Knight) with (Some 6%Z). change (turo_value2 Bishop) with (Some 7%Z).
  change (turo_value2 Pawn) with (Some 2%Z). cbv beta iota.
  match goal with |- match ?x with _ => _ end = _ =>
    assert (E : x = turo_sum2 pos turn) by (unfold turo_sum2; lia); rewrite E end.
  destruct (turo_sum2 pos turn); reflexivity.
Qed.

(** C20 (5a): the material of either side is defined (no panic) and at least one half-pawn, for every position;
    under the representation invariant it is at most 64 queens *)
Theorem turochamp_material_total pos turn :
  exists v, turo_material2 pos turn = Some v /\ (1 <= v)%Z.
Proof.
  rewrite turo_material2_eq. eexists. split; [reflexivity|].
  pose proof (cntZ_nonneg (pget pos turn Queen)). pose proof (cntZ_nonneg (pget pos turn Rook)).
  pose proof (cntZ_nonneg (pget pos turn Knight)). pose proof (cntZ_nonneg (pget pos turn Bishop)).
  pose proof (cntZ_nonneg (pget pos turn Pawn)).
  destruct (Z.eqb_spec (turo_sum2 pos turn) 0); [lia|]. unfold turo_sum2 in *. lia.
Qed.

Theorem turochamp_material_bounded pos turn v : Inv pos -> (turn = 0 \/ turn = 1)%N ->
  turo_material2 pos turn = Some v -> (1 <= v <= 1280)%Z.
Proof.
  intros HI Hc. rewrite turo_material2_eq. intros [= <-].
  destruct (piece_counts_sum pos turn HI Hc) as [Hs Hb].
  pose proof (cntZ_nonneg (pget pos turn Queen)). pose proof (cntZ_nonneg (pget pos turn Rook)).
  pose proof (cntZ_nonneg (pget pos turn Knight)). pose proof (cntZ_nonneg (pget pos turn Bishop)).
  pose proof (cntZ_nonneg (pget pos turn Pawn)). pose proof (cntZ_nonneg (pget pos turn King)).
  destruct (Z.eqb_spec (turo_sum2 pos turn) 0); [lia|]. unfold turo_sum2 in *. lia.
Qed.

(** Material.Evaluate: the ratio is defined, its divisor is >= 1 and its dividend >= 0 *)
Theorem turochamp_ratio_total pos turn :
  exists r, turo_material_eval pos turn = Some r /\ (1 <= r_den r)%Z /\ (0 <= r_num r)%Z /\
            (r_neg r = true -> r_num r <> 0%Z).
Proof.
  unfold turo_material_eval.
  destruct (turochamp_material_total pos turn) as [a [-> Ha]].
  destruct (turochamp_material_total pos (opponent turn)) as [b [-> Hb]].
  eexists. split; [reflexivity|].
  destruct (Z.eqb_spec a b); [cbn; lia|]. destruct (Z.ltb_spec b a); cbn; (split; [lia|split; [lia|]]); [discriminate|lia].
Qed.

(* ------------------------------------------------------------------ *)
(** * (5) BERNSTEIN *)

(** C20 (5b) *)
Theorem bernstein_eval_total pos factor side : (1 <= bern_evaluate pos factor side)%Z.
Proof. unfold bern_evaluate. lia. Qed.

Theorem bernstein_ratio_total pos factor turn :
  (1 <= r_den (bern_eval pos factor turn))%Z /\ (0 <= r_num (bern_eval pos factor turn))%Z.
Proof.
  unfold bern_eval. pose proof (bernstein_eval_total pos factor turn). pose proof (bernstein_eval_total pos factor (opponent turn)).
  destruct (_ =? _)%Z; [cbn; lia|]. destruct (_ <? _)%Z; cbn; lia.
Qed.


(** the summands are bounded: control <= 64, king defense <= 64 (8 for a real king square), material <= 9*64 *)
Theorem bernstein_terms_bounded pos side : Inv pos -> (side = 0 \/ side = 1)%N ->
  (0 <= bern_mobility pos side)%Z /\ (0 <= bern_control pos side <= 64)%Z /\
  (0 <= bern_king_defense pos side)%Z /\ (0 <= bern_material pos side <= 576)%Z.
Proof.
  intros HI Hc. split; [unfold bern_mobility; lia|]. split.
  - unfold bern_control. pose proof (filter_length_le (bern_controlled pos side) (seqN 64)) as H.
    rewrite length_seqN in H. lia.
  - split; [unfold bern_king_defense; lia|].
    destruct (piece_counts_sum pos side HI Hc) as [Hs Hb].
    pose proof (cntZ_nonneg (pget pos side Queen)). pose proof (cntZ_nonneg (pget pos side Rook)).
    pose proof (cntZ_nonneg (pget pos side Knight)). pose proof (cntZ_nonneg (pget pos side Bishop)).
    pose proof (cntZ_nonneg (pget pos side Pawn)). pose proof (cntZ_nonneg (pget pos side King)).
    unfold bern_material. change (bern_value Queen) with 9%Z. change (bern_value Rook) with 5%Z.
    change (bern_value Knight) with 3%Z. change (bern_value Bishop) with 3%Z. change (bern_value Pawn) with 1%Z. lia.
Qed.

(* ------------------------------------------------------------------ *)
(** * (5) generic material *)

Lemma material_pos_eq pos turn :
  material_pos pos turn =
  ((cntZ (pget pos turn Pawn) - cntZ (pget pos (opponent turn) Pawn)) * 1 +
   (cntZ (pget pos turn Bishop) - cntZ (pget pos (opponent turn) Bishop)) * 3 +
   (cntZ (pget pos turn Knight) - cntZ (pget pos (opponent turn) Knight)) * 3 +
   (cntZ (pget pos turn Rook) - cntZ (pget pos (opponent turn) Rook)) * 5 +
   (cntZ (pget pos turn Queen) - cntZ (pget pos (opponent turn) Queen)) * 9 +
   (cntZ (pget pos turn King) - cntZ (pget pos (opponent turn) King)) * 100)%Z.
Proof.
  unfold material_pos. cbn [fold_left].
  change (nominal_value NoPiece) with 0%Z. change (nominal_value Pawn) with 1%Z. change (nominal_value Bishop) with 3%Z.
  change (nominal_value Knight) with 3%Z. change (nominal_value Rook) with 5%Z. change (nominal_value Queen) with 9%Z.
  change (nominal_value King) with 100%Z. lia.
Qed.

Lemma opponent_vcol c : (c = 0 \/ c = 1)%N -> (opponent c = 0 \/ opponent c = 1)%N.
Proof. intros [->| ->]; vm_compute; auto. Qed.

(** C20 (5c) *)
Theorem material_bounded pos turn : Inv pos -> (turn = 0 \/ turn = 1)%N ->
  (Z.abs (material_pos pos turn) <= 64 * 100)%Z.
Proof.
  intros HI Hc. rewrite material_pos_eq.
  destruct (piece_counts_sum pos turn HI Hc) as [Hs Hb].
  destruct (piece_counts_sum pos (opponent turn) HI (opponent_vcol _ Hc)) as [Hs' Hb'].
  pose proof (cntZ_nonneg (pget pos turn Queen)). pose proof (cntZ_nonneg (pget pos turn Rook)).
  pose proof (cntZ_nonneg (pget pos turn Knight)). pose proof (cntZ_nonneg (pget pos turn Bishop)).
  pose proof (cntZ_nonneg (pget pos turn Pawn)). pose proof (cntZ_nonneg (pget pos turn King)).
  pose proof (cntZ_nonneg (pget pos (opponent turn) Queen)). pose proof (cntZ_nonneg (pget pos (opponent turn) Rook)).
  pose proof (cntZ_nonneg (pget pos (opponent turn) Knight)). pose proof (cntZ_nonneg (pget pos (opponent turn) Bishop)).
  pose proof (cntZ_nonneg (pget pos (opponent turn) Pawn)). pose proof (cntZ_nonneg (pget pos (opponent turn) King)).
  lia.
Qed.

(** with one king per side (a legal position) the king terms cancel: |material| <= 9 * 63 *)
Theorem material_bounded_wf pos turn : wf_b pos turn = true -> (turn = 0 \/ turn = 1)%N ->
  (Z.abs (material_pos pos turn) <= 567)%Z.
Proof.
  intros Hwf Hc. pose proof (MoveGen7.wf_b_WF _ _ Hwf) as W. pose proof (MoveGen7.wf_inv _ _ W) as HI.
  pose proof (MoveGen7.wf_wk _ _ W) as Kw. pose proof (MoveGen7.wf_bk _ _ W) as Kb.
  rewrite material_pos_eq.
  destruct (piece_counts_sum pos turn HI Hc) as [Hs Hb].
  destruct (piece_counts_sum pos (opponent turn) HI (opponent_vcol _ Hc)) as [Hs' Hb'].
  assert (K1 : cntZ (pget pos turn King) = 1%Z) by (unfold cntZ; destruct Hc as [-> | ->]; [change 0%N with White; rewrite Kw|change 1%N with Black; rewrite Kb]; reflexivity).
  assert (K2 : cntZ (pget pos (opponent turn) King) = 1%Z)
    by (unfold cntZ; destruct Hc as [-> | ->]; [change (opponent 0) with Black; rewrite Kb|change (opponent 1) with White; rewrite Kw]; reflexivity).
  pose proof (cntZ_nonneg (pget pos turn Queen)). pose proof (cntZ_nonneg (pget pos turn Rook)).
  pose proof (cntZ_nonneg (pget pos turn Knight)). pose proof (cntZ_nonneg (pget pos turn Bishop)).
  pose proof (cntZ_nonneg (pget pos turn Pawn)).
  pose proof (cntZ_nonneg (pget pos (opponent turn) Queen)). pose proof (cntZ_nonneg (pget pos (opponent turn) Rook)).
  pose proof (cntZ_nonneg (pget pos (opponent turn) Knight)). pose proof (cntZ_nonneg (pget pos (opponent turn) Bishop)).
  pose proof (cntZ_nonneg (pget pos (opponent turn) Pawn)).
  lia.
Qed.

Print Assumptions considerable_total.
Print Assumptions turochamp_material_total.
Print Assumptions turochamp_material_bounded.
Print Assumptions turochamp_ratio_total.
Print Assumptions bernstein_eval_total.
Print Assumptions bernstein_terms_bounded.
Print Assumptions material_bounded.
Print Assumptions material_bounded_wf.
