(** MoveGen1 — symmetry of the geometric attack relation (K, Kn, R, Bi, Q) on a fixed occupancy,
    and the dependence of [attacks_from] on the occupancy function (pointwise only).
    Route for sliders: membership of [t] in the ray walk from [s] is "t lies on the empty-board ray and
    every square before it on that ray is unoccupied" ([ray_mem], general in [occ]); the empty-board
    facts (the squares before [s] on the ray back from [t] are among the squares before [t] on the ray
    from [s]) are a finite check over 64 x 64 pairs. *)
From Coq Require Import NArith ZArith List Bool Lia ZifyBool ZifyNat ZifyN.
From Morlock.Model Require Import Bits Attacks.
From Morlock.Spec Require Import Chess.
From Morlock.Lemmas Require Import AttackGeometry.
Import ListNotations.
Open Scope nat_scope.

(** * pointwise dependence on the occupancy *)

Lemma ray_ext_all occ occ' df dr n f r : (forall s, occ s = occ' s) ->
  ray occ f r df dr n = ray occ' f r df dr n.
Proof. intros H. apply ray_ext. intros s _. apply H. Qed.

Lemma slide_ext_all occ occ' s dirs : (forall x, occ x = occ' x) ->
  slide_targets occ s dirs = slide_targets occ' s dirs.
Proof. intros H. apply slide_ext. intros x _. apply H. Qed.

Lemma attacks_from_ext occ occ' c k s : (forall x, occ x = occ' x) ->
  attacks_from occ c k s = attacks_from occ' c k s.
Proof. intros H. destruct k; cbn [attacks_from]; try reflexivity; now apply slide_ext_all. Qed.

(** * membership in a ray walk *)

(** the elements of [l] strictly before the first occurrence of [t] *)
Fixpoint pre_of (t : nat) (l : list nat) : option (list nat) :=
  match l with
  | [] => None
  | x :: r => if Nat.eqb t x then Some [] else option_map (cons x) (pre_of t r)
  end.

Definition free : nat -> bool := fun _ => false.

Lemma ray_mem occ df dr t n : forall f r,
  mem_nat t (ray occ f r df dr n) =
  match pre_of t (ray free f r df dr n) with
  | Some l => forallb (fun x => negb (occ x)) l
  | None => false
  end.
Proof.
  induction n as [|n IH]; intros f r; [reflexivity|].
  cbn [ray]. destruct (on_board (f + df) (r + dr)); [|reflexivity].
  unfold free at 1. cbn [pre_of].
  destruct (Nat.eqb t (sq_of (f + df) (r + dr))) eqn:E.
  - destruct (occ (sq_of (f + df) (r + dr))); unfold mem_nat; cbn [existsb]; now rewrite E.
  - destruct (occ (sq_of (f + df) (r + dr))) eqn:O.
    + unfold mem_nat. cbn [existsb]. rewrite E. cbn [orb].
      destruct (pre_of t (ray free (f + df) (r + dr) df dr n)); cbn [option_map]; [|reflexivity].
      cbn [forallb]. now rewrite O.
    + unfold mem_nat. cbn [existsb]. rewrite E. cbn [orb]. fold (mem_nat t (ray occ (f + df) (r + dr) df dr n)).
      rewrite IH. destruct (pre_of t (ray free (f + df) (r + dr) df dr n)); cbn [option_map]; [|reflexivity].
      cbn [forallb]. now rewrite O.
Qed.

Definition reach (occ : nat -> bool) (dirs : list (Z * Z)) (s t : nat) : bool :=
  existsb (fun d => match pre_of t (ray free (file_of s) (rank_of s) (fst d) (snd d) 7) with
                    | Some l => forallb (fun x => negb (occ x)) l
                    | None => false
                    end) dirs.

Lemma slide_mem occ dirs s t : mem_nat t (slide_targets occ s dirs) = reach occ dirs s t.
Proof.
  unfold slide_targets, reach. induction dirs as [|d dirs IH]; [reflexivity|].
  cbn [flat_map existsb]. rewrite mem_nat_app, IH, ray_mem. reflexivity.
Qed.

(** finite check: whenever [t] is on the empty-board ray from [s] in direction [d], with [l] the squares
    before it, [s] is on an empty-board ray from [t] and the squares before it are all in [l] *)
Definition sym_ok (dirs : list (Z * Z)) : bool :=
  forallb (fun s => forallb (fun t => forallb (fun d =>
    match pre_of t (ray free (file_of s) (rank_of s) (fst d) (snd d) 7) with
    | None => true
    | Some l =>
        existsb (fun d' => match pre_of s (ray free (file_of t) (rank_of t) (fst d') (snd d') 7) with
                           | Some l' => forallb (fun x => mem_nat x l) l'
                           | None => false
                           end) dirs
    end) dirs) all_squares) all_squares.

Lemma sym_ok_rook : sym_ok rook_dirs = true. Proof. vm_compute. reflexivity. Qed.
Lemma sym_ok_bishop : sym_ok bishop_dirs = true. Proof. vm_compute. reflexivity. Qed.
Lemma sym_ok_queen : sym_ok (rook_dirs ++ bishop_dirs) = true. Proof. vm_compute. reflexivity. Qed.

Lemma reach_sym_imp occ dirs s t : sym_ok dirs = true -> s < 64 -> t < 64 ->
  reach occ dirs s t = true -> reach occ dirs t s = true.
Proof.
  intros Hok Hs Ht H. unfold sym_ok in Hok. rewrite forallb_forall in Hok.
  specialize (Hok s (proj2 (in_all_squares s) Hs)). rewrite forallb_forall in Hok.
  specialize (Hok t (proj2 (in_all_squares t) Ht)). rewrite forallb_forall in Hok.
  unfold reach in H. apply existsb_exists in H as [d [Hd H]]. specialize (Hok d Hd).
  destruct (pre_of t (ray free (file_of s) (rank_of s) (fst d) (snd d) 7)) as [l|]; [|discriminate].
  apply existsb_exists in Hok as [d' [Hd' Hok]].
  unfold reach. apply existsb_exists. exists d'. split; [exact Hd'|].
  destruct (pre_of s (ray free (file_of t) (rank_of t) (fst d') (snd d') 7)) as [l'|]; [|discriminate].
  rewrite forallb_forall in *. intros x Hx. apply H. apply mem_nat_In. now apply Hok.
Qed.

Lemma reach_sym occ dirs s t : sym_ok dirs = true -> s < 64 -> t < 64 ->
  reach occ dirs s t = reach occ dirs t s.
Proof. intros Hok Hs Ht. apply bool_eq_iff. split; apply reach_sym_imp; assumption. Qed.

(** king and knight: finite check *)
Definition step_sym_ok (k : kind) : bool :=
  forallb (fun s => forallb (fun t =>
    Bool.eqb (mem_nat t (attacks_from free Wh k s)) (mem_nat s (attacks_from free Wh k t))) all_squares) all_squares.
Lemma step_sym_king : step_sym_ok K = true. Proof. vm_compute. reflexivity. Qed.
Lemma step_sym_knight : step_sym_ok Kn = true. Proof. vm_compute. reflexivity. Qed.

Lemma step_sym k s t : step_sym_ok k = true -> s < 64 -> t < 64 ->
  mem_nat t (attacks_from free Wh k s) = mem_nat s (attacks_from free Wh k t).
Proof.
  intros H Hs Ht. unfold step_sym_ok in H. rewrite forallb_forall in H.
  specialize (H s (proj2 (in_all_squares s) Hs)). rewrite forallb_forall in H.
  specialize (H t (proj2 (in_all_squares t) Ht)). now apply eqb_prop in H.
Qed.

(** * symmetry of the attack relation for every kind but the pawn *)
Theorem attacks_sym : forall occ c k s t, k <> P -> s < 64 -> t < 64 ->
  mem_nat t (attacks_from occ c k s) = mem_nat s (attacks_from occ c k t).
Proof.
  intros occ c k s t Hk Hs Ht. destruct k; try congruence; cbn [attacks_from].
  - rewrite !slide_mem. apply reach_sym; auto using sym_ok_bishop.
  - apply (step_sym Kn s t step_sym_knight Hs Ht).
  - rewrite !slide_mem. apply reach_sym; auto using sym_ok_rook.
  - rewrite !slide_mem. apply reach_sym; auto using sym_ok_queen.
  - apply (step_sym K s t step_sym_king Hs Ht).
Qed.
Print Assumptions attacks_sym.

(** pawns: white pawn attacks are black pawn attacks reversed *)
Definition pawn_sym_ok : bool :=
  forallb (fun s => forallb (fun t =>
    Bool.eqb (mem_nat t (attacks_from free Wh P s)) (mem_nat s (attacks_from free Bl P t))) all_squares) all_squares.
Lemma pawn_sym_ok_true : pawn_sym_ok = true. Proof. vm_compute. reflexivity. Qed.

Theorem pawn_attacks_sym : forall occ occ' s t, s < 64 -> t < 64 ->
  mem_nat t (attacks_from occ Wh P s) = mem_nat s (attacks_from occ' Bl P t).
Proof.
  intros occ occ' s t Hs Ht. pose proof pawn_sym_ok_true as H. unfold pawn_sym_ok in H.
  rewrite forallb_forall in H. specialize (H s (proj2 (in_all_squares s) Hs)). rewrite forallb_forall in H.
  specialize (H t (proj2 (in_all_squares t) Ht)). now apply eqb_prop in H.
Qed.
Print Assumptions pawn_attacks_sym.
