(** * Driver transition system: the executable successor function is the step relation;
      legacy refutations (the hand-off before commit 76ce114) as concrete traces;
      bounded exhaustive exploration as a non-vacuity check; trace checker sanity. *)
From Coq Require Import List Bool Arith PeanoNat Lia.
From Morlock.Model Require Import Driver.
From Morlock.Lemmas Require Import DriverLemmas1 DriverLemmas2 DriverLemmas3 DriverLemmas4 DriverLemmas5.
Import ListNotations.

(** ** [steps] (executable) vs [step] (relation) *)
Section Exec.
  Variable cap maxd : nat.

  Theorem steps_sound : forall s s', In s' (steps cap maxd s) -> step cap s s'.
  Proof.
    intros s s' H. unfold steps, lsteps, lsteps_with in H. apply in_map_iff in H.
    destruct H as [[l x] [E H]]. simpl in E. subst x. apply in_flat_map in H.
    destruct H as [l' [_ H]]. destruct (fire cap l' s) eqn:F; [|destruct H].
    destruct H as [H|[]]. inversion H; subst. exists l. exact F.
  Qed.

  (** every search still running is below the exploration bound *)
  Definition below_bound (s : dstate) : Prop :=
    forall r k, In r (srchs s) -> h_proc r = PRun k -> k < maxd.

  Lemma label_listed : forall l s s', below_bound s -> fire cap l s = Some s' -> In l (labels maxd s).
  Proof.
    intros l s s' B F. unfold labels.
    assert (S : forall h r, find_h h (srchs s) = Some r -> forall x, In x (srch_labels maxd r) ->
                In x ([LCmd; LRecv; LHaltInit; LHaltDone] ++ flat_map (srch_labels maxd) (srchs s) ++ flat_map timer_labels (timers s))).
    { intros h r Fh x Hx. apply in_or_app. right. apply in_or_app. left. apply in_flat_map.
      exists r. split; auto. apply find_h_In in Fh. tauto. }
    assert (T : forall t, has_timer t (timers s) = true -> forall x, In x (timer_labels t) ->
                In x ([LCmd; LRecv; LHaltInit; LHaltDone] ++ flat_map (srch_labels maxd) (srchs s) ++ flat_map timer_labels (timers s))).
    { intros t Ht x Hx. apply in_or_app. right. apply in_or_app. right. apply in_flat_map.
      exists t. split; auto. now apply has_timer_In. }
    destruct l; simpl in F; unfold with_srch in F; try (simpl; tauto).
    - destruct (find_h h (srchs s)) as [r|] eqn:Fh; try discriminate.
      destruct (h_proc r) eqn:Hp; try discriminate.
      apply (S h r Fh). destruct (find_h_In _ _ _ Fh) as [Hin Hid]. unfold srch_labels. rewrite Hp, Hid.
      destruct stop.
      + apply in_or_app. right. simpl. auto.
      + apply in_or_app. left. assert (X := B r k Hin Hp). apply Nat.ltb_lt in X. rewrite X. simpl. auto.
    - destruct (find_h h (srchs s)) as [r|] eqn:Fh; try discriminate.
      apply (S h r Fh). destruct (find_h_In _ _ _ Fh) as [Hin Hid]. unfold srch_labels. rewrite Hid.
      apply in_or_app. right. simpl. auto.
    - destruct (find_h h (srchs s)) as [r|] eqn:Fh; try discriminate.
      apply (S h r Fh). destruct (find_h_In _ _ _ Fh) as [Hin Hid]. unfold srch_labels. rewrite Hid.
      apply in_or_app. right. simpl. auto.
    - destruct (find_h h (srchs s)) as [r|] eqn:Fh; try discriminate.
      apply (S h r Fh). destruct (find_h_In _ _ _ Fh) as [Hin Hid]. unfold srch_labels. rewrite Hid.
      apply in_or_app. right. simpl. auto 10.
    - destruct (find_h h (srchs s)) as [r|] eqn:Fh; try discriminate.
      apply (S h r Fh). destruct (find_h_In _ _ _ Fh) as [Hin Hid]. unfold srch_labels. rewrite Hid.
      apply in_or_app. right. simpl. auto 10.
    - destruct (find_h h (srchs s)) as [r|] eqn:Fh; try discriminate.
      apply (S h r Fh). destruct (find_h_In _ _ _ Fh) as [Hin Hid]. unfold srch_labels. rewrite Hid.
      apply in_or_app. right. simpl. auto 10.
    - destruct (has_timer (TMove seq) (timers s)) eqn:Ht; try discriminate.
      apply (T _ Ht). simpl. auto.
    - destruct (has_timer (THard h) (timers s)) eqn:Ht; try discriminate.
      apply (T _ Ht). simpl. auto.
    - discriminate.
    - discriminate.
  Qed.

  Theorem steps_complete : forall s s', below_bound s -> step cap s s' -> In s' (steps cap maxd s).
  Proof.
    intros s s' B [l F]. unfold steps, lsteps, lsteps_with. apply in_map_iff.
    exists (l, s'). split; auto. apply in_flat_map. exists l. split.
    - eapply label_listed; eauto.
    - rewrite F. left. reflexivity.
  Qed.
End Exec.

(** ** Legacy refutations: the hand-off before 76ce114 *)

Scheme Boolean Equality for label.

(* follow a trace of labels through an executable labelled successor function *)
Fixpoint follow (succ : dstate -> list (label * dstate)) (tr : list label) (s : dstate) : option dstate :=
  match tr with
  | [] => Some s
  | l :: r =>
    match find (fun p => label_beq (fst p) l) (succ s) with
    | Some p => follow succ r (snd p)
    | None => None
    end
  end.

Definition go_depth := CGo (mkGo false false true false).     (* go depth n: ends by itself *)
Definition go_inf := CGo (mkGo true false false false).       (* go infinite *)
Definition go_movetime := CGo (mkGo false true false false).  (* go movetime n *)

(** (1) go depth; quit closes the output while the search runs; the iteration completes and the
        search ends; the forwarder wins the CAS and sends the bestmove on the closed channel. *)
Definition legacy_trace1 := [LCmd; LCmd; LIter 1 true; LFRecv 1; LFPost 1; LFClosed 1; LFPostDone 1].
Example legacy_send_on_closed :
  exists s, follow (lg_lsteps 400 3) legacy_trace1 (init_state [go_depth; CQuit]) = Some s
            /\ crashed s = true /\ out_closed s = true.
Proof. eexists. vm_compute. repeat split. Qed.

(** the same trace is harmless in the repaired system: the update is posted to the loop, which has
    halted the search before it closed the output and is gone *)
Example fixed_trace1 :
  exists s, follow (lsteps 400 3) [LCmd; LCmd; LIter 1 true; LHaltInit; LHaltDone; LFRecv 1; LFPost 1; LFClosed 1; LFPostDone 1]
              (init_state [go_depth; CQuit]) = Some s
            /\ crashed s = false /\ out_closed s = true /\ emitted s = [].
Proof. eexists. vm_compute. repeat split. Qed.

(** (2) search 1 has ended and its forwarder has seen the close but not yet completed; the next go
        deactivates, halts, launches search 2 and re-activates; the old forwarder now wins the CAS:
        a bestmove of search 1 is emitted while search 2 is the one the user waits for. *)
Definition legacy_trace2 := [LCmd; LIter 1 true; LFRecv 1; LFPost 1; LFClosed 1; LCmd; LHaltInit; LHaltDone; LFPostDone 1].
Example legacy_stale_bestmove :
  exists s, follow (lg_lsteps 400 3) legacy_trace2 (init_state [go_depth; go_depth]) = Some s
            /\ emitted s = [LBest 1 1] /\ searches s = 2 /\ inp s = [] /\ active s = 0.
Proof. eexists. vm_compute. repeat split. Qed.

(** (3) go movetime; stop (answered); go infinite; the stale timer of search 1 fires and halts
        search 2 behind the loop's back; the user's stop then finds no active search: search 2
        is never answered although the state is quiescent. *)
Definition legacy_trace3 :=
  [LCmd; LIter 1 false; LCmd; LHaltInit; LHalted 1; LHaltDone;     (* go movetime; stop -> bestmove *)
   LFRecv 1; LFPost 1; LFClosed 1; LFPostDone 1; LRecv;            (* forwarder 1 finishes (CAS fails) *)
   LCmd; LIter 2 false;                                            (* go infinite, depth 1 done *)
   LTMove 1; LTLegInit 2; LHalted 2; LTLegDone 2;                  (* stale timer: Engine.Halt *)
   LCmd;                                                           (* stop: no active search *)
   LFRecv 2; LFPost 2; LFClosed 2; LRecv].                         (* forwarder 2: info, infinite *)
Example legacy_stale_timer :
  exists s, follow (lg_lsteps 400 3) legacy_trace3 (init_state [go_movetime; CStop; go_inf; CStop]) = Some s
            /\ inp s = [] /\ pc s = PIdle /\ searches s = 2
            /\ count_best 2 (emitted s) = 0 /\ count_best 1 (emitted s) = 1
            /\ g_stopped s = true /\ g_super s = false
            /\ lg_lsteps 400 3 s = [(LCmd, finish s)].   (* nothing left but the end of input *)
Proof. eexists. vm_compute. repeat split. Qed.

(** the corresponding run of the repaired system: the expired update of search 1 is dropped *)
Example fixed_trace3 :
  exists s, follow (lsteps 400 3)
              [LCmd; LIter 1 false; LCmd; LHaltInit; LHalted 1; LHaltDone;
               LCmd; LIter 2 false; LTMove 1; LRecv; LCmd; LHaltInit; LHalted 2; LHaltDone]
              (init_state [go_movetime; CStop; go_inf; CStop]) = Some s
            /\ count_best 2 (emitted s) = 1 /\ count_best 1 (emitted s) = 1.
Proof. eexists. vm_compute. repeat split. Qed.

(** ** Bounded exhaustive exploration (sanity check of model and statements, NOT the proof) *)

Definition script1 := [go_depth; CIsReady; CStop; go_inf; CStop; CQuit].

Definition search_inf_b (s : dstate) (q : nat) : bool :=
  match find_h q (srchs s) with Some r => g_inf (h_opt r) | None => false end.

Definition owed_b (s : dstate) : bool :=
  negb (searches s =? 0) && negb (g_super s) && (negb (search_inf_b s (searches s)) || g_stopped s).

Definition pc_idle_or_exited (s : dstate) : bool :=
  match pc s with PIdle | PExited => true | _ => false end.

Definition check_state (cap maxd : nat) (script : list cmd) (s : dstate) : bool :=
  negb (crashed s)                                                            (* no_send_on_closed *)
  && forallb (fun q => count_best q (emitted s) <=? 1) (seq 0 (S (searches s)))  (* at_most_one *)
  && ((active s =? 0) || (active s =? searches s))
  && (count_ready (emitted s) =? count_cmd is_isready (consumed s))           (* isready_answered *)
  && (Bool.eqb (out_closed s) (match pc s with PExited => true | _ => false end))
  && ((match pc s with PExited => true | _ => false end) || step_enabled cap maxd s)   (* no_deadlock *)
  && (negb (negb (internal_enabled cap maxd s) && pc_idle_or_exited s && owed_b s)
      || (count_best (searches s) (emitted s) =? 1))                          (* exactly_one *)
  && (negb (match pc s with PExited => true | _ => false end)
      || (obs_ok script (observed s) && obs_counts_ok script (observed s))).  (* trace checker accepts *)

Definition quiescent_owed (cap maxd : nat) (s : dstate) : bool :=
  negb (internal_enabled cap maxd s) && pc_idle_or_exited s && owed_b s.

(** all interleavings of script1 with at most 2 iterations continued per search: 3289 states,
    every one satisfies the invariants; 28 of them are quiescent with an owed go (non-vacuity
    of exactly_one), 72 are terminated. *)
Example explore_script1 :
  match explore 400 2 200 script1 with
  | Some all =>
      (length all =? 3289) && forallb (check_state 400 2 script1) all
      && (0 <? length (filter (quiescent_owed 400 2) all))
      && (0 <? length (filter (fun s => match pc s with PExited => true | _ => false end) all))
  | None => false
  end = true.
Proof. vm_cast_no_check (eq_refl true). Qed.

(** with a ponder queue of capacity 1 (forwarders and timers really block) and a movetime go *)
Definition script2 := [go_movetime; CIsReady; CPosition true; go_depth; CQuit].
Example explore_script2 :
  match explore 1 2 200 script2 with
  | Some all => forallb (check_state 1 2 script2) all
  | None => false
  end = true.
Proof. vm_cast_no_check (eq_refl true). Qed.

(** ** The trace checker on hand-made observations *)
Example obs_good1 : obs_ok script1 [OInfo; OReady; OInfo; OBest; OInfo; OInfo; OBest] = true.
Proof. vm_cast_no_check (eq_refl true). Qed.
Example obs_good2 : obs_ok script1 [OInfo; OBest; OReady; OInfo; OBest] = true.   (* depth search ended by itself *)
Proof. vm_cast_no_check (eq_refl true). Qed.
Example obs_bad_missing_best : obs_ok script1 [OReady; OInfo; OBest] = false.      (* second stop unanswered *)
Proof. vm_cast_no_check (eq_refl false). Qed.
Example obs_bad_two_best : obs_ok script1 [OBest; OReady; OBest; OBest] = false.    (* two answers to one go *)
Proof. vm_cast_no_check (eq_refl false). Qed.
Example obs_bad_no_ready : obs_ok script1 [OBest; OBest] = false.
Proof. vm_cast_no_check (eq_refl false). Qed.
Example obs_bad_after_quit : obs_ok [go_depth; CQuit; CIsReady] [OReady] = false.
Proof. vm_cast_no_check (eq_refl false). Qed.
Example obs_bad_stale : obs_ok [go_depth; CPosition true; CIsReady] [OReady; OBest] = false.   (* bestmove after position *)
Proof. vm_cast_no_check (eq_refl false). Qed.
Example obs_eager_trap : obs_ok [go_depth; go_depth; CStop] [OBest] = true.         (* needs backtracking *)
Proof. vm_cast_no_check (eq_refl true). Qed.
