(** QueriesLemmas1 — FindCapture (pkg/eval/capture.go) against its specification.
    [find_capture pos side sq] lists exactly the (piece, square) of colour [side] that geometrically
    attack [sq] on the abstracted board; the list is grouped by piece in the order K Q R N B P and
    within one piece the squares ascend ([find_capture_exact]). *)
From Coq Require Import NArith ZArith List Bool Lia ZifyBool ZifyNat ZifyN Sorted Permutation.
From Morlock.Model Require Import Bits Attacks Move Position Abs Queries.
From Morlock.Spec Require Import Chess.
From Morlock.Lemmas Require Import AttackGeometry AttackGeometry_Extra PositionLemmas MoveGen1 MoveGen2.
Import ListNotations.
Open Scope N_scope.

(* ------------------------------------------------------------------ *)
(** * generic list facts *)

Lemma nodup_app {A} (l1 l2 : list A) : NoDup l1 -> NoDup l2 ->
  (forall x, In x l1 -> In x l2 -> False) -> NoDup (l1 ++ l2).
Proof.
  induction l1 as [|a l1 IH]; intros H1 H2 Hd; [exact H2|].
  inversion H1 as [|? ? Hn H1']; subst. cbn [app]. constructor.
  - rewrite in_app_iff. intros [H|H]; [contradiction|]. apply (Hd a); [now left|exact H].
  - apply IH; auto. intros x Hx. apply Hd. now right.
Qed.

Lemma nodup_flat_map {A B} (f : A -> list B) l : NoDup l -> (forall x, In x l -> NoDup (f x)) ->
  (forall x y z, In x l -> In y l -> In z (f x) -> In z (f y) -> x = y) -> NoDup (flat_map f l).
Proof.
  induction l as [|a l IH]; intros Hl Hf Hd; [constructor|].
  inversion Hl as [|? ? Hn Hl']; subst. cbn [flat_map]. apply nodup_app.
  - apply Hf. now left.
  - apply IH; auto.
    + intros x Hx. apply Hf. now right.
    + intros x y z Hx Hy. apply Hd; now right.
  - intros z Hz1 Hz2. apply in_flat_map in Hz2 as [y [Hy Hz2]].
    assert (E : a = y) by (apply (Hd a y z); auto; [now left|now right]). subst y. contradiction.
Qed.

Lemma nodup_map_inj {A B} (f : A -> B) l : (forall x y, In x l -> In y l -> f x = f y -> x = y) ->
  NoDup l -> NoDup (map f l).
Proof.
  induction l as [|a l IH]; intros Hi Hl; [constructor|].
  inversion Hl as [|? ? Hn Hl']; subst. cbn [map]. constructor.
  - intros H. apply in_map_iff in H as [y [E Hy]]. apply Hi in E; [subst y; contradiction|now right|now left].
  - apply IH; auto. intros x y Hx Hy. apply Hi; now right.
Qed.

Lemma ssorted_filter (f : N -> bool) l : StronglySorted N.lt l -> StronglySorted N.lt (filter f l).
Proof.
  induction 1 as [|a l Hs IH Hf]; cbn [filter]; [constructor|].
  destruct (f a); [|exact IH]. constructor; [exact IH|].
  rewrite Forall_forall in *. intros x Hx. apply filter_In in Hx as [Hx _]. now apply Hf.
Qed.

Lemma ssorted_seq a n : StronglySorted N.lt (map N.of_nat (seq a n)).
Proof.
  revert a. induction n as [|n IH]; intros a; cbn [seq map]; constructor; [apply IH|].
  apply Forall_forall. intros x Hx. apply in_map_iff in Hx as [y [<- Hy]]. apply in_seq in Hy. lia.
Qed.

Lemma ssorted_seqN n : StronglySorted N.lt (seqN n).
Proof. apply ssorted_seq. Qed.

(** the set bits of a 64-bit word, ascending = the squares 0..63 filtered by the bit test *)
Theorem bits_asc_filter b : b < 2 ^ 64 -> bits_asc b = filter (N.testbit b) (seqN 64).
Proof.
  intros Hb. apply bits_asc_unique.
  - apply ssorted_filter, ssorted_seqN.
  - intros s. rewrite filter_In, PositionLemmas.in_seqN64. split; [tauto|].
    intros H. split; [|exact H]. eapply word_tb_lt; eassumption.
Qed.

Lemma land_word_r x y : y < 2 ^ 64 -> N.land x y < 2 ^ 64.
Proof.
  intros Hy. apply word_bits. intros i Hi. rewrite N.land_spec.
  rewrite (proj1 (word_bits y) Hy i Hi). apply andb_false_r.
Qed.

(* ------------------------------------------------------------------ *)
(** * the capture test *)

(** "the piece of kind [k] and colour [side] on [s] attacks [sq]", on the abstracted board *)
Definition captures_b (pos : position) (side sq : N) (k : kind) (s : N) : bool :=
  N.testbit (pget pos side (code_of_kind k)) s &&
  mem_nat (N.to_nat sq) (attacks_from (occupied (brd (abs_pos pos))) (color_of side) k (N.to_nat s)).

Lemma officer_bit pos side sq k s : Inv pos -> vcol side -> sq < 64 -> k <> P ->
  N.testbit (N.land (attackboard (rotated_bb pos) sq (code_of_kind k)) (pget pos side (code_of_kind k))) s =
  captures_b pos side sq k s.
Proof.
  intros HI Hc Hsq Hk. unfold captures_b. rewrite N.land_spec, andb_comm.
  destruct (N.testbit (pget pos side (code_of_kind k)) s) eqn:Hb; [|reflexivity].
  assert (Hs : s < 64) by (eapply word_tb_lt; [apply pget_word; exact HI|exact Hb]).
  rewrite !andb_true_l, attackboard_mem by assumption.
  destruct (N.ltb_spec s 64); [|lia]. rewrite andb_true_l.
  rewrite (attacks_from_color _ (color_of side)) by exact Hk.
  symmetry. apply attacks_sym; [exact Hk|lia|lia].
Qed.

(** the reverse-direction trick: the pawns of [side] attacking [sq] are the squares a pawn of the
    opponent standing on [sq] would attack *)
Lemma pawn_reverse side sq s : vcol side -> sq < 64 ->
  N.testbit (pawn_captureboard (opponent side) (bitmask sq)) s =
  (s <? 64) && mem_nat (N.to_nat sq) (attacks_from free (color_of side) P (N.to_nat s)).
Proof.
  intros Hc Hsq.
  rewrite Statements.pawn_capture_geometric; [|apply vcol_opponent|apply bitmask_word].
  destruct (N.ltb_spec s 64) as [Hs|Hs]; [|reflexivity]. rewrite !andb_true_l.
  apply bool_eq_iff. rewrite existsb_exists. split.
  - intros [x [Hx H]]. apply andb_true_iff in H as [H1 H2].
    rewrite PositionLemmas.tb_bitmask in H1. apply andb_true_iff in H1 as [_ H1].
    apply N.eqb_eq in H1. assert (Ex : x = N.to_nat sq) by lia. subst x.
    destruct Hc as [-> | ->]; cbn [opponent color_of N.eqb White Black] in *.
    + change (if opponent 0 =? 0 then Wh else Bl) with Bl in H2.
      rewrite (pawn_attacks_sym free free (N.to_nat s) (N.to_nat sq)) by lia. exact H2.
    + change (if opponent 1 =? 0 then Wh else Bl) with Wh in H2.
      rewrite <- (pawn_attacks_sym free free (N.to_nat sq) (N.to_nat s)) by lia. exact H2.
  - intros H. exists (N.to_nat sq). split; [apply in_all_squares; lia|].
    rewrite N2Nat.id, PositionLemmas.tb_bitmask, N.eqb_refl.
    destruct (N.ltb_spec sq 64); [|lia]. rewrite !andb_true_l.
    destruct Hc as [-> | ->].
    + change (if opponent 0 =? 0 then Wh else Bl) with Bl. change (color_of 0) with Wh in H.
      rewrite <- (pawn_attacks_sym free (fun _ => false) (N.to_nat s) (N.to_nat sq)) by lia. exact H.
    + change (if opponent 1 =? 0 then Wh else Bl) with Wh. change (color_of 1) with Bl in H.
      rewrite (pawn_attacks_sym (fun _ => false) free (N.to_nat sq) (N.to_nat s)) by lia. exact H.
Qed.

Lemma pawn_bit pos side sq s : Inv pos -> vcol side -> sq < 64 ->
  N.testbit (N.land (pawn_captureboard (opponent side) (bitmask sq)) (pget pos side Pawn)) s =
  captures_b pos side sq P s.
Proof.
  intros HI Hc Hsq. unfold captures_b. change (code_of_kind P) with Pawn. rewrite N.land_spec, andb_comm.
  destruct (N.testbit (pget pos side Pawn) s) eqn:Hb; [|reflexivity].
  assert (Hs : s < 64) by (eapply word_tb_lt; [apply pget_word; exact HI|exact Hb]).
  rewrite !andb_true_l, pawn_reverse by assumption.
  destruct (N.ltb_spec s 64); [|lia]. reflexivity.
Qed.

(* ------------------------------------------------------------------ *)
(** * exact shape of the list (order included) *)

Definition capture_order : list kind := [K; Q; R; Kn; Bi; P].

Theorem find_capture_exact pos side sq : Inv pos -> vcol side -> sq < 64 ->
  find_capture pos side sq =
  flat_map (fun k => map (fun s => (code_of_kind k, s)) (filter (captures_b pos side sq k) (seqN 64)))
           capture_order.
Proof.
  intros HI Hc Hsq. unfold find_capture, capture_order, KingQueenRookKnightBishop.
  cbn [flat_map]. rewrite !app_nil_r, <- !app_assoc.
  assert (HO : forall k, k <> P ->
     bits_asc (N.land (attackboard (rotated_bb pos) sq (code_of_kind k)) (pget pos side (code_of_kind k))) =
     filter (captures_b pos side sq k) (seqN 64)).
  { intros k Hk. rewrite bits_asc_filter by (apply land_word_r, pget_word; exact HI).
    apply filter_ext. intros s. now apply officer_bit. }
  change King with (code_of_kind K). change Queen with (code_of_kind Q). change Rook with (code_of_kind R).
  change Knight with (code_of_kind Kn). change Bishop with (code_of_kind Bi).
  rewrite !HO by discriminate.
  rewrite bits_asc_filter by (apply land_word_r, pget_word; exact HI).
  rewrite (filter_ext (N.testbit (N.land (pawn_captureboard (opponent side) (bitmask sq)) (pget pos side Pawn)))
                      (captures_b pos side sq P)) by (intros s; now apply pawn_bit).
  reflexivity.
Qed.

(** order: the pieces appear in the order K Q R N B P, and the squares of one piece ascend *)
Lemma filter_kind (c c' : N) (l : list N) :
  map snd (filter (fun x : N * N => fst x =? c) (map (fun s => (c', s)) l)) = if c' =? c then l else [].
Proof.
  induction l as [|a l IH]; [now destruct (c' =? c)|].
  cbn [map filter fst]. destruct (c' =? c); [cbn [map snd]; now rewrite IH|exact IH].
Qed.

Corollary find_capture_squares_ascend pos side sq k : Inv pos -> vcol side -> sq < 64 ->
  StronglySorted N.lt (map snd (filter (fun x => fst x =? code_of_kind k) (find_capture pos side sq))).
Proof.
  intros HI Hc Hsq. rewrite find_capture_exact by assumption. unfold capture_order. cbn [flat_map].
  rewrite app_nil_r, !filter_app, !map_app, !filter_kind.
  destruct k;
    repeat match goal with |- context [code_of_kind ?a =? code_of_kind ?b] =>
      let v := eval vm_compute in (code_of_kind a =? code_of_kind b) in
      change (code_of_kind a =? code_of_kind b) with v end;
    cbv iota; rewrite ?app_nil_l, ?app_nil_r; apply ssorted_filter, ssorted_seqN.
Qed.

(* ------------------------------------------------------------------ *)
(** * membership and uniqueness *)

Lemma in_capture_order k : In k capture_order.
Proof. destruct k; cbn; tauto. Qed.

Lemma nodup_capture_order : NoDup capture_order.
Proof.
  unfold capture_order.
  repeat (constructor; [cbn [In]; intros H; repeat (destruct H as [H|H]; [discriminate|]); exact H|]).
  constructor.
Qed.

Lemma in_find_capture pos side sq p s : Inv pos -> vcol side -> sq < 64 ->
  (In (p, s) (find_capture pos side sq) <->
   exists k, p = code_of_kind k /\ s < 64 /\ captures_b pos side sq k s = true).
Proof.
  intros HI Hc Hsq. rewrite find_capture_exact by assumption. rewrite in_flat_map. split.
  - intros [k [_ H]]. apply in_map_iff in H as [s' [E H]]. inversion E; subst.
    apply filter_In in H as [H1 H2]. apply PositionLemmas.in_seqN64 in H1. exists k. auto.
  - intros [k [-> [Hs H]]]. exists k. split; [apply in_capture_order|].
    apply in_map_iff. exists s. split; [reflexivity|]. apply filter_In.
    split; [now apply PositionLemmas.in_seqN64|exact H].
Qed.

Lemma nodup_find_capture pos side sq : Inv pos -> vcol side -> sq < 64 -> NoDup (find_capture pos side sq).
Proof.
  intros HI Hc Hsq. rewrite find_capture_exact by assumption.
  apply nodup_flat_map; [apply nodup_capture_order| |].
  - intros k _. apply nodup_map_inj; [intros x y _ _ E; now inversion E|].
    apply NoDup_filter, NoDup_seqN.
  - intros k k' z _ _ H1 H2. apply in_map_iff in H1 as [s1 [<- _]]. apply in_map_iff in H2 as [s2 [E _]].
    inversion E as [[E1 E2]]. now apply code_of_kind_inj in E1.
Qed.

Lemma in_spec_capturers b c t k n :
  In (k, n) (spec_capturers b c t) <->
  (n < 64)%nat /\ at_ b n = Some (c, k) /\ mem_nat t (attacks_from (occupied b) c k n) = true.
Proof.
  unfold spec_capturers. rewrite in_flat_map. split.
  - intros [s [Hs H]]. apply in_all_squares in Hs.
    destruct (at_ b s) as [[c' k']|] eqn:E; [|destruct H].
    destruct (color_eqb c c') eqn:Ec; [|destruct H]. apply color_eqb_eq in Ec. subst c'.
    cbn [andb] in H. destruct (mem_nat t (attacks_from (occupied b) c k' s)) eqn:Em; [|destruct H].
    destruct H as [H|[]]. inversion H; subst. auto.
  - intros [Hn [E H]]. exists n. split; [now apply in_all_squares|].
    rewrite E, (proj2 (color_eqb_eq c c) eq_refl), H. now left.
Qed.

Lemma nodup_spec_capturers b c t : NoDup (spec_capturers b c t).
Proof.
  unfold spec_capturers. apply nodup_flat_map; [apply seq_NoDup| |].
  - intros s _. destruct (at_ b s) as [[c' k]|]; [|constructor].
    destruct (color_eqb c c' && mem_nat t (attacks_from (occupied b) c k s)); [|constructor].
    constructor; [intros []|constructor].
  - intros s s' z _ _ H1 H2.
    assert (E : forall x, In z (match at_ b x with
                | Some (c', k) => if color_eqb c c' && mem_nat t (attacks_from (occupied b) c k x) then [(k, x)] else []
                | None => [] end) -> snd z = x).
    { intros x H. destruct (at_ b x) as [[c' k]|]; [|destruct H].
      destruct (color_eqb c c' && mem_nat t (attacks_from (occupied b) c k x)); [|destruct H].
      destruct H as [<-|[]]. reflexivity. }
    rewrite <- (E s H1). now apply E.
Qed.

(* ------------------------------------------------------------------ *)
(** * the theorem *)

Definition cap_code (y : kind * nat) : N * N := (code_of_kind (fst y), N.of_nat (snd y)).
Definition cap_abs (x : N * N) : option kind * nat := (kind_of (fst x), N.to_nat (snd x)).
Definition cap_some (y : kind * nat) : option kind * nat := (Some (fst y), snd y).

Theorem find_capture_perm_code pos side sq : Inv pos -> vcol side -> sq < 64 ->
  Permutation (find_capture pos side sq)
              (map cap_code (spec_capturers (brd (abs_pos pos)) (color_of side) (N.to_nat sq))).
Proof.
  intros HI Hc Hsq. apply NoDup_Permutation.
  - now apply nodup_find_capture.
  - apply nodup_map_inj; [|apply nodup_spec_capturers].
    intros [k n] [k' n'] _ _ E. unfold cap_code in E. cbn [fst snd] in E. inversion E as [[E1 E2]].
    apply code_of_kind_inj in E1. f_equal; [exact E1|lia].
  - intros [p s]. rewrite in_find_capture by assumption. rewrite in_map_iff. split.
    + intros [k [-> [Hs H]]]. exists (k, N.to_nat s). unfold cap_code. cbn [fst snd]. rewrite N2Nat.id.
      split; [reflexivity|]. apply in_spec_capturers. unfold captures_b in H.
      apply andb_true_iff in H as [H1 H2]. split; [lia|]. split; [|exact H2]. now apply at_piece.
    + intros [[k n] [E H]]. unfold cap_code in E. cbn [fst snd] in E. inversion E; subst.
      apply in_spec_capturers in H as [Hn [H1 H2]]. exists k. split; [reflexivity|]. split; [lia|].
      unfold captures_b. rewrite Nat2N.id, H2, andb_true_r.
      replace n with (N.to_nat (N.of_nat n)) in H1 by lia. apply at_piece in H1; auto. lia.
Qed.

(** (a) FindCapture, with pieces and squares mapped to the specification's (kind, nat), is a
    permutation of the specification's list of capturers *)
Theorem find_capture_spec : forall pos side sq,
  inv_b pos = true -> (side = White \/ side = Black) -> sq < 64 ->
  Permutation (map cap_abs (find_capture pos side sq))
              (map cap_some (spec_capturers (brd (abs_pos pos)) (color_of side) (N.to_nat sq))).
Proof.
  intros pos side sq HI Hc Hsq. apply inv_b_iff in HI.
  rewrite (Permutation_map cap_abs (find_capture_perm_code pos side sq HI Hc Hsq)).
  rewrite map_map. erewrite map_ext; [reflexivity|].
  intros [k n]. unfold cap_abs, cap_code, cap_some. cbn [fst snd]. now rewrite kind_of_code, Nat2N.id.
Qed.

(** every reported piece is a real piece kind (so [cap_abs] loses nothing) *)
Theorem find_capture_kinds pos side sq p s : In (p, s) (find_capture pos side sq) -> exists k, kind_of p = Some k.
Proof.
  unfold find_capture. rewrite in_app_iff, in_flat_map. intros [[pc [Hpc H]]|H].
  - apply in_map_iff in H as [s' [E _]]. inversion E; subst.
    unfold KingQueenRookKnightBishop in Hpc. cbn [In] in Hpc.
    destruct Hpc as [<-|[<-|[<-|[<-|[<-|[]]]]]]; eexists; reflexivity.
  - apply in_map_iff in H as [s' [E _]]. inversion E; subst. eexists; reflexivity.
Qed.

Print Assumptions find_capture_exact.
Print Assumptions find_capture_squares_ascend.
Print Assumptions find_capture_spec.
