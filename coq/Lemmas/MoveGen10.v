(** MoveGen10 — [legal_moves_fide]: the moves accepted by [Position.Move] among the pseudo-legal ones are
    exactly the specification's legal moves (castling attack conditions and own king not left in check),
    each listed once. *)
From Coq Require Import NArith ZArith List Bool Lia ZifyBool ZifyNat ZifyN.
From Morlock.Model Require Import Bits Attacks Move Position Abs.
From Morlock.Spec Require Import Chess.
From Morlock.Lemmas Require Import PositionLemmas MoveRefines1 MoveRefines2 MoveRefines4 MoveGen9.
From Morlock.Lemmas Require Import AttackGeometry AttackGeometry_Extra MoveGen1 MoveGen2 MoveGen3 MoveGen4 MoveGen5 MoveGen6 MoveGen7 MoveGen8.
Import ListNotations.
Open Scope N_scope.

(** * IsChecked for any number of kings: both sides look at the king on the lowest square *)

Lemma find_seq_min (f : nat -> bool) : forall len a n, find f (seq a len) = Some n ->
  f n = true /\ (a <= n)%nat /\ forall j, (a <= j < n)%nat -> f j = false.
Proof.
  induction len as [|len IH]; intros a n H; cbn [seq find] in H; [discriminate|].
  destruct (f a) eqn:E.
  - inversion H; subst. split; [exact E|]. split; [lia|]. intros j Hj. lia.
  - apply IH in H as [H1 [H2 H3]]. split; [exact H1|]. split; [lia|].
    intros j Hj. destruct (Nat.eq_dec j a) as [->|Hne]; [exact E|apply H3; lia].
Qed.

Theorem is_checked_iff_gen : forall pos c, Inv pos -> (c = 0 \/ c = 1) ->
  is_checked pos c = in_check (brd (abs_pos pos)) (color_of c).
Proof.
  intros pos c HI Hc. unfold is_checked, in_check, king_square.
  set (kb := pget pos c King).
  set (f := fun s => match at_ (brd (abs_pos pos)) s with Some (c', K) => color_eqb (color_of c) c' | _ => false end).
  assert (Hf : forall s, s < 64 -> f (N.to_nat s) = N.testbit kb s).
  { intros s Hs. apply bool_eq_iff. unfold f. split.
    - destruct (at_ (brd (abs_pos pos)) (N.to_nat s)) as [[c' k']|] eqn:E; [|discriminate].
      destruct k'; try discriminate. intros H. apply color_eqb_eq in H. subst c'.
      apply at_piece in E; assumption.
    - intros H. rewrite (proj2 (at_piece pos s c K HI Hs Hc) H). apply color_eqb_refl. }
  assert (Hfn : forall n, (n < 64)%nat -> f n = N.testbit kb (N.of_nat n)).
  { intros n Hn. rewrite <- Hf by lia. now rewrite Nat2N.id. }
  destruct (N.eq_dec kb 0) as [E0|E0].
  - rewrite E0. cbn [ctz N.eqb]. destruct (find f all_squares) as [n|] eqn:F; [|reflexivity].
    apply find_some in F as [Hn F]. apply in_all_squares in Hn. rewrite Hfn, E0, N.bits_0 in F by exact Hn. discriminate.
  - destruct (ctz_spec kb E0) as [K1 K2].
    assert (Hk : ctz kb < 64) by (apply ctz_lt64; [exact E0|apply (pget_word pos c King HI)]).
    destruct (N.eqb_spec (ctz kb) 64) as [E|_]; [lia|].
    assert (F : find f all_squares = Some (N.to_nat (ctz kb))).
    { destruct (find f all_squares) as [n|] eqn:F.
      - pose proof (find_some _ _ F) as [Hn _]. apply in_all_squares in Hn.
        unfold all_squares in F. apply find_seq_min in F as [F1 [_ F3]].
        rewrite Hfn in F1 by exact Hn. f_equal.
        destruct (N.lt_trichotomy (N.of_nat n) (ctz kb)) as [L|[L|L]]; [|lia|].
        + rewrite (K2 _ L) in F1. discriminate.
        + specialize (F3 (N.to_nat (ctz kb)) ltac:(lia)). rewrite Hf, K1 in F3 by exact Hk. discriminate.
      - exfalso. apply find_none with (x := N.to_nat (ctz kb)) in F; [|apply in_all_squares; lia].
        rewrite Hf, K1 in F by exact Hk. discriminate. }
    rewrite F. now apply is_attacked_iff.
Qed.
Print Assumptions is_checked_iff_gen.

(** * acceptance by [Position.Move] *)

Definition blocked (p : position) (turn : N) (m : move) : bool :=
  negb (mtype m =? EnPassant) && is_castle m &&
  existsb (fun sq => is_attacked p turn sq) (safe_castling_squares turn (mtype m)).

Definition accepted (p : position) (m : move) : bool :=
  match pos_move p m with Some _ => true | None => false end.

Theorem accepted_spec p turn m : wf_b p turn = true -> vcol turn -> In m (pseudo_legal_moves p turn) ->
  accepted p m = negb (blocked p turn m) && legal_b (abs_pos p) (color_of turn) (abs_move m).
Proof.
  intros Hwf Hc Hin. pose proof (pseudo_shape p turn m Hwf Hin) as Hsh.
  destruct (move_result_spec p turn m Hwf Hsh) as [HIr [Habs Hmv]].
  unfold accepted. rewrite Hmv. fold (blocked p turn m). destruct (blocked p turn m); [reflexivity|].
  cbn [negb andb]. unfold legal_b. rewrite <- Habs, <- is_checked_iff_gen by assumption.
  destruct (is_checked (move_result p turn m) turn); reflexivity.
Qed.

(** * the specification's castling list *)

Definition castle_mk (b : mboard) (c : color) (right : bool) (ks rs : nat) (between : list nat) (transit dst : nat) : list smove :=
  if right && (match at_ b ks with Some (c', K) => color_eqb c c' | _ => false end)
           && (match at_ b rs with Some (c', R) => color_eqb c c' | _ => false end)
           && forallb (fun s => negb (occupied b s)) between
           && negb (attacked b (other c) ks) && negb (attacked b (other c) transit)
  then [mkSmove ks dst None] else [].

Lemma castle_moves_eq sp c : castle_moves sp c =
  match c with
  | Wh => castle_mk (brd sp) c (wk (rts sp)) e1 h1 [f1; g1] f1 g1 ++ castle_mk (brd sp) c (wq (rts sp)) e1 a1 [d1; c1; b1] d1 c1
  | Bl => castle_mk (brd sp) c (bk (rts sp)) e8 h8 [f8; g8] f8 g8 ++ castle_mk (brd sp) c (bq (rts sp)) e8 a8 [d8; c8; b8] d8 c8
  end.
Proof. destruct c; reflexivity. Qed.

Lemma castle_mk_iff b c right ks rs between transit dst sm :
  In sm (castle_mk b c right ks rs between transit dst) <->
  In sm (castle_pseudo_mk b c right ks rs between dst) /\
  attacked b (other c) ks = false /\ attacked b (other c) transit = false.
Proof.
  unfold castle_mk, castle_pseudo_mk.
  destruct (right && _ && _ && _); cbn [andb].
  - destruct (attacked b (other c) ks), (attacked b (other c) transit); cbn [negb andb In];
    intuition discriminate.
  - cbn [In]. tauto.
Qed.

(** a move whose expected record is a castling record is a castling move of the specification *)
Lemma castle_type_origin sp c sm : is_castle (concretize sp c sm) = true -> is_castling_move (brd sp) sm = true.
Proof.
  unfold concretize, is_castle. cbn [mtype]. unfold expected_type.
  destruct (is_ep_move sp sm); [discriminate|].
  destruct (is_castling_move (brd sp) sm); [reflexivity|].
  destruct (is_double_step (brd sp) sm); [discriminate|].
  destruct (moving sp sm) as [[]|]; destruct (rank_of (sto sm) =? last_rank c)%Z;
  destruct (occupied (brd sp) (sto sm)); discriminate.
Qed.

Lemma piece_moves_sfrom sp c k s sm : In sm (piece_moves sp c k s) -> sfrom sm = s.
Proof.
  intros H. destruct (kind_eqb k P) eqn:E.
  - assert (k = P) by (destruct k; try discriminate; reflexivity). subst k.
    apply spec_pawn_elim in H as [[_ [_ H]]|[[_ [_ [_ ->]]]|[[t [_ [_ H]]]|[t [_ [_ [_ ->]]]]]]]; try reflexivity;
    apply pawn_moves_to_in in H; destruct (_ =? _)%Z; [destruct H as [k [_ ->]]|subst sm|destruct H as [k [_ ->]]|subst sm]; reflexivity.
  - rewrite piece_moves_officer in H by (intros ->; discriminate).
    apply in_map_iff in H as [t [<- _]]. reflexivity.
Qed.

Lemma piece_cand_not_castling sp c sm : In sm (piece_candidates sp c) -> is_castling_move (brd sp) sm = false.
Proof.
  intros H. apply piece_candidates_inv in H as [s [k [Hs [E H]]]].
  pose proof (piece_moves_sfrom _ _ _ _ _ H) as Es. unfold is_castling_move. rewrite Es, E.
  destruct k; try reflexivity.
  rewrite piece_moves_officer in H by discriminate. apply in_map_iff in H as [t [<- H]].
  apply filter_In in H as [H _]. cbn [sfrom sto]. eapply king_step_file; [exact Hs|apply mem_nat_In; exact H].
Qed.

(** one castling candidate: blocked by [safeCastlingSquares] iff the king's square or the transit square
    is attacked *)
Lemma castle_case_legal p turn right ksN rsN trN dstN between T m :
  Inv p -> vcol turn -> ksN < 64 -> trN < 64 ->
  In (N.to_nat dstN) between ->
  (Z.abs (file_of (N.to_nat ksN) - file_of (N.to_nat dstN)) =? 2)%Z = true ->
  T = (if (file_of (N.to_nat dstN) <? file_of (N.to_nat ksN))%Z then KingSideCastle else QueenSideCastle) ->
  safe_castling_squares turn T = [ksN; trN] ->
  metadata_ok p turn m ->
  In (abs_move m) (castle_pseudo_mk (brd (abs_pos p)) (color_of turn) right (N.to_nat ksN) (N.to_nat rsN) between (N.to_nat dstN)) ->
  (blocked p turn m = false <->
   attacked (brd (abs_pos p)) (other (color_of turn)) (N.to_nat ksN) = false /\
   attacked (brd (abs_pos p)) (other (color_of turn)) (N.to_nat trN) = false).
Proof.
  intros HI Hc Hks Htr Hdin Hfile HT Hsafe Hmeta Hin.
  apply castle_mk_inv in Hin as [Eab [_ [Eks [_ Hemp]]]].
  assert (Ed : at_ (brd (abs_pos p)) (N.to_nat dstN) = None).
  { specialize (Hemp _ Hdin). unfold occupied in Hemp. destruct (at_ (brd (abs_pos p)) (N.to_nat dstN)); [discriminate|reflexivity]. }
  unfold metadata_ok in Hmeta. rewrite Eab, (concretize_castle _ _ _ _ _ Eks Hfile Ed), <- HT in Hmeta.
  rewrite <- !is_attacked_iff by assumption.
  unfold blocked. rewrite Hmeta. cbn [mtype]. rewrite Hsafe. cbn [existsb]. rewrite orb_false_r.
  assert (E : negb (T =? EnPassant) && is_castle (mkMove T (N.of_nat (N.to_nat ksN)) (N.of_nat (N.to_nat dstN)) King NoPiece NoPiece) = true).
  { rewrite HT. destruct (file_of (N.to_nat dstN) <? file_of (N.to_nat ksN))%Z; reflexivity. }
  rewrite E. cbn [andb]. rewrite orb_false_iff. tauto.
Qed.

Lemma NoDup_map_filter {A B} (g : A -> B) (f : A -> bool) l : NoDup (map g l) -> NoDup (map g (filter f l)).
Proof.
  induction l as [|a l IH]; cbn [map filter]; intros H; [constructor|].
  inversion H as [|x xs Hnot ND]; subst. destruct (f a); [|now apply IH].
  cbn [map]. constructor; [|now apply IH].
  intro Hin. apply Hnot. apply in_map_iff in Hin as [y [E Hy]]. apply filter_In in Hy as [Hy _].
  rewrite <- E. now apply in_map.
Qed.

(** castling candidates of either kind, with the attack conditions, for the side [turn] *)
Lemma castle_legal_fwd p turn m : Inv p -> vcol turn -> metadata_ok p turn m ->
  In (abs_move m) (castle_pseudo (abs_pos p) (color_of turn)) -> blocked p turn m = false ->
  In (abs_move m) (castle_moves (abs_pos p) (color_of turn)).
Proof.
  intros HI Hc Hmeta Hin Hbl. rewrite castle_moves_eq. unfold castle_pseudo in Hin.
  pose proof Hc as Hc'. destruct Hc' as [Ec|Ec]; subst turn; cbn [color_of N.eqb White] in *;
  apply in_app_or in Hin as [Hin|Hin]; apply in_or_app; [left|right|left|right];
  apply castle_mk_iff; (split; [exact Hin|]).
  - pose proof (castle_case_legal p 0 (wk (rts (abs_pos p))) E1 H1 F1 G1 [f1; g1] KingSideCastle m HI Hc eq_refl eq_refl) as L.
    specialize (L ltac:(right; left; reflexivity) eq_refl eq_refl eq_refl Hmeta Hin). now apply L.
  - pose proof (castle_case_legal p 0 (wq (rts (abs_pos p))) E1 A1 D1 C1 [d1; c1; b1] QueenSideCastle m HI Hc eq_refl eq_refl) as L.
    specialize (L ltac:(right; left; reflexivity) eq_refl eq_refl eq_refl Hmeta Hin). now apply L.
  - pose proof (castle_case_legal p 1 (bk (rts (abs_pos p))) E8 H8 F8 G8 [f8; g8] KingSideCastle m HI Hc eq_refl eq_refl) as L.
    specialize (L ltac:(right; left; reflexivity) eq_refl eq_refl eq_refl Hmeta Hin). now apply L.
  - pose proof (castle_case_legal p 1 (bq (rts (abs_pos p))) E8 A8 D8 C8 [d8; c8; b8] QueenSideCastle m HI Hc eq_refl eq_refl) as L.
    specialize (L ltac:(right; left; reflexivity) eq_refl eq_refl eq_refl Hmeta Hin). now apply L.
Qed.

Lemma castle_legal_bwd p turn m : Inv p -> vcol turn -> metadata_ok p turn m ->
  In (abs_move m) (castle_moves (abs_pos p) (color_of turn)) -> blocked p turn m = false.
Proof.
  intros HI Hc Hmeta Hin. rewrite castle_moves_eq in Hin.
  pose proof Hc as Hc'. destruct Hc' as [Ec|Ec]; subst turn; cbn [color_of N.eqb White] in *;
  apply in_app_or in Hin as [Hin|Hin]; apply castle_mk_iff in Hin as [Hin Hatt].
  - pose proof (castle_case_legal p 0 (wk (rts (abs_pos p))) E1 H1 F1 G1 [f1; g1] KingSideCastle m HI Hc eq_refl eq_refl) as L.
    specialize (L ltac:(right; left; reflexivity) eq_refl eq_refl eq_refl Hmeta Hin). now apply L.
  - pose proof (castle_case_legal p 0 (wq (rts (abs_pos p))) E1 A1 D1 C1 [d1; c1; b1] QueenSideCastle m HI Hc eq_refl eq_refl) as L.
    specialize (L ltac:(right; left; reflexivity) eq_refl eq_refl eq_refl Hmeta Hin). now apply L.
  - pose proof (castle_case_legal p 1 (bk (rts (abs_pos p))) E8 H8 F8 G8 [f8; g8] KingSideCastle m HI Hc eq_refl eq_refl) as L.
    specialize (L ltac:(right; left; reflexivity) eq_refl eq_refl eq_refl Hmeta Hin). now apply L.
  - pose proof (castle_case_legal p 1 (bq (rts (abs_pos p))) E8 A8 D8 C8 [d8; c8; b8] QueenSideCastle m HI Hc eq_refl eq_refl) as L.
    specialize (L ltac:(right; left; reflexivity) eq_refl eq_refl eq_refl Hmeta Hin). now apply L.
Qed.

Lemma castle_moves_pseudo sp c sm : In sm (castle_moves sp c) -> In sm (castle_pseudo sp c).
Proof.
  rewrite castle_moves_eq. unfold castle_pseudo. destruct c; intros H; apply in_app_or in H as [H|H];
  apply castle_mk_iff in H as [H _]; apply in_or_app; auto.
Qed.

(** * deliverable 3 *)
Theorem legal_moves_fide : forall p turn, wf_b p turn = true -> (turn = 0 \/ turn = 1) ->
  (forall sm, In sm (map abs_move (legal_moves p turn)) <-> In sm (spec_legal (abs_pos p) (color_of turn))) /\
  NoDup (map abs_move (legal_moves p turn)).
Proof.
  intros p turn Hwf Hc. pose proof (wf_b_WF _ _ Hwf) as W. pose proof (wf_inv _ _ W) as HI.
  split.
  - intros sm. unfold legal_moves, spec_legal. fold (accepted p). split.
    + intros H. apply in_map_iff in H as [m [<- H]]. apply filter_In in H as [Hin Hacc].
      rewrite (accepted_spec p turn m Hwf Hc Hin) in Hacc. apply andb_true_iff in Hacc as [Hbl Hleg].
      apply negb_true_iff in Hbl.
      destruct (pseudo_legal_sound p turn m W Hc Hin) as [Hcand Hmeta].
      apply filter_In. split; [|exact Hleg]. rewrite candidates_split.
      unfold pseudo_candidates in Hcand. apply in_app_or in Hcand as [Hcand|Hcand]; apply in_or_app; [now left|right].
      now apply (castle_legal_fwd p turn m HI Hc Hmeta Hcand Hbl).
    + intros H. apply filter_In in H as [Hcand Hleg]. rewrite candidates_split in Hcand.
      assert (Hps : In sm (pseudo_candidates (abs_pos p) (color_of turn))).
      { unfold pseudo_candidates. apply in_app_or in Hcand as [Hcand|Hcand]; apply in_or_app; [now left|right].
        now apply castle_moves_pseudo. }
      destruct (pseudo_legal_complete p turn sm W Hc Hps) as [m [Hin Em]].
      destruct (pseudo_legal_sound p turn m W Hc Hin) as [_ Hmeta].
      apply in_map_iff. exists m. split; [exact Em|]. apply filter_In. split; [exact Hin|].
      rewrite (accepted_spec p turn m Hwf Hc Hin), Em, Hleg, andb_true_r. apply negb_true_iff.
      subst sm. apply in_app_or in Hcand as [Hcand|Hcand].
      * (* an ordinary move is never blocked *)
        unfold blocked. destruct (is_castle m) eqn:Ecas; [|now rewrite andb_false_r].
        exfalso. unfold metadata_ok in Hmeta. rewrite Hmeta in Ecas. apply castle_type_origin in Ecas.
        rewrite (piece_cand_not_castling _ _ _ Hcand) in Ecas. discriminate.
      * now apply (castle_legal_bwd p turn m HI Hc Hmeta Hcand).
  - unfold legal_moves. apply NoDup_map_filter. now apply pseudo_legal_abs_nodup.
Qed.
Print Assumptions legal_moves_fide.
