(** MoveGen3 — definitions for the move-generation theorems (C01):
    the specification's candidate set without the castling attack conditions ([pseudo_candidates]),
    the move record the specification expects for a given abstract move ([concretize]: kind, moving
    piece, captured piece), and the decomposition of [pseudo_legal_moves] into its three emission
    groups.  Sanity checks by computation on concrete positions are at the end. *)
From Coq Require Import NArith ZArith List Bool.
From Morlock.Model Require Import Bits Attacks Move Position Abs.
From Morlock.Spec Require Import Chess.
Import ListNotations.
Open Scope N_scope.

(** * specification side *)

Definition piece_candidates (p : spos) (c : color) : list smove :=
  flat_map (fun s => match at_ (brd p) s with
                     | Some (c', k) => if color_eqb c c' then piece_moves p c k s else []
                     | None => []
                     end) all_squares.

(** castling without the attack conditions: right held, king and rook at home, squares between empty *)
Definition castle_pseudo_mk (b : mboard) (c : color) (right : bool) (ks rs : nat) (between : list nat) (dst : nat) : list smove :=
  if right && (match at_ b ks with Some (c', K) => color_eqb c c' | _ => false end)
           && (match at_ b rs with Some (c', R) => color_eqb c c' | _ => false end)
           && forallb (fun s => negb (occupied b s)) between
  then [mkSmove ks dst None] else [].
Definition castle_pseudo (p : spos) (c : color) : list smove :=
  let b := brd p in
  match c with
  | Wh => castle_pseudo_mk b c (wk (rts p)) e1 h1 [f1; g1] g1 ++ castle_pseudo_mk b c (wq (rts p)) e1 a1 [d1; c1; b1] c1
  | Bl => castle_pseudo_mk b c (bk (rts p)) e8 h8 [f8; g8] g8 ++ castle_pseudo_mk b c (bq (rts p)) e8 a8 [d8; c8; b8] c8
  end.

Definition pseudo_candidates (p : spos) (c : color) : list smove :=
  piece_candidates p c ++ castle_pseudo p c.
Definition pseudo_candidate (p : spos) (c : color) (sm : smove) : Prop := In sm (pseudo_candidates p c).

Lemma candidates_split p c : candidates p c = piece_candidates p c ++ castle_moves p c.
Proof. reflexivity. Qed.

(** the move kind the rules assign to an abstract move in a position *)
Definition expected_type (sp : spos) (c : color) (sm : smove) : N :=
  let b := brd sp in
  if is_ep_move sp sm then EnPassant
  else if is_castling_move b sm then
    (if (file_of (sto sm) <? file_of (sfrom sm))%Z then KingSideCastle else QueenSideCastle)
  else if is_double_step b sm then Jump
  else match moving sp sm with
       | Some P =>
           if (rank_of (sto sm) =? last_rank c)%Z
           then (if occupied b (sto sm) then CapturePromotion else Promotion)
           else (if occupied b (sto sm) then Capture else Push)
       | _ => if occupied b (sto sm) then Capture else Normal
       end.

Definition okind_code (o : option kind) : N := match o with Some k => code_of_kind k | None => NoPiece end.

(** the full move record determined by the position and (from, to, promotion) *)
Definition concretize (sp : spos) (c : color) (sm : smove) : move :=
  mkMove (expected_type sp c sm) (N.of_nat (sfrom sm)) (N.of_nat (sto sm))
         (okind_code (moving sp sm)) (okind_code (spromo sm)) (okind_code (captured sp sm)).

Definition metadata_ok (p : position) (turn : N) (m : move) : Prop :=
  m = concretize (abs_pos p) (color_of turn) (abs_move m).

Definition move_eq_dec_b := move_eqb.
Definition metadata_okb (p : position) (turn : N) (m : move) : bool :=
  move_eqb m (concretize (abs_pos p) (color_of turn) (abs_move m)).

(** * model side: the three emission groups of [pseudo_legal_moves] *)

Definition own_mask (p : position) (turn : N) : N := not64 (pget p turn NoPiece).
Definition opp_all (p : position) (turn : N) : N := pget p (opponent turn) NoPiece.

(** moves of a stepping/sliding piece standing on [from] *)
Definition step_moves (p : position) (turn piece from ab0 : N) : list move :=
  let ab := N.land ab0 (own_mask p turn) in
  emit_move p turn Normal piece from (N.land ab (not64 (opp_all p turn))) ++
  emit_move p turn Capture piece from (N.land ab (opp_all p turn)).

Definition officer_moves (p : position) (turn : N) : list move :=
  flat_map (fun piece =>
    flat_map (fun from => step_moves p turn piece from (attackboard (rotated_bb p) from piece))
      (bits_asc (pget p turn piece))) QueenRookKnightBishop.

Definition pawn_moves_from (p : position) (turn from : N) : list move :=
  let mask := own_mask p turn in
  let captures := opp_all p turn in
  let jumps := pawn_jump_rank turn in
  let promos := pawn_promotion_rank turn in
  let rot := all_bb p in
  let origin := bitmask from in
  let captureboard := N.land (pawn_captureboard turn origin) mask in
  let pushboard := pawn_moveboard rot turn origin in
  let jumpboard := N.land (pawn_moveboard rot turn pushboard) jumps in
  emit_move p turn Capture Pawn from (andnot (N.land captureboard captures) promos) ++
  emit_move p turn Push Pawn from (andnot pushboard promos) ++
  emit_move p turn Jump Pawn from jumpboard ++
  emit_promo p turn CapturePromotion Pawn from (N.land (N.land captureboard captures) promos) ++
  emit_promo p turn Promotion Pawn from (N.land pushboard promos) ++
  (if negb (enpassant p =? 0)
   then emit_move p turn EnPassant Pawn from (N.land captureboard (bitmask (enpassant p)))
   else []).

Definition pawn_moves (p : position) (turn : N) : list move :=
  flat_map (pawn_moves_from p turn) (bits_asc (pget p turn Pawn)).

Definition castle_emit (p : position) (turn from right mask rooksq t dst : N) : list move :=
  if is_allowed (castling p) right && (N.land mask (all_bb p) =? 0)
     && negb (N.land (pget p turn Rook) (bitmask rooksq) =? 0)
  then emit_move p turn t King from (bitmask dst) else [].

Definition castle_emits (p : position) (turn from : N) : list move :=
  if turn =? White then
    castle_emit p turn from WhiteKingSideCastle whiteKingSideCastlingMask H1 KingSideCastle G1 ++
    castle_emit p turn from WhiteQueenSideCastle whiteQueenSideCastlingMask A1 QueenSideCastle C1
  else
    castle_emit p turn from BlackKingSideCastle blackKingSideCastlingMask H8 KingSideCastle G8 ++
    castle_emit p turn from BlackQueenSideCastle blackQueenSideCastlingMask A8 QueenSideCastle C8.

Definition king_moves (p : position) (turn : N) : list move :=
  let kb := pget p turn King in
  if kb =? 0 then [] else
  let from := ctz kb in
  step_moves p turn King from (king_attackboard from) ++ castle_emits p turn from.

Lemma pseudo_legal_split p turn :
  pseudo_legal_moves p turn = officer_moves p turn ++ pawn_moves p turn ++ king_moves p turn.
Proof.
  unfold pseudo_legal_moves, officer_moves, pawn_moves, king_moves, step_moves, pawn_moves_from,
    castle_emits, castle_emit, own_mask, opp_all.
  destruct (pget p turn King =? 0); [reflexivity|].
  destruct (turn =? White); rewrite <- !app_assoc; reflexivity.
Qed.

(** * sanity checks by computation *)

Definition smove_in (x : smove) (l : list smove) : bool := existsb (smove_eqb x) l.
Definition same_set (l1 l2 : list smove) : bool :=
  forallb (fun x => smove_in x l2) l1 && forallb (fun x => smove_in x l1) l2.
Fixpoint nodup_sm (l : list smove) : bool :=
  match l with [] => true | x :: r => negb (smove_in x r) && nodup_sm r end.

Definition check_pos (p : position) (turn : N) : bool :=
  wf_b p turn &&
  same_set (map abs_move (pseudo_legal_moves p turn)) (pseudo_candidates (abs_pos p) (color_of turn)) &&
  nodup_sm (map abs_move (pseudo_legal_moves p turn)) &&
  forallb (metadata_okb p turn) (pseudo_legal_moves p turn) &&
  same_set (map abs_move (legal_moves p turn)) (spec_legal (abs_pos p) (color_of turn)).

Definition pl (sq c pc : N) := mkPlacement sq c pc.
Definition getpos (o : option position) : position := match o with Some p => p | None => empty_position 0 0 end.

(** initial position *)
Definition pos_init : position := getpos (new_position
  ([pl 0 0 4; pl 1 0 3; pl 2 0 2; pl 3 0 6; pl 4 0 5; pl 5 0 2; pl 6 0 3; pl 7 0 4] ++
   map (fun s => pl s 0 1) [8;9;10;11;12;13;14;15] ++
   map (fun s => pl s 1 1) [48;49;50;51;52;53;54;55] ++
   [pl 56 1 4; pl 57 1 3; pl 58 1 2; pl 59 1 6; pl 60 1 5; pl 61 1 2; pl 62 1 3; pl 63 1 4]) 15 0).
Example check_init_w : check_pos pos_init 0 = true. Proof. vm_compute. reflexivity. Qed.
Example check_init_b : check_pos pos_init 1 = true. Proof. vm_compute. reflexivity. Qed.
