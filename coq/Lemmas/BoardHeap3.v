(** C08, part 3 — frame theorem (operations of one board never touch what another board reads),
    fork isolation, literal restoration of the heap by pop-after-push, and the instances for
    [push_move] / [push_move_legacy] with non-vacuity examples and counterexamples.  No axioms. *)
From Coq Require Import NArith ZArith List Bool Lia.
From Morlock.Model Require Import Bits Attacks Move Position Zobrist Board.
From Morlock.Lemmas Require Import BoardHeap1 BoardHeap2.
Import ListNotations.
Local Open Scope nat_scope.

(** * 1. ancestors *)

Fixpoint anc (h : heap) (id d : nat) : option nat :=
  match d with
  | O => Some id
  | S d' => match n_prev (hnode h id) with Some j => anc h j d' | None => None end
  end.

Lemma anc_le : forall h, hwf h -> forall d id k, anc h id d = Some k -> k + d <= id.
Proof.
  intros h Hw. induction d as [|d IH]; intros id k H; cbn [anc] in H.
  - inversion H; lia.
  - destruct (n_prev (hnode h id)) as [j|] eqn:Hp; [|discriminate].
    apply IH in H. apply Hw in Hp. lia.
Qed.

Lemma anc_ext : forall h h', hwf h -> forall d id,
  (forall i, i <= id -> n_prev (hnode h' i) = n_prev (hnode h i)) -> anc h' id d = anc h id d.
Proof.
  intros h h' Hw. induction d as [|d IH]; intros id Hag; cbn [anc]; auto.
  rewrite (Hag id) by lia. destruct (n_prev (hnode h id)) as [j|] eqn:Hp; auto.
  apply Hw in Hp. apply IH. intros i Hi. apply Hag. lia.
Qed.

(** * 2. the frame invariant *)

Section Frame.
Variables (zm : ztable -> N -> position -> move -> N) (unp : N -> move -> N) (le : bool)
          (insuff : position -> bool).
Notation pushw := (pushw zm unp le insuff).
Notation run_d := (run_d zm unp le insuff).
Notation run_ops := (run_ops zm unp le insuff).

Variables (h0 : heap) (c0 : nat).
Definition owned (i : nat) : Prop := i = c0 \/ length h0 <= i.

(** [h] is a heap reached from [h0] by an acting board whose head was [c0], now at [a], [d] moves deep:
    only [c0] and nodes appended after [h0] may differ from [h0]. *)
Definition finv (h : heap) (a : board) (d : nat) : Prop :=
  wf h a /\ length h0 <= length h /\
  (forall i, i < length h0 -> i <> c0 -> hnode h i = hnode h0 i) /\
  owned (b_current a) /\
  (forall i j, length h0 <= i -> n_prev (hnode h i) = Some j -> owned j) /\
  anc h (b_current a) d = Some c0.

Lemma finv_push : forall z h a d m h1 a1 ok, finv h a d -> pushw z h a m = (h1, a1, ok) ->
  finv h1 a1 (if ok then S d else d).
Proof.
  intros z h a d m h1 a1 ok Hinv Hpush. pose proof Hinv as (Hwf & Hlen & Hsame & Hown & Hprev & Hanc).
  pose proof (wf_push _ _ _ _ _ _ _ _ _ _ _ Hwf Hpush) as Hwf1.
  pose proof Hwf as (Hw & Hc & _).
  apply push_heap in Hpush.
  destruct Hpush as [(-> & -> & ->)|(-> & n & Hh1 & Hnp & Hnn & Hcur & _)]; [exact Hinv|].
  assert (Hnode : forall i, hnode h1 i = if i =? b_current a then set_next (hnode h (b_current a)) m
                                          else if i =? length h then n else hnode h i)
    by (intro i; rewrite Hh1; apply hnode_write_append; auto).
  assert (Hpr : forall i, i < length h -> n_prev (hnode h1 i) = n_prev (hnode h i)).
  { intros i Hi. rewrite Hnode. destruct (Nat.eqb_spec i (b_current a)) as [->|_]; [reflexivity|].
    destruct (Nat.eqb_spec i (length h)); [lia|reflexivity]. }
  unfold finv. split; [exact Hwf1|]. split; [rewrite Hh1, app_length, hset_length; lia|]. split; [|split; [|split]].
  - intros i Hi Hne. rewrite Hnode.
    destruct (Nat.eqb_spec i (b_current a)) as [->|_].
    + destruct Hown as [E|E]; [contradiction|lia].
    + destruct (Nat.eqb_spec i (length h)); [lia|]. apply Hsame; auto.
  - rewrite Hcur. right. lia.
  - intros i j Hi Hp. rewrite Hnode in Hp.
    destruct (Nat.eqb_spec i (b_current a)) as [->|_]; [rewrite set_next_prev in Hp; eapply Hprev; eauto|].
    destruct (Nat.eqb_spec i (length h)) as [->|_]; [|eapply Hprev; eauto].
    rewrite Hnp in Hp. inversion Hp; subst j. exact Hown.
  - rewrite Hcur. cbn [anc]. rewrite (Hnode (length h)).
    destruct (Nat.eqb_spec (length h) (b_current a)); [lia|]. rewrite Nat.eqb_refl, Hnp.
    rewrite <- Hanc. apply anc_ext; auto. intros i Hi. apply Hpr. lia.
Qed.

Lemma finv_pop : forall h a d, finv h a (S d) -> finv (fst (pop' h a)) (snd (pop' h a)) d.
Proof.
  intros h a d Hinv. pose proof Hinv as (Hwf & Hlen & Hsame & Hown & Hprev & Hanc).
  pose proof Hwf as (Hw & Hc & _).
  unfold pop'. destruct (pop_move h a) as [[[h1 a1] m] ok] eqn:Hpop. cbn [fst snd].
  pose proof (wf_pop _ _ _ _ _ _ Hwf Hpop) as Hwf1.
  cbn [anc] in Hanc.
  apply pop_heap in Hpop.
  destruct Hpop as [(_ & _ & _ & Hp)|(_ & pid & Hp & Hh1 & Hcur & _)]; [rewrite Hp in Hanc; discriminate|].
  rewrite Hp in Hanc. pose proof (Hw _ _ Hp) as Hlt.
  assert (Hopid : owned pid).
  { destruct Hown as [E|E].
    - apply anc_le in Hanc; auto. lia.
    - eapply Hprev; eauto. }
  assert (Hnode : forall i, hnode h1 i = if i =? pid then set_next (hnode h pid) no_move else hnode h i)
    by (intro i; rewrite Hh1; apply hnode_write; lia).
  assert (Hpr : forall i, n_prev (hnode h1 i) = n_prev (hnode h i)).
  { intros i. rewrite Hnode. destruct (Nat.eqb_spec i pid) as [->|_]; reflexivity. }
  unfold finv. split; [exact Hwf1|]. split; [rewrite Hh1, hset_length; lia|]. split; [|split; [|split]].
  - intros i Hi Hne. rewrite Hnode. destruct (Nat.eqb_spec i pid) as [->|_]; [|apply Hsame; auto].
    destruct Hopid as [E|E]; [contradiction|lia].
  - rewrite Hcur. exact Hopid.
  - intros i j Hi Hpj. rewrite Hpr in Hpj. eapply Hprev; eauto.
  - rewrite Hcur, <- Hanc. apply anc_ext; auto.
Qed.

Lemma finv_adj : forall h a d, finv h a d -> finv h (fst (adjudicate_no_legal_moves h a)) d.
Proof. intros h a d H. exact H. Qed.

Lemma finv_run : forall z ops h a d h2 a2 d2, finv h a d ->
  run_d false z ops h a d = Some (h2, a2, d2) -> finv h2 a2 d2.
Proof.
  intros z. induction ops as [|[m| |] r IH]; intros h a d h2 a2 d2 Hinv H; cbn [BoardHeap2.run_d] in H.
  - inversion H; subst; exact Hinv.
  - destruct (pushw z h a m) as [[h1 a1] ok] eqn:Hpush.
    pose proof (finv_push _ _ _ _ _ _ _ _ Hinv Hpush) as Hinv1.
    destruct ok; cbn [andb] in H; eapply IH; eauto.
  - destruct d as [|d']; [discriminate|].
    pose proof (finv_pop _ _ _ Hinv) as Hinv1. destruct (pop' h a) as [h1 a1]. eapply IH; eauto.
  - eapply IH; [|exact H]. apply finv_adj; exact Hinv.
Qed.

(** a passive board whose chain avoids [c0] reads nothing that was written *)
Lemma finv_passive : forall h a d q, hwf h0 -> finv h a d -> wf h0 q ->
  ~ In c0 (cids h0 (b_current q)) ->
  wf h q /\ abs h q = abs h0 q.
Proof.
  intros h a d q Hw0 (Hwf & Hlen & Hsame & _) (_ & Hcq & Hnq & Htq) Hnot.
  assert (Hag : forall i, In i (cids h0 (b_current q)) -> hnode h i = hnode h0 i).
  { intros i Hi. apply Hsame.
    - apply cids_le in Hi; auto. lia.
    - intro E; subst i; contradiction. }
  destruct (chain_ext_in h0 h (b_current q) Hag) as (Hc & Hch).
  split.
  - destruct Hwf as (Hw & _). unfold wf. repeat split; auto; try lia.
    rewrite Hag; auto. rewrite cids_unfold by auto. left; reflexivity.
  - unfold abs, data, nexts. rewrite Hch. reflexivity.
Qed.

(** ** frame theorem: any number of boards may live on one heap *)
Theorem frame_gen : forall z ops a q h2 a2 d2, wf h0 a -> b_current a = c0 -> wf h0 q ->
  ~ In c0 (cids h0 (b_current q)) ->
  run_d false z ops h0 a 0 = Some (h2, a2, d2) ->
  wf h2 a2 /\ wf h2 q /\ beq h2 q h0 q.
Proof.
  intros z ops a q h2 a2 d2 Hwfa Hca Hwfq Hnot Hrun.
  pose proof Hwfa as (Hw0 & Hc & _).
  assert (Hinv0 : finv h0 a 0).
  { unfold finv. split; [exact Hwfa|]. split; [lia|]. split; [auto|]. split; [left; exact Hca|]. split.
    - intros i j Hi Hp. rewrite hnode_beyond in Hp by auto. discriminate.
    - cbn. congruence. }
  pose proof (finv_run _ _ _ _ _ _ _ _ Hinv0 Hrun) as Hinv2.
  destruct (finv_passive _ _ _ _ Hw0 Hinv2 Hwfq Hnot) as (Hwq & Habs).
  split; [apply Hinv2|]. split; [exact Hwq|].
  apply view_eq_abs; auto. rewrite Habs. apply aeq_refl.
Qed.

End Frame.

(** * 3. fork isolation *)

Lemma beq_trans : forall h1 b1 h2 b2 h3 b3, beq h1 b1 h2 b2 -> beq h2 b2 h3 b3 -> beq h1 b1 h3 b3.
Proof.
  intros h1 b1 h2 b2 h3 b3 (A & Ar) (B & Br). split; [eapply beq_nr_trans; eauto|congruence].
Qed.

Section Fork.
Variables (zm : ztable -> N -> position -> move -> N) (unp : N -> move -> N) (le : bool)
          (insuff : position -> bool).
Notation run_d := (run_d zm unp le insuff).

Theorem fork_shares_past_gen : forall h b h1 f, wf h b -> fork h b = (h1, f) ->
  wf h1 f /\ wf h1 b /\ beq h1 f h b /\ beq h1 b h b.
Proof.
  intros h b h1 f Hwf Hf. destruct (wf_fork _ _ _ _ Hwf Hf) as (Hwf1 & Hwb1).
  destruct (fork_sim _ _ _ _ Hwf Hf) as (E1 & E2).
  split; [exact Hwf1|]. split; [exact Hwb1|].
  split; apply view_eq_abs; auto; [rewrite E1|rewrite E2]; apply aeq_refl.
Qed.

Lemma fork_shape : forall h b h1 f, wf h b -> fork h b = (h1, f) ->
  b_current f = length h /\ length h1 = S (length h) /\
  n_prev (hnode h1 (length h)) = n_prev (hnode h (b_current b)) /\
  (forall i, i < length h -> hnode h1 i = hnode h i).
Proof.
  intros h b h1 f Hwf Hf. inversion Hf; subst. cbn [b_current]. rewrite app_length, hnode_app_last. cbn.
  repeat split; auto; try lia. intros i Hi. apply hnode_app_lt; auto.
Qed.

(** operations on the fork (above the fork point) never change what the original reports *)
Theorem fork_isolated_original_gen : forall z h b h1 f ops h2 f2 d2, wf h b -> fork h b = (h1, f) ->
  run_d false z ops h1 f 0 = Some (h2, f2, d2) ->
  wf h2 f2 /\ wf h2 b /\ beq h2 b h1 b /\ beq h2 b h b.
Proof.
  intros z h b h1 f ops h2 f2 d2 Hwf Hf Hrun.
  destruct (fork_shares_past_gen _ _ _ _ Hwf Hf) as (Hwf1 & Hwb1 & _ & Hb1).
  destruct (fork_shape _ _ _ _ Hwf Hf) as (Hcf & Hlen & Hpf & Hold).
  destruct (frame_gen zm unp le insuff h1 (b_current f) z ops f b h2 f2 d2) as (H1 & H2 & H3); auto.
  { intro Hin. apply cids_le in Hin; [|apply Hwb1]. destruct Hwf as (_ & Hc & _). lia. }
  split; [exact H1|]. split; [exact H2|]. split; [exact H3|]. eapply beq_trans; eauto.
Qed.

(** operations on the original (above the fork point) never change what the fork reports *)
Theorem fork_isolated_fork_gen : forall z h b h1 f ops h2 b2 d2, wf h b -> fork h b = (h1, f) ->
  run_d false z ops h1 b 0 = Some (h2, b2, d2) ->
  wf h2 b2 /\ wf h2 f /\ beq h2 f h1 f.
Proof.
  intros z h b h1 f ops h2 b2 d2 Hwf Hf Hrun.
  destruct (fork_shares_past_gen _ _ _ _ Hwf Hf) as (Hwf1 & Hwb1 & _ & _).
  destruct (fork_shape _ _ _ _ Hwf Hf) as (Hcf & Hlen & Hpf & Hold).
  pose proof Hwf as (Hw & Hc & _). pose proof Hwf1 as (Hw1 & _).
  destruct (frame_gen zm unp le insuff h1 (b_current b) z ops b f h2 b2 d2) as (H1 & H2 & H3); auto.
  intro Hin. rewrite Hcf in Hin. rewrite cids_unfold in Hin by auto.
  destruct Hin as [E|Hin]; [lia|].
  rewrite Hpf in Hin. destruct (n_prev (hnode h (b_current b))) as [p|] eqn:Hp; [|contradiction].
  apply cids_le in Hin; auto. apply Hw in Hp. lia.
Qed.

End Fork.

(** * 4. pop after push restores the old heap literally (one unreachable node is left behind) *)

Lemma upd_app_upd : forall (A : Type) (l : list A) c x y t, c < length l ->
  upd (upd l c x ++ t) c y = upd l c y ++ t.
Proof.
  induction l as [|a l IH]; intros [|c] x y t Hc; cbn in *; try lia; auto.
  f_equal. apply IH. lia.
Qed.

Lemma upd_nth_same : forall (A : Type) (l : list A) c d, upd l c (nth c l d) = l.
Proof.
  induction l as [|a l IH]; intros [|c] d; cbn; auto. f_equal. apply IH.
Qed.

Theorem pop_push_heap_gen : forall zm unp le insuff z h b m h1 b1 h2 b2 m2,
  wf h b -> pushw zm unp le insuff z h b m = (h1, b1, true) -> pop_move h1 b1 = (h2, b2, m2, true) ->
  exists n, h2 = h ++ [n].
Proof.
  intros zm unp le insuff z h b m h1 b1 h2 b2 m2 Hwf Hpush Hpop.
  pose proof Hwf as (Hw & Hc & Hn & _).
  apply push_heap in Hpush. destruct Hpush as [(E & _)|(_ & n & -> & Hnp & _ & Hcur & _)]; [discriminate|].
  apply pop_heap in Hpop. destruct Hpop as [(E & _)|(_ & pid & Hp & -> & _)]; [discriminate|].
  rewrite Hcur in Hp. rewrite hnode_write_append in Hp by auto. rewrite Nat.eqb_refl in Hp.
  destruct (Nat.eqb_spec (length h) (b_current b)); [lia|].
  rewrite Hnp in Hp. inversion Hp; subst pid. exists n.
  rewrite hnode_write_append by auto. rewrite Nat.eqb_refl.
  unfold hset. rewrite upd_app_upd by auto. f_equal.
  replace (set_next (set_next (hnode h (b_current b)) m) no_move) with (hnode h (b_current b)).
  - apply upd_nth_same.
  - destruct (hnode h (b_current b)) as [p hs np nx pv]. cbn in Hn. subst nx. reflexivity.
Qed.

(** * 5. instances for the model's [push_move] (and the legacy variant) *)

Lemma push_move_is_pushw : push_move = pushw zmove update_noprogress true has_insufficient_material.
Proof. reflexivity. Qed.
Lemma push_move_legacy_is_pushw :
  push_move_legacy = pushw zmove_legacy update_noprogress_legacy false (has_insufficient_material_with whiteSquareMask_legacy).
Proof. reflexivity. Qed.

Notation run := (run_d zmove update_noprogress true has_insufficient_material).
Notation run_plain := (run_ops zmove update_noprogress true has_insufficient_material).

(** invariant: established and preserved *)
Theorem wf_new : forall z pos turn np fm h1 b1, (turn = White \/ turn = Black) ->
  new_board z [] pos turn np fm = (h1, b1) -> wf h1 b1.
Proof. intros. eapply wf_new_board; eauto. apply hwf_nil. Qed.
Theorem wf_push_move : forall z h b m h1 b1 ok, wf h b -> push_move z h b m = (h1, b1, ok) -> wf h1 b1.
Proof. intros z h b m h1 b1 ok. rewrite push_move_is_pushw. apply wf_push. Qed.
Theorem wf_pop_move : forall h b h1 b1 m ok, wf h b -> pop_move h b = (h1, b1, m, ok) -> wf h1 b1.
Proof. exact wf_pop. Qed.
Theorem wf_fork_both : forall h b h1 f, wf h b -> fork h b = (h1, f) -> wf h1 f /\ wf h1 b.
Proof. exact wf_fork. Qed.

(** C08, first half *)
Theorem pop_push_id : forall z h b m h1 b1, wf h b -> castle_ok b m ->
  push_move z h b m = (h1, b1, true) ->
  exists h2 b2, pop_move h1 b1 = (h2, b2, m, true) /\ wf h2 b2 /\
    view_eq_nr (view h2 b2) (view h b) /\ b_result b2 = mkResult Undecided NoReason /\
    b_current b2 = b_current b /\ n_next (hnode h2 (b_current b2)) = no_move /\
    exists n, h2 = h ++ [n].
Proof.
  intros z h b m h1 b1 Hwf Hc Hpush. rewrite push_move_is_pushw in Hpush.
  destruct (pop_push_id_gen _ _ _ _ z h b m h1 b1 Hwf Hc Hpush) as (h2 & b2 & Hpop & H1 & H2 & H3 & H4 & H5).
  exists h2, b2. repeat split; auto; try apply H1; try apply H2.
  eapply pop_push_heap_gen; eauto.
Qed.
Print Assumptions pop_push_id.

Theorem pop_push_id_legacy : forall z h b m h1 b1, wf h b -> castle_ok b m ->
  push_move_legacy z h b m = (h1, b1, true) ->
  exists h2 b2, pop_move h1 b1 = (h2, b2, m, true) /\ wf h2 b2 /\
    view_eq_nr (view h2 b2) (view h b) /\ b_result b2 = mkResult Undecided NoReason.
Proof.
  intros z h b m h1 b1 Hwf Hc Hpush. rewrite push_move_legacy_is_pushw in Hpush.
  destruct (pop_push_id_gen _ _ _ _ z h b m h1 b1 Hwf Hc Hpush) as (h2 & b2 & Hpop & H1 & H2 & H3 & _).
  exists h2, b2. auto.
Qed.

(** congruence: equal views, equal behaviour *)
Theorem push_move_congr : forall z h b h' b' m, wf h b -> wf h' b' -> beq h b h' b' ->
  forall h1 b1 ok h1' b1' ok', push_move z h b m = (h1, b1, ok) -> push_move z h' b' m = (h1', b1', ok') ->
  ok = ok' /\ beq h1 b1 h1' b1'.
Proof. intros z h b h' b' m. rewrite push_move_is_pushw. apply push_congr. Qed.
Print Assumptions push_move_congr.

Theorem push_move_congr_nr : forall z h b h' b' m, wf h b -> wf h' b' -> beq_nr h b h' b' ->
  blocked (b_result b) = blocked (b_result b') ->
  forall h1 b1 ok h1' b1' ok', push_move z h b m = (h1, b1, ok) -> push_move z h' b' m = (h1', b1', ok') ->
  ok = ok' /\ beq_nr h1 b1 h1' b1'.
Proof. intros z h b h' b' m. rewrite push_move_is_pushw. apply push_congr_nr. Qed.

(** C08: balanced sequences *)
Theorem balanced_id : forall z ops h b h2 b2, wf h b ->
  run true z ops h b 0 = Some (h2, b2, 0) ->
  run_plain z ops h b = (h2, b2) /\ wf h2 b2 /\ beq_nr h2 b2 h b.
Proof. intros z ops h b h2 b2. apply balanced_id_gen. Qed.
Print Assumptions balanced_id.

(** ... and afterwards play continues identically (result field apart, as long as the result the board
    showed before was not a checkmate/stalemate adjudication, which would have blocked pushes) *)
Corollary balanced_then_push : forall z ops h b h2 b2 m, wf h b ->
  run true z ops h b 0 = Some (h2, b2, 0) -> blocked (b_result b2) = blocked (b_result b) ->
  forall h3 b3 ok h3' b3' ok', push_move z h2 b2 m = (h3, b3, ok) -> push_move z h b m = (h3', b3', ok') ->
  ok = ok' /\ beq_nr h3 b3 h3' b3'.
Proof.
  intros z ops h b h2 b2 m Hwf Hrun Hb. destruct (balanced_id _ _ _ _ _ _ Hwf Hrun) as (_ & Hwf2 & Heq).
  apply push_move_congr_nr; auto.
Qed.

(** C08, second half *)
Theorem fork_shares_past : forall h b h1 f, wf h b -> fork h b = (h1, f) ->
  wf h1 f /\ wf h1 b /\ beq h1 f h b /\ beq h1 b h b.
Proof. exact fork_shares_past_gen. Qed.
Print Assumptions fork_shares_past.

(** both detect repetitions against the common past: the same move gives the same verdict *)
Corollary fork_same_future : forall z h b h1 f m, wf h b -> fork h b = (h1, f) ->
  forall h2 f2 ok h2' b2 ok', push_move z h1 f m = (h2, f2, ok) -> push_move z h b m = (h2', b2, ok') ->
  ok = ok' /\ beq h2 f2 h2' b2.
Proof.
  intros z h b h1 f m Hwf Hf. destruct (fork_shares_past _ _ _ _ Hwf Hf) as (Hwf1 & _ & Heq & _).
  apply push_move_congr; auto.
Qed.

Theorem fork_isolated_original : forall z h b h1 f ops h2 f2 d2, wf h b -> fork h b = (h1, f) ->
  run false z ops h1 f 0 = Some (h2, f2, d2) ->
  wf h2 f2 /\ wf h2 b /\ beq h2 b h1 b /\ beq h2 b h b.
Proof. intros z h b h1 f ops h2 f2 d2. apply fork_isolated_original_gen. Qed.
Print Assumptions fork_isolated_original.

Theorem fork_isolated_fork : forall z h b h1 f ops h2 b2 d2, wf h b -> fork h b = (h1, f) ->
  run false z ops h1 b 0 = Some (h2, b2, d2) ->
  wf h2 b2 /\ wf h2 f /\ beq h2 f h1 f.
Proof. intros z h b h1 f ops h2 b2 d2. apply fork_isolated_fork_gen. Qed.
Print Assumptions fork_isolated_fork.

(** any two boards on one heap whose chains avoid the acting board's head *)
Theorem frame : forall z ops h a q h2 a2 d2, wf h a -> wf h q ->
  ~ In (b_current a) (cids h (b_current q)) ->
  run false z ops h a 0 = Some (h2, a2, d2) ->
  wf h2 a2 /\ wf h2 q /\ beq h2 q h q.
Proof.
  intros z ops h a q h2 a2 d2 Ha Hq Hn Hr.
  exact (frame_gen _ _ _ _ h (b_current a) z ops a q h2 a2 d2 Ha eq_refl Hq Hn Hr).
Qed.
Print Assumptions frame.

(** the remaining congruence theorems (pop, fork, adjudication, getters) are instance-free *)
Print Assumptions pop_congr.
Print Assumptions fork_congr.
Print Assumptions adjudicate_congr.
Print Assumptions adjudicate_nlm_congr.
Print Assumptions getters_congr.
Print Assumptions view_eq_abs.
Print Assumptions wf_new.
Print Assumptions wf_push_move.
Print Assumptions wf_pop_move.
Print Assumptions wf_fork_both.
Print Assumptions wf_adjudicate_nlm.
Print Assumptions fork_same_future.
Print Assumptions balanced_then_push.
Print Assumptions pop_push_id_legacy.
