(** MoveGen9 — the position built by [Position.Move] BEFORE its final own-king-in-check test refines the
    specification's [apply_move], unconditionally (MoveRefines2.shape_move_refines states this only when the
    move is accepted; legality of a move needs it also when the move is rejected).  The case analysis is the
    one of MoveRefines2.shape_move_refines, replayed on the unconditional edit result. *)
From Coq Require Import NArith ZArith List Bool Lia ZifyBool ZifyNat ZifyN.
From Morlock.Model Require Import Bits Attacks Move Position Abs.
From Morlock.Spec Require Import Chess.
From Morlock.Lemmas Require Import PositionLemmas MoveRefines1 MoveRefines2.
Import ListNotations.
Open Scope N_scope.

(** the position after the edits and field updates, before the check test *)
Definition move_result (p : position) (turn : N) (m : move) : position :=
  move_fields p (fold_left edit_pos (move_edits m turn (mpiece m)) p) m.

Lemma shape_fields_refines p turn m ret : wf_b p turn = true -> Shape p turn m ->
  brd (abs_pos ret) = fold_left edit_cell (move_edits m turn (mpiece m)) (brd (abs_pos p)) ->
  abs_pos (move_fields p ret m) = apply_move (abs_pos p) (color_of turn) (abs_move m).
Proof. intros Hwf Hsh Hbrd. pose proof (wf_b_elim _ _ Hwf) as [HI [_ [_ [_ [_ [_ [_ [_ [Hep _]]]]]]]]].
  pose proof (shape_rights_cond _ _ _ Hwf Hsh) as Hrc.
  pose proof Hsh as [Ht Hf Hto Ho Hk].
  assert (Hca : castling p < 16) by (now destruct HI as [_ [_ [_ [_ [_ [_ [H _]]]]]]]).
  rewrite abs_move_fields, Hbrd. rewrite (rights_refine _ _ Hca Hf Hto Hrc).
  assert (Hvp : vpc (mpiece m)) by (apply square_some in Ho; tauto).
  destruct (kind_of_vpc _ Hvp) as [k [Hk1 Hk2]].
  assert (Hat : at_ (brd (abs_pos p)) (sfrom (abs_move m)) = Some (color_of turn, k)).
  { cbn [abs_move sfrom]. rewrite at_abs_pos, Ho, Hk1 by assumption. reflexivity. }
  rewrite (apply_move_unfold _ _ _ _ _ Hat). cbv zeta.
  change (rts (abs_pos p)) with (abs_rights (castling p)).
  change (eps (abs_pos p)) with (if enpassant p =? 0 then None else Some (N.to_nat (enpassant p))).
  pose proof (occupied_abs p (mto m) HI Hto) as Hocc.
  pose proof (opponent_neq _ Ht) as Hopp.
  set (b := brd (abs_pos p)) in *. clearbody b.
  destruct m as [ty fr to pc pr cap]. cbn [mtype mfrom mto mpiece mpromo mcapture abs_move sfrom sto spromo] in *.
  fold (zfile fr) (zfile to) (zrank fr) (zrank to). fold (file_diff2 fr to) (rank_diff2 fr to) (same_file fr to).
  destruct Hk as [Hty Hvpc Hnp Hd Hks | Hty Hvpc Hd Hnk Hks Hpw | Hty Hpc Hd Hrel Hlr | Hty Hpc Hd Hrel Hmid
                 | Hty Hpc Hd Hrel Hlr Hoff | Hty Hpc Hd Hnk Hrel Hlr Hoff | Hty Hpc Hte Hne Hd Hrel Hrk Hcap
                 | Hty Hpc Hfr Htoe H1 H2 H3 | Hty Hpc Hfr Htoe H1 H2 H3];
  cbn [mtype mfrom mto mpiece mpromo mcapture] in *; subst ty.
  - (* Normal *)
    unfold move_edits, is_capture, is_promotion, is_castle; cbn [mtype mfrom mto mpiece mpromo mcapture].
    cbn [N.eqb Pos.eqb Normal Push Jump EnPassant QueenSideCastle KingSideCastle Capture Promotion CapturePromotion orb app fold_left edit_cell].
    rewrite (ep_target_nojump (mkMove Normal fr to pc pr cap)) by discriminate. cbn [N.eqb].
    unfold cell_of. rewrite Hk1.
    destruct k; cbn [code_of_kind] in Hk2; subst pc; try (exfalso; apply Hnp; reflexivity); try reflexivity.
    rewrite (king_step_geom fr to Hf Hto (Hks eq_refl)). reflexivity.
  - (* Capture *)
    unfold move_edits, is_capture, is_promotion, is_castle; cbn [mtype mfrom mto mpiece mpromo mcapture].
    cbn [N.eqb Pos.eqb Normal Push Jump EnPassant QueenSideCastle KingSideCastle Capture Promotion CapturePromotion orb app fold_left edit_cell].
    rewrite (ep_target_nojump (mkMove Capture fr to pc pr cap)) by discriminate. cbn [N.eqb].
    unfold cell_of. rewrite Hk1. rewrite set_cell_twice. rewrite Hd in Hocc.
    destruct k; cbn [code_of_kind] in Hk2; subst pc; try reflexivity.
    + destruct (Hpw eq_refl) as [Hrel Hlr]. destruct (cap_geom turn fr to Ht Hf Hto Hrel) as [G1 [G2 _]].
      rewrite G1, Hocc. destruct (enpassant p =? 0); [reflexivity|]. now rewrite !andb_false_r.
    + rewrite (king_step_geom fr to Hf Hto (Hks eq_refl)). reflexivity.
  - (* Push *)
    subst pc. vm_compute in Hk1. inversion Hk1; subst k.
    unfold move_edits, is_capture, is_promotion, is_castle; cbn [mtype mfrom mto mpiece mpromo mcapture].
    cbn [N.eqb Pos.eqb Normal Push Jump EnPassant QueenSideCastle KingSideCastle Capture Promotion CapturePromotion orb app fold_left edit_cell].
    rewrite (ep_target_nojump (mkMove Push fr to Pawn pr cap)) by discriminate. cbn [N.eqb].
    destruct (push_geom turn fr to Ht Hf Hto Hrel) as [G1 G2]. rewrite G1, G2.
    destruct (enpassant p =? 0); [reflexivity|]. cbn [negb]. now rewrite !andb_false_r.
  - (* Jump *)
    subst pc. vm_compute in Hk1. inversion Hk1; subst k.
    unfold move_edits, is_capture, is_promotion, is_castle; cbn [mtype mfrom mto mpiece mpromo mcapture].
    cbn [N.eqb Pos.eqb Normal Push Jump EnPassant QueenSideCastle KingSideCastle Capture Promotion CapturePromotion orb app fold_left edit_cell].
    rewrite (ep_target_jump (mkMove Jump fr to Pawn pr cap)) by reflexivity. cbn [mto].
    destruct (jump_geom turn fr to Ht Hf Hto Hrel) as [G1 [G2 [G3 [G4 _]]]]. rewrite G1, G2, G3.
    destruct (N.eqb_spec (jump_ep to) 0); [contradiction|].
    destruct (enpassant p =? 0); [reflexivity|]. cbn [negb]. now rewrite !andb_false_r.
  - (* Promotion *)
    subst pc. vm_compute in Hk1. inversion Hk1; subst k.
    unfold move_edits, is_capture, is_promotion, is_castle; cbn [mtype mfrom mto mpiece mpromo mcapture].
    cbn [N.eqb Pos.eqb Normal Push Jump EnPassant QueenSideCastle KingSideCastle Capture Promotion CapturePromotion orb app fold_left edit_cell].
    rewrite (ep_target_nojump (mkMove Promotion fr to Pawn pr cap)) by discriminate. cbn [N.eqb].
    destruct (push_geom turn fr to Ht Hf Hto Hrel) as [G1 G2]. rewrite G1, G2.
    assert (E : exists k', kind_of pr = Some k' /\ cell_of turn pr = Some (color_of turn, k')).
    { destruct Hoff as [->|[->|[->| ->]]]; eexists; split; reflexivity. }
    destruct E as [k' [E1 E2]]. rewrite E1, E2.
    destruct (enpassant p =? 0); [reflexivity|]. cbn [negb]. now rewrite !andb_false_r.
  - (* CapturePromotion *)
    subst pc. vm_compute in Hk1. inversion Hk1; subst k.
    unfold move_edits, is_capture, is_promotion, is_castle; cbn [mtype mfrom mto mpiece mpromo mcapture].
    cbn [N.eqb Pos.eqb Normal Push Jump EnPassant QueenSideCastle KingSideCastle Capture Promotion CapturePromotion orb app fold_left edit_cell].
    rewrite (ep_target_nojump (mkMove CapturePromotion fr to Pawn pr cap)) by discriminate. cbn [N.eqb].
    destruct (cap_geom turn fr to Ht Hf Hto Hrel) as [G1 [G2 _]]. rewrite G1. rewrite Hd in Hocc. rewrite Hocc.
    rewrite set_cell_twice.
    assert (E : exists k', kind_of pr = Some k' /\ cell_of turn pr = Some (color_of turn, k')).
    { destruct Hoff as [->|[->|[->| ->]]]; eexists; split; reflexivity. }
    destruct E as [k' [E1 E2]]. rewrite E1, E2.
    destruct (enpassant p =? 0); [reflexivity|]. now rewrite !andb_false_r.
  - (* EnPassant *)
    subst pc. vm_compute in Hk1. inversion Hk1; subst k.
    unfold move_edits, is_capture, is_promotion, is_castle; cbn [mtype mfrom mto mpiece mpromo mcapture].
    cbn [N.eqb Pos.eqb Normal Push Jump EnPassant QueenSideCastle KingSideCastle Capture Promotion CapturePromotion orb app fold_left edit_cell].
    rewrite (ep_target_nojump (mkMove EnPassant fr to Pawn pr cap)) by discriminate. cbn [N.eqb].
    rewrite (ep_capture_sq (mkMove EnPassant fr to Pawn pr cap)) by reflexivity. cbn [mto].
    rewrite (ep_cap_sq_val turn to Ht Hto Hrk).
    destruct (cap_geom turn fr to Ht Hf Hto Hrel) as [G1 [G2 G3]]. rewrite G1, G2. rewrite Hd in Hocc. rewrite Hocc.
    rewrite <- Hte. destruct (N.eqb_spec to 0); [congruence|]. rewrite Nat.eqb_refl. cbn [negb andb].
    rewrite G3; [reflexivity|]. destruct Ht as [->| ->]; cbn [N.eqb Pos.eqb] in *; lia.
  - (* KingSideCastle *)
    subst pc fr to. vm_compute in Hk1. inversion Hk1; subst k.
    destruct Ht as [->| ->]; reflexivity.
  - (* QueenSideCastle *)
    subst pc fr to. vm_compute in Hk1. inversion Hk1; subst k.
    destruct Ht as [->| ->]; reflexivity.
Qed.

Theorem move_result_spec p turn m : wf_b p turn = true -> Shape p turn m ->
  Inv (move_result p turn m) /\
  abs_pos (move_result p turn m) = apply_move (abs_pos p) (color_of turn) (abs_move m) /\
  pos_move p m =
    (if negb (mtype m =? EnPassant) && is_castle m &&
        existsb (fun sq => is_attacked p turn sq) (safe_castling_squares turn (mtype m)) then None
     else if is_checked (move_result p turn m) turn then None else Some (move_result p turn m)).
Proof.
  intros Hwf Hsh. pose proof (wf_b_elim _ _ Hwf) as [HI _].
  pose proof (shape_edits_ok _ _ _ HI Hsh) as Hok.
  destruct (edits_sound _ p (square p) HI (fun s _ => eq_refl) Hok) as [A [B C]].
  split; [|split].
  - unfold move_result, move_fields. apply Inv_set_fields; [exact A| |apply ep_target_lt].
    apply andnot_castling_lt. now destruct HI as [_ [_ [_ [_ [_ [_ [H _]]]]]]].
  - unfold move_result. now apply shape_fields_refines.
  - rewrite pos_move_edits, (sh_orig _ _ _ Hsh). reflexivity.
Qed.
Print Assumptions move_result_spec.
