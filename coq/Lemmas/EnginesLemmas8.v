(** EnginesLemmas8 — C20, part 6d: the mirror of a legal position is a legal position with the other side to
    move; BERNSTEIN's control count commutes with the mirror; statement of the full commutation
    ([mirror_commutes_statement]) with the partial results, and BERNSTEIN's colour-blindness conditional on it. *)
From Coq Require Import NArith ZArith List Bool Lia ZifyBool ZifyNat ZifyN.
From Morlock.Model Require Import Bits Attacks Move Position Abs Search Fen Engines.
From Morlock.Spec Require Import Chess.
From Morlock.Lemmas Require Import PositionLemmas AttackGeometry1 AttackGeometry_Extra GameLemmas1 MoveGen2 MoveGen7
     EnginesLemmas3 EnginesLemmas5 EnginesLemmas6 EnginesLemmas7.
Import ListNotations.
Open Scope N_scope.

Ltac Zify.zify_post_hook ::= Z.div_mod_to_equations.

(* ------------------------------------------------------------------ *)
(** * helpers *)

Lemma is_set_flip x s : s < 64 -> is_set (flip_bb x) s = is_set x (mirror_sq s).
Proof.
  intros Hs. rewrite (is_set_tb64 _ _ Hs), (is_set_tb64 _ _ (mirror_sq_lt s Hs)). now apply tb_flip_bb64.
Qed.

Lemma is_empty_mirror p s : Inv p -> s < 64 -> is_empty (mirror_pos p) s = is_empty p (mirror_sq s).
Proof.
  intros HI Hs. rewrite (is_empty_tb _ _ Hs), (is_empty_tb _ _ (mirror_sq_lt s Hs)), (all_bb_mirror p HI).
  now rewrite tb_flip_bb64.
Qed.

Lemma ctz_flip_one kb : kb < 2 ^ 64 -> popcount kb = 1 -> ctz (flip_bb kb) = mirror_sq (ctz kb).
Proof.
  intros Hw H1. assert (H1' : popcount (flip_bb kb) = 1) by now rewrite popcount_flip.
  pose proof (popcount_one_bits _ H1) as Hb. pose proof (popcount_one_bits _ H1') as Hb'.
  assert (Hin : In (ctz (flip_bb kb)) (bits_asc (flip_bb kb))) by (rewrite Hb'; now left).
  apply bits_asc_spec in Hin. rewrite tb_flip_bb in Hin. apply andb_true_iff in Hin as [_ Hin].
  apply bits_asc_spec in Hin. rewrite Hb in Hin. destruct Hin as [E|[]].
  rewrite E. symmetry. apply mirror_sq_invol.
Qed.

Lemma flip_ranks : flip_bb (N.lor (bitrank 0) (bitrank 7)) = N.lor (bitrank 0) (bitrank 7).
Proof. vm_compute. reflexivity. Qed.

Lemma wf_kings p turn c : WF p turn -> (c = 0 \/ c = 1) -> popcount (pget p c King) = 1.
Proof. intros W [-> | ->]; [exact (wf_wk _ _ W)|exact (wf_bk _ _ W)]. Qed.

(* ------------------------------------------------------------------ *)
(** * is_checked *)

Theorem is_checked_mirror p c : Inv p -> (c = 0 \/ c = 1) -> popcount (pget p c King) = 1 ->
  is_checked (mirror_pos p) (opponent c) = is_checked p c.
Proof.
  intros HI Hc H1. pose proof (Inv_len _ HI) as Hl. unfold is_checked.
  rewrite (pget_mirror p (opponent c) King Hl (vcol_opponent c)) by (unfold King; lia).
  rewrite (opponent_invol c Hc).
  rewrite (ctz_flip_one _ (pget_word p c King HI) H1).
  assert (Hk : ctz (pget p c King) < 64).
  { apply ctz_lt64; [|now apply pget_word]. intros E. rewrite E in H1. discriminate. }
  pose proof (mirror_sq_lt _ Hk) as Hk'.
  destruct (N.eqb_spec (mirror_sq (ctz (pget p c King))) 64); [lia|].
  destruct (N.eqb_spec (ctz (pget p c King)) 64); [lia|].
  now apply is_attacked_mirror.
Qed.

(* ------------------------------------------------------------------ *)
(** * wf_b is preserved, with the turn swapped *)

Lemma home_ok_mirror p right right' ks rs c : Inv p -> (c = 0 \/ c = 1) -> ks < 64 -> rs < 64 ->
  is_allowed (mirror_castling (castling p)) right' = is_allowed (castling p) right ->
  home_ok p right ks rs c = true ->
  home_ok (mirror_pos p) right' (mirror_sq ks) (mirror_sq rs) (opponent c) = true.
Proof.
  intros HI Hc Hks Hrs Hr H. pose proof (Inv_len _ HI) as Hl. unfold home_ok in *.
  cbn [mirror_pos castling]. rewrite Hr.
  rewrite !(pget_mirror p (opponent c) _ Hl (vcol_opponent c)) by (unfold King, Rook; lia).
  rewrite (opponent_invol c Hc).
  rewrite (is_set_flip _ _ (mirror_sq_lt _ Hks)), (is_set_flip _ _ (mirror_sq_lt _ Hrs)), !mirror_sq_invol.
  exact H.
Qed.

Lemma ep_geom_w e : e < 64 -> sq_rank e = 5 ->
  mirror_sq e <> 0 /\ sq_rank (mirror_sq e) = 2 /\ mirror_sq e + 8 = mirror_sq (e - 8) /\ mirror_sq e - 8 = mirror_sq (e + 8) /\
  mirror_sq e + 8 < 64 /\ mirror_sq e - 8 < 64.
Proof.
  intros He Hr.
  assert (H : forallb (fun e => negb (N.land (N.shiftr e 3) 7 =? 5) ||
            (negb (mirror_sq e =? 0) && (N.land (N.shiftr (mirror_sq e) 3) 7 =? 2) && (mirror_sq e + 8 =? mirror_sq (e - 8)) &&
             (mirror_sq e - 8 =? mirror_sq (e + 8)) && (mirror_sq e + 8 <? 64) && (mirror_sq e - 8 <? 64))) (seqN 64) = true)
    by (vm_compute; reflexivity).
  rewrite forallb_forall in H. specialize (H e (proj2 (in_seqN64 e) He)).
  unfold sq_rank in *. rewrite Hr in H. cbn [N.eqb Pos.eqb negb orb] in H.
  rewrite !andb_true_iff, !negb_true_iff, !N.eqb_eq, !N.ltb_lt, N.eqb_neq in H. tauto.
Qed.

Lemma ep_geom_b e : e < 64 -> sq_rank e = 2 ->
  mirror_sq e <> 0 /\ sq_rank (mirror_sq e) = 5 /\ mirror_sq e - 8 = mirror_sq (e + 8) /\ mirror_sq e + 8 = mirror_sq (e - 8) /\
  mirror_sq e + 8 < 64 /\ mirror_sq e - 8 < 64.
Proof.
  intros He Hr.
  assert (H : forallb (fun e => negb (N.land (N.shiftr e 3) 7 =? 2) ||
            (negb (mirror_sq e =? 0) && (N.land (N.shiftr (mirror_sq e) 3) 7 =? 5) && (mirror_sq e - 8 =? mirror_sq (e + 8)) &&
             (mirror_sq e + 8 =? mirror_sq (e - 8)) && (mirror_sq e + 8 <? 64) && (mirror_sq e - 8 <? 64))) (seqN 64) = true)
    by (vm_compute; reflexivity).
  rewrite forallb_forall in H. specialize (H e (proj2 (in_seqN64 e) He)).
  unfold sq_rank in *. rewrite Hr in H. cbn [N.eqb Pos.eqb negb orb] in H.
  rewrite !andb_true_iff, !negb_true_iff, !N.eqb_eq, !N.ltb_lt, N.eqb_neq in H. tauto.
Qed.

Lemma ep_ok_mirror p turn : Inv p -> (turn = 0 \/ turn = 1) -> ep_ok p turn = true ->
  ep_ok (mirror_pos p) (opponent turn) = true.
Proof.
  intros HI Hc H. pose proof (Inv_len _ HI) as Hl. pose proof HI as [_ [_ [_ [_ [_ [_ [_ He]]]]]]].
  unfold ep_ok in *. cbn [mirror_pos enpassant].
  destruct (N.eqb_spec (enpassant p) 0) as [E0|E0]; [reflexivity|].
  set (e := enpassant p) in *.
  destruct Hc as [-> | ->].
  - change (0 =? White) with true in H. cbv iota in H.
    rewrite !andb_true_iff in H. destruct H as [[[Hr Hp] Hem] Hem2]. apply N.eqb_eq in Hr.
    destruct (ep_geom_w e He Hr) as [G0 [G1 [G2 [G3 [G4 G5]]]]].
    destruct (N.eqb_spec (mirror_sq e) 0); [contradiction|].
    change (opponent 0 =? White) with false. cbv iota.
    rewrite G1, N.eqb_refl.
    rewrite (pget_mirror p White Pawn Hl (or_introl eq_refl)) by (unfold Pawn; lia).
    change (opponent White) with Black.
    rewrite (is_set_flip _ _ G4), G2, mirror_sq_invol, Hp.
    rewrite (is_empty_mirror p _ HI (mirror_sq_lt e He)), mirror_sq_invol, Hem.
    rewrite (is_empty_mirror p _ HI G5), G3, mirror_sq_invol, Hem2. reflexivity.
  - change (1 =? White) with false in H. cbv iota in H.
    rewrite !andb_true_iff in H. destruct H as [[[Hr Hp] Hem] Hem2]. apply N.eqb_eq in Hr.
    destruct (ep_geom_b e He Hr) as [G0 [G1 [G2 [G3 [G4 G5]]]]].
    destruct (N.eqb_spec (mirror_sq e) 0); [contradiction|].
    change (opponent 1 =? White) with true. cbv iota.
    rewrite G1, N.eqb_refl.
    rewrite (pget_mirror p Black Pawn Hl (or_intror eq_refl)) by (unfold Pawn; lia).
    change (opponent Black) with White.
    rewrite (is_set_flip _ _ G5), G2, mirror_sq_invol, Hp.
    rewrite (is_empty_mirror p _ HI (mirror_sq_lt e He)), mirror_sq_invol, Hem.
    rewrite (is_empty_mirror p _ HI G4), G3, mirror_sq_invol, Hem2. reflexivity.
Qed.

(** C20 (6): the mirror of a legal position is a legal position with the other side to move *)
Theorem mirror_wf p turn : wf_b p turn = true -> (turn = 0 \/ turn = 1) -> wf_b (mirror_pos p) (opponent turn) = true.
Proof.
  intros Hwf Hc. pose proof (wf_b_WF _ _ Hwf) as W. pose proof (wf_inv _ _ W) as HI.
  pose proof (Inv_len _ HI) as Hl. pose proof HI as [_ [_ [_ [_ [_ [_ [Hca _]]]]]]].
  destruct (mirror_castling_spec _ Hca) as [_ [C1 [C2 [C3 C4]]]].
  unfold wf_b. rewrite !andb_true_iff, !N.eqb_eq, negb_true_iff.
  repeat split.
  - apply inv_b_iff. now apply mirror_inv.
  - rewrite (popcount_pget_mirror p White King HI (or_introl eq_refl)) by (unfold King; lia). exact (wf_bk _ _ W).
  - rewrite (popcount_pget_mirror p Black King HI (or_intror eq_refl)) by (unfold King; lia). exact (wf_wk _ _ W).
  - rewrite (pget_mirror p White Pawn Hl (or_introl eq_refl)) by (unfold Pawn; lia).
    rewrite (pget_mirror p Black Pawn Hl (or_intror eq_refl)) by (unfold Pawn; lia).
    change (opponent White) with Black. change (opponent Black) with White.
    rewrite <- flip_bb_lor, <- flip_ranks, <- flip_bb_land, N.lor_comm, (wf_ranks _ _ W). reflexivity.
  - apply (home_ok_mirror p BlackKingSideCastle WhiteKingSideCastle E8 H8 Black HI (or_intror eq_refl));
      [unfold E8; lia|unfold H8; lia|exact C1|exact (wf_h3 _ _ W)].
  - apply (home_ok_mirror p BlackQueenSideCastle WhiteQueenSideCastle E8 A8 Black HI (or_intror eq_refl));
      [unfold E8; lia|unfold A8; lia|exact C2|exact (wf_h4 _ _ W)].
  - apply (home_ok_mirror p WhiteKingSideCastle BlackKingSideCastle E1 H1 White HI (or_introl eq_refl));
      [unfold E1; lia|unfold H1; lia|exact C3|exact (wf_h1 _ _ W)].
  - apply (home_ok_mirror p WhiteQueenSideCastle BlackQueenSideCastle E1 A1 White HI (or_introl eq_refl));
      [unfold E1; lia|unfold A1; lia|exact C4|exact (wf_h2 _ _ W)].
  - apply (ep_ok_mirror p turn HI Hc (wf_ep _ _ W)).
  - rewrite (is_checked_mirror p (opponent turn) HI (vcol_opponent turn)); [exact (wf_nocheck _ _ W)|].
    apply (wf_kings p turn _ W (vcol_opponent turn)).
Qed.

(* ------------------------------------------------------------------ *)
(** * BERNSTEIN: control commutes with the mirror *)

Lemma cnt_eq_len (f : N -> bool) : length (filter f (seqN 64)) = cnt f.
Proof. unfold cnt. exact eq_refl. Qed.

Theorem bern_control_mirror p side : Inv p -> (side = 0 \/ side = 1) ->
  bern_control (mirror_pos p) (opponent side) = bern_control p side.
Proof.
  intros HI Hc. unfold bern_control. apply (f_equal Z.of_nat).
  rewrite !cnt_eq_len.
  rewrite <- (cnt_mirror (bern_controlled (mirror_pos p) (opponent side))).
  apply cnt_ext. intros s Hs. unfold bern_controlled.
  now rewrite (is_defended_mirror p side s HI Hc Hs), (is_attacked_mirror p side s HI Hc Hs).
Qed.

(* ------------------------------------------------------------------ *)
(** * the full commutation: statement and partial results *)

(** Move generation and attack queries commute with the colour mirror, for either colour (BERNSTEIN evaluates the
    mobility of both sides, so the statement cannot be restricted to the side to move, for which [legal_moves_fide]
    is available). *)
Definition mirror_commutes_statement : Prop :=
  forall p c, Inv p -> (c = 0 \/ c = 1) -> popcount (pget p c King) = 1 ->
    (* mobility *)
    length (legal_moves (mirror_pos p) (opponent c)) = length (legal_moves p c) /\
    (* king defense *)
    bern_king_defense (mirror_pos p) (opponent c) = bern_king_defense p c /\
    (* attack queries, control *)
    (forall sq, sq < 64 -> is_attacked (mirror_pos p) (opponent c) (mirror_sq sq) = is_attacked p c sq) /\
    bern_control (mirror_pos p) (opponent c) = bern_control p c.

(** proved: representation invariant and legality of the mirrored position, its abstraction, attack queries,
    check, control, every piece count.  Missing: the count of legal moves and the king-defense count (the
    latter needs [is_attacked_by] for the piece list without the king, for which there is no specification-side
    characterisation yet; the former needs the mirror to commute with [candidates]/[apply_move] on the
    specification side, or with [pseudo_legal_moves]/[pos_move] at the bit level). *)
Theorem mirror_commutes_partial : forall p c, Inv p -> (c = 0 \/ c = 1) ->
  Inv (mirror_pos p) /\
  brd (abs_pos (mirror_pos p)) = mirror_board (brd (abs_pos p)) /\
  (forall k, k <= 6 -> popcount (pget (mirror_pos p) (opponent c) k) = popcount (pget p c k)) /\
  (forall sq, sq < 64 -> is_attacked (mirror_pos p) (opponent c) (mirror_sq sq) = is_attacked p c sq) /\
  (popcount (pget p c King) = 1 -> is_checked (mirror_pos p) (opponent c) = is_checked p c) /\
  bern_control (mirror_pos p) (opponent c) = bern_control p c /\
  bern_material (mirror_pos p) (opponent c) = bern_material p c /\
  (forall turn, (turn = 0 \/ turn = 1) -> wf_b p turn = true -> wf_b (mirror_pos p) (opponent turn) = true).
Proof.
  intros p c HI Hc. split; [now apply mirror_inv|]. split; [now apply brd_abs_mirror|]. split.
  { intros k Hk. rewrite (popcount_pget_mirror p (opponent c) k HI (vcol_opponent c) Hk). now rewrite opponent_invol. }
  split; [intros sq Hs; now apply is_attacked_mirror|]. split; [now apply is_checked_mirror|].
  split; [now apply bern_control_mirror|]. split; [now apply bernstein_material_colourblind|].
  intros turn Ht Hwf. now apply mirror_wf.
Qed.

(** BERNSTEIN's evaluation is colour-blind, conditional on the full commutation *)
Theorem bernstein_colourblind : mirror_commutes_statement ->
  forall p factor turn, wf_b p turn = true -> (turn = 0 \/ turn = 1) ->
    bern_evaluate (mirror_pos p) factor (opponent turn) = bern_evaluate p factor turn /\
    bern_evaluate (mirror_pos p) factor turn = bern_evaluate p factor (opponent turn) /\
    bern_eval (mirror_pos p) factor (opponent turn) = bern_eval p factor turn.
Proof.
  intros MC p factor turn Hwf Hc. pose proof (wf_b_WF _ _ Hwf) as W. pose proof (wf_inv _ _ W) as HI.
  assert (K1 : popcount (pget p turn King) = 1) by (now apply wf_king).
  assert (K2 : popcount (pget p (opponent turn) King) = 1).
  { apply (wf_kings p turn _ W (vcol_opponent turn)). }
  assert (E : forall c, (c = 0 \/ c = 1) -> popcount (pget p c King) = 1 ->
              bern_evaluate (mirror_pos p) factor (opponent c) = bern_evaluate p factor c).
  { intros c Hcc Hk. destruct (MC p c HI Hcc Hk) as [M1 [M2 [_ M4]]].
    unfold bern_evaluate, bern_mobility. now rewrite M1, M2, M4, (bernstein_material_colourblind p c HI Hcc). }
  assert (E1 := E turn Hc K1). assert (E2 := E (opponent turn) (vcol_opponent turn) K2).
  rewrite (opponent_invol turn Hc) in E2.
  split; [exact E1|]. split; [exact E2|].
  unfold bern_eval. rewrite (opponent_invol turn Hc). now rewrite E1, E2.
Qed.

Print Assumptions mirror_wf.
Print Assumptions mirror_commutes_partial.
Print Assumptions bernstein_colourblind.
