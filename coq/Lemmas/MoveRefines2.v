(** C02, part 2: from the shape of a move to the invariant, the refinement and closure of legality. *)
From Coq Require Import NArith ZArith List Bool Lia ZifyBool ZifyNat ZifyN.
From Morlock.Model Require Import Bits Attacks Move Position Abs.
From Morlock.Spec Require Import Chess.
From Morlock.Lemmas Require Import PositionLemmas MoveRefines1.
Import ListNotations.
Open Scope N_scope.

Lemma wf_b_elim p turn : wf_b p turn = true ->
  Inv p /\ popcount (pget p White King) = 1 /\ popcount (pget p Black King) = 1 /\
  N.land (N.lor (pget p White Pawn) (pget p Black Pawn)) (N.lor (bitrank 0) (bitrank 7)) = 0 /\
  home_ok p WhiteKingSideCastle E1 H1 White = true /\ home_ok p WhiteQueenSideCastle E1 A1 White = true /\
  home_ok p BlackKingSideCastle E8 H8 Black = true /\ home_ok p BlackQueenSideCastle E8 A8 Black = true /\
  ep_ok p turn = true /\ is_checked p (opponent turn) = false.
Proof. unfold wf_b. rewrite !andb_true_iff, !N.eqb_eq, negb_true_iff, inv_b_iff. tauto. Qed.

Lemma wf_b_intro p turn :
  Inv p -> popcount (pget p White King) = 1 -> popcount (pget p Black King) = 1 ->
  N.land (N.lor (pget p White Pawn) (pget p Black Pawn)) (N.lor (bitrank 0) (bitrank 7)) = 0 ->
  home_ok p WhiteKingSideCastle E1 H1 White = true -> home_ok p WhiteQueenSideCastle E1 A1 White = true ->
  home_ok p BlackKingSideCastle E8 H8 Black = true -> home_ok p BlackQueenSideCastle E8 A8 Black = true ->
  ep_ok p turn = true -> is_checked p (opponent turn) = false -> wf_b p turn = true.
Proof. intros. unfold wf_b. rewrite !andb_true_iff, !N.eqb_eq, negb_true_iff, inv_b_iff. tauto. Qed.

Lemma home_ok_elim p right ks rs c : Inv p -> vcol c -> ks < 64 -> rs < 64 ->
  home_ok p right ks rs c = true -> is_allowed (castling p) right = true ->
  square p ks = Some (c, King) /\ square p rs = Some (c, Rook).
Proof. intros HI Hc Hks Hrs H Ha. unfold home_ok in H. rewrite Ha in H. cbn [negb orb] in H.
  apply andb_true_iff in H as [A B]. rewrite is_set_tb64 in A, B by assumption.
  split; apply pbit_square; auto; unfold vpc, King, Rook; lia. Qed.

Theorem shape_move_result p turn m p' : Inv p -> Shape p turn m -> pos_move p m = Some p' ->
  exists ret, p' = move_fields p ret m /\ Inv ret /\
    (forall s, s < 64 -> square ret s = fold_left edit_fun (move_edits m turn (mpiece m)) (square p) s) /\
    brd (abs_pos ret) = fold_left edit_cell (move_edits m turn (mpiece m)) (brd (abs_pos p)) /\
    is_checked p' turn = false.
Proof. intros HI Hsh Hmv. pose proof (shape_edits_ok _ _ _ HI Hsh) as Hok.
  destruct (edits_sound _ p (square p) HI (fun s _ => eq_refl) Hok) as [A [B C]].
  rewrite pos_move_edits, (sh_orig _ _ _ Hsh) in Hmv.
  destruct (negb (mtype m =? EnPassant) && is_castle m && existsb (fun sq => is_attacked p turn sq) (safe_castling_squares turn (mtype m))); [discriminate|].
  cbv zeta in Hmv.
  destruct (is_checked (move_fields p (fold_left edit_pos (move_edits m turn (mpiece m)) p) m) turn) eqn:E; [discriminate|].
  inversion Hmv; subst p'. eexists. split; [reflexivity|]. split; [exact A|]. split; [exact B|]. split; [exact C|exact E]. Qed.

Theorem shape_move_inv p turn m p' : Inv p -> Shape p turn m -> pos_move p m = Some p' -> Inv p'.
Proof. intros HI Hsh Hmv. destruct (shape_move_result _ _ _ _ HI Hsh Hmv) as [ret [-> [HIr _]]].
  unfold move_fields. apply Inv_set_fields; [assumption| |apply ep_target_lt].
  apply andnot_castling_lt. now destruct HI as [_ [_ [_ [_ [_ [_ [H _]]]]]]]. Qed.

Lemma shape_to_not_king p turn m c : Shape p turn m -> square p (mto m) <> Some (c, King).
Proof. intros [Ht Hf Hto Ho Hk].
  destruct Hk as [Hty Hvpc Hnp Hd Hks | Hty Hvpc Hd Hnk Hks Hpw | Hty Hpc Hd Hrel Hlr | Hty Hpc Hd Hrel Hmid
                 | Hty Hpc Hd Hrel Hlr Hoff | Hty Hpc Hd Hnk Hrel Hlr Hoff | Hty Hpc Hte Hne Hd Hrel Hrk Hcap
                 | Hty Hpc Hfr Htoe H1 H2 H3 | Hty Hpc Hfr Htoe H1 H2 H3]; congruence. Qed.

Lemma shape_rights_cond p turn m : wf_b p turn = true -> Shape p turn m -> rights_cond (castling p) (mto m) = true.
Proof. intros Hwf Hsh. destruct (wf_b_elim _ _ Hwf) as [HI [_ [_ [_ [W1 [W2 [B1 [B2 _]]]]]]]].
  unfold rights_cond. apply andb_true_iff. split; apply negb_true_iff; apply andb_false_iff.
  - destruct (N.eqb_spec (mto m) E1) as [E|E]; [right|now left]. apply orb_false_iff. split.
    + destruct (is_allowed (castling p) WhiteKingSideCastle) eqn:A; [|reflexivity]. exfalso.
      destruct (home_ok_elim p WhiteKingSideCastle E1 H1 White HI (or_introl eq_refl) eq_refl eq_refl W1 A) as [K _].
      rewrite <- E in K. exact (shape_to_not_king _ _ _ _ Hsh K).
    + destruct (is_allowed (castling p) WhiteQueenSideCastle) eqn:A; [|reflexivity]. exfalso.
      destruct (home_ok_elim p WhiteQueenSideCastle E1 A1 White HI (or_introl eq_refl) eq_refl eq_refl W2 A) as [K _].
      rewrite <- E in K. exact (shape_to_not_king _ _ _ _ Hsh K).
  - destruct (N.eqb_spec (mto m) E8) as [E|E]; [right|now left]. apply orb_false_iff. split.
    + destruct (is_allowed (castling p) BlackKingSideCastle) eqn:A; [|reflexivity]. exfalso.
      destruct (home_ok_elim p BlackKingSideCastle E8 H8 Black HI (or_intror eq_refl) eq_refl eq_refl B1 A) as [K _].
      rewrite <- E in K. exact (shape_to_not_king _ _ _ _ Hsh K).
    + destruct (is_allowed (castling p) BlackQueenSideCastle) eqn:A; [|reflexivity]. exfalso.
      destruct (home_ok_elim p BlackQueenSideCastle E8 A8 Black HI (or_intror eq_refl) eq_refl eq_refl B2 A) as [K _].
      rewrite <- E in K. exact (shape_to_not_king _ _ _ _ Hsh K). Qed.

(* ------------------------------------------------------------------ *)
(** * refinement of [apply_move] *)

Lemma abs_move_fields p ret m :
  abs_pos (move_fields p ret m) =
  mkSpos (brd (abs_pos ret)) (abs_rights (andnot (castling p) (castling_rights_lost m)))
         (if fst (ep_target m) =? 0 then None else Some (N.to_nat (fst (ep_target m)))).
Proof. reflexivity. Qed.

Lemma color_of_vcol turn : vcol turn -> color_of (opponent turn) = other (color_of turn).
Proof. intros [->| ->]; reflexivity. Qed.

Theorem shape_move_refines p turn m p' : wf_b p turn = true -> Shape p turn m -> pos_move p m = Some p' ->
  abs_pos p' = apply_move (abs_pos p) (color_of turn) (abs_move m).
Proof. intros Hwf Hsh Hmv. pose proof (wf_b_elim _ _ Hwf) as [HI [_ [_ [_ [_ [_ [_ [_ [Hep _]]]]]]]]].
  destruct (shape_move_result _ _ _ _ HI Hsh Hmv) as [ret [-> [HIr [Hsq [Hbrd Hchk]]]]].
  pose proof (shape_rights_cond _ _ _ Hwf Hsh) as Hrc.
  pose proof Hsh as [Ht Hf Hto Ho Hk].
  assert (Hca : castling p < 16) by (now destruct HI as [_ [_ [_ [_ [_ [_ [H _]]]]]]]).
  rewrite abs_move_fields, Hbrd. rewrite (rights_refine _ _ Hca Hf Hto Hrc).
  assert (Hvp : vpc (mpiece m)) by (apply square_some in Ho; tauto).
  destruct (kind_of_vpc _ Hvp) as [k [Hk1 Hk2]].
  assert (Hat : at_ (brd (abs_pos p)) (sfrom (abs_move m)) = Some (color_of turn, k)).
  { cbn [abs_move sfrom]. rewrite at_abs_pos, Ho, Hk1 by assumption. reflexivity. }
  rewrite (apply_move_unfold _ _ _ _ _ Hat). cbv zeta.
  change (rts (abs_pos p)) with (abs_rights (castling p)).
  change (eps (abs_pos p)) with (if enpassant p =? 0 then None else Some (N.to_nat (enpassant p))).
  pose proof (occupied_abs p (mto m) HI Hto) as Hocc.
  pose proof (opponent_neq _ Ht) as Hopp.
  set (b := brd (abs_pos p)) in *. clearbody b.
  destruct m as [ty fr to pc pr cap]. cbn [mtype mfrom mto mpiece mpromo mcapture abs_move sfrom sto spromo] in *.
  fold (zfile fr) (zfile to) (zrank fr) (zrank to). fold (file_diff2 fr to) (rank_diff2 fr to) (same_file fr to).
  destruct Hk as [Hty Hvpc Hnp Hd Hks | Hty Hvpc Hd Hnk Hks Hpw | Hty Hpc Hd Hrel Hlr | Hty Hpc Hd Hrel Hmid
                 | Hty Hpc Hd Hrel Hlr Hoff | Hty Hpc Hd Hnk Hrel Hlr Hoff | Hty Hpc Hte Hne Hd Hrel Hrk Hcap
                 | Hty Hpc Hfr Htoe H1 H2 H3 | Hty Hpc Hfr Htoe H1 H2 H3];
  cbn [mtype mfrom mto mpiece mpromo mcapture] in *; subst ty.
  - (* Normal *)
    unfold move_edits, is_capture, is_promotion, is_castle; cbn [mtype mfrom mto mpiece mpromo mcapture].
    cbn [N.eqb Pos.eqb Normal Push Jump EnPassant QueenSideCastle KingSideCastle Capture Promotion CapturePromotion orb app fold_left edit_cell].
    rewrite (ep_target_nojump (mkMove Normal fr to pc pr cap)) by discriminate. cbn [N.eqb].
    unfold cell_of. rewrite Hk1.
    destruct k; cbn [code_of_kind] in Hk2; subst pc; try (exfalso; apply Hnp; reflexivity); try reflexivity.
    rewrite (king_step_geom fr to Hf Hto (Hks eq_refl)). reflexivity.
  - (* Capture *)
    unfold move_edits, is_capture, is_promotion, is_castle; cbn [mtype mfrom mto mpiece mpromo mcapture].
    cbn [N.eqb Pos.eqb Normal Push Jump EnPassant QueenSideCastle KingSideCastle Capture Promotion CapturePromotion orb app fold_left edit_cell].
    rewrite (ep_target_nojump (mkMove Capture fr to pc pr cap)) by discriminate. cbn [N.eqb].
    unfold cell_of. rewrite Hk1. rewrite set_cell_twice. rewrite Hd in Hocc.
    destruct k; cbn [code_of_kind] in Hk2; subst pc; try reflexivity.
    + destruct (Hpw eq_refl) as [Hrel Hlr]. destruct (cap_geom turn fr to Ht Hf Hto Hrel) as [G1 [G2 _]].
      rewrite G1, Hocc. destruct (enpassant p =? 0); [reflexivity|]. now rewrite !andb_false_r.
    + rewrite (king_step_geom fr to Hf Hto (Hks eq_refl)). reflexivity.
  - (* Push *)
    subst pc. vm_compute in Hk1. inversion Hk1; subst k.
    unfold move_edits, is_capture, is_promotion, is_castle; cbn [mtype mfrom mto mpiece mpromo mcapture].
    cbn [N.eqb Pos.eqb Normal Push Jump EnPassant QueenSideCastle KingSideCastle Capture Promotion CapturePromotion orb app fold_left edit_cell].
    rewrite (ep_target_nojump (mkMove Push fr to Pawn pr cap)) by discriminate. cbn [N.eqb].
    destruct (push_geom turn fr to Ht Hf Hto Hrel) as [G1 G2]. rewrite G1, G2.
    destruct (enpassant p =? 0); [reflexivity|]. cbn [negb]. now rewrite !andb_false_r.
  - (* Jump *)
    subst pc. vm_compute in Hk1. inversion Hk1; subst k.
    unfold move_edits, is_capture, is_promotion, is_castle; cbn [mtype mfrom mto mpiece mpromo mcapture].
    cbn [N.eqb Pos.eqb Normal Push Jump EnPassant QueenSideCastle KingSideCastle Capture Promotion CapturePromotion orb app fold_left edit_cell].
    rewrite (ep_target_jump (mkMove Jump fr to Pawn pr cap)) by reflexivity. cbn [mto].
    destruct (jump_geom turn fr to Ht Hf Hto Hrel) as [G1 [G2 [G3 [G4 _]]]]. rewrite G1, G2, G3.
    destruct (N.eqb_spec (jump_ep to) 0); [contradiction|].
    destruct (enpassant p =? 0); [reflexivity|]. cbn [negb]. now rewrite !andb_false_r.
  - (* Promotion *)
    subst pc. vm_compute in Hk1. inversion Hk1; subst k.
    unfold move_edits, is_capture, is_promotion, is_castle; cbn [mtype mfrom mto mpiece mpromo mcapture].
    cbn [N.eqb Pos.eqb Normal Push Jump EnPassant QueenSideCastle KingSideCastle Capture Promotion CapturePromotion orb app fold_left edit_cell].
    rewrite (ep_target_nojump (mkMove Promotion fr to Pawn pr cap)) by discriminate. cbn [N.eqb].
    destruct (push_geom turn fr to Ht Hf Hto Hrel) as [G1 G2]. rewrite G1, G2.
    assert (E : exists k', kind_of pr = Some k' /\ cell_of turn pr = Some (color_of turn, k')).
    { destruct Hoff as [->|[->|[->| ->]]]; eexists; split; reflexivity. }
    destruct E as [k' [E1 E2]]. rewrite E1, E2.
    destruct (enpassant p =? 0); [reflexivity|]. cbn [negb]. now rewrite !andb_false_r.
  - (* CapturePromotion *)
    subst pc. vm_compute in Hk1. inversion Hk1; subst k.
    unfold move_edits, is_capture, is_promotion, is_castle; cbn [mtype mfrom mto mpiece mpromo mcapture].
    cbn [N.eqb Pos.eqb Normal Push Jump EnPassant QueenSideCastle KingSideCastle Capture Promotion CapturePromotion orb app fold_left edit_cell].
    rewrite (ep_target_nojump (mkMove CapturePromotion fr to Pawn pr cap)) by discriminate. cbn [N.eqb].
    destruct (cap_geom turn fr to Ht Hf Hto Hrel) as [G1 [G2 _]]. rewrite G1. rewrite Hd in Hocc. rewrite Hocc.
    rewrite set_cell_twice.
    assert (E : exists k', kind_of pr = Some k' /\ cell_of turn pr = Some (color_of turn, k')).
    { destruct Hoff as [->|[->|[->| ->]]]; eexists; split; reflexivity. }
    destruct E as [k' [E1 E2]]. rewrite E1, E2.
    destruct (enpassant p =? 0); [reflexivity|]. now rewrite !andb_false_r.
  - (* EnPassant *)
    subst pc. vm_compute in Hk1. inversion Hk1; subst k.
    unfold move_edits, is_capture, is_promotion, is_castle; cbn [mtype mfrom mto mpiece mpromo mcapture].
    cbn [N.eqb Pos.eqb Normal Push Jump EnPassant QueenSideCastle KingSideCastle Capture Promotion CapturePromotion orb app fold_left edit_cell].
    rewrite (ep_target_nojump (mkMove EnPassant fr to Pawn pr cap)) by discriminate. cbn [N.eqb].
    rewrite (ep_capture_sq (mkMove EnPassant fr to Pawn pr cap)) by reflexivity. cbn [mto].
    rewrite (ep_cap_sq_val turn to Ht Hto Hrk).
    destruct (cap_geom turn fr to Ht Hf Hto Hrel) as [G1 [G2 G3]]. rewrite G1, G2. rewrite Hd in Hocc. rewrite Hocc.
    rewrite <- Hte. destruct (N.eqb_spec to 0); [congruence|]. rewrite Nat.eqb_refl. cbn [negb andb].
    rewrite G3; [reflexivity|]. destruct Ht as [->| ->]; cbn [N.eqb Pos.eqb] in *; lia.
  - (* KingSideCastle *)
    subst pc fr to. vm_compute in Hk1. inversion Hk1; subst k.
    destruct Ht as [->| ->]; reflexivity.
  - (* QueenSideCastle *)
    subst pc fr to. vm_compute in Hk1. inversion Hk1; subst k.
    destruct Ht as [->| ->]; reflexivity.
Qed.
