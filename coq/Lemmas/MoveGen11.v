(** MoveGen11 — [move_metadata_ok]: kind, moving piece and captured piece of every pseudo-legal (hence every
    legal) move describe what the move does in the position, in the vocabulary of the specification
    ([is_ep_move], [is_castling_move], [is_double_step], [moving], [captured], [occupied]). *)
From Coq Require Import NArith ZArith List Bool Lia ZifyBool ZifyNat ZifyN.
From Morlock.Model Require Import Bits Attacks Move Position Abs.
From Morlock.Spec Require Import Chess.
From Morlock.Lemmas Require Import PositionLemmas MoveRefines1 MoveRefines2 MoveRefines4.
From Morlock.Lemmas Require Import AttackGeometry AttackGeometry_Extra MoveGen1 MoveGen2 MoveGen3 MoveGen4 MoveGen5 MoveGen6 MoveGen7 MoveGen8.
Import ListNotations.
Open Scope N_scope.

Ltac Zify.zify_post_hook ::= Z.div_mod_to_equations.

Section Meta.
  Variables (p : position) (turn : N) (m : move).
  Hypothesis Hwf : wf_b p turn = true.
  Hypothesis Hc : vcol turn.
  Hypothesis Hin : In m (pseudo_legal_moves p turn).
  Local Notation sp := (abs_pos p).
  Local Notation b := (brd (abs_pos p)).
  Local Notation c := (color_of turn).
  Local Notation sm := (abs_move m).

  Let W : WF p turn := wf_b_WF _ _ Hwf.
  Let HI : Inv p := wf_inv _ _ W.
  Let Hsh : Shape p turn m := pseudo_shape p turn m Hwf Hin.
  Let Hmeta : metadata_ok p turn m := proj2 (pseudo_legal_sound p turn m W Hc Hin).

  Lemma Etype : mtype m = expected_type sp c sm.
  Proof. pose proof (f_equal mtype Hmeta) as H. exact H. Qed.

  Lemma from_cell : exists k, at_ b (sfrom sm) = Some (c, k) /\ mpiece m = code_of_kind k.
  Proof.
    pose proof (sh_orig _ _ _ Hsh) as Ho. pose proof (sh_from _ _ _ Hsh) as Hf.
    apply square_some in Ho as [_ [Hp Hb]]; try assumption.
    destruct (vpc_kind _ Hp) as [k Ek]. exists k. split; [|exact Ek].
    cbn [abs_move sfrom]. apply at_piece; try assumption. now rewrite <- Ek.
  Qed.

  Lemma to_empty : square p (mto m) = None -> occupied b (sto sm) = false.
  Proof.
    intros H. cbn [abs_move sto]. rewrite (MoveRefines1.occupied_abs p (mto m) HI (sh_to _ _ _ Hsh)), H. reflexivity.
  Qed.

  (** en passant *)
  Lemma F_ep : is_ep_move sp sm = true ->
    mtype m = EnPassant /\ is_double_step b sm = false /\ (rank_of (sto sm) =? last_rank c)%Z = false /\
    occupied b (sto sm) = false /\ is_castling_move b sm = false.
  Proof.
    intros H.
    assert (Ht : mtype m = EnPassant) by (rewrite Etype; unfold expected_type; now rewrite H).
    split; [exact Ht|].
    pose proof (sh_from _ _ _ Hsh) as Hf. pose proof (sh_to _ _ _ Hsh) as Hto.
    destruct (sh_kind _ _ _ Hsh) as [Hty Hvpc Hnp Hd Hks | Hty Hvpc Hd Hnk Hks Hpw | Hty Hpc Hd Hrel Hlr | Hty Hpc Hd Hrel Hmid
                 | Hty Hpc Hd Hrel Hlr Hoff | Hty Hpc Hd Hnk Hrel Hlr Hoff | Hty Hpc Hte Hne Hd Hrel Hrk Hcap
                 | Hty Hpc Hfr Htoe H1 H2 H3 | Hty Hpc Hfr Htoe H1 H2 H3]; try (rewrite Hty in Ht; discriminate).
    destruct (cap_geom turn _ _ Hc Hf Hto Hrel) as [G1 _]. unfold rank_diff2, zrank in G1.
    split; [|split; [|split]].
    - unfold is_double_step. cbn [abs_move sfrom sto]. destruct (at_ b (N.to_nat (mfrom m))) as [[? []]|]; try reflexivity. exact G1.
    - cbn [abs_move sto]. unfold rank_of, last_rank.
      destruct Hc as [->| ->]; cbn [N.eqb color_of White] in *; lia.
    - now apply to_empty.
    - unfold is_ep_move in H. unfold is_castling_move. destruct (at_ b (sfrom sm)) as [[? []]|]; try reflexivity; discriminate.
  Qed.

  (** castling *)
  Lemma F_cs : is_castling_move b sm = true ->
    is_castle m = true /\ occupied b (sto sm) = false /\ is_ep_move sp sm = false /\ is_double_step b sm = false /\
    moving sp sm = Some K.
  Proof.
    intros H.
    assert (Hep : is_ep_move sp sm = false).
    { unfold is_castling_move in H. unfold is_ep_move. destruct (at_ b (sfrom sm)) as [[? []]|]; try reflexivity; discriminate. }
    assert (Hds : is_double_step b sm = false).
    { unfold is_castling_move in H. unfold is_double_step. destruct (at_ b (sfrom sm)) as [[? []]|]; try reflexivity; discriminate. }
    assert (Hmv : moving sp sm = Some K).
    { unfold is_castling_move in H. unfold moving. destruct (at_ b (sfrom sm)) as [[? []]|]; try reflexivity; discriminate. }
    assert (Ht : is_castle m = true).
    { unfold is_castle. rewrite Etype. unfold expected_type. rewrite Hep, H.
      destruct (file_of (sto sm) <? file_of (sfrom sm))%Z; reflexivity. }
    split; [exact Ht|]. split; [|auto].
    unfold is_castle in Ht.
    destruct (sh_kind _ _ _ Hsh) as [Hty Hvpc Hnp Hd Hks | Hty Hvpc Hd Hnk Hks Hpw | Hty Hpc Hd Hrel Hlr | Hty Hpc Hd Hrel Hmid
                 | Hty Hpc Hd Hrel Hlr Hoff | Hty Hpc Hd Hnk Hrel Hlr Hoff | Hty Hpc Hte Hne Hd Hrel Hrk Hcap
                 | Hty Hpc Hfr Htoe H1 H2 H3 | Hty Hpc Hfr Htoe H1 H2 H3]; try (rewrite Hty in Ht; discriminate);
    apply to_empty; rewrite Htoe; assumption.
  Qed.

  (** double step *)
  Lemma F_ds : is_double_step b sm = true ->
    mtype m = Jump /\ occupied b (sto sm) = false /\ (rank_of (sto sm) =? last_rank c)%Z = false /\
    is_ep_move sp sm = false /\ is_castling_move b sm = false.
  Proof.
    intros H.
    assert (Hep : is_ep_move sp sm = false).
    { destruct (is_ep_move sp sm) eqn:E; [|reflexivity]. apply F_ep in E as [_ [E _]]. congruence. }
    assert (Hcs : is_castling_move b sm = false).
    { unfold is_double_step in H. unfold is_castling_move. destruct (at_ b (sfrom sm)) as [[? []]|]; try reflexivity; discriminate. }
    assert (Ht : mtype m = Jump) by (rewrite Etype; unfold expected_type; now rewrite Hep, Hcs, H).
    split; [exact Ht|].
    pose proof (sh_from _ _ _ Hsh) as Hf. pose proof (sh_to _ _ _ Hsh) as Hto.
    destruct (sh_kind _ _ _ Hsh) as [Hty Hvpc Hnp Hd Hks | Hty Hvpc Hd Hnk Hks Hpw | Hty Hpc Hd Hrel Hlr | Hty Hpc Hd Hrel Hmid
                 | Hty Hpc Hd Hrel Hlr Hoff | Hty Hpc Hd Hnk Hrel Hlr Hoff | Hty Hpc Hte Hne Hd Hrel Hrk Hcap
                 | Hty Hpc Hfr Htoe H1 H2 H3 | Hty Hpc Hfr Htoe H1 H2 H3]; try (rewrite Hty in Ht; discriminate).
    split; [now apply to_empty|]. split; [|auto].
    cbn [abs_move sto]. unfold rank_of, last_rank. unfold pawn_jump_rel in Hrel.
    destruct Hc as [->| ->]; cbn [N.eqb color_of White] in *; lia.
  Qed.

  (** * deliverable 4 *)
  Theorem pseudo_move_metadata :
    metadata_ok p turn m /\
    (exists k, moving sp sm = Some k /\ mpiece m = code_of_kind k) /\
    (is_capture m = true <-> occupied b (sto sm) = true) /\
    mcapture m = okind_code (captured sp sm) /\
    (mtype m = EnPassant <-> is_ep_move sp sm = true) /\
    (is_castle m = true <-> is_castling_move b sm = true) /\
    (mtype m = KingSideCastle <-> is_castling_move b sm = true /\ (file_of (sto sm) < file_of (sfrom sm))%Z) /\
    (mtype m = QueenSideCastle <-> is_castling_move b sm = true /\ (file_of (sfrom sm) <= file_of (sto sm))%Z) /\
    (mtype m = Jump <-> is_double_step b sm = true) /\
    (is_promotion m = true <-> moving sp sm = Some P /\ rank_of (sto sm) = last_rank c) /\
    (is_promotion m = false -> mpromo m = NoPiece).
  Proof.
    split; [exact Hmeta|].
    destruct from_cell as [k [Eat Epc]].
    assert (Emv : moving sp sm = Some k) by (unfold moving; now rewrite Eat).
    split; [exists k; auto|].
    pose proof Etype as Et. unfold expected_type in Et.
    pose proof F_ep as Fe. pose proof F_cs as Fc. pose proof F_ds as Fd.
    assert (Ecap : mcapture m = okind_code (captured sp sm)) by (pose proof (f_equal mcapture Hmeta) as H; exact H).
    assert (Epr : is_promotion m = false -> mpromo m = NoPiece).
    { intros H. pose proof (f_equal mpromo Hmeta) as H2. cbn [concretize mpromo] in H2.
      rewrite H2. unfold abs_move. cbn [spromo]. now rewrite H. }
    destruct (is_ep_move sp sm) eqn:Eep.
    { destruct (Fe eq_refl) as [T [D [Rk [Oc Cs]]]]. rewrite D, Cs, Oc.
      unfold is_capture, is_castle, is_promotion in Epr |- *. rewrite T in Epr |- *. cbn [N.eqb Pos.eqb EnPassant CapturePromotion Capture KingSideCastle QueenSideCastle Jump Promotion orb] in Epr |- *.
      repeat split; try discriminate; try (intros [? ?]; discriminate); auto.
      intros [_ Hr]. apply Z.eqb_eq in Hr. congruence. }
    destruct (is_castling_move b sm) eqn:Ecs.
    { destruct (Fc eq_refl) as [T [Oc [_ [D Mv]]]]. rewrite D, Oc.
      unfold is_castle in T. unfold is_capture, is_castle, is_promotion in Epr |- *.
      destruct (file_of (sto sm) <? file_of (sfrom sm))%Z eqn:Efl; rewrite Et in Epr |- *;
      cbn [N.eqb Pos.eqb EnPassant CapturePromotion Capture KingSideCastle QueenSideCastle Jump Promotion orb] in Epr |- *;
      repeat split; try discriminate; try (intros [? ?]; try discriminate; try lia; congruence); auto; try lia;
      try (intros [H1 H2]; congruence). }
    destruct (is_double_step b sm) eqn:Eds.
    { destruct (Fd eq_refl) as [T [Oc [Rk _]]]. rewrite Oc.
      unfold is_capture, is_castle, is_promotion in Epr |- *. rewrite T in Epr |- *. cbn [N.eqb Pos.eqb EnPassant CapturePromotion Capture KingSideCastle QueenSideCastle Jump Promotion orb] in Epr |- *.
      repeat split; try discriminate; try (intros [? ?]; discriminate); auto.
      intros [_ Hr]. apply Z.eqb_eq in Hr. congruence. }
    rewrite Emv in Et. unfold is_capture, is_castle, is_promotion in Epr |- *. rewrite Et in Epr |- *.
    destruct k; destruct (rank_of (sto sm) =? last_rank c)%Z eqn:Erk; destruct (occupied b (sto sm));
    cbn [N.eqb Pos.eqb EnPassant CapturePromotion Capture KingSideCastle QueenSideCastle Jump Promotion Normal Push orb] in Epr |- *;
    repeat split; try discriminate; try (intros [? ?]; discriminate); auto;
    try (intros [H1 H2]; try discriminate; apply Z.eqb_eq in H2 || idtac; congruence);
    try (intros _; split; [reflexivity|now apply Z.eqb_eq]); try (now apply Z.eqb_eq).
  Qed.
End Meta.

Theorem move_metadata_ok : forall p turn m, wf_b p turn = true -> (turn = 0 \/ turn = 1) ->
  In m (legal_moves p turn) ->
  let sp := abs_pos p in let sm := abs_move m in let b := brd sp in let c := color_of turn in
  metadata_ok p turn m /\
  (exists k, moving sp sm = Some k /\ mpiece m = code_of_kind k) /\
  (is_capture m = true <-> occupied b (sto sm) = true) /\
  mcapture m = okind_code (captured sp sm) /\
  (mtype m = EnPassant <-> is_ep_move sp sm = true) /\
  (is_castle m = true <-> is_castling_move b sm = true) /\
  (mtype m = KingSideCastle <-> is_castling_move b sm = true /\ (file_of (sto sm) < file_of (sfrom sm))%Z) /\
  (mtype m = QueenSideCastle <-> is_castling_move b sm = true /\ (file_of (sfrom sm) <= file_of (sto sm))%Z) /\
  (mtype m = Jump <-> is_double_step b sm = true) /\
  (is_promotion m = true <-> moving sp sm = Some P /\ rank_of (sto sm) = last_rank c) /\
  (is_promotion m = false -> mpromo m = NoPiece).
Proof.
  intros p turn m Hwf Hc Hin. unfold legal_moves in Hin. apply filter_In in Hin as [Hin _].
  cbv zeta. now apply pseudo_move_metadata.
Qed.
Print Assumptions move_metadata_ok.
