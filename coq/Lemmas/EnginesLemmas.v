(** EnginesLemmas — C20 (TUROCHAMP, BERNSTEIN, SARGON): summary of EnginesLemmas1..9.

    C20: "in every legal position the evaluation is a finite number, and the generic material, TUROCHAMP and
    BERNSTEIN evaluations are colour-blind.  Their move filters (plausible moves, considerable moves, no
    under-promotion) only select legal moves, each once and within the branch limit, and the main-search filters
    (plausible moves, no under-promotion) select at least one whenever a legal move exists; every opening-book
    reply is legal in the position it is keyed on."

    Float arithmetic is not modelled (see Model/Engines.v): "finite" is carried by the skeleton — every divisor
    is an integer >= 1 and every input is a bounded integer.  What is proved about colour-blindness: generic
    material and TUROCHAMP's material ratio unconditionally; BERNSTEIN's control, king defense and material
    unconditionally, its mobility term only as [mirror_mobility_statement]. *)
From Coq Require Import NArith ZArith List Bool Lia.
From Morlock.Model Require Import Bits Attacks Move Position Abs Search Fen Engines.
From Morlock.Lemmas Require Import PositionLemmas.
From Morlock.Lemmas Require Export EnginesLemmas1 EnginesLemmas2 EnginesLemmas3 EnginesLemmas4 EnginesLemmas5
     EnginesLemmas6 EnginesLemmas7 EnginesLemmas8 EnginesLemmas9.
Import ListNotations.

Definition legal_position (p : position) (turn : N) : Prop := wf_b p turn = true /\ (turn = 0 \/ turn = 1)%N.

(** evaluations: defined, divisors >= 1, inputs bounded *)
Theorem C20_evaluations_finite p turn factor : legal_position p turn ->
  (Z.abs (material_pos p turn) <= 567)%Z /\
  (exists r, turo_material_eval p turn = Some r /\ (1 <= r_den r <= 1280)%Z /\ (0 <= r_num r <= 1280)%Z) /\
  (1 <= r_den (bern_eval p factor turn))%Z /\ (0 <= r_num (bern_eval p factor turn))%Z /\
  (0 <= bern_control p turn <= 64)%Z /\ (0 <= bern_material p turn <= 576)%Z.
Proof.
  intros [Hwf Hc]. pose proof (MoveGen7.wf_inv _ _ (MoveGen7.wf_b_WF _ _ Hwf)) as HI.
  split; [now apply material_bounded_wf|]. split.
  - unfold turo_material_eval.
    destruct (turochamp_material_total p turn) as [a [Ea _]].
    destruct (turochamp_material_total p (opponent turn)) as [b [Eb _]].
    pose proof (turochamp_material_bounded p turn a HI Hc Ea) as Ba.
    pose proof (turochamp_material_bounded p (opponent turn) b HI (opponent_vcol _ Hc) Eb) as Bb.
    rewrite Ea, Eb. eexists. split; [reflexivity|].
    destruct (Z.eqb_spec a b); [cbn; lia|].
    destruct (Z.ltb_spec b a); cbn; lia.
  - destruct (bernstein_ratio_total p factor turn) as [H1 H2].
    destruct (bernstein_terms_bounded p turn HI Hc) as [_ [H3 [_ H4]]]. tauto.
Qed.

(** colour-blindness *)
Theorem C20_colourblind p turn : legal_position p turn ->
  legal_position (mirror_pos p) (opponent turn) /\
  material_pos (mirror_pos p) (opponent turn) = material_pos p turn /\
  turo_material_eval (mirror_pos p) (opponent turn) = turo_material_eval p turn /\
  (forall side, (side = 0 \/ side = 1)%N ->
     bern_control (mirror_pos p) (opponent side) = bern_control p side /\
     bern_king_defense (mirror_pos p) (opponent side) = bern_king_defense p side /\
     bern_material (mirror_pos p) (opponent side) = bern_material p side) /\
  (mirror_mobility_statement -> forall factor, bern_eval (mirror_pos p) factor (opponent turn) = bern_eval p factor turn).
Proof.
  intros [Hwf Hc]. pose proof (MoveGen7.wf_b_WF _ _ Hwf) as W. pose proof (MoveGen7.wf_inv _ _ W) as HI.
  split; [split; [now apply mirror_wf|apply opponent_vcol; exact Hc]|].
  split; [now apply material_colourblind|].
  split; [exact (proj2 (proj2 (turochamp_material_colourblind p turn HI Hc)))|].
  split.
  - intros side Hs. apply bernstein_terms_colourblind; try assumption. exact (wf_kings p turn side W Hs).
  - intros MM factor. now apply bernstein_colourblind_from_mobility.
Qed.

(** filters *)
Theorem C20_filters p turn : legal_position p turn ->
  (* no under-promotion (SARGON main search) *)
  (incl (sargon_explored p turn) (legal_moves p turn) /\ NoDup (sargon_explored p turn) /\
   (legal_moves p turn <> [] -> sargon_explored p turn <> [])) /\
  (* plausible moves (BERNSTEIN main search), for any static-exchange predicates and any limit *)
  (forall safe safe_origin limit,
     let ex := explored (snd (plausible_explore safe safe_origin p turn limit)) p turn in
     (forall m, In m ex -> In m (legal_moves p turn) /\ is_underpromotion m = false) /\ NoDup ex /\
     ((0 < limit)%Z -> (length ex <= Z.to_nat limit)%nat) /\
     (legal_moves p turn <> [] -> ex <> [])) /\
  (* considerable moves (TUROCHAMP quiescence): total on legal moves, selects legal moves each once *)
  (forall sl, (forall m, In m (legal_moves p turn) -> exists b, considerable_after p turn sl m = Some b) /\
              incl (considerable_moves p turn sl) (legal_moves p turn) /\ NoDup (considerable_moves p turn sl)).
Proof.
  intros [Hwf Hc]. split; [now apply sargon_explored_ok|]. split.
  - intros safe safe_origin limit. now apply plausible_explore_ok.
  - intros sl. split; [intros m Hm; now apply considerable_after_total|apply considerable_moves_ok].
Qed.

(** books *)
Theorem C20_books :
  (forall lines b, new_book lines = Ok b -> book_ok b) /\
  (forall k ms m, bernstein_book = Ok [(k, ms)] -> In m ms -> k = strip fen_initial /\ In m (legal_moves initial_pos White)) /\
  (forall e m, In e sargon_book -> In m (se_replies e) ->
     wf_b (se_pos e) (se_turn e) = true /\
     exists cand, In cand (legal_moves (se_pos e) (se_turn e)) /\
                  mfrom cand = mfrom m /\ mto cand = mto m /\ mpromo cand = mpromo m).
Proof.
  split; [exact book_moves_legal|]. split; [exact bernstein_book_legal|exact sargon_book_moves_legal].
Qed.

Print Assumptions C20_evaluations_finite.
Print Assumptions C20_colourblind.
Print Assumptions C20_filters.
Print Assumptions C20_books.
