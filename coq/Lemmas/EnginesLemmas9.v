(** EnginesLemmas9 — C20, part 6e: [is_attacked_by] for any list of pieces and BERNSTEIN's king-defense count
    commute with the mirror; BERNSTEIN's colour-blindness conditional on the mobility count only;
    non-vacuity examples. *)
From Coq Require Import NArith ZArith List Bool Lia ZifyBool ZifyNat ZifyN Permutation.
From Morlock.Model Require Import Bits Attacks Move Position Abs Search Fen Engines.
From Morlock.Spec Require Import Chess.
From Morlock.Lemmas Require Import PositionLemmas AttackGeometry1 AttackGeometry3 AttackGeometry_Extra GameLemmas1 MoveGen2 MoveGen7
     MoveGen12 EnginesLemmas1 EnginesLemmas2 EnginesLemmas3 EnginesLemmas4 EnginesLemmas5 EnginesLemmas6 EnginesLemmas7 EnginesLemmas8.
Import ListNotations.
Open Scope N_scope.

(* ------------------------------------------------------------------ *)
(** * one test of IsAttackedBy *)

Lemma is_attacked_by_tests pos c sq l : is_attacked_by pos c sq l = existsb (att_test pos c sq) l.
Proof. reflexivity. Qed.

Definition att_prop (p : position) (c sq : N) (k : kind) : Prop :=
  exists s, s < 64 /\ N.testbit (pget p (opponent c) (code_of_kind k)) s = true /\
    mem_nat (N.to_nat sq) (attacks_from (occupied (brd (abs_pos p))) (color_of (opponent c)) k (N.to_nat s)) = true.

Lemma code_of_kind_le k : code_of_kind k <= 6.
Proof. destruct k; vm_compute; discriminate. Qed.

Lemma att_prop_mirror p c sq k : Inv p -> (c = 0 \/ c = 1) -> sq < 64 ->
  (att_prop (mirror_pos p) (opponent c) (mirror_sq sq) k <-> att_prop p c sq k).
Proof.
  intros HI Hc Hsq. pose proof (Inv_len _ HI) as Hl. unfold att_prop.
  rewrite (opponent_invol c Hc), (brd_abs_mirror p HI).
  rewrite (pget_mirror p c _ Hl Hc (code_of_kind_le k)).
  assert (Ecol : color_of c = other (color_of (opponent c))).
  { rewrite <- (color_of_opponent (opponent c) (vcol_opponent c)). now rewrite (opponent_invol c Hc). }
  rewrite Ecol, <- mirror_nat_N.
  set (B := brd (abs_pos p)).
  pose proof (attacks_from_mirror (occupied B) (occupied (mirror_board B)) (occupied_mirror_board B)
                (color_of (opponent c)) k) as AM.
  split.
  - intros [s [Hs [Hb Hm]]]. exists (mirror_sq s). split; [now apply mirror_sq_lt|].
    rewrite (tb_flip_bb64 _ _ Hs) in Hb. split; [exact Hb|].
    rewrite <- (AM (N.to_nat (mirror_sq s)) (N.to_nat sq)) by (pose proof (mirror_sq_lt s Hs); lia).
    rewrite (mirror_nat_N (mirror_sq s)), mirror_sq_invol. exact Hm.
  - intros [s [Hs [Hb Hm]]]. exists (mirror_sq s). split; [now apply mirror_sq_lt|].
    rewrite (tb_flip_bb64 _ _ (mirror_sq_lt s Hs)), mirror_sq_invol. split; [exact Hb|].
    rewrite <- (mirror_nat_N s). rewrite (AM (N.to_nat s) (N.to_nat sq)) by lia. exact Hm.
Qed.

Theorem att_test_mirror p c sq k : Inv p -> (c = 0 \/ c = 1) -> sq < 64 ->
  att_test (mirror_pos p) (opponent c) (mirror_sq sq) (code_of_kind k) = att_test p c sq (code_of_kind k).
Proof.
  intros HI Hc Hsq. apply bool_eq_iff.
  rewrite (att_test_spec (mirror_pos p) (opponent c) (mirror_sq sq) k (mirror_inv p HI) (vcol_opponent c) (mirror_sq_lt sq Hsq)).
  rewrite (att_test_spec p c sq k HI Hc Hsq).
  apply (att_prop_mirror p c sq k HI Hc Hsq).
Qed.

(** IsAttackedBy / IsDefendedBy for any list of (valid) pieces *)
Theorem is_attacked_by_mirror p c sq l : Inv p -> (c = 0 \/ c = 1) -> sq < 64 ->
  (forall x, In x l -> exists k, x = code_of_kind k) ->
  is_attacked_by (mirror_pos p) (opponent c) (mirror_sq sq) l = is_attacked_by p c sq l.
Proof.
  intros HI Hc Hsq Hl. rewrite !is_attacked_by_tests. apply existsb_ext_in.
  intros x Hx. destruct (Hl x Hx) as [k ->]. now apply att_test_mirror.
Qed.

(* ------------------------------------------------------------------ *)
(** * king defense *)

Lemma king_board_mirror_b :
  forallb (fun s => (king_attackboard (mirror_sq s) =? flip_bb (king_attackboard s)) && (king_attackboard s <? 2 ^ 64)) (seqN 64) = true.
Proof. vm_compute. reflexivity. Qed.

Lemma king_board_mirror s : s < 64 ->
  king_attackboard (mirror_sq s) = flip_bb (king_attackboard s) /\ king_attackboard s < 2 ^ 64.
Proof.
  intros Hs. pose proof king_board_mirror_b as H. rewrite forallb_forall in H.
  specialize (H s (proj2 (in_seqN64 s) Hs)). apply andb_true_iff in H as [H1 H2].
  split; [now apply N.eqb_eq|now apply N.ltb_lt].
Qed.

Lemma bits_asc_flip_perm x : x < 2 ^ 64 -> Permutation (bits_asc (flip_bb x)) (map mirror_sq (bits_asc x)).
Proof.
  intros Hx. apply NoDup_Permutation.
  - apply bits_asc_nodup.
  - apply FinFun.Injective_map_NoDup; [intros a b; apply mirror_sq_inj|apply bits_asc_nodup].
  - intros s. rewrite bits_asc_spec, tb_flip_bb, in_map_iff. split.
    + intros H. apply andb_true_iff in H as [_ H]. exists (mirror_sq s). split; [apply mirror_sq_invol|]. now apply bits_asc_spec.
    + intros [y [<- Hy]]. apply bits_asc_spec in Hy. pose proof (word_tb_lt _ _ Hx Hy) as Hy64.
      pose proof (mirror_sq_lt y Hy64). destruct (N.ltb_spec (mirror_sq y) 64); [|lia]. now rewrite mirror_sq_invol.
Qed.

Lemma filter_bits_flip (F F' : N -> bool) x : x < 2 ^ 64 -> (forall s, s < 64 -> F' (mirror_sq s) = F s) ->
  length (filter F' (bits_asc (flip_bb x))) = length (filter F (bits_asc x)).
Proof.
  intros Hx HF. rewrite (Permutation_length (Permutation_filter F' _ _ (bits_asc_flip_perm x Hx))).
  rewrite filter_map_length. f_equal. apply filter_ext_in. intros s Hs. apply HF.
  apply bits_asc_spec in Hs. exact (word_tb_lt _ _ Hx Hs).
Qed.

Lemma QRNBP_valid x : In x QueenRookKnightBishopPawn -> exists k, x = code_of_kind k.
Proof.
  unfold QueenRookKnightBishopPawn. cbn [In].
  intros [<-|[<-|[<-|[<-|[<-|[]]]]]]; [exists Q|exists R|exists Kn|exists Bi|exists P]; reflexivity.
Qed.

Theorem bern_king_defense_mirror p side : Inv p -> (side = 0 \/ side = 1) -> popcount (pget p side King) = 1 ->
  bern_king_defense (mirror_pos p) (opponent side) = bern_king_defense p side.
Proof.
  intros HI Hc H1. pose proof (Inv_len _ HI) as Hl. unfold bern_king_defense. apply (f_equal Z.of_nat).
  rewrite (pget_mirror p (opponent side) King Hl (vcol_opponent side)) by (unfold King; lia).
  rewrite (opponent_invol side Hc), (ctz_flip_one _ (pget_word p side King HI) H1).
  assert (Hk : ctz (pget p side King) < 64).
  { apply ctz_lt64; [|now apply pget_word]. intros E. rewrite E in H1. discriminate. }
  destruct (king_board_mirror _ Hk) as [-> Hw].
  apply (filter_bits_flip _ _ _ Hw). intros s Hs.
  rewrite (is_empty_mirror p _ HI (mirror_sq_lt s Hs)), mirror_sq_invol.
  pose proof (is_attacked_by_mirror p (opponent side) s _ HI (vcol_opponent side) Hs QRNBP_valid) as E.
  rewrite (opponent_invol side Hc) in E. rewrite E.
  rewrite (is_attacked_mirror p side s HI Hc Hs).
  unfold bern_controlled. now rewrite (is_defended_mirror p side s HI Hc Hs), (is_attacked_mirror p side s HI Hc Hs).
Qed.

(* ------------------------------------------------------------------ *)
(** * what remains: the mobility count *)

(** the only part of [mirror_commutes_statement] that is not proved *)
Definition mirror_mobility_statement : Prop :=
  forall p c, Inv p -> (c = 0 \/ c = 1) -> popcount (pget p c King) = 1 ->
    length (legal_moves (mirror_pos p) (opponent c)) = length (legal_moves p c).

Theorem mirror_commutes_from_mobility : mirror_mobility_statement -> mirror_commutes_statement.
Proof.
  intros MM p c HI Hc H1. split; [now apply MM|]. split; [now apply bern_king_defense_mirror|].
  split; [intros sq Hs; now apply is_attacked_mirror|now apply bern_control_mirror].
Qed.

(** BERNSTEIN: every term except mobility is colour-blind; the whole evaluation is, given the mobility count *)
Theorem bernstein_terms_colourblind p side : Inv p -> (side = 0 \/ side = 1) -> popcount (pget p side King) = 1 ->
  bern_control (mirror_pos p) (opponent side) = bern_control p side /\
  bern_king_defense (mirror_pos p) (opponent side) = bern_king_defense p side /\
  bern_material (mirror_pos p) (opponent side) = bern_material p side.
Proof.
  intros HI Hc H1. split; [now apply bern_control_mirror|]. split; [now apply bern_king_defense_mirror|].
  now apply bernstein_material_colourblind.
Qed.

Corollary bernstein_colourblind_from_mobility : mirror_mobility_statement ->
  forall p factor turn, wf_b p turn = true -> (turn = 0 \/ turn = 1) ->
    bern_eval (mirror_pos p) factor (opponent turn) = bern_eval p factor turn.
Proof.
  intros MM p factor turn Hwf Hc.
  exact (proj2 (proj2 (bernstein_colourblind (mirror_commutes_from_mobility MM) p factor turn Hwf Hc))).
Qed.

(* ------------------------------------------------------------------ *)
(** * non-vacuity *)

(** 8/P6k/8/8/8/8/8/K7 w - - 0 1 : White promotes on a8 *)
Definition promo_pos : position :=
  match new_position [mkPlacement 55 White Pawn; mkPlacement 48 Black King; mkPlacement 7 White King] 0 0 with
  | Some p => p | None => empty_position 0 0 end.

Example promo_pos_wf : wf_b promo_pos White = true.
Proof. vm_compute. reflexivity. Qed.

Example promo_pos_filter :
  (length (legal_moves promo_pos White), length (filter is_not_underpromotion (legal_moves promo_pos White)),
   map (fun m => (mfrom m, mto m, mpromo m)) (find_plausible_moves (fun _ => true) (fun _ => true) promo_pos White))
  = (7%nat, 4%nat, [(55, 63, Queen); (7, 15, NoPiece); (7, 14, NoPiece); (7, 6, NoPiece)]).
Proof. vm_compute. reflexivity. Qed.

Example promo_pos_evals :
  (material_pos promo_pos White, turo_material_eval promo_pos White, turo_material_eval promo_pos Black,
   bern_evaluate promo_pos 8 White, bern_evaluate promo_pos 8 Black)
  = (1%Z, Some (mkRatio false 2 1), Some (mkRatio true 2 1), 19%Z, 10%Z).
Proof. vm_compute. reflexivity. Qed.

(** the mirror of the promotion position: Black promotes on a1; all evaluations agree, including mobility *)
Example promo_pos_mirror :
  (wf_b (mirror_pos promo_pos) Black,
   material_pos (mirror_pos promo_pos) Black, turo_material_eval (mirror_pos promo_pos) Black,
   bern_evaluate (mirror_pos promo_pos) 8 Black, bern_evaluate (mirror_pos promo_pos) 8 White,
   length (legal_moves (mirror_pos promo_pos) Black))
  = (true, 1%Z, Some (mkRatio false 2 1), 19%Z, 10%Z, 7%nat).
Proof. vm_compute. reflexivity. Qed.

Example initial_evals :
  (material_pos initial_pos White, turo_material_eval initial_pos White, bern_evaluate initial_pos 8 White,
   bern_eval initial_pos 8 White, length (find_plausible_moves (fun _ => true) (fun _ => true) initial_pos White),
   length (truncate (find_plausible_moves (fun _ => true) (fun _ => true) initial_pos White) 7),
   pos_eqb (mirror_pos initial_pos) initial_pos)
  = (0%Z, Some ratio_zero, 359%Z, ratio_zero, 20%nat, 7%nat, true).
Proof. vm_compute. reflexivity. Qed.

(** the considerable-move predicate on a capture of the promotion kind: Kiwipete-like capture e4xd5 is answered *)
Example considerable_example :
  considerable initial_pos White None (mkMove Capture 27 36 Pawn NoPiece Pawn) <> None /\
  considerable initial_pos White None (mkMove Capture 27 36 Pawn NoPiece NoPiece) = None.
Proof. split; vm_compute; [discriminate|reflexivity]. Qed.

(** evidence (not a proof) for [mirror_mobility_statement]: the legal-move counts of both colours agree on the
    sample positions of Lemmas/MoveGen12.v (castling, e.p., pins, promotions, checks) and the positions above *)
Example mobility_mirror_samples :
  forallb (fun p => (length (legal_moves (mirror_pos p) Black) =? length (legal_moves p White))%nat &&
                    (length (legal_moves (mirror_pos p) White) =? length (legal_moves p Black))%nat &&
                    (bern_evaluate (mirror_pos p) 8 Black =? bern_evaluate p 8 White)%Z &&
                    (bern_evaluate (mirror_pos p) 8 White =? bern_evaluate p 8 Black)%Z)
    [initial_pos; promo_pos; MoveGen12.kiwi_w; MoveGen12.ep_w; MoveGen12.ep_b; MoveGen12.pos3; MoveGen12.pos4;
     MoveGen12.pos4b; MoveGen12.pos5; MoveGen12.castle_att; MoveGen12.castle_att4; MoveGen12.ep_pin; MoveGen12.promo_cap] = true.
Proof. vm_compute. reflexivity. Qed.

Print Assumptions is_attacked_by_mirror.
Print Assumptions bern_king_defense_mirror.
Print Assumptions mirror_commutes_from_mobility.
Print Assumptions bernstein_colourblind_from_mobility.
