(** C04, legality of the answer, part 2: `go depth d` on the sequential UCI model (Model/UciSeq.v).

    For an engine whose game refines the specification game [g] ([ERel] of EngineLemmas1), in a legal
    state ([EInv]: legal position, not adjudicated mate/stalemate; [CastledOK]: a side flagged "has
    castled" holds no castling right - an invariant of every board the engine can build, see part 3),
    with no table or with a table that holds only true exact values under the property's own condition
    [b_HashValue]:

      [go_depth_answer]: the output is a non-empty list of info lines, depths 1, 2, ... in order, at
      most [d] of them, followed by exactly one bestmove; the first move of EVERY reported PV, and so
      the bestmove, is legal in the position of [g]; a PV is empty - the bestmove is the null move -
      only if that position has no legal move; the engine's own game is untouched (same abstract
      board), the table invariant is kept.

    Nothing is assumed about draws: the theorem holds as it stands at a root where a draw can be
    claimed (threefold repetition on the board, clock >= 100, insufficient material) - the search clears
    the flag at the root and expands it. *)
From Coq Require Import NArith ZArith List Bool Lia.
From Morlock.Model Require Import Bits Score Attacks Move Position Zobrist Board Search TT SearchBoard Abs Fen Engine EngineSpec UciSeq.
From Morlock.Spec Require Import Chess Game.
From Morlock.Lemmas Require Import PositionLemmas BoardHeap1 BoardHeap2 MoveGen10 SearchContract SearchBoardInst1 SearchBoardInst4 SearchBoardInst
     IterateLemmas EngineLemmas1 UciLegal1.
Import ListNotations.
Open Scope Z_scope.

(** * the engine state *)
Definition eabs (e : engine) : aboard := abs (e_heap e) (e_board e).

(** a side that is flagged "has castled" holds no castling right *)
Definition CastledOK (e : engine) : Prop :=
  forall c, (c = White \/ c = Black) -> acastled (eabs e) c = true ->
            N.land (castling (a_position (eabs e))) (rights_of c) = 0%N.

Lemma engine_GInv e : wf (e_heap e) (e_board e) -> EInv e -> CastledOK e -> GInv (eabs e).
Proof.
  intros Hwf [Hw _] Hc. split; [|split].
  - destruct Hwf as (_ & _ & _ & Ht). exact Ht.
  - unfold eabs. rewrite <- (get_position _ _ Hwf). exact Hw.
  - exact Hc.
Qed.

(** what the answer must satisfy in the specification game [g] *)
Definition answer_ok (g : gstate) (best : option move) : Prop :=
  match best with
  | Some m => In (abs_move m) (spec_legal (g_pos g) (g_turn g))
  | None => spec_legal (g_pos g) (g_turn g) = []
  end.

(** the bestmove the driver prints for a list of completed iterations *)
Definition best_of (infos : list pvinfo) : option move :=
  match rev infos with
  | (_, _, _, m :: _) :: _ => Some m
  | _ => None
  end.

Lemma best_of_last infos i : best_of (infos ++ [i]) = hd_error (snd i).
Proof.
  unfold best_of. rewrite rev_app_distr. cbn [rev app]. destruct i as [[[dd nn] sc] pv]. cbn [snd].
  destruct pv; reflexivity.
Qed.

Section Legal.
  Variable z : ztable.

  (** a good PV at a node that stands for the position of [g] starts with a legal move of [g] *)
  Lemma pv_good_answer p g pv :
    wf_b (a_position p) (a_turn p) = true -> (a_turn p = 0 \/ a_turn p = 1)%N ->
    abs_pos (a_position p) = g_pos g -> color_of (a_turn p) = g_turn g ->
    pv_good z p pv -> answer_ok g (hd_error pv).
  Proof.
    intros Hw Ht Ep Ec Hg.
    destruct (legal_moves_fide (a_position p) (a_turn p) Hw Ht) as [Hiff _]. rewrite Ep, Ec in Hiff.
    unfold pv_good in Hg. destruct pv as [|m rem]; cbn [hd_error answer_ok].
    - destruct (spec_legal (g_pos g) (g_turn g)) as [|sm l] eqn:El; [reflexivity|exfalso].
      pose proof (proj2 (Hiff sm) (or_introl eq_refl)) as Hin.
      apply in_map_iff in Hin as (m & _ & Hm). unfold legal_moves in Hm. apply filter_In in Hm as [Hin Hacc].
      destruct (bchild z (norm p) m) as [c|] eqn:Ec'; [exact (Hg m c Ec')|].
      unfold bchild in Ec'. change (bmoves (norm p)) with (pseudo_legal_moves (a_position p) (a_turn p)) in Ec'.
      rewrite (proj2 (move_mem_in _ _) Hin) in Ec'. apply bchild_raw_none in Ec'.
      change (a_position (norm p)) with (a_position p) in Ec'. rewrite Ec' in Hacc. discriminate Hacc.
    - destruct Hg as [Hin (c & Hc)]. apply Hiff. apply in_map. unfold legal_moves. apply filter_In.
      split; [exact Hin|].
      destruct (pos_move (a_position p) m) as [n|] eqn:En; [reflexivity|exfalso].
      unfold bchild in Hc. rewrite (proj2 (move_mem_in _ _) Hin) in Hc.
      rewrite (bchild_raw_none_intro z (norm p) m En) in Hc. discriminate Hc.
  Qed.
End Legal.

Section Go.
  Variable z : ztable.
  Variable use_q : bool.
  Variable qfuel : nat.

  (** no table, or a table that holds only true exact values, hashes identifying values *)
  Definition TabOK (t : ttv) : Prop :=
    t = NoTT \/ (b_HashValue z use_q qfuel /\ b_TTInv z use_q qfuel t).

  (** the quiescence fuel suffices for the depths searched (vacuous without quiescence) *)
  Definition LeavesUpTo (d : nat) (p : aboard) : Prop :=
    forall k, (1 <= k <= d)%nat -> b_leaves_ok z use_q qfuel k true (norm p).

  Lemma LeavesUpTo_noq d p : use_q = false -> LeavesUpTo d p.
  Proof. intros Hq k _. apply leaves_ok_noq. exact Hq. Qed.

  Definition depth_of (i : pvinfo) : nat := fst (fst (fst i)).
  Definition pv_of (i : pvinfo) : list move := snd i.

  Theorem go_depth_answer u d g outs u' :
    let e := d_eng (u_d u) in
    ERel e g -> EInv e -> CastledOK e -> TabOK (u_tt u) ->
    (1 <= d)%nat -> qh use_q qfuel + Z.of_nat d <= 127 -> LeavesUpTo d (eabs e) ->
    go_depth z use_q qfuel u d = (outs, u') ->
    exists infos,
      outs = map OInfo infos ++ [OBest (best_of infos)] /\ infos <> [] /\
      map depth_of infos = seq 1 (length infos) /\ (length infos <= d)%nat /\
      Forall (fun i => answer_ok g (hd_error (pv_of i)) /\ (length (pv_of i) <= depth_of i)%nat) infos /\
      answer_ok g (best_of infos) /\
      (* the engine's own game is untouched *)
      eabs (d_eng (u_d u')) = eabs e /\ e_board (d_eng (u_d u')) = e_board e /\
      ERel (d_eng (u_d u')) g /\ EInv (d_eng (u_d u')) /\ CastledOK (d_eng (u_d u')) /\
      d_last (u_d u') = d_last (u_d u) /\ u_hash u' = u_hash u /\ u_depth u' = u_depth u /\
      TabOK (u_tt u') /\ (u_tt u = NoTT -> u_tt u' = NoTT).
  Proof.
    intros e [Hwf HG] HI HC HT Hd1 Hq HL Hgo. unfold go_depth in Hgo. fold e in Hgo.
    destruct (fork (e_heap e) (e_board e)) as [h1 f] eqn:Ef.
    destruct (wf_fork _ _ _ _ Hwf Ef) as [Hwf1 Hwb1].
    destruct (fork_sim _ _ _ _ Hwf Ef) as [Ea1 Ea2].
    destruct (iterate_reports z use_q qfuel d (h1, f) (u_tt u) Hd1) as (infos & g' & t' & Eit & Hst & Hdepths & Hlen).
    rewrite Eit in Hgo. injection Hgo as <- <-.
    cbn [u_d d_eng d_last u_tt u_hash u_depth e_heap e_board].
    (* the fork stands at the node of the engine's board *)
    pose proof (engine_GInv e Hwf HI HC) as HGI. set (p := eabs e) in *.
    assert (HB : BAt p (h1, f)).
    { split; [exact Hwf1|]. split; [|exact HGI]. cbn [fst snd]. rewrite Ea1. apply aeq_nr_refl. }
    assert (HR : RootFlag p (h1, f)).
    { intros _ Hb. exfalso. cbn [snd] in Hb. change (b_result f) with (a_result (abs h1 f)) in Hb.
      rewrite Ea1 in Hb. cbn [abs a_result] in Hb. destruct HI as [_ Hnb]. rewrite Hnb in Hb. discriminate Hb. }
    assert (Hstream : Forall (fun i : pvinfo => pv_good z p (snd i) /\ (length (snd i) <= fst (fst (fst i)))%nat) infos /\
                      TabOK t' /\ (u_tt u = NoTT -> t' = NoTT)).
    { destruct HT as [Hn|[Hh HTT]].
      - rewrite Hn in Hst.
        destruct (stream_good_nott z use_q qfuel 1 (h1, f) infos g' t' true p d Hst (le_n _) Hd1 Hq HB HR HL) as (F & _ & _ & Et).
        split; [exact F|]. split; [left; exact Et|intros _; exact Et].
      - destruct (stream_good_table z use_q qfuel 1 (h1, f) (u_tt u) infos g' t' true p d Hh Hst (le_n _) Hd1 Hq HB HR HTT HL)
          as (F & _ & _ & HT').
        split; [exact F|]. split; [right; split; assumption|].
        intros Hn. rewrite Hn in Hst.
        destruct (stream_good_nott z use_q qfuel 1 (h1, f) infos g' t' true p d Hst (le_n _) Hd1 Hq HB HR HL) as (_ & _ & _ & Et).
        exact Et. }
    destruct Hstream as (F & HT' & HN').
    (* the node is the position of [g] *)
    destruct (grel_now _ _ _ Hwf HG) as (Ep & Ec & _).
    rewrite (get_position _ _ Hwf) in Ep. change (b_turn (e_board e)) with (a_turn (abs (e_heap e) (e_board e))) in Ec.
    fold (eabs e) in Ep, Ec. fold p in Ep, Ec.
    destruct HGI as (Gt & Gw & _).
    assert (Fa : Forall (fun i => answer_ok g (hd_error (pv_of i)) /\ (length (pv_of i) <= depth_of i)%nat) infos).
    { eapply Forall_impl; [|exact F]. intros i [Hg Hl]. split; [|exact Hl].
      exact (pv_good_answer z p g (snd i) Gw Gt Ep Ec Hg). }
    assert (Hne : infos <> []).
    { intro En. subst infos. inversion Hst. }
    exists infos. split; [reflexivity|]. split; [exact Hne|]. split; [exact Hdepths|]. split; [exact Hlen|].
    split; [exact Fa|]. split.
    { destruct (exists_last Hne) as (front & lst & El). rewrite El. rewrite best_of_last.
      rewrite El in Fa. apply Forall_app in Fa as [_ Fl]. inversion Fl as [|? ? [Hx _] _]. exact Hx. }
    unfold eabs at 1. cbn [e_heap e_board]. split; [exact Ea2|]. split; [reflexivity|].
    assert (HE' : ERel (mkEngine h1 (e_board e)) g).
    { split; [exact Hwb1|]. unfold EngineLemmas1.GRel in *. cbn [fst snd e_heap e_board] in *. rewrite Ea2. exact HG. }
    split; [exact HE'|]. split.
    { destruct HI as [Hw Hnb]. split; [|exact Hnb]. cbn [e_heap e_board].
      rewrite (get_position _ _ Hwb1), Ea2, <- (get_position _ _ Hwf). exact Hw. }
    split.
    { unfold CastledOK, eabs. cbn [e_heap e_board]. rewrite Ea2. exact HC. }
    repeat (split; [reflexivity|]). split; [exact HT'|exact HN'].
  Qed.
End Go.

Print Assumptions go_depth_answer.
