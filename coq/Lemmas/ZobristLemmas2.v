(** ZobristLemmas2 — the shape of the moves emitted by [pseudo_legal_moves] in a well-formed position:
    what stands on the squares a move touches. *)
From Coq Require Import NArith List Bool Lia ZifyBool ZifyNat ZifyN.
From Morlock.Model Require Import Bits Attacks Move Position Abs Zobrist.
From Morlock.Lemmas Require Import AttackGeometry_Extra PositionLemmas ZobristLemmas1.
Import ListNotations.
Open Scope N_scope.

(** * bit facts *)

Lemma tb_not64 x i : N.testbit (not64 x) i = (i <? 64) && negb (N.testbit x i).
Proof. unfold not64. rewrite N.lxor_spec, tb_mask64. destruct (N.ltb_spec i 64).
  - rewrite N.ones_spec_low by lia. cbn [andb]. now rewrite xorb_true_r.
  - rewrite N.ones_spec_high by lia. reflexivity. Qed.

Lemma pawn_moveboard_bit all c x i : N.testbit (pawn_moveboard all c x) i = true -> N.testbit (not64 all) i = true.
Proof. unfold pawn_moveboard. destruct (c =? White); rewrite N.land_spec; intros H; apply andb_true_iff in H; tauto. Qed.

Lemma single_bit b x : popcount b = 1 -> N.testbit b x = true -> ctz b = x.
Proof. intros Hp Hb. rewrite ctz_hd. rewrite popcount_length in Hp. apply bits_asc_spec in Hb.
  destruct (bits_asc b) as [|y [|y' l]]; cbn [length] in Hp; try lia.
  destruct Hb as [->|[]]. reflexivity. Qed.

(** * the invariant and colours *)

Lemma pget_out pos c p : Inv pos -> ~ (c = 0 \/ c = 1) -> pget pos c p = 0.
Proof. intros HI Hc. unfold pget, nthN. apply nth_overflow. rewrite (Inv_len _ HI). unfold pidx. lia. Qed.

Lemma opponent_vcol c : (c = 0 \/ c = 1) -> (opponent c = 0 \/ opponent c = 1) /\ opponent c <> c.
Proof. intros [->| ->]; vm_compute; split; auto; discriminate. Qed.

Lemma origin_square p turn pc from : Inv p -> 1 <= pc <= 6 -> N.testbit (pget p turn pc) from = true ->
  (turn = 0 \/ turn = 1) /\ from < 64 /\ square p from = Some (turn, pc).
Proof. intros HI Hpc Hb.
  assert (Hc : turn = 0 \/ turn = 1).
  { destruct (N.eq_dec turn 0); [now left|]. destruct (N.eq_dec turn 1); [now right|].
    rewrite pget_out in Hb by (auto; lia). rewrite N.bits_0 in Hb. discriminate. }
  assert (Hf : from < 64) by (eapply word_tb_lt; [apply (pget_word p turn pc HI) | exact Hb]).
  split; [assumption|]. split; [assumption|]. apply square_some; auto. Qed.

Lemma dest_free p to : Inv p -> N.testbit (not64 (all_bb p)) to = true -> to < 64 /\ square p to = None.
Proof. intros HI Hb. rewrite tb_not64 in Hb. apply andb_true_iff in Hb as [H1 H2]. apply N.ltb_lt in H1.
  split; [assumption|]. apply square_none; auto. now apply negb_true_iff in H2. Qed.

Lemma dest_free2 p turn to : Inv p -> (turn = 0 \/ turn = 1) ->
  N.testbit (not64 (pget p turn NoPiece)) to = true -> N.testbit (not64 (pget p (opponent turn) NoPiece)) to = true ->
  to < 64 /\ square p to = None.
Proof. intros HI Hc H1 H2. apply dest_free; [assumption|]. rewrite tb_not64 in *.
  apply andb_true_iff in H1 as [Hlt H1]. apply andb_true_iff in H2 as [_ H2]. rewrite Hlt. cbn [andb].
  apply negb_true_iff in H1, H2. rewrite (Inv_all _ _ HI).
  destruct Hc as [->| ->]; change (opponent 0) with 1 in *; change (opponent 1) with 0 in *;
  unfold White, Black; rewrite H1, H2; reflexivity. Qed.

Lemma dest_capture p turn to : Inv p -> (turn = 0 \/ turn = 1) ->
  N.testbit (pget p (opponent turn) NoPiece) to = true ->
  to < 64 /\ square p to = Some (opponent turn, capture_at p to turn).
Proof. intros HI Hc Hb. destruct (opponent_vcol turn Hc) as [Ho _].
  assert (Hlt : to < 64) by (eapply word_tb_lt; [apply (pget_word p (opponent turn) NoPiece HI) | exact Hb]).
  split; [assumption|].
  apply Inv_union_some in Hb as [q [Hq Hbq]]; auto.
  unfold capture_at. rewrite (first_piece_of_bit p (opponent turn) to q HI Hlt Ho Hq Hbq).
  apply square_some; auto. Qed.

Lemma mask_free p mask s : Inv p -> s < 64 -> N.land mask (all_bb p) = 0 -> N.testbit mask s = true -> square p s = None.
Proof. intros HI Hs Hz Hm. apply square_none; auto. destruct (N.testbit (all_bb p) s) eqn:E; [|reflexivity].
  exfalso. eapply (proj1 (land_zero_bits _ _) Hz); eassumption. Qed.

(** * membership in the emission helpers *)

Lemma in_emit_move pos turn t piece from ab m :
  In m (emit_move pos turn t piece from ab) <->
  exists to, N.testbit ab to = true /\
             m = mkMove t from to piece NoPiece (if t =? Capture then capture_at pos to turn else NoPiece).
Proof. unfold emit_move. rewrite in_map_iff. split; intros [to [H1 H2]]; exists to.
  - apply bits_asc_spec in H2. split; [assumption | now symmetry].
  - apply bits_asc_spec in H1. split; [now symmetry | assumption]. Qed.

Lemma in_emit_promo pos turn t piece from ab m :
  In m (emit_promo pos turn t piece from ab) <->
  exists to pc, N.testbit ab to = true /\ In pc QueenRookKnightBishop /\
             m = mkMove t from to piece pc (if t =? CapturePromotion then capture_at pos to turn else NoPiece).
Proof. unfold emit_promo. rewrite in_flat_map. split.
  - intros [to [H1 H2]]. apply in_map_iff in H2 as [pc [H2 H3]]. apply bits_asc_spec in H1.
    exists to, pc. repeat split; auto.
  - intros [to [pc [H1 [H2 H3]]]]. exists to. split; [now apply bits_asc_spec|]. apply in_map_iff. exists pc. split; auto. Qed.

Lemma qrnb_vpc pc : In pc QueenRookKnightBishop -> 1 <= pc <= 6.
Proof. unfold QueenRookKnightBishop, Queen, Rook, Knight, Bishop. cbn [In]. lia. Qed.

(** * the shape of an emitted move *)

Inductive shape (p : position) (turn : N) : move -> Prop :=
| sh_quiet t from to pc :
    (t = Normal \/ t = Push \/ t = Jump) -> from < 64 -> to < 64 ->
    square p from = Some (turn, pc) -> square p to = None ->
    shape p turn (mkMove t from to pc NoPiece NoPiece)
| sh_capture from to pc cap :
    from < 64 -> to < 64 -> square p from = Some (turn, pc) -> square p to = Some (opponent turn, cap) ->
    shape p turn (mkMove Capture from to pc NoPiece cap)
| sh_promo from to pc pr :
    from < 64 -> to < 64 -> square p from = Some (turn, pc) -> square p to = None -> 1 <= pr <= 6 ->
    shape p turn (mkMove Promotion from to pc pr NoPiece)
| sh_cpromo from to pc pr cap :
    from < 64 -> to < 64 -> square p from = Some (turn, pc) -> square p to = Some (opponent turn, cap) -> 1 <= pr <= 6 ->
    shape p turn (mkMove CapturePromotion from to pc pr cap)
| sh_ep from to epc :
    from < 64 -> to < 64 -> epc < 64 -> square p from = Some (turn, Pawn) -> square p to = None ->
    epc = fst (ep_capture (mkMove EnPassant from to Pawn NoPiece NoPiece)) ->
    square p epc = Some (opponent turn, Pawn) ->
    shape p turn (mkMove EnPassant from to Pawn NoPiece NoPiece)
| sh_castle t from to rf rt :
    (t = KingSideCastle \/ t = QueenSideCastle) -> from < 64 -> to < 64 -> rf < 64 -> rt < 64 ->
    castling_rook_move (mkMove t from to King NoPiece NoPiece) = (rf, rt, true) ->
    square p from = Some (turn, King) -> square p to = None ->
    square p rf = Some (turn, Rook) -> square p rt = None -> rt <> to ->
    shape p turn (mkMove t from to King NoPiece NoPiece).

(** officers, king: normal moves and captures through an attack board *)
Lemma shape_normal_capture p turn pc from ab m : Inv p -> (turn = 0 \/ turn = 1) -> from < 64 ->
  square p from = Some (turn, pc) ->
  In m (emit_move p turn Normal pc from
          (N.land (N.land ab (not64 (pget p turn NoPiece))) (not64 (pget p (opponent turn) NoPiece))) ++
        emit_move p turn Capture pc from
          (N.land (N.land ab (not64 (pget p turn NoPiece))) (pget p (opponent turn) NoPiece))) ->
  shape p turn m.
Proof. intros HI Hc Hf Hsq Hin. apply in_app_or in Hin as [Hin|Hin]; apply in_emit_move in Hin as [to [Hb ->]].
  - rewrite !N.land_spec in Hb. apply andb_true_iff in Hb as [Hb H2]. apply andb_true_iff in Hb as [_ H1].
    destruct (dest_free2 p turn to HI Hc H1 H2) as [Ht Hn].
    change (Normal =? Capture) with false. cbn iota. apply sh_quiet; auto.
  - rewrite !N.land_spec in Hb. apply andb_true_iff in Hb as [_ H2].
    destruct (dest_capture p turn to HI Hc H2) as [Ht Hs].
    change (Capture =? Capture) with true. cbn iota. apply sh_capture; auto. Qed.

(** en passant geometry (finite sweeps) *)
Definition epc_of (to : N) : N :=
  if sq_rank to =? 2 then new_square (sq_file to) 3 else new_square (sq_file to) 4.

Lemma ep_capture_ep f t pc pr cap : fst (ep_capture (mkMove EnPassant f t pc pr cap)) = epc_of t.
Proof. unfold ep_capture, epc_of. cbn [mtype mto]. change (negb (EnPassant =? EnPassant)) with false. cbn iota.
  destruct (sq_rank t =? 2); reflexivity. Qed.

Lemma ep_geom_white_b : forallb (fun e => implb (sq_rank e =? 5) ((epc_of e =? e - 8) && (8 <=? e))) (seqN 64) = true.
Proof. vm_compute. reflexivity. Qed.
Lemma ep_geom_black_b : forallb (fun e => implb (sq_rank e =? 2) ((epc_of e =? e + 8) && (e + 8 <? 64))) (seqN 64) = true.
Proof. vm_compute. reflexivity. Qed.

Lemma ep_geom_white e : e < 64 -> sq_rank e = 5 -> epc_of e = e - 8 /\ 8 <= e.
Proof. intros He Hr. pose proof (proj1 (forallb_forall _ _) ep_geom_white_b e (proj2 (in_seqN64 e) He)) as H.
  cbn beta in H. rewrite Hr in H. change (5 =? 5) with true in H. cbn [implb] in H.
  apply andb_true_iff in H as [H1 H2]. apply N.eqb_eq in H1. apply N.leb_le in H2. auto. Qed.
Lemma ep_geom_black e : e < 64 -> sq_rank e = 2 -> epc_of e = e + 8 /\ e + 8 < 64.
Proof. intros He Hr. pose proof (proj1 (forallb_forall _ _) ep_geom_black_b e (proj2 (in_seqN64 e) He)) as H.
  cbn beta in H. rewrite Hr in H. change (2 =? 2) with true in H. cbn [implb] in H.
  apply andb_true_iff in H as [H1 H2]. apply N.eqb_eq in H1. apply N.ltb_lt in H2. auto. Qed.

Lemma ep_shape p turn : Inv p -> (turn = 0 \/ turn = 1) -> ep_ok p turn = true -> enpassant p <> 0 ->
  square p (enpassant p) = None /\ epc_of (enpassant p) < 64 /\
  square p (epc_of (enpassant p)) = Some (opponent turn, Pawn).
Proof. intros HI Hc Hep Hne. pose proof HI as [_ [_ [_ [_ [_ [_ [_ He]]]]]]].
  unfold ep_ok in Hep. destruct (N.eqb_spec (enpassant p) 0) as [|_]; [contradiction|].
  assert (Hpw : 1 <= Pawn <= 6) by (unfold Pawn; lia).
  destruct Hc as [->| ->].
  - change (0 =? White) with true in Hep. cbn iota in Hep.
    apply andb_true_iff in Hep as [Hep _]. apply andb_true_iff in Hep as [Hep H3]. apply andb_true_iff in Hep as [H1 H2].
    apply N.eqb_eq in H1. destruct (ep_geom_white _ He H1) as [E Hge]. rewrite E.
    split; [now apply is_empty_square|]. split; [lia|].
    rewrite is_set_tb64 in H2 by lia. change (opponent 0) with Black.
    apply square_some; auto; try lia. repeat split; auto; try apply Hpw. now right.
  - change (1 =? White) with false in Hep. cbn iota in Hep.
    apply andb_true_iff in Hep as [Hep _]. apply andb_true_iff in Hep as [Hep H3]. apply andb_true_iff in Hep as [H1 H2].
    apply N.eqb_eq in H1. destruct (ep_geom_black _ He H1) as [E Hlt]. rewrite E.
    split; [now apply is_empty_square|]. split; [lia|].
    rewrite is_set_tb64 in H2 by lia. change (opponent 1) with White.
    apply square_some; auto; try lia. repeat split; auto; try apply Hpw. now left. Qed.

(** pawn moves from one origin square *)
Lemma shape_pawn p turn from m : Inv p -> (turn = 0 \/ turn = 1) -> ep_ok p turn = true -> from < 64 ->
  square p from = Some (turn, Pawn) ->
  In m (let mask := not64 (pget p turn NoPiece) in
        let captures := pget p (opponent turn) NoPiece in
        let promos := pawn_promotion_rank turn in
        let origin := bitmask from in
        let captureboard := N.land (pawn_captureboard turn origin) mask in
        let pushboard := pawn_moveboard (all_bb p) turn origin in
        let jumpboard := N.land (pawn_moveboard (all_bb p) turn pushboard) (pawn_jump_rank turn) in
        emit_move p turn Capture Pawn from (andnot (N.land captureboard captures) promos) ++
        emit_move p turn Push Pawn from (andnot pushboard promos) ++
        emit_move p turn Jump Pawn from jumpboard ++
        emit_promo p turn CapturePromotion Pawn from (N.land (N.land captureboard captures) promos) ++
        emit_promo p turn Promotion Pawn from (N.land pushboard promos) ++
        (if negb (enpassant p =? 0)
         then emit_move p turn EnPassant Pawn from (N.land captureboard (bitmask (enpassant p)))
         else [])) ->
  shape p turn m.
Proof. intros HI Hc Hep Hf Hsq Hin. cbn zeta in Hin.
  apply in_app_or in Hin as [Hin|Hin]; [|apply in_app_or in Hin as [Hin|Hin]; [|apply in_app_or in Hin as [Hin|Hin];
    [|apply in_app_or in Hin as [Hin|Hin]; [|apply in_app_or in Hin as [Hin|Hin]]]]].
  - apply in_emit_move in Hin as [to [Hb ->]]. unfold andnot in Hb. rewrite N.ldiff_spec, !N.land_spec in Hb.
    apply andb_true_iff in Hb as [Hb _]. apply andb_true_iff in Hb as [_ H2].
    destruct (dest_capture p turn to HI Hc H2) as [Ht Hs].
    change (Capture =? Capture) with true. cbn iota. apply sh_capture; auto.
  - apply in_emit_move in Hin as [to [Hb ->]]. unfold andnot in Hb. rewrite N.ldiff_spec in Hb.
    apply andb_true_iff in Hb as [Hb _]. apply pawn_moveboard_bit in Hb.
    destruct (dest_free p to HI Hb) as [Ht Hn].
    change (Push =? Capture) with false. cbn iota. apply sh_quiet; auto.
  - apply in_emit_move in Hin as [to [Hb ->]]. rewrite N.land_spec in Hb.
    apply andb_true_iff in Hb as [Hb _]. apply pawn_moveboard_bit in Hb.
    destruct (dest_free p to HI Hb) as [Ht Hn].
    change (Jump =? Capture) with false. cbn iota. apply sh_quiet; auto.
  - apply in_emit_promo in Hin as [to [pr [Hb [Hpr ->]]]]. rewrite !N.land_spec in Hb.
    apply andb_true_iff in Hb as [Hb _]. apply andb_true_iff in Hb as [_ H2].
    destruct (dest_capture p turn to HI Hc H2) as [Ht Hs].
    change (CapturePromotion =? CapturePromotion) with true. cbn iota. apply sh_cpromo; auto using qrnb_vpc.
  - apply in_emit_promo in Hin as [to [pr [Hb [Hpr ->]]]]. rewrite N.land_spec in Hb.
    apply andb_true_iff in Hb as [Hb _]. apply pawn_moveboard_bit in Hb.
    destruct (dest_free p to HI Hb) as [Ht Hn].
    change (Promotion =? CapturePromotion) with false. cbn iota. apply sh_promo; auto using qrnb_vpc.
  - destruct (N.eqb_spec (enpassant p) 0) as [|Hne]; cbn [negb] in Hin; [destruct Hin|].
    apply in_emit_move in Hin as [to [Hb ->]]. rewrite N.land_spec in Hb.
    apply andb_true_iff in Hb as [_ Hb]. rewrite tb_bitmask in Hb. apply andb_true_iff in Hb as [Ht Hb].
    apply N.ltb_lt in Ht. apply N.eqb_eq in Hb. subst to.
    destruct (ep_shape p turn HI Hc Hep Hne) as [H1 [H2 H3]].
    change (EnPassant =? Capture) with false. cbn iota.
    apply (sh_ep p turn from (enpassant p) (epc_of (enpassant p))); auto.
    now rewrite ep_capture_ep. Qed.

(** castling *)
Lemma castle_home p turn right ksq rsq : Inv p -> (turn = 0 \/ turn = 1) -> ksq < 64 ->
  popcount (pget p turn King) = 1 -> home_ok p right ksq rsq turn = true -> is_allowed (castling p) right = true ->
  ctz (pget p turn King) = ksq.
Proof. intros HI Hc Hk Hpop Hh Ha. unfold home_ok in Hh. rewrite Ha in Hh. cbn [negb orb] in Hh.
  apply andb_true_iff in Hh as [Hh _]. rewrite is_set_tb64 in Hh by assumption. now apply single_bit. Qed.

Lemma shape_castle p turn t right ksq rsq to rt mask m : Inv p -> (turn = 0 \/ turn = 1) ->
  ksq < 64 -> rsq < 64 -> to < 64 -> rt < 64 -> rt <> to ->
  popcount (pget p turn King) = 1 -> home_ok p right ksq rsq turn = true ->
  (t = KingSideCastle \/ t = QueenSideCastle) ->
  castling_rook_move (mkMove t ksq to King NoPiece NoPiece) = (rsq, rt, true) ->
  N.testbit mask to = true -> N.testbit mask rt = true ->
  In m (if is_allowed (castling p) right && (N.land mask (all_bb p) =? 0)
           && negb (N.land (pget p turn Rook) (bitmask rsq) =? 0)
        then emit_move p turn t King (ctz (pget p turn King)) (bitmask to) else []) ->
  shape p turn m.
Proof. intros HI Hc Hk Hr Hto Hrt Hne Hpop Hh Ht Hcr Hm1 Hm2 Hin.
  destruct (is_allowed (castling p) right) eqn:Ha; cbn [andb] in Hin; [|destruct Hin].
  destruct (N.eqb_spec (N.land mask (all_bb p)) 0) as [Hz|]; cbn [andb] in Hin; [|destruct Hin].
  destruct (negb (N.land (pget p turn Rook) (bitmask rsq) =? 0)) eqn:Hrk; [|destruct Hin].
  rewrite (castle_home p turn right ksq rsq HI Hc Hk Hpop Hh Ha) in Hin.
  apply in_emit_move in Hin as [to' [Hb ->]]. rewrite tb_bitmask in Hb. apply andb_true_iff in Hb as [_ Hb].
  apply N.eqb_eq in Hb. subst to'.
  assert (Ekb : N.testbit (pget p turn King) ksq = true).
  { unfold home_ok in Hh. rewrite Ha in Hh. cbn [negb orb] in Hh. apply andb_true_iff in Hh as [Hh _].
    now rewrite is_set_tb64 in Hh by assumption. }
  assert (Erk : N.testbit (pget p turn Rook) rsq = true).
  { change (is_set (pget p turn Rook) rsq = true) in Hrk. now rewrite is_set_tb64 in Hrk by assumption. }
  assert (HK : 1 <= King <= 6) by (unfold King; lia). assert (HR : 1 <= Rook <= 6) by (unfold Rook; lia).
  assert (Et : (if t =? Capture then capture_at p to turn else NoPiece) = NoPiece).
  { destruct Ht as [->| ->]; reflexivity. }
  rewrite Et.
  apply (sh_castle p turn t ksq to rsq rt); auto.
  - apply square_some; auto.
  - eapply mask_free; eauto.
  - apply square_some; auto.
  - eapply mask_free; eauto. Qed.

(** * parts of [wf_b] *)
Lemma wf_b_parts pos turn : wf_b pos turn = true ->
  Inv pos /\ popcount (pget pos White King) = 1 /\ popcount (pget pos Black King) = 1 /\
  home_ok pos WhiteKingSideCastle E1 H1 White = true /\ home_ok pos WhiteQueenSideCastle E1 A1 White = true /\
  home_ok pos BlackKingSideCastle E8 H8 Black = true /\ home_ok pos BlackQueenSideCastle E8 A8 Black = true /\
  ep_ok pos turn = true.
Proof. unfold wf_b. rewrite !andb_true_iff, !N.eqb_eq. intros [[[[[[[[[H1 H2] H3] H4] H5] H6] H7] H8] H9] H10].
  apply inv_b_iff in H1. split; [assumption|]. repeat split; assumption. Qed.

(** * every pseudo-legal move of a well-formed position has a shape *)
Theorem pseudo_shape p turn m : wf_b p turn = true -> In m (pseudo_legal_moves p turn) -> shape p turn m.
Proof. intros Hwf Hin. destruct (wf_b_parts p turn Hwf) as [HI [HkW [HkB [HwK [HwQ [HbK [HbQ Hep]]]]]]].
  unfold pseudo_legal_moves in Hin. cbn zeta in Hin.
  apply in_app_or in Hin as [Hin|Hin]; [|apply in_app_or in Hin as [Hin|Hin]].
  - (* officers *)
    apply in_flat_map in Hin as [pc [Hpc Hin]]. apply in_flat_map in Hin as [from [Hfrom Hin]].
    apply bits_asc_spec in Hfrom. apply qrnb_vpc in Hpc.
    destruct (origin_square p turn pc from HI Hpc Hfrom) as [Hc [Hf Hsq]].
    eapply shape_normal_capture; eauto.
  - (* pawns *)
    apply in_flat_map in Hin as [from [Hfrom Hin]]. apply bits_asc_spec in Hfrom.
    assert (Hpw : 1 <= Pawn <= 6) by (unfold Pawn; lia).
    destruct (origin_square p turn Pawn from HI Hpw Hfrom) as [Hc [Hf Hsq]].
    eapply shape_pawn; eauto.
  - (* king *)
    destruct (N.eqb_spec (pget p turn King) 0) as [|Hkb]; [destruct Hin|].
    destruct (ctz_spec _ Hkb) as [Hfrom _].
    assert (HK : 1 <= King <= 6) by (unfold King; lia).
    destruct (origin_square p turn King _ HI HK Hfrom) as [Hc [Hf Hsq]].
    rewrite app_assoc in Hin. apply in_app_or in Hin as [Hin|Hin].
    + eapply shape_normal_capture; eauto.
    + destruct Hc as [->| ->].
      * change (0 =? White) with true in Hin. cbn iota in Hin. apply in_app_or in Hin as [Hin|Hin].
        -- eapply (shape_castle p 0 KingSideCastle WhiteKingSideCastle E1 H1 G1 F1 whiteKingSideCastlingMask);
             try exact Hin; auto; try (vm_compute; reflexivity); try discriminate.
        -- eapply (shape_castle p 0 QueenSideCastle WhiteQueenSideCastle E1 A1 C1 D1 whiteQueenSideCastlingMask);
             try exact Hin; auto; try (vm_compute; reflexivity); try discriminate.
      * change (1 =? White) with false in Hin. cbn iota in Hin. apply in_app_or in Hin as [Hin|Hin].
        -- eapply (shape_castle p 1 KingSideCastle BlackKingSideCastle E8 H8 G8 F8 blackKingSideCastlingMask);
             try exact Hin; auto; try (vm_compute; reflexivity); try discriminate.
        -- eapply (shape_castle p 1 QueenSideCastle BlackQueenSideCastle E8 A8 C8 D8 blackQueenSideCastlingMask);
             try exact Hin; auto; try (vm_compute; reflexivity); try discriminate. Qed.

Print Assumptions pseudo_shape.
