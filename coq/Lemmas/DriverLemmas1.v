(** * Driver transition system (Model/Driver.v): step view, basic list facts,
      loop/output invariant [InvA] with
      no_send_on_closed, at_most_one_bestmove, no_stale_bestmove, isready_answered. *)
From Coq Require Import List Bool Arith PeanoNat Lia.
From Morlock.Model Require Import Driver.
Import ListNotations.

(** ** One constructor per step: an inductive view of [fire] (equivalent to it, see [fire_view],
       [view_fire]). *)
Section View.
  Variable cap : nat.

  Inductive sview (s : dstate) : label -> dstate -> Prop :=
  | V_eof : pc s = PIdle -> inp s = [] -> sview s LCmd (do_exit s)
  | V_cmd : forall c rest, pc s = PIdle -> inp s = c :: rest ->
      sview s LCmd (handle_cmd c (set_consumed (c :: consumed s) (set_inp rest s)))
  | V_recv : forall u rest, pc s = PIdle -> ponder s = u :: rest ->
      sview s LRecv (handle_upd u (set_ponder rest s))
  | V_hinit : forall h k r, pc s = PHaltInit h k -> find_h h (srchs s) = Some r -> h_init r = true ->
      sview s LHaltInit (set_pc (PHaltDone h k) (set_srchs (upd_h h srch_set_quit (srchs s)) s))
  | V_hdone : forall h k r, pc s = PHaltDone h k -> find_h h (srchs s) = Some r -> h_done r = true ->
      sview s LHaltDone (run_cont k (Some (h_pv r)) (set_eactive None s))
  | V_iter : forall h stop r k, find_h h (srchs s) = Some r -> h_proc r = PRun k ->
      (stop = true -> g_lim (h_opt r) = true) ->
      sview s (LIter h stop) (set_srchs (upd_h h (srch_iter k stop) (srchs s)) s)
  | V_halted : forall h r k, find_h h (srchs s) = Some r -> h_proc r = PRun k -> h_quit r = true ->
      sview s (LHalted h) (set_srchs (upd_h h srch_exit (srchs s)) s)
  | V_frecv : forall h r d, find_h h (srchs s) = Some r -> h_fwd r = FRead -> h_out r = Some d ->
      sview s (LFRecv h) (set_srchs (upd_h h (srch_frecv d) (srchs s)) s)
  | V_fpost : forall h r d, find_h h (srchs s) = Some r -> h_fwd r = FPost d -> length (ponder s) < cap ->
      sview s (LFPost h) (set_srchs (upd_h h (srch_set_fwd FRead) (srchs s)) (set_ponder (ponder s ++ [UInfo h d]) s))
  | V_fclosed : forall h r, find_h h (srchs s) = Some r -> h_fwd r = FRead -> h_out r = None -> h_oclosed r = true ->
      sview s (LFClosed h)
        (set_srchs (upd_h h (srch_set_fwd (if g_inf (h_opt r) then FFin else FPostDone)) (srchs s)) s)
  | V_fpostdone : forall h r, find_h h (srchs s) = Some r -> h_fwd r = FPostDone -> length (ponder s) < cap ->
      sview s (LFPostDone h)
        (set_srchs (upd_h h (srch_set_fwd FFin) (srchs s)) (set_ponder (ponder s ++ [UDone h (h_last r)]) s))
  | V_tmove : forall q, has_timer (TMove q) (timers s) = true -> length (ponder s) < cap ->
      sview s (LTMove q) (set_timers (remove_timer (TMove q) (timers s)) (set_ponder (ponder s ++ [UExp q]) s))
  | V_thard : forall h r, has_timer (THard h) (timers s) = true -> find_h h (srchs s) = Some r -> h_init r = true ->
      sview s (LTHard h) (set_timers (remove_timer (THard h) (timers s)) (set_srchs (upd_h h srch_set_quit (srchs s)) s)).

  Lemma fire_view : forall l s s', fire cap l s = Some s' -> sview s l s'.
  Proof.
    intros l s s' H. destruct l; simpl in H; unfold with_srch, post in H.
    - destruct (pc s) eqn:Hpc; try discriminate. destruct (inp s) eqn:Hi; inversion H; subst.
      + now apply V_eof. + now apply V_cmd.
    - destruct (pc s) eqn:Hpc; try discriminate. destruct (ponder s) eqn:Hp; inversion H; subst.
      now apply V_recv.
    - destruct (pc s) eqn:Hpc; try discriminate. destruct (find_h h (srchs s)) eqn:Hf; try discriminate.
      destruct (h_init s0) eqn:Hi; inversion H; subst. eapply V_hinit; eauto.
    - destruct (pc s) eqn:Hpc; try discriminate. destruct (find_h h (srchs s)) eqn:Hf; try discriminate.
      destruct (h_done s0) eqn:Hi; inversion H; subst. eapply V_hdone; eauto.
    - destruct (find_h h (srchs s)) eqn:Hf; try discriminate. destruct (h_proc s0) eqn:Hp; try discriminate.
      destruct (implb stop (g_lim (h_opt s0))) eqn:Hi; inversion H; subst. eapply V_iter; eauto.
      intros ->. exact Hi.
    - destruct (find_h h (srchs s)) eqn:Hf; try discriminate. destruct (h_proc s0) eqn:Hp; try discriminate.
      destruct (h_quit s0) eqn:Hi; inversion H; subst. eapply V_halted; eauto.
    - destruct (find_h h (srchs s)) eqn:Hf; try discriminate. destruct (h_fwd s0) eqn:Hp; try discriminate.
      destruct (h_out s0) eqn:Hi; inversion H; subst. eapply V_frecv; eauto.
    - destruct (find_h h (srchs s)) eqn:Hf; try discriminate. destruct (h_fwd s0) eqn:Hp; try discriminate.
      destruct (length (ponder s) <? cap) eqn:Hi; inversion H; subst. apply Nat.ltb_lt in Hi.
      eapply V_fpost; eauto.
    - destruct (find_h h (srchs s)) eqn:Hf; try discriminate. destruct (h_fwd s0) eqn:Hp; try discriminate.
      destruct (h_out s0) eqn:Ho; try discriminate.
      destruct (h_oclosed s0) eqn:Hi; inversion H; subst. eapply V_fclosed; eauto.
    - destruct (find_h h (srchs s)) eqn:Hf; try discriminate. destruct (h_fwd s0) eqn:Hp; try discriminate.
      destruct (length (ponder s) <? cap) eqn:Hi; inversion H; subst. apply Nat.ltb_lt in Hi.
      eapply V_fpostdone; eauto.
    - destruct (has_timer (TMove seq) (timers s)) eqn:Ht; try discriminate.
      destruct (length (ponder s) <? cap) eqn:Hi; inversion H; subst. apply Nat.ltb_lt in Hi.
      eapply V_tmove; eauto.
    - destruct (has_timer (THard h) (timers s)) eqn:Ht; try discriminate.
      destruct (find_h h (srchs s)) eqn:Hf; try discriminate.
      destruct (h_init s0) eqn:Hi; inversion H; subst. eapply V_thard; eauto.
    - discriminate.
    - discriminate.
  Qed.

  Lemma view_fire : forall l s s', sview s l s' -> fire cap l s = Some s'.
  Proof.
    intros l s s' H. destruct H; simpl; unfold with_srch, post;
      repeat match goal with H : _ = _ |- _ => rewrite H end; try reflexivity.
    - destruct stop; simpl.
      + rewrite H1; reflexivity.
      + reflexivity.
    - apply Nat.ltb_lt in H1. rewrite H1. reflexivity.
    - apply Nat.ltb_lt in H1. rewrite H1. reflexivity.
    - apply Nat.ltb_lt in H0. rewrite H0. reflexivity.
  Qed.

  Lemma step_view : forall s s', step cap s s' <-> exists l, sview s l s'.
  Proof.
    intros s s'. split; intros [l H]; exists l.
    - now apply fire_view. - now apply view_fire.
  Qed.
End View.

(** ** List utilities *)

Lemma find_h_In : forall h l r, find_h h l = Some r -> In r l /\ h_id r = h.
Proof.
  unfold find_h. intros h l r H. apply find_some in H. destruct H as [H1 H2].
  apply Nat.eqb_eq in H2. auto.
Qed.

Lemma In_find_h : forall l r, NoDup (map h_id l) -> In r l -> find_h (h_id r) l = Some r.
Proof.
  unfold find_h. induction l as [|a l IH]; simpl; intros r Hnd Hin; [contradiction|].
  inversion Hnd as [|? ? Hn1 Hn2]; subst. destruct Hin as [->|Hin].
  - now rewrite Nat.eqb_refl.
  - destruct (h_id a =? h_id r) eqn:E.
    + apply Nat.eqb_eq in E. exfalso. apply Hn1. rewrite E. now apply in_map.
    + now apply IH.
Qed.

Lemma In_upd_h : forall h f l r', In r' (upd_h h f l) ->
  exists r, In r l /\ ((h_id r <> h /\ r' = r) \/ (h_id r = h /\ r' = f r)).
Proof.
  unfold upd_h. intros h f l r' H. apply in_map_iff in H. destruct H as [r [H1 H2]].
  exists r. split; auto. destruct (h_id r =? h) eqn:E.
  - apply Nat.eqb_eq in E. right; auto.
  - apply Nat.eqb_neq in E. left; auto.
Qed.

Lemma upd_h_In : forall h f l r, In r l -> In (if h_id r =? h then f r else r) (upd_h h f l).
Proof. unfold upd_h. intros. apply in_map_iff. exists r; auto. Qed.

Lemma upd_h_ids : forall h f l, (forall r, h_id (f r) = h_id r) -> map h_id (upd_h h f l) = map h_id l.
Proof.
  unfold upd_h. intros h f l Hf. rewrite map_map. apply map_ext. intros r.
  destruct (h_id r =? h); auto.
Qed.

Lemma find_h_upd : forall h f l r h', (forall r, h_id (f r) = h_id r) ->
  find_h h' l = Some r -> find_h h' (upd_h h f l) = Some (if h' =? h then f r else r).
Proof.
  unfold find_h, upd_h. intros h f l r h' Hf. induction l as [|a l IH]; simpl; intros H; [discriminate|].
  destruct (h_id a =? h') eqn:E.
  - inversion H; subst. apply Nat.eqb_eq in E. subst h'.
    destruct (h_id r =? h) eqn:E2; [rewrite Hf|]; rewrite Nat.eqb_refl; reflexivity.
  - destruct (h_id a =? h) eqn:E2; [rewrite Hf|]; rewrite E; auto.
Qed.

Lemma find_h_upd_none : forall h f l h', (forall r, h_id (f r) = h_id r) ->
  find_h h' l = None -> find_h h' (upd_h h f l) = None.
Proof.
  unfold find_h, upd_h. intros h f l h' Hf. induction l as [|a l IH]; simpl; intros H; auto.
  destruct (h_id a =? h') eqn:E; [discriminate|].
  destruct (h_id a =? h) eqn:E2; [rewrite Hf|]; rewrite E; auto.
Qed.

Lemma timer_eqb_eq : forall a b, timer_eqb a b = true <-> a = b.
Proof.
  intros a b. split.
  - destruct a, b; simpl; intros H; try discriminate.
    + apply Nat.eqb_eq in H; now subst.
    + apply Nat.eqb_eq in H; now subst.
    + apply andb_true_iff in H. destruct H as [E1 E2]. apply Nat.eqb_eq in E1. apply eqb_prop in E2. now subst.
  - intros <-. destruct a; simpl; try apply Nat.eqb_refl.
    rewrite Nat.eqb_refl, eqb_reflx. reflexivity.
Qed.

Lemma has_timer_In : forall t l, has_timer t l = true <-> In t l.
Proof.
  unfold has_timer. intros t l. rewrite existsb_exists. split.
  - intros [x [H1 H2]]. apply timer_eqb_eq in H2. now subst.
  - intros H. exists t. split; auto. now apply timer_eqb_eq.
Qed.

Lemma In_remove_timer : forall t x l, In x (remove_timer t l) -> In x l.
Proof.
  induction l as [|a l IH]; simpl; auto. destruct (timer_eqb t a); simpl; intuition.
Qed.

(** ** Counting output lines *)

Definition is_best (q : nat) (x : out_line) : bool :=
  match x with LBest q' _ => q' =? q | _ => false end.
Definition count_best (q : nat) (l : list out_line) : nat := length (filter (is_best q) l).
Definition is_ready (x : out_line) : bool := match x with LReady => true | _ => false end.
Definition count_ready (l : list out_line) : nat := length (filter is_ready l).

Lemma count_best_zero : forall q l, (forall d, ~ In (LBest q d) l) -> count_best q l = 0.
Proof.
  unfold count_best. induction l as [|a l IH]; simpl; intros H; auto.
  destruct (is_best q a) eqn:E.
  - destruct a; simpl in E; try discriminate. apply Nat.eqb_eq in E. subst. exfalso. eapply H. left; reflexivity.
  - apply IH. intros d Hd. eapply H. right; eauto.
Qed.

Lemma count_best_pos : forall q l, 0 < count_best q l -> exists d, In (LBest q d) l.
Proof.
  unfold count_best. induction l as [|a l IH]; simpl; intros H; [lia|].
  destruct (is_best q a) eqn:E.
  - destruct a; simpl in E; try discriminate. apply Nat.eqb_eq in E. subst. eexists; left; reflexivity.
  - destruct (IH H) as [d Hd]. exists d; now right.
Qed.

(** ** The loop / output invariant *)

Definition cont_ok (k : cont) (s : dstate) : Prop :=
  match k with
  | KExpired q => active s = q
  | KStop => True
  | _ => active s = 0
  end.

Record InvA (s : dstate) : Prop := {
  a_crash : crashed s = false;
  a_closed : out_closed s = true <-> pc s = PExited;
  a_act : active s = 0 \/ active s = searches s;
  a_best : forall q d, In (LBest q d) (emitted s) -> q <> 0 /\ q <= searches s /\ active s <> q;
  a_one : forall q, count_best q (emitted s) <= 1;
  a_ready : count_ready (emitted s) = count_cmd is_isready (consumed s);
  a_cont : match pc s with PHaltInit _ k | PHaltDone _ k => cont_ok k s | _ => True end
}.

Ltac dmatch :=
  repeat match goal with
  | |- context [match ?x with _ => _ end] => destruct x eqn:?; simpl
  end.

Ltac bool2prop :=
  repeat match goal with
  | H : (_ =? _) = true |- _ => apply Nat.eqb_eq in H
  | H : (_ =? _) = false |- _ => apply Nat.eqb_neq in H
  | H : (_ && _) = true |- _ => apply andb_true_iff in H; destruct H
  | H : negb _ = true |- _ => apply negb_true_iff in H
  | H : negb _ = false |- _ => apply negb_false_iff in H
  end.

Lemma closed_false : forall s, InvA s -> pc s <> PExited -> out_closed s = false.
Proof.
  intros s I H. destruct (out_closed s) eqn:E; auto. exfalso. apply H. now apply (a_closed s I).
Qed.

(** emitting a best move for q when active = q (the only way [search_completed] emits) *)
Lemma best_new : forall q l, (forall d, ~ In (LBest q d) l) -> (forall q', count_best q' l <= 1) ->
  forall d q', count_best q' (LBest q d :: l) <= 1.
Proof.
  intros q l Hno Hone d q'. unfold count_best. simpl. destruct (q =? q') eqn:E; simpl.
  - apply Nat.eqb_eq in E. subst q'. fold (count_best q l). rewrite count_best_zero; auto.
  - apply Hone.
Qed.

Section InvA.
  Variable cap : nat.

  (* A predicate on states in the middle of a loop handler: the loop has not exited, the
     output is open; pc is whatever (it is set at the end). *)
  Record Mid (s : dstate) : Prop := {
    m_crash : crashed s = false;
    m_open : out_closed s = false;
    m_act : active s = 0 \/ active s = searches s;
    m_best : forall q d, In (LBest q d) (emitted s) -> q <> 0 /\ q <= searches s /\ active s <> q;
    m_one : forall q, count_best q (emitted s) <= 1;
    m_ready : count_ready (emitted s) = count_cmd is_isready (consumed s)
  }.

  Lemma InvA_Mid : forall s, InvA s -> pc s <> PExited -> Mid s.
  Proof. intros s I H. constructor; try apply I. now apply closed_false. Qed.

  Lemma Mid_InvA : forall s, Mid s -> pc s <> PExited ->
    match pc s with PHaltInit _ k | PHaltDone _ k => cont_ok k s | _ => True end -> InvA s.
  Proof.
    intros s M H Hk. constructor; try apply M; auto.
    split; intros E; [rewrite (m_open s M) in E; discriminate | contradiction].
  Qed.

  Lemma Mid_finish : forall s, Mid s -> InvA (finish s).
  Proof.
    intros s M. unfold finish. constructor; simpl; try apply M; auto. tauto.
  Qed.

  Lemma Mid_set_pc : forall s p, Mid s -> Mid (set_pc p s).
  Proof. intros s p M. constructor; simpl; apply M. Qed.

  Lemma completed_frame : forall s q d,
    let s' := search_completed q d s in
    pc s' = pc s /\ consumed s' = consumed s /\ searches s' = searches s /\ inp s' = inp s
    /\ eactive s' = eactive s /\ srchs s' = srchs s /\ timers s' = timers s /\ ponder s' = ponder s
    /\ out_closed s' = out_closed s /\ g_super s' = g_super s /\ g_stopped s' = g_stopped s.
  Proof.
    intros s q d. unfold search_completed, emit. simpl.
    destruct (negb (q =? 0) && (active s =? q)); simpl; try tauto.
    destruct (out_closed s) eqn:E; simpl; rewrite ?E; tauto.
  Qed.

  (* search_completed keeps Mid *)
  Lemma Mid_completed : forall s q d, Mid s -> q <= searches s -> Mid (search_completed q d s).
  Proof.
    intros s q d M Hq. unfold search_completed, emit.
    destruct (negb (q =? 0) && (active s =? q)) eqn:E; auto. simpl.
    rewrite (m_open s M). bool2prop.
    constructor; simpl; try apply M; auto.
    - intros q' d' [Hd|Hd].
      + inversion Hd; subst. repeat split; auto.
      + destruct (m_best s M _ _ Hd) as [A [B C]]. repeat split; auto.
    - intros q'. apply best_new; try apply M. intros d' Hd. apply (m_best s M) in Hd. tauto.
  Qed.

  Lemma completed_active0 : forall s q d, Mid s -> q = searches s \/ q = active s ->
     active (search_completed q d s) = 0.
  Proof.
    intros s q d M Hq. unfold search_completed, emit.
    destruct (negb (q =? 0) && (active s =? q)) eqn:E.
    - destruct (out_closed (set_active 0 s)); simpl; auto.
    - apply andb_false_iff in E. destruct (m_act s M) as [A|A]; auto.
      destruct E as [E|E]; bool2prop; destruct Hq; subst; lia.
  Qed.

  Lemma Mid_deactivate : forall s, Mid s -> Mid (set_super true (set_active 0 s)).
  Proof.
    intros s M. constructor; simpl; try apply M; auto.
    intros q d Hd. destruct (m_best s M _ _ Hd) as [A [B C]]. repeat split; auto.
  Qed.

  Lemma Mid_do_exit : forall s, Mid s -> InvA (do_exit s).
  Proof.
    intros s M. unfold do_exit. simpl. apply Mid_deactivate in M.
    destruct (eactive s).
    - apply Mid_InvA; simpl; try discriminate; auto. now apply Mid_set_pc.
    - now apply Mid_finish.
  Qed.

  Lemma Mid_launch : forall s o, Mid s -> Mid (launch o s).
  Proof.
    intros s o M. unfold launch. constructor; simpl; try apply M; auto.
    intros q d Hd. destruct (m_best s M _ _ Hd) as [A [B C]]. repeat split; auto; lia.
  Qed.

  Lemma Mid_book : forall s, Mid s -> Mid (book_go s) /\ active (book_go s) = 0.
  Proof.
    intros s M. unfold book_go.
    assert (M1 : Mid (set_stopped false (set_super false (set_active (S (searches s)) (set_searches (S (searches s)) s))))).
    { constructor; simpl; try apply M; auto.
      intros q d Hd. destruct (m_best s M _ _ Hd) as [A [B C]]. repeat split; auto; lia. }
    split.
    - apply Mid_completed; simpl; auto.
    - apply completed_active0; simpl; auto.
  Qed.

  Lemma run_cont_A : forall k r s, Mid s -> cont_ok k s -> InvA (run_cont k r s).
  Proof.
    intros k r s M Hk. destruct k; simpl.
    - apply Mid_InvA; simpl; auto; try discriminate. now apply Mid_set_pc.
    - now apply Mid_do_exit.
    - destruct (eactive s).
      + now apply Mid_do_exit.
      + apply Mid_InvA; simpl; auto; try discriminate. apply Mid_set_pc. now apply Mid_launch.
    - apply Mid_InvA; simpl; auto; try discriminate. apply Mid_set_pc. now apply Mid_book.
    - apply Mid_InvA; simpl; auto; try discriminate. apply Mid_set_pc.
      destruct r; auto. apply Mid_completed; auto.
    - apply Mid_InvA; simpl; auto; try discriminate. apply Mid_set_pc.
      destruct r; auto. apply Mid_completed; auto. simpl in Hk. destruct (m_act s M); lia.
    - now apply Mid_finish.
  Qed.

  Lemma engine_halt_A : forall k s, Mid s -> cont_ok k s -> InvA (engine_halt k s).
  Proof.
    intros k s M Hk. unfold engine_halt. destruct (eactive s).
    - apply Mid_InvA; simpl; auto; try discriminate. now apply Mid_set_pc.
    - now apply run_cont_A.
  Qed.

  Lemma ensure_inactive_A : forall k s, Mid s -> (forall s', active s' = 0 -> cont_ok k s') ->
    InvA (ensure_inactive k s).
  Proof.
    intros k s M Hk. unfold ensure_inactive. apply engine_halt_A.
    - now apply Mid_deactivate.
    - apply Hk. reflexivity.
  Qed.

  Lemma Mid_emit_info : forall s q d, Mid s -> Mid (emit (LInfo q d) s).
  Proof.
    intros s q d M. unfold emit. rewrite (m_open s M).
    constructor; simpl; try apply M.
    intros q' d' [Hd|Hd]; [discriminate|]. now apply (m_best s M) in Hd.
  Qed.

  Lemma handle_cmd_A : forall c s rest, InvA s -> pc s = PIdle ->
    InvA (handle_cmd c (set_consumed (c :: consumed s) (set_inp rest s))).
  Proof.
    intros c s rest I Hpc.
    assert (M : Mid s) by (apply InvA_Mid; auto; rewrite Hpc; discriminate).
    assert (M0 : is_isready c = false -> Mid (set_consumed (c :: consumed s) (set_inp rest s))).
    { intros Hc. constructor; simpl; try apply M.
      unfold count_cmd. simpl. rewrite Hc. apply (m_ready s M). }
    destruct c; simpl.
    - (* isready *)
      unfold emit. simpl. rewrite (m_open s M).
      constructor; simpl; try apply M; try rewrite Hpc; auto.
      + rewrite (m_open s M). split; discriminate.
      + intros q d [Hd|Hd]; [discriminate|]. now apply (m_best s M) in Hd.
      + unfold count_cmd, count_ready. simpl. f_equal. apply (m_ready s M).
    - apply ensure_inactive_A; auto.
    - apply ensure_inactive_A; auto. destruct ok; auto.
    - apply ensure_inactive_A; auto.
    - apply ensure_inactive_A; auto.
    - apply ensure_inactive_A; auto.
    - apply engine_halt_A; simpl; auto.
      specialize (M0 eq_refl). constructor; simpl; apply M0.
    - apply Mid_do_exit; auto.
    - apply Mid_InvA; simpl; auto; rewrite Hpc; auto. discriminate.
  Qed.

  Lemma handle_upd_A : forall u s rest, InvA s -> pc s = PIdle -> InvA (handle_upd u (set_ponder rest s)).
  Proof.
    intros u s rest I Hpc.
    assert (M : Mid (set_ponder rest s)).
    { assert (M : Mid s) by (apply InvA_Mid; auto; rewrite Hpc; discriminate).
      constructor; simpl; apply M. }
    assert (P : pc (set_ponder rest s) = PIdle) by (simpl; auto).
    unfold handle_upd. destruct (upd_seq u =? active (set_ponder rest s)) eqn:E.
    - apply Nat.eqb_eq in E. destruct u; simpl in E.
      + apply Mid_emit_info with (q:=seq) (d:=d) in M.
        apply Mid_InvA; auto.
        * unfold emit. destruct (out_closed (set_ponder rest s)); simpl; rewrite Hpc; discriminate.
        * unfold emit. destruct (out_closed (set_ponder rest s)); simpl; rewrite Hpc; auto.
      + assert (F := completed_frame (set_ponder rest s) seq d). simpl in F.
        destruct F as [F _].
        apply Mid_InvA.
        * apply Mid_completed; auto. simpl. destruct (m_act _ M) as [A|A]; simpl in A; lia.
        * rewrite F, Hpc. discriminate.
        * rewrite F, Hpc. auto.
      + apply engine_halt_A; auto. simpl. auto.
    - apply Mid_InvA; auto; rewrite P; auto. discriminate.
  Qed.

  Lemma InvA_frame : forall s s', InvA s ->
    pc s' = pc s -> searches s' = searches s -> active s' = active s -> emitted s' = emitted s ->
    out_closed s' = out_closed s -> crashed s' = crashed s -> consumed s' = consumed s -> InvA s'.
  Proof.
    intros s s' I E1 E2 E3 E4 E5 E6 E7.
    constructor; rewrite ?E1, ?E2, ?E3, ?E4, ?E5, ?E6, ?E7; try apply I.
    generalize (a_cont s I). destruct (pc s); auto; destruct k; simpl; rewrite ?E3; auto.
  Qed.

  Theorem InvA_step : forall s s', InvA s -> step cap s s' -> InvA s'.
  Proof.
    intros s s' I [l H]. apply fire_view in H. destruct H;
      try (eapply InvA_frame; [exact I | reflexivity ..]).
    - (* eof *) apply Mid_do_exit. apply InvA_Mid; auto. rewrite H. discriminate.
    - apply handle_cmd_A; auto.
    - apply handle_upd_A; auto.
    - (* halt init *)
      assert (M : Mid s) by (apply InvA_Mid; auto; rewrite H; discriminate).
      apply Mid_InvA; simpl; try discriminate.
      + constructor; simpl; apply M.
      + generalize (a_cont s I). rewrite H. destruct k; auto.
    - (* halt done *)
      assert (M : Mid s) by (apply InvA_Mid; auto; rewrite H; discriminate).
      apply run_cont_A.
      + constructor; simpl; apply M.
      + generalize (a_cont s I). rewrite H. destruct k; auto.
  Qed.

  Lemma InvA_init : forall script, InvA (init_state script).
  Proof.
    intros script. constructor; simpl; auto.
    - split; discriminate.
    - intros q d [].
  Qed.

  Theorem InvA_reachable : forall script s, reachable cap script s -> InvA s.
  Proof.
    intros script s R. induction R.
    - apply InvA_init.
    - eapply InvA_step; eauto.
  Qed.
End InvA.
