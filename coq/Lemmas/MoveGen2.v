(** MoveGen2 — the derived attack queries of the position ([IsAttacked], [IsChecked]) are the
    specification's [attacked] / [in_check] on the abstracted board. *)
From Coq Require Import NArith ZArith List Bool Lia ZifyBool ZifyNat ZifyN.
From Morlock.Model Require Import Bits Attacks Move Position Abs.
From Morlock.Spec Require Import Chess.
From Morlock.Lemmas Require Import AttackGeometry AttackGeometry_Extra PositionLemmas MoveGen1.
Import ListNotations.
Open Scope N_scope.

(** * piece codes and kinds *)

Lemma kind_of_code k : kind_of (code_of_kind k) = Some k.
Proof. destruct k; reflexivity. Qed.

Lemma kind_of_some p k : kind_of p = Some k -> p = code_of_kind k.
Proof.
  unfold kind_of. repeat (match goal with |- context [?a =? ?b] => destruct (N.eqb_spec a b) end);
  intros H; inversion H; subst; reflexivity.
Qed.

Lemma vpc_kind p : vpc p -> exists k, p = code_of_kind k.
Proof.
  unfold vpc. intros H.
  assert (E : p = 1 \/ p = 2 \/ p = 3 \/ p = 4 \/ p = 5 \/ p = 6) by lia.
  destruct E as [->|[->|[->|[->|[->| ->]]]]];
  [exists P|exists Bi|exists Kn|exists R|exists Q|exists K]; reflexivity.
Qed.

Lemma vpc_code k : vpc (code_of_kind k).
Proof. destruct k; unfold vpc, code_of_kind, Pawn, Bishop, Knight, Rook, Queen, King; lia. Qed.

Lemma code_of_kind_inj k k' : code_of_kind k = code_of_kind k' -> k = k'.
Proof. destruct k, k'; cbn; intros H; try reflexivity; discriminate. Qed.

Lemma color_of_inj c c' : vcol c -> vcol c' -> color_of c = color_of c' -> c = c'.
Proof. intros [->| ->] [->| ->]; cbn; intros H; try reflexivity; discriminate. Qed.

Lemma color_eqb_eq a b : color_eqb a b = true <-> a = b.
Proof. destruct a, b; cbn; split; intros H; try reflexivity; discriminate. Qed.

Lemma other_color_of c : vcol c -> other (color_of c) = color_of (opponent c).
Proof. intros [->| ->]; reflexivity. Qed.

Lemma vcol_opponent c : vcol (opponent c).
Proof. unfold opponent, vcol, White, Black. destruct (c =? 0); auto. Qed.

(** * the abstract board, cell by cell *)

Theorem at_piece pos s c k : Inv pos -> s < 64 -> vcol c ->
  (at_ (brd (abs_pos pos)) (N.to_nat s) = Some (color_of c, k) <->
   N.testbit (pget pos c (code_of_kind k)) s = true).
Proof.
  intros HI Hs Hc. rewrite at_abs_pos by exact Hs. split.
  - destruct (square pos s) as [[c' p']|] eqn:E; [|discriminate].
    apply square_some in E as [Hc' [Hp' Hb]]; try assumption.
    destruct (kind_of p') as [k'|] eqn:Ek; [|discriminate].
    intros H. inversion H as [[H1 H2]]. subst k'.
    apply color_of_inj in H1; try assumption. subst c'.
    apply kind_of_some in Ek. now subst p'.
  - intros Hb.
    assert (E : square pos s = Some (c, code_of_kind k)).
    { apply square_some; try assumption. split; [assumption|]. split; [apply vpc_code|assumption]. }
    now rewrite E, kind_of_code.
Qed.

Lemma at_none pos s : Inv pos -> s < 64 ->
  (at_ (brd (abs_pos pos)) (N.to_nat s) = None <-> N.testbit (all_bb pos) s = false).
Proof.
  intros HI Hs. rewrite at_abs_pos by exact Hs. rewrite <- square_none by assumption.
  destruct (square pos s) as [[c' p']|] eqn:E; [|tauto].
  apply square_some in E as [Hc' [Hp' Hb]]; try assumption.
  destruct (vpc_kind _ Hp') as [k ->]. rewrite kind_of_code. split; discriminate.
Qed.

Lemma at_some_inv pos s col k : Inv pos -> s < 64 ->
  at_ (brd (abs_pos pos)) (N.to_nat s) = Some (col, k) ->
  exists c, vcol c /\ col = color_of c /\ N.testbit (pget pos c (code_of_kind k)) s = true.
Proof.
  intros HI Hs H. destruct col.
  - exists 0. split; [now left|]. split; [reflexivity|]. apply at_piece; auto. now left.
  - exists 1. split; [now right|]. split; [reflexivity|]. apply at_piece; auto. now right.
Qed.

Lemma at_out pos n : (64 <= n)%nat -> at_ (brd (abs_pos pos)) n = None.
Proof. intros H. unfold abs_pos. cbn [brd]. now apply at_map_seqN_out. Qed.

Theorem occupied_abs pos : Inv pos -> forall x, occupied (brd (abs_pos pos)) x = occ_of (all_bb pos) x.
Proof.
  intros HI x. unfold occupied, occ_of.
  destruct (Nat.lt_ge_cases x 64) as [L|L].
  - assert (Hs : N.of_nat x < 64) by lia.
    replace x with (N.to_nat (N.of_nat x)) at 1 by lia.
    destruct (at_ (brd (abs_pos pos)) (N.to_nat (N.of_nat x))) as [cl|] eqn:E.
    + destruct (N.testbit (all_bb pos) (N.of_nat x)) eqn:T; [reflexivity|].
      apply at_none in T; try assumption. congruence.
    + apply at_none in E; try assumption. now rewrite E.
  - rewrite at_out by exact L. symmetry. apply (proj1 (word_bits _) (all_bb_word _ HI)). lia.
Qed.

(** * bit tests *)

Lemma land_nonzero x y : N.land x y <> 0 <-> exists i, N.testbit x i = true /\ N.testbit y i = true.
Proof.
  split.
  - intros H. exists (N.log2 (N.land x y)). apply N.bit_log2 in H. rewrite N.land_spec in H.
    now apply andb_true_iff in H.
  - intros [i [H1 H2]] Z. apply (proj1 (land_zero_bits x y) Z i H1 H2).
Qed.

Lemma land_bitmask_nonzero x sq : sq < 64 -> negb (N.land x (bitmask sq) =? 0) = N.testbit x sq.
Proof. intros H. change (negb (N.land x (bitmask sq) =? 0)) with (is_set x sq). now apply is_set_tb64. Qed.

(** * attack boards of the position in terms of the abstract board *)

Theorem attackboard_mem pos sq k s : Inv pos -> sq < 64 -> k <> P ->
  N.testbit (attackboard (rotated_bb pos) sq (code_of_kind k)) s =
  (s <? 64) && mem_nat (N.to_nat s) (attacks_from (occupied (brd (abs_pos pos))) Wh k (N.to_nat sq)).
Proof.
  intros HI Hsq Hk.
  rewrite (attacks_from_ext _ (occ_of (all_bb pos)) Wh k _ (occupied_abs pos HI)).
  pose proof HI as [_ [_ [_ [_ [_ [Hrot _]]]]]]. rewrite Hrot.
  destruct k; try congruence.
  - apply Statements.bishop_attack_geometric; exact Hsq.
  - apply Statements.knight_attack_geometric; exact Hsq.
  - apply Statements.rook_attack_geometric; exact Hsq.
  - apply Statements.queen_attack_geometric; exact Hsq.
  - apply Statements.king_attack_geometric; exact Hsq.
Qed.

(** one test of [IsAttackedBy] *)
Definition att_test (pos : position) (c sq piece : N) : bool :=
  let opp := opponent c in
  if piece =? Pawn then negb (N.land (pawn_captureboard opp (pget pos opp Pawn)) (bitmask sq) =? 0)
  else let pcs := pget pos opp piece in
       negb (pcs =? 0) && negb (N.land (attackboard (rotated_bb pos) sq piece) pcs =? 0).

Lemma is_attacked_tests pos c sq : is_attacked pos c sq = existsb (att_test pos c sq) AllPieces.
Proof. reflexivity. Qed.

Lemma in_AllPieces p : In p AllPieces <-> exists k, p = code_of_kind k.
Proof.
  unfold AllPieces. cbn [In]. split.
  - intros [H|[H|[H|[H|[H|[H|[]]]]]]]; subst;
    [exists K|exists Q|exists R|exists Kn|exists Bi|exists P]; reflexivity.
  - intros [k ->]. destruct k; cbn; tauto.
Qed.

Lemma att_test_spec pos c sq k : Inv pos -> vcol c -> sq < 64 ->
  (att_test pos c sq (code_of_kind k) = true <->
   exists s, s < 64 /\ N.testbit (pget pos (opponent c) (code_of_kind k)) s = true /\
     mem_nat (N.to_nat sq) (attacks_from (occupied (brd (abs_pos pos))) (color_of (opponent c)) k (N.to_nat s)) = true).
Proof.
  intros HI Hc Hsq. pose proof (vcol_opponent c) as Ho.
  destruct (kind_eqb k P) eqn:EP.
  - (* pawn *)
    assert (EkP : k = P) by (destruct k; cbn in EP; try discriminate; reflexivity). subst k.
    unfold att_test. cbn [code_of_kind]. rewrite N.eqb_refl.
    rewrite land_bitmask_nonzero by exact Hsq.
    rewrite Statements.pawn_capture_geometric; [|exact Ho|apply pget_word; exact HI].
    destruct (N.ltb_spec sq 64) as [_|Hge]; [|lia]. rewrite andb_true_l, existsb_exists.
    change (if opponent c =? 0 then Wh else Bl) with (color_of (opponent c)).
    split.
    + intros [s [Hin H]]. apply in_all_squares in Hin. apply andb_true_iff in H as [H1 H2].
      exists (N.of_nat s). split; [lia|]. split; [exact H1|]. now rewrite Nat2N.id.
    + intros [s [Hs [H1 H2]]]. exists (N.to_nat s). split; [apply in_all_squares; lia|].
      rewrite N2Nat.id, H1. exact H2.
  - assert (Hk : k <> P) by (intros ->; discriminate).
    unfold att_test.
    assert (E : (code_of_kind k =? Pawn) = false) by (destruct k; try reflexivity; congruence).
    rewrite E. cbv zeta. rewrite andb_true_iff, !negb_true_iff, !N.eqb_neq, land_nonzero.
    split.
    + intros [_ [s [H1 H2]]].
      assert (Hs : s < 64) by (eapply word_tb_lt; [apply pget_word; exact HI|exact H2]).
      exists s. split; [exact Hs|]. split; [exact H2|].
      rewrite attackboard_mem in H1 by assumption. apply andb_true_iff in H1 as [_ H1].
      rewrite (attacks_from_color _ (color_of (opponent c))) by exact Hk.
      rewrite attacks_sym; [exact H1|exact Hk|lia|lia].
    + intros [s [Hs [H1 H2]]]. split.
      * intros Z. rewrite Z, N.bits_0 in H1. discriminate.
      * exists s. split; [|exact H1]. rewrite attackboard_mem by assumption.
        destruct (N.ltb_spec s 64); [|lia]. rewrite andb_true_l.
        rewrite (attacks_from_color _ (color_of (opponent c))) in H2 by exact Hk.
        rewrite attacks_sym; [exact H2|exact Hk|lia|lia].
Qed.

(** * IsAttacked *)
Theorem is_attacked_iff : forall pos c sq, Inv pos -> (c = 0 \/ c = 1) -> sq < 64 ->
  is_attacked pos c sq = attacked (brd (abs_pos pos)) (other (color_of c)) (N.to_nat sq).
Proof.
  intros pos c sq HI Hc Hsq. apply bool_eq_iff.
  rewrite is_attacked_tests, existsb_exists. unfold attacked. rewrite existsb_exists.
  rewrite (other_color_of c Hc). pose proof (vcol_opponent c) as Ho.
  split.
  - intros [p [Hp H]]. apply in_AllPieces in Hp as [k ->].
    apply att_test_spec in H as [s [Hs [H1 H2]]]; try assumption.
    exists (N.to_nat s). split; [apply in_all_squares; lia|].
    rewrite (proj2 (at_piece pos s (opponent c) k HI Hs Ho) H1).
    rewrite H2. destruct (color_of (opponent c)); reflexivity.
  - intros [n [Hn H]]. apply in_all_squares in Hn.
    assert (Hs : N.of_nat n < 64) by lia.
    replace n with (N.to_nat (N.of_nat n)) in H by lia.
    destruct (at_ (brd (abs_pos pos)) (N.to_nat (N.of_nat n))) as [[col k]|] eqn:E; [|discriminate].
    apply andb_true_iff in H as [H1 H2]. apply color_eqb_eq in H1. subst col.
    apply at_piece in E; try assumption.
    exists (code_of_kind k). split; [apply in_AllPieces; now exists k|].
    apply att_test_spec; try assumption. exists (N.of_nat n). auto.
Qed.
Print Assumptions is_attacked_iff.

(** * IsChecked *)

Lemma popcount_one_bits b : popcount b = 1 -> bits_asc b = [ctz b].
Proof.
  intros H. rewrite popcount_length in H. rewrite ctz_hd.
  destruct (bits_asc b) as [|a [|a' l]]; cbn [length hd] in *; try reflexivity; lia.
Qed.

Lemma king_square_unique pos c : Inv pos -> vcol c -> popcount (pget pos c King) = 1 ->
  ctz (pget pos c King) < 64 /\
  king_square (brd (abs_pos pos)) (color_of c) = Some (N.to_nat (ctz (pget pos c King))).
Proof.
  intros HI Hc H1. pose proof (popcount_one_bits _ H1) as Hb.
  set (kb := pget pos c King) in *. set (k := ctz kb) in *.
  assert (Hbit : forall s, N.testbit kb s = true <-> s = k).
  { intros s. rewrite <- bits_asc_spec, Hb. cbn [In]. split; [intros [E|[]]; auto|intros ->; now left]. }
  assert (Hk : k < 64).
  { eapply word_tb_lt; [apply (pget_word pos c King HI)|]. now apply Hbit. }
  split; [exact Hk|].
  unfold king_square.
  destruct (find _ all_squares) as [n|] eqn:F.
  - apply find_some in F as [Hn F]. apply in_all_squares in Hn.
    replace n with (N.to_nat (N.of_nat n)) in F by lia.
    destruct (at_ (brd (abs_pos pos)) (N.to_nat (N.of_nat n))) as [[col kd]|] eqn:E; [|discriminate].
    destruct kd; try discriminate. apply color_eqb_eq in F. subst col.
    apply at_piece in E; try assumption; [|lia]. change (code_of_kind K) with King in E.
    apply Hbit in E. f_equal. lia.
  - exfalso. apply find_none with (x := N.to_nat k) in F; [|apply in_all_squares; lia].
    rewrite (proj2 (at_piece pos k c K HI Hk Hc)) in F; [|now apply Hbit].
    destruct (color_of c); discriminate.
Qed.

Theorem is_checked_iff : forall pos c, Inv pos -> (c = 0 \/ c = 1) -> popcount (pget pos c King) = 1 ->
  is_checked pos c = in_check (brd (abs_pos pos)) (color_of c).
Proof.
  intros pos c HI Hc H1. destruct (king_square_unique pos c HI Hc H1) as [Hk Hks].
  unfold is_checked, in_check. rewrite Hks.
  destruct (N.eqb_spec (ctz (pget pos c King)) 64) as [E|E]; [lia|].
  now apply is_attacked_iff.
Qed.
Print Assumptions is_checked_iff.
