(** C05, part 5: the potential function behind [window_complete].  Every piece weighs 16, a pawn in addition
    the number of steps (plus one) it still has to go.  No move increases the total; every capture and every
    pawn move (push, double step, promotion, en passant) strictly decreases it.  Hence two equal positions
    of one game have no pawn move or capture between them. *)
From Coq Require Import NArith ZArith List Bool Lia ZifyBool ZifyNat ZifyN.
From Morlock.Model Require Import Bits Attacks Move Position Abs.
From Morlock.Lemmas Require Import PositionLemmas MoveRefines1 MoveRefines2 MoveRefines4 MoveGen7.
Import ListNotations.
Open Scope N_scope.

Ltac Zify.zify_post_hook ::= Z.div_mod_to_equations.

Definition wt (s : N) (x : option (N * N)) : nat :=
  match x with
  | None => 0
  | Some (c, pc) =>
      if pc =? Pawn then (if c =? White then (24 - N.to_nat (s / 8))%nat else (17 + N.to_nat (s / 8))%nat) else 16%nat
  end.

Fixpoint wsum (f : sqfun) (l : list N) : nat :=
  match l with [] => 0 | s :: r => (wt s (f s) + wsum f r)%nat end.
Definition Wf (f : sqfun) : nat := wsum f (seqN 64).
(** the potential of a position *)
Definition potential (p : position) : nat := Wf (square p).

Lemma wsum_ext f g l : (forall s, In s l -> f s = g s) -> wsum f l = wsum g l.
Proof.
  induction l as [|a l IH]; intros H; [reflexivity|]. cbn [wsum].
  rewrite (H a (or_introl eq_refl)), IH; [reflexivity|]. intros s Hs. apply H. now right.
Qed.

Lemma Wf_ext f g : (forall s, s < 64 -> f s = g s) -> Wf f = Wf g.
Proof. intros H. apply wsum_ext. intros s Hs. apply H. now apply in_seqN64. Qed.

Lemma wsum_fupd_notin f a v l : ~ In a l -> wsum (fupd f a v) l = wsum f l.
Proof.
  intros H. apply wsum_ext. intros s Hs. unfold fupd. destruct (N.eqb_spec s a); [subst; contradiction|reflexivity].
Qed.

Lemma wsum_fupd f a v l : NoDup l -> In a l ->
  (wsum (fupd f a v) l + wt a (f a) = wsum f l + wt a v)%nat.
Proof.
  induction 1 as [|x l Hx Hnd IH]; intros Hin; [destruct Hin|]. cbn [wsum].
  destruct Hin as [->|Hin].
  - rewrite (wsum_fupd_notin f a v l Hx). unfold fupd at 1. rewrite N.eqb_refl. lia.
  - specialize (IH Hin). unfold fupd at 1.
    destruct (N.eqb_spec x a) as [->|Hne]; [contradiction|]. lia.
Qed.

Lemma Wf_fupd f a v : a < 64 -> (Wf (fupd f a v) + wt a (f a) = Wf f + wt a v)%nat.
Proof. intros Ha. apply wsum_fupd; [apply NoDup_seqN|now apply in_seqN64]. Qed.

Definition rem_w (e : edit) : nat := match e with Rem sq c p => wt sq (Some (c, p)) | Add _ _ _ => 0 end.
Definition add_w (e : edit) : nat := match e with Add sq c p => wt sq (Some (c, p)) | Rem _ _ _ => 0 end.
Fixpoint tot (w : edit -> nat) (l : list edit) : nat := match l with [] => 0 | e :: r => (w e + tot w r)%nat end.

Lemma Wf_edits : forall l f, edits_ok f l ->
  (Wf (fold_left edit_fun l f) + tot rem_w l = Wf f + tot add_w l)%nat.
Proof.
  induction l as [|e r IH]; intros f Hok; [cbn; lia|].
  destruct Hok as [H1 H2]. cbn [fold_left tot]. specialize (IH _ H2).
  destruct e as [sq c p|sq c p]; cbn [edit_fun edit_ok rem_w add_w] in *.
  - destruct H1 as [Hs Hf]. pose proof (Wf_fupd f sq None Hs) as E. rewrite Hf in E. change (wt sq None) with 0%nat in E. lia.
  - destruct H1 as [Hs [Hf _]]. pose proof (Wf_fupd f sq (Some (c, p)) Hs) as E. rewrite Hf in E. change (wt sq None) with 0%nat in E. lia.
Qed.

Lemma wt_bounds s c pc : s < 64 -> (16 <= wt s (Some (c, pc)) <= 24)%nat.
Proof.
  intros Hs. unfold wt. assert (N.to_nat (s / 8) <= 7)%nat by lia.
  destruct (pc =? Pawn); [destruct (c =? White)|]; lia.
Qed.

Lemma wt_nonpawn s c pc : pc <> Pawn -> wt s (Some (c, pc)) = 16%nat.
Proof. intros H. unfold wt. destruct (N.eqb_spec pc Pawn); [contradiction|reflexivity]. Qed.

Lemma wt_pawn_ge s c : s < 64 -> (17 <= wt s (Some (c, Pawn)) <= 24)%nat.
Proof.
  intros Hs. unfold wt. assert (N.to_nat (s / 8) <= 7)%nat by lia. rewrite N.eqb_refl.
  destruct (c =? White); lia.
Qed.

Lemma officer_not_pawn pc : is_officer pc -> pc <> Pawn.
Proof. intros [->|[->|[->| ->]]]; discriminate. Qed.

(** the potential after a move, from the edit list of the move *)
Lemma potential_move p turn m p' : Inv p -> Shape p turn m -> pos_move p m = Some p' ->
  (potential p' + tot rem_w (move_edits m turn (mpiece m)) =
   potential p + tot add_w (move_edits m turn (mpiece m)))%nat.
Proof.
  intros HI Hsh Hmv.
  destruct (shape_move_result _ _ _ _ HI Hsh Hmv) as [ret [-> [_ [Hsq _]]]].
  pose proof (Wf_edits _ _ (shape_edits_ok _ _ _ HI Hsh)) as E.
  unfold potential. rewrite (Wf_ext (square (move_fields p ret m)) (fold_left edit_fun (move_edits m turn (mpiece m)) (square p))).
  - exact E.
  - intros s Hs. unfold move_fields. rewrite square_set_fields. now apply Hsq.
Qed.

Theorem potential_step_shape p turn m p' : Inv p -> Shape p turn m -> pos_move p m = Some p' ->
  (potential p' <= potential p)%nat /\
  ((mtype m =? Normal) || is_castle m = false -> (potential p' < potential p)%nat).
Proof.
  intros HI Hsh Hmv. pose proof (potential_move p turn m p' HI Hsh Hmv) as E.
  pose proof (shape_edits_ok _ _ _ HI Hsh) as Hok.
  destruct Hsh as [Ht Hf Hto Ho Hk]. destruct m as [ty fr to pc pr cap]. cbn [mtype mfrom mto mpiece mpromo mcapture] in *.
  destruct Hk as [Hty Hvpc Hnp Hd Hks | Hty Hvpc Hd Hnk Hks Hpw | Hty Hpc Hd Hrel Hlr | Hty Hpc Hd Hrel Hmid
                 | Hty Hpc Hd Hrel Hlr Hoff | Hty Hpc Hd Hnk Hrel Hlr Hoff | Hty Hpc Hte Hne Hd Hrel Hrk Hcap
                 | Hty Hpc Hfr Htoe H1 H2 H3 | Hty Hpc Hfr Htoe H1 H2 H3];
  cbn [mtype mfrom mto mpiece mpromo mcapture] in *; subst ty;
  unfold move_edits, is_capture, is_promotion, is_castle in E, Hok |- *; cbn [mtype mfrom mto mpiece mpromo mcapture] in E, Hok |- *;
  cbn [N.eqb Pos.eqb Normal Push Jump EnPassant QueenSideCastle KingSideCastle Capture Promotion CapturePromotion orb app] in E, Hok |- *;
  cbn [tot rem_w add_w] in E.
  - (* normal *) rewrite !(wt_nonpawn _ _ pc Hnp) in E. split; [lia|discriminate].
  - (* capture *)
    pose proof (wt_bounds fr turn pc Hf). pose proof (wt_bounds to turn pc Hto). pose proof (wt_bounds to (opponent turn) cap Hto).
    split; [lia|intros _; lia].
  - (* push *) subst pc. unfold wt in E. rewrite !N.eqb_refl in E. unfold pawn_push_rel in Hrel.
    destruct Ht as [->| ->]; cbn [N.eqb White] in *; split; try (intros _); lia.
  - (* jump *) subst pc. unfold wt in E. rewrite !N.eqb_refl in E. unfold pawn_jump_rel in Hrel.
    destruct Ht as [->| ->]; cbn [N.eqb White] in *; split; try (intros _); lia.
  - (* promotion *) subst pc. rewrite (wt_nonpawn to turn pr (officer_not_pawn _ Hoff)) in E.
    pose proof (wt_pawn_ge fr turn Hf). split; [lia|intros _; lia].
  - (* capture promotion *) subst pc. rewrite (wt_nonpawn to turn pr (officer_not_pawn _ Hoff)) in E.
    pose proof (wt_pawn_ge fr turn Hf). pose proof (wt_bounds to (opponent turn) cap Hto).
    split; [lia|intros _; lia].
  - (* en passant *) subst pc.
    cbn [edits_ok edit_ok edit_fun] in Hok. destruct Hok as [_ [_ [[Hes _] _]]].
    pose proof (wt_pawn_ge fr turn Hf). pose proof (wt_pawn_ge to turn Hto).
    pose proof (wt_pawn_ge _ (opponent turn) Hes).
    split; [lia|intros _; lia].
  - (* king-side castling *) subst pc.
    assert (WK : forall s, wt s (Some (turn, King)) = 16%nat) by (intros; apply wt_nonpawn; discriminate).
    assert (WR : forall s, wt s (Some (turn, Rook)) = 16%nat) by (intros; apply wt_nonpawn; discriminate).
    rewrite !WK, !WR in E.
    split; [lia|discriminate].
  - (* queen-side castling *) subst pc.
    assert (WK : forall s, wt s (Some (turn, King)) = 16%nat) by (intros; apply wt_nonpawn; discriminate).
    assert (WR : forall s, wt s (Some (turn, Rook)) = 16%nat) by (intros; apply wt_nonpawn; discriminate).
    rewrite !WK, !WR in E.
    split; [lia|discriminate].
Qed.

(** 4. the hypothesis [W_step] of GameLemmas3/4/6, for [potential] *)
Theorem potential_step : forall p t m p', wf_b p t = true -> vcol t -> In m (pseudo_legal_moves p t) ->
  pos_move p m = Some p' ->
  (potential p' <= potential p)%nat /\
  ((mtype m =? Normal) || is_castle m = false -> (potential p' < potential p)%nat).
Proof.
  intros p t m p' Hwf Ht Hin Hmv.
  apply (potential_step_shape p t m p' (wf_inv _ _ (wf_b_WF _ _ Hwf)) (pseudo_shape p t m Hwf Hin) Hmv).
Qed.

Print Assumptions potential_step.
