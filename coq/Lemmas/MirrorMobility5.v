(** MirrorMobility5 — C20, mobility under the colour mirror, part 5: every pseudo-legal move has the [shape]
    required by [pos_move_mirror] (origin holds a piece of the mover, valid capture / promotion codes, an
    en-passant move lands on the en-passant square), under [Inv] and an en-passant square on rank 3 or 6. *)
From Coq Require Import NArith ZArith List Bool Lia ZifyBool ZifyNat ZifyN Permutation.
From Morlock.Model Require Import Bits Attacks Move Position Abs Search Fen Engines.
From Morlock.Spec Require Import Chess.
From Morlock.Lemmas Require Import PositionLemmas AttackGeometry1 AttackGeometry3 AttackGeometry_Extra MoveGen2 MoveGen3 MoveGen4 MoveGen7
     EnginesLemmas5 EnginesLemmas6 EnginesLemmas7 EnginesLemmas8 EnginesLemmas9
     MirrorMobility1 MirrorMobility2 MirrorMobility3 MirrorMobility4.
Import ListNotations.
Open Scope N_scope.

(** the en-passant square, if any, is on rank 3 or rank 6 (ranks 2 and 5 counted from 0) *)
Definition ep_rank_ok (p : position) : Prop :=
  enpassant p = 0 \/ sq_rank (enpassant p) = 2 \/ sq_rank (enpassant p) = 5.

Section Shape.
  Variables (p : position) (c : N).
  Hypothesis HI : Inv p.
  Hypothesis Hc : c = 0 \/ c = 1.
  Hypothesis Hep : ep_rank_ok p.

  Lemma shape_mk t from to piece promo cap :
    from < 64 -> to < 64 -> 1 <= piece <= 6 -> N.testbit (pget p c piece) from = true ->
    ((t =? CapturePromotion) || (t =? Capture) = true -> 1 <= cap <= 6) ->
    ((t =? CapturePromotion) || (t =? Promotion) = true -> 1 <= promo <= 5 /\ piece <> King) ->
    (t = EnPassant -> sq_rank to = 2 \/ sq_rank to = 5) ->
    shape p c (mkMove t from to piece promo cap).
  Proof.
    intros Hf Ht Hp Hb Hcap Hpr Hepm. constructor; cbn [mfrom mto mpiece mpromo mcapture mtype].
    - exact Hf.
    - exact Ht.
    - now apply pbit_square.
    - exact Hcap.
    - intros H. exact (proj1 (Hpr H)).
    - intros E. unfold is_promotion. cbn [mtype]. revert Hpr.
      destruct ((t =? CapturePromotion) || (t =? Promotion)); intros Hpr; [|reflexivity].
      exfalso. exact (proj2 (Hpr eq_refl) E).
    - exact Hepm.
  Qed.

  Lemma capture_at_valid to : to < 64 -> N.testbit (opp_all p c) to = true -> 1 <= capture_at p to c <= 6.
  Proof.
    intros Hto Hb. unfold opp_all in Hb. apply (Inv_union_some p (opponent c) to HI (vcol_opponent c)) in Hb as [pc [Hpc Hbit]].
    unfold capture_at. rewrite (first_piece_of_bit p (opponent c) to pc HI Hto (vcol_opponent c) Hpc Hbit). exact Hpc.
  Qed.

  Lemma own_word : own_mask p c < 2 ^ 64.
  Proof. apply not64_word. Qed.

  (** a stepping / sliding piece, or the king *)
  Lemma shape_step piece from ab0 m : from < 64 -> 1 <= piece <= 6 -> N.testbit (pget p c piece) from = true ->
    In m (step_moves p c piece from ab0) -> shape p c m.
  Proof.
    intros Hf Hp Hb Hin. unfold step_moves in Hin. cbv zeta in Hin. apply in_app_or in Hin as [Hin|Hin];
      apply emit_move_in in Hin as [to [Hto ->]].
    - pose proof (word_tb_lt _ _ (land_word_l _ _ (land_word_r ab0 _ own_word)) Hto) as Hto'.
      apply shape_mk; try assumption; try (intros H; discriminate H).
    - pose proof (word_tb_lt _ _ (land_word_l _ _ (land_word_r ab0 _ own_word)) Hto) as Hto'.
      rewrite N.land_spec in Hto. apply andb_true_iff in Hto as [_ Hoa].
      apply shape_mk; try assumption; try (intros H; discriminate H).
      intros _. change (Capture =? Capture) with true. cbv iota. now apply capture_at_valid.
  Qed.

  Lemma shape_officer m : In m (officer_moves p c) -> shape p c m.
  Proof.
    intros Hin. apply officer_moves_in in Hin as [k [from [_ [_ [Hb Hin]]]]].
    pose proof (word_tb_lt _ _ (pget_word p c _ HI) Hb) as Hf.
    apply (shape_step _ from _ m Hf (vpc_code k) Hb Hin).
  Qed.

  Lemma QRNB_range pc : In pc QueenRookKnightBishop -> 1 <= pc <= 5.
  Proof. unfold QueenRookKnightBishop. cbn [In]. unfold Queen, Rook, Knight, Bishop. lia. Qed.

  Lemma shape_pawn m : In m (pawn_moves p c) -> shape p c m.
  Proof.
    intros Hin. unfold pawn_moves in Hin. apply in_flat_map in Hin as [from [Hfb Hin]].
    apply bits_asc_spec in Hfb. pose proof (word_tb_lt _ _ (pget_word p c Pawn HI) Hfb) as Hf.
    assert (HP : 1 <= Pawn <= 6) by (unfold Pawn; lia).
    unfold pawn_moves_from in Hin. cbv zeta in Hin.
    set (cb := N.land (pawn_captureboard c (bitmask from)) (own_mask p c)) in *.
    assert (Hcb : cb < 2 ^ 64) by (apply land_word_r, own_word).
    set (pb := pawn_moveboard (all_bb p) c (bitmask from)) in *.
    assert (Hpb : pb < 2 ^ 64) by apply pawn_moveboard_word.
    apply in_app_or in Hin as [Hin|Hin].
    { (* capture *)
      apply emit_move_in in Hin as [to [Hto ->]].
      pose proof (word_tb_lt _ _ (andnot_word _ _ (land_word_l _ _ Hcb)) Hto) as Hto'.
      rewrite MoveGen4.tb_andnot, N.land_spec, !andb_true_iff in Hto. destruct Hto as [[_ Hoa] _].
      apply shape_mk; try assumption; try (intros H; discriminate H).
      intros _. change (Capture =? Capture) with true. cbv iota. now apply capture_at_valid. }
    apply in_app_or in Hin as [Hin|Hin].
    { (* push *)
      apply emit_move_in in Hin as [to [Hto ->]].
      pose proof (word_tb_lt _ _ (andnot_word _ _ Hpb) Hto) as Hto'.
      apply shape_mk; try assumption; try (intros H; discriminate H). }
    apply in_app_or in Hin as [Hin|Hin].
    { (* jump *)
      apply emit_move_in in Hin as [to [Hto ->]].
      pose proof (word_tb_lt _ _ (land_word_l _ _ (pawn_moveboard_word (all_bb p) c pb)) Hto) as Hto'.
      apply shape_mk; try assumption; try (intros H; discriminate H). }
    apply in_app_or in Hin as [Hin|Hin].
    { (* capture with promotion *)
      apply emit_promo_in in Hin as [to [pc [Hto [Hpc ->]]]].
      pose proof (word_tb_lt _ _ (land_word_l _ _ (land_word_l _ _ Hcb)) Hto) as Hto'.
      rewrite !N.land_spec, !andb_true_iff in Hto. destruct Hto as [[_ Hoa] _].
      apply shape_mk; try assumption; try (intros H; discriminate H).
      - intros _. change (CapturePromotion =? CapturePromotion) with true. cbv iota. now apply capture_at_valid.
      - intros _. split; [now apply QRNB_range|discriminate]. }
    apply in_app_or in Hin as [Hin|Hin].
    { (* promotion *)
      apply emit_promo_in in Hin as [to [pc [Hto [Hpc ->]]]].
      pose proof (word_tb_lt _ _ (land_word_l _ _ Hpb) Hto) as Hto'.
      apply shape_mk; try assumption; try (intros H; discriminate H).
      intros _. split; [now apply QRNB_range|discriminate]. }
    (* en passant *)
    destruct (N.eqb_spec (enpassant p) 0) as [E0|E0]; cbn [negb] in Hin; [destruct Hin|].
    apply emit_move_in in Hin as [to [Hto ->]].
    rewrite N.land_spec, AttackGeometry1.tb_bitmask, !andb_true_iff in Hto. destruct Hto as [_ [Hto' Heq]].
    apply N.ltb_lt in Hto'. apply N.eqb_eq in Heq. subst to.
    apply shape_mk; try assumption; try (intros H; discriminate H).
    intros _. destruct Hep as [E|E]; [contradiction|exact E].
  Qed.

  Lemma shape_castle from right mask rooksq t dst m : from < 64 -> N.testbit (pget p c King) from = true ->
    dst < 64 -> (t = KingSideCastle \/ t = QueenSideCastle) ->
    In m (castle_emit p c from right mask rooksq t dst) -> shape p c m.
  Proof.
    intros Hf Hb Hd Ht Hin.
    apply castle_emit_in in Hin; [|exact Hd|destruct Ht as [-> | ->]; reflexivity].
    destruct Hin as [_ [_ [_ ->]]].
    apply shape_mk; try assumption; try (unfold King; lia);
      destruct Ht as [-> | ->]; intros H; discriminate H.
  Qed.

  Lemma shape_king m : In m (king_moves p c) -> shape p c m.
  Proof.
    intros Hin. unfold king_moves in Hin. cbv zeta in Hin.
    destruct (N.eqb_spec (pget p c King) 0) as [E0|E0]; [destruct Hin|].
    destruct (ctz_spec _ E0) as [Hb _]. pose proof (ctz_lt64 _ E0 (pget_word p c King HI)) as Hf.
    apply in_app_or in Hin as [Hin|Hin].
    - apply (shape_step King _ _ m Hf ltac:(unfold King; lia) Hb Hin).
    - unfold castle_emits in Hin. destruct (c =? White); apply in_app_or in Hin as [Hin|Hin];
        (eapply shape_castle; [exact Hf|exact Hb| |  |exact Hin]; [vm_compute; reflexivity|auto]).
  Qed.

  (** every pseudo-legal move has the shape *)
  Theorem pseudo_legal_shape m : In m (pseudo_legal_moves p c) -> shape p c m.
  Proof.
    rewrite pseudo_legal_split. intros Hin. apply in_app_or in Hin as [Hin|Hin]; [now apply shape_officer|].
    apply in_app_or in Hin as [Hin|Hin]; [now apply shape_pawn|now apply shape_king].
  Qed.
End Shape.

Print Assumptions pseudo_legal_shape.
