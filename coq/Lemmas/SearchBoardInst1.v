(** The search contract on the real board, part 1: the game tree of the heap board and the
    representation relation.

    Nodes of the tree are the abstract (list) boards [aboard] of BoardHeap1, the result field included:
    [bdrawn p] is "the result flag of [p] says Draw".  A child is obtained by the abstract push from the
    parent with its result RESET ([norm]): this is what the search does (it only pushes from boards whose
    flag was reset by a pop, cleared at the root, or is not a draw), and it matters because PushMove
    INHERITS the result of the parent (finding [sticky_draw] in SearchBoardInst5).

    [At p g] : the heap board [g] stands at node [p], whatever its result flag (wf, equal abstraction up to
               the result, game invariant [GInv]); a Checkmate/Stalemate flag must be truthful (no legal
               move), since PushMove refuses every move under such a flag.

    The laws of Lemmas/SearchContract.v are proved for [gb_push'], which resets an (unblocked) Draw flag
    before pushing; part 3 shows that [search_board] never pushes from a board with such a flag, so the
    two runs coincide.  With the literal [gb_push] the laws H_push_some + H_pop are unsatisfiable for ANY
    choice of tree and [At] (a child pushed from a Draw-flagged board inherits the flag, a child pushed
    after the pop does not). *)
From Coq Require Import NArith ZArith List Bool Lia ZifyBool ZifyNat ZifyN.
From Morlock.Model Require Import Bits Score Attacks Move Position Zobrist Board Search TT SearchBoard Abs.
From Morlock.Lemmas Require Import PositionLemmas BoardHeap1 BoardHeap2 BoardHeap3
     MoveRefines1 MoveRefines2 MoveRefines4 MoveRefines.
Import ListNotations.
Open Scope Z_scope.

(** * 1. castling bookkeeping *)

Definition rights_of (c : N) : N := if (c =? White)%N then 3%N else 12%N.

Lemma allowed_sub ca r R : is_allowed ca r = true -> N.land r R = r -> N.land ca R <> 0%N.
Proof.
  unfold is_allowed. intros H Hr E.
  assert (Hz : N.land ca r = 0%N) by (rewrite <- Hr, (N.land_comm r R), N.land_assoc, E; apply N.land_0_l).
  rewrite Hz in H. discriminate H.
Qed.

Lemma castle_right_held p turn m : (turn = 0 \/ turn = 1)%N -> In m (pseudo_legal_moves p turn) ->
  is_castle m = true -> N.land (castling p) (rights_of turn) <> 0%N.
Proof.
  intros Ht Hin Hc. unfold pseudo_legal_moves in Hin. cbv zeta in Hin.
  apply in_app_iff in Hin as [Hin|Hin]; [|apply in_app_iff in Hin as [Hin|Hin]].
  - apply in_flat_map in Hin as [piece [_ Hin]]. apply in_flat_map in Hin as [from [_ Hin]].
    apply in_app_iff in Hin as [Hin|Hin]; apply in_emit_move in Hin as [to [_ ->]]; discriminate Hc.
  - apply in_flat_map in Hin as [from [_ Hin]].
    apply in_app_iff in Hin as [Hin|Hin]; [|apply in_app_iff in Hin as [Hin|Hin]; [|apply in_app_iff in Hin as [Hin|Hin];
      [|apply in_app_iff in Hin as [Hin|Hin]; [|apply in_app_iff in Hin as [Hin|Hin]]]]].
    + apply in_emit_move in Hin as [to [_ ->]]; discriminate Hc.
    + apply in_emit_move in Hin as [to [_ ->]]; discriminate Hc.
    + apply in_emit_move in Hin as [to [_ ->]]; discriminate Hc.
    + apply in_emit_promo in Hin as [to [pc [_ [_ ->]]]]; discriminate Hc.
    + apply in_emit_promo in Hin as [to [pc [_ [_ ->]]]]; discriminate Hc.
    + destruct (negb (enpassant p =? 0)%N); [|destruct Hin].
      apply in_emit_move in Hin as [to [_ ->]]; discriminate Hc.
  - destruct (pget p turn King =? 0)%N; [destruct Hin|].
    apply in_app_iff in Hin as [Hin|Hin]; [|apply in_app_iff in Hin as [Hin|Hin]].
    + apply in_emit_move in Hin as [to [_ ->]]; discriminate Hc.
    + apply in_emit_move in Hin as [to [_ ->]]; discriminate Hc.
    + unfold rights_of. destruct Ht as [-> | ->]; cbn [N.eqb White Pos.eqb] in *.
      * apply in_app_iff in Hin as [Hin|Hin].
        -- destruct (is_allowed (castling p) WhiteKingSideCastle) eqn:A; [|destruct Hin].
           apply (allowed_sub _ _ _ A). reflexivity.
        -- destruct (is_allowed (castling p) WhiteQueenSideCastle) eqn:A; [|destruct Hin].
           apply (allowed_sub _ _ _ A). reflexivity.
      * apply in_app_iff in Hin as [Hin|Hin].
        -- destruct (is_allowed (castling p) BlackKingSideCastle) eqn:A; [|destruct Hin].
           apply (allowed_sub _ _ _ A). reflexivity.
        -- destruct (is_allowed (castling p) BlackQueenSideCastle) eqn:A; [|destruct Hin].
           apply (allowed_sub _ _ _ A). reflexivity.
Qed.

Lemma ldiff_land_zero ca L R : N.land ca R = 0%N -> N.land (N.ldiff ca L) R = 0%N.
Proof.
  intros H. apply N.bits_inj. intros i. rewrite N.land_spec, N.ldiff_spec, N.bits_0.
  assert (Hi : N.testbit (N.land ca R) i = false) by (rewrite H; apply N.bits_0).
  rewrite N.land_spec in Hi. destruct (N.testbit ca i), (N.testbit R i), (N.testbit L i); cbn in *; congruence.
Qed.

Lemma ldiff_sub_zero ca L R : N.land L R = R -> N.land (N.ldiff ca L) R = 0%N.
Proof.
  intros H. apply N.bits_inj. intros i. rewrite N.land_spec, N.ldiff_spec, N.bits_0.
  assert (Hi : N.testbit (N.land L R) i = N.testbit R i) by (rewrite H; reflexivity).
  rewrite N.land_spec in Hi. destruct (N.testbit ca i), (N.testbit R i), (N.testbit L i); cbn in *; congruence.
Qed.

Lemma castle_rights_cleared p turn m ca : Shape p turn m -> is_castle m = true ->
  N.land (andnot ca (castling_rights_lost m)) (rights_of turn) = 0%N.
Proof.
  intros [Ht Hf Hto Ho Hk] Hc. unfold andnot. apply ldiff_sub_zero.
  destruct m as [ty fr to pc pr cap]. cbn [mtype mfrom mto mpiece mpromo mcapture] in *.
  unfold is_castle in Hc. cbn [mtype] in Hc.
  destruct Hk as [Hty|Hty|Hty|Hty|Hty|Hty|Hty|Hty Hpc Hfr Htoe _ _ _|Hty Hpc Hfr Htoe _ _ _];
    cbn [mtype mfrom mto mpiece mpromo mcapture] in *; subst ty; try discriminate Hc;
    subst fr to; destruct Ht as [-> | ->]; vm_compute; reflexivity.
Qed.

(** * 2. the tree *)

Definition neutral_result : result := mkResult Undecided NoReason.
Definition norm (a : aboard) : aboard := aset_result a neutral_result.
Definition acastled (a : aboard) (c : N) : bool := if (c =? White)%N then a_cw a else a_cb a.

(** the game invariant, on abstract boards *)
Definition GInv (a : aboard) : Prop :=
  (a_turn a = White \/ a_turn a = Black) /\
  wf_b (a_position a) (a_turn a) = true /\
  (forall c, (c = White \/ c = Black) -> acastled a c = true ->
             N.land (castling (a_position a)) (rights_of c) = 0%N).

Lemma aeq_nr_fields a a' : aeq_nr a a' ->
  a_position a = a_position a' /\ a_turn a = a_turn a' /\ a_hash a = a_hash a' /\
  a_noprogress a = a_noprogress a' /\ a_cw a = a_cw a' /\ a_cb a = a_cb a' /\ a_nexts a = a_nexts a'.
Proof.
  intros (_ & Hcw & Hcb & _ & _ & Ht & Hd & Hn). unfold a_position, a_hash, a_noprogress. rewrite Hd. auto 10.
Qed.

Lemma GInv_congr a a' : aeq_nr a a' -> GInv a -> GInv a'.
Proof.
  intros H (G1 & G2 & G3). destruct (aeq_nr_fields _ _ H) as (Ep & Et & _ & _ & Ecw & Ecb & _).
  unfold GInv, acastled in *. rewrite <- Ep, <- Et, <- Ecw, <- Ecb. auto.
Qed.

Lemma norm_aeq_nr a : aeq_nr (norm a) a.
Proof. repeat split; reflexivity. Qed.
Lemma norm_idem a : norm (norm a) = norm a.
Proof. reflexivity. Qed.

Definition move_mem (m : move) (l : list move) : bool := existsb (move_eqb m) l.
Lemma move_eqb_refl m : move_eqb m m = true.
Proof. unfold move_eqb. rewrite !N.eqb_refl. reflexivity. Qed.
Lemma move_mem_in m l : move_mem m l = true <-> In m l.
Proof.
  split; [apply in_of_existsb|]. intros H. apply existsb_exists. exists m. split; [assumption|apply move_eqb_refl].
Qed.

Section Tree.
  Variable z : ztable.
  Notation apush := (apush_with zmove update_noprogress true has_insufficient_material z).

  Definition bdrawn (p : aboard) : bool := (outcome (a_result p) =? Draw)%N.
  Definition real_moves (p : aboard) : list move := pseudo_legal_moves (a_position p) (a_turn p).
  Definition bmoves (p : aboard) : list move := real_moves p.
  Definition bchild_raw (p : aboard) (m : move) : option aboard :=
    let (a1, ok) := apush (norm p) m in if ok then Some a1 else None.
  (** children: accepted pseudo-legal moves *)
  Definition bchild (p : aboard) (m : move) : option aboard :=
    if move_mem m (bmoves p) then bchild_raw p m else None.
  Definition bmated (p : aboard) : bool := is_checked (a_position p) (a_turn p).
  Definition msum (pos : position) (turn : N) : Z :=
    fold_left (fun acc p => acc + (Z.of_N (popcount (pget pos turn p)) - Z.of_N (popcount (pget pos (opponent turn) p))) * nominal_value p)
              [Pawn; Bishop; Knight; Rook; Queen; King] 0.
  Definition mbound : Z := 7744.
  Definition mclamp (v : Z) : Z := Z.max (- mbound) (Z.min mbound v).
  Definition bleaf (p : aboard) : Z := f32_of_int (mclamp (msum (a_position p) (a_turn p))).
  Definition bex (p c : aboard) (m : move) : bool := true.
  Definition bqex (p c : aboard) (m : move) : bool := is_capture_or_ep m.
  Definition bhash (p : aboard) : N := a_hash p.

  (** ** the abstract push, spelled out *)
  Lemma apush_inv a m c ok : apush a m = (c, ok) ->
    (ok = false /\ c = a /\ (blocked (a_result a) = true \/ pos_move (a_position a) m = None)) \/
    (ok = true /\ blocked (a_result a) = false /\ exists next,
       pos_move (a_position a) m = Some next /\ a_position c = next /\ a_turn c = opponent (a_turn a) /\
       a_cw c = (if is_castle m && (a_turn a =? White)%N then true else a_cw a) /\
       a_cb c = (if is_castle m && negb (a_turn a =? White)%N then true else a_cb a) /\
       a_nexts c = m :: a_nexts a /\ blocked (a_result c) = false /\
       (outcome (a_result a) <> Draw ->
        bdrawn c = bdrawn (fst (apush (norm a) m)))).
  Proof.
    unfold apush_with. destruct (blocked (a_result a)) eqn:Eb.
    { intros H. injection H as <- <-. left. auto. }
    change (blocked (a_result (norm a))) with false. cbn iota.
    change (a_position (norm a)) with (a_position a). change (a_hash (norm a)) with (a_hash a).
    change (a_noprogress (norm a)) with (a_noprogress a).
    destruct (pos_move (a_position a) m) as [next|] eqn:Ep.
    2:{ intros H. injection H as <- <-. left. auto. }
    intros H. injection H as <- <-. right. split; [reflexivity|]. split; [reflexivity|].
    exists next. split; [reflexivity|]. cbn [a_position a_turn a_cw a_cb a_nexts a_data hd fst snd a_result norm aset_result a_reps].
    repeat (split; [reflexivity|]). split.
    - repeat match goal with |- context [if ?b then _ else _] => destruct b end; try reflexivity; exact Eb.
    - intros Hnd. unfold bdrawn. cbn [fst a_result neutral_result outcome].
      repeat match goal with |- context [if ?b then _ else _] => destruct b end; try reflexivity.
      all: cbn [outcome neutral_result]; destruct (N.eqb_spec (outcome (a_result a)) Draw); [contradiction|reflexivity].
  Qed.

  Lemma bchild_raw_some p m c : bchild_raw p m = Some c -> apush (norm p) m = (c, true).
  Proof. unfold bchild_raw. destruct (apush (norm p) m) as [a1 [|]]; intros H; [injection H as <-; reflexivity|discriminate H]. Qed.
  Lemma bchild_raw_none p m : bchild_raw p m = None -> pos_move (a_position p) m = None.
  Proof.
    unfold bchild_raw. destruct (apush (norm p) m) as [a1 ok] eqn:E. destruct ok; [intros H; discriminate H|intros _].
    destruct (apush_inv _ _ _ _ E) as [(_ & _ & [Hb|Hp])|(Ho & _)]; [discriminate Hb|exact Hp|discriminate Ho].
  Qed.
  Lemma bchild_raw_none_intro p m : pos_move (a_position p) m = None -> bchild_raw p m = None.
  Proof.
    intros Hp. unfold bchild_raw. destruct (apush (norm p) m) as [a1 ok] eqn:E. destruct ok; [|reflexivity].
    destruct (apush_inv _ _ _ _ E) as [(Ho & _)|(_ & _ & next & Hn & _)]; [discriminate Ho|].
    change (a_position (norm p)) with (a_position p) in Hn. congruence.
  Qed.

  (** ** the game invariant is preserved by accepted pseudo-legal moves *)
  Lemma acastle_ok_GInv p m : GInv p -> In m (real_moves p) -> acastle_ok (norm p) m.
  Proof.
    intros (Gt & Gw & Gc) Hin Hc. change (acastled p (a_turn p) = false).
    destruct (acastled p (a_turn p)) eqn:E; [|reflexivity]. exfalso.
    apply (castle_right_held _ _ _ Gt Hin Hc). apply Gc; assumption.
  Qed.

  Lemma apush_GInv p m c : GInv p -> In m (real_moves p) -> apush (norm p) m = (c, true) -> GInv c.
  Proof.
    intros (Gt & Gw & Gc) Hin H.
    destruct (apush_inv _ _ _ _ H) as [(E & _)|(_ & _ & next & Hpm & Hpos & Hturn & Hcw & Hcb & _)]; [discriminate E|].
    change (a_position (norm p)) with (a_position p) in *. change (a_turn (norm p)) with (a_turn p) in *.
    change (a_cw (norm p)) with (a_cw p) in *. change (a_cb (norm p)) with (a_cb p) in *.
    destruct (wf_b_elim _ _ Gw) as [HI _]. pose proof (pseudo_shape _ _ _ Gw Hin) as Hsh.
    split; [rewrite Hturn; apply opponent_ok|]. split.
    - rewrite Hpos, Hturn. eapply move_wf; eassumption.
    - intros col Hcol Hcas. rewrite Hpos.
      destruct (castling_rights_spec _ _ _ _ HI Gw Hin Hpm) as [-> _].
      assert (Hold : acastled p col = true -> N.land (andnot (castling (a_position p)) (castling_rights_lost m)) (rights_of col) = 0%N).
      { intros Ho. apply ldiff_land_zero. apply Gc; assumption. }
      assert (Hnew : is_castle m = true -> a_turn p = col ->
                     N.land (andnot (castling (a_position p)) (castling_rights_lost m)) (rights_of col) = 0%N).
      { intros Hc <-. eapply castle_rights_cleared; eassumption. }
      unfold acastled in Hcas, Hold. rewrite Hcw, Hcb in Hcas.
      destruct Hcol as [-> | ->]; cbn [N.eqb White Black Pos.eqb] in Hcas, Hold.
      + destruct (is_castle m); cbn [andb] in Hcas; [|auto].
        destruct (N.eqb_spec (a_turn p) White) as [Et|Et]; [apply Hnew; auto|auto].
      + destruct (is_castle m); cbn [andb] in Hcas; [|auto].
        destruct (N.eqb_spec (a_turn p) White) as [Et|Et]; cbn [negb] in Hcas; [auto|].
        apply Hnew; [reflexivity|]. destruct Gt as [Gt|Gt]; [contradiction|exact Gt].
  Qed.

  (** * 3. the representation relation *)
  Definition no_legal (p : aboard) : Prop := forall m, In m (real_moves p) -> pos_move (a_position p) m = None.
  Definition BAt (p : aboard) (g : gboard) : Prop :=
    wf (fst g) (snd g) /\ aeq_nr (abs (fst g) (snd g)) p /\ GInv p.
  Definition At (p : aboard) (g : gboard) : Prop :=
    BAt p g /\ (blocked (b_result (snd g)) = true -> no_legal p).

  (** a Draw flag that does not block pushes; [gb_push'] resets it first *)
  Definition DF (g : gboard) : bool := gb_draw g && negb (blocked (b_result (snd g))).
  Definition undf (g : gboard) : gboard := if DF g then gb_clear_draw g else g.
  Definition gb_push' (g : gboard) (m : move) : option gboard := gb_push z (undf g) m.

  Lemma BAt_getters p g : BAt p g ->
    b_position (fst g) (snd g) = a_position p /\ b_turn (snd g) = a_turn p /\ b_hash (fst g) (snd g) = a_hash p.
  Proof.
    intros (Hwf & Heq & _). destruct (aeq_nr_fields _ _ Heq) as (Ep & Et & Eh & _).
    rewrite (get_position _ _ Hwf), (get_hash _ _ Hwf). auto.
  Qed.
  Lemma BAt_moves p g : BAt p g -> gb_moves g = real_moves p.
  Proof. intros H. destruct (BAt_getters _ _ H) as (Ep & Et & _). unfold gb_moves, real_moves. rewrite Ep, Et. reflexivity. Qed.
  Lemma BAt_adjudicate p h b r : BAt p (h, b) -> BAt p (h, adjudicate b r).
  Proof. intros (Hwf & Heq & HG). split; [exact Hwf|]. split; [exact Heq|exact HG]. Qed.

  (** [castle_ok] (the side condition of [pop_push_id]) holds for every emitted move *)
  Lemma BAt_castle_ok p g m : BAt p g -> In m (gb_moves g) -> castle_ok (snd g) m.
  Proof.
    intros HB Hin Hc. rewrite (BAt_moves _ _ HB) in Hin. destruct HB as (_ & Heq & HG).
    pose proof (acastle_ok_GInv p m HG Hin Hc) as H. cbn in H.
    destruct (aeq_nr_fields _ _ Heq) as (_ & Et & _ & _ & Ecw & Ecb & _).
    unfold has_castled. change (b_turn (snd g)) with (a_turn (abs (fst g) (snd g))).
    change (b_castled_w (snd g)) with (a_cw (abs (fst g) (snd g))). change (b_castled_b (snd g)) with (a_cb (abs (fst g) (snd g))).
    rewrite Et, Ecw, Ecb. exact H.
  Qed.

  (** restoring the result of a board [g0]: fine unless [g0] carries an untruthful mate/stalemate flag *)
  Definition H_restore_statement : Prop :=
    forall p g0 g, At p g -> At p (gb_restore g0 g) /\ gb_draw (gb_restore g0 g) = gb_draw g0.
  Lemma H_restore_partial : forall p g0 g, At p g -> (blocked (b_result (snd g0)) = true -> no_legal p) ->
    At p (gb_restore g0 g) /\ gb_draw (gb_restore g0 g) = gb_draw g0.
  Proof.
    intros p g0 [h b] [HB _] H0. split; [|reflexivity]. split; [apply BAt_adjudicate; exact HB|exact H0].
  Qed.

  Lemma undf_At p g : At p g -> At p (undf g) /\
    (blocked (b_result (snd (undf g))) = false -> outcome (b_result (snd (undf g))) <> Draw).
  Proof.
    intros [HB HF]. unfold undf, DF, gb_draw. destruct g as [h b]. cbn [snd fst] in *.
    destruct (N.eqb_spec (outcome (b_result b)) Draw) as [Ed|Ed]; cbn [andb].
    - destruct (blocked (b_result b)) eqn:Eb; cbn [negb].
      + split; [split; [exact HB|intros _; apply HF; reflexivity]|]. cbn [snd]. congruence.
      + split; [split; [apply BAt_adjudicate; exact HB|intros H; discriminate H]|]. intros _ H. discriminate H.
    - split; [split; assumption|]. intros _. exact Ed.
  Qed.

  Theorem H_moves : forall p g, At p g -> gb_moves g = bmoves p.
  Proof. intros p g [HB _]. apply BAt_moves. exact HB. Qed.

  Theorem H_hash : forall p g, At p g -> gb_hash g = bhash p.
  Proof. intros p g [HB _]. destruct (BAt_getters _ _ HB) as (_ & _ & Eh). exact Eh. Qed.

  Lemma aeq_nr_norm g p : aeq_nr g p -> aeq_nr g (norm p).
  Proof. intros H. eapply aeq_nr_trans; [exact H|apply aeq_nr_sym, norm_aeq_nr]. Qed.

  Theorem H_push_none : forall p g m, At p g -> In m (bmoves p) -> gb_push' g m = None -> bchild p m = None.
  Proof.
    intros p g m HA Hin Hp. destruct (undf_At _ _ HA) as [[HB HF] _]. unfold gb_push' in Hp.
    destruct (undf g) as [h b]. clear HA.
    unfold bchild. rewrite (proj2 (move_mem_in _ _) Hin).
    unfold gb_push in Hp. cbn [fst snd] in *. destruct (push_move z h b m) as [[h1 b1] ok] eqn:E.
    destruct ok; [discriminate Hp|]. destruct HB as (Hwf & Heq & HG). cbn [fst snd] in Hwf, Heq.
    destruct (blocked (b_result b)) eqn:Eb.
    - apply bchild_raw_none_intro. apply (HF eq_refl). exact Hin.
    - rewrite push_move_is_pushw in E. pose proof (push_sim _ _ _ _ _ _ _ _ _ _ _ Hwf E) as Hs.
      destruct (apush_congr_nr zmove update_noprogress true has_insufficient_material z _ _ m (aeq_nr_norm _ _ Heq)) as (Hok & _); [exact Eb|].
      rewrite Hs in Hok. cbn [snd] in Hok. unfold bchild_raw.
      destruct (apush (norm p) m) as [a1 ok1]. cbn [snd] in Hok. subst ok1. reflexivity.
  Qed.

  Theorem H_push_some : forall p g m g1, At p g -> In m (bmoves p) -> gb_push' g m = Some g1 ->
    exists c, bchild p m = Some c /\ At c g1 /\ gb_draw g1 = bdrawn c.
  Proof.
    intros p g m g1 HA Hin Hp. destruct (undf_At _ _ HA) as [[HB HF] Hnd]. unfold gb_push' in Hp.
    destruct (undf g) as [h b]. clear HA.
    unfold bchild. rewrite (proj2 (move_mem_in _ _) Hin).
    unfold gb_push in Hp. cbn [fst snd] in *. destruct (push_move z h b m) as [[h1 b1] ok] eqn:E.
    destruct ok; [injection Hp as <-|discriminate Hp]. destruct HB as (Hwf & Heq & HG). cbn [fst snd] in Hwf, Heq.
    pose proof (wf_push_move _ _ _ _ _ _ _ Hwf E) as Hwf1.
    rewrite push_move_is_pushw in E. pose proof (push_sim _ _ _ _ _ _ _ _ _ _ _ Hwf E) as Hs.
    destruct (apush_inv _ _ _ _ Hs) as [(Ho & _)|(_ & Eb & next & _ & _ & _ & _ & _ & _ & Eb1 & Hdr)]; [discriminate Ho|].
    change (a_result (abs h b)) with (b_result b) in *. change (a_result (abs h1 b1)) with (b_result b1) in *.
    specialize (Hdr (Hnd Eb)).
    destruct (apush_congr_nr zmove update_noprogress true has_insufficient_material z _ _ m (aeq_nr_norm _ _ Heq)) as (Hok & Hnr & _); [exact Eb|].
    rewrite Hs in Hok, Hnr. cbn [fst snd] in Hok, Hnr.
    assert (Hfull : aeq (norm (abs h b)) (norm p)).
    { split; [|reflexivity]. eapply aeq_nr_trans; [apply norm_aeq_nr|apply aeq_nr_norm; exact Heq]. }
    destruct (apush_congr zmove update_noprogress true has_insufficient_material z _ _ m Hfull) as (_ & _ & Hres).
    destruct (apush (norm p) m) as [c ok1] eqn:Ec. cbn [fst snd] in Hok, Hnr, Hres. subst ok1.
    exists c. unfold bchild_raw. rewrite Ec. split; [reflexivity|].
    assert (Edr : gb_draw (h1, b1) = bdrawn c).
    { change (gb_draw (h1, b1)) with (bdrawn (abs h1 b1)). rewrite Hdr. unfold bdrawn. rewrite Hres. reflexivity. }
    split; [|exact Edr].
    split; [split; [exact Hwf1|split; [exact Hnr|eapply apush_GInv; eassumption]]|].
    cbn [snd]. rewrite Eb1. intros H; discriminate H.
  Qed.

  Lemma apop_true_result a a' m : apop a = (a', m, true) -> a_result a' = neutral_result.
  Proof. unfold apop. destruct (a_nexts a); intros H; [discriminate H|]. injection H as <- _. reflexivity. Qed.

  Theorem H_pop : forall p g m g1 c g2, At p g -> gb_push' g m = Some g1 -> bchild p m = Some c ->
    At c g2 -> At p (gb_pop g2).
  Proof.
    intros p g m g1 c [h2 b2] [(_ & _ & HG) _] _ Hc [(Hwf2 & Heq2 & _) _].
    unfold bchild in Hc. destruct (move_mem m (bmoves p)) eqn:Em; [|discriminate Hc].
    apply move_mem_in in Em.
    apply bchild_raw_some in Hc.
    destruct (apop_apush zmove update_noprogress true has_insufficient_material z (norm p) m c) as (a2 & Ha2 & Hnr2 & _);
      [apply HG|apply acastle_ok_GInv; assumption|exact Hc|].
    unfold gb_pop. cbn [fst snd] in *. destruct (pop_move h2 b2) as [[[h3 b3] m'] ok'] eqn:Ep.
    pose proof (wf_pop_move _ _ _ _ _ _ Hwf2 Ep) as Hwf3.
    pose proof (pop_sim _ _ _ _ _ _ Hwf2 Ep) as Hs.
    destruct (apop_congr_nr _ _ Heq2) as (Hok & _ & Hnr & _). rewrite Hs, Ha2 in Hok, Hnr. cbn [fst snd] in Hok, Hnr. subst ok'.
    split.
    - split; [exact Hwf3|]. split; [|exact HG].
      eapply aeq_nr_trans; [exact Hnr|]. eapply aeq_nr_trans; [exact Hnr2|apply norm_aeq_nr].
    - cbn [snd]. change (b_result b3) with (a_result (abs h3 b3)). rewrite (apop_true_result _ _ _ Hs).
      intros H; discriminate H.
  Qed.

  Theorem H_ex : forall p g g' m g1 c, At p g -> At p g' -> gb_push' g' m = Some g1 -> bchild p m = Some c ->
    snd (full_exploration g) g1 m = bex p c m.
  Proof. reflexivity. Qed.
  Theorem H_qex : forall p g g' m g1 c, At p g -> At p g' -> gb_push' g' m = Some g1 -> bchild p m = Some c ->
    snd (captures_only g) g1 m = bqex p c m.
  Proof. reflexivity. Qed.

  Theorem H_mated : forall p g, At p g -> (forall m, In m (bmoves p) -> bchild p m = None) ->
    At p (fst (gb_mated g)) /\ snd (gb_mated g) = bmated p.
  Proof.
    intros p [h b] [HB HF] Hnone. destruct (BAt_getters _ _ HB) as (Ep & Et & _). cbn [fst snd] in Ep, Et.
    unfold gb_mated, adjudicate_no_legal_moves. cbn [fst snd]. rewrite Ep, Et. fold (bmated p). split.
    - split; [apply BAt_adjudicate; exact HB|]. intros _ m Hm. apply bchild_raw_none.
      specialize (Hnone m Hm). unfold bchild in Hnone. rewrite (proj2 (move_mem_in m (bmoves p)) Hm) in Hnone. exact Hnone.
    - destruct (bmated p); reflexivity.
  Qed.

  Theorem H_clear : forall p g, At p g -> At p (gb_clear_draw g).
  Proof. intros p [h b] [HB _]. split; [apply BAt_adjudicate; exact HB|intros H; discriminate H]. Qed.

  (** ** structural facts about the flag (no invariant needed) *)
  Lemma push_of_DF g m : DF g = false -> gb_push' g m = gb_push z g m.
  Proof. unfold gb_push', undf. intros ->. reflexivity. Qed.
  Lemma DF_of_draw g : gb_draw g = false -> DF g = false.
  Proof. unfold DF. intros ->. reflexivity. Qed.
  Lemma DF_pop g : DF g = false -> DF (gb_pop g) = false.
  Proof.
    destruct g as [h b]. unfold gb_pop, pop_move. cbn [fst snd].
    destruct (n_prev (hnode h (b_current b))); [intros _; reflexivity|auto].
  Qed.
  Lemma DF_pop_push g m g1 : gb_push z g m = Some g1 -> DF (gb_pop g1) = false.
  Proof.
    destruct g as [h b]. unfold gb_push. cbn [fst snd]. destruct (push_move z h b m) as [[h1 b1] ok] eqn:E.
    destruct ok; [|intros H; discriminate H]. intros H. injection H as <-.
    rewrite push_move_is_pushw in E. apply push_heap in E.
    destruct E as [(E & _)|(_ & n & -> & Hnp & _ & Hcur & _)]; [discriminate E|].
    unfold gb_pop, pop_move. cbn [fst snd]. rewrite Hcur.
    rewrite <- (hset_length h (b_current b) (set_next (hnode h (b_current b)) m)) at 1.
    rewrite hnode_app_last, Hnp. reflexivity.
  Qed.
  Lemma DF_mated g : DF (fst (gb_mated g)) = false.
  Proof.
    destruct g as [h b]. unfold gb_mated, adjudicate_no_legal_moves, DF. cbn [fst snd adjudicate b_result].
    destruct (is_checked (b_position h b) (b_turn b)); cbn [blocked rreason negb]; apply andb_false_r.
  Qed.
End Tree.
