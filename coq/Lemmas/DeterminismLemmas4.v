(** C18, part 4: corollaries.
    - which boards are related: new boards, boards on which the same moves were played, forks;
    - [search_function_of_state]: one key table, two boards of the same game state: same answer;
    - [search_frame]/[analysis_isolated]: a search on a fork (any table, any policy) leaves the view of the
      board it was forked from unchanged (it only pushes, pops what it pushed, and adjudicates);
    - [analysis_repeatable]: analysing (fork + search without table) twice in a row, or after any other
      analysis, gives the same answer;
    - a computed instance with two concrete key tables. *)
From Coq Require Import NArith ZArith List Bool Lia.
From Morlock.Model Require Import Bits Score Attacks Move Position Abs Zobrist Board Search TT SearchBoard.
From Morlock.Spec Require Import Chess Game.
From Morlock.Lemmas Require Import PositionLemmas BoardHeap1 BoardHeap2 BoardHeap3 GameLemmas3 GameLemmas4 GameLemmas5
  GameLemmas6 DeterminismLemmas1 DeterminismLemmas2 DeterminismLemmas3 SearchBoardInst5.
Import ListNotations.
Open Scope N_scope.

(** * 1. related boards *)
Lemma Game_ZOK z h b g : Game z h b g -> ZOK z (h, b).
Proof. intros (Hwf & HI & _). split; assumption. Qed.

Lemma new_board_abs z pos turn np fm : (turn = 0 \/ turn = 1) ->
  nohash (gabs (new_board z [] pos turn np fm)) = ([(pos, np)], [], turn, false, false, 1%Z, fm, no_result).
Proof.
  intros Ht. destruct (new_board z [] pos turn np fm) as [h b] eqn:E.
  pose proof (wf_new z pos turn np fm h b Ht E) as Hw.
  unfold new_board in E. inversion E; subst h b. clear E.
  unfold nohash, gabs, abs. cbn [fst snd a_data a_nexts a_turn a_cw a_cb a_ply a_moves a_result
    b_reps b_castled_w b_castled_b b_ply b_moves b_turn b_result].
  rewrite data_unfold, nexts_unfold by (destruct Hw; assumption). reflexivity.
Qed.

Section Classes.
Variables z1 z2 : ztable.
Hypothesis Hz1 : zt_ok z1.
Hypothesis Hz2 : zt_ok z2.

Theorem new_board_zrel pos turn np fm : wf_b pos turn = true -> (turn = 0 \/ turn = 1) -> np <= max_int ->
  zrel z1 z2 (new_board z1 [] pos turn np fm) (new_board z2 [] pos turn np fm).
Proof.
  intros Hwf Ht Hnp.
  destruct (new_board z1 [] pos turn np fm) as [h1 b1] eqn:E1.
  destruct (new_board z2 [] pos turn np fm) as [h2 b2] eqn:E2.
  split; [exact (Game_ZOK _ _ _ _ (proj1 (Game_new z1 pos turn np fm h1 b1 Hwf Ht Hnp E1)))|].
  split; [exact (Game_ZOK _ _ _ _ (proj1 (Game_new z2 pos turn np fm h2 b2 Hwf Ht Hnp E2)))|].
  rewrite <- E1, <- E2, !new_board_abs by exact Ht. reflexivity.
Qed.

(** the same moves played from the same start on two boards hashed with different tables *)
Theorem played_zrel pos turn np fm : wf_b pos turn = true -> (turn = 0 \/ turn = 1) -> np <= max_int ->
  forall ms h1 b1 h2 b2,
  played_board z1 pos turn np fm ms h1 b1 -> played_board z2 pos turn np fm ms h2 b2 ->
  zrel z1 z2 (h1, b1) (h2, b2).
Proof.
  intros Hwf Ht Hnp ms h1 b1 h2 b2 H1. revert h2 b2.
  induction H1 as [h1 b1 Hnew | ms h1 b1 m h1' b1' Hpl IH Hin Hpush]; intros h2 b2 H2.
  - inversion H2 as [h b Hnew2 | ms' h b m' h' b' _ _ _ Ems]; subst.
    + rewrite <- Hnew, <- Hnew2. apply new_board_zrel; assumption.
    + exfalso. destruct ms'; discriminate Ems.
  - inversion H2 as [h b Hnew2 Ems | ms' h b m' h' b' Hpl2 Hin2 Hpush2 Ems]; subst.
    + exfalso. destruct ms; discriminate Ems.
    + apply app_inj_tail in Ems. destruct Ems as [-> ->].
      specialize (IH _ _ Hpl2).
      destruct (push_zrel z1 z2 Hz1 Hz2 (h1, b1) (h, b) m IH Hin) as [[E1 _]|(a & b0 & E1 & E2 & K & _)].
      * unfold gb_push in E1. cbn [fst snd] in E1. rewrite Hpush in E1. discriminate E1.
      * unfold gb_push in E1, E2. cbn [fst snd] in E1, E2. rewrite Hpush in E1. rewrite Hpush2 in E2.
        inversion E1; inversion E2; subst. exact K.
Qed.

End Classes.

(** a fork and the board it was forked from *)
Theorem fork_zrel z h b h1 f : ZOK z (h, b) -> fork h b = (h1, f) ->
  zrel z z (h, b) (h1, f) /\ zrel z z (h, b) (h1, b).
Proof.
  intros HZ Hf. pose proof HZ as [Hwf HI]. cbn [fst snd] in Hwf.
  destruct (wf_fork_both _ _ _ _ Hwf Hf) as [W1 W2]. destruct (fork_sim _ _ _ _ Hwf Hf) as [A1 A2].
  assert (Hrefl : zrel z z (h, b) (h, b)) by (split; [exact HZ|split; [exact HZ|reflexivity]]).
  split; apply (zrel_abs_r z z (h, b) (h, b)); auto.
Qed.

(** * 2. the answer is a function of the game state *)
Section OneTable.
Variable z : ztable.
Hypothesis Hz : zt_ok z.
Variables explore qexplore : gboard -> (move -> Z) * (gboard -> move -> bool).
Variable leaf : gboard -> Z.
Variable cancel : nat -> bool.
Variable use_q : bool.
Variable qfuel : nat.
Hypothesis Hex : explore_blind z z explore.
Hypothesis Hqex : explore_blind z z qexplore.
Hypothesis Hleaf : leaf_blind z z leaf.

(** the answer of a search: node count, score, principal variation, halted flag *)
Definition answer (r : sst gboard ttv * N * score * list move * bool) : N * score * list move * bool :=
  let '(_, nodes, sc, pv, halted) := r in (nodes, sc, pv, halted).

Theorem search_function_of_state g1 g2 ponder depth low high : zrel z z g1 g2 ->
  answer (search_board z explore qexplore leaf cancel use_q qfuel g1 NoTT ponder depth low high) =
  answer (search_board z explore qexplore leaf cancel use_q qfuel g2 NoTT ponder depth low high).
Proof.
  intros H.
  destruct (search_independent_of_zobrist z z Hz Hz explore qexplore leaf cancel use_q qfuel Hex Hqex Hleaf
              g1 g2 ponder depth low high H) as (s1 & s2 & n & sc & pv & hl & F1 & F2 & _).
  rewrite F1, F2. reflexivity.
Qed.

(** a search hands back a board of the same game (same node, same invariant), so anything proved about
    boards of a game applies to it again *)
Theorem search_hands_back g ponder depth low high st nodes sc pv halted : ZOK z g ->
  search_board z explore qexplore leaf cancel use_q qfuel g NoTT ponder depth low high = (st, nodes, sc, pv, halted) ->
  ZOK z (s_g gboard ttv st) /\ node_of (s_g gboard ttv st) = node_of g /\ s_tt gboard ttv st = NoTT.
Proof.
  intros HZ E.
  assert (H : zrel z z g g) by (split; [exact HZ|split; [exact HZ|reflexivity]]).
  destruct (search_independent_of_zobrist z z Hz Hz explore qexplore leaf cancel use_q qfuel Hex Hqex Hleaf
              g g ponder depth low high H) as (s1 & s2 & n & sc' & pv' & hl & F1 & F2 & [K _] & Kn & _ & T & _).
  rewrite E in F1. inversion F1; subst. auto.
Qed.
End OneTable.

(** * 3. a search only pushes, pops what it pushed, and adjudicates: frame *)
Section Frame.
Variable z : ztable.
Variables explore qexplore : gboard -> (move -> Z) * (gboard -> move -> bool).
Variable leaf : gboard -> Z.
Variable cancel : nat -> bool.
Variable use_q : bool.
Variable qfuel : nat.
Variables (h0 : heap) (c0 : nat).

Definition FR (d : nat) (g1 g2 : gboard) : Prop := g1 = g2 /\ finv h0 c0 (fst g1) (snd g1) d.

Lemma finv_adjudicate h a d r : finv h0 c0 h a d -> finv h0 c0 h (adjudicate a r) d.
Proof. intros H. exact H. Qed.

Theorem search_frame g t ponder depth low high st nodes sc pv halted d :
  finv h0 c0 (fst g) (snd g) d ->
  search_board z explore qexplore leaf cancel use_q qfuel g t ponder depth low high = (st, nodes, sc, pv, halted) ->
  finv h0 c0 (fst (s_g gboard ttv st)) (snd (s_g gboard ttv st)) d.
Proof.
  intros Hinv E. unfold search_board in E.
  destruct (ab_search_sim gboard gboard gb_draw gb_draw gb_hash gb_hash gb_ply gb_ply gb_moves gb_moves
              (gb_push z) (gb_push z) gb_pop gb_pop gb_mated gb_mated gb_clear_draw gb_clear_draw gb_restore gb_restore
              ttv ttv ttv_read ttv_read ttv_write ttv_write explore qexplore explore qexplore leaf leaf cancel use_q qfuel
              nat FR (fun _ _ => True) eq)
    with (p := d) (g1 := g) (g2 := g) (t1 := t) (t2 := t) (ponder := ponder) (depth := depth)
         (low := low) (high := high)
    as (y1 & y2 & n' & sc' & pv' & hl' & F1 & F2 & [_ HF] & _).
  - intros p a b [-> _]. reflexivity.
  - intros p a b [-> _]. split; [reflexivity|auto].
  - intros p a b m [-> HF] _. unfold gb_push.
    destruct (push_move z (fst b) (snd b) m) as [[h1 b1] ok] eqn:Ep.
    pose proof Ep as Ep'. rewrite push_move_is_pushw in Ep'.
    pose proof (finv_push _ _ _ _ h0 c0 z _ _ _ _ _ _ _ HF Ep') as HF1.
    destruct ok; [right|left; auto].
    exists (h1, b1), (h1, b1), (S p). split; [reflexivity|]. split; [reflexivity|]. split; [split; [reflexivity|exact HF1]|].
    intros a' b' [-> HF']. split; [reflexivity|].
    pose proof (finv_pop h0 c0 _ _ _ HF') as HP. unfold pop' in HP. unfold gb_pop.
    destruct (pop_move (fst b') (snd b')) as [[[h2 b2] m2] ok2]. exact HP.
  - intros p a b [-> HF]. split; [reflexivity|]. split; [reflexivity|].
    unfold gb_mated. pose proof (finv_adj h0 c0 _ _ _ HF) as HA.
    destruct (adjudicate_no_legal_moves (fst b) (snd b)) as [b1 r]. exact HA.
  - intros p a b [-> HF]. split; [reflexivity|]. unfold gb_clear_draw. apply finv_adjudicate. exact HF.
  - intros p0 p a0 b0 a b [-> _] [-> HF]. split; [reflexivity|]. unfold gb_restore. apply finv_adjudicate. exact HF.
  - intros p a b [-> _]. split; [reflexivity|]. intros p' x y m [-> _]. reflexivity.
  - intros p a b [-> _]. split; [reflexivity|]. intros p' x y m [-> _]. reflexivity.
  - intros p a b [-> _]. reflexivity.
  - intros p a b t1 t2 [-> _] ->. reflexivity.
  - intros p a b t1 t2 bd dd s m [-> _] ->. reflexivity.
  - split; [reflexivity|exact Hinv].
  - reflexivity.
  - rewrite E in F1. inversion F1; subst. exact HF.
Qed.
End Frame.

(** Engine.Analyze searches a fork of the engine's board: whatever the table, the policies, the
    cancellation, the depth and the window, the engine's own board reads the same afterwards *)
Theorem analysis_isolated z explore qexplore leaf cancel use_q qfuel h b h1 f t ponder depth low high st nodes sc pv halted :
  wf h b -> fork h b = (h1, f) ->
  search_board z explore qexplore leaf cancel use_q qfuel (h1, f) t ponder depth low high = (st, nodes, sc, pv, halted) ->
  let h' := fst (s_g gboard ttv st) in
  wf h' b /\ abs h' b = abs h b /\ beq h' b h b /\ wf h' (snd (s_g gboard ttv st)).
Proof.
  intros Hwf Hf E. cbv zeta.
  destruct (wf_fork_both _ _ _ _ Hwf Hf) as [Wf Wb]. destruct (fork_sim _ _ _ _ Hwf Hf) as [_ Ab].
  destruct (fork_shape _ _ _ _ Hwf Hf) as (Hcf & Hlen & Hpf & Hold).
  pose proof Wf as (Hw1 & Hc1 & _).
  assert (Hinv0 : finv h1 (b_current f) h1 f 0).
  { unfold finv. split; [exact Wf|]. split; [lia|]. split; [auto|]. split; [left; reflexivity|]. split.
    - intros i j Hi Hp. rewrite hnode_beyond in Hp by auto. discriminate.
    - reflexivity. }
  pose proof (search_frame z explore qexplore leaf cancel use_q qfuel h1 (b_current f) (h1, f) t ponder depth low high
                st nodes sc pv halted 0 Hinv0 E) as HF.
  assert (Hnot : ~ In (b_current f) (cids h1 (b_current b))).
  { intro Hin. apply cids_le in Hin; [|exact Hw1]. destruct Hwf as (_ & Hc & _). lia. }
  destruct (finv_passive h1 (b_current f) _ _ _ b Hw1 HF Wb Hnot) as (Wb' & Ab').
  split; [exact Wb'|]. split; [rewrite Ab', Ab; reflexivity|]. split.
  - apply view_eq_abs; auto. rewrite Ab', Ab. apply aeq_refl.
  - exact (proj1 HF).
Qed.

(** * 4. analysing twice: the second analysis (a new fork of the engine's board on the heap the first one
    left behind, no table) gives the same answer as the first; the first may be any search at all *)
Theorem analysis_repeatable z (Hz : zt_ok z) explore qexplore leaf cancel use_q qfuel
  (Hex : explore_blind z z explore) (Hqex : explore_blind z z qexplore) (Hleaf : leaf_blind z z leaf)
  explore' qexplore' leaf' cancel' use_q' qfuel' t' ponder' depth' low' high'
  h b h1 f st nodes sc pv halted h2 f2 ponder depth low high :
  ZOK z (h, b) -> fork h b = (h1, f) ->
  search_board z explore' qexplore' leaf' cancel' use_q' qfuel' (h1, f) t' ponder' depth' low' high' = (st, nodes, sc, pv, halted) ->
  fork (fst (s_g gboard ttv st)) b = (h2, f2) ->
  answer (search_board z explore qexplore leaf cancel use_q qfuel (h2, f2) NoTT ponder depth low high) =
  answer (search_board z explore qexplore leaf cancel use_q qfuel (h1, f) NoTT ponder depth low high).
Proof.
  intros HZ Hf E Hf2. pose proof HZ as [Hwf HI]. cbn [fst snd] in Hwf.
  destruct (analysis_isolated z explore' qexplore' leaf' cancel' use_q' qfuel' h b h1 f t' ponder' depth' low' high'
              st nodes sc pv halted Hwf Hf E) as (Wb' & Ab' & _).
  destruct (fork_zrel z h b h1 f HZ Hf) as [K1 _].
  assert (HZ' : ZOK z (fst (s_g gboard ttv st), b)).
  { apply (ZOK_abs z (h, b)); [exact HZ|exact Wb'|exact Ab']. }
  destruct (fork_zrel z _ b h2 f2 HZ' Hf2) as [K2 _].
  assert (K0 : zrel z z (h, b) (fst (s_g gboard ttv st), b)).
  { apply (zrel_abs_r z z (h, b) (h, b)); [|exact Wb'|exact Ab']. split; [exact HZ|split; [exact HZ|reflexivity]]. }
  apply (search_function_of_state z Hz explore qexplore leaf cancel use_q qfuel Hex Hqex Hleaf).
  eapply zrel_trans; [apply zrel_sym; exact K2|].
  eapply zrel_trans; [apply zrel_sym; exact K0|]. exact K1.
Qed.

(** * 5. a computed instance: two concrete key tables, K+R v K, depth 2 *)
Definition zt_a : ztable := mkZt (fun c p s => c * 1000 + p * 100 + s + 1) (fun c => c + 7) (fun s => 0) (fun t => t + 11).
Definition zt_b : ztable := mkZt (fun c p s => c * 977 + p * 131 + s * 7 + 3) (fun c => c * 5 + 1) (fun s => 0) (fun t => 13 - t).

Lemma zt_a_ok : zt_ok zt_a. Proof. intros sq _ _. reflexivity. Qed.
Lemma zt_b_ok : zt_ok zt_b. Proof. intros sq _ _. reflexivity. Qed.

Definition kr_a : gboard := new_board zt_a [] kr_pos White 0 1.
Definition kr_b : gboard := new_board zt_b [] kr_pos White 0 1.

Example kr_two_tables :
  answer (search_board zt_a full_exploration captures_only material never false 0 kr_a NoTT [] 2 neginf_score inf_score) =
  answer (search_board zt_b full_exploration captures_only material never false 0 kr_b NoTT [] 2 neginf_score inf_score) /\
  answer (search_board zt_a full_exploration captures_only material never false 0 kr_a NoTT [] 2 neginf_score inf_score) =
  (38%N, mate_in 1, [ra8], false) /\
  gb_hash kr_a <> gb_hash kr_b.
Proof. vm_compute. split; [reflexivity|]. split; [reflexivity|discriminate]. Qed.

(** the theorem applied to this instance (its hypotheses are satisfiable) *)
Example kr_two_tables_by_theorem :
  exists st1 st2 nodes sc pv halted,
    search_board zt_a full_exploration captures_only material never true 4 kr_a NoTT [] 3 neginf_score inf_score = (st1, nodes, sc, pv, halted) /\
    search_board zt_b full_exploration captures_only material never true 4 kr_b NoTT [] 3 neginf_score inf_score = (st2, nodes, sc, pv, halted).
Proof.
  destruct (search_independent_of_zobrist zt_a zt_b zt_a_ok zt_b_ok full_exploration captures_only material never true 4%nat
              (full_exploration_blind _ _) (captures_only_blind _ _) (material_blind _ _) kr_a kr_b [] 3%nat neginf_score inf_score)
    as (s1 & s2 & n & sc & pv & hl & F1 & F2 & _).
  - apply new_board_zrel; [exact kr_pos_wf|left; reflexivity|vm_compute; discriminate].
  - exists s1, s2, n, sc, pv, hl. auto.
Qed.

(** every hash collides: the all-zero key table ([zt_ok] holds).  The repetition pre-filter of PushMove then
    fires at every third node of a line; the exact recount decides.  Start position, knights out and back
    (Nf3 Nf6 Ng1 Ng8 Nf3 Nf6), then a depth-2 search in which Ng1 Ng8 repeats the start position a third time. *)
Definition zt_zero : ztable := mkZt (fun _ _ _ => 0) (fun _ => 0) (fun _ => 0) (fun _ => 0).
Lemma zt_zero_ok : zt_ok zt_zero. Proof. intros sq _ _. reflexivity. Qed.
Fixpoint playz (z : ztable) (g : gboard) (ms : list move) : gboard :=
  match ms with [] => g | m :: r => match gb_push z g m with Some g1 => playz z g1 r | None => g end end.
Definition six : list move := [nf3; nf6; ng1; ng8; nf3; nf6].
Definition after_six (z : ztable) : gboard := playz z (new_board z [] init_pos White 0 1) six.

Example all_hashes_collide :
  answer (search_board zt_zero full_exploration captures_only material never false 0 (after_six zt_zero) NoTT [] 2 neginf_score inf_score) =
  answer (search_board zt_a full_exploration captures_only material never false 0 (after_six zt_a) NoTT [] 2 neginf_score inf_score) /\
  b_result (snd (playz zt_zero (after_six zt_zero) [ng1; ng8])) = mkResult Draw Repetition3 /\
  b_result (snd (playz zt_a (after_six zt_a) [ng1; ng8])) = mkResult Draw Repetition3 /\
  (* the pre-filter fires under the zero table where it does not under the other *)
  (3 <=? rep_get (b_reps (snd (playz zt_zero (after_six zt_zero) [ng1]))) 0)%Z = true /\
  b_result (snd (playz zt_zero (after_six zt_zero) [ng1])) = b_result (snd (playz zt_a (after_six zt_a) [ng1])).
Proof. vm_compute. repeat split; reflexivity. Qed.

Print Assumptions new_board_zrel.
Print Assumptions played_zrel.
Print Assumptions fork_zrel.
Print Assumptions search_function_of_state.
Print Assumptions search_hands_back.
Print Assumptions search_frame.
Print Assumptions analysis_isolated.
Print Assumptions analysis_repeatable.
Print Assumptions kr_two_tables.
Print Assumptions all_hashes_collide.
