(** MirrorMobility4 — C20, mobility under the colour mirror, part 4: the pseudo-legal moves of the mirrored
    position for the other colour are a permutation of the mirrored pseudo-legal moves (the emission order is by
    ascending square, so it differs; the multiset does not). *)
From Coq Require Import NArith ZArith List Bool Lia ZifyBool ZifyNat ZifyN Permutation.
From Morlock.Model Require Import Bits Attacks Move Position Abs Search Fen Engines.
From Morlock.Spec Require Import Chess.
From Morlock.Lemmas Require Import PositionLemmas AttackGeometry1 AttackGeometry3 AttackGeometry_Extra MoveGen2 MoveGen3 MoveGen4
     EnginesLemmas5 EnginesLemmas6 EnginesLemmas7 EnginesLemmas8 EnginesLemmas9 MirrorMobility1 MirrorMobility2.
Import ListNotations.
Open Scope N_scope.

(* ------------------------------------------------------------------ *)
(** * list helpers *)

Lemma find_ext_in {A} (f g : A -> bool) l : (forall x, In x l -> f x = g x) -> find f l = find g l.
Proof.
  induction l as [|a l IH]; intros H; [reflexivity|]. cbn [find].
  rewrite (H a (or_introl eq_refl)), IH; [reflexivity|]. intros x Hx. apply H. now right.
Qed.

Lemma flat_map_map {A B C} (g : B -> list C) (h : A -> B) l : flat_map g (map h l) = flat_map (fun x => g (h x)) l.
Proof. induction l as [|a l IH]; [reflexivity|]. cbn [map flat_map]. now rewrite IH. Qed.

Lemma flat_map_perm_pointwise {A B} (g g' : A -> list B) (mm : B -> B) l :
  (forall x, In x l -> Permutation (g' x) (map mm (g x))) -> Permutation (flat_map g' l) (map mm (flat_map g l)).
Proof.
  induction l as [|a l IH]; intros H; [constructor|]. cbn [flat_map]. rewrite map_app.
  apply Permutation_app; [apply H; now left|]. apply IH. intros x Hx. apply H. now right.
Qed.

Lemma flat_map_bits_mirror {B} (g g' : N -> list B) (mm : B -> B) x : x < 2 ^ 64 ->
  (forall s, s < 64 -> N.testbit x s = true -> Permutation (g' (mirror_sq s)) (map mm (g s))) ->
  Permutation (flat_map g' (bits_asc (flip_bb x))) (map mm (flat_map g (bits_asc x))).
Proof.
  intros Hx H.
  apply (Permutation_trans (Permutation_flat_map g' (bits_asc_flip_perm x Hx))).
  rewrite flat_map_map. apply flat_map_perm_pointwise. intros s Hs. apply bits_asc_spec in Hs.
  apply H; [exact (word_tb_lt _ _ Hx Hs)|exact Hs].
Qed.

Lemma andnot_word a b : a < 2 ^ 64 -> andnot a b < 2 ^ 64.
Proof.
  intros Ha. apply word_bits. intros i Hi. rewrite MoveGen4.tb_andnot, (proj1 (word_bits a) Ha i Hi). reflexivity.
Qed.

Lemma mirror_move_mk t from to piece promo cap :
  mirror_move (mkMove t from to piece promo cap) = mkMove t (mirror_sq from) (mirror_sq to) piece promo cap.
Proof. reflexivity. Qed.

(* ------------------------------------------------------------------ *)
Section Gen.
  Variables (p : position) (c : N).
  Hypothesis HI : Inv p.
  Hypothesis Hc : c = 0 \/ c = 1.

  Let p' := mirror_pos p.
  Let c' := opponent c.

  Lemma Hl : length (pieces p) = 14%nat. Proof. exact (Inv_len _ HI). Qed.

  Lemma own_pget k : k <= 6 -> pget p' c' k = flip_bb (pget p c k).
  Proof. intros Hk. unfold p', c'. rewrite (pget_mirror p (opponent c) k Hl (vcol_opponent c) Hk). now rewrite (opponent_invol c Hc). Qed.

  Lemma opp_pget k : k <= 6 -> pget p' (opponent c') k = flip_bb (pget p (opponent c) k).
  Proof. intros Hk. unfold p', c'. rewrite (opponent_invol c Hc). exact (pget_mirror p c k Hl Hc Hk). Qed.

  Lemma own_mask_mirror : own_mask p' c' = flip_bb (own_mask p c).
  Proof. unfold own_mask. rewrite own_pget by (unfold NoPiece; lia). now rewrite flip_bb_not64. Qed.

  Lemma opp_all_mirror : opp_all p' c' = flip_bb (opp_all p c).
  Proof. unfold opp_all. apply opp_pget. unfold NoPiece; lia. Qed.

  Lemma all_bb_mirror' : all_bb p' = flip_bb (all_bb p).
  Proof. apply all_bb_mirror_gen. Qed.

  Lemma rot_mirror' : rotated_bb p' = new_rotated (flip_bb (all_bb p)).
  Proof. reflexivity. Qed.

  Lemma rot_p : rotated_bb p = new_rotated (all_bb p).
  Proof. now destruct HI as [_ [_ [_ [_ [_ [H _]]]]]]. Qed.

  Lemma capture_at_mirror to : to < 64 -> capture_at p' (mirror_sq to) c' = capture_at p to c.
  Proof.
    intros Hto. unfold capture_at, first_piece.
    rewrite (find_ext_in (fun pc => is_set (pget p' (opponent c') pc) (mirror_sq to))
                         (fun pc => is_set (pget p (opponent c) pc) to)); [reflexivity|].
    intros pc Hpc. rewrite opp_pget.
    - rewrite (is_set_flip _ _ (mirror_sq_lt to Hto)). now rewrite mirror_sq_invol.
    - cbn [In] in Hpc. unfold Pawn, Bishop, Knight, Rook, Queen, King in Hpc. lia.
  Qed.

  (** emission *)
  Lemma emit_move_mirror t piece from bb : bb < 2 ^ 64 ->
    Permutation (emit_move p' c' t piece (mirror_sq from) (flip_bb bb)) (map mirror_move (emit_move p c t piece from bb)).
  Proof.
    intros Hb. unfold emit_move. rewrite map_map.
    apply (Permutation_trans (Permutation_map _ (bits_asc_flip_perm bb Hb))).
    rewrite map_map. apply Permutation_refl'. apply map_ext_in. intros to Hto.
    pose proof (bits_asc_lt64 _ _ Hb Hto) as Hto'. rewrite mirror_move_mk.
    now rewrite (capture_at_mirror to Hto').
  Qed.

  Lemma emit_promo_mirror t piece from bb : bb < 2 ^ 64 ->
    Permutation (emit_promo p' c' t piece (mirror_sq from) (flip_bb bb)) (map mirror_move (emit_promo p c t piece from bb)).
  Proof.
    intros Hb. unfold emit_promo. apply (flat_map_bits_mirror _ _ mirror_move bb Hb).
    intros to Hto _. cbv zeta. rewrite (capture_at_mirror to Hto). apply Permutation_refl'. reflexivity.
  Qed.

  Lemma own_mask_word : own_mask p c < 2 ^ 64.
  Proof. apply not64_word. Qed.

  (** one stepping / sliding piece *)
  Lemma step_moves_mirror piece from ab0 :
    Permutation (step_moves p' c' piece (mirror_sq from) (flip_bb ab0)) (map mirror_move (step_moves p c piece from ab0)).
  Proof.
    unfold step_moves. cbv zeta. rewrite own_mask_mirror, opp_all_mirror.
    rewrite <- flip_bb_not64, <- !flip_bb_land. rewrite map_app.
    apply Permutation_app; apply emit_move_mirror; apply land_word_l, land_word_r, own_mask_word.
  Qed.

  Lemma officer_moves_mirror : Permutation (officer_moves p' c') (map mirror_move (officer_moves p c)).
  Proof.
    unfold officer_moves. apply flat_map_perm_pointwise. intros piece Hpc.
    assert (Hle : piece <= 6).
    { unfold QueenRookKnightBishop in Hpc. cbn [In] in Hpc. unfold Queen, Rook, Knight, Bishop in Hpc. lia. }
    rewrite (own_pget piece Hle).
    apply (flat_map_bits_mirror _ _ mirror_move _ (pget_word p c piece HI)).
    intros s Hs _. rewrite rot_mirror', (attackboard_flip _ _ piece Hs), <- rot_p.
    apply step_moves_mirror.
  Qed.

  (** pawns *)
  Hypothesis Hep : enpassant p <> 56.

  Lemma ep_mirror' : enpassant p' = (if enpassant p =? 0 then 0 else mirror_sq (enpassant p)).
  Proof. reflexivity. Qed.

  Lemma ep_lt : enpassant p < 64.
  Proof. now destruct HI as [_ [_ [_ [_ [_ [_ [_ H]]]]]]]. Qed.

  Lemma pawn_moves_from_mirror from : from < 64 ->
    Permutation (pawn_moves_from p' c' (mirror_sq from)) (map mirror_move (pawn_moves_from p c from)).
  Proof.
    intros Hf. unfold pawn_moves_from. cbv zeta.
    destruct (pawn_ranks_flip c Hc) as [Ej Epr]. fold c' in Ej, Epr.
    rewrite own_mask_mirror, opp_all_mirror, Ej, Epr, all_bb_mirror', <- (flip_bb_bitmask from Hf).
    unfold c'. rewrite (pawn_captureboard_flip c _ Hc (bitmask_word from)).
    rewrite (pawn_moveboard_flip (all_bb p) c _ Hc (bitmask_word from)).
    rewrite (pawn_moveboard_flip (all_bb p) c _ Hc (pawn_moveboard_word (all_bb p) c (bitmask from))).
    fold c'. rewrite <- !flip_bb_land, <- !flip_bb_andnot.
    set (cb := N.land (pawn_captureboard c (bitmask from)) (own_mask p c)).
    assert (Hcb : cb < 2 ^ 64) by (apply land_word_r, own_mask_word).
    set (pb := pawn_moveboard (all_bb p) c (bitmask from)).
    assert (Hpb : pb < 2 ^ 64) by apply pawn_moveboard_word.
    rewrite !map_app.
    apply Permutation_app; [apply emit_move_mirror, andnot_word, land_word_l, Hcb|].
    apply Permutation_app; [apply emit_move_mirror, andnot_word, Hpb|].
    apply Permutation_app; [apply emit_move_mirror, land_word_l, pawn_moveboard_word|].
    apply Permutation_app; [apply emit_promo_mirror, land_word_l, land_word_l, Hcb|].
    apply Permutation_app; [apply emit_promo_mirror, land_word_l, Hpb|].
    rewrite ep_mirror'. destruct (N.eqb_spec (enpassant p) 0) as [E0|E0].
    - change (0 =? 0) with true. cbn [negb]. constructor.
    - destruct (N.eqb_spec (mirror_sq (enpassant p)) 0) as [E|E]; [exfalso; exact (mirror_sq_neq0 _ ep_lt Hep E)|].
      cbn [negb]. rewrite <- (flip_bb_bitmask _ ep_lt), <- flip_bb_land. apply emit_move_mirror, land_word_l, Hcb.
  Qed.

  Lemma pawn_moves_mirror : Permutation (pawn_moves p' c') (map mirror_move (pawn_moves p c)).
  Proof.
    unfold pawn_moves. rewrite (own_pget Pawn) by (unfold Pawn; lia).
    apply (flat_map_bits_mirror _ _ mirror_move _ (pget_word p c Pawn HI)).
    intros s Hs _. now apply pawn_moves_from_mirror.
  Qed.

  (** king *)
  Hypothesis HK : popcount (pget p c King) = 1.

  Lemma castle_emit_mirror from right right' mask mask' rooksq t dst :
    is_allowed (castling p') right' = is_allowed (castling p) right -> mask' = flip_bb mask -> mask < 2 ^ 64 ->
    rooksq < 64 -> dst < 64 ->
    Permutation (castle_emit p' c' (mirror_sq from) right' mask' (mirror_sq rooksq) t (mirror_sq dst))
                (map mirror_move (castle_emit p c from right mask rooksq t dst)).
  Proof.
    intros Hr -> Hm Hrs Hd. unfold castle_emit. rewrite Hr, all_bb_mirror', (land_flip_eqb0 _ _ Hm).
    rewrite (own_pget Rook) by (unfold Rook; lia). rewrite <- (flip_bb_bitmask rooksq Hrs).
    rewrite (land_flip_eqb0 _ _ (pget_word p c Rook HI)).
    destruct (is_allowed (castling p) right && (N.land mask (all_bb p) =? 0) &&
              negb (N.land (pget p c Rook) (bitmask rooksq) =? 0)); [|constructor].
    rewrite <- (flip_bb_bitmask dst Hd). apply emit_move_mirror, bitmask_word.
  Qed.

  Lemma castling_lt : castling p < 16.
  Proof. now destruct HI as [_ [_ [_ [_ [_ [_ [H _]]]]]]]. Qed.

  Lemma castle_emits_mirror from :
    Permutation (castle_emits p' c' (mirror_sq from)) (map mirror_move (castle_emits p c from)).
  Proof.
    destruct (mirror_castling_spec _ castling_lt) as [_ [R1 [R2 [R3 R4]]]].
    unfold castle_emits, c'. destruct Hc as [E|E]; rewrite E.
    - change (opponent 0 =? White) with false. change (0 =? White) with true. cbv iota. rewrite map_app.
      apply Permutation_app.
      + change H8 with (mirror_sq H1). change G8 with (mirror_sq G1).
        rewrite <- E. fold c'. apply castle_emit_mirror; try (vm_compute; reflexivity). exact R3.
      + change A8 with (mirror_sq A1). change C8 with (mirror_sq C1).
        rewrite <- E. fold c'. apply castle_emit_mirror; try (vm_compute; reflexivity). exact R4.
    - change (opponent 1 =? White) with true. change (1 =? White) with false. cbv iota. rewrite map_app.
      apply Permutation_app.
      + change H1 with (mirror_sq H8). change G1 with (mirror_sq G8).
        rewrite <- E. fold c'. apply castle_emit_mirror; try (vm_compute; reflexivity). exact R1.
      + change A1 with (mirror_sq A8). change C1 with (mirror_sq C8).
        rewrite <- E. fold c'. apply castle_emit_mirror; try (vm_compute; reflexivity). exact R2.
  Qed.

  Lemma king_moves_mirror : Permutation (king_moves p' c') (map mirror_move (king_moves p c)).
  Proof.
    unfold king_moves. cbv zeta. rewrite (own_pget King) by (unfold King; lia).
    rewrite (flip_eqb0 _ (pget_word p c King HI)).
    destruct (N.eqb_spec (pget p c King) 0) as [E0|E0]; [constructor|].
    rewrite (ctz_flip_one _ (pget_word p c King HI) HK).
    assert (Hk : ctz (pget p c King) < 64) by (apply ctz_lt64; [exact E0|now apply pget_word]).
    destruct (king_board_mirror _ Hk) as [-> _]. rewrite map_app.
    apply Permutation_app; [apply step_moves_mirror|apply castle_emits_mirror].
  Qed.

  (** C20: the generator commutes with the mirror up to the emission order *)
  Theorem pseudo_legal_mirror_perm :
    Permutation (pseudo_legal_moves p' c') (map mirror_move (pseudo_legal_moves p c)).
  Proof.
    rewrite !pseudo_legal_split, !map_app.
    apply Permutation_app; [exact officer_moves_mirror|].
    apply Permutation_app; [exact pawn_moves_mirror|exact king_moves_mirror].
  Qed.
End Gen.

Theorem pseudo_legal_mirror p c : Inv p -> (c = 0 \/ c = 1) -> popcount (pget p c King) = 1 -> enpassant p <> 56 ->
  Permutation (pseudo_legal_moves (mirror_pos p) (opponent c)) (map mirror_move (pseudo_legal_moves p c)).
Proof. intros HI Hc HK Hep. now apply pseudo_legal_mirror_perm. Qed.

Print Assumptions pseudo_legal_mirror.
