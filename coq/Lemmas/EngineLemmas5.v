(** Link between the engine refinement relation of EngineLemmas1 and the relations of the C05 development
    (GameLemmas3/4/6): on a well-formed heap board they are the same relation, so that [ERel e g] is literally
    [wf (e_heap e) (e_board e) /\ GameLemmas6.GRel (e_heap e, e_board e) g]. *)
From Coq Require Import NArith ZArith List Bool.
From Morlock.Model Require Import Bits Attacks Move Position Zobrist Board Abs Engine.
From Morlock.Spec Require Import Chess Game.
From Morlock.Lemmas Require Import PositionLemmas BoardHeap1 GameLemmas3 GameLemmas4 GameLemmas6 EngineLemmas1.
Import ListNotations.
Open Scope N_scope.

Lemma estates_states d : forall t, estates d t = states d t.
Proof. induction d as [|e r IH]; intros t; [reflexivity|]. cbn [estates states]. unfold epos. now rewrite IH. Qed.

(** the relation of EngineLemmas1 is the list-view relation [ARel] of GameLemmas4 ... *)
Theorem EGRel_ARel h b g : EngineLemmas1.GRel (h, b) g <-> ARel (abs h b) g.
Proof. unfold EngineLemmas1.GRel, ARel. cbn [fst snd]. rewrite estates_states. tauto. Qed.

(** ... hence, on a well-formed board, the heap-board relation [GRel] of GameLemmas6 *)
Theorem EGRel_GRel h b g : wf h b -> (EngineLemmas1.GRel (h, b) g <-> GameLemmas6.GRel (h, b) g).
Proof. intros Hwf. rewrite EGRel_ARel. symmetry. now apply GameLemmas6.GRel_ARel. Qed.

Theorem ERel_GRel e g : ERel e g <-> wf (e_heap e) (e_board e) /\ GameLemmas6.GRel (e_heap e, e_board e) g.
Proof.
  unfold ERel. split; intros [Hwf H]; (split; [exact Hwf|]); now apply (EGRel_GRel _ _ _ Hwf).
Qed.

(** the C05 invariant of a played board gives the legal-position part of [EInv] *)
Theorem AInv_EInv z e : wf (e_heap e) (e_board e) -> AInv z (abs (e_heap e) (e_board e)) ->
  BoardHeap1.blocked (b_result (e_board e)) = false -> EInv e.
Proof.
  intros Hwf [Hh _] Hnb. split; [|exact Hnb].
  destruct (hist_head z _ _ Hh) as [_ [p [n [r [Hd Hleg]]]]].
  rewrite (get_position _ _ Hwf). unfold a_position. rewrite Hd. exact Hleg.
Qed.
Print Assumptions ERel_GRel.
