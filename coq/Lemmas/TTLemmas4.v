(** C17 -- transposition table, part 4: sequential refinement.  A single thread running its operations to
    completion under the micro-step semantics behaves exactly like the sequential model
    ([tt_read] / [tt_write] / [used]) -- same lookup results, same slot contents (up to node ids), same counter. *)
From Coq Require Import NArith ZArith List Bool Lia Arith.
From Morlock.Model Require Import Bits Score Move TT.
From Morlock.Lemmas Require Import TTLemmas TTLemmas2.
Import ListNotations.
Open Scope N_scope.

(** sequential execution of a program *)
Fixpoint seq_table (t : table) (ops : list top) : table :=
  match ops with
  | [] => t
  | TRead _ :: r => seq_table t r
  | TWrite h b p d sc m :: r => seq_table (tt_write t h b p d sc m) r
  end.
Fixpoint seq_outs (t : table) (ops : list top) : list (option (N * Z * score * move)) :=
  match ops with
  | [] => []
  | TRead h :: r => tt_read t h :: seq_outs t r
  | TWrite h b p d sc m :: r => seq_outs (tt_write t h b p d sc m) r
  end.

(** abstraction: forget node ids *)
Definition abs (s : cstate) : table := mkTable (map (node_of s) (c_slots s)) (c_used s).

Local Arguments val : simpl never.
Local Arguments fresh_entry : simpl never.
Local Arguments N.land : simpl never.
Local Arguments N.sub : simpl never.

Lemma nthN_map_node s l k : nthN (map (node_of s) l) k None = node_of s (nthN l k None).
Proof. unfold nthN. change (@None entry) with (node_of s None) at 1. apply map_nth. Qed.

Lemma key_abs s h : key (abs s) h = c_key s h.
Proof. unfold key, nslots, abs, c_key. simpl. rewrite map_length. reflexivity. Qed.

Lemma tt_read_abs s h : tt_read (abs s) h = read_out s h.
Proof. unfold tt_read, read_out. rewrite key_abs. simpl slots. rewrite nthN_map_node. reflexivity. Qed.

Lemma tt_write_abs s h b p d sc m :
  tt_write (abs s) h b p d sc m =
  let e := fresh_entry h b p d sc m in
  let old := node_of s (nthN (c_slots s) (c_key s h) None) in
  if val (Some e) <? val old then abs s
  else mkTable (updN (map (node_of s) (c_slots s)) (c_key s h) (Some e))
               (match old with None => c_used s + 1 | Some _ => c_used s end).
Proof.
  unfold tt_write, tt_write_ok. rewrite key_abs. simpl slots. rewrite nthN_map_node. simpl.
  destruct (val (Some (fresh_entry h b p d sc m)) <? val (node_of s (nthN (c_slots s) (c_key s h) None))); reflexivity.
Qed.

Lemma upd_map {A B} (f : A -> B) l i v : map f (upd l i v) = upd (map f l) i (f v).
Proof. revert i; induction l as [|x l IH]; intros [|i]; simpl; auto. f_equal. auto. Qed.

Definition nof (nodes : list entry) (p : option nat) : option entry :=
  match p with Some i => nth_error nodes i | None => None end.

Lemma map_nof_ext nodes ext sl :
  (forall k id, nth_error sl k = Some (Some id) -> (id < length nodes)%nat) ->
  map (nof (nodes ++ ext)) sl = map (nof nodes) sl.
Proof.
  intro H. apply map_ext_in. intros [id|] Hin; simpl; auto.
  apply In_nth_error in Hin. destruct Hin as [k Hk]. apply nth_error_app1. eauto.
Qed.

Lemma CInv_slot_range n progs s k id :
  CInv n progs s -> nth_error (c_slots s) k = Some (Some id) -> (id < length (c_nodes s))%nat.
Proof. intros H E. destruct (ci_slots _ _ _ H _ _ E) as (e & He & _). apply nth_error_Some. congruence. Qed.

(** forward step lemmas *)
Lemma fstep_read a s i t h rest :
  nth_error (c_threads s) i = Some t -> t_pc t = PIdle -> t_ops t = TRead h :: rest ->
  cstep a s i = Some (set_thread s i (mkThread rest PIdle (t_out t ++ [read_out s h]))).
Proof. intros Ht Hpc Hops. unfold cstep. rewrite Ht, Hpc, Hops. reflexivity. Qed.

Lemma fstep_alloc a s i t h b p d sc m rest :
  nth_error (c_threads s) i = Some t -> t_pc t = PIdle -> t_ops t = TWrite h b p d sc m :: rest ->
  cstep a s i = Some (set_thread (with_nodes s (c_nodes s ++ [fresh_entry h b p d sc m])) i
                        (mkThread (t_ops t) (PLoaded (length (c_nodes s)) (nthN (c_slots s) (c_key s h) None)) (t_out t))).
Proof. intros Ht Hpc Hops. unfold cstep. rewrite Ht, Hpc, Hops. reflexivity. Qed.

Lemma fstep_skip a s i t fr ptr h b p d sc m rest :
  nth_error (c_threads s) i = Some t -> t_pc t = PLoaded fr ptr -> t_ops t = TWrite h b p d sc m :: rest ->
  val (node_of s (Some fr)) <? val (node_of s ptr) = true ->
  cstep a s i = Some (set_thread s i (mkThread rest PIdle (t_out t))).
Proof. intros Ht Hpc Hops Hv. unfold cstep. rewrite Ht, Hpc, Hops, Hv. reflexivity. Qed.

Lemma fstep_cas a s i t fr ptr h b p d sc m rest :
  nth_error (c_threads s) i = Some t -> t_pc t = PLoaded fr ptr -> t_ops t = TWrite h b p d sc m :: rest ->
  val (node_of s (Some fr)) <? val (node_of s ptr) = false ->
  nthN (c_slots s) (c_key s h) None = ptr ->
  cstep a s i = Some (set_thread (with_slots s (updN (c_slots s) (c_key s h) (Some fr))) i
                        (match ptr with
                         | None => mkThread (t_ops t) PBump (t_out t)
                         | Some _ => mkThread rest PIdle (t_out t)
                         end)).
Proof.
  intros Ht Hpc Hops Hv Hcur. unfold cstep. rewrite Ht, Hpc, Hops, Hv, Hcur.
  replace (onat_eqb ptr ptr) with true by (symmetry; apply onat_eqb_eq; reflexivity).
  destruct ptr; reflexivity.
Qed.

Lemma fstep_bump s i t op rest :
  nth_error (c_threads s) i = Some t -> t_pc t = PBump -> t_ops t = op :: rest ->
  cstep true s i = Some (set_thread (with_used s (c_used s + 1)) i (mkThread rest PIdle (t_out t))).
Proof. intros Ht Hpc Hops. unfold cstep. rewrite Ht, Hpc, Hops. reflexivity. Qed.

Lemma crun_repeat_S a s k :
  crun a s (repeat 0%nat (S k)) = crun a (match cstep a s 0 with Some s' => s' | None => s end) (repeat 0%nat k).
Proof. reflexivity. Qed.

(** one operation of a lone thread = one operation of the sequential model *)
Lemma single_op n progs s op rest out :
  CInv n progs s -> c_threads s = [mkThread (op :: rest) PIdle out] ->
  exists k, (1 <= k <= 3)%nat /\
    let s' := crun true s (repeat 0%nat k) in
    c_threads s' = [mkThread rest PIdle (out ++ seq_outs (abs s) [op])] /\
    abs s' = seq_table (abs s) [op].
Proof.
  intros HC Hth.
  assert (Ht : nth_error (c_threads s) 0 = Some (mkThread (op :: rest) PIdle out)) by (rewrite Hth; reflexivity).
  destruct op as [h|h b p d sc m].
  - exists 1%nat. split; [lia|]. rewrite crun_repeat_S.
    rewrite (fstep_read true s 0 _ h rest Ht eq_refl eq_refl). simpl repeat. unfold crun. simpl fold_left.
    split.
    + simpl. rewrite Hth. simpl. rewrite tt_read_abs. reflexivity.
    + reflexivity.
  - (* write: allocate *)
    set (e := fresh_entry h b p d sc m).
    set (ptr := nthN (c_slots s) (c_key s h) None).
    set (fr := length (c_nodes s)).
    set (t1 := mkThread (TWrite h b p d sc m :: rest) (PLoaded fr ptr) out).
    set (s1 := set_thread (with_nodes s (c_nodes s ++ [e])) 0 t1).
    assert (E1 : cstep true s 0 = Some s1) by (apply (fstep_alloc true s 0 _ h b p d sc m rest Ht eq_refl eq_refl)).
    assert (Ht1 : nth_error (c_threads s1) 0 = Some t1) by (unfold s1; simpl; rewrite Hth; reflexivity).
    assert (Hfr : node_of s1 (Some fr) = Some e).
    { unfold s1, fr. simpl. rewrite nth_error_app2 by lia. rewrite Nat.sub_diag. reflexivity. }
    assert (Hmap : map (node_of s1) (c_slots s) = map (node_of s) (c_slots s)).
    { apply (map_nof_ext (c_nodes s) [e] (c_slots s)). intros k id. apply (CInv_slot_range _ _ _ _ _ HC). }
    assert (Hptr : node_of s1 ptr = node_of s ptr).
    { unfold ptr. rewrite <- !nthN_map_node. rewrite Hmap. reflexivity. }
    assert (Hkey : c_key s1 h = c_key s h) by reflexivity.
    assert (Hsl : c_slots s1 = c_slots s) by reflexivity.
    simpl seq_table. simpl seq_outs. rewrite app_nil_r. rewrite tt_write_abs. cbv zeta. fold e. fold ptr.
    destruct (val (Some e) <? val (node_of s ptr)) eqn:Hv.
    + (* give up *)
      exists 2%nat. split; [lia|]. rewrite crun_repeat_S, E1, crun_repeat_S.
      rewrite (fstep_skip true s1 0 t1 fr ptr h b p d sc m rest Ht1 eq_refl eq_refl) by (rewrite Hfr, Hptr; exact Hv).
      simpl repeat. unfold crun. simpl fold_left. split.
      * simpl. rewrite Hth. reflexivity.
      * unfold abs. rewrite <- Hmap. reflexivity.
    + assert (E2 := fstep_cas true s1 0 t1 fr ptr h b p d sc m rest Ht1 eq_refl eq_refl).
      rewrite Hfr, Hptr in E2. specialize (E2 Hv eq_refl).
      assert (Hnew : map (node_of s1) (updN (c_slots s) (c_key s h) (Some fr)) =
                     updN (map (node_of s) (c_slots s)) (c_key s h) (Some e)).
      { unfold updN. rewrite upd_map. rewrite Hmap, Hfr. reflexivity. }
      destruct ptr as [q|] eqn:Eptr.
      * (* replace a resident node *)
        assert (Hq : exists eq, node_of s (Some q) = Some eq).
        { pose proof (slot_loaded_in_range _ _ _ _ _ HC Eptr) as Hr. simpl.
          destruct (nth_error (c_nodes s) q) eqn:Eq; eauto. apply nth_error_None in Eq. lia. }
        destruct Hq as [eq Hq]. rewrite Hq.
        exists 2%nat. split; [lia|]. rewrite crun_repeat_S, E1, crun_repeat_S, E2.
        simpl repeat. unfold crun. simpl fold_left. split.
        -- simpl. rewrite Hth. reflexivity.
        -- unfold abs. rewrite <- Hnew. reflexivity.
      * (* fill an empty slot, then bump the counter *)
        set (s2 := set_thread (with_slots s1 (updN (c_slots s1) (c_key s1 h) (Some fr))) 0
                     (mkThread (t_ops t1) PBump (t_out t1))) in *.
        assert (Ht2 : nth_error (c_threads s2) 0 = Some (mkThread (t_ops t1) PBump (t_out t1)))
          by (unfold s2; simpl; rewrite Hth; reflexivity).
        exists 3%nat. split; [lia|]. rewrite crun_repeat_S, E1, crun_repeat_S, E2, crun_repeat_S.
        rewrite (fstep_bump s2 0 _ (TWrite h b p d sc m) rest Ht2 eq_refl eq_refl).
        simpl repeat. unfold crun. simpl fold_left. split.
        -- simpl. rewrite Hth. reflexivity.
        -- unfold abs. rewrite <- Hnew. reflexivity.
Qed.

Lemma seq_outs_cons t op rest : seq_outs t (op :: rest) = seq_outs t [op] ++ seq_outs (seq_table t [op]) rest.
Proof. destruct op; reflexivity. Qed.
Lemma seq_table_cons t op rest : seq_table t (op :: rest) = seq_table (seq_table t [op]) rest.
Proof. destruct op; reflexivity. Qed.

Lemma CInv_crun a n progs s sched : CInv n progs s -> CInv n progs (crun a s sched).
Proof.
  intro H. apply crun_invariant with (P := CInv n progs); auto.
  intros s0 i s' Hs Hst. eapply CInv_step; eauto.
Qed.

Lemma single_prog n progs : forall ops s out,
  CInv n progs s -> c_threads s = [mkThread ops PIdle out] ->
  exists k, (k <= 3 * length ops)%nat /\
    let s' := crun true s (repeat 0%nat k) in
    c_threads s' = [mkThread [] PIdle (out ++ seq_outs (abs s) ops)] /\
    abs s' = seq_table (abs s) ops.
Proof.
  induction ops as [|op rest IH]; intros s out HC Hth.
  - exists 0%nat. split; [simpl; lia|]. simpl. rewrite app_nil_r. auto.
  - destruct (single_op n progs s op rest out HC Hth) as (k1 & Hk1 & Hth1 & Habs1).
    set (s1 := crun true s (repeat 0%nat k1)) in *.
    assert (HC1 : CInv n progs s1) by (apply CInv_crun; exact HC).
    destruct (IH s1 _ HC1 Hth1) as (k2 & Hk2 & Hth2 & Habs2).
    exists (k1 + k2)%nat. split; [simpl length; lia|].
    rewrite repeat_app, crun_app. fold s1. cbv zeta. split.
    + rewrite Hth2. rewrite Habs1. rewrite <- app_assoc. rewrite <- seq_outs_cons. reflexivity.
    + rewrite Habs2, Habs1. rewrite <- seq_table_cons. reflexivity.
Qed.

Lemma finished_stays s out k :
  c_threads s = [mkThread [] PIdle out] -> crun true s (repeat 0%nat k) = s.
Proof.
  intro Hth. induction k as [|k IH]; [reflexivity|]. rewrite crun_repeat_S.
  replace (cstep true s 0) with (@None cstate); auto.
  unfold cstep. rewrite Hth. reflexivity.
Qed.

Lemma map_repeat_none {A B} (f : option A -> option B) n : f None = None -> map f (repeat None n) = repeat None n.
Proof. intro H. induction n as [|n IH]; simpl; auto. rewrite H, IH. reflexivity. Qed.

(** ** sequential refinement: a lone searcher sees exactly the sequential table.
    [mkTable (repeat None n) 0] is what [new_table] returns (with n = slot_count size). *)
Theorem sequential_refinement n ops :
  (0 < n)%nat ->
  exists k, (k <= 3 * length ops)%nat /\ forall k', (k <= k')%nat ->
    let s := crun true (c_init n [ops]) (repeat 0%nat k') in
    let t0 := mkTable (repeat None n) 0 in
    c_quiescent s = true /\
    map t_out (c_threads s) = [seq_outs t0 ops] /\
    map (node_of s) (c_slots s) = slots (seq_table t0 ops) /\
    c_used s = used (seq_table t0 ops) /\
    tt_used (seq_table t0 ops) = (c_used s, N.of_nat (length (c_slots s))).
Proof.
  intro Hn.
  assert (Habs0 : abs (c_init n [ops]) = mkTable (repeat None n) 0).
  { unfold abs. simpl. rewrite map_repeat_none by reflexivity. reflexivity. }
  destruct (single_prog n [ops] ops (c_init n [ops]) [] (CInv_init n [ops] Hn) eq_refl) as (k & Hk & Hth & Habs).
  exists k. split; auto. intros k' Hk'.
  replace k' with (k + (k' - k))%nat by lia. rewrite repeat_app, crun_app.
  rewrite (finished_stays _ _ (k' - k) Hth).
  set (s := crun true (c_init n [ops]) (repeat 0%nat k)) in *. cbv zeta.
  rewrite Habs0 in Hth, Habs. simpl in Hth.
  assert (Hsl : map (node_of s) (c_slots s) = slots (seq_table (mkTable (repeat None n) 0) ops))
    by (rewrite <- Habs; reflexivity).
  assert (Hu : c_used s = used (seq_table (mkTable (repeat None n) 0) ops)) by (rewrite <- Habs; reflexivity).
  repeat split; auto.
  - unfold c_quiescent. rewrite Hth. reflexivity.
  - rewrite Hth. reflexivity.
  - unfold tt_used, nslots. rewrite <- Hu, <- Hsl, map_length. reflexivity.
Qed.

(** non-vacuity: one thread, a store, a refused store, a replacing store and lookups *)
Example sequential_refinement_example :
  let ops := [TWrite 7 1 2%Z 3%Z (Score.heuristic 0) ex_mvB; TRead 7;
              TWrite 5 0 1%Z 2%Z (Score.mate_in 3) ex_mvA; TRead 5; TRead 7;
              TWrite 5 0 9%Z 2%Z (Score.mate_in 3) ex_mvA; TRead 5; TWrite 4 0 0%Z 0%Z (Score.heuristic 0) ex_mvA] in
  let s := crun true (c_init 2 [ops]) (repeat 0%nat 24) in
  let t0 := mkTable (repeat None 2) 0 in
  c_quiescent s = true /\ map t_out (c_threads s) = [seq_outs t0 ops] /\
  seq_outs t0 ops = [Some (1, 3%Z, Score.heuristic 0, Move.mkMove 0 6 21 0 0 0); None;
                     Some (1, 3%Z, Score.heuristic 0, Move.mkMove 0 6 21 0 0 0);
                     Some (0, 2%Z, Score.mate_in 3, Move.mkMove 0 12 28 0 0 0)] /\
  c_used s = 2 /\ used (seq_table t0 ops) = 2.
Proof. vm_compute. repeat split; reflexivity. Qed.

Print Assumptions sequential_refinement.
