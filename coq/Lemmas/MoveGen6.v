(** MoveGen6 — pawn moves: the moves emitted for a pawn (captures, pushes, jumps, the four promotions
    with and without capture, en passant) are exactly the specification's pawn moves, and each emitted
    record is the one the rules prescribe. *)
From Coq Require Import NArith ZArith List Bool Lia ZifyBool ZifyNat ZifyN.
From Morlock.Model Require Import Bits Attacks Move Position Abs.
From Morlock.Spec Require Import Chess.
From Morlock.Lemmas Require Import AttackGeometry AttackGeometry_Extra PositionLemmas MoveGen1 MoveGen2 MoveGen3 MoveGen4 MoveGen5.
Import ListNotations.
Open Scope N_scope.

Definition ep_cond (sp : spos) (s t : nat) : bool :=
  match eps sp with
  | Some e => Nat.eqb e t && negb (file_of s =? file_of t)%Z && negb (occupied (brd sp) t)
  | None => false
  end.

Lemma ep_cond_occ sp s t : occupied (brd sp) t = true -> ep_cond sp s t = false.
Proof. intros H. unfold ep_cond. destruct (eps sp); [|reflexivity]. now rewrite H, andb_false_r. Qed.
Lemma ep_cond_file sp s t : (file_of s =? file_of t)%Z = true -> ep_cond sp s t = false.
Proof. intros H. unfold ep_cond. destruct (eps sp); [|reflexivity]. now rewrite H, andb_false_r. Qed.

Lemma concretize_pawn' sp c s t pr c' : at_ (brd sp) s = Some (c', P) ->
  concretize sp c (mkSmove s t pr) =
  mkMove (if ep_cond sp s t then EnPassant
          else if (Z.abs (rank_of s - rank_of t) =? 2)%Z then Jump
          else if (rank_of t =? last_rank c)%Z
               then (if occupied (brd sp) t then CapturePromotion else Promotion)
               else (if occupied (brd sp) t then Capture else Push))
         (N.of_nat s) (N.of_nat t) Pawn (okind_code pr) (okind_code (captured sp (mkSmove s t pr))).
Proof. apply concretize_pawn. Qed.

Lemma pawn_geo_facts turn from : vcol turn -> 8 <= from < 56 ->
  let s := N.to_nat from in let c := color_of turn in let d := pawn_dir c in
  let t1 := N.to_nat (fwd turn from) in let t2 := N.to_nat (fwd turn (fwd turn from)) in
  on_board (file_of s) (rank_of s + d) = true /\
  sq_of (file_of s) (rank_of s + d) = t1 /\
  (file_of s =? file_of t1)%Z = true /\
  (Z.abs (rank_of s - rank_of t1) =? 2)%Z = false /\
  fwd turn from < 64 /\
  ((rank_of s =? start_rank c)%Z = N.testbit (pawn_jump_rank turn) (fwd turn (fwd turn from))) /\
  ((rank_of s =? start_rank c)%Z = true ->
     sq_of (file_of s) (rank_of s + 2 * d) = t2 /\ (file_of s =? file_of t2)%Z = true /\
     (Z.abs (rank_of s - rank_of t2) =? 2)%Z = true /\ fwd turn (fwd turn from) < 64) /\
  (forall t, In t (attacks_from free c P s) ->
     (t < 64)%nat /\ (file_of s =? file_of t)%Z = false /\ (Z.abs (rank_of s - rank_of t) =? 2)%Z = false).
Proof.
  intros Hc Hf. pose proof (pawn_geo turn from Hc Hf) as G. unfold pawn_geo_at in G. cbv zeta in *.
  apply andb_true_iff in G as [G A8]. apply andb_true_iff in G as [G A7].
  apply andb_true_iff in G as [G A6]. apply andb_true_iff in G as [G A5].
  apply andb_true_iff in G as [G A4]. apply andb_true_iff in G as [G A3].
  apply andb_true_iff in G as [A1 A2].
  split; [exact A1|]. split; [now apply Nat.eqb_eq|]. split; [exact A3|]. split; [lia|]. split; [lia|].
  split; [now apply eqb_prop|]. split.
  - intros HS. rewrite HS in A7. cbn [implb] in A7.
    apply andb_true_iff in A7 as [A7 B4]. apply andb_true_iff in A7 as [A7 B3].
    apply andb_true_iff in A7 as [B1 B2].
    split; [now apply Nat.eqb_eq|]. split; [exact B2|]. split; [exact B3|lia].
  - intros t Ht. rewrite forallb_forall in A8. specialize (A8 t Ht). lia.
Qed.

Lemma promo_code pc : In pc QueenRookKnightBishop ->
  exists k, In k promo_kinds /\ kind_of pc = Some k /\ pc = code_of_kind k.
Proof.
  unfold QueenRookKnightBishop, promo_kinds. cbn [In].
  intros [H|[H|[H|[H|[]]]]]; subst; [exists Q|exists R|exists Kn|exists Bi]; cbn; tauto.
Qed.

Lemma promo_kind_code k : In k promo_kinds -> In (code_of_kind k) QueenRookKnightBishop.
Proof.
  unfold QueenRookKnightBishop, promo_kinds. cbn [In].
  intros [H|[H|[H|[H|[]]]]]; subst; cbn; tauto.
Qed.

Section Pawn.
  Variables (p : position) (turn : N).
  Hypothesis HI : Inv p.
  Hypothesis Hc : vcol turn.
  Hypothesis Hep : enpassant p <> 0 -> N.testbit (all_bb p) (enpassant p) = false.
  Variable from : N.
  Hypothesis Hf : 8 <= from < 56.
  Hypothesis Hb : N.testbit (pget p turn Pawn) from = true.
  Local Notation sp := (abs_pos p).
  Local Notation b := (brd (abs_pos p)).
  Local Notation c := (color_of turn).
  Local Notation s := (N.to_nat from).
  Local Notation cb := (N.land (pawn_captureboard turn (bitmask from)) (own_mask p turn)).

  Lemma Eat_pawn : at_ b s = Some (c, P).
  Proof. apply at_piece; try assumption. lia. Qed.

  Lemma cb_bit to : N.testbit cb to = true <->
    to < 64 /\ In (N.to_nat to) (attacks_from (occupied b) c P s) /\ N.testbit (pget p turn NoPiece) to = false.
  Proof.
    unfold own_mask. rewrite N.land_spec, tb_not64, capture_bit by (try assumption; lia).
    change (attacks_from (occupied b) c P s) with (attacks_from free c P s).
    rewrite <- mem_nat_In.
    destruct (N.ltb_spec to 64); destruct (mem_nat (N.to_nat to) (attacks_from free c P s));
    destruct (N.testbit (pget p turn NoPiece) to); cbn [andb negb]; intuition (try discriminate; try lia).
  Qed.

  Lemma other_c : other c = color_of (opponent turn).
  Proof. now apply other_color_of. Qed.

  (** a capture target *)
  Lemma cap_target to : N.testbit cb to = true -> N.testbit (opp_all p turn) to = true ->
    to < 64 /\ In (N.to_nat to) (attacks_from (occupied b) c P s) /\
    is_color b (other c) (N.to_nat to) = true /\ occupied b (N.to_nat to) = true /\
    okind_code (captured sp (mkSmove s (N.to_nat to) None)) = capture_at p to turn.
  Proof.
    intros H1 H2. apply cb_bit in H1 as [Hto [Hin _]].
    destruct (opp_cell p turn to HI Hc Hto H2) as [k' [Ek' Ecap]].
    split; [exact Hto|]. split; [exact Hin|]. split; [|split].
    - rewrite other_c, is_color_abs; try assumption. apply vcol_opponent.
    - unfold occupied. now rewrite Ek'.
    - unfold captured. cbn [sto]. rewrite Ek'. cbn [okind_code]. now rewrite Ecap.
  Qed.

  Lemma empty_target to : N.testbit (all_bb p) to = false ->
    occupied b (N.to_nat to) = false /\ forall pr, okind_code (captured sp (mkSmove s (N.to_nat to) pr)) = NoPiece.
  Proof.
    intros H. assert (Ho : occupied b (N.to_nat to) = false) by (rewrite occupied_tb; assumption).
    split; [exact Ho|]. intros pr. unfold captured. cbn [sto]. unfold occupied in Ho.
    destruct (at_ b (N.to_nat to)); [discriminate|reflexivity].
  Qed.

  Theorem pawn_moves_from_sound m : In m (pawn_moves_from p turn from) ->
    In (abs_move m) (piece_moves sp c P s) /\ metadata_ok p turn m.
  Proof.
    intros Hm.
    destruct (pawn_geo_facts turn from Hc Hf) as [G1 [G2 [G3 [G4 [G5 [G6 [G7 G8]]]]]]].
    pose proof Eat_pawn as Eat.
    assert (Hf64 : from < 64) by lia.
    unfold pawn_moves_from in Hm. cbv zeta in Hm. unfold metadata_ok.
    apply in_app_or in Hm as [Hm|Hm]; [|apply in_app_or in Hm as [Hm|Hm]; [|apply in_app_or in Hm as [Hm|Hm];
      [|apply in_app_or in Hm as [Hm|Hm]; [|apply in_app_or in Hm as [Hm|Hm]]]]].
    - (* capture, no promotion *)
      apply emit_move_in in Hm as [to [Hbit ->]].
      change (if Capture =? Capture then capture_at p to turn else NoPiece) with (capture_at p to turn).
      rewrite tb_andnot, N.land_spec in Hbit. apply andb_true_iff in Hbit as [Hbit Hnp].
      apply andb_true_iff in Hbit as [Hcb Hopp]. apply negb_true_iff in Hnp.
      destruct (cap_target to Hcb Hopp) as [Hto [Hin [Hcol [Hocc Hcap]]]].
      rewrite tb_promos in Hnp by assumption.
      destruct (G8 _ Hin) as [_ [Gf Gr]].
      change (abs_move (mkMove Capture from to Pawn NoPiece (capture_at p to turn))) with (mkSmove s (N.to_nat to) None).
      split.
      + eapply spec_cap_in; [exact Hin|exact Hcol|]. apply pawn_moves_to_in. now rewrite Hnp.
      + rewrite (concretize_pawn' sp c s _ None c Eat), ep_cond_occ, Gr, Hnp, Hocc, Hcap, !N_of_to by exact Hocc.
        reflexivity.
    - (* push, no promotion *)
      apply emit_move_in in Hm as [to [Hbit ->]].
      change (if Push =? Capture then capture_at p to turn else NoPiece) with NoPiece.
      rewrite tb_andnot in Hbit. apply andb_true_iff in Hbit as [Hpb Hnp]. apply negb_true_iff in Hnp.
      apply push_bit in Hpb as [-> Hemp]; try assumption.
      rewrite tb_promos in Hnp by assumption.
      destruct (empty_target _ Hemp) as [Hocc Hcap].
      change (abs_move (mkMove Push from (fwd turn from) Pawn NoPiece NoPiece)) with (mkSmove s (N.to_nat (fwd turn from)) None).
      split.
      + rewrite <- G2. apply spec_push_in; [exact G1|rewrite G2; exact Hocc|].
        apply pawn_moves_to_in. rewrite G2. now rewrite Hnp.
      + rewrite (concretize_pawn' sp c s _ None c Eat), ep_cond_file, G4, Hnp, Hocc, Hcap, !N_of_to by exact G3.
        reflexivity.
    - (* jump *)
      apply emit_move_in in Hm as [to [Hbit ->]].
      change (if Jump =? Capture then capture_at p to turn else NoPiece) with NoPiece.
      apply jump_bit in Hbit as [-> [He1 [He2 HJ]]]; try assumption.
      rewrite <- G6 in HJ. destruct (G7 HJ) as [J1 [J2 [J3 J4]]].
      destruct (empty_target _ He1) as [Hocc1 _]. destruct (empty_target _ He2) as [Hocc2 Hcap].
      change (abs_move (mkMove Jump from (fwd turn (fwd turn from)) Pawn NoPiece NoPiece))
        with (mkSmove s (N.to_nat (fwd turn (fwd turn from))) None).
      split.
      + rewrite <- J1. apply spec_jump_in; [exact HJ|rewrite G2; exact Hocc1|rewrite J1; exact Hocc2].
      + rewrite (concretize_pawn' sp c s _ None c Eat), ep_cond_file, J3, Hcap, !N_of_to by exact J2.
        reflexivity.
    - (* capture with promotion *)
      apply emit_promo_in in Hm as [to [pc [Hbit [Hpc ->]]]].
      change (if CapturePromotion =? CapturePromotion then capture_at p to turn else NoPiece) with (capture_at p to turn).
      rewrite N.land_spec in Hbit. apply andb_true_iff in Hbit as [Hbit Hpr].
      rewrite N.land_spec in Hbit. apply andb_true_iff in Hbit as [Hcb Hopp].
      destruct (cap_target to Hcb Hopp) as [Hto [Hin [Hcol [Hocc Hcap]]]].
      rewrite tb_promos in Hpr by assumption.
      destruct (G8 _ Hin) as [_ [Gf Gr]].
      destruct (promo_code pc Hpc) as [k [Hk [Ek Epc]]].
      change (abs_move (mkMove CapturePromotion from to Pawn pc (capture_at p to turn))) with (mkSmove s (N.to_nat to) (kind_of pc)).
      rewrite Ek. split.
      + eapply spec_cap_in; [exact Hin|exact Hcol|]. apply pawn_moves_to_in. rewrite Hpr. exists k. auto.
      + rewrite (concretize_pawn' sp c s _ (Some k) c Eat), ep_cond_occ, Gr, Hpr, Hocc, !N_of_to by exact Hocc.
        change (captured sp (mkSmove s (N.to_nat to) (Some k))) with (captured sp (mkSmove s (N.to_nat to) None)).
        rewrite Hcap. cbn [okind_code]. now rewrite <- Epc.
    - (* push with promotion *)
      apply emit_promo_in in Hm as [to [pc [Hbit [Hpc ->]]]].
      change (if Promotion =? CapturePromotion then capture_at p to turn else NoPiece) with NoPiece.
      rewrite N.land_spec in Hbit. apply andb_true_iff in Hbit as [Hpb Hpr].
      apply push_bit in Hpb as [-> Hemp]; try assumption.
      rewrite tb_promos in Hpr by assumption.
      destruct (empty_target _ Hemp) as [Hocc Hcap].
      destruct (promo_code pc Hpc) as [k [Hk [Ek Epc]]].
      change (abs_move (mkMove Promotion from (fwd turn from) Pawn pc NoPiece)) with (mkSmove s (N.to_nat (fwd turn from)) (kind_of pc)).
      rewrite Ek. split.
      + rewrite <- G2. apply spec_push_in; [exact G1|rewrite G2; exact Hocc|].
        apply pawn_moves_to_in. rewrite G2, Hpr. exists k. auto.
      + rewrite (concretize_pawn' sp c s _ (Some k) c Eat), ep_cond_file, G4, Hpr, Hocc, Hcap, !N_of_to by exact G3.
        cbn [okind_code]. now rewrite <- Epc.
    - (* en passant *)
      destruct (N.eqb_spec (enpassant p) 0) as [E0|E0]; [destruct Hm|]. cbn [negb] in Hm.
      apply emit_move_in in Hm as [to [Hbit ->]].
      change (if EnPassant =? Capture then capture_at p to turn else NoPiece) with NoPiece.
      rewrite N.land_spec, tb_bitmask in Hbit. apply andb_true_iff in Hbit as [Hcb Hto].
      assert (Eto : to = enpassant p) by lia.
      pose proof (Hep E0) as Hemp. rewrite <- Eto in Hemp.
      apply cb_bit in Hcb as [Hto64 [Hin Hown]].
      destruct (empty_target _ Hemp) as [Hocc Hcap].
      destruct (G8 _ Hin) as [_ [Gf Gr]].
      assert (Eeps : eps sp = Some (N.to_nat to)).
      { unfold abs_pos. cbn [eps]. destruct (N.eqb_spec (enpassant p) 0); [contradiction|]. now rewrite Eto. }
      change (abs_move (mkMove EnPassant from to Pawn NoPiece NoPiece)) with (mkSmove s (N.to_nat to) None).
      split.
      + apply spec_ep_in; [exact Hin| |exact Eeps].
        unfold is_color. unfold occupied in Hocc. destruct (at_ b (N.to_nat to)); [discriminate|reflexivity].
      + rewrite (concretize_pawn' sp c s _ None c Eat).
        assert (Eec : ep_cond sp s (N.to_nat to) = true).
        { unfold ep_cond. rewrite Eeps, Nat.eqb_refl, Gf, Hocc. reflexivity. }
        rewrite Eec, Hcap, !N_of_to. reflexivity.
  Qed.

  Theorem pawn_moves_from_complete sm : In sm (piece_moves sp c P s) ->
    exists m, In m (pawn_moves_from p turn from) /\ abs_move m = sm.
  Proof.
    intros H.
    destruct (pawn_geo_facts turn from Hc Hf) as [G1 [G2 [G3 [G4 [G5 [G6 [G7 G8]]]]]]].
    assert (Hf64 : from < 64) by lia.
    apply spec_pawn_elim in H as [[_ [Hocc H]]|[[HJ [Ho1 [Ho2 ->]]]|[[t [Hin [Hcol H]]]|[t [Hin [Hcol [Heps ->]]]]]]].
    - (* single step *)
      rewrite G2 in Hocc, H. rewrite occupied_tb in Hocc by assumption.
      apply pawn_moves_to_in in H. rewrite <- (tb_promos turn) in H by assumption.
      destruct (N.testbit (pawn_promotion_rank turn) (fwd turn from)) eqn:Epr.
      + destruct H as [k [Hk ->]].
        exists (mkMove Promotion from (fwd turn from) Pawn (code_of_kind k) NoPiece). split.
        * unfold pawn_moves_from. cbv zeta. do 4 (apply in_or_app; right). apply in_or_app. left.
          apply emit_promo_in. exists (fwd turn from), (code_of_kind k). split; [|split; [now apply promo_kind_code|reflexivity]].
          rewrite N.land_spec, Epr, andb_true_r. apply push_bit; auto.
        * unfold abs_move. cbn [mfrom mto mpromo]. change (is_promotion _) with true. cbv iota.
          now rewrite kind_of_code.
      + subst sm. exists (mkMove Push from (fwd turn from) Pawn NoPiece NoPiece). split; [|reflexivity].
        unfold pawn_moves_from. cbv zeta. apply in_or_app. right. apply in_or_app. left.
        apply emit_move_in. exists (fwd turn from). split; [|reflexivity].
        rewrite tb_andnot, Epr, andb_true_r. apply push_bit; auto.
    - (* double step *)
      destruct (G7 HJ) as [J1 [J2 [J3 J4]]]. rewrite G2 in Ho1. rewrite J1 in Ho2 |- *.
      rewrite occupied_tb in Ho1, Ho2 by assumption.
      exists (mkMove Jump from (fwd turn (fwd turn from)) Pawn NoPiece NoPiece). split; [|reflexivity].
      unfold pawn_moves_from. cbv zeta. do 2 (apply in_or_app; right). apply in_or_app. left.
      apply emit_move_in. exists (fwd turn (fwd turn from)). split; [|reflexivity].
      apply jump_bit; try assumption. rewrite <- G6. auto.
    - (* capture *)
      destruct (G8 _ Hin) as [Ht _].
      set (to := N.of_nat t). assert (Hto : to < 64) by (unfold to; lia).
      assert (Et : t = N.to_nat to) by (unfold to; lia). rewrite Et in Hin, Hcol, H.
      rewrite other_c, is_color_abs in Hcol; try assumption; [|apply vcol_opponent].
      assert (Hcb : N.testbit cb to = true).
      { apply cb_bit. split; [exact Hto|]. split; [exact Hin|].
        destruct (N.testbit (pget p turn NoPiece) to) eqn:Own; [|reflexivity].
        exfalso. eapply own_opp_disj; eauto. }
      apply pawn_moves_to_in in H. rewrite <- (tb_promos turn) in H by assumption.
      destruct (N.testbit (pawn_promotion_rank turn) to) eqn:Epr.
      + destruct H as [k [Hk ->]].
        exists (mkMove CapturePromotion from to Pawn (code_of_kind k) (capture_at p to turn)). split.
        * unfold pawn_moves_from. cbv zeta. do 3 (apply in_or_app; right). apply in_or_app. left.
          apply emit_promo_in. exists to, (code_of_kind k). split; [|split; [now apply promo_kind_code|reflexivity]].
          do 2 rewrite N.land_spec. rewrite Epr, andb_true_r, Hcb. exact Hcol.
        * unfold abs_move. cbn [mfrom mto mpromo]. change (is_promotion _) with true. cbv iota.
          now rewrite kind_of_code, <- Et.
      + subst sm. exists (mkMove Capture from to Pawn NoPiece (capture_at p to turn)). split.
        * unfold pawn_moves_from. cbv zeta. apply in_or_app. left.
          apply emit_move_in. exists to. split; [|reflexivity].
          rewrite tb_andnot, N.land_spec, Epr, andb_true_r, Hcb. exact Hcol.
        * unfold abs_move. cbn [mfrom mto mpromo]. change (is_promotion _) with false. cbv iota. now rewrite <- Et.
    - (* en passant *)
      destruct (G8 _ Hin) as [Ht _].
      unfold abs_pos in Heps. cbn [eps] in Heps.
      destruct (N.eqb_spec (enpassant p) 0) as [E0|E0]; [discriminate|]. inversion Heps as [Et].
      rewrite <- Et in Hin.
      exists (mkMove EnPassant from (enpassant p) Pawn NoPiece NoPiece). split; [|reflexivity].
      unfold pawn_moves_from. cbv zeta. do 5 (apply in_or_app; right).
      destruct (N.eqb_spec (enpassant p) 0); [contradiction|]. cbn [negb].
      apply emit_move_in. exists (enpassant p). split; [|reflexivity].
      pose proof HI as [_ [_ [_ [_ [_ [_ [_ Hep64]]]]]]].
      rewrite N.land_spec, tb_bitmask, N.eqb_refl. destruct (N.ltb_spec (enpassant p) 64); [|lia].
      rewrite andb_true_r. apply cb_bit. split; [exact Hep64|]. split; [exact Hin|].
      pose proof (Hep E0) as Hemp. rewrite (all_own_opp p turn _ HI Hc) in Hemp.
      now apply orb_false_iff in Hemp.
  Qed.
End Pawn.

(** * all pawns *)

Section Pawns.
  Variables (p : position) (turn : N).
  Hypothesis HI : Inv p.
  Hypothesis Hc : vcol turn.
  Hypothesis Hep : enpassant p <> 0 -> N.testbit (all_bb p) (enpassant p) = false.
  Hypothesis Hranks : N.land (N.lor (pget p White Pawn) (pget p Black Pawn)) (N.lor (bitrank 0) (bitrank 7)) = 0.

  Theorem pawn_moves_sound m : In m (pawn_moves p turn) ->
    In (abs_move m) (piece_candidates (abs_pos p) (color_of turn)) /\ metadata_ok p turn m.
  Proof.
    unfold pawn_moves. rewrite in_flat_map. intros [from [Hfrom H]]. apply bits_asc_spec in Hfrom.
    pose proof (pawn_range p turn from HI Hc Hranks Hfrom) as Hf.
    destruct (pawn_moves_from_sound p turn HI Hc Hep from Hf Hfrom m H) as [H1 H2]. split; [|exact H2].
    eapply piece_candidates_in; [| |exact H1]; [lia|]. now apply Eat_pawn.
  Qed.

  Theorem pawn_moves_complete s sm : (s < 64)%nat ->
    at_ (brd (abs_pos p)) s = Some (color_of turn, P) -> In sm (piece_moves (abs_pos p) (color_of turn) P s) ->
    exists m, In m (pawn_moves p turn) /\ abs_move m = sm.
  Proof.
    intros Hs E H. set (from := N.of_nat s). assert (Hf64 : from < 64) by (unfold from; lia).
    assert (Es : s = N.to_nat from) by (unfold from; lia). rewrite Es in E, H.
    apply at_piece in E; try assumption. change (code_of_kind P) with Pawn in E.
    pose proof (pawn_range p turn from HI Hc Hranks E) as Hf.
    destruct (pawn_moves_from_complete p turn HI Hc Hep from Hf E sm H) as [m [Hm Em]].
    exists m. split; [|exact Em]. unfold pawn_moves. apply in_flat_map. exists from.
    split; [now apply bits_asc_spec|exact Hm].
  Qed.
End Pawns.
