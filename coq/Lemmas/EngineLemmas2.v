(** C10 / C14, engine part 2: Engine.Reset builds the game the FEN describes; the FEN reported by
    Engine.Position is the standard FEN of the game (C14, engine part); what the clocks of the specification
    game count. *)
From Coq Require Import NArith ZArith List Bool Lia ZifyBool ZifyNat ZifyN.
From Morlock.Model Require Import Bits Attacks Move Position Zobrist Board Fen Abs Engine EngineSpec.
From Morlock.Spec Require Import Chess Game.
From Morlock.Lemmas Require Import PositionLemmas MoveRefines2 MoveGen7 BoardHeap1 BoardHeap3
  FenLemmas1 FenLemmas2 FenLemmas3 GameLemmas2 EngineLemmas1.
Import ListNotations.
Open Scope N_scope.

(* ------------------------------------------------------------------ *)
(** * 1. Engine.Reset *)

(** the FEN decodes to a legal position ("legal start position") *)
Definition fen_legal (fen : str) : Prop :=
  exists pos t np fm, decode fen = Ok (pos, t, np, fm) /\ wf_b pos t = true.

Lemma new_board_view z pos t np fm :
  let hb := new_board z [] pos t np fm in
  data (fst hb) (snd hb) = [(pos, zhash z pos t, np)] /\ b_position (fst hb) (snd hb) = pos /\
  b_turn (snd hb) = t /\ b_moves (snd hb) = fm /\ b_result (snd hb) = no_result.
Proof.
  cbv zeta. unfold new_board. cbn [fst snd app length b_turn b_moves b_result].
  set (n := mkNode pos (zhash z pos t) np no_move None).
  assert (Hn : hnode [n] 0 = n) by reflexivity.
  split; [|split; [|repeat split]].
  - unfold data, chain, cids. cbn [b_current cids_f]. rewrite Hn. cbn [n_prev n map]. rewrite Hn. reflexivity.
  - unfold b_position. cbn [b_current]. rewrite Hn. reflexivity.
Qed.

Theorem reset_refines z e fen e' ok : eng_reset z e fen = (e', ok) ->
  (ok = true -> exists g, gstate_of_fen fen = Some g /\ ERel e' g /\ (fen_legal fen -> EInv e')) /\
  (ok = false -> e' = e /\ gstate_of_fen fen = None).
Proof.
  unfold eng_reset, gstate_of_fen. intros H.
  destruct (decode fen) as [[[[pos t] np] fm]| |] eqn:Hd.
  2,3: inversion H; subst; split; [discriminate|auto].
  destruct (new_board z [] pos t (Z.to_N np) fm) as [h b] eqn:Hnb. inversion H; subst. clear H.
  split; [|discriminate]. intros _.
  destruct (decode_clocks _ _ _ _ _ Hd) as [[Hnp Hnp'] _].
  pose proof (decode_wf _ _ Hd) as Hwfv. unfold wf_value in Hwfv.
  assert (Ht : t = White \/ t = Black) by (unfold White, Black; lia).
  pose proof (wf_new z pos t (Z.to_N np) fm h b Ht Hnb) as Hwf.
  pose proof (new_board_view z pos t (Z.to_N np) fm) as Hv. cbv zeta in Hv. rewrite Hnb in Hv. cbn [fst snd] in Hv.
  destruct Hv as [Hdata [Hpos [Hturn [Hmoves Hres]]]].
  eexists. split; [reflexivity|]. split; [split|].
  - exact Hwf.
  - unfold GRel. cbn [fst snd e_heap e_board]. unfold a_noprogress, abs. cbn [a_data a_turn a_moves].
    rewrite Hdata, Hturn, Hmoves. cbn [estates fst hd snd g_start g_pos g_turn g_past g_clock g_fullmove].
    repeat split. unfold clk_rel, max_int. unfold max_int64 in Hnp'. lia.
  - intros [pos' [t' [np' [fm' [Hd' Hleg]]]]]. rewrite Hd in Hd'. inversion Hd'; subst pos' t' np' fm'.
    split; cbn [e_heap e_board]; [now rewrite Hpos, Hturn|now rewrite Hres].
Qed.
Print Assumptions reset_refines.

Corollary reset_ok_iff z e fen : snd (eng_reset z e fen) = true <-> gstate_of_fen fen <> None.
Proof.
  destruct (eng_reset z e fen) as [e' ok] eqn:H. destruct (reset_refines z e fen e' ok H) as [H1 H2]. cbn [snd].
  destruct ok.
  - destruct (H1 eq_refl) as [g [-> _]]. split; congruence.
  - destruct (H2 eq_refl) as [_ ->]. split; congruence.
Qed.

(** the start position is a legal start position *)
Lemma fen_initial_legal : fen_legal fen_initial.
Proof.
  destruct (decode fen_initial) as [[[[pos t] np] fm]| |] eqn:Hd.
  - exists pos, t, np, fm. split; [exact Hd|].
    assert (G : match decode fen_initial with Ok (pos, t, _, _) => wf_b pos t | _ => false end = true)
      by (vm_compute; reflexivity).
    now rewrite Hd in G.
  - assert (G : match decode fen_initial with Ok _ => true | _ => false end = true) by (vm_compute; reflexivity).
    rewrite Hd in G. discriminate.
  - assert (G : match decode fen_initial with Ok _ => true | _ => false end = true) by (vm_compute; reflexivity).
    rewrite Hd in G. discriminate.
Qed.

(* ------------------------------------------------------------------ *)
(** * 2. Engine.Position reports the standard FEN of the game (C14, engine part) *)

Theorem engine_fen_standard e g : ERel e g -> EInv e ->
  (g_clock g <= max_int64)%Z -> (0 <= g_fullmove g <= max_int64)%Z ->
  decode (eng_position e) =
    Ok (b_position (e_heap e) (e_board e), b_turn (e_board e), g_clock g, g_fullmove g) /\
  abs_pos (b_position (e_heap e) (e_board e)) = g_pos g /\
  color_of (b_turn (e_board e)) = g_turn g.
Proof.
  intros [Hwf Hrel] [Hleg _] Hc Hf.
  destruct (grel_now _ _ g Hwf Hrel) as [Epos [Eturn [Eclk [Emv _]]]].
  pose proof Hwf as [_ [_ [_ Ht]]]. unfold turn_ok, White, Black in Ht.
  split; [|split; assumption].
  assert (Eclk' : Z.of_N (b_noprogress (e_heap e) (e_board e)) = g_clock g).
  { apply clk_rel_exact; [exact Eclk|]. unfold max_int64 in Hc. unfold max_int. lia. }
  unfold eng_position. rewrite Eclk', Emv.
  apply decode_encode; try assumption.
  - exact (wf_inv _ _ (wf_b_WF _ _ Hleg)).
  - lia.
Qed.
Print Assumptions engine_fen_standard.

(** the weaker reading: the reported FEN decodes to (some representation of) the game's position, side to move and
    clocks *)
Corollary engine_fen_standard_ex e g : ERel e g -> EInv e ->
  (g_clock g <= max_int64)%Z -> (0 <= g_fullmove g <= max_int64)%Z ->
  exists p t, decode (eng_position e) = Ok (p, t, g_clock g, g_fullmove g) /\
              abs_pos p = g_pos g /\ color_of t = g_turn g.
Proof. intros H1 H2 H3 H4. destruct (engine_fen_standard e g H1 H2 H3 H4) as [A [B C]]. eauto. Qed.

(* ------------------------------------------------------------------ *)
(** * 3. what the clocks of the specification game count *)

(** a move that resets the half-move clock: capture (en passant included) or pawn move *)
Definition zeroing (g : gstate) (m : smove) : bool := is_capture_move (g_pos g) m || is_pawn_move (g_pos g) m.

Lemma g_clock_spec g m : g_clock (g_play g m) = (if zeroing g m then 0 else g_clock g + 1)%Z.
Proof. reflexivity. Qed.

Lemma g_fullmove_spec g m :
  g_fullmove (g_play g m) = (match g_turn g with Bl => g_fullmove g + 1 | Wh => g_fullmove g end)%Z.
Proof. reflexivity. Qed.

Lemma g_turn_play g m : g_turn (g_play g m) = other (g_turn g).
Proof. reflexivity. Qed.

Lemma g_past_play g m : g_past (g_play g m) = (g_pos g, g_turn g) :: g_past g.
Proof. reflexivity. Qed.

(** no move of [ms], played from [g], is a capture or a pawn move *)
Fixpoint quiet (g : gstate) (ms : list smove) : bool :=
  match ms with [] => true | m :: r => negb (zeroing g m) && quiet (g_play g m) r end.

Lemma g_play_all_cons g m ms : g_play_all g (m :: ms) = g_play_all (g_play g m) ms.
Proof. reflexivity. Qed.
Lemma g_play_all_app g a b : g_play_all g (a ++ b) = g_play_all (g_play_all g a) b.
Proof. unfold g_play_all. apply fold_left_app. Qed.

(** without pawn move or capture the clock counts on from the set-up value *)
Theorem g_clock_quiet ms : forall g, quiet g ms = true ->
  g_clock (g_play_all g ms) = (g_clock g + Z.of_nat (length ms))%Z.
Proof.
  induction ms as [|m r IH]; intros g H; [cbn; lia|].
  cbn [quiet] in H. apply andb_true_iff in H as [H1 H2]. apply negb_true_iff in H1.
  rewrite g_play_all_cons, (IH _ H2), g_clock_spec, H1. cbn [length]. lia.
Qed.

(** the clock is the number of half-moves since the last pawn move or capture *)
Theorem g_clock_since_last g ms1 m ms2 :
  zeroing (g_play_all g ms1) m = true -> quiet (g_play (g_play_all g ms1) m) ms2 = true ->
  g_clock (g_play_all g (ms1 ++ m :: ms2)) = Z.of_nat (length ms2).
Proof.
  intros Hz Hq. rewrite g_play_all_app, g_play_all_cons, (g_clock_quiet _ _ Hq), g_clock_spec, Hz. lia.
Qed.

(** the full-move number is incremented after each move of Black *)
Theorem g_fullmove_all ms : forall g,
  g_fullmove (g_play_all g ms) =
  (g_fullmove g + (Z.of_nat (length ms) + match g_turn g with Bl => 1 | Wh => 0 end) / 2)%Z.
Proof.
  induction ms as [|m r IH]; intros g.
  - cbn [g_play_all fold_left length]. destruct (g_turn g); cbn; lia.
  - rewrite g_play_all_cons, IH, g_fullmove_spec, g_turn_play. cbn [length].
    destruct (g_turn g); cbn [other]; rewrite Nat2Z.inj_succ.
    + f_equal. f_equal. lia.
    + replace (Z.succ (Z.of_nat (length r)) + 1)%Z with (Z.of_nat (length r) + 0 + 1 * 2)%Z by lia.
      rewrite Z.div_add by lia. lia.
Qed.

Print Assumptions g_clock_since_last.
Print Assumptions g_fullmove_all.
