(** MinimaxRefines, part 2: the refinement relation [RG] between the nodes [aboard] of the model's search tree
    (Lemmas/SearchBoardInst1.v) and the states [gstate] of the specification game (Spec/Game.v).

    [RG z p g] := [GInv p] (side is a colour, legal position, castled flags consistent with the rights)
               /\ [AInv z p] (the history list is a played game with truthful hashes, the repetition map
                             counts hashes)
               /\ [ARel p g] (same position, side, earlier states - hence same occurrence counts -, half-move
                             clock and full-move number).
    The result flag of [p] is not constrained ([RG_norm]); where it matters ([bdrawn]) it is stated apart.

      - [RG_new], [RG_of_Game]   holds for [new_board] from a legal set-up against [g_start], and for any
                                 board carrying a game in the sense of C05 ([Game], GameLemmas6)
      - [RG_child]               preserved by [bchild z p m = Some c] against [g_play g (abs_move m)], and
                                 [bdrawn c = drawn_here (g_play g (abs_move m))]: the Draw flag of a child
                                 (pushed from the parent with its flag RESET, which is what [bchild] and the
                                 search do) is exactly "a draw condition holds for the position just reached"
      - [legal_correspond]       the moves with a child, mapped by [abs_move], are exactly [spec_legal], without
                                 repetition on the model side; [legal_perm] a permutation if the
                                 specification's list has no repetition either (which part 5 proves
                                 unconditionally: [legal_permutation])
      - [has_legal_spec], [bmated_spec], [term_value_spec]. *)
From Coq Require Import NArith ZArith List Bool Lia Permutation.
From Morlock.Model Require Import Bits Score Attacks Move Position Zobrist Board Search SearchBoard Abs.
From Morlock.Spec Require Import Chess Game Minimax.
From Morlock.Lemmas Require Import PositionLemmas BoardHeap1 BoardHeap2 BoardHeap3 MoveRefines2 MoveGen2 MoveGen7 MoveGen10
     GameLemmas3 GameLemmas4 GameLemmas5 GameLemmas6 SearchContract SearchBoardInst1.
Import ListNotations.
Open Scope Z_scope.

Section RG.
  Variable z : ztable.
  Hypothesis Hzt : zt_ok z.

  Definition RG (p : aboard) (g : gstate) : Prop := GInv p /\ AInv z p /\ ARel p g.

  (** the result flag plays no role *)
  Lemma RG_norm p g : RG p g <-> RG (norm p) g.
  Proof. split; intros H; exact H. Qed.

  Lemma RG_congr p p' g : aeq_nr p p' -> RG p g -> RG p' g.
  Proof.
    intros E (HG & [Hh Hc] & [A [B C]]). split; [eapply GInv_congr; eassumption|].
    destruct E as (Er & _ & _ & _ & Em & Et & Ed & _).
    split; [split|split; [|split]].
    - rewrite <- Ed, <- Et. exact Hh.
    - intros k. rewrite <- Er, <- Ed. apply Hc.
    - rewrite <- Ed, <- Et. exact A.
    - unfold a_noprogress in *. rewrite <- Ed. exact B.
    - rewrite <- Em. exact C.
  Qed.

  (** what [RG] says about the current position *)
  Lemma RG_facts p g : RG p g ->
    vcol (a_turn p) /\ wf_b (a_position p) (a_turn p) = true /\ PositionLemmas.Inv (a_position p) /\
    abs_pos (a_position p) = g_pos g /\ color_of (a_turn p) = g_turn g /\
    Z.of_N (a_noprogress p) = Z.min (g_clock g) (Z.of_N max_int).
  Proof.
    intros (_ & [Hh _] & [A [B _]]).
    destruct (hist_head z _ _ Hh) as [Ht [pos [n [r [Ed Hwf]]]]].
    unfold a_position, a_noprogress in *. rewrite Ed in *. cbn [hd fst snd states epos] in *.
    inversion A as [[E1 E2 E3]].
    split; [exact Ht|]. split; [exact Hwf|]. split; [exact (wf_inv _ _ (wf_b_WF _ _ Hwf))|].
    split; [auto|]. split; [auto|exact B].
  Qed.

  (** ** set-up *)
  Theorem RG_of_Game h b g p : Game z h b g -> BAt p (h, b) -> RG p g.
  Proof.
    intros (_ & HA & HR & _) (_ & Heq & HG). cbn [fst snd] in Heq.
    apply (RG_congr (abs h b) p g Heq). split; [|split; assumption].
    eapply GInv_congr; [apply aeq_nr_sym; exact Heq|exact HG].
  Qed.

  Theorem RG_new pos turn np fm : wf_b pos turn = true -> (turn = White \/ turn = Black) ->
    (np <= max_int)%N ->
    let gb := new_board z [] pos turn np fm in
    RG (abs (fst gb) (snd gb)) (g_start (abs_pos pos) (color_of turn) (Z.of_N np) fm) /\
    BAt (abs (fst gb) (snd gb)) gb /\ gb_draw gb = false.
  Proof.
    intros Hw Ht Hnp gb.
    assert (Hwf : wf (fst gb) (snd gb)) by (apply (wf_new z pos turn np fm); [exact Ht|reflexivity]).
    destruct (Game_new z pos turn np fm (fst gb) (snd gb) Hw Ht Hnp eq_refl) as [HGame _].
    assert (HB : BAt (abs (fst gb) (snd gb)) gb).
    { split; [exact Hwf|]. split; [apply aeq_nr_refl|]. split; [exact Ht|]. split.
      - rewrite <- (get_position _ _ Hwf). exact Hw.
      - intros c _ H. unfold acastled in H. cbn in H. destruct (c =? White)%N; discriminate H. }
    split; [|split; [exact HB|reflexivity]].
    eapply RG_of_Game; [exact HGame|exact HB].
  Qed.

  (** ** children *)
  Lemma bchild_inv p m c : bchild z p m = Some c ->
    In m (bmoves p) /\ apush z (norm p) m = (c, true) /\ exists next, pos_move (a_position p) m = Some next.
  Proof.
    unfold bchild. destruct (move_mem m (bmoves p)) eqn:Em; [|intros H; discriminate H].
    intros H. apply move_mem_in in Em. apply bchild_raw_some in H. split; [exact Em|]. split; [exact H|].
    destruct (apush_inv z _ _ _ _ H) as [(E & _)|(_ & _ & next & Hn & _)]; [discriminate E|]. exists next. exact Hn.
  Qed.

  Lemma bchild_none_iff p m : In m (bmoves p) -> (bchild z p m = None <-> pos_move (a_position p) m = None).
  Proof.
    intros Hin. unfold bchild. rewrite (proj2 (move_mem_in _ _) Hin).
    split; [apply bchild_raw_none|apply bchild_raw_none_intro].
  Qed.

  Lemma drawn_of_result now : (outcome (result_after now neutral_result) =? Draw)%N = match now with [] => false | _ => true end.
  Proof.
    destruct now as [|d l]; [reflexivity|]. rewrite result_after_draw by discriminate. reflexivity.
  Qed.

  Theorem RG_child p g m c : RG p g -> bchild z p m = Some c ->
    RG c (g_play g (abs_move m)) /\ bdrawn c = drawn_here (g_play g (abs_move m)).
  Proof.
    intros (HG & HA & HR) Hc. destruct (bchild_inv p m c Hc) as (Hin & Hpush & _).
    destruct (apush_step z Hzt potential potential_step (norm p) g m c HA HR Hin Hpush) as (HA1 & HR1 & Hres & _).
    split.
    - split; [eapply apush_GInv; eassumption|]. split; assumption.
    - unfold bdrawn, drawn_here. rewrite Hres. apply drawn_of_result.
  Qed.

  (** ** legal moves *)
  Notation blegalb := (legalb aboard (bchild z)).
  Notation bhas_legal := (has_legal aboard bmoves (bchild z)).

  Lemma legal_filter p : filter (blegalb p) (bmoves p) = legal_moves (a_position p) (a_turn p).
  Proof.
    unfold legal_moves, bmoves, real_moves. apply filter_ext_in. intros m Hin. unfold legalb.
    pose proof (bchild_none_iff p m Hin) as H.
    destruct (bchild z p m) as [c|]; destruct (pos_move (a_position p) m) as [n|]; try reflexivity.
    - destruct H as [_ H]. discriminate (H eq_refl).
    - destruct H as [H _]. discriminate (H eq_refl).
  Qed.

  Theorem legal_correspond p g : RG p g ->
    (forall sm, In sm (spec_legal (g_pos g) (g_turn g)) <->
                exists m c, In m (bmoves p) /\ bchild z p m = Some c /\ abs_move m = sm) /\
    (forall sm, In sm (spec_legal (g_pos g) (g_turn g)) <-> In sm (map abs_move (filter (blegalb p) (bmoves p)))) /\
    NoDup (map abs_move (filter (blegalb p) (bmoves p))).
  Proof.
    intros HRG. destruct (RG_facts p g HRG) as (Ht & Hwf & _ & Ep & Ec & _).
    destruct (legal_moves_fide (a_position p) (a_turn p) Hwf Ht) as [Hiff Hnd].
    rewrite Ep, Ec in Hiff. rewrite <- (legal_filter p) in Hiff, Hnd.
    split; [|split; [intros sm; symmetry; apply Hiff|exact Hnd]].
    intros sm. rewrite <- Hiff. rewrite in_map_iff. split.
    - intros (m & Em & Hm). apply filter_In in Hm as [Hin Hl]. unfold legalb in Hl.
      destruct (bchild z p m) as [c|] eqn:Ec'; [|discriminate Hl]. exists m, c. auto.
    - intros (m & c & Hin & Hc & Em). exists m. split; [exact Em|]. apply filter_In. split; [exact Hin|].
      unfold legalb. rewrite Hc. reflexivity.
  Qed.

  (** with a repetition-free specification list the two lists are permutations of each other *)
  Corollary legal_perm p g : RG p g -> NoDup (spec_legal (g_pos g) (g_turn g)) ->
    Permutation (map abs_move (filter (blegalb p) (bmoves p))) (spec_legal (g_pos g) (g_turn g)).
  Proof.
    intros HRG Hnd. destruct (legal_correspond p g HRG) as (_ & Hiff & Hnd').
    apply NoDup_Permutation; [exact Hnd'|exact Hnd|]. intros sm. symmetry. apply Hiff.
  Qed.

  Theorem has_legal_spec p g : RG p g ->
    bhas_legal p = match spec_legal (g_pos g) (g_turn g) with [] => false | _ => true end.
  Proof.
    intros HRG. destruct (legal_correspond p g HRG) as (Hiff & _).
    destruct (spec_legal (g_pos g) (g_turn g)) as [|sm l] eqn:El.
    - destruct (bhas_legal p) eqn:Eh; [|reflexivity]. exfalso. unfold has_legal in Eh.
      apply existsb_exists in Eh as (m & Hin & Hl). unfold legalb in Hl.
      destruct (bchild z p m) as [c|] eqn:Ec; [|discriminate Hl].
      apply (proj2 (Hiff (abs_move m))). exists m, c. auto.
    - destruct (proj1 (Hiff sm) (or_introl eq_refl)) as (m & c & Hin & Hc & _).
      unfold has_legal. apply existsb_exists. exists m. split; [exact Hin|]. unfold legalb. rewrite Hc. reflexivity.
  Qed.

  Theorem bmated_spec p g : RG p g -> bmated p = in_check (brd (g_pos g)) (g_turn g).
  Proof.
    intros HRG. destruct (RG_facts p g HRG) as (Ht & _ & HI & Ep & Ec & _).
    unfold bmated. rewrite (is_checked_iff_gen _ _ HI Ht), Ep, Ec. reflexivity.
  Qed.

  Theorem term_value_spec p g : RG p g -> term_value aboard bmated p = terminal_value g.
  Proof. intros HRG. unfold term_value, terminal_value. rewrite (bmated_spec p g HRG). reflexivity. Qed.
End RG.

Print Assumptions RG_new.
Print Assumptions RG_child.
Print Assumptions legal_correspond.
Print Assumptions has_legal_spec.
Print Assumptions term_value_spec.
