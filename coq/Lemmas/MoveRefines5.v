(** C02, part 5: legal positions are closed under legal moves ([wf_b] is preserved). *)
From Coq Require Import NArith ZArith List Bool Lia ZifyBool ZifyNat ZifyN.
From Morlock.Model Require Import Bits Attacks Move Position Abs.
From Morlock.Lemmas Require Import AttackGeometry_Extra PositionLemmas MoveRefines1 MoveRefines2 MoveRefines3 MoveRefines4.
Import ListNotations.
Open Scope N_scope.

(** * a uniform description of the square function after a move *)
Definition Fnorm (f : sqfun) (turn from to pc' : N) (ep : option N) (cas : option (N * N)) : sqfun := fun s =>
  if match cas with Some (_, rt) => s =? rt | None => false end then Some (turn, Rook)
  else if match cas with Some (rf, _) => s =? rf | None => false end then None
  else if match ep with Some e => s =? e | None => false end then None
  else if s =? to then Some (turn, pc')
  else if s =? from then None
  else f s.

Record MoveFacts (p : position) (turn : N) (m : move) (pc' : N) (ep : option N) (cas : option (N * N)) : Prop := {
  mf_turn : vcol turn;
  mf_from : mfrom m < 64;
  mf_to : mto m < 64;
  mf_ne : mfrom m <> mto m;
  mf_orig : square p (mfrom m) = Some (turn, mpiece m);
  mf_dest : square p (mto m) = None \/ exists cap, square p (mto m) = Some (opponent turn, cap) /\ cap <> King;
  mf_pc : (pc' = mpiece m /\ (pc' = Pawn -> 8 <= mto m < 56)) \/ (mpiece m = Pawn /\ is_officer pc');
  mf_ep : forall e, ep = Some e -> mpiece m = Pawn /\ e < 64 /\ square p e = Some (opponent turn, Pawn) /\ e <> mto m;
  mf_cas : forall rf rt, cas = Some (rf, rt) ->
     mpiece m = King /\ mfrom m = home_base turn + 3 /\ home_base turn <= rf < home_base turn + 8 /\
     home_base turn <= rt < home_base turn + 8 /\ square p rf = Some (turn, Rook) /\ square p rt = None /\ rt <> mto m;
  mf_jump : mtype m = Jump -> ep = None /\ cas = None /\ pc' = Pawn;
  mf_F : forall s, s < 64 ->
     fold_left edit_fun (move_edits m turn (mpiece m)) (square p) s = Fnorm (square p) turn (mfrom m) (mto m) pc' ep cas s
}.

Lemma cap_range turn f t : vcol turn -> f < 64 -> t < 64 -> pawn_cap_rel turn f t = true ->
  last_rank_sq turn t = false -> 8 <= t < 56.
Proof. intros Hc Hf Ht H Hl.
  assert (G : forallb (fun c => forallb (fun f => forallb (fun t =>
     imp (pawn_cap_rel c f t && negb (last_rank_sq c t)) ((8 <=? t) && (t <? 56))) (seqN 64)) (seqN 64)) [0;1] = true)
    by (vm_compute; reflexivity).
  rewrite forallb_forall in G. specialize (G turn (vcol_in _ Hc)).
  pose proof (forall64_2 _ G f t Hf Ht) as G'. cbv beta in G'. rewrite H, Hl in G'. cbn in G'. lia. Qed.

Ltac fsolve :=
  unfold Fnorm, fupd;
  repeat match goal with
  | |- context [?a =? ?b] => destruct (N.eqb_spec a b); try lia; try congruence
  end; try reflexivity.

Theorem shape_facts p turn m : Inv p -> Shape p turn m ->
  exists pc' ep cas, MoveFacts p turn m pc' ep cas.
Proof. intros HI [Ht Hf Hto Ho Hk]. destruct m as [ty fr to pc pr cap]. cbn [mtype mfrom mto mpiece mpromo mcapture] in *.
  pose proof (opponent_neq _ Ht) as Hopp.
  assert (Hne : forall x, square p to = x -> x <> Some (turn, pc) -> fr <> to) by (intros x E1 E2 E3; subst; congruence).
  destruct Hk as [Hty Hvpc Hnp Hd Hks | Hty Hvpc Hd Hnk Hks Hpw | Hty Hpc Hd Hrel Hlr | Hty Hpc Hd Hrel Hmid
                 | Hty Hpc Hd Hrel Hlr Hoff | Hty Hpc Hd Hnk Hrel Hlr Hoff | Hty Hpc Hte Hnz Hd Hrel Hrk Hcap
                 | Hty Hpc Hfr Htoe H1 H2 H3 | Hty Hpc Hfr Htoe H1 H2 H3];
  cbn [mtype mfrom mto mpiece mpromo mcapture] in *; subst ty.
  - (* Normal *) exists pc, None, None. apply Build_MoveFacts; cbn [mtype mfrom mto mpiece mpromo mcapture]; [exact Ht|exact Hf|exact Hto| |exact Ho| | | | | | ].
    + eapply Hne; [exact Hd|discriminate].
    + now left.
    + left. split; [reflexivity|]. intros E. contradiction.
    + discriminate.
    + discriminate.
    + discriminate.
    + intros s Hs. cbn. fsolve.
  - (* Capture *) exists pc, None, None. apply Build_MoveFacts; cbn [mtype mfrom mto mpiece mpromo mcapture]; [exact Ht|exact Hf|exact Hto| |exact Ho| | | | | | ].
    + eapply Hne; [exact Hd|]. intros E. inversion E. congruence.
    + right. eauto.
    + left. split; [reflexivity|]. intros E. destruct (Hpw E) as [A B]. now apply (cap_range turn fr to).
    + discriminate.
    + discriminate.
    + discriminate.
    + intros s Hs. cbn. fsolve.
  - (* Push *) exists pc, None, None.
    assert (Hr : 8 <= to < 56).
    { unfold pawn_push_rel, last_rank_sq in *. destruct (turn =? 0); lia. }
    apply Build_MoveFacts; cbn [mtype mfrom mto mpiece mpromo mcapture]; [exact Ht|exact Hf|exact Hto| |exact Ho| | | | | | ].
    + eapply Hne; [exact Hd|discriminate].
    + now left.
    + left. split; [reflexivity|]. intros _. exact Hr.
    + discriminate.
    + discriminate.
    + discriminate.
    + intros s Hs. cbn. fsolve.
  - (* Jump *) exists pc, None, None.
    assert (Hr : 8 <= to < 56).
    { unfold pawn_jump_rel in *. destruct (turn =? 0); lia. }
    apply Build_MoveFacts; cbn [mtype mfrom mto mpiece mpromo mcapture]; [exact Ht|exact Hf|exact Hto| |exact Ho| | | | | | ].
    + eapply Hne; [exact Hd|discriminate].
    + now left.
    + left. split; [reflexivity|]. intros _. exact Hr.
    + discriminate.
    + discriminate.
    + intros _. auto.
    + intros s Hs. cbn. fsolve.
  - (* Promotion *) exists pr, None, None. apply Build_MoveFacts; cbn [mtype mfrom mto mpiece mpromo mcapture]; [exact Ht|exact Hf|exact Hto| |exact Ho| | | | | | ].
    + eapply Hne; [exact Hd|discriminate].
    + now left.
    + right. auto.
    + discriminate.
    + discriminate.
    + discriminate.
    + intros s Hs. cbn. fsolve.
  - (* CapturePromotion *) exists pr, None, None. apply Build_MoveFacts; cbn [mtype mfrom mto mpiece mpromo mcapture]; [exact Ht|exact Hf|exact Hto| |exact Ho| | | | | | ].
    + eapply Hne; [exact Hd|]. intros E. inversion E. congruence.
    + right. eauto.
    + right. auto.
    + discriminate.
    + discriminate.
    + discriminate.
    + intros s Hs. cbn. fsolve.
  - (* EnPassant *) exists pc, (Some (if turn =? 0 then to - 8 else to + 8)), None.
    assert (Hr : 8 <= to < 56) by (destruct (turn =? 0); lia).
    apply Build_MoveFacts; cbn [mtype mfrom mto mpiece mpromo mcapture]; [exact Ht|exact Hf|exact Hto| |exact Ho| | | | | | ].
    + eapply Hne; [exact Hd|discriminate].
    + now left.
    + left. split; [reflexivity|]. intros _. exact Hr.
    + intros e E. inversion E; subst e. repeat split; auto; destruct (turn =? 0); lia.
    + discriminate.
    + discriminate.
    + intros s Hs. unfold move_edits, is_capture, is_promotion, is_castle. cbn [mtype mfrom mto mpiece mpromo mcapture].
      cbn [N.eqb Pos.eqb Normal Push Jump EnPassant QueenSideCastle KingSideCastle Capture Promotion CapturePromotion orb app fold_left edit_fun].
      rewrite (ep_capture_sq (mkMove EnPassant fr to pc pr cap)) by reflexivity. cbn [mto].
      rewrite (ep_cap_sq_val turn to Ht Hto Hrk). cbn [fold_left edit_fun]. fsolve.
  - (* KingSideCastle *) exists pc, None, (Some (home_base turn, home_base turn + 2)). subst pc fr to. apply Build_MoveFacts; cbn [mtype mfrom mto mpiece mpromo mcapture]; [exact Ht|exact Hf|exact Hto| |exact Ho| | | | | | ].
    + lia.
    + now left.
    + left. split; [reflexivity|discriminate].
    + discriminate.
    + intros rf rt E. inversion E; subst rf rt. repeat split; auto; lia.
    + discriminate.
    + intros s Hs. destruct Ht as [->| ->]; cbn; unfold Move.H1, Move.F1, Move.A1, Move.D1, Move.H8, Move.F8, Move.A8, Move.D8; fsolve.
  - (* QueenSideCastle *) exists pc, None, (Some (home_base turn + 7, home_base turn + 4)). subst pc fr to. apply Build_MoveFacts; cbn [mtype mfrom mto mpiece mpromo mcapture]; [exact Ht|exact Hf|exact Hto| |exact Ho| | | | | | ].
    + lia.
    + now left.
    + left. split; [reflexivity|discriminate].
    + discriminate.
    + intros rf rt E. inversion E; subst rf rt. repeat split; auto; lia.
    + discriminate.
    + intros s Hs. destruct Ht as [->| ->]; cbn; unfold Move.H1, Move.F1, Move.A1, Move.D1, Move.H8, Move.F8, Move.A8, Move.D8; fsolve.
Qed.

(* ------------------------------------------------------------------ *)
(** * kings *)
Definition king_on (f : sqfun) (c k : N) : Prop := k < 64 /\ forall s, s < 64 -> (f s = Some (c, King) <-> s = k).

Lemma popcount1_iff b : popcount b = 1 <-> exists k, forall s, N.testbit b s = true <-> s = k.
Proof. split.
  - intros H. rewrite popcount_length in H. pose proof (bits_asc_spec b) as Sp.
    destruct (bits_asc b) as [|x [|y r]]; cbn [length] in H; try lia.
    exists x. intros s. rewrite <- Sp. cbn. intuition.
  - intros [k Hk]. rewrite popcount_length. rewrite (bits_asc_unique b [k]); [reflexivity| |].
    + repeat constructor.
    + intros s. rewrite Hk. cbn. intuition. Qed.

Lemma popcount_king_on q c : Inv q -> vcol c ->
  (popcount (pget q c King) = 1 <-> exists k, king_on (square q) c k).
Proof. intros HI Hc. rewrite popcount1_iff. assert (Hv : vpc King) by (unfold vpc, King; lia). split.
  - intros [k Hk]. exists k.
    assert (Hlt : k < 64) by (eapply word_tb_lt; [apply (pget_word q c King HI) | now apply Hk]).
    split; [assumption|]. intros s Hs. rewrite <- Hk. symmetry. now apply pbit_square.
  - intros [k [Hlt Hk]]. exists k. intros s. destruct (N.lt_ge_cases s 64) as [Hs|Hs].
    + rewrite <- (Hk s Hs). now apply pbit_square.
    + rewrite (proj1 (word_bits _) (pget_word q c King HI) s Hs). split; [discriminate|lia]. Qed.

Ltac split_eqbs := repeat match goal with |- context [?a =? ?b] => destruct (N.eqb_spec a b) end.

Lemma king_on_move p turn m pc' ep cas c k : MoveFacts p turn m pc' ep cas -> vcol c ->
  king_on (square p) c k ->
  exists k', king_on (Fnorm (square p) turn (mfrom m) (mto m) pc' ep cas) c k'.
Proof. intros [Ht Hf Hto Hne Ho Hd Hpc Hep Hcas _ _] Hc [Hk64 Hk].
  pose proof (opponent_neq _ Ht) as Hopp. pose proof (opponent_vcol turn) as Hvo.
  assert (Hc' : c = opponent turn \/ c = turn).
  { destruct Ht as [->| ->], Hc as [->| ->]; cbn; auto. }
  unfold king_on, Fnorm.
  destruct cas as [[rf rt]|]; [destruct (Hcas rf rt eq_refl) as [C1 [C2 [C3 [C4 [C5 [C6 C7]]]]]]|];
  (destruct ep as [e|]; [destruct (Hep e eq_refl) as [P1 [P2 [P3 P4]]]|]); clear Hep Hcas;
  unfold is_officer, Pawn, King, Rook, Queen, Knight, Bishop in *; try congruence.
  all: destruct Hc' as [->| ->].
  (* opponent's king: stays *)
  1,3,5: exists k; (split; [assumption|]); intros s Hs; pose proof (Hk s Hs) as [L1 L2]; split_eqbs;
       (split; intro X; [try tauto; try congruence | try tauto; specialize (L2 X); try congruence;
           destruct Hd as [Hd|[cap [Hd Hd']]]; congruence]).
  (* own king *)
  all: destruct (N.eq_dec (mpiece m) 6) as [EK|NK]; try congruence.
  all: try (assert (Hkf : mfrom m = k) by (apply Hk; [assumption|congruence])).
  all: try (assert (Hpk : pc' = 6) by (destruct Hpc as [[Hp1 Hp2]|[Hp1 Hp2]]; congruence)).
  (* king moves: new king square is the destination *)
  1,3: exists (mto m); (split; [assumption|]); intros s Hs; pose proof (Hk s Hs) as [L1 L2]; split_eqbs;
       (split; intro X; try tauto; try congruence; try lia; try (specialize (L1 X); congruence);
        try (destruct Hd as [Hd|[cap [Hd Hd']]]; congruence)).
  (* other piece moves: own king stays *)
  all: exists k; (split; [assumption|]); intros s Hs; pose proof (Hk s Hs) as [L1 L2]; split_eqbs;
       (split; intro X; [first [tauto | congruence | destruct Hpc as [[Hp1 Hp2]|[Hp1 Hp2]]; [congruence | intuition congruence]]
          | try tauto; specialize (L2 X); try congruence; destruct Hd as [Hd|[cap [Hd Hd']]]; congruence]).
Qed.

(* ------------------------------------------------------------------ *)
(** * pawns stay off the first and last rank *)
Definition pawns_ok (f : sqfun) : Prop := forall s c, s < 64 -> f s = Some (c, Pawn) -> 8 <= s < 56.

Lemma edge_rank_bits s : s < 64 -> N.testbit (N.lor (bitrank 0) (bitrank 7)) s = (s <? 8) || (56 <=? s).
Proof. intros Hs.
  assert (G : forallb (fun s => Bool.eqb (N.testbit (N.lor (bitrank 0) (bitrank 7)) s) ((s <? 8) || (56 <=? s))) (seqN 64) = true)
    by (vm_compute; reflexivity).
  apply eqb_prop. exact (forall64 _ G s Hs). Qed.

Lemma pawns_ok_iff q : Inv q ->
  (N.land (N.lor (pget q White Pawn) (pget q Black Pawn)) (N.lor (bitrank 0) (bitrank 7)) = 0 <-> pawns_ok (square q)).
Proof. intros HI. rewrite land_zero_bits. assert (Hv : vpc Pawn) by (unfold vpc, Pawn; lia). split.
  - intros H s c Hs Hq. apply square_some in Hq as [Hc [_ Hb]]; try assumption.
    destruct (N.ltb_spec s 8) as [L|L]; [|destruct (N.leb_spec 56 s) as [L'|L']; [|lia]]; exfalso; apply (H s).
    + rewrite N.lor_spec. destruct Hc as [->| ->]; unfold White, Black; rewrite Hb; auto using orb_true_r.
    + rewrite edge_rank_bits by assumption. destruct (N.ltb_spec s 8); [reflexivity|lia].
    + rewrite N.lor_spec. destruct Hc as [->| ->]; unfold White, Black; rewrite Hb; auto using orb_true_r.
    + rewrite edge_rank_bits by assumption. destruct (N.leb_spec 56 s); [apply orb_true_r|lia].
  - intros H s Hb Hr.
    assert (Hs : s < 64).
    { eapply word_tb_lt; [|exact Hb]. apply lor_word; now apply pget_word. }
    rewrite edge_rank_bits in Hr by assumption. rewrite N.lor_spec in Hb. apply orb_true_iff in Hb as [Hb|Hb].
    + assert (Q : square q s = Some (White, Pawn)) by (apply square_some; auto; split; [now left|auto]).
      specialize (H s White Hs Q). lia.
    + assert (Q : square q s = Some (Black, Pawn)) by (apply square_some; auto; split; [now right|auto]).
      specialize (H s Black Hs Q). lia. Qed.

Lemma pawns_ok_move p turn m pc' ep cas : MoveFacts p turn m pc' ep cas -> pawns_ok (square p) ->
  pawns_ok (Fnorm (square p) turn (mfrom m) (mto m) pc' ep cas).
Proof. intros [Ht Hf Hto Hne Ho Hd Hpc Hep Hcas _ _] Hok s c Hs. unfold Fnorm.
  destruct cas as [[rf rt]|]; (destruct ep as [e|]); unfold is_officer, Pawn, King, Rook, Queen, Knight, Bishop in *;
  split_eqbs; intros X; try discriminate; try (apply (Hok s c Hs X));
  inversion X; subst; destruct Hpc as [[Hp1 Hp2]|[Hp1 Hp2]]; try (apply Hp2; reflexivity); intuition congruence. Qed.

(* ------------------------------------------------------------------ *)
(** * castling rights kept => king and rook still at home *)
Definition home_tuples : list (N * N * N) := [(1, 3, 0); (2, 3, 7); (4, 59, 56); (8, 59, 63)].

Lemma rights_kept ca m right ksq rsq : ca < 16 -> mfrom m < 64 -> mto m < 64 -> In (right, ksq, rsq) home_tuples ->
  is_allowed (andnot ca (castling_rights_lost m)) right = true ->
  is_allowed ca right = true /\ mfrom m <> ksq /\ mfrom m <> rsq /\ mto m <> rsq.
Proof. intros Hca Hf Ht Hin Ha. rewrite castling_rights_lost_ft in Ha.
  assert (G : forallb (fun ca => forallb (fun f => forallb (fun t => forallb (fun tp =>
      let '(rg, ksq, rsq) := tp in
      imp (is_allowed (andnot ca (castling_rights_lost (mkMove 0 f t 0 0 0))) rg)
          (is_allowed ca rg && negb (f =? ksq) && negb (f =? rsq) && negb (t =? rsq))) home_tuples)
      (seqN 64)) (seqN 64)) (seqN 16) = true) by (vm_compute; reflexivity).
  rewrite forallb_forall in G. specialize (G ca). rewrite in_seqN in G. specialize (G ltac:(lia)).
  pose proof (forall64_2 _ G (mfrom m) (mto m) Hf Ht) as G'. cbv beta in G'.
  rewrite forallb_forall in G'. specialize (G' _ Hin). cbv beta iota in G'.
  pose proof (imp_true _ _ G' Ha) as G2. apply andb_true_iff in G2 as [G2 G5]. apply andb_true_iff in G2 as [G2 G4].
  apply andb_true_iff in G2 as [G2 G3]. apply negb_true_iff in G3, G4, G5. apply N.eqb_neq in G3, G4, G5. auto. Qed.

Lemma F_home p turn m pc' ep cas c ksq rsq : MoveFacts p turn m pc' ep cas -> vcol c ->
  ksq = home_base c + 3 -> ksq < 64 -> rsq < 64 ->
  square p ksq = Some (c, King) -> square p rsq = Some (c, Rook) ->
  mfrom m <> ksq -> mfrom m <> rsq -> mto m <> rsq ->
  Fnorm (square p) turn (mfrom m) (mto m) pc' ep cas ksq = Some (c, King) /\
  Fnorm (square p) turn (mfrom m) (mto m) pc' ep cas rsq = Some (c, Rook).
Proof. intros [Ht Hf Hto Hne Ho Hd Hpc Hep Hcas _ _] Hc Ek Hk64 Hr64 Sk Sr N1 N2 N3. unfold Fnorm.
  destruct cas as [[rf rt]|]; [destruct (Hcas rf rt eq_refl) as [C1 [C2 [C3 [C4 [C5 [C6 C7]]]]]]|];
  (destruct ep as [e|]; [destruct (Hep e eq_refl) as [P1 [P2 [P3 P4]]]|]); clear Hep Hcas;
  unfold is_officer, Pawn, King, Rook, Queen, Knight, Bishop in *; try congruence;
  split; split_eqbs; try congruence; try assumption;
  try (destruct Hd as [Hd|[cap [Hd Hd']]]; congruence);
  try (exfalso; assert (c = turn) by congruence; subst c; congruence). Qed.

(* ------------------------------------------------------------------ *)
(** * assembling [wf_b] of the successor *)

Lemma king_on_ext f g c k : (forall s, s < 64 -> g s = f s) -> king_on f c k -> king_on g c k.
Proof. intros E [H1 H2]. split; [assumption|]. intros s Hs. rewrite E by assumption. now apply H2. Qed.

Lemma pawns_ok_ext f g : (forall s, s < 64 -> g s = f s) -> pawns_ok f -> pawns_ok g.
Proof. intros E H s c Hs Hq. rewrite E in Hq by assumption. eapply H; eassumption. Qed.

Lemma home_ok_move p turn m pc' ep cas ret rg ksq rsq c :
  Inv p -> Inv ret -> MoveFacts p turn m pc' ep cas ->
  (forall s, s < 64 -> square ret s = Fnorm (square p) turn (mfrom m) (mto m) pc' ep cas s) ->
  In (rg, ksq, rsq) home_tuples -> vcol c -> ksq = home_base c + 3 -> ksq < 64 -> rsq < 64 ->
  home_ok p rg ksq rsq c = true -> home_ok (move_fields p ret m) rg ksq rsq c = true.
Proof. intros HI HIr MF Hsq Hin Hc Ek Hk Hr Hh. unfold home_ok.
  destruct (is_allowed (castling (move_fields p ret m)) rg) eqn:A; [|reflexivity]. cbn [negb orb].
  unfold move_fields in A. cbn [castling] in A.
  assert (Hca : castling p < 16) by (now destruct HI as [_ [_ [_ [_ [_ [_ [H _]]]]]]]).
  destruct (rights_kept _ _ _ _ _ Hca (mf_from _ _ _ _ _ _ MF) (mf_to _ _ _ _ _ _ MF) Hin A) as [A0 [N1 [N2 N3]]].
  destruct (home_ok_elim p rg ksq rsq c HI Hc Hk Hr Hh A0) as [Sk Sr].
  destruct (F_home _ _ _ _ _ _ c ksq rsq MF Hc Ek Hk Hr Sk Sr N1 N2 N3) as [Fk Fr].
  rewrite <- Hsq in Fk, Fr by assumption.
  unfold move_fields. rewrite !pget_set_fields. rewrite !is_set_tb64 by assumption.
  apply andb_true_iff. split; apply pbit_square; auto; unfold vpc, King, Rook; lia. Qed.

Lemma ep_ok_move p turn m pc' ep cas ret :
  Inv p -> Inv ret -> Shape p turn m -> MoveFacts p turn m pc' ep cas ->
  (forall s, s < 64 -> square ret s = Fnorm (square p) turn (mfrom m) (mto m) pc' ep cas s) ->
  ep_ok (move_fields p ret m) (opponent turn) = true.
Proof. intros HI HIr Hsh MF Hsq. unfold ep_ok. cbv zeta.
  assert (Ee : enpassant (move_fields p ret m) = fst (ep_target m)) by reflexivity. rewrite !Ee. clear Ee.
  destruct (N.eq_dec (mtype m) Jump) as [EJ|NJ]; [|now rewrite ep_target_nojump].
  rewrite ep_target_jump by assumption.
  destruct Hsh as [Ht Hf Hto Ho Hk].
  destruct Hk as [Hty|Hty|Hty|Hty Hpc Hd Hrel Hmid|Hty|Hty|Hty|Hty|Hty]; try (rewrite Hty in EJ; discriminate).
  destruct (mf_jump _ _ _ _ _ _ MF EJ) as [-> [-> ->]].
  destruct (jump_geom turn _ _ Ht Hf Hto Hrel) as [_ [_ [_ [G4 G5]]]]. rewrite G5 in *.
  destruct (N.eqb_spec (jump_mid turn (mfrom m) (mto m)) 0) as [|_]; [contradiction|].
  pose proof (mf_ne _ _ _ _ _ _ MF) as Hne.
  assert (HIp' : Inv (move_fields p ret m)).
  { unfold move_fields. apply Inv_set_fields; [assumption| |apply ep_target_lt].
    apply andnot_castling_lt. now destruct HI as [_ [_ [_ [_ [_ [_ [H _]]]]]]]. }
  assert (Hsq' : forall s, s < 64 -> square (move_fields p ret m) s = Fnorm (square p) turn (mfrom m) (mto m) Pawn None None s)
    by (intros s Hs; unfold move_fields; rewrite square_set_fields; now apply Hsq).
  unfold pawn_jump_rel, jump_mid in *. unfold Fnorm in Hsq'.
  assert (Hv : vpc Pawn) by (unfold vpc, Pawn; lia).
  destruct Ht as [->| ->]; cbn [opponent N.eqb White Black Pos.eqb] in *.
  - (* White jumped; Black to move *)
    assert (R : 8 <= mfrom m < 16 /\ mto m = mfrom m + 16) by lia. destruct R as [R1 R2].
    destruct (ep_rank_range (mfrom m + 8) ltac:(lia)) as [_ Rk]. rewrite Rk.
    rewrite is_set_tb64 by lia.
    assert (A1 : N.testbit (pget (move_fields p ret m) 0 Pawn) (mfrom m + 8 + 8) = true).
    { apply pbit_square; auto; try lia; [now left|]. rewrite Hsq' by lia.
      destruct (N.eqb_spec (mfrom m + 8 + 8) (mto m)); [reflexivity|lia]. }
    assert (A2 : is_empty (move_fields p ret m) (mfrom m + 8) = true).
    { apply is_empty_square; auto; try lia. rewrite Hsq' by lia.
      destruct (N.eqb_spec (mfrom m + 8) (mto m)); [lia|]. destruct (N.eqb_spec (mfrom m + 8) (mfrom m)); [lia|assumption]. }
    assert (A3 : is_empty (move_fields p ret m) (mfrom m + 8 - 8) = true).
    { apply is_empty_square; auto; try lia. rewrite Hsq' by lia.
      destruct (N.eqb_spec (mfrom m + 8 - 8) (mto m)); [lia|]. destruct (N.eqb_spec (mfrom m + 8 - 8) (mfrom m)); [reflexivity|lia]. }
    unfold White. rewrite A1, A2, A3. destruct ((16 <=? mfrom m + 8) && (mfrom m + 8 <? 24)) eqn:B; [reflexivity|lia].
  - (* Black jumped; White to move *)
    assert (R : 48 <= mfrom m < 56 /\ mfrom m = mto m + 16) by lia. destruct R as [R1 R2].
    destruct (ep_rank_range (mto m + 8) ltac:(lia)) as [Rk _]. rewrite Rk.
    rewrite is_set_tb64 by lia.
    assert (A1 : N.testbit (pget (move_fields p ret m) 1 Pawn) (mto m + 8 - 8) = true).
    { apply pbit_square; auto; try lia; [now right|]. rewrite Hsq' by lia.
      destruct (N.eqb_spec (mto m + 8 - 8) (mto m)); [reflexivity|lia]. }
    assert (A2 : is_empty (move_fields p ret m) (mto m + 8) = true).
    { apply is_empty_square; auto; try lia. rewrite Hsq' by lia.
      destruct (N.eqb_spec (mto m + 8) (mto m)); [lia|]. destruct (N.eqb_spec (mto m + 8) (mfrom m)); [lia|assumption]. }
    assert (A3 : is_empty (move_fields p ret m) (mto m + 8 + 8) = true).
    { apply is_empty_square; auto; try lia. rewrite Hsq' by lia.
      destruct (N.eqb_spec (mto m + 8 + 8) (mto m)); [lia|]. destruct (N.eqb_spec (mto m + 8 + 8) (mfrom m)); [reflexivity|lia]. }
    unfold Black. rewrite A1, A2, A3. destruct ((40 <=? mto m + 8) && (mto m + 8 <? 48)) eqn:B; [reflexivity|lia].
Qed.

Theorem shape_move_wf p turn m p' : wf_b p turn = true -> Shape p turn m -> pos_move p m = Some p' ->
  wf_b p' (opponent turn) = true.
Proof. intros Hwf Hsh Hmv. destruct (wf_b_elim _ _ Hwf) as [HI [KW [KB [Hpw [W1 [W2 [B1 [B2 [Hep Hchk]]]]]]]]].
  pose proof (shape_move_inv _ _ _ _ HI Hsh Hmv) as HIp'.
  destruct (shape_move_result _ _ _ _ HI Hsh Hmv) as [ret [-> [HIr [Hsq [_ Hchk']]]]].
  destruct (shape_facts _ _ _ HI Hsh) as [pc' [ep [cas MF]]].
  assert (Hsq' : forall s, s < 64 -> square ret s = Fnorm (square p) turn (mfrom m) (mto m) pc' ep cas s).
  { intros s Hs. rewrite Hsq by assumption. now apply (mf_F _ _ _ _ _ _ MF). }
  pose proof (mf_turn _ _ _ _ _ _ MF) as Ht.
  assert (HK : forall c, vcol c -> popcount (pget p c King) = 1 -> popcount (pget (move_fields p ret m) c King) = 1).
  { intros c Hc Hp1. unfold move_fields. rewrite pget_set_fields.
    apply (popcount_king_on p c HI Hc) in Hp1 as [k Hk].
    destruct (king_on_move _ _ _ _ _ _ c k MF Hc Hk) as [k' Hk'].
    apply (popcount_king_on ret c HIr Hc). exists k'. eapply king_on_ext; [|exact Hk']. exact Hsq'. }
  apply wf_b_intro.
  - exact HIp'.
  - apply (HK White); [now left | exact KW].
  - apply (HK Black); [now right | exact KB].
  - unfold move_fields. rewrite !pget_set_fields. apply (pawns_ok_iff ret HIr).
    eapply pawns_ok_ext; [exact Hsq'|]. apply (pawns_ok_move _ _ _ _ _ _ MF). now apply (pawns_ok_iff p HI).
  - apply (home_ok_move p turn m pc' ep cas ret WhiteKingSideCastle E1 H1 White HI HIr MF Hsq'); try reflexivity; cbn; auto.
    now left.
  - apply (home_ok_move p turn m pc' ep cas ret WhiteQueenSideCastle E1 A1 White HI HIr MF Hsq'); try reflexivity; cbn; auto.
    now left.
  - apply (home_ok_move p turn m pc' ep cas ret BlackKingSideCastle E8 H8 Black HI HIr MF Hsq'); try reflexivity; cbn; auto.
    now right.
  - apply (home_ok_move p turn m pc' ep cas ret BlackQueenSideCastle E8 A8 Black HI HIr MF Hsq'); try reflexivity; cbn; auto 6.
    now right.
  - exact (ep_ok_move p turn m pc' ep cas ret HI HIr Hsh MF Hsq').
  - rewrite opponent_invol by assumption. exact Hchk'.
Qed.
Print Assumptions shape_move_wf.
