(** The search contract on the real board, part 5: non-vacuity and a finding.
    - the board made by [new_board] from the initial chess position satisfies the root hypotheses
      ([BAt], [RootFlag]) for every Zobrist table;
    - a computed run of [search_board] (K+R vs K, depth 2: Ra8 mate) returns the reference value [b_mm],
      and [board_full_window_nott] applied to that run gives the same fact;
    - FINDING [sticky_draw]: PushMove never resets a Draw result.  After 1.Nf3 Nf6 2.Ng1 Ng8 3.Nf3 Nf6
      4.Ng1 Ng8 the board reports Draw/Repetition3; after the further move e2-e4 it STILL reports
      Draw/Repetition3, although the position is new, whereas the same push after Adjudicate(Undecided) -
      or after pushing e2-e4, popping it and pushing it again - reports Undecided.  The result flag that
      a push sets therefore depends on the flag of the board pushed from, not on the game history alone:
      the laws H_push_some + H_pop of Lemmas/SearchContract.v cannot hold for the literal [gb_push]
      (whatever the tree and [At]); they are proved in part 1 for [gb_push'] and transferred in part 3.
      The same behaviour was reproduced on the Go code (board.Board.Result() after
      g1f3 g8f6 f3g1 f6g8 g1f3 g8f6 f3g1 f6g8 e2e4 e7e5 d2d4 is "1/2-1/2 {3-Fold Repetition}" at every ply
      from 9 on).  AlphaBeta.Search is not affected (it clears a draw at the root and never pushes from a
      drawn inner node); Minimax and Quiescence called at such a root return 0 at once. *)
From Coq Require Import NArith ZArith List Bool Lia.
From Morlock.Model Require Import Bits Score Attacks Move Position Zobrist Board Search TT SearchBoard Abs.
From Morlock.Lemmas Require Import BoardHeap1 BoardHeap2 BoardHeap3 MoveRefines SearchContract
     SearchBoardInst1 SearchBoardInst2 SearchBoardInst3 SearchBoardInst4 SearchBoardInst.
Import ListNotations.
Open Scope Z_scope.

(** * 1. the initial position, any Zobrist table *)
Definition init_pos : position :=
  match new_position initial_placements 15 0 with Some p => p | None => empty_position 0 0 end.
Lemma init_pos_eq : new_position initial_placements 15 0 = Some init_pos.
Proof. vm_compute. reflexivity. Qed.
Lemma init_pos_wf : wf_b init_pos 0 = true.
Proof. vm_compute. reflexivity. Qed.

Lemma new_board_BAt z pos turn np fm : (turn = White \/ turn = Black) -> wf_b pos turn = true ->
  let g := new_board z [] pos turn np fm in
  BAt (abs (fst g) (snd g)) g /\ RootFlag (abs (fst g) (snd g)) g /\ gb_draw g = false.
Proof.
  intros Ht Hw g.
  assert (Hwf : wf (fst g) (snd g)) by (apply (wf_new z pos turn np fm); [exact Ht|reflexivity]).
  split; [|split; [intros _ H; discriminate H|reflexivity]].
  split; [exact Hwf|]. split; [apply aeq_nr_refl|].
  split; [exact Ht|]. split.
  - rewrite <- (get_position _ _ Hwf). exact Hw.
  - intros c _ H. unfold acastled in H. cbn in H. destruct (c =? White)%N; discriminate H.
Qed.

Example initial_board_At z :
  let g := new_board z [] init_pos White 0 1 in
  BAt (abs (fst g) (snd g)) g /\ RootFlag (abs (fst g) (snd g)) g /\ gb_draw g = false.
Proof. apply new_board_BAt; [left; reflexivity|exact init_pos_wf]. Qed.

(** * 2. a computed search *)
Definition z0 : ztable :=
  mkZt (fun c p sq => (((c * 7 + p) * 64 + sq + 1) * 2654435761) mod 4294967296)%N
       (fun c => ((c * 40503 + 17) mod 65536)%N) (fun e => ((e * 9973) mod 65536)%N) (fun t => (t * 31337 + 5)%N).
(** White: Kg6, Ra1; Black: Kg8; White to move *)
Definition kr_placements : list placement := [mkPlacement 41 White King; mkPlacement 7 White Rook; mkPlacement 57 Black King].
Definition kr_pos : position := match new_position kr_placements 0 0 with Some p => p | None => empty_position 0 0 end.
Definition kr_board : gboard := new_board z0 [] kr_pos White 0 1.
Definition kr_node : aboard := abs (fst kr_board) (snd kr_board).
Definition never : nat -> bool := fun _ => false.
Definition ra8 : move := mkMove Normal 7 63 Rook NoPiece NoPiece.

Lemma kr_pos_eq : new_position kr_placements 0 0 = Some kr_pos.
Proof. vm_compute. reflexivity. Qed.
Lemma kr_pos_wf : wf_b kr_pos 0 = true.
Proof. vm_compute. reflexivity. Qed.

(** depth 2, full window, no table, no quiescence: mate in 1 by Ra8, which is the reference value *)
Example kr_run_2 :
  let '(st, nodes, sc, pv, halted) :=
      search_board z0 full_exploration captures_only material never false 0 kr_board NoTT [] 2 neginf_score inf_score in
  (halted, sc, pv, nodes, go_eq sc (b_mm z0 false 0 2 true (norm kr_node))) = (false, mate_in 1, [ra8], 38%N, true).
Proof. vm_compute. reflexivity. Qed.
(** depth 1: the rook's worth (5.0 = 0x40A00000), again the reference value *)
Example kr_run_1 :
  let '(st, nodes, sc, pv, halted) :=
      search_board z0 full_exploration captures_only material never false 0 kr_board NoTT [] 1 neginf_score inf_score in
  (halted, sc, b_mm z0 false 0 1 true (norm kr_node)) = (false, heuristic 1084227584, heuristic 1084227584).
Proof. vm_compute. reflexivity. Qed.
(** with quiescence (captures only, fuel 4) and a real table of 4 KiB: same value *)
Example kr_run_2_table :
  match new_table 4096 with
  | Some tb =>
      let '(st, nodes, sc, pv, halted) :=
          search_board z0 full_exploration captures_only material never true 4 kr_board (TableTT tb) [] 2 neginf_score inf_score in
      (halted, sc, go_eq sc (b_mm z0 true 4 2 true (norm kr_node))) = (false, mate_in 1, true)
  | None => False
  end.
Proof. vm_compute. reflexivity. Qed.

(** the theorem applied to the computed run: its premises are satisfiable and it yields the fact above *)
Example kr_theorem_applied :
  exists st nodes sc pv,
    search_board z0 full_exploration captures_only material never false 0 kr_board NoTT [] 2 neginf_score inf_score
      = (st, nodes, sc, pv, false) /\
    go_eq sc (b_mm z0 false 0 2 true (norm kr_node)) = true /\ valid sc = true.
Proof.
  destruct (search_board z0 full_exploration captures_only material never false 0 kr_board NoTT [] 2 neginf_score inf_score)
    as [[[[st nodes] sc] pv] halted] eqn:E.
  assert (halted = false) as -> by (vm_compute in E; congruence).
  exists st, nodes, sc, pv. split; [reflexivity|].
  destruct (new_board_BAt z0 kr_pos White 0 1 (or_introl eq_refl) kr_pos_wf) as (HB & HR & _).
  apply (board_full_window_nott z0 never false 0 (fun n H => H) kr_board 2 st nodes sc pv kr_node);
    [unfold qh; lia|exact HB|exact HR|apply leaves_ok_noq; reflexivity|exact E].
Qed.

(** cancellation at the 10th poll: halted, nothing reported, board handed back at its node (its result
    field reads Undecided instead of Unknown: PopMove resets it) *)
Example kr_cancelled :
  let '(st, nodes, sc, pv, halted) :=
      search_board z0 full_exploration captures_only material (fun n => (9 <=? n)%nat) false 0 kr_board NoTT [] 2 neginf_score inf_score in
  (halted, sc, pv, nodes, gb_draw (s_g gboard ttv st), b_current (snd (s_g gboard ttv st)), b_ply (snd (s_g gboard ttv st))) =
  (true, invalid_score, [], 0%N, gb_draw kr_board, b_current (snd kr_board), b_ply (snd kr_board)).
Proof. vm_compute. reflexivity. Qed.

(** the hypothesis [RootFlag] is needed: a board wrongly adjudicated "checkmate" refuses every push, the
    search then reports "stalemate" (0) although the reference value is mate in 1 for the side to move *)
Definition kr_lied : gboard := (fst kr_board, adjudicate (snd kr_board) (mkResult BlackWins Checkmate)).
Example rootflag_needed :
  (let '(st, nodes, sc, pv, halted) :=
       search_board z0 full_exploration captures_only material never false 0 kr_lied NoTT [] 2 neginf_score inf_score in
   (halted, sc)) = (false, zero_score) /\
  b_mm z0 false 0 2 true (norm kr_node) = mate_in 1.
Proof. vm_compute. split; reflexivity. Qed.

(** the law H_restore of SearchContract.v, quantified over an arbitrary board [g0] to restore from, is
    false for the real board for the same reason; [H_restore_partial] is what holds, and the search only
    restores the (draw) result the root board came with *)
Example H_restore_false : ~ H_restore_statement.
Proof.
  intros H.
  destruct (new_board_BAt z0 kr_pos White 0 1 (or_introl eq_refl) kr_pos_wf) as (HB & _).
  assert (HA : At kr_node kr_board) by (split; [exact HB|intros Hb; discriminate Hb]).
  destruct (H kr_node kr_lied kr_board HA) as [[_ Hn] _].
  assert (Hin : In ra8 (real_moves kr_node)) by (apply in_of_existsb; vm_compute; reflexivity).
  specialize (Hn eq_refl ra8 Hin). vm_compute in Hn. discriminate Hn.
Qed.

(** * 3. FINDING: the Draw result is sticky *)
Definition init_board : gboard := new_board z0 [] init_pos White 0 1.
Definition nf3 : move := mkMove Normal 1 18 Knight NoPiece NoPiece.
Definition nf6 : move := mkMove Normal 57 42 Knight NoPiece NoPiece.
Definition ng1 : move := mkMove Normal 18 1 Knight NoPiece NoPiece.
Definition ng8 : move := mkMove Normal 42 57 Knight NoPiece NoPiece.
Definition shuffle : list move := [nf3; nf6; ng1; ng8; nf3; nf6; ng1; ng8].
Fixpoint play (g : gboard) (ms : list move) : option gboard :=
  match ms with
  | [] => Some g
  | m :: r => match gb_push z0 g m with Some g1 => play g1 r | None => None end
  end.
Definition res_of (o : option gboard) : option (N * reason) :=
  match o with Some g => Some (outcome (b_result (snd g)), rreason (b_result (snd g))) | None => None end.

Example sticky_draw :
  (* threefold repetition after the knight shuffle *)
  res_of (play init_board shuffle) = Some (Draw, Repetition3) /\
  (* one more (generator) move, new position: still reported as a draw by repetition *)
  res_of (play init_board (shuffle ++ [e2e4])) = Some (Draw, Repetition3) /\
  (* the same move after Adjudicate(Undecided): not a draw *)
  res_of (match play init_board shuffle with Some g => gb_push z0 (gb_clear_draw g) e2e4 | None => None end)
    = Some (Undecided, NoReason) /\
  (* the same move after push + pop: not a draw - the flag set by a push is not a function of the history *)
  res_of (match play init_board shuffle with
          | Some g => match gb_push z0 g e2e4 with Some g1 => gb_push z0 (gb_pop g1) e2e4 | None => None end
          | None => None
          end) = Some (Undecided, NoReason).
Proof. vm_compute. repeat split; reflexivity. Qed.

(** Consequence, machine-checked: with the literal operations [gb_push], [gb_pop], [gb_draw], [gb_moves] the
    laws H_moves + H_push_some + H_pop of SearchContract.v have NO model in which the initial board stands
    at some node - whatever the tree ([pos], [moves], [child], [drawn]) and the relation [At]. *)
Fixpoint play_ok (g : gboard) (ms : list move) : bool :=
  match ms with
  | [] => true
  | m :: r => move_mem m (gb_moves g) && match gb_push z0 g m with Some g1 => play_ok g1 r | None => false end
  end.

Section Unsat.
  Variable pos : Type.
  Variable moves : pos -> list move.
  Variable child : pos -> move -> option pos.
  Variable drawn : pos -> bool.
  Variable At : pos -> gboard -> Prop.
  Hypothesis L_moves : forall p g, At p g -> gb_moves g = moves p.
  Hypothesis L_push_some : forall p g m g1, At p g -> In m (moves p) -> gb_push z0 g m = Some g1 ->
    exists c, child p m = Some c /\ At c g1 /\ gb_draw g1 = drawn c.
  Hypothesis L_pop : forall p g m g1 c g2, At p g -> gb_push z0 g m = Some g1 -> child p m = Some c ->
    At c g2 -> At p (gb_pop g2).

  Lemma play_At : forall ms p g, At p g -> play_ok g ms = true -> exists p' g', play g ms = Some g' /\ At p' g'.
  Proof.
    induction ms as [|m r IH]; intros p g HA Hok; [exists p, g; split; [reflexivity|exact HA]|].
    cbn [play_ok] in Hok. apply andb_true_iff in Hok as [Hm Hr]. apply move_mem_in in Hm.
    cbn [play]. destruct (gb_push z0 g m) as [g1|] eqn:Ep; [|discriminate Hr].
    rewrite (L_moves _ _ HA) in Hm. destruct (L_push_some p g m g1 HA Hm Ep) as (c & _ & HAc & _).
    exact (IH c g1 HAc Hr).
  Qed.

  Theorem literal_laws_unsatisfiable : forall p0, At p0 init_board -> False.
  Proof.
    intros p0 H0.
    destruct (play_At shuffle p0 init_board H0 ltac:(vm_compute; reflexivity)) as (c & g & Hg & HA).
    assert (Hin : In e2e4 (moves c)).
    { rewrite <- (L_moves _ _ HA). apply move_mem_in.
      assert (E : match play init_board shuffle with Some g => move_mem e2e4 (gb_moves g) | None => false end = true)
        by (vm_compute; reflexivity).
      rewrite Hg in E. exact E. }
    destruct (gb_push z0 g e2e4) as [g1|] eqn:E1.
    2:{ assert (E : match play init_board shuffle with Some g => match gb_push z0 g e2e4 with Some _ => true | None => false end | None => false end = true)
          by (vm_compute; reflexivity).
        rewrite Hg, E1 in E. discriminate E. }
    destruct (L_push_some c g e2e4 g1 HA Hin E1) as (c1 & Hc1 & HA1 & Hd1).
    pose proof (L_pop c g e2e4 g1 c1 g1 HA E1 Hc1 HA1) as HA2.
    destruct (gb_push z0 (gb_pop g1) e2e4) as [g3|] eqn:E3.
    2:{ assert (E : match play init_board shuffle with
                    | Some g => match gb_push z0 g e2e4 with
                                | Some g1 => match gb_push z0 (gb_pop g1) e2e4 with Some _ => true | None => false end
                                | None => false end
                    | None => false end = true) by (vm_compute; reflexivity).
        rewrite Hg, E1, E3 in E. discriminate E. }
    destruct (L_push_some c (gb_pop g1) e2e4 g3 HA2 Hin E3) as (c3 & Hc3 & _ & Hd3).
    rewrite Hc1 in Hc3. injection Hc3 as <-.
    assert (E : match play init_board shuffle with
                | Some g => match gb_push z0 g e2e4 with
                            | Some g1 => match gb_push z0 (gb_pop g1) e2e4 with
                                         | Some g3 => gb_draw g1 && negb (gb_draw g3)
                                         | None => false end
                            | None => false end
                | None => false end = true) by (vm_compute; reflexivity).
    rewrite Hg, E1, E3, Hd1, Hd3 in E. destruct (drawn c1); discriminate E.
  Qed.
End Unsat.

Print Assumptions initial_board_At.
Print Assumptions kr_theorem_applied.
Print Assumptions sticky_draw.
Print Assumptions H_restore_false.
Print Assumptions literal_laws_unsatisfiable.
