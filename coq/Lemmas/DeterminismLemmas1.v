(** C18, part 1: two runs of the generic search (Model/Search.v) on two games related by a simulation
    relation return the same numbers.

    Setting (Section Sim): two complete sets of the parameters of Model/Search.v (games [G1], [G2] with their
    operations, tables [TT1], [TT2], exploration policies, leaf evaluations), ONE cancellation oracle, ONE
    [use_quiescence]/[qfuel]; a relation [R p g1 g2] indexed by an abstract node [p : P] ("both boards stand at
    node p"), a predicate [okm p m] ("m is one of the moves generated at p") and a relation [TR] between the
    tables under which they answer alike at related boards and which [tt_write] at related boards keeps
    (e.g. "both are the absent table", or equality when the two games are one).
    Laws: related boards have the same draw flag, the same generated moves, the same exploration priorities,
    exploration predicates and leaf values; a generated move is accepted by both or refused by both, the
    successors are related at some node [p'], and popping boards related at [p'] gives boards related at [p];
    [g_mated], [g_clear_draw], [g_restore] preserve the relation (and [g_mated] gives the same verdict).
    [g_hash] and [g_ply] are unconstrained: they are only ever passed to the tables.

    Results: [gloop_sim], [qsearch_sim], [ab_sim], [ab_search_sim]: same score, principal variation, node
    count, halted flag, poll count and ponder list; the final boards are related at the same node. *)
From Coq Require Import NArith ZArith List Bool Lia.
From Morlock.Model Require Import Bits Score Attacks Move Search.
From Morlock.Lemmas Require Import MoveListPerm SearchContract.
Import ListNotations.
Open Scope Z_scope.

Lemma movelist_ext ms p1 p2 : (forall m, p1 m = p2 m) -> movelist ms p1 = movelist ms p2.
Proof. intros H. unfold movelist. f_equal. f_equal. apply map_ext. intros m. now rewrite H. Qed.

Lemma first_prio_ext best p1 p2 : (forall m, p1 m = p2 m) -> forall m, first_prio best p1 m = first_prio best p2 m.
Proof. intros H m. unfold first_prio. now rewrite H. Qed.

Section Sim.
  Variables G1 G2 : Type.
  Variable g_draw1 : G1 -> bool.            Variable g_draw2 : G2 -> bool.
  Variable g_hash1 : G1 -> N.               Variable g_hash2 : G2 -> N.
  Variable g_ply1 : G1 -> Z.                Variable g_ply2 : G2 -> Z.
  Variable g_moves1 : G1 -> list move.      Variable g_moves2 : G2 -> list move.
  Variable g_push1 : G1 -> move -> option G1.  Variable g_push2 : G2 -> move -> option G2.
  Variable g_pop1 : G1 -> G1.               Variable g_pop2 : G2 -> G2.
  Variable g_mated1 : G1 -> G1 * bool.      Variable g_mated2 : G2 -> G2 * bool.
  Variable g_clear1 : G1 -> G1.             Variable g_clear2 : G2 -> G2.
  Variable g_restore1 : G1 -> G1 -> G1.     Variable g_restore2 : G2 -> G2 -> G2.
  Variables TT1 TT2 : Type.
  Variable tt_read1 : TT1 -> N -> option (N * Z * score * move).
  Variable tt_read2 : TT2 -> N -> option (N * Z * score * move).
  Variable tt_write1 : TT1 -> N -> N -> Z -> Z -> score -> move -> TT1.
  Variable tt_write2 : TT2 -> N -> N -> Z -> Z -> score -> move -> TT2.
  Variable explore1 qexplore1 : G1 -> (move -> Z) * (G1 -> move -> bool).
  Variable explore2 qexplore2 : G2 -> (move -> Z) * (G2 -> move -> bool).
  Variable leaf1 : G1 -> Z.                 Variable leaf2 : G2 -> Z.
  Variable cancel : nat -> bool.
  Variable use_q : bool.
  Variable qfuel : nat.

  (** the simulation *)
  Variable P : Type.
  Variable R : P -> G1 -> G2 -> Prop.
  Variable okm : P -> move -> Prop.
  Variable TR : TT1 -> TT2 -> Prop.

  Hypothesis H_draw : forall p g1 g2, R p g1 g2 -> g_draw1 g1 = g_draw2 g2.
  Hypothesis H_moves : forall p g1 g2, R p g1 g2 ->
    g_moves1 g1 = g_moves2 g2 /\ forall m, In m (g_moves1 g1) -> okm p m.
  Hypothesis H_push : forall p g1 g2 m, R p g1 g2 -> okm p m ->
    (g_push1 g1 m = None /\ g_push2 g2 m = None) \/
    exists a b p', g_push1 g1 m = Some a /\ g_push2 g2 m = Some b /\ R p' a b /\
                   forall a' b', R p' a' b' -> R p (g_pop1 a') (g_pop2 b').
  Hypothesis H_mated : forall p g1 g2, R p g1 g2 ->
    snd (g_mated1 g1) = snd (g_mated2 g2) /\ R p (fst (g_mated1 g1)) (fst (g_mated2 g2)).
  Hypothesis H_clear : forall p g1 g2, R p g1 g2 -> R p (g_clear1 g1) (g_clear2 g2).
  Hypothesis H_restore : forall p0 p g01 g02 g1 g2, R p0 g01 g02 -> R p g1 g2 ->
    R p (g_restore1 g01 g1) (g_restore2 g02 g2).
  Hypothesis H_explore : forall p g1 g2, R p g1 g2 ->
    (forall m, fst (explore1 g1) m = fst (explore2 g2) m) /\
    (forall p' a b m, R p' a b -> snd (explore1 g1) a m = snd (explore2 g2) b m).
  Hypothesis H_qexplore : forall p g1 g2, R p g1 g2 ->
    (forall m, fst (qexplore1 g1) m = fst (qexplore2 g2) m) /\
    (forall p' a b m, R p' a b -> snd (qexplore1 g1) a m = snd (qexplore2 g2) b m).
  Hypothesis H_leaf : forall p g1 g2, R p g1 g2 -> leaf1 g1 = leaf2 g2.
  Hypothesis H_read : forall p g1 g2 t1 t2, R p g1 g2 -> TR t1 t2 ->
    tt_read1 t1 (g_hash1 g1) = tt_read2 t2 (g_hash2 g2).
  Hypothesis H_write : forall p g1 g2 t1 t2 b d sc m, R p g1 g2 -> TR t1 t2 ->
    TR (tt_write1 t1 (g_hash1 g1) b (g_ply1 g1) d sc m) (tt_write2 t2 (g_hash2 g2) b (g_ply2 g2) d sc m).

  Notation sst1 := (sst G1 TT1).
  Notation sst2 := (sst G2 TT2).
  Notation qsearch1 := (qsearch G1 g_draw1 g_moves1 g_push1 g_pop1 g_mated1 TT1 qexplore1 leaf1 cancel).
  Notation qsearch2 := (qsearch G2 g_draw2 g_moves2 g_push2 g_pop2 g_mated2 TT2 qexplore2 leaf2 cancel).
  Notation quiet1 := (quiet_search G1 g_draw1 g_moves1 g_push1 g_pop1 g_mated1 TT1 qexplore1 leaf1 cancel use_q qfuel).
  Notation quiet2 := (quiet_search G2 g_draw2 g_moves2 g_push2 g_pop2 g_mated2 TT2 qexplore2 leaf2 cancel use_q qfuel).
  Notation ab1 := (ab G1 g_draw1 g_hash1 g_ply1 g_moves1 g_push1 g_pop1 g_mated1 TT1 tt_read1 tt_write1
                      explore1 qexplore1 leaf1 cancel use_q qfuel).
  Notation ab2 := (ab G2 g_draw2 g_hash2 g_ply2 g_moves2 g_push2 g_pop2 g_mated2 TT2 tt_read2 tt_write2
                      explore2 qexplore2 leaf2 cancel use_q qfuel).
  Notation ab_search1 := (ab_search G1 g_draw1 g_hash1 g_ply1 g_moves1 g_push1 g_pop1 g_mated1 g_clear1 g_restore1
                      TT1 tt_read1 tt_write1 explore1 qexplore1 leaf1 cancel use_q qfuel).
  Notation ab_search2 := (ab_search G2 g_draw2 g_hash2 g_ply2 g_moves2 g_push2 g_pop2 g_mated2 g_clear2 g_restore2
                      TT2 tt_read2 tt_write2 explore2 qexplore2 leaf2 cancel use_q qfuel).

  (** related search states: boards related at [p], silent tables, equal counters and ponder lists *)
  Definition SR (p : P) (s1 : sst1) (s2 : sst2) : Prop :=
    R p (s_g G1 TT1 s1) (s_g G2 TT2 s2) /\ TR (s_tt G1 TT1 s1) (s_tt G2 TT2 s2) /\
    s_nodes G1 TT1 s1 = s_nodes G2 TT2 s2 /\ s_polls G1 TT1 s1 = s_polls G2 TT2 s2 /\
    s_ponder G1 TT1 s1 = s_ponder G2 TT2 s2.

  Lemma SR_set_g p p' s1 s2 a b : SR p s1 s2 -> R p' a b -> SR p' (set_g G1 TT1 s1 a) (set_g G2 TT2 s2 b).
  Proof. intros (_ & A & C & D & E) H. unfold SR. cbn. auto 10. Qed.
  Lemma SR_poll p s1 s2 : SR p s1 s2 ->
    fst (poll G1 TT1 cancel s1) = fst (poll G2 TT2 cancel s2) /\
    SR p (snd (poll G1 TT1 cancel s1)) (snd (poll G2 TT2 cancel s2)).
  Proof. intros (H & A & C & D & E). unfold SR, poll. cbn. rewrite D. auto 10. Qed.
  Lemma SR_add_nodes p s1 s2 n : SR p s1 s2 -> SR p (add_nodes G1 TT1 s1 n) (add_nodes G2 TT2 s2 n).
  Proof. intros (H & A & C & D & E). unfold SR. cbn. rewrite C. auto 10. Qed.
  Lemma SR_set_ponder p s1 s2 l : SR p s1 s2 -> SR p (set_ponder G1 TT1 s1 l) (set_ponder G2 TT2 s2 l).
  Proof. intros (H & A & C & D & E). unfold SR. cbn. auto 10. Qed.
  Lemma SR_write p s1 s2 b d sc m : SR p s1 s2 ->
    SR p (set_tt G1 TT1 s1 (tt_write1 (s_tt G1 TT1 s1) (g_hash1 (s_g G1 TT1 s1)) b (g_ply1 (s_g G1 TT1 s1)) d sc m))
         (set_tt G2 TT2 s2 (tt_write2 (s_tt G2 TT2 s2) (g_hash2 (s_g G2 TT2 s2)) b (g_ply2 (s_g G2 TT2 s2)) d sc m)).
  Proof. intros (H & A & C & D & E). unfold SR. cbn. split; [exact H|]. split; [eapply H_write; eassumption|]. auto. Qed.

  (** ** the loop shared by [qsearch] and [ab] *)
  Section GL.
    Variables X1 X2 : Type.
    Variable getg1 : X1 -> G1.  Variable setg1 : X1 -> G1 -> X1.
    Variable getg2 : X2 -> G2.  Variable setg2 : X2 -> G2 -> X2.
    Variable rec1 : X1 -> score -> score -> X1 * score * list move.
    Variable rec2 : X2 -> score -> score -> X2 * score * list move.
    Variable pred1 : G1 -> move -> bool.
    Variable pred2 : G2 -> move -> bool.
    Variable beta : score.
    Variable XR : P -> X1 -> X2 -> Prop.
    Hypothesis Hget : forall p x1 x2, XR p x1 x2 -> R p (getg1 x1) (getg2 x2).
    Hypothesis Hset : forall p p' x1 x2 a b, XR p x1 x2 -> R p' a b -> XR p' (setg1 x1 a) (setg2 x2 b).
    Hypothesis Hrec : forall p x1 x2 a b, XR p x1 x2 ->
      exists y1 y2 s pv, rec1 x1 a b = (y1, s, pv) /\ rec2 x2 a b = (y2, s, pv) /\ XR p y1 y2.
    Hypothesis Hpred : forall p a b m, R p a b -> pred1 a m = pred2 b m.

    Lemma gloop_sim : forall ms p x1 x2 alpha pv has, XR p x1 x2 -> (forall m, In m ms -> okm p m) ->
      exists y1 y2 a pv' h c,
        gloop G1 g_push1 g_pop1 X1 getg1 setg1 rec1 pred1 beta ms x1 alpha pv has = (y1, a, pv', h, c) /\
        gloop G2 g_push2 g_pop2 X2 getg2 setg2 rec2 pred2 beta ms x2 alpha pv has = (y2, a, pv', h, c) /\
        XR p y1 y2.
    Proof.
      induction ms as [|mv rest IH]; intros p x1 x2 alpha pv has HX Hok.
      - cbn [gloop]. exists x1, x2, alpha, pv, has, false. auto.
      - cbn [gloop].
        assert (Hrest : forall m, In m rest -> okm p m) by (intros m Hm; apply Hok; now right).
        destruct (H_push p (getg1 x1) (getg2 x2) mv (Hget _ _ _ HX) (Hok mv (or_introl eq_refl)))
          as [[E1 E2]|(a & b & p' & E1 & E2 & HR & Hpop)]; rewrite E1, E2.
        + apply IH; assumption.
        + rewrite (Hpred p' a b mv HR).
          pose proof (Hset p p' x1 x2 a b HX HR) as HX1.
          destruct (pred2 b mv).
          * destruct (Hrec p' _ _ (dec (negate beta)) (dec (negate alpha)) HX1) as (y1 & y2 & s & rem & F1 & F2 & HY).
            rewrite F1, F2.
            pose proof (Hset p' p y1 y2 _ _ HY (Hpop _ _ (Hget _ _ _ HY))) as HX3.
            destruct (less alpha (negate (inc s))).
            -- destruct (go_eq (negate (inc s)) beta || less beta (negate (inc s))).
               ++ do 6 eexists. split; [reflexivity|]. split; [reflexivity|]. exact HX3.
               ++ apply IH; assumption.
            -- destruct (go_eq alpha beta || less beta alpha).
               ++ do 6 eexists. split; [reflexivity|]. split; [reflexivity|]. exact HX3.
               ++ apply IH; assumption.
          * pose proof (Hset p' p _ _ _ _ HX1 (Hpop _ _ (Hget _ _ _ HX1))) as HX3.
            destruct (go_eq alpha beta || less beta alpha).
            -- do 6 eexists. split; [reflexivity|]. split; [reflexivity|]. exact HX3.
            -- apply IH; assumption.
    Qed.
  End GL.

  (** ** quiescence *)
  Definition QR (p : P) (x1 : sst1 * N) (x2 : sst2 * N) : Prop := SR p (fst x1) (fst x2) /\ snd x1 = snd x2.

  Theorem qsearch_sim : forall f p s1 s2 qn a b, SR p s1 s2 ->
    exists y1 y2 qn' s, qsearch1 f s1 qn a b = (y1, qn', s) /\ qsearch2 f s2 qn a b = (y2, qn', s) /\ SR p y1 y2.
  Proof.
    induction f as [|f IH]; intros p s1 s2 qn a b HS.
    - cbn [qsearch]. do 4 eexists. split; [reflexivity|]. split; [reflexivity|]. exact HS.
    - rewrite !qsearch_unfold.
      destruct (SR_poll p s1 s2 HS) as [Ec HS1].
      destruct (poll G1 TT1 cancel s1) as [c1 t1]. destruct (poll G2 TT2 cancel s2) as [c2 t2].
      cbn [fst snd] in Ec, HS1. subst c2.
      destruct c1.
      { do 4 eexists. split; [reflexivity|]. split; [reflexivity|]. exact HS1. }
      pose proof HS1 as (HR & _).
      rewrite (H_draw _ _ _ HR).
      destruct (g_draw2 (s_g G2 TT2 t2)).
      { do 4 eexists. split; [reflexivity|]. split; [reflexivity|]. exact HS1. }
      cbv zeta.
      rewrite (H_leaf _ _ _ HR).
      destruct (H_qexplore _ _ _ HR) as [Hprio Hpred].
      destruct (qexplore1 (s_g G1 TT1 t1)) as [prio1 pred1]. destruct (qexplore2 (s_g G2 TT2 t2)) as [prio2 pred2].
      cbn [fst snd] in Hprio, Hpred.
      destruct (H_moves _ _ _ HR) as [Em Hokm].
      rewrite <- Em. rewrite (movelist_ext _ prio1 prio2 Hprio).
      rewrite (q_loop_gloop G1 _ _ _ _ _ _ _ _ _ f pred1 b _ t1 _ _ [] false).
      rewrite (q_loop_gloop G2 _ _ _ _ _ _ _ _ _ f pred2 b _ t2 _ _ [] false).
      set (al := smax a (heuristic (leaf2 (s_g G2 TT2 t2)))).
      destruct (gloop_sim (sst1 * N) (sst2 * N) (qgetg G1 TT1) (qsetg G1 TT1) (qgetg G2 TT2) (qsetg G2 TT2)
                  (qrec G1 g_draw1 g_moves1 g_push1 g_pop1 g_mated1 TT1 qexplore1 leaf1 cancel f)
                  (qrec G2 g_draw2 g_moves2 g_push2 g_pop2 g_mated2 TT2 qexplore2 leaf2 cancel f)
                  pred1 pred2 b QR) with (ms := movelist (g_moves1 (s_g G1 TT1 t1)) prio2) (p := p)
                  (x1 := (t1, (qn + 1)%N)) (x2 := (t2, (qn + 1)%N)) (alpha := al) (pv := @nil move) (has := false)
        as (y1 & y2 & a' & pv' & h & c & F1 & F2 & (HY & Hqn)).
      + intros q x1 x2 [H _]. exact (proj1 H).
      + intros q q' x1 x2 u v [H E] HR'. split; [|exact E]. cbn [qsetg fst]. apply (SR_set_g q); assumption.
      + intros q [u1 n1] [u2 n2] lo hi [H E]. cbn [fst snd] in H, E. subst n2.
        destruct (IH q u1 u2 n1 lo hi H) as (w1 & w2 & n' & s & K1 & K2 & HW).
        unfold qrec. cbn [fst snd]. rewrite K1, K2. do 4 eexists. split; [reflexivity|]. split; [reflexivity|].
        split; [exact HW|reflexivity].
      + intros q u v m Huv. exact (Hpred q u v m Huv).
      + split; [exact HS1|reflexivity].
      + intros m Hm. apply Hokm. apply movelist_In in Hm. exact Hm.
      + rewrite F1, F2. destruct y1 as [w1 n1]. destruct y2 as [w2 n2]. cbn [fst snd] in HY, Hqn |- *. subst n2.
        destruct h; cbn [negb].
        * do 4 eexists. split; [reflexivity|]. split; [reflexivity|]. exact HY.
        * pose proof HY as (HRw & _). destruct (H_mated _ _ _ HRw) as [Emt HRm].
          destruct (g_mated1 (s_g G1 TT1 w1)) as [g1' m1]. destruct (g_mated2 (s_g G2 TT2 w2)) as [g2' m2].
          cbn [fst snd] in Emt, HRm. subst m2.
          do 4 eexists. split; [reflexivity|]. split; [reflexivity|]. apply (SR_set_g p); assumption.
  Qed.

  Lemma quiet_sim p s1 s2 a b : SR p s1 s2 ->
    exists y1 y2 n s, quiet1 s1 a b = (y1, n, s) /\ quiet2 s2 a b = (y2, n, s) /\ SR p y1 y2.
  Proof.
    intros HS. unfold quiet_search. destruct use_q.
    - apply qsearch_sim. exact HS.
    - pose proof HS as (HR & _). rewrite (H_leaf _ _ _ HR).
      do 4 eexists. split; [reflexivity|]. split; [reflexivity|]. exact HS.
  Qed.

  (** ** alpha-beta *)
  Theorem ab_sim : forall d root p s1 s2 a b, SR p s1 s2 ->
    exists y1 y2 s pv, ab1 d root s1 a b = (y1, s, pv) /\ ab2 d root s2 a b = (y2, s, pv) /\ SR p y1 y2.
  Proof.
    induction d as [|d IH]; intros root p s1 s2 a b HS; rewrite !ab_unfold; unfold ab_body.
    - destruct (SR_poll p s1 s2 HS) as [Ec HS1].
      destruct (poll G1 TT1 cancel s1) as [c1 t1]. destruct (poll G2 TT2 cancel s2) as [c2 t2].
      cbn [fst snd] in Ec, HS1. subst c2.
      destruct c1.
      { do 4 eexists. split; [reflexivity|]. split; [reflexivity|]. exact HS1. }
      pose proof HS1 as (HR & HT & _).
      rewrite (H_draw _ _ _ HR).
      destruct (negb root && g_draw2 (s_g G2 TT2 t2)).
      { do 4 eexists. split; [reflexivity|]. split; [reflexivity|]. exact HS1. }
      rewrite (H_read _ _ _ _ _ HR HT).
      set (rd := tt_read2 (s_tt G2 TT2 t2) (g_hash2 (s_g G2 TT2 t2))).
      destruct (match rd with
                | Some (bound, d0, sc, _) => if negb root && (Z.of_nat 0 =? d0) && (bound =? ExactBound)%N then Some sc else None
                | None => None end) as [hsc|].
      { do 4 eexists. split; [reflexivity|]. split; [reflexivity|]. exact HS1. }
      unfold ab_leaf.
      destruct (quiet_sim p t1 t2 a b HS1) as (y1 & y2 & n & s & F1 & F2 & HY).
      rewrite F1, F2.
      pose proof (SR_add_nodes p y1 y2 n HY) as HA.
      destruct (less a s && less s b).
      + destruct (SR_poll p _ _ HA) as [Ec2 HA1].
        destruct (poll G1 TT1 cancel (add_nodes G1 TT1 y1 n)) as [c1 u1].
        destruct (poll G2 TT2 cancel (add_nodes G2 TT2 y2 n)) as [c2 u2].
        cbn [fst snd] in Ec2, HA1. subst c2.
        destruct c1.
        * do 4 eexists. split; [reflexivity|]. split; [reflexivity|]. exact HA1.
        * do 4 eexists. split; [reflexivity|]. split; [reflexivity|]. apply SR_write. exact HA1.
      + do 4 eexists. split; [reflexivity|]. split; [reflexivity|]. exact HA.
    - destruct (SR_poll p s1 s2 HS) as [Ec HS1].
      destruct (poll G1 TT1 cancel s1) as [c1 t1]. destruct (poll G2 TT2 cancel s2) as [c2 t2].
      cbn [fst snd] in Ec, HS1. subst c2.
      destruct c1.
      { do 4 eexists. split; [reflexivity|]. split; [reflexivity|]. exact HS1. }
      pose proof HS1 as (HR & HT & _).
      rewrite (H_draw _ _ _ HR).
      destruct (negb root && g_draw2 (s_g G2 TT2 t2)).
      { do 4 eexists. split; [reflexivity|]. split; [reflexivity|]. exact HS1. }
      rewrite (H_read _ _ _ _ _ HR HT).
      set (rd := tt_read2 (s_tt G2 TT2 t2) (g_hash2 (s_g G2 TT2 t2))).
      destruct (match rd with
                | Some (bound, d0, sc, _) => if negb root && (Z.of_nat (S d) =? d0) && (bound =? ExactBound)%N then Some sc else None
                | None => None end) as [hsc|].
      { do 4 eexists. split; [reflexivity|]. split; [reflexivity|]. exact HS1. }
      set (best := match rd with Some (_, _, _, m) => m | None => no_move end).
      unfold ab_node.
      pose proof (SR_add_nodes p t1 t2 1%N HS1) as HA.
      set (u1 := add_nodes G1 TT1 t1 1%N) in *. set (u2 := add_nodes G2 TT2 t2 1%N) in *.
      pose proof HA as (HRu & _ & _ & _ & Epo).
      destruct (H_explore _ _ _ HRu) as [Hprio Hpred].
      destruct (explore1 (s_g G1 TT1 u1)) as [prio1 pred1]. destruct (explore2 (s_g G2 TT2 u2)) as [prio2 pred2].
      cbn [fst snd] in Hprio, Hpred.
      (* the ponder line *)
      assert (Hpo : exists pr1 pr2 v1 v2,
        (match s_ponder G1 TT1 u1 with
         | q :: rest => ((fun (_ : G1) (m : move) => move_equals q m), set_ponder G1 TT1 u1 rest)
         | [] => (pred1, u1) end) = (pr1, v1) /\
        (match s_ponder G2 TT2 u2 with
         | q :: rest => ((fun (_ : G2) (m : move) => move_equals q m), set_ponder G2 TT2 u2 rest)
         | [] => (pred2, u2) end) = (pr2, v2) /\
        SR p v1 v2 /\ (forall p' x y m, R p' x y -> pr1 x m = pr2 y m)).
      { rewrite Epo. destruct (s_ponder G2 TT2 u2) as [|q rest].
        - do 4 eexists. split; [reflexivity|]. split; [reflexivity|]. split; [exact HA|exact Hpred].
        - do 4 eexists. split; [reflexivity|]. split; [reflexivity|]. split; [apply SR_set_ponder; exact HA|].
          intros; reflexivity. }
      destruct Hpo as (pr1 & pr2 & v1 & v2 & G1e & G2e & HV & Hpr).
      rewrite G1e, G2e.
      pose proof HV as (HRv & _).
      destruct (H_moves _ _ _ HRv) as [Em Hokm].
      rewrite <- Em. rewrite (movelist_ext _ _ _ (first_prio_ext best prio1 prio2 Hprio)).
      destruct (gloop_sim sst1 sst2 (s_g G1 TT1) (set_g G1 TT1) (s_g G2 TT2) (set_g G2 TT2)
                  (ab1 d false) (ab2 d false) pr1 pr2 b SR)
        with (ms := movelist (g_moves1 (s_g G1 TT1 v1)) (first_prio best prio2)) (p := p)
             (x1 := v1) (x2 := v2) (alpha := a) (pv := @nil move) (has := false)
        as (y1 & y2 & a' & pv' & h & c & F1 & F2 & HY).
      + intros q x1 x2 H. exact (proj1 H).
      + intros q q' x1 x2 x y H HR'. apply (SR_set_g q); assumption.
      + intros q x1 x2 lo hi H. apply IH. exact H.
      + exact Hpr.
      + exact HV.
      + intros m Hm. apply Hokm. apply movelist_In in Hm. exact Hm.
      + rewrite F1, F2. unfold ab_tail.
        destruct h; cbn [negb].
        * destruct (negb c && less a a').
          -- destruct (SR_poll p _ _ HY) as [Ec2 HY1].
             destruct (poll G1 TT1 cancel y1) as [c1 w1]. destruct (poll G2 TT2 cancel y2) as [c2 w2].
             cbn [fst snd] in Ec2, HY1. subst c2.
             destruct c1.
             ++ do 4 eexists. split; [reflexivity|]. split; [reflexivity|]. exact HY1.
             ++ do 4 eexists. split; [reflexivity|]. split; [reflexivity|]. apply SR_write. exact HY1.
          -- do 4 eexists. split; [reflexivity|]. split; [reflexivity|]. exact HY.
        * pose proof HY as (HRw & _). destruct (H_mated _ _ _ HRw) as [Emt HRm].
          destruct (g_mated1 (s_g G1 TT1 y1)) as [g1' m1]. destruct (g_mated2 (s_g G2 TT2 y2)) as [g2' m2].
          cbn [fst snd] in Emt, HRm. subst m2.
          do 4 eexists. split; [reflexivity|]. split; [reflexivity|]. apply (SR_set_g p); assumption.
  Qed.

  (** ** AlphaBeta.Search *)
  Theorem ab_search_sim p g1 g2 t1 t2 ponder depth low high : R p g1 g2 -> TR t1 t2 ->
    exists y1 y2 nodes sc pv halted,
      ab_search1 g1 t1 ponder depth low high = (y1, nodes, sc, pv, halted) /\
      ab_search2 g2 t2 ponder depth low high = (y2, nodes, sc, pv, halted) /\
      SR p y1 y2.
  Proof.
    intros HR HT. unfold ab_search.
    rewrite (H_draw _ _ _ HR).
    set (dr := g_draw2 g2).
    assert (HS0 : SR p (mkSst G1 TT1 (if dr then g_clear1 g1 else g1) t1 0%N 0%nat ponder)
                       (mkSst G2 TT2 (if dr then g_clear2 g2 else g2) t2 0%N 0%nat ponder)).
    { unfold SR. cbn. split; [|auto 10]. destruct dr; [apply H_clear|]; exact HR. }
    destruct (ab_sim depth true p _ _ low high HS0) as (y1 & y2 & s & pv & F1 & F2 & HY).
    rewrite F1, F2.
    destruct (SR_poll p _ _ HY) as [Ec HY1].
    destruct (poll G1 TT1 cancel y1) as [c1 w1]. destruct (poll G2 TT2 cancel y2) as [c2 w2].
    cbn [fst snd] in Ec, HY1. subst c2.
    assert (HF : SR p (if dr then set_g G1 TT1 w1 (g_restore1 g1 (s_g G1 TT1 w1)) else w1)
                      (if dr then set_g G2 TT2 w2 (g_restore2 g2 (s_g G2 TT2 w2)) else w2)).
    { destruct dr; [|exact HY1]. apply (SR_set_g p); [exact HY1|].
      apply (H_restore p); [exact HR|exact (proj1 HY1)]. }
    pose proof HF as (_ & _ & En & _).
    destruct c1.
    - do 6 eexists. split; [reflexivity|]. split; [reflexivity|]. exact HF.
    - rewrite En. do 6 eexists. split; [reflexivity|]. split; [reflexivity|]. exact HF.
  Qed.
End Sim.

Print Assumptions ab_search_sim.
