(** * Driver transition system: Halt always completes; quit / end of input terminate cleanly (C16). *)
From Coq Require Import List Bool Arith PeanoNat Lia.
From Morlock.Model Require Import Driver.
From Morlock.Lemmas Require Import DriverLemmas1 DriverLemmas2 DriverLemmas3 DriverLemmas4 DriverLemmas5.
Import ListNotations.

Section Quit.
  Variable cap : nat.
  Variable script : list cmd.

  (** nothing the loop owns changes *)
  Definition same_loop (s s' : dstate) : Prop :=
    pc s' = pc s /\ emitted s' = emitted s /\ active s' = active s /\ searches s' = searches s
    /\ eactive s' = eactive s /\ out_closed s' = out_closed s /\ inp s' = inp s
    /\ consumed s' = consumed s /\ g_super s' = g_super s /\ g_stopped s' = g_stopped s.

  Lemma star_one : forall s s', step cap s s' -> star cap s s'.
  Proof. intros s s' H. eapply star_step; [apply star_refl | exact H]. Qed.

  Lemma star_trans : forall a b c, star cap a b -> star cap b c -> star cap a c.
  Proof. intros a b c H1 H2. induction H2; auto. eapply star_step; [apply IHstar; exact H1 | exact H]. Qed.

  (** ** Steps of the search process the loop waits for *)

  (* while init is open the running process completes depth 1, which closes init *)
  Lemma iter_closes_init : forall s h r k, find_h h (srchs s) = Some r -> h_proc r = PRun k ->
    exists s', fire cap (LIter h false) s = Some s' /\ same_loop s s'
      /\ exists r', find_h h (srchs s') = Some r' /\ h_init r' = true.
  Proof.
    intros s h r k F Hp. eexists. split; [|split].
    - apply view_fire. eapply V_iter; eauto. discriminate.
    - unfold same_loop; simpl; tauto.
    - simpl. rewrite (find_h_upd h (srch_iter k false) (srchs s) r h); auto.
      + rewrite Nat.eqb_refl. eexists. split; [reflexivity|].
        unfold srch_iter, srch_exit. destruct (false || h_quit r); reflexivity.
      + intros r0. apply (iter_keeps k false r0).
  Qed.

  (* once quit is closed, ANY step of the process makes it exit (done closed) *)
  Lemma quit_then_exit : forall s s' h r b, find_h h (srchs s) = Some r -> h_quit r = true ->
    fire cap (LIter h b) s = Some s' \/ fire cap (LHalted h) s = Some s' ->
    same_loop s s' /\ exists r', find_h h (srchs s') = Some r' /\ h_done r' = true /\ h_proc r' = PExit
                                 /\ h_quit r' = true.
  Proof.
    intros s s' h r b F Hq [H|H]; simpl in H; unfold with_srch in H; rewrite F in H;
      destruct (h_proc r) eqn:Hp; try discriminate.
    - destruct (implb b (g_lim (h_opt r))); inversion H; subst; clear H. split.
      + unfold same_loop; simpl; tauto.
      + simpl. rewrite (find_h_upd h (srch_iter k b) (srchs s) r h); auto.
        * rewrite Nat.eqb_refl. eexists. split; [reflexivity|].
          unfold srch_iter, srch_exit. rewrite Hq, orb_true_r. simpl. auto.
        * intros r0. apply (iter_keeps k b r0).
    - rewrite Hq in H. inversion H; subst; clear H. split.
      + unfold same_loop; simpl; tauto.
      + simpl. rewrite (find_h_upd h srch_exit (srchs s) r h); auto.
        rewrite Nat.eqb_refl. eexists. split; [reflexivity|]. simpl. auto.
  Qed.

  (** ** Halt can always complete (possibility), in at most 2 process steps and 2 loop steps *)
  Lemma haltinit_can_pass : forall s h k, reachable cap script s -> pc s = PHaltInit h k ->
    exists s', star cap s s' /\ pc s' = PHaltDone h k /\ emitted s' = emitted s /\ active s' = active s
               /\ out_closed s' = out_closed s /\ searches s' = searches s.
  Proof.
    intros s h k R Hpc.
    destruct (halt_way_forward cap script s h k R (or_introl Hpc)) as [r [F _]].
    destruct (h_init r) eqn:Hi.
    - eexists. split; [apply star_one; exists LHaltInit; apply view_fire; eapply V_hinit; eauto|].
      simpl; tauto.
    - destruct (reach_hok cap script s h r R F) as [[H1 [H2 [H3 [H4 [H5 [H6 [H7 [HP H8]]]]]]]] _].
      destruct (h_proc r) eqn:Hp; [|destruct H8; congruence].
      destruct (iter_closes_init s h r k0 F Hp) as [s1 [F1 [[E1 [E2 [E3 [E4 [E5 [E6 _]]]]]] [r1 [Fr1 I1]]]]].
      exists (set_pc (PHaltDone h k) (set_srchs (upd_h h srch_set_quit (srchs s1)) s1)). split.
      + eapply star_step; [apply star_one; exists (LIter h false); exact F1|].
        exists LHaltInit. apply view_fire. apply (V_hinit cap s1 h k r1); auto. congruence.
      + simpl. repeat split; congruence.
  Qed.

  Lemma haltdone_can_return : forall s h k, reachable cap script s -> pc s = PHaltDone h k ->
    exists s' r, star cap s s' /\ same_loop s s' /\ find_h h (srchs s') = Some r /\ h_done r = true.
  Proof.
    intros s h k R Hpc.
    destruct (halt_way_forward cap script s h k R (or_intror Hpc)) as [r [F _]].
    destruct (h_done r) eqn:Hd.
    - exists s, r. split; [apply star_refl|]. unfold same_loop. tauto.
    - destruct (InvAB_reachable cap script s R) as [_ [_ P _]]. unfold pcB in P. rewrite Hpc in P.
      destruct P as [_ P]. destruct (P r F) as [Hq _].
      destruct (iter_closes_init s h r) with (k := S (h_pv r)) as [s1 [F1 _]]; auto.
      { destruct (reach_hok cap script s h r R F) as [[H1 [H2 [H3 [H4 [H5 [H6 [H7 [HP H8]]]]]]]] _].
        destruct (h_proc r); [destruct H8; congruence | destruct H8 as [_ [X _]]; congruence]. }
      destruct (quit_then_exit s s1 h r false F Hq (or_introl F1)) as [SL [r1 [Fr1 [D1 _]]]].
      exists s1, r1. split; auto. apply star_one. exists (LIter h false). exact F1.
  Qed.

  (** ** quit and end of input *)
  Definition closing (s : dstate) : Prop :=
    match pc s with PHaltInit _ KClose | PHaltDone _ KClose | PExited => True | _ => False end.

  (** consuming quit, or finding the input closed, starts the shutdown without output *)
  Theorem quit_step : forall s s', reachable cap script s -> pc s = PIdle ->
    inp s = [] \/ (exists rest, inp s = CQuit :: rest) -> fire cap LCmd s = Some s' ->
    closing s' /\ emitted s' = emitted s /\ active s' = 0
    /\ (eactive s = None -> terminated s').
  Proof.
    intros s s' R Hpc Hin F. simpl in F. rewrite Hpc in F. unfold closing, terminated.
    destruct Hin as [Hin|[rest Hin]]; rewrite Hin in F; inversion F; subst; clear F;
      unfold do_exit; simpl; destruct (eactive s); simpl; repeat split; auto; discriminate.
  Qed.

  (** during the shutdown nothing is emitted, and it can only end in the exited state with the
      output closed, where the loop stays *)
  Theorem closing_stable : forall s s', reachable cap script s -> closing s -> step cap s s' ->
    closing s' /\ emitted s' = emitted s /\ crashed s' = false /\ (pc s' = PExited -> out_closed s' = true).
  Proof.
    intros s s' R Cl St.
    assert (R' : reachable cap script s') by (eapply reach_step; eauto).
    assert (Cr := no_send_on_closed cap script s' R').
    assert (Oc := output_closed_iff_exited cap script s' R').
    destruct St as [l H]. apply fire_view in H. unfold closing in *.
    destruct H; simpl in *; try (rewrite H in Cl; contradiction); try tauto.
    - rewrite H in Cl. destruct k; try contradiction. tauto.
    - rewrite H in Cl. destruct k; try contradiction. simpl. tauto.
  Qed.

  (** ... and it can always end *)
  Theorem closing_can_finish : forall s, reachable cap script s -> closing s ->
    exists s', star cap s s' /\ terminated s' /\ emitted s' = emitted s.
  Proof.
    intros s R Cl. unfold closing in Cl. destruct (pc s) eqn:Hpc; try contradiction.
    - destruct k; try contradiction.
      destruct (haltinit_can_pass s h KClose R Hpc) as [s1 [S1 [P1 [E1 _]]]].
      assert (R1 := star_reachable cap script s s1 R S1).
      destruct (haltdone_can_return s1 h KClose R1 P1) as [s2 [r [S2 [[E2 [E3 _]] [F2 D2]]]]].
      exists (run_cont KClose (Some (h_pv r)) (set_eactive None s2)). split; [|split].
      + eapply star_step; [eapply star_trans; eauto|]. exists LHaltDone. apply view_fire.
        apply (V_hdone cap s2 h KClose r); auto. congruence.
      + unfold terminated. simpl. auto.
      + simpl. congruence.
    - destruct k; try contradiction.
      destruct (haltdone_can_return s h KClose R Hpc) as [s2 [r [S2 [[E2 [E3 _]] [F2 D2]]]]].
      exists (run_cont KClose (Some (h_pv r)) (set_eactive None s2)). split; [|split].
      + eapply star_step; [eauto|]. exists LHaltDone. apply view_fire.
        apply (V_hdone cap s2 h KClose r); auto. congruence.
      + unfold terminated. simpl. auto.
      + simpl. congruence.
    - exists s. split; [apply star_refl|]. split; auto. split; auto.
      apply (output_closed_iff_exited cap script s R). exact Hpc.
  Qed.

  (** once the active search has exited, the loop's own steps are enabled and lead to the exit *)
  Theorem quit_terminates : forall s h r, reachable cap script s ->
    pc s = PHaltInit h KClose \/ pc s = PHaltDone h KClose ->
    find_h h (srchs s) = Some r -> h_proc r = PExit ->
    exists s1 s2, (s1 = s \/ fire cap LHaltInit s = Some s1) /\ fire cap LHaltDone s1 = Some s2
                  /\ terminated s2 /\ emitted s2 = emitted s.
  Proof.
    intros s h r R Hpc F Hp.
    destruct (reach_hok cap script s h r R F) as [[H1 [H2 [H3 [H4 [H5 [H6 [H7 [HP H8]]]]]]]] _].
    rewrite Hp in H8. destruct H8 as [I [D O]].
    destruct Hpc as [Hpc|Hpc].
    - set (s1 := set_pc (PHaltDone h KClose) (set_srchs (upd_h h srch_set_quit (srchs s)) s)).
      exists s1. exists (run_cont KClose (Some (h_pv (srch_set_quit r))) (set_eactive None s1)).
      split; [right; apply view_fire; apply (V_hinit cap s h KClose r); auto|].
      split; [|split].
      + apply view_fire. apply (V_hdone cap s1 h KClose (srch_set_quit r)); simpl; auto.
        rewrite (find_h_upd h srch_set_quit (srchs s) r h); auto. rewrite Nat.eqb_refl. reflexivity.
      + unfold terminated. simpl. auto.
      + reflexivity.
    - exists s. exists (run_cont KClose (Some (h_pv r)) (set_eactive None s)).
      split; [left; reflexivity|]. split; [|split].
      + apply view_fire. apply (V_hdone cap s h KClose r); auto.
      + unfold terminated. simpl. auto.
      + reflexivity.
  Qed.

  (** after the exit nothing changes for the outside world *)
  Theorem exited_silent : forall s s', reachable cap script s -> pc s = PExited -> star cap s s' ->
    pc s' = PExited /\ emitted s' = emitted s /\ out_closed s' = true /\ crashed s' = false.
  Proof.
    intros s s' R Hpc St. induction St.
    - repeat split; auto.
      + apply (output_closed_iff_exited cap script s R). exact Hpc.
      + apply (no_send_on_closed cap script s R).
    - destruct (IHSt R Hpc) as [P [E [O C]]].
      assert (R' := star_reachable cap script s s' R St).
      assert (Cl : closing s') by (unfold closing; rewrite P; exact I).
      destruct (closing_stable s' s'' R' Cl H) as [Cl' [E' [C' O']]].
      assert (P' : pc s'' = PExited).
      { destruct H as [l H]. apply fire_view in H. destruct H; simpl; auto; congruence. }
      repeat split; auto. congruence.
  Qed.
End Quit.

Print Assumptions quit_step.
Print Assumptions closing_stable.
Print Assumptions closing_can_finish.
Print Assumptions quit_terminates.
Print Assumptions exited_silent.
