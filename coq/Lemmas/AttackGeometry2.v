(** AttackGeometry2 — the slider attack boards (rook, bishop, queen) equal the geometric ray walk of
    Spec/Chess.v, for ALL occupancies.
    Route: (1) the state extracted from a rotated word, read through the rotation map, is the occupancy
    restricted to the line ([occ_line]); (2) [Chess.ray] only looks at the squares of the line
    ([ray_ext]); (3) finite sweep 64 x 256 per table: entry = ray walk on [occ_line]. *)
From Coq Require Import NArith ZArith List Bool Lia ZifyBool ZifyNat ZifyN.
From Morlock.gen Require Import GenTables GenRookRank GenRookFile GenBishopL GenBishopR.
From Morlock.Model Require Import Bits Attacks.
From Morlock.Spec Require Import Chess.
From Morlock.Lemmas Require Import AttackGeometry1.
Import ListNotations.
Open Scope N_scope.

Definition occ_of (occ : N) : nat -> bool := fun s => N.testbit occ (N.of_nat s).

(** * bitboard of a list of squares *)

Definition bb_of_list (l : list nat) : N :=
  fold_right (fun s acc => N.lor (N.shiftl 1 (N.of_nat s)) acc) 0 l.

Lemma tb_bb_of_list l t : N.testbit (bb_of_list l) t = mem_nat (N.to_nat t) l.
Proof.
  unfold mem_nat. induction l as [|a l IH]; cbn [bb_of_list fold_right existsb].
  - apply N.bits_0.
  - fold (bb_of_list l). rewrite N.lor_spec, IH, N.shiftl_1_l, N.pow2_bits_eqb. f_equal.
    destruct (N.eqb_spec (N.of_nat a) t), (Nat.eqb_spec (N.to_nat t) a); try reflexivity; lia.
Qed.

Lemma mem_nat_app x l1 l2 : mem_nat x (l1 ++ l2) = mem_nat x l1 || mem_nat x l2.
Proof. unfold mem_nat. apply existsb_app. Qed.

Lemma mem_nat_In x l : mem_nat x l = true <-> In x l.
Proof.
  unfold mem_nat. rewrite existsb_exists. split.
  - intros [y [Hy E]]. apply Nat.eqb_eq in E. now subst.
  - intros H. exists x. split; [exact H|apply Nat.eqb_refl].
Qed.

(** * facts about [Chess.ray] and the step targets *)

Lemma sq_of_lt f r : on_board f r = true -> (sq_of f r < 64)%nat.
Proof. unfold on_board, sq_of. intros H. lia. Qed.

Lemma ray_lt occ df dr n : forall f r s, In s (ray occ f r df dr n) -> (s < 64)%nat.
Proof.
  induction n as [|n IH]; intros f r s H; [destruct H|].
  simpl in H. destruct (on_board (f + df) (r + dr)) eqn:E; [|destruct H].
  destruct (occ (sq_of (f + df) (r + dr))).
  - destruct H as [<-|[]]. now apply sq_of_lt.
  - destruct H as [<-|H]; [now apply sq_of_lt|]. eapply IH; eauto.
Qed.

Lemma ray_ext occ occ' df dr n : forall f r,
  (forall s, In s (ray (fun _ => false) f r df dr n) -> occ s = occ' s) ->
  ray occ f r df dr n = ray occ' f r df dr n.
Proof.
  induction n as [|n IH]; intros f r H; [reflexivity|].
  simpl in *. destruct (on_board (f + df) (r + dr)) eqn:E; [|reflexivity].
  rewrite <- (H _ (or_introl eq_refl)).
  destruct (occ (sq_of (f + df) (r + dr))); [reflexivity|].
  f_equal. apply IH. intros s Hs. apply H. now right.
Qed.

Lemma slide_lt occ s dirs x : In x (slide_targets occ s dirs) -> (x < 64)%nat.
Proof.
  unfold slide_targets. rewrite in_flat_map. intros [d [_ H]]. eapply ray_lt; eauto.
Qed.

Lemma slide_ext occ occ' s dirs :
  (forall x, In x (slide_targets (fun _ => false) s dirs) -> occ x = occ' x) ->
  slide_targets occ s dirs = slide_targets occ' s dirs.
Proof.
  unfold slide_targets. induction dirs as [|d dirs IH]; intros H; cbn [flat_map]; [reflexivity|].
  f_equal.
  - apply ray_ext. intros x Hx. apply H. cbn [flat_map]. apply in_or_app. now left.
  - apply IH. intros x Hx. apply H. cbn [flat_map]. apply in_or_app. now right.
Qed.

Lemma slide_app occ s d1 d2 :
  slide_targets occ s (d1 ++ d2) = slide_targets occ s d1 ++ slide_targets occ s d2.
Proof. unfold slide_targets. apply flat_map_app. Qed.

Lemma step_lt s offs x : In x (step_targets s offs) -> (x < 64)%nat.
Proof.
  unfold step_targets. rewrite in_flat_map. intros [o [_ H]].
  cbv zeta in H. destruct (on_board (file_of s + fst o) (rank_of s + snd o)) eqn:E; [|destruct H].
  destruct H as [<-|[]]. now apply sq_of_lt.
Qed.

(** membership in a list of board squares is already bounded *)
Lemma mem_bounded l t : (forall x, In x l -> (x < 64)%nat) ->
  mem_nat (N.to_nat t) l = (t <? 64) && mem_nat (N.to_nat t) l.
Proof.
  intros H. destruct (mem_nat (N.to_nat t) l) eqn:E; [|now rewrite andb_false_r].
  apply mem_nat_In, H in E. destruct (N.ltb_spec t 64); [reflexivity|lia].
Qed.

(** * one line (rank / file / diagonal) *)

(** the occupancy seen through a line state: square [s] is occupied iff its rotated index [g s] falls
    in the window starting at [off] and the corresponding state bit is set *)
Definition occ_line (g : N -> N) (off st : N) : nat -> bool :=
  fun s => let j := g (N.of_nat s) in (off <=? j) && N.testbit st (j - off).

Definition line_state (P : rotated -> N) (off mask : N -> N) (bb : rotated) (sq : N) : N :=
  N.land (shr64 (P bb) (off sq)) (mask sq).

(** finite sweep: every table entry (for states within the mask) is the ray walk on [occ_line] *)
Definition line_tbl_ok (g : N -> N) (T : list (list N)) (off mask : N -> N) (dirs : list (Z * Z)) : bool :=
  forallb (fun sq =>
    forallb (fun st =>
      let st' := N.land st (mask sq) in
      tbl2 T sq st' =? bb_of_list (slide_targets (occ_line g (off sq) st') (N.to_nat sq) dirs))
      (seqN 256)) (seqN 64).

(** finite check: the mask fits in 8 bits and every square on the (empty-board) rays from [sq] lies in
    the window of the line through [sq] *)
Definition line_sq_ok (g : N -> N) (off mask : N -> N) (dirs : list (Z * Z)) : bool :=
  forallb (fun sq =>
    (N.land (mask sq) (N.ones 8) =? mask sq) &&
    forallb (fun s => let j := g (N.of_nat s) in
                      (N.of_nat s <? 64) && (off sq <=? j) && N.testbit (mask sq) (j - off sq))
            (slide_targets (fun _ => false) (N.to_nat sq) dirs)) (seqN 64).

Section Line.
  Variables (P : rotated -> N) (g : N -> N) (T : list (list N)) (off mask : N -> N) (dirs : list (Z * Z)).
  Hypothesis lift : forall occ s, s < 64 -> N.testbit (P (new_rotated occ)) (g s) = N.testbit occ s.
  Hypothesis tbl_ok : line_tbl_ok g T off mask dirs = true.
  Hypothesis sq_ok : line_sq_ok g off mask dirs = true.

  Theorem line_geometric occ sq t : sq < 64 ->
    N.testbit (tbl2 T sq (line_state P off mask (new_rotated occ) sq)) t =
    mem_nat (N.to_nat t) (slide_targets (occ_of occ) (N.to_nat sq) dirs).
  Proof.
    intros Hsq. apply in_seqN64 in Hsq.
    unfold line_sq_ok in sq_ok. rewrite forallb_forall in sq_ok. specialize (sq_ok sq Hsq).
    apply andb_true_iff in sq_ok as [Hm Hon]. apply N.eqb_eq in Hm. rewrite forallb_forall in Hon.
    set (X := line_state P off mask (new_rotated occ) sq).
    assert (HX1 : N.land X (mask sq) = X).
    { unfold X, line_state. now rewrite <- N.land_assoc, N.land_diag. }
    assert (HX2 : X < 256).
    { rewrite <- HX1, <- Hm, N.land_assoc, N.land_ones. change 256 with (2 ^ 8).
      apply N.mod_upper_bound. discriminate. }
    unfold line_tbl_ok in tbl_ok. rewrite forallb_forall in tbl_ok. specialize (tbl_ok sq Hsq).
    rewrite forallb_forall in tbl_ok. specialize (tbl_ok X (proj2 (in_seqN256 X) HX2)).
    cbv zeta in tbl_ok. rewrite HX1 in tbl_ok. apply N.eqb_eq in tbl_ok.
    rewrite tbl_ok, tb_bb_of_list. f_equal. apply slide_ext.
    intros x Hx. specialize (Hon x Hx). cbv zeta in Hon.
    apply andb_true_iff in Hon as [Hon H3]. apply andb_true_iff in Hon as [H1 H2].
    apply N.ltb_lt in H1. apply N.leb_le in H2.
    unfold occ_line, occ_of. cbv zeta. unfold X, line_state.
    rewrite N.land_spec, tb_shr64, H3, andb_true_r.
    replace (g (N.of_nat x) - off sq + off sq) with (g (N.of_nat x)) by lia.
    rewrite lift by exact H1. destruct (N.leb_spec (off sq) (g (N.of_nat x))); [reflexivity|lia].
  Qed.
End Line.

(** * the four concrete lines *)

Definition off_rank (sq : N) : N := shl64 (sq_rank sq) 3.
Definition off_file (sq : N) : N := shl64 (sq_file sq) 3.
Definition off_45L (sq : N) : N := nthN g_off45L sq 0.
Definition off_45R (sq : N) : N := nthN g_off45R sq 0.
Definition mask_ff (sq : N) : N := 255.
Definition mask_45L (sq : N) : N := nthN g_mask45L sq 0.
Definition mask_45R (sq : N) : N := nthN g_mask45R sq 0.

Definition dirs_rank : list (Z * Z) := [(1,0);(-1,0)]%Z.
Definition dirs_file : list (Z * Z) := [(0,1);(0,-1)]%Z.
Definition dirs_45L : list (Z * Z) := [(1,1);(-1,-1)]%Z.
Definition dirs_45R : list (Z * Z) := [(1,-1);(-1,1)]%Z.

Lemma rank_tbl_ok : line_tbl_ok g_id g_rookrank off_rank mask_ff dirs_rank = true.
Proof. vm_compute. reflexivity. Qed.
Lemma file_tbl_ok : line_tbl_ok g90 g_rookfile off_file mask_ff dirs_file = true.
Proof. vm_compute. reflexivity. Qed.
Lemma d45L_tbl_ok : line_tbl_ok g45L g_bishopl off_45L mask_45L dirs_45L = true.
Proof. vm_compute. reflexivity. Qed.
Lemma d45R_tbl_ok : line_tbl_ok g45R g_bishopr off_45R mask_45R dirs_45R = true.
Proof. vm_compute. reflexivity. Qed.

Lemma rank_sq_ok : line_sq_ok g_id off_rank mask_ff dirs_rank = true.
Proof. vm_compute. reflexivity. Qed.
Lemma file_sq_ok : line_sq_ok g90 off_file mask_ff dirs_file = true.
Proof. vm_compute. reflexivity. Qed.
Lemma d45L_sq_ok : line_sq_ok g45L off_45L mask_45L dirs_45L = true.
Proof. vm_compute. reflexivity. Qed.
Lemma d45R_sq_ok : line_sq_ok g45R off_45R mask_45R dirs_45R = true.
Proof. vm_compute. reflexivity. Qed.

Definition rank_geometric := line_geometric r0 g_id g_rookrank off_rank mask_ff dirs_rank lift_r0 rank_tbl_ok rank_sq_ok.
Definition file_geometric := line_geometric r90 g90 g_rookfile off_file mask_ff dirs_file lift_r90 file_tbl_ok file_sq_ok.
Definition d45L_geometric := line_geometric r45L g45L g_bishopl off_45L mask_45L dirs_45L lift_r45L d45L_tbl_ok d45L_sq_ok.
Definition d45R_geometric := line_geometric r45R g45R g_bishopr off_45R mask_45R dirs_45R lift_r45R d45R_tbl_ok d45R_sq_ok.

(** * rook, bishop, queen *)

Lemma rook_split bb sq : rook_attackboard bb sq =
  N.lor (tbl2 g_rookrank sq (line_state r0 off_rank mask_ff bb sq))
        (tbl2 g_rookfile sq (line_state r90 off_file mask_ff bb sq)).
Proof. reflexivity. Qed.
Lemma bishop_split bb sq : bishop_attackboard bb sq =
  N.lor (tbl2 g_bishopl sq (line_state r45L off_45L mask_45L bb sq))
        (tbl2 g_bishopr sq (line_state r45R off_45R mask_45R bb sq)).
Proof. reflexivity. Qed.

Lemma rook_mem occ sq t : sq < 64 ->
  N.testbit (rook_attackboard (new_rotated occ) sq) t =
  mem_nat (N.to_nat t) (attacks_from (occ_of occ) Wh R (N.to_nat sq)).
Proof.
  intros Hsq. rewrite rook_split, N.lor_spec, rank_geometric, file_geometric by exact Hsq.
  cbn [attacks_from]. change rook_dirs with (dirs_rank ++ dirs_file).
  now rewrite slide_app, mem_nat_app.
Qed.

Lemma slide_cons occ s d ds : slide_targets occ s (d :: ds) = slide_targets occ s [d] ++ slide_targets occ s ds.
Proof. apply (slide_app occ s [d] ds). Qed.

Lemma bishop_mem occ sq t : sq < 64 ->
  N.testbit (bishop_attackboard (new_rotated occ) sq) t =
  mem_nat (N.to_nat t) (attacks_from (occ_of occ) Wh Bi (N.to_nat sq)).
Proof.
  intros Hsq. rewrite bishop_split, N.lor_spec, d45L_geometric, d45R_geometric by exact Hsq.
  cbn [attacks_from]. unfold bishop_dirs, dirs_45L, dirs_45R.
  rewrite !(slide_cons _ _ _ (_ :: _)), !mem_nat_app.
  destruct (mem_nat (N.to_nat t) (slide_targets (occ_of occ) (N.to_nat sq) [(1, 1)%Z])),
           (mem_nat (N.to_nat t) (slide_targets (occ_of occ) (N.to_nat sq) [(-1, -1)%Z])),
           (mem_nat (N.to_nat t) (slide_targets (occ_of occ) (N.to_nat sq) [(1, -1)%Z])),
           (mem_nat (N.to_nat t) (slide_targets (occ_of occ) (N.to_nat sq) [(-1, 1)%Z])); reflexivity.
Qed.

Lemma queen_mem occ sq t : sq < 64 ->
  N.testbit (queen_attackboard (new_rotated occ) sq) t =
  mem_nat (N.to_nat t) (attacks_from (occ_of occ) Wh Q (N.to_nat sq)).
Proof.
  intros Hsq. unfold queen_attackboard. rewrite N.lor_spec, rook_mem, bishop_mem by exact Hsq.
  cbn [attacks_from]. now rewrite slide_app, mem_nat_app.
Qed.

Theorem rook_attack_geometric : forall occ sq t, sq < 64 ->
  N.testbit (rook_attackboard (new_rotated occ) sq) t =
  (t <? 64) && mem_nat (N.to_nat t) (attacks_from (occ_of occ) Wh R (N.to_nat sq)).
Proof.
  intros occ sq t Hsq. rewrite rook_mem by exact Hsq. apply mem_bounded.
  intros x. cbn [attacks_from]. apply slide_lt.
Qed.
Print Assumptions rook_attack_geometric.

Theorem bishop_attack_geometric : forall occ sq t, sq < 64 ->
  N.testbit (bishop_attackboard (new_rotated occ) sq) t =
  (t <? 64) && mem_nat (N.to_nat t) (attacks_from (occ_of occ) Wh Bi (N.to_nat sq)).
Proof.
  intros occ sq t Hsq. rewrite bishop_mem by exact Hsq. apply mem_bounded.
  intros x. cbn [attacks_from]. apply slide_lt.
Qed.
Print Assumptions bishop_attack_geometric.

Theorem queen_attack_geometric : forall occ sq t, sq < 64 ->
  N.testbit (queen_attackboard (new_rotated occ) sq) t =
  (t <? 64) && mem_nat (N.to_nat t) (attacks_from (occ_of occ) Wh Q (N.to_nat sq)).
Proof.
  intros occ sq t Hsq. rewrite queen_mem by exact Hsq. apply mem_bounded.
  intros x. cbn [attacks_from]. apply slide_lt.
Qed.
Print Assumptions queen_attack_geometric.

(** the colour argument of [attacks_from] is irrelevant for officers *)
Lemma attacks_from_color occ c k s : k <> P -> attacks_from occ c k s = attacks_from occ Wh k s.
Proof. destruct k; try reflexivity. congruence. Qed.
