(** * Driver transition system (Model/Driver.v): index of the results for C04, C15 (halting), C16.

    DriverLemmas1  step view (one constructor per step), loop/output invariant InvA
    DriverLemmas2  no_send_on_closed, at_most_one_bestmove, no_stale_bestmove(_step), superseded_dead,
                   isready_answered(_step), consumed_inp
    DriverLemmas3  per-search protocol invariant InvB (hok, engine slot, loop blocked in Halt)
    DriverLemmas4  halt_protocol, halt_returns, timer_halt_after_depth1, no_deadlock, halt_way_forward
    DriverLemmas5  InvC, exactly_one_bestmove (quiescence form)
    DriverLemmas6  haltinit_can_pass, haltdone_can_return, quit_step, closing_stable,
                   closing_can_finish, quit_terminates, exited_silent
    DriverLemmas7  steps_sound / steps_complete (executable = relation), legacy refutations,
                   bounded exhaustive exploration, trace-checker examples
    DriverLemmas8  haltinit_persists, haltdone_persists, blocked_halt_waits_for_search (the loop's way
                   out of Halt stays enabled: with weak fairness Halt returns)

    This file: the C15 statements under the names of the plan, and the end-to-end form of
    "no bestmove for a superseded search". *)
From Coq Require Import List Bool Arith PeanoNat Lia.
From Morlock.Model Require Import Driver.
From Morlock.Lemmas Require Import DriverLemmas1 DriverLemmas2 DriverLemmas3 DriverLemmas4
  DriverLemmas5 DriverLemmas6 DriverLemmas7 DriverLemmas8.
Import ListNotations.

Section Index.
  Variable cap : nat.
  Variable script : list cmd.

  (** the value Engine.Halt hands to the loop when the step [s -> s'] is its return *)
  Definition halt_result (s : dstate) : option (nat * nat) :=      (* (handle, depth of the pv) *)
    match pc s with
    | PHaltDone h _ =>
        match find_h h (srchs s) with
        | Some r => if h_done r then Some (h, h_pv r) else None
        | None => None
        end
    | _ => None
    end.

  Lemma halt_result_fire : forall s s', fire cap LHaltDone s = Some s' -> exists h d, halt_result s = Some (h, d).
  Proof.
    intros s s' F. simpl in F. unfold with_srch in F. unfold halt_result.
    destruct (pc s); try discriminate. destruct (find_h h (srchs s)); try discriminate.
    destruct (h_done s0); try discriminate. eauto.
  Qed.

  Lemma halt_result_inv : forall s h d, reachable cap script s -> halt_result s = Some (h, d) ->
    exists k r s', pc s = PHaltDone h k /\ find_h h (srchs s) = Some r /\ d = h_pv r
                   /\ fire cap LHaltDone s = Some s'.
  Proof.
    intros s h d R H. unfold halt_result in H. destruct (pc s) eqn:Hpc; try discriminate.
    destruct (find_h h0 (srchs s)) as [r|] eqn:F; try discriminate.
    destruct (h_done r) eqn:D; inversion H; subst. exists k, r. eexists. repeat split; eauto.
    simpl. unfold with_srch. rewrite Hpc, F, D. reflexivity.
  Qed.

  (** C15: Halt never returns before depth 1 is complete *)
  Theorem halt_after_depth1 : forall s h d, reachable cap script s -> halt_result s = Some (h, d) -> 1 <= d.
  Proof.
    intros s h d R H. destruct (halt_result_inv s h d R H) as [k [r [s' [Hpc [F [-> Fi]]]]]].
    destruct (halt_returns cap script s s' R Fi) as [h' [k' [r' [P [F' [_ [_ [_ [_ [_ [D1 _]]]]]]]]]]].
    rewrite Hpc in P. inversion P; subst. rewrite F in F'. inversion F'; subst. exact D1.
  Qed.

  (** C15: it returns a fully completed iteration: the pv stored by the last completed iteration,
      which was sent on `out`, after the search process has exited *)
  Theorem halt_returns_completed : forall s h d, reachable cap script s -> halt_result s = Some (h, d) ->
    exists r, find_h h (srchs s) = Some r /\ d = h_pv r /\ In d (h_sent r) /\ h_proc r = PExit
              /\ h_init r = true /\ h_quit r = true /\ h_done r = true.
  Proof.
    intros s h d R H. destruct (halt_result_inv s h d R H) as [k [r [s' [Hpc [F [-> Fi]]]]]].
    destruct (halt_returns cap script s s' R Fi) as [h' [k' [r' [P [F' [_ [I [Q [D [E [_ [S _]]]]]]]]]]]].
    rewrite Hpc in P. inversion P; subst. rewrite F in F'. inversion F'; subst.
    exists r'. repeat split; auto.
  Qed.

  (** C15: ... at least as deep as every iteration reported before (sent on `out`, queued for the
      loop, or already printed as an info line of this search) *)
  Theorem halt_at_least_reported : forall s h d, reachable cap script s -> halt_result s = Some (h, d) ->
    (forall r x, find_h h (srchs s) = Some r -> In x (h_sent r) -> x <= d)
    /\ (forall x, In (UInfo h x) (ponder s) -> x <= d)
    /\ (forall x, In (LInfo h x) (emitted s) -> x <= d).
  Proof.
    intros s h d R H. destruct (halt_result_inv s h d R H) as [k [r [s' [Hpc [F [-> Fi]]]]]].
    destruct (halt_returns cap script s s' R Fi) as [h' [k' [r' [P [F' [_ [_ [_ [_ [_ [_ [_ [S1 [S2 S3]]]]]]]]]]]]]].
    rewrite Hpc in P. inversion P; subst. rewrite F in F'. inversion F'; subst.
    repeat split; auto. intros r0 x F0 Hx. rewrite F in F0. inversion F0; subst. auto.
  Qed.

  (** C16: once a superseding command (position, ucinewgame, go, quit, a malformed go/position, or
      the end of input) has been consumed, no search started before it is ever answered *)
  Theorem superseded_never_answered : forall s s1 s2 q d, reachable cap script s ->
    fire cap LCmd s = Some s1 ->
    (match inp s with [] => true | c :: _ => supersedes c end) = true ->
    star cap s1 s2 -> q <> 0 -> q <= searches s ->
    In (LBest q d) (emitted s2) -> In (LBest q d) (emitted s).
  Proof.
    intros s s1 s2 q d R F Hc St Hq Hle Hin.
    assert (R1 : reachable cap script s1) by (eapply reach_step; eauto; exists LCmd; exact F).
    assert (D := superseded_dead cap script s s1 q R F Hc Hq Hle).
    destruct (no_stale_bestmove cap script s1 s2 q R1 D St) as [_ Sub].
    apply Sub in Hin.
    assert (I := InvA_reachable cap script s R).
    assert (Stp : step cap s s1) by (exists LCmd; exact F).
    destruct (step_effect cap s s1 I Stp) as [_ [_ [E|[x [E N]]]]]; rewrite E in Hin; auto.
    destruct Hin as [->|Hin]; auto. simpl in N.
    destruct N as [N1 [N2 [N3 [[N4 N5]|N4]]]]; [|lia].
    (* the command itself would have answered q = searches s: superseding commands do not *)
    assert (O' := closed_false s I).
    exfalso. clear Sub D St R1 Stp N2 N3 I R. simpl in F.
    destruct (pc s) eqn:Hpc; try discriminate.
    destruct (inp s) as [|c rest] eqn:Hi; inversion F; subst; clear F.
    - clear O'. revert E. crush_loop; intros E; try discriminate;
        apply (f_equal (@length _)) in E; simpl in E; lia.
    - assert (O : out_closed s = false) by (apply O'; discriminate). clear O'.
      revert E. destruct c; try discriminate; crush_loop; intros E; try discriminate;
        try (apply (f_equal (@length _)) in E; simpl in E; lia);
        inversion E; lia.
  Qed.
End Index.

Print Assumptions halt_after_depth1.
Print Assumptions halt_returns_completed.
Print Assumptions halt_at_least_reported.
Print Assumptions superseded_never_answered.
