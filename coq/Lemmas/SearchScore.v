(** Score-algebra laws needed by the alpha-beta / quiescence contract (C13, C03).

    Part 1: an "ideal" score type [iscore] (lost in n plies / heuristic key / won in n plies, with
    n = 0 for -inf / +inf) on which the order and the transformers [T] (value of a move given the
    value of the position it leads to) and [U] (bound transformer for the child window) are total
    and satisfy their laws unconditionally, and the abstraction [iabs : score -> iscore] under which
    the model's [less], [go_eq], [negate], [inc], [dec], [T], [U], [smax] are the ideal ones on valid
    scores (with |mate| <= 126 where [inc] is involved, so that int8 does not wrap).

    Part 2: the laws stated directly on the model's operations (deliverable A). *)
From Coq Require Import ZArith Bool Lia List.
From Morlock.Model Require Import Score.
From Morlock.Lemmas Require Import ScoreLemmas.
Open Scope Z_scope.

(** * Ideal scores *)
Inductive iscore := ILost (n : nat) | IHeur (k : Z) | IWon (n : nat).

Definition ile (a b : iscore) : Prop :=
  match a, b with
  | ILost n, ILost m => (n <= m)%nat
  | ILost _, _ => True
  | IHeur _, ILost _ => False
  | IHeur x, IHeur y => x <= y
  | IHeur _, IWon _ => True
  | IWon n, IWon m => (m <= n)%nat
  | IWon _, _ => False
  end.
Definition ileb (a b : iscore) : bool :=
  match a, b with
  | ILost n, ILost m => (n <=? m)%nat
  | ILost _, _ => true
  | IHeur _, ILost _ => false
  | IHeur x, IHeur y => x <=? y
  | IHeur _, IWon _ => true
  | IWon n, IWon m => (m <=? n)%nat
  | IWon _, _ => false
  end.
Definition ilt (a b : iscore) : Prop := ~ ile b a.
Definition iltb (a b : iscore) : bool := negb (ileb b a).

Definition ineg (a : iscore) : iscore :=
  match a with ILost n => IWon n | IHeur k => IHeur (- k) | IWon n => ILost n end.
Definition iinc (a : iscore) : iscore :=
  match a with ILost n => ILost (S n) | IHeur k => IHeur k | IWon n => IWon (S n) end.
Definition idec (a : iscore) : iscore :=
  match a with ILost n => ILost (pred n) | IHeur k => IHeur k | IWon n => IWon (pred n) end.
Definition iT (a : iscore) : iscore := ineg (iinc a).
Definition iU (a : iscore) : iscore := idec (ineg a).
Definition itop : iscore := IWon 0.
Definition ibot : iscore := ILost 0.
Definition izero : iscore := IHeur 0.
Definition imax (a b : iscore) : iscore := if iltb a b then b else a.

Ltac isimp := cbn [ile ileb iT iU ineg iinc idec itop ibot izero].

Lemma ileb_spec a b : ileb a b = true <-> ile a b.
Proof. destruct a, b; isimp; rewrite ?Nat.leb_le, ?Z.leb_le; intuition congruence. Qed.
Lemma ile_refl a : ile a a.
Proof. destruct a; isimp; lia. Qed.
Lemma ile_trans a b c : ile a b -> ile b c -> ile a c.
Proof. destruct a, b, c; isimp; lia. Qed.
Lemma ile_total a b : ile a b \/ ile b a.
Proof. destruct a, b; isimp; lia. Qed.
Lemma ile_antisym a b : ile a b -> ile b a -> a = b.
Proof. destruct a, b; isimp; intros; try contradiction; f_equal; lia. Qed.
Lemma ile_top x : ile x itop.
Proof. destruct x; isimp; lia. Qed.
Lemma ile_bot x : ile ibot x.
Proof. destruct x; isimp; lia. Qed.
Lemma izero_lt_top : ilt izero itop.
Proof. unfold ilt; isimp; tauto. Qed.
Lemma ibot_lt_top : ilt ibot itop.
Proof. unfold ilt; isimp; tauto. Qed.
Lemma iT_anti a b : ile a b -> ile (iT b) (iT a).
Proof. destruct a, b; isimp; lia. Qed.
Lemma iT_lt_top v : ilt (iT v) itop.
Proof. unfold ilt; destruct v; isimp; lia. Qed.
Lemma iA1 s v : ilt v itop -> (ilt s (iT v) <-> ilt v (iU s)).
Proof. unfold ilt; destruct s, v; isimp; lia. Qed.
Lemma iTU_ge s : ile s (iT (iU s)) \/ (forall x, ile (iU s) x).
Proof.
  destruct s as [n|k|n]; isimp.
  - left; lia.
  - left; lia.
  - destruct n as [|n]; [right; intros x; destruct x; isimp; lia|].
    destruct n as [|n]; [right; intros x; destruct x; isimp; lia|left; isimp; lia].
Qed.
Lemma iU_iT v : iU (iT v) = v.
Proof. destruct v; isimp; f_equal; lia. Qed.

(** * Abstraction *)
Definition iabs (s : score) : iscore :=
  match sty s with
  | NegInf => ILost 0
  | Inf => IWon 0
  | MateInX => if smate s <? 0 then ILost (Z.to_nat (- smate s)) else IWon (Z.to_nat (smate s))
  | Heuristic => IHeur (f_key (sbits s))
  | Invalid => IHeur 0
  end.

Definition irank (a : iscore) : Z * Z :=
  match a with
  | ILost O => (0, 0)
  | ILost n => (1, Z.of_nat n)
  | IHeur k => (2, k)
  | IWon O => (4, 0)
  | IWon n => (3, - Z.of_nat n)
  end.

Lemma rank_iabs s : valid s = true -> rank s = irank (iabs s).
Proof.
  intros Hs. destruct (valid_cases s Hs) as [->|[->|[[m [-> [Hm Hr]]]|[b [-> [Hn Hb]]]]]]; try reflexivity.
  rewrite rank_mate. unfold iabs, mate_in; cbn [sty smate].
  destruct (m <? 0) eqn:E; [apply Z.ltb_lt in E|apply Z.ltb_ge in E].
  - destruct (Z.to_nat (- m)) eqn:En; [lia|]. cbn [irank]. f_equal. lia.
  - destruct (Z.to_nat m) eqn:En; [lia|]. cbn [irank]. f_equal. lia.
Qed.

Lemma irank_lt a b : rank_ltP (irank a) (irank b) <-> ilt a b.
Proof.
  unfold rank_ltP, ilt.
  destruct a as [[|n]|k|[|n]], b as [[|m]|j|[|m]]; cbn [irank ile fst snd]; lia.
Qed.

Lemma iltb_spec a b : iltb a b = true <-> ilt a b.
Proof. unfold iltb, ilt. rewrite negb_true_iff, <- not_true_iff_false, ileb_spec. tauto. Qed.

(** the model's order is the ideal order *)
Theorem less_iabs a b : valid a = true -> valid b = true -> less a b = iltb (iabs a) (iabs b).
Proof.
  intros Ha Hb. rewrite less_rank by assumption. apply eq_true_iff_eq.
  rewrite rank_lt_iff, !rank_iabs by assumption. rewrite irank_lt, iltb_spec. tauto.
Qed.

Lemma irank_inj a b : irank a = irank b -> a = b.
Proof.
  destruct a as [[|n]|k|[|n]], b as [[|m]|j|[|m]]; cbn [irank]; intros E; try discriminate E;
    try reflexivity; injection E; intros; f_equal; lia.
Qed.

(** Go's [==] is equality of ideal scores *)
Theorem go_eq_iabs a b : valid a = true -> valid b = true -> (go_eq a b = true <-> iabs a = iabs b).
Proof.
  intros Ha Hb. rewrite <- rank_eq_iff by assumption. rewrite !rank_iabs by assumption.
  split; [apply irank_inj|intros ->; reflexivity].
Qed.

Lemma iabs_negate s : valid s = true -> iabs (negate s) = ineg (iabs s).
Proof.
  intros Hs. destruct (valid_cases s Hs) as [->|[->|[[m [-> [Hm Hr]]]|[b [-> [Hn Hb]]]]]]; try reflexivity.
  - rewrite negate_mate by lia. unfold iabs, mate_in; cbn [sty smate].
    destruct (m <? 0) eqn:E1, (- m <? 0) eqn:E2;
      try apply Z.ltb_lt in E1; try apply Z.ltb_ge in E1; try apply Z.ltb_lt in E2; try apply Z.ltb_ge in E2;
      try (exfalso; lia); cbn [ineg]; f_equal; lia.
  - unfold negate; cbn [sty sbits heuristic]. unfold iabs; cbn [sty sbits heuristic ineg].
    rewrite f_key_neg by assumption. reflexivity.
Qed.

Lemma iabs_inc s : valid s = true -> inc_ok s = true -> iabs (inc s) = iinc (iabs s).
Proof.
  intros Hs Hi. destruct (valid_cases s Hs) as [->|[->|[[m [-> [Hm Hr]]]|[b [-> [Hn Hb]]]]]]; try reflexivity.
  apply inc_ok_mate in Hi. rewrite inc_mate by assumption. unfold iabs, mate_in; cbn [sty smate].
  destruct (m <? 0) eqn:E; [apply Z.ltb_lt in E|apply Z.ltb_ge in E].
  - assert (E2 : m - 1 <? 0 = true) by (apply Z.ltb_lt; lia). rewrite E2. cbn [iinc]. f_equal. lia.
  - assert (E2 : m + 1 <? 0 = false) by (apply Z.ltb_ge; lia). rewrite E2. cbn [iinc]. f_equal. lia.
Qed.

Lemma dec_mate m : m <> 0 -> -127 <= m <= 127 ->
  dec (mate_in m) = if m =? 1 then inf_score else if m =? -1 then neginf_score
                    else mate_in (if m <? 0 then m + 1 else m - 1).
Proof.
  intros Hm Hr. unfold dec, mate_in; cbn [sty smate].
  destruct (m =? 1); [reflexivity|]. destruct (m =? -1); [reflexivity|].
  destruct (m <? 0) eqn:E; [apply Z.ltb_lt in E|apply Z.ltb_ge in E]; rewrite wrap8_small by lia; reflexivity.
Qed.

Lemma valid_dec s : valid s = true -> valid (dec s) = true.
Proof.
  intros Hs. destruct (valid_cases s Hs) as [->|[->|[[m [-> [Hm Hr]]]|[b [-> [Hn Hb]]]]]]; try reflexivity.
  - rewrite dec_mate by assumption.
    destruct (m =? 1) eqn:E1; [reflexivity|]. destruct (m =? -1) eqn:E2; [reflexivity|].
    apply Z.eqb_neq in E1, E2.
    destruct (m <? 0) eqn:E; [apply Z.ltb_lt in E|apply Z.ltb_ge in E]; apply valid_mate; lia.
  - unfold dec; cbn [sty heuristic]. apply valid_heur; assumption.
Qed.

Lemma iabs_dec s : valid s = true -> iabs (dec s) = idec (iabs s).
Proof.
  intros Hs. destruct (valid_cases s Hs) as [->|[->|[[m [-> [Hm Hr]]]|[b [-> [Hn Hb]]]]]]; try reflexivity.
  rewrite dec_mate by assumption.
  destruct (m =? 1) eqn:E1; [apply Z.eqb_eq in E1; subst m; reflexivity|].
  destruct (m =? -1) eqn:E2; [apply Z.eqb_eq in E2; subst m; reflexivity|].
  apply Z.eqb_neq in E1, E2. unfold iabs, mate_in; cbn [sty smate].
  destruct (m <? 0) eqn:E; [apply Z.ltb_lt in E|apply Z.ltb_ge in E].
  - assert (E3 : m + 1 <? 0 = true) by (apply Z.ltb_lt; lia). rewrite E3. cbn [idec]. f_equal. lia.
  - assert (E3 : m - 1 <? 0 = false) by (apply Z.ltb_ge; lia). rewrite E3. cbn [idec]. f_equal. lia.
Qed.

(** * Mate-distance bookkeeping: |mate| stays within int8 *)
Definition mabs (s : score) : Z := Z.abs (smate s).
Definition okm (k : Z) (s : score) : Prop := valid s = true /\ mabs s <= k.

Lemma inc_ok_mabs s : inc_ok s = true <-> mabs s <= 126.
Proof. unfold inc_ok, mabs. rewrite andb_true_iff, !Z.leb_le. lia. Qed.
Lemma okm_valid k s : okm k s -> valid s = true.
Proof. intros [H _]; exact H. Qed.
Lemma okm_inc_ok k s : okm k s -> k <= 126 -> inc_ok s = true.
Proof. intros [_ H] Hk. apply inc_ok_mabs. lia. Qed.
Lemma okm_weaken k k' s : okm k s -> k <= k' -> okm k' s.
Proof. intros [H1 H2] Hk. split; [assumption|lia]. Qed.
Lemma valid_okm s : valid s = true -> okm 127 s.
Proof.
  intros Hs. split; [assumption|]. unfold mabs.
  destruct (valid_cases s Hs) as [->|[->|[[m [-> [Hm Hr]]]|[b [-> [Hn Hb]]]]]]; cbn [smate mate_in heuristic neginf_score inf_score]; lia.
Qed.
Lemma mabs_nonneg s : 0 <= mabs s.
Proof. unfold mabs; lia. Qed.

Lemma mabs_negate s : valid s = true -> mabs (negate s) = mabs s.
Proof.
  intros Hs. destruct (valid_cases s Hs) as [->|[->|[[m [-> [Hm Hr]]]|[b [-> [Hn Hb]]]]]]; try reflexivity.
  rewrite negate_mate by lia. unfold mabs, mate_in; cbn [smate]. lia.
Qed.
Lemma mabs_inc s : valid s = true -> inc_ok s = true -> mabs (inc s) <= mabs s + 1.
Proof.
  intros Hs Hi. destruct (valid_cases s Hs) as [->|[->|[[m [-> [Hm Hr]]]|[b [-> [Hn Hb]]]]]];
    try (unfold mabs; cbn; lia).
  apply inc_ok_mate in Hi. rewrite inc_mate by assumption. unfold mabs, mate_in; cbn [smate].
  destruct (m <? 0) eqn:E; [apply Z.ltb_lt in E|apply Z.ltb_ge in E]; lia.
Qed.
(** [dec] strictly shortens a mate; everything else has distance 0 *)
Lemma mabs_dec s : valid s = true -> mabs (dec s) + 1 <= Z.max 1 (mabs s).
Proof.
  intros Hs. destruct (valid_cases s Hs) as [->|[->|[[m [-> [Hm Hr]]]|[b [-> [Hn Hb]]]]]];
    try (unfold mabs; cbn; lia).
  rewrite dec_mate by assumption.
  destruct (m =? 1) eqn:E1; [unfold mabs; cbn [smate inf_score mate_in]; lia|].
  destruct (m =? -1) eqn:E2; [unfold mabs; cbn [smate neginf_score mate_in]; lia|].
  apply Z.eqb_neq in E1, E2. unfold mabs, mate_in; cbn [smate].
  destruct (m <? 0) eqn:E; [apply Z.ltb_lt in E|apply Z.ltb_ge in E]; lia.
Qed.

Lemma valid_T s : valid s = true -> inc_ok s = true -> valid (T s) = true.
Proof. intros. unfold T. apply valid_negate, valid_inc; assumption. Qed.
Lemma valid_U s : valid s = true -> valid (U s) = true.
Proof. intros. unfold U. apply valid_dec, valid_negate; assumption. Qed.
Lemma mabs_T s : valid s = true -> inc_ok s = true -> mabs (T s) <= mabs s + 1.
Proof. intros Hs Hi. unfold T. rewrite mabs_negate by (apply valid_inc; assumption). apply mabs_inc; assumption. Qed.
Lemma mabs_U s : valid s = true -> mabs (U s) + 1 <= Z.max 1 (mabs s).
Proof. intros Hs. unfold U. rewrite <- (mabs_negate s) by assumption. apply mabs_dec, valid_negate; assumption. Qed.
Lemma inc_ok_U s : valid s = true -> inc_ok (U s) = true.
Proof. intros Hs. apply inc_ok_mabs. pose proof (mabs_U s Hs). destruct (valid_okm s Hs) as [_ H1]. lia. Qed.
Lemma okm_T k s : okm k s -> k <= 126 -> okm (k + 1) (T s).
Proof.
  intros [Hs Hk] Hk'. assert (Hi : inc_ok s = true) by (apply inc_ok_mabs; lia).
  split; [apply valid_T; assumption|]. pose proof (mabs_T s Hs Hi). lia.
Qed.
Lemma okm_U s : valid s = true -> okm 126 (U s).
Proof. intros Hs. split; [apply valid_U; assumption|]. apply inc_ok_mabs, inc_ok_U; assumption. Qed.

Lemma iabs_T s : valid s = true -> inc_ok s = true -> iabs (T s) = iT (iabs s).
Proof. intros Hs Hi. unfold T, iT. rewrite iabs_negate by (apply valid_inc; assumption). rewrite iabs_inc by assumption. reflexivity. Qed.
Lemma iabs_U s : valid s = true -> iabs (U s) = iU (iabs s).
Proof. intros Hs. unfold U, iU. rewrite iabs_dec by (apply valid_negate; assumption). rewrite iabs_negate by assumption. reflexivity. Qed.

Lemma iabs_smax a b : valid a = true -> valid b = true -> iabs (smax a b) = imax (iabs a) (iabs b).
Proof. intros Ha Hb. unfold smax, imax. rewrite less_iabs by assumption. destruct (iltb (iabs a) (iabs b)); reflexivity. Qed.
Lemma valid_smax a b : valid a = true -> valid b = true -> valid (smax a b) = true.
Proof. intros Ha Hb. unfold smax. destruct (less a b); assumption. Qed.
Lemma mabs_smax a b : mabs (smax a b) <= Z.max (mabs a) (mabs b).
Proof. unfold smax. destruct (less a b); lia. Qed.

Lemma iabs_inf : iabs inf_score = itop. Proof. reflexivity. Qed.
Lemma iabs_neginf : iabs neginf_score = ibot. Proof. reflexivity. Qed.
Lemma iabs_zero : iabs zero_score = izero. Proof. reflexivity. Qed.
Lemma mabs_heuristic b : mabs (heuristic b) = 0. Proof. reflexivity. Qed.

(** * Deliverable A: the laws on the model's operations *)
Definition le (a b : score) : Prop := less b a = false.

Lemma le_iabs a b : valid a = true -> valid b = true -> (le a b <-> ile (iabs a) (iabs b)).
Proof.
  intros Ha Hb. unfold le. rewrite less_iabs by assumption. unfold iltb.
  rewrite negb_false_iff. apply ileb_spec.
Qed.
Lemma lt_iabs a b : valid a = true -> valid b = true -> (less a b = true <-> ilt (iabs a) (iabs b)).
Proof. intros Ha Hb. rewrite less_iabs by assumption. apply iltb_spec. Qed.

(** [le] is a total preorder on valid scores whose equivalence is Go's [==] *)
Theorem le_refl a : valid a = true -> le a a.
Proof. intros Ha. apply le_iabs; auto. apply ile_refl. Qed.
Theorem le_trans a b c : valid a = true -> valid b = true -> valid c = true -> le a b -> le b c -> le a c.
Proof. intros Ha Hb Hc. rewrite !le_iabs by assumption. apply ile_trans. Qed.
Theorem le_total a b : valid a = true -> valid b = true -> le a b \/ le b a.
Proof. intros Ha Hb. rewrite !le_iabs by assumption. apply ile_total. Qed.
Theorem le_antisym_go_eq a b : valid a = true -> valid b = true -> (le a b /\ le b a <-> go_eq a b = true).
Proof.
  intros Ha Hb. rewrite !le_iabs, go_eq_iabs by assumption. split.
  - intros [H1 H2]. apply ile_antisym; assumption.
  - intros ->. split; apply ile_refl.
Qed.
Theorem le_inf a : valid a = true -> le a inf_score.
Proof. intros Ha. apply le_iabs; auto. apply ile_top. Qed.
Theorem le_neginf a : valid a = true -> le neginf_score a.
Proof. intros Ha. apply le_iabs; auto. apply ile_bot. Qed.

(** [T] is strictly antitone *)
Theorem T_antitone a b : valid a = true -> valid b = true -> inc_ok a = true -> inc_ok b = true ->
  less (T b) (T a) = less a b.
Proof.
  intros Ha Hb Hia Hib. unfold T. rewrite negate_reverses by (apply valid_inc; assumption).
  apply inc_monotone; assumption.
Qed.
Theorem T_lt_inf v : valid v = true -> inc_ok v = true -> less (T v) inf_score = true.
Proof.
  intros Hv Hi. apply lt_iabs; [apply valid_T; assumption|reflexivity|].
  rewrite iabs_T by assumption. apply iT_lt_top.
Qed.
Theorem U_T v : valid v = true -> inc_ok v = true -> U (T v) = v.
Proof.
  intros Hv Hi. unfold U, T. rewrite negate_involutive by (apply valid_inc; assumption).
  apply dec_inc; assumption.
Qed.
(** the adjunction between the value transformer and the bound transformer *)
Theorem adjunction s v : valid s = true -> valid v = true -> inc_ok v = true -> less v inf_score = true ->
  less s (T v) = less v (U s).
Proof.
  intros Hs Hv Hi Hlt. apply eq_true_iff_eq.
  rewrite !lt_iabs by (auto using valid_T, valid_U). rewrite iabs_T, iabs_U by assumption.
  apply iA1. apply lt_iabs in Hlt; auto.
Qed.
Theorem TU_ge s : valid s = true ->
  le s (T (U s)) \/ (forall x, valid x = true -> le (U s) x).
Proof.
  intros Hs. pose proof (valid_U s Hs) as HU. pose proof (inc_ok_U s Hs) as HI.
  destruct (iTU_ge (iabs s)) as [H|H].
  - left. apply le_iabs; [assumption|apply valid_T; assumption|].
    rewrite iabs_T, iabs_U by assumption. exact H.
  - right. intros x Hx. apply le_iabs; [assumption|assumption|]. rewrite iabs_U by assumption. apply H.
Qed.

(** with the unrepaired child bound [negate s] (no mate-distance shift) the adjunction fails *)
Theorem A1_legacy_refuted :
  exists s v, valid s = true /\ valid v = true /\ inc_ok v = true /\ less v inf_score = true /\
              less s (T v) <> less v (negate s).
Proof. exists (mate_in (-3)), (mate_in 3). vm_compute. repeat split; discriminate. Qed.

Print Assumptions less_iabs.
Print Assumptions adjunction.
Print Assumptions TU_ge.
Print Assumptions A1_legacy_refuted.
