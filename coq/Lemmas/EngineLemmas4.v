(** C10, engine part 4: any sequence of `position` / `ucinewgame` commands ([position_sequence]); the
    continuation test as found refuted; non-vacuity examples on concrete command lines. *)
From Coq Require Import String Ascii.
From Coq Require Import NArith ZArith List Bool Lia.
From Morlock.Model Require Import Bits Attacks Move Position Zobrist Board Fen Abs Engine EngineSpec.
From Morlock.Spec Require Import Chess Game.
From Morlock.Lemmas Require Import PositionLemmas BoardHeap1 FenLemmas3 EngineLemmas1 EngineLemmas2 EngineLemmas3.
Import ListNotations.
Open Scope N_scope.

(* ------------------------------------------------------------------ *)
(** * 1. sequences of commands *)

Inductive cmd := CNewGame | CPosition (line : str).

Definition step (z : ztable) (r : dres) (c : cmd) : dres :=
  match r with
  | Exited => Exited
  | Running st => match c with
                  | CNewGame => Running (cmd_ucinewgame st)
                  | CPosition line => cmd_position z st line
                  end
  end.
Definition run (z : ztable) (st : dstate) (cmds : list cmd) : dres := fold_left (step z) cmds (Running st).

(** the line of the most recent `position` command *)
Definition last_position (cmds : list cmd) : option str :=
  fold_left (fun acc c => match c with CPosition l => Some l | CNewGame => acc end) cmds None.

(** a `position` line a GUI may send: GUI form, describes a game (valid FEN or startpos, legal moves), from a
    legal start position *)
Definition valid_cmd (c : cmd) : Prop :=
  match c with
  | CNewGame => True
  | CPosition line => gui_form line /\ (exists g, setup line = Some g) /\ fen_legal (line_fen line)
  end.

(** invariant of the driver state: no previous line, or the engine holds the game of the previous line *)
Definition DInv (st : dstate) : Prop :=
  d_last st = [] \/
  (gui_form (d_last st) /\ exists gp, setup (d_last st) = Some gp /\ ERel (d_eng st) gp /\ EInv (d_eng st)).

(** one `position` command, whichever branch the driver takes *)
Theorem position_step z st line g : DInv st -> gui_form line -> setup line = Some g -> fen_legal (line_fen line) ->
  exists st', cmd_position z st line = Running st' /\
              ERel (d_eng st') g /\ EInv (d_eng st') /\ d_last st' = line.
Proof.
  intros [Hnil|[Hp [gp [Hsp [R I]]]]] Hl Hs Hleg.
  - apply position_fresh; auto.
  - destruct (is_continuation line (d_last st)) eqn:Hc.
    + now apply (position_continuation z st line gp g).
    + apply position_fresh; auto.
Qed.

(** C10: after any sequence of valid `position` commands and `ucinewgame`s the driver is still running and the
    engine's game (position, side to move, clocks, history) is the one the most recent `position` line describes *)
Theorem position_sequence z cmds : forall st0, DInv st0 -> Forall valid_cmd cmds ->
  exists st, run z st0 cmds = Running st /\ DInv st /\
    match last_position cmds with
    | Some line => exists g, setup line = Some g /\ ERel (d_eng st) g /\ EInv (d_eng st)
    | None => d_eng st = d_eng st0
    end.
Proof.
  intros st0 H0. induction cmds as [|c cmds IH] using rev_ind; intros Hv.
  - exists st0. cbn. auto.
  - apply Forall_app in Hv as [Hv Hc]. inversion Hc as [|? ? Hc1 _]; subst.
    destruct (IH Hv) as [st [Hrun [Hinv Hlast]]].
    unfold run, last_position in *. rewrite !fold_left_app. cbn [fold_left]. rewrite Hrun. cbn [step].
    destruct c as [|line].
    + exists (cmd_ucinewgame st). split; [reflexivity|]. split; [now left|]. exact Hlast.
    + destruct Hc1 as [Hgf [[g Hs] Hleg]].
      destruct (position_step z st line g Hinv Hgf Hs Hleg) as [st' [-> [R [I Hl]]]].
      exists st'. split; [reflexivity|]. split; [|eauto].
      right. rewrite Hl. split; [exact Hgf|]. eauto.
Qed.
Print Assumptions position_sequence.

(** the form asked for: from a state without previous line; the game is the one [setup] builds from the line alone *)
Corollary position_sequence_from_start z cmds st0 line g : d_last st0 = [] -> Forall valid_cmd cmds ->
  last_position cmds = Some line -> setup line = Some g ->
  exists st, run z st0 cmds = Running st /\ ERel (d_eng st) g /\ EInv (d_eng st).
Proof.
  intros H0 Hv Hl Hs. destruct (position_sequence z cmds st0 (or_introl H0) Hv) as [st [Hrun [_ H]]].
  rewrite Hl in H. destruct H as [g' [Hs' [R I]]]. rewrite Hs in Hs'. inversion Hs'; subst. eauto.
Qed.

(** ... and what it reports: the FEN of that game *)
Corollary position_sequence_fen z cmds st0 line g : d_last st0 = [] -> Forall valid_cmd cmds ->
  last_position cmds = Some line -> setup line = Some g ->
  (g_clock g <= max_int64)%Z -> (0 <= g_fullmove g <= max_int64)%Z ->
  exists st p t, run z st0 cmds = Running st /\
    decode (eng_position (d_eng st)) = Ok (p, t, g_clock g, g_fullmove g) /\
    abs_pos p = g_pos g /\ color_of t = g_turn g.
Proof.
  intros H0 Hv Hl Hs Hc Hf.
  destruct (position_sequence_from_start z cmds st0 line g H0 Hv Hl Hs) as [st [Hrun [R I]]].
  destruct (engine_fen_standard _ _ R I Hc Hf) as [A [B C]]. eauto 8.
Qed.

(* ------------------------------------------------------------------ *)
(** * 2. the driver as found (before commit c960dff): textual prefix; the remainder is trimmed and split on single
      spaces, so that an empty remainder yields the empty move *)

Definition cmd_position_legacy (z : ztable) (st : dstate) (line : str) : dres :=
  let parts := split_space (trim_space line) in
  let args := tl parts in
  if cmd_position_legacy_cont line (d_last st) then
    (* moves := strings.TrimSpace(strings.TrimPrefix(line, d.lastPosition)); strings.Split(moves, " ") *)
    match play_moves z (d_eng st) (split_space (trim_space (skipn (length (d_last st)) line))) with
    | Some e => Running (mkD e line)
    | None => Exited
    end
  else
    let position :=
      if (7 <=? length args)%nat && str_eqb (hd [] args) fen_tok then join_space (firstn 6 (tl args)) else fen_initial in
    let (e0, ok) := eng_reset z (d_eng st) position in
    if negb ok then Exited else
    match play_after_moves z e0 args false with
    | Some e => Running (mkD e line)
    | None => Exited
    end.

Definition step_legacy (z : ztable) (r : dres) (c : cmd) : dres :=
  match r with
  | Exited => Exited
  | Running st => match c with
                  | CNewGame => Running (cmd_ucinewgame st)
                  | CPosition line => cmd_position_legacy z st line
                  end
  end.
Definition run_legacy (z : ztable) (st : dstate) (cmds : list cmd) : dres := fold_left (step_legacy z) cmds (Running st).

(* ------------------------------------------------------------------ *)
(** * 3. concrete lines *)

Definition s2l (s : string) : str := map N_of_ascii (list_ascii_of_string s).

Definition zt0 : ztable := mkZt (fun c p s => c * 1000 + p * 100 + s + 1) (fun c => c + 7) (fun s => 0) (fun t => t + 11).

(** an engine before the first command (NewEngine resets to the initial position) *)
Definition eng0 : engine := fst (eng_reset zt0 (mkEngine [] (mkBoard [] false false 0 0 0 no_result 0)) fen_initial).
Definition st0 : dstate := mkD eng0 [].

Definition l_e4 : str := s2l "position startpos moves e2e4".
Definition l_e4e5 : str := s2l "position startpos moves e2e4 e7e5".
Definition l_start : str := s2l "position startpos".
Definition l_fen : str := s2l "position fen r3k2r/8/8/8/8/8/8/R3K2R w KQkq - 12 30 moves e1g1 e8c8".

Definition is_some {A} (o : option A) : bool := match o with Some _ => true | None => false end.
Definition final_fen (r : dres) : option str := match r with Running st => Some (eng_position (d_eng st)) | Exited => None end.

(** [setup] is defined on ordinary lines *)
Example setup_e4e5_some : is_some (setup l_e4e5) = true.
Proof. vm_compute. reflexivity. Qed.

Example setup_e4e5_state :
  match setup l_e4e5 with
  | Some g => (g_clock g =? 0)%Z && (g_fullmove g =? 2)%Z && (length (g_past g) =? 2)%nat && color_eqb (g_turn g) Wh
  | None => false
  end = true.
Proof. vm_compute. reflexivity. Qed.

(** the lines are in GUI form *)
Example lines_gui_form : forallb gui_formb [l_e4; l_e4e5; l_start; l_fen] = true.
Proof. vm_compute. reflexivity. Qed.

(** a line that is not: two spaces / trailing space / "fen" with too few fields / moves without the word "moves" *)
Example lines_not_gui_form :
  map gui_formb [s2l "position  startpos"; s2l "position startpos "; s2l "position fen 8/8 w"; s2l "position startpos e2e4"]
  = [false; false; false; false].
Proof. vm_compute. reflexivity. Qed.

(** extension: the second line continues the first; the reported FEN is the expected one *)
Example run_extension :
  final_fen (run zt0 st0 [CPosition l_e4; CPosition l_e4e5]) =
  Some (s2l "rnbqkbnr/pppp1ppp/8/4p3/4P3/8/PPPP1PPP/RNBQKBNR w KQkq e6 0 2").
Proof. vm_compute. reflexivity. Qed.

(** the same through the continuation branch and from scratch *)
Example extension_same_as_scratch :
  final_fen (run zt0 st0 [CPosition l_e4; CPosition l_e4e5]) = final_fen (run zt0 st0 [CPosition l_e4e5]) /\
  is_continuation l_e4e5 l_e4 = true.
Proof. split; vm_compute; reflexivity. Qed.

(** verbatim repetition, extension, shortening, ucinewgame, a FEN with moves (castling both sides: clocks count on) *)
Example run_mixed :
  final_fen (run zt0 st0 [CPosition l_e4; CPosition l_e4; CPosition l_e4e5; CPosition l_start; CNewGame;
                          CPosition l_fen; CPosition l_fen]) =
  Some (s2l "2kr3r/8/8/8/8/8/8/R4RK1 w - - 14 31").
Proof. vm_compute. reflexivity. Qed.

Example run_shortened :
  final_fen (run zt0 st0 [CPosition l_e4e5; CPosition l_e4]) =
  Some (s2l "rnbqkbnr/pppppppp/8/8/4P3/8/PPPP1PPP/RNBQKBNR b KQkq e3 0 1").
Proof. vm_compute. reflexivity. Qed.

(** the hypotheses of [position_sequence] hold for these commands: the theorem is not vacuous *)
Lemma valid_line line : gui_formb line = true -> is_some (setup line) = true ->
  str_eqb (line_fen line) fen_initial = true \/ fen_legal (line_fen line) -> valid_cmd (CPosition line).
Proof.
  intros H1 H2 H3. split; [exact H1|]. split.
  - destruct (setup line) as [g|]; [now exists g|discriminate].
  - destruct H3 as [H3|H3]; [|exact H3]. apply FenLemmas2.str_eqb_eq in H3. rewrite H3. apply fen_initial_legal.
Qed.

Lemma l_fen_legal : fen_legal (line_fen l_fen).
Proof.
  destruct (decode (line_fen l_fen)) as [[[[pos t] np] fm]| |] eqn:Hd.
  - exists pos, t, np, fm. split; [exact Hd|].
    assert (G : match decode (line_fen l_fen) with Ok (pos, t, _, _) => wf_b pos t | _ => false end = true)
      by (vm_compute; reflexivity).
    now rewrite Hd in G.
  - assert (G : is_some (match decode (line_fen l_fen) with Ok d => Some d | _ => None end) = true) by (vm_compute; reflexivity).
    rewrite Hd in G. discriminate.
  - assert (G : is_some (match decode (line_fen l_fen) with Ok d => Some d | _ => None end) = true) by (vm_compute; reflexivity).
    rewrite Hd in G. discriminate.
Qed.

Example mixed_valid :
  Forall valid_cmd [CPosition l_e4; CPosition l_e4; CPosition l_e4e5; CPosition l_start; CNewGame;
                    CPosition l_fen; CPosition l_fen].
Proof.
  assert (V1 : valid_cmd (CPosition l_e4)) by (apply valid_line; [vm_compute; reflexivity..|left; vm_compute; reflexivity]).
  assert (V2 : valid_cmd (CPosition l_e4e5)) by (apply valid_line; [vm_compute; reflexivity..|left; vm_compute; reflexivity]).
  assert (V3 : valid_cmd (CPosition l_start)) by (apply valid_line; [vm_compute; reflexivity..|left; vm_compute; reflexivity]).
  assert (V4 : valid_cmd (CPosition l_fen)) by (apply valid_line; [vm_compute; reflexivity..|right; exact l_fen_legal]).
  repeat (apply Forall_cons; [first [assumption|exact I]|]). apply Forall_nil.
Qed.

(** [position_sequence] applied to this run *)
Example mixed_by_theorem : exists st g,
  run zt0 st0 [CPosition l_e4; CPosition l_e4; CPosition l_e4e5; CPosition l_start; CNewGame;
               CPosition l_fen; CPosition l_fen] = Running st /\
  setup l_fen = Some g /\ ERel (d_eng st) g /\ EInv (d_eng st).
Proof.
  destruct (setup l_fen) as [g|] eqn:Hs; [|vm_compute in Hs; discriminate].
  destruct (position_sequence_from_start zt0 _ st0 l_fen g eq_refl mixed_valid eq_refl Hs) as [st [Hr [R I]]].
  exists st, g. auto.
Qed.

(* ------------------------------------------------------------------ *)
(** * 4. legacy refutation: the same line twice makes the driver as found exit *)

Example legacy_repetition_exits :
  run_legacy zt0 st0 [CPosition l_e4; CPosition l_e4] = Exited /\
  is_some (final_fen (run_legacy zt0 st0 [CPosition l_e4])) = true.
Proof. split; vm_compute; reflexivity. Qed.

(** ... because the empty remainder is split into one empty token, which is fed to Engine.Move *)
Example legacy_empty_token : split_space (trim_space (skipn (length l_e4) l_e4)) = [[]].
Proof. vm_compute. reflexivity. Qed.

(** the second failure of the commit message: a FEN that is a textual prefix of the next line *)
Example legacy_textual_prefix_exits :
  let a := s2l "position fen 4k3/8/8/8/8/8/8/R3K3 w - - 0 1" in
  let b := s2l "position fen 4k3/8/8/8/8/8/8/R3K3 w - - 0 10 moves a1a2" in
  run_legacy zt0 st0 [CPosition a; CPosition b] = Exited /\
  final_fen (run zt0 st0 [CPosition a; CPosition b]) = Some (s2l "4k3/8/8/8/8/8/R7/4K3 b - - 1 10") /\
  is_continuation b a = false.
Proof. cbv zeta. split; [|split]; vm_compute; reflexivity. Qed.

(** the repaired driver on the verbatim repetition *)
Example repaired_repetition_runs :
  final_fen (run zt0 st0 [CPosition l_e4; CPosition l_e4]) =
  Some (s2l "rnbqkbnr/pppppppp/8/8/4P3/8/PPPP1PPP/RNBQKBNR b KQkq e3 0 1").
Proof. vm_compute. reflexivity. Qed.

(* ------------------------------------------------------------------ *)
(** * 5. the GUI-form hypothesis is needed for the continuation branch *)

(** A bare "position" (no position part; not a valid UCI command, but accepted by the driver as the start position)
    followed by an ordinary line: the second line extends the first at a token boundary, so the driver plays
    "startpos" as a move and gives up, although each line alone describes a game.  [gui_form] excludes the first
    line (position part missing). *)
Example gui_form_needed :
  let a := s2l "position" in let b := s2l "position startpos moves e2e4" in
  is_some (setup a) = true /\ is_some (setup b) = true /\ gui_formb a = false /\ gui_formb b = true /\
  run zt0 st0 [CPosition a; CPosition b] = Exited.
Proof. cbv zeta. repeat split; vm_compute; reflexivity. Qed.
