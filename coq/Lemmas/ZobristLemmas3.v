(** ZobristLemmas3 — C07: the incrementally maintained hash equals the hash computed from scratch. *)
From Coq Require Import NArith List Bool Lia ZifyBool ZifyNat ZifyN Btauto.
From Morlock.Model Require Import Bits Attacks Move Position Abs Zobrist.
From Morlock.Lemmas Require Import PositionLemmas ZobristLemmas1 ZobristLemmas2.
Import ListNotations.
Open Scope N_scope.

(** * the common part of every move: lift the piece, (take the captured piece), put a piece down *)

Lemma core_nocap z p turn from to pc piece : Inv p -> from < 64 -> to < 64 ->
  square p from = Some (turn, pc) -> square p to = None -> 1 <= piece <= 6 ->
  let r := pos_xor (pos_xor p from turn pc) to turn piece in
  Inv r /\
  bhash z r = N.lxor (N.lxor (bhash z p) (z_piece z turn pc from)) (z_piece z turn piece to) /\
  (forall s, s < 64 -> square r s = if s =? to then Some (turn, piece) else if s =? from then None else square p s).
Proof. intros HI Hf Ht Hsf Hst Hpiece r.
  destruct (square_vcol p from turn pc HI Hf Hsf) as [Hc Hpc].
  destruct (step_remove z p from turn pc HI Hf Hsf) as [I1 [B1 S1]].
  assert (Hne : to <> from) by (intros ->; congruence).
  assert (E1 : square (pos_xor p from turn pc) to = None).
  { rewrite S1 by assumption. destruct (N.eqb_spec to from); [contradiction | assumption]. }
  destruct (step_add z _ to turn piece I1 Ht E1 Hc Hpiece) as [I2 [B2 S2]].
  split; [exact I2|]. split.
  - unfold r. rewrite B2, B1. reflexivity.
  - intros s Hs. unfold r. rewrite S2 by assumption. destruct (s =? to); [reflexivity|]. now apply S1. Qed.

Lemma core_cap z p turn from to pc cap piece : Inv p -> from < 64 -> to < 64 ->
  square p from = Some (turn, pc) -> square p to = Some (opponent turn, cap) -> 1 <= piece <= 6 ->
  let r := pos_xor (pos_xor (pos_xor p from turn pc) to (opponent turn) cap) to turn piece in
  Inv r /\
  bhash z r = N.lxor (N.lxor (N.lxor (bhash z p) (z_piece z turn pc from)) (z_piece z (opponent turn) cap to))
                     (z_piece z turn piece to) /\
  (forall s, s < 64 -> square r s = if s =? to then Some (turn, piece) else if s =? from then None else square p s).
Proof. intros HI Hf Ht Hsf Hst Hpiece r.
  destruct (square_vcol p from turn pc HI Hf Hsf) as [Hc Hpc].
  destruct (opponent_vcol turn Hc) as [_ Hopp].
  destruct (step_remove z p from turn pc HI Hf Hsf) as [I1 [B1 S1]].
  assert (Hne : to <> from) by (intros ->; rewrite Hsf in Hst; inversion Hst; congruence).
  assert (E1 : square (pos_xor p from turn pc) to = Some (opponent turn, cap)).
  { rewrite S1 by assumption. destruct (N.eqb_spec to from); [contradiction | assumption]. }
  destruct (step_remove z _ to (opponent turn) cap I1 Ht E1) as [I2 [B2 S2]].
  assert (E2 : square (pos_xor (pos_xor p from turn pc) to (opponent turn) cap) to = None).
  { rewrite S2 by assumption. now rewrite N.eqb_refl. }
  destruct (step_add z _ to turn piece I2 Ht E2 Hc Hpiece) as [I3 [B3 S3]].
  split; [exact I3|]. split.
  - unfold r. rewrite B3, B2, B1. reflexivity.
  - intros s Hs. unfold r. rewrite S3 by assumption. destruct (N.eqb_spec s to) as [|Hn]; [reflexivity|].
    rewrite S2 by assumption. destruct (N.eqb_spec s to); [contradiction|]. now apply S1. Qed.

Lemma ep_cond z e h : (if negb (e =? 0) then N.lxor h (z_enpassant z e) else h) = N.lxor h (epkey z e).
Proof. unfold epkey. destruct (negb (e =? 0)); [reflexivity | now rewrite N.lxor_0_r]. Qed.

Lemma zhash_set_fields z r ca ep t :
  zhash z (mkPos (pieces r) (rotated_bb r) ca ep) t =
  N.lxor (N.lxor (N.lxor (bhash z r) (z_castling z ca)) (epkey z ep)) (z_turn z t).
Proof. rewrite zhash_eq, bhash_set_fields. reflexivity. Qed.

Lemma some_inj {A} (a b : A) : Some a = Some b -> a = b.
Proof. congruence. Qed.

(** * incremental = scratch, for every shape of move *)

Ltac red_move H :=
  cbn [mtype mfrom mto mpiece mpromo mcapture is_capture is_promotion is_castle
       Normal Push Jump EnPassant QueenSideCastle KingSideCastle Capture Promotion CapturePromotion
       N.eqb Pos.eqb orb negb] in H.
Ltac red_goal :=
  cbn [mtype mfrom mto mpiece mpromo mcapture is_capture is_promotion is_castle
       Normal Push Jump EnPassant QueenSideCastle KingSideCastle Capture Promotion CapturePromotion
       N.eqb Pos.eqb orb negb].

Ltac close_move z Hz Hmv HB :=
  match type of Hmv with (if ?c then None else Some ?r) = Some ?q => destruct c; [discriminate|] end;
  apply some_inj in Hmv; rewrite <- Hmv; clear Hmv;
  rewrite zhash_set_fields, zhash_eq, HB, (epkey_ok z (fst _) Hz);
  unfold zmove, zmove_with; red_goal.

Lemma shape_incremental z p turn m pos' : zt_ok z -> Inv p -> shape p turn m -> pos_move p m = Some pos' ->
  zmove z (zhash z p turn) p m = zhash z pos' (opponent turn).
Proof. intros Hz HI Hsh Hmv.
  destruct Hsh as [t from to pc Ht Hf Hto Hsf Hst
                  | from to pc cap Hf Hto Hsf Hst
                  | from to pc pr Hf Hto Hsf Hst Hpr
                  | from to pc pr cap Hf Hto Hsf Hst Hpr
                  | from to epc Hf Hto Hepc Hsf Hst Eepc Hse
                  | t from to rf rt Ht Hf Hto Hrf Hrt Hcr Hsf Hst Hsrf Hsrt Hne].
  - (* Normal / Push / Jump *)
    destruct (square_vcol p from turn pc HI Hf Hsf) as [Hc Hpc].
    destruct (core_nocap z p turn from to pc pc HI Hf Hto Hsf Hst Hpc) as [I3 [B3 _]].
    unfold pos_move in Hmv. cbn [mfrom] in Hmv. rewrite Hsf in Hmv.
    destruct Ht as [->|[->| ->]]; red_move Hmv; close_move z Hz Hmv B3; rewrite Hsf, ep_cond; xor_norm.
  - (* Capture *)
    destruct (square_vcol p from turn pc HI Hf Hsf) as [Hc Hpc].
    destruct (core_cap z p turn from to pc cap pc HI Hf Hto Hsf Hst Hpc) as [I3 [B3 _]].
    unfold pos_move in Hmv. cbn [mfrom] in Hmv. rewrite Hsf in Hmv.
    red_move Hmv; close_move z Hz Hmv B3; rewrite Hsf, ep_cond; xor_norm.
  - (* Promotion *)
    destruct (core_nocap z p turn from to pc pr HI Hf Hto Hsf Hst Hpr) as [I3 [B3 _]].
    unfold pos_move in Hmv. cbn [mfrom] in Hmv. rewrite Hsf in Hmv.
    red_move Hmv; close_move z Hz Hmv B3; rewrite Hsf, ep_cond; xor_norm.
  - (* CapturePromotion *)
    destruct (core_cap z p turn from to pc cap pr HI Hf Hto Hsf Hst Hpr) as [I3 [B3 _]].
    unfold pos_move in Hmv. cbn [mfrom] in Hmv. rewrite Hsf in Hmv.
    red_move Hmv; close_move z Hz Hmv B3; rewrite Hsf, ep_cond; xor_norm.
  - (* EnPassant *)
    destruct (square_vcol p from turn Pawn HI Hf Hsf) as [Hc Hpc].
    destruct (opponent_vcol turn Hc) as [_ Hopp].
    destruct (core_nocap z p turn from to Pawn Pawn HI Hf Hto Hsf Hst Hpc) as [I3 [B3 S3]].
    assert (E3 : square (pos_xor (pos_xor p from turn Pawn) to turn Pawn) epc = Some (opponent turn, Pawn)).
    { rewrite S3 by assumption.
      destruct (N.eqb_spec epc to) as [->|_]; [congruence|].
      destruct (N.eqb_spec epc from) as [->|_]; [|assumption]. rewrite Hsf in Hse. inversion Hse. congruence. }
    destruct (step_remove z _ epc (opponent turn) Pawn I3 Hepc E3) as [I4 [B4 _]]. rewrite B3 in B4.
    unfold pos_move in Hmv. cbn [mfrom] in Hmv. rewrite Hsf in Hmv.
    red_move Hmv. rewrite <- Eepc in Hmv. close_move z Hz Hmv B4. rewrite Hsf, ep_cond, <- Eepc. xor_norm.
  - (* castling *)
    destruct (square_vcol p from turn King HI Hf Hsf) as [Hc Hpc].
    destruct (square_vcol p rf turn Rook HI Hrf Hsrf) as [_ Hrk].
    destruct (core_nocap z p turn from to King King HI Hf Hto Hsf Hst Hpc) as [I3 [B3 S3]].
    assert (E3 : square (pos_xor (pos_xor p from turn King) to turn King) rf = Some (turn, Rook)).
    { rewrite S3 by assumption.
      destruct (N.eqb_spec rf to) as [->|_]; [congruence|].
      destruct (N.eqb_spec rf from) as [->|_]; [|assumption]. rewrite Hsf in Hsrf. inversion Hsrf. }
    destruct (step_remove z _ rf turn Rook I3 Hrf E3) as [I4 [B4 S4]]. rewrite B3 in B4.
    assert (E4 : square (pos_xor (pos_xor (pos_xor p from turn King) to turn King) rf turn Rook) rt = None).
    { rewrite S4 by assumption. destruct (N.eqb_spec rt rf) as [|_]; [reflexivity|].
      rewrite S3 by assumption. destruct (N.eqb_spec rt to) as [|_]; [contradiction|].
      destruct (N.eqb_spec rt from) as [|_]; [reflexivity | assumption]. }
    destruct (step_add z _ rt turn Rook I4 Hrt E4 Hc Hrk) as [I5 [B5 _]]. rewrite B4 in B5.
    unfold pos_move in Hmv. cbn [mfrom] in Hmv. rewrite Hsf in Hmv.
    destruct Ht as [->| ->]; red_move Hmv; rewrite Hcr in Hmv;
    (match type of Hmv with context [if existsb ?f ?l then None else _] => destruct (existsb f l); [discriminate|] end);
    close_move z Hz Hmv B5; rewrite Hsf, Hcr, ep_cond; xor_norm. Qed.

(** C07, one move *)
Theorem zobrist_incremental : forall z pos turn m pos',
  zt_ok z -> wf_b pos turn = true -> In m (pseudo_legal_moves pos turn) -> pos_move pos m = Some pos' ->
  zmove z (zhash z pos turn) pos m = zhash z pos' (opponent turn).
Proof. intros z pos turn m pos' Hz Hwf Hin Hmv.
  destruct (wf_b_parts pos turn Hwf) as [HI _].
  apply shape_incremental; auto. now apply pseudo_shape. Qed.

Print Assumptions zobrist_incremental.
