(** * The trace acceptor [obs_ok] of Model/Driver.v is a sound abstraction of the transition system.

    DriverTrace1  declarative semantics [accepts] of the acceptor; the subset construction decides it:
                  [obs_ok script obs = true <-> accepts (script, MNone) obs]
                  (rank argument: every silent step decreases  length script + [not exited],
                  observation steps do not increase it, so the fuel length script + 2 always suffices)
    DriverTrace2  paths [mpath]; count form: [accepts (script, MNone) obs -> obs_counts_ok script obs = true]
                  (hence [obs_ok_counts_ok]: the count form is weaker than the acceptor)
    DriverTrace3  simulation: [cfg_of s = (inp s, mon_of s)]; every step of the model is a path of the
                  acceptor reading exactly the new output ([step_sim]); [obs_prefix_sound]

    This file: the end-to-end statements. *)
From Coq Require Import List Bool Arith PeanoNat Lia.
From Morlock.Model Require Import Driver.
From Morlock.Lemmas Require Import DriverLemmas1 DriverLemmas2 DriverLemmas3 DriverLemmas4 DriverLemmas7
  DriverTrace1 DriverTrace2 DriverTrace3.
Import ListNotations.

(** the command loop has returned (Driver.process is past `return`; by [output_closed_iff_exited]
    this is equivalent to: the output channel is closed) *)
Definition loop_exited (s : dstate) : Prop := pc s = PExited.

Section Sound.
  Variable cap : nat.
  Variable script : list cmd.

  Lemma terminated_exited : forall s, terminated s -> loop_exited s.
  Proof. intros s [H _]. exact H. Qed.

  Lemma closed_exited : forall s, reachable cap script s -> out_closed s = true -> loop_exited s.
  Proof. intros s R H. apply (output_closed_iff_exited cap script s R). exact H. Qed.

  (** every observable trace of a complete run of the model is accepted *)
  Theorem obs_sound : forall s, reachable cap script s -> loop_exited s ->
    obs_ok script (observed s) = true.
  Proof. intros s R E. apply accepts_obs_ok. apply (obs_accepted cap script s R E). Qed.

  Theorem obs_counts_sound : forall s, reachable cap script s -> loop_exited s ->
    obs_counts_ok script (observed s) = true.
  Proof. intros s R E. apply accepts_counts_ok. apply (obs_accepted cap script s R E). Qed.

  (** the same under the other two readings of "finished" *)
  Corollary obs_sound_terminated : forall s, reachable cap script s -> terminated s ->
    obs_ok script (observed s) = true /\ obs_counts_ok script (observed s) = true.
  Proof.
    intros s R T. split; [apply obs_sound | apply obs_counts_sound]; auto using terminated_exited.
  Qed.

  Corollary obs_sound_closed : forall s, reachable cap script s -> out_closed s = true ->
    obs_ok script (observed s) = true /\ obs_counts_ok script (observed s) = true.
  Proof.
    intros s R T. split; [apply obs_sound | apply obs_counts_sound]; auto using closed_exited.
  Qed.

  (** prefix form, for runs that are cut before the loop exits: the output so far is a path of the
      acceptor from the initial configuration to the configuration of the current state, so it can
      be extended to an accepted trace whenever the acceptor accepts some continuation from there *)
  Theorem obs_prefix_extends : forall s rest, reachable cap script s ->
    accepts (cfg_of s) rest -> obs_ok script (observed s ++ rest) = true.
  Proof.
    intros s rest R A. apply accepts_obs_ok.
    destruct (accepts_mpath _ _ A) as [l P].
    apply (mpath_accepts _ _ l). eapply mpath_trans; eauto. apply (obs_prefix_sound cap script s R).
  Qed.
End Sound.

Print Assumptions obs_sound.
Print Assumptions obs_counts_sound.
Print Assumptions obs_prefix_extends.

(** ** Sanity: the statements are not vacuous, and the exit hypothesis is needed *)

Lemma run_reachable : forall cap script tr s0 s, reachable cap script s0 -> run cap tr s0 = Some s ->
  reachable cap script s.
Proof.
  intros cap script tr. induction tr as [|l tr IH]; intros s0 s R H; simpl in H.
  - inversion H; subst. exact R.
  - unfold run in H. simpl in H. destruct (fire cap l s0) as [s1|] eqn:F; [|discriminate].
    apply (IH s1 s); auto. eapply reach_step; eauto. exists l. exact F.
Qed.

(* a complete run: go depth, an info line, isready, stop answered, quit *)
Definition full_trace :=
  [LCmd; LIter 1 false; LFRecv 1; LFPost 1; LRecv; LCmd; LCmd; LHaltInit; LHalted 1; LHaltDone; LCmd].
Definition full_script := [go_depth; CIsReady; CStop; CQuit].

Example sound_nonvacuous :
  exists s, run 400 full_trace (init_state full_script) = Some s
            /\ reachable 400 full_script s
            /\ loop_exited s /\ observed s = [OInfo; OReady; OBest].
Proof.
  eexists. split; [vm_compute; reflexivity|]. split; [|vm_compute; split; reflexivity].
  apply (run_reachable 400 full_script full_trace (init_state full_script)); [apply reach_init|].
  vm_compute. reflexivity.
Qed.

(* while the loop is inside the Halt of `stop`, the bestmove is still owed: the output so far
   is a proper prefix and is (rightly) rejected as a complete trace *)
Example exit_hypothesis_needed :
  exists s, run 400 [LCmd; LIter 1 false; LCmd] (init_state [go_depth; CStop]) = Some s
            /\ pc s = PHaltInit 1 KStop /\ observed s = []
            /\ obs_ok [go_depth; CStop] (observed s) = false
            /\ cfg_of s = ([], MMustBest).
Proof. eexists. vm_compute. repeat split. Qed.
