(** MinimaxRefines, part 3: the model's reference value [mm] on the tree of abstract boards IS the
    specification's reference value [spec_mm] on the game of Spec/Game.v (up to Go's [==] on scores; Leibniz
    equality fails, see [sfold_perm_not_leibniz] in part 1).

    Generic in the leaf evaluation and the exploration predicates: [lf], [bx], [bqx] on the model side,
    [leaf], [expl], [qexpl] on the specification side, related on [RG]-related nodes by the hypotheses
    [H_leafc], [H_exc], [H_qexc].  Part 4 discharges them for the configuration of [b_mm].

    Results
      - [node_refines]  one accumulation loop: [vfold] over the pseudo-legal moves of the board against the
                        specification's [fold_left] over [spec_legal]
      - [qv_refines]    quiescence values
      - [mm_refines]    minimax values: same ideal value, and the specification value is valid with mate
                        distance within [qh + d]
      - [mm_go_eq]      the same as [go_eq ... = true] with validity of both sides.
    Side conditions: [leaves_ok]/[qfin] (the quiescence fuel suffices - with exhausted fuel both sides contain
    [invalid_score], on which [smax] is order dependent) and [qh + d <= 127] (int8 mate distances). *)
From Coq Require Import NArith ZArith List Bool Lia.
From Morlock.Model Require Import Bits Score Attacks Move Position Zobrist Board Search SearchBoard Abs.
From Morlock.Spec Require Import Chess Game Minimax.
From Morlock.Lemmas Require Import ScoreLemmas SearchScore SearchStep BoardHeap1 SearchContract SearchBoardInst1
     MinimaxRefines1 MinimaxRefines2.
Import ListNotations.
Open Scope Z_scope.

Lemma fold_left_ext_in {A B} (f g : A -> B -> A) l : (forall a x, In x l -> f a x = g a x) ->
  forall a, fold_left f l a = fold_left g l a.
Proof.
  induction l as [|x r IH]; intros H a; cbn [fold_left]; [reflexivity|].
  rewrite (H a x (or_introl eq_refl)). apply IH. intros a' y Hy. apply H. right; exact Hy.
Qed.

Section Refine.
  Variable z : ztable.
  Hypothesis Hzt : zt_ok z.
  Variable use_q : bool.
  Variable qfuel : nat.
  (** model side *)
  Variable lf : aboard -> Z.
  Variables bx bqx : aboard -> aboard -> move -> bool.
  Hypothesis lf_valid : forall p, valid (heuristic (lf p)) = true.
  (** specification side *)
  Variables expl qexpl : gstate -> gstate -> smove -> bool.
  Variable leaf : gstate -> Z.
  (** correspondence on related nodes *)
  Hypothesis H_leafc : forall p g, RG z p g -> leaf g = lf p.
  Hypothesis H_exc : forall p g m c, RG z p g -> bchild z p m = Some c ->
    expl g (g_play g (abs_move m)) (abs_move m) = bx p c m.
  Hypothesis H_qexc : forall p g m c, RG z p g -> bchild z p m = Some c ->
    qexpl g (g_play g (abs_move m)) (abs_move m) = bqx p c m.

  Notation gmm := (mm use_q qfuel aboard bmoves (bchild z) bdrawn bmated lf bx bqx).
  Notation gqv := (qv aboard bmoves (bchild z) bdrawn bmated lf bqx).
  Notation gqfin := (qfin aboard bmoves (bchild z) bdrawn bqx).
  Notation gleaves_ok := (leaves_ok use_q qfuel aboard bmoves (bchild z) bdrawn bx bqx).
  Notation smm := (spec_mm expl qexpl leaf use_q qfuel).
  Notation sqv := (spec_qv qexpl leaf).
  Notation gqh := (qh use_q qfuel).
  Let nocancel : nat -> bool := fun _ => false.

  (** the two loops as instances of [gsfold] *)
  Definition fB (exB : aboard -> aboard -> move -> bool) (recB : aboard -> score) (p : aboard) (m : move) : option score :=
    match bchild z p m with Some c => if exB p c m then Some (recB c) else None | None => None end.
  Definition fS (exS : gstate -> gstate -> smove -> bool) (recS : gstate -> score) (g : gstate) (sm : smove) : option score :=
    if exS g (g_play g sm) sm then Some (recS (g_play g sm)) else None.
  Definition sloop (exS : gstate -> gstate -> smove -> bool) (recS : gstate -> score) (g : gstate) (ms : list smove) (acc : score) : score :=
    fold_left (fun a sm => let g' := g_play g sm in if exS g g' sm then smax a (T (recS g')) else a) ms acc.

  Lemma vfold_gsfold exB recB p ms acc :
    vfold aboard (bchild z) exB recB p ms acc = gsfold (fB exB recB p) ms acc.
  Proof.
    unfold vfold, gsfold. apply fold_left_ext_in. intros a m _. unfold fB.
    destruct (bchild z p m) as [c|]; [|reflexivity]. destruct (exB p c m); reflexivity.
  Qed.
  Lemma sloop_gsfold exS recS g ms acc : sloop exS recS g ms acc = gsfold (fS exS recS g) ms acc.
  Proof.
    unfold sloop, gsfold. apply fold_left_ext_in. intros a sm _. unfold fS. cbv zeta.
    destruct (exS g (g_play g sm) sm); reflexivity.
  Qed.

  (** ** one node *)
  Theorem node_refines exB exS recB recS p g k acc :
    RG z p g -> k <= 126 -> okm (k + 1) acc ->
    (forall m c, bchild z p m = Some c -> exS g (g_play g (abs_move m)) (abs_move m) = exB p c m) ->
    (forall m c, In m (bmoves p) -> bchild z p m = Some c -> exB p c m = true ->
       okm k (recB c) /\ okm k (recS (g_play g (abs_move m))) /\ iabs (recB c) = iabs (recS (g_play g (abs_move m)))) ->
    let vb := vfold aboard (bchild z) exB recB p (bmoves p) acc in
    let vs := sloop exS recS g (spec_legal (g_pos g) (g_turn g)) acc in
    iabs vb = iabs vs /\ okm (k + 1) vs /\ okm (k + 1) vb.
  Proof.
    intros HRG Hk Hacc Hex Hrec vb vs. subst vb vs. rewrite vfold_gsfold, sloop_gsfold.
    destruct (legal_correspond z p g HRG) as (Hleg & _).
    destruct (gsfold_iabs (fB exB recB p) k (k + 1) Hk ltac:(lia) (bmoves p) acc) as [OB EB]; [|exact Hacc|].
    { intros m v Hin Hf. unfold fB in Hf. destruct (bchild z p m) as [c|] eqn:Ec; [|discriminate Hf].
      destruct (exB p c m) eqn:Ee; [|discriminate Hf]. injection Hf as <-. apply (Hrec m c Hin Ec Ee). }
    destruct (gsfold_iabs (fS exS recS g) k (k + 1) Hk ltac:(lia) (spec_legal (g_pos g) (g_turn g)) acc) as [OS ES]; [|exact Hacc|].
    { intros sm v Hin Hf. destruct (proj1 (Hleg sm) Hin) as (m & c & Hm & Hc & <-).
      unfold fS in Hf. rewrite (Hex m c Hc) in Hf. destruct (exB p c m) eqn:Ee; [|discriminate Hf]. injection Hf as <-.
      apply (Hrec m c Hm Hc Ee). }
    split; [|split; assumption]. rewrite EB, ES. apply gifold_same_set.
    - intros m v Hin Hf. unfold fB in Hf. destruct (bchild z p m) as [c|] eqn:Ec; [|discriminate Hf].
      destruct (exB p c m) eqn:Ee; [|discriminate Hf]. cbn [omap_iT] in Hf. injection Hf as <-.
      exists (abs_move m). split; [apply Hleg; exists m, c; auto|].
      unfold fS. rewrite (Hex m c Ec), Ee. cbn [omap_iT]. destruct (Hrec m c Hin Ec Ee) as (_ & _ & ->). reflexivity.
    - intros sm v Hin Hf. destruct (proj1 (Hleg sm) Hin) as (m & c & Hm & Hc & <-).
      unfold fS in Hf. rewrite (Hex m c Hc) in Hf. destruct (exB p c m) eqn:Ee; [|discriminate Hf].
      cbn [omap_iT] in Hf. injection Hf as <-.
      exists m. split; [exact Hm|]. unfold fB. rewrite Hc, Ee. cbn [omap_iT].
      destruct (Hrec m c Hm Hc Ee) as (_ & _ & ->). reflexivity.
  Qed.

  Lemma okm_leaf' k p : 0 <= k -> okm k (heuristic (lf p)).
  Proof. intros Hk. split; [apply lf_valid|]. rewrite mabs_heuristic. exact Hk. Qed.
  Lemma okm_zero' k : 0 <= k -> okm k zero_score.
  Proof. intros. split; [reflexivity|]. unfold mabs; cbn. lia. Qed.
  Lemma okm_neginf' k : 0 <= k -> okm k neginf_score.
  Proof. intros. split; [reflexivity|]. unfold mabs; cbn. lia. Qed.
  Lemma okm_terminal k g : 0 <= k -> okm k (terminal_value g).
  Proof. intros. unfold terminal_value. destruct (in_check _ _); [apply okm_neginf'|apply okm_zero']; assumption. Qed.

  (** ** quiescence *)
  Theorem qv_refines : forall f p g, RG z p g -> bdrawn p = drawn_here g -> gqfin f p -> Z.of_nat f <= 127 ->
    iabs (gqv f p) = iabs (sqv f g) /\ okm (Z.of_nat f) (sqv f g).
  Proof.
    induction f as [|f IH]; intros p g HRG Hd Hq Hf; [destruct Hq|].
    cbn [qv spec_qv]. rewrite Hd. destruct (drawn_here g) eqn:Edh; [split; [reflexivity|apply okm_zero'; lia]|].
    destruct Hq as [Hq|Hq]; [congruence|].
    rewrite (has_legal_spec z p g HRG).
    destruct (spec_legal (g_pos g) (g_turn g)) as [|sm0 l0] eqn:El.
    { rewrite (term_value_spec z p g HRG). split; [reflexivity|apply okm_terminal; lia]. }
    rewrite <- El. rewrite (H_leafc p g HRG).
    change (fold_left _ (spec_legal (g_pos g) (g_turn g)) (heuristic (lf p)))
      with (sloop qexpl (sqv f) g (spec_legal (g_pos g) (g_turn g)) (heuristic (lf p))).
    destruct (node_refines bqx qexpl (gqv f) (sqv f) p g (Z.of_nat f) (heuristic (lf p)) HRG ltac:(lia)) as (E & OS & _).
    - apply okm_leaf'. lia.
    - intros m c Hc. apply (H_qexc p g m c HRG Hc).
    - intros m c Hin Hc He. destruct (RG_child z Hzt p g m c HRG Hc) as [HRGc Hdc].
      pose proof (Hq m c Hin Hc He) as Hqc.
      destruct (IH c _ HRGc Hdc Hqc ltac:(lia)) as [E O].
      split; [|split; assumption].
      apply (qv_okm nocancel qfuel aboard bmoves (bchild z) bdrawn bmated lf bqx lf_valid f c Hqc). lia.
    - split; [exact E|]. replace (Z.of_nat (S f)) with (Z.of_nat f + 1) by lia. exact OS.
  Qed.

  (** ** minimax *)
  Theorem mm_refines : forall d root p g, RG z p g ->
    (root = false -> bdrawn p = drawn_here g) ->
    (d = O -> use_q = true -> bdrawn p = drawn_here g) ->
    gleaves_ok d root p -> gqh + Z.of_nat d <= 127 ->
    iabs (gmm d root p) = iabs (smm d root g) /\ okm (gqh + Z.of_nat d) (smm d root g).
  Proof.
    pose proof (qh_nonneg use_q qfuel) as Hq0.
    induction d as [|d IH]; intros root p g HRG Hdr Hdq Hl Hd; cbn [mm spec_mm]; cbn [leaves_ok] in Hl.
    - (* leaves *)
      assert (Hcase : negb root && bdrawn p = negb root && drawn_here g).
      { destruct root; [reflexivity|]. rewrite (Hdr eq_refl). reflexivity. }
      rewrite Hcase. destruct (negb root && drawn_here g) eqn:E; [split; [reflexivity|apply okm_zero'; lia]|].
      destruct Hl as [Hl|Hl]; [congruence|].
      unfold quiet. unfold quiet_ok in Hl. unfold qh in *. destruct use_q.
      + destruct (qv_refines qfuel p g HRG (Hdq eq_refl eq_refl) (Hl eq_refl) ltac:(lia)) as [E1 O1].
        split; [exact E1|]. eapply okm_weaken; [exact O1|lia].
      + rewrite (H_leafc p g HRG). split; [reflexivity|apply okm_leaf'; lia].
    - assert (Hcase : negb root && bdrawn p = negb root && drawn_here g).
      { destruct root; [reflexivity|]. rewrite (Hdr eq_refl). reflexivity. }
      rewrite Hcase. destruct (negb root && drawn_here g) eqn:E; [split; [reflexivity|apply okm_zero'; lia]|].
      destruct Hl as [Hl|Hl]; [congruence|].
      rewrite (has_legal_spec z p g HRG).
      destruct (spec_legal (g_pos g) (g_turn g)) as [|sm0 l0] eqn:El.
      { rewrite (term_value_spec z p g HRG). split; [reflexivity|apply okm_terminal; lia]. }
      rewrite <- El.
      change (fold_left _ (spec_legal (g_pos g) (g_turn g)) neginf_score)
        with (sloop expl (smm d false) g (spec_legal (g_pos g) (g_turn g)) neginf_score).
      destruct (node_refines bx expl (gmm d false) (smm d false) p g (gqh + Z.of_nat d) neginf_score HRG ltac:(lia)) as (E1 & OS & _).
      + apply okm_neginf'. lia.
      + intros m c Hc. apply (H_exc p g m c HRG Hc).
      + intros m c Hin Hc He. destruct (RG_child z Hzt p g m c HRG Hc) as [HRGc Hdc].
        pose proof (Hl m c Hin Hc He) as Hlc.
        destruct (IH false c _ HRGc (fun _ => Hdc) (fun _ _ => Hdc) Hlc ltac:(lia)) as [E1 O1].
        split; [|split; assumption].
        apply (mm_okm nocancel use_q qfuel aboard bmoves (bchild z) bdrawn bmated lf bx bqx lf_valid d false c Hlc). lia.
      + split; [exact E1|]. replace (gqh + Z.of_nat (S d)) with (gqh + Z.of_nat d + 1) by lia. exact OS.
  Qed.

  (** the statement on the model's scores: Go's [==], both sides valid *)
  Theorem mm_go_eq d root p g : RG z p g ->
    (root = false -> bdrawn p = drawn_here g) ->
    (d = O -> use_q = true -> bdrawn p = drawn_here g) ->
    gleaves_ok d root p -> gqh + Z.of_nat d <= 127 ->
    go_eq (gmm d root p) (smm d root g) = true /\ valid (gmm d root p) = true /\ valid (smm d root g) = true /\
    mabs (smm d root g) <= gqh + Z.of_nat d.
  Proof.
    intros HRG Hdr Hdq Hl Hd. destruct (mm_refines d root p g HRG Hdr Hdq Hl Hd) as [E [V M]].
    destruct (mm_okm nocancel use_q qfuel aboard bmoves (bchild z) bdrawn bmated lf bx bqx lf_valid d root p Hl Hd) as [[Vb _] _].
    split; [|auto]. apply go_eq_iabs; assumption.
  Qed.
End Refine.

Print Assumptions node_refines.
Print Assumptions qv_refines.
Print Assumptions mm_refines.
Print Assumptions mm_go_eq.
