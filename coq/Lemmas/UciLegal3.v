(** C04, legality of the answer, part 3: the engine invariant over `position` commands.

    [go_depth_answer] (part 2) needs, besides the refinement [ERel] and the legal-state invariant [EInv]
    of the C10 development, that a side flagged "has castled" holds no castling right ([CastledOK]) - the
    third clause of the game invariant [GInv] under which the search contract is proved (PopMove restores
    the castled flag from the move alone).  Here: every board the engine builds has it -
    Engine.Reset creates a board with both flags cleared, Engine.Move pushes a pseudo-legal move, which
    sets the flag exactly when it removes the rights ([apush_GInv]).  Hence [cmd_position_good]: whatever
    branch the driver takes, a `position` command that succeeds leaves the engine in a good state. *)
From Coq Require Import NArith ZArith List Bool Lia.
From Morlock.Model Require Import Bits Score Attacks Move Position Zobrist Board Search TT SearchBoard Abs Fen Engine EngineSpec UciSeq.
From Morlock.Spec Require Import Chess Game.
From Morlock.Lemmas Require Import PositionLemmas BoardHeap1 BoardHeap2 BoardHeap3 SearchBoardInst1
     EngineLemmas1 EngineLemmas2 EngineLemmas3 UciLegal2.
Import ListNotations.
Open Scope N_scope.

(** well-formed, legal state, castled flags consistent *)
Definition EGood (e : engine) : Prop := wf (e_heap e) (e_board e) /\ EInv e /\ CastledOK e.

Lemma EGood_GInv e : EGood e -> GInv (eabs e).
Proof. intros (Hwf & HI & HC). apply engine_GInv; assumption. Qed.

Lemma GInv_EGood h b : wf h b -> GInv (abs h b) -> blocked (b_result b) = false -> EGood (mkEngine h b).
Proof.
  intros Hwf (Gt & Gw & Gc) Hb. split; [exact Hwf|]. split.
  - split; [|exact Hb]. cbn [e_heap e_board]. rewrite (get_position _ _ Hwf). exact Gw.
  - exact Gc.
Qed.

(** * Engine.Move *)
Lemma push_good z h b m h1 b1 : EGood (mkEngine h b) ->
  In m (pseudo_legal_moves (b_position h b) (b_turn b)) -> push_move z h b m = (h1, b1, true) ->
  EGood (mkEngine h1 b1).
Proof.
  intros HGd Hin E. pose proof (EGood_GInv _ HGd) as HG. destruct HGd as (Hwf & _ & _).
  cbn [e_heap e_board] in Hwf. unfold eabs in HG. cbn [e_heap e_board] in HG.
  pose proof (wf_push_move _ _ _ _ _ _ _ Hwf E) as Hwf1.
  rewrite push_move_is_pushw in E. pose proof (push_sim _ _ _ _ _ _ _ _ _ _ _ Hwf E) as Hs.
  destruct (apush_inv _ _ _ _ _ Hs) as [(Ho & _)|(_ & Eb & next & _ & _ & _ & _ & _ & _ & Eb1 & _)]; [discriminate Ho|].
  set (p := abs h b) in *.
  destruct (apush_congr_nr zmove update_noprogress true has_insufficient_material z p (norm p) m
              (aeq_nr_sym _ _ (norm_aeq_nr p))) as (Hok & Hnr & _); [rewrite Eb; reflexivity|].
  rewrite Hs in Hok, Hnr. cbn [fst snd] in Hok, Hnr.
  destruct (apush_with zmove update_noprogress true has_insufficient_material z (norm p) m) as [c ok1] eqn:Ec.
  cbn [fst snd] in Hok, Hnr. subst ok1.
  assert (Hin' : In m (real_moves p)).
  { unfold real_moves. unfold p at 1. rewrite <- (get_position _ _ Hwf). exact Hin. }
  pose proof (apush_GInv z p m c HG Hin' Ec) as HGc.
  apply GInv_EGood; [exact Hwf1| |exact Eb1].
  eapply GInv_congr; [apply aeq_nr_sym; exact Hnr|exact HGc].
Qed.

Lemma eng_move_good z e s e' : EGood e -> eng_move z e s = (e', true) -> EGood e'.
Proof.
  intros HG H. unfold eng_move in H. destruct (parse_move s) as [cand|]; [|discriminate H].
  destruct (find (fun m => move_equals cand m) (pseudo_legal_moves (b_position (e_heap e) (e_board e)) (b_turn (e_board e))))
    as [m|] eqn:Ef; [|discriminate H].
  apply find_some in Ef as [Hin _].
  destruct (push_move z (e_heap e) (e_board e) m) as [[h1 b1] ok] eqn:Ep.
  destruct ok; [|discriminate H]. injection H as <-.
  destruct e as [h b]. exact (push_good z h b m h1 b1 HG Hin Ep).
Qed.

Lemma play_moves_good z args : forall e e', EGood e -> play_moves z e args = Some e' -> EGood e'.
Proof.
  induction args as [|a r IH]; intros e e' HG H; cbn [play_moves] in H.
  - injection H as <-. exact HG.
  - destruct (str_eqb a moves_tok); [exact (IH e e' HG H)|].
    destruct (eng_move z e a) as [e1 ok] eqn:Em. destruct ok; [|discriminate H].
    exact (IH e1 e' (eng_move_good z e a e1 HG Em) H).
Qed.

(** * Engine.Reset *)
Lemma reset_good z e fen e' : fen_legal fen -> eng_reset z e fen = (e', true) -> EGood e'.
Proof.
  intros Hleg H. destruct (reset_refines z e fen e' true H) as [Hok _].
  destruct (Hok eq_refl) as (g & _ & [Hwf _] & HI). split; [exact Hwf|]. split; [exact (HI Hleg)|].
  unfold eng_reset in H. destruct (decode fen) as [[[[pos t] np] fm]| |]; try discriminate H.
  unfold new_board in H. injection H as <-.
  intros c _ Hc. unfold acastled, eabs in Hc. cbn in Hc. destruct (c =? White); discriminate Hc.
Qed.

(** * the `position` command *)
Theorem cmd_position_good z st line st' :
  (d_last st = [] \/ EGood (d_eng st)) -> fen_legal (line_fen line) ->
  cmd_position z st line = Running st' -> EGood (d_eng st').
Proof.
  intros H0 Hleg H.
  destruct (negb (match d_last st with [] => true | _ => false end) && is_continuation line (d_last st)) eqn:Ec.
  - apply andb_true_iff in Ec as [E1 E2].
    assert (Hne : d_last st <> []) by (destruct (d_last st); [discriminate E1|discriminate]).
    rewrite (cmd_position_cont_eq z st line Hne E2) in H.
    destruct (play_moves z (d_eng st) (fields (skipn (length (d_last st)) line))) as [e|] eqn:Ep; [|discriminate H].
    injection H as <-. cbn [d_eng]. destruct H0 as [H0|H0]; [contradiction|].
    exact (play_moves_good z _ _ _ H0 Ep).
  - assert (Hf : d_last st = [] \/ is_continuation line (d_last st) = false).
    { destruct (d_last st); [left; reflexivity|right]. cbn [negb andb] in Ec. exact Ec. }
    rewrite (cmd_position_fresh_eq z st line Hf) in H.
    destruct (eng_reset z (d_eng st) (line_fen line)) as [e0 ok] eqn:Er.
    destruct ok; cbn [negb] in H; [|discriminate H].
    destruct (play_moves z e0 (after_moves_tok (line_args line))) as [e|] eqn:Ep; [|discriminate H].
    injection H as <-. cbn [d_eng].
    exact (play_moves_good z _ _ _ (reset_good z _ _ _ Hleg Er) Ep).
Qed.

Print Assumptions cmd_position_good.
