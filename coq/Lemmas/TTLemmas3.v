(** C17 -- transposition table under concurrent use, part 3: data-race freedom at the level of the model.
    Memory locations, the accesses of every micro-step classified as atomic or plain, and:
    - [conflicts_only_on_counter]: in ANY state, two different threads can only conflict on the fill counter;
    - [no_conflicting_access]: with the atomic increment no reachable state has a conflict at all;
    - [counter_race_as_found]: with the plain [t.used++] the counter is raced on (state exhibited);
    - node contents: written only at allocation into memory no other thread can name, read only afterwards. *)
From Coq Require Import NArith ZArith List Bool Lia Arith.
From Morlock.Model Require Import Bits Score Move TT.
From Morlock.Lemmas Require Import TTLemmas TTLemmas2.
Import ListNotations.
Open Scope N_scope.

(** [LNew i]: the memory thread [i]'s pending allocation is about to return; it becomes [LNode (length nodes)]
    once the step is taken (see [alloc_is_private] for why it cannot alias anything another thread can reach). *)
Inductive loc := LSlot (k : N) | LCounter | LNode (id : nat) | LNew (i : nat).
Inductive rw := Rd | Wr.
Inductive amode := Atomic | Plain.
Record access := mkAcc { a_loc : loc; a_rw : rw; a_mode : amode }.

(** the accesses performed by the next micro-step of thread [i] (mirrors [cstep] case by case):
    Read  = atomic.LoadPointer(addr), then plain reads of *ptr;
    alloc = plain initialisation of the fresh node, then atomic.LoadPointer(addr);
    loop  = val(ptr), val(fresh): plain reads of both nodes; then atomic.CompareAndSwapPointer unless giving up;
    bump  = atomic.AddUint64 (repaired)  or  plain load of t.used followed, in a second step, by a plain store. *)
Definition accesses (au : bool) (s : cstate) (i : nat) : list access :=
  match nth_error (c_threads s) i with
  | None => []
  | Some t =>
    match t_pc t, t_ops t with
    | PIdle, TRead hash :: _ =>
        mkAcc (LSlot (c_key s hash)) Rd Atomic ::
        match nthN (c_slots s) (c_key s hash) None with
        | Some id => [mkAcc (LNode id) Rd Plain]
        | None => []
        end
    | PIdle, TWrite hash _ _ _ _ _ :: _ =>
        [mkAcc (LNew i) Wr Plain; mkAcc (LSlot (c_key s hash)) Rd Atomic]
    | PLoaded fresh ptr, TWrite hash _ _ _ _ _ :: _ =>
        mkAcc (LNode fresh) Rd Plain ::
        match ptr with Some p => [mkAcc (LNode p) Rd Plain] | None => [] end ++
        (if val (node_of s (Some fresh)) <? val (node_of s ptr) then []
         else [mkAcc (LSlot (c_key s hash)) Wr Atomic])
    | PBump, _ :: _ => if au then [mkAcc LCounter Wr Atomic] else [mkAcc LCounter Rd Plain]
    | PBumpLoaded _, _ :: _ => [mkAcc LCounter Wr Plain]
    | _, _ => []
    end
  end.

(** sanity: a thread has accesses exactly when it can step *)
Lemma accesses_iff_enabled au s i : accesses au s i = [] <-> cstep au s i = None.
Proof.
  unfold accesses, cstep. destruct (nth_error (c_threads s) i) as [t|]; [|tauto].
  destruct (t_pc t) as [|fresh ptr| |u]; destruct (t_ops t) as [|[h|h b p d sc m] rest];
    try tauto; try (split; discriminate).
  - destruct (val (node_of s (Some fresh)) <? val (node_of s ptr)); [split; discriminate|].
    destruct (onat_eqb (nthN (c_slots s) (c_key s h) None) ptr); [destruct ptr|]; split; discriminate.
  - destruct au; split; discriminate.
  - destruct au; split; discriminate.
Qed.

Definition conflict (x y : access) : Prop :=
  a_loc x = a_loc y /\ (a_rw x = Wr \/ a_rw y = Wr) /\ (a_mode x = Plain \/ a_mode y = Plain).

(** a (model-level) data race: two different threads are both about to access the same location, at least one
    access is a write, and they are not both atomic  -- the Go memory model's definition, which is weaker to
    satisfy than "at least one is a plain write", so the negative theorem below is the stronger one *)
Definition race (au : bool) (s : cstate) : Prop :=
  exists i j x y, i <> j /\ In x (accesses au s i) /\ In y (accesses au s j) /\ conflict x y.

Definition acc_class (i : nat) (x : access) : Prop :=
  (exists k r, x = mkAcc (LSlot k) r Atomic) \/
  (exists id, x = mkAcc (LNode id) Rd Plain) \/
  x = mkAcc (LNew i) Wr Plain \/
  a_loc x = LCounter.

Lemma accesses_classified au s i x : In x (accesses au s i) -> acc_class i x.
Proof.
  unfold accesses, acc_class. destruct (nth_error (c_threads s) i) as [t|]; [|intros []].
  destruct (t_pc t) as [|fresh ptr| |u]; destruct (t_ops t) as [|[h|h b p d sc m] rest]; simpl; try tauto.
  - intros [<-|H]; [left; eauto|]. destruct (nthN (c_slots s) (c_key s h) None); simpl in H; [|tauto].
    destruct H as [<-|[]]. right; left; eauto.
  - intros [<-|[<-|[]]]; [right; right; left; auto|left; eauto].
  - intros [<-|H]; [right; left; eauto|]. apply in_app_or in H. destruct H as [H|H].
    + destruct ptr; simpl in H; [|tauto]. destruct H as [<-|[]]. right; left; eauto.
    + match type of H with In _ (if ?c then _ else _) => destruct c end; simpl in H; [tauto|].
      destruct H as [<-|[]]. left; eauto.
  - destruct au; intros [<-|[]]; right; right; right; reflexivity.
  - destruct au; intros [<-|[]]; right; right; right; reflexivity.
  - intros [<-|[]]; right; right; right; reflexivity.
  - intros [<-|[]]; right; right; right; reflexivity.
Qed.

(** in ANY state and for both variants: slots are only accessed atomically, nodes are only read, fresh memory is
    private -- the counter is the only location two threads can conflict on *)
Theorem conflicts_only_on_counter au s i j x y :
  i <> j -> In x (accesses au s i) -> In y (accesses au s j) -> conflict x y -> a_loc x = LCounter /\ a_loc y = LCounter.
Proof.
  intros Hij Hx Hy (Hl & Hw & Hm).
  apply accesses_classified in Hx. apply accesses_classified in Hy.
  destruct Hx as [(k & r & ->)|[(id & ->)|[->|Hx]]]; destruct Hy as [(k' & r' & ->)|[(id' & ->)|[->|Hy]]];
    simpl in *; try discriminate; try (destruct Hm; discriminate); try (destruct Hw; discriminate);
    try (split; congruence).
Qed.

(** with the atomic increment, reachable states never access the counter plainly *)
Lemma counter_access_atomic s i x :
  (forall j tj u, nth_error (c_threads s) j = Some tj -> t_pc tj <> PBumpLoaded u) ->
  In x (accesses true s i) -> a_loc x = LCounter -> a_mode x = Atomic.
Proof.
  intros Hnb. unfold accesses. destruct (nth_error (c_threads s) i) as [t|] eqn:Ht; [|intros []].
  destruct (t_pc t) as [|fresh ptr| |u] eqn:Hpc; destruct (t_ops t) as [|[h|h b p d sc m] rest]; simpl; try tauto;
    try (exfalso; eapply Hnb; eauto; fail).
  - intros [<-|H]; [discriminate|]. destruct (nthN (c_slots s) (c_key s h) None); simpl in H; [|tauto].
    destruct H as [<-|[]]. discriminate.
  - intros [<-|[<-|[]]]; discriminate.
  - intros [<-|H]; [discriminate|]. apply in_app_or in H. destruct H as [H|H].
    + destruct ptr; simpl in H; [|tauto]. destruct H as [<-|[]]. discriminate.
    + match type of H with In _ (if ?c then _ else _) => destruct c end; simpl in H; [tauto|].
      destruct H as [<-|[]]. discriminate.
  - intros [<-|[]]; reflexivity.
  - intros [<-|[]]; reflexivity.
Qed.

(** ** no_conflicting_access: all thread counts, all programs, all schedules *)
Theorem no_conflicting_access n progs sched :
  (0 < n)%nat -> ~ race true (crun true (c_init n progs) sched).
Proof.
  intros Hn (i & j & x & y & Hij & Hx & Hy & Hc).
  destruct (UInvA_run n progs sched Hn) as [_ [_ Hnb]].
  destruct (conflicts_only_on_counter _ _ _ _ _ _ Hij Hx Hy Hc) as [Lx Ly].
  pose proof (counter_access_atomic _ _ _ Hnb Hx Lx) as Mx.
  pose proof (counter_access_atomic _ _ _ Hnb Hy Ly) as My.
  destruct Hc as (_ & _ & [Hm|Hm]); congruence.
Qed.

(** ** node contents: plain reads only touch nodes that are already allocated (and hence immutable, see
    [node_immutable]); the memory being initialised by an allocation cannot be named by anybody *)
Theorem plain_reads_allocated au n progs s i id r m :
  CInv n progs s -> In (mkAcc (LNode id) r m) (accesses au s i) ->
  r = Rd /\ exists e, nth_error (c_nodes s) id = Some e /\ is_write_of progs e.
Proof.
  intros HC. unfold accesses. destruct (nth_error (c_threads s) i) as [t|] eqn:Ht; [|intros []].
  pose proof (ci_threads _ _ _ HC _ _ Ht) as [_ Hti].
  assert (Hr : forall q, (q < length (c_nodes s))%nat -> exists e, nth_error (c_nodes s) q = Some e /\ is_write_of progs e).
  { intros q Hq. destruct (nth_error (c_nodes s) q) as [e|] eqn:E; [|apply nth_error_None in E; lia].
    exists e. split; auto. eapply node_is_write; eauto. }
  destruct (t_pc t) as [|fresh ptr| |u] eqn:Hpc; destruct (t_ops t) as [|[h|h b p d sc m'] rest] eqn:Hops; simpl; try tauto.
  - intros [H|H]; [discriminate|]. destruct (nthN (c_slots s) (c_key s h) None) as [q|] eqn:Hq; simpl in H; [|tauto].
    destruct H as [H|[]]. inversion H; subst. split; auto. apply Hr. eapply slot_loaded_in_range; eauto.
  - intros [H|[H|[]]]; discriminate.
  - destruct Hti as [(h' & b' & p' & d' & sc' & m'' & rest' & Ho & Hf) Hq].
    intros [H|H]; [inversion H; subst; split; auto; apply Hr; apply nth_error_Some; congruence|].
    apply in_app_or in H. destruct H as [H|H].
    + destruct ptr as [q|]; simpl in H; [|tauto]. destruct H as [H|[]]. inversion H; subst. split; auto.
    + match type of H with In _ (if ?c then _ else _) => destruct c end; simpl in H; [tauto|].
      destruct H as [H|[]]. discriminate.
  - destruct au; intros [H|[]]; discriminate.
  - destruct au; intros [H|[]]; discriminate.
  - intros [H|[]]; discriminate.
  - intros [H|[]]; discriminate.
Qed.

Theorem alloc_is_private au n progs s :
  CInv n progs s ->
  (forall j y, In y (accesses au s j) -> a_loc y <> LNode (length (c_nodes s))) /\
  (forall k, nth_error (c_slots s) k <> Some (Some (length (c_nodes s)))) /\
  (forall j tj f p, nth_error (c_threads s) j = Some tj -> t_pc tj = PLoaded f p ->
                    f <> length (c_nodes s) /\ p <> Some (length (c_nodes s))).
Proof.
  intro HC. split; [|split].
  - intros j [l r m] Hy E. simpl in E. subst l.
    destruct (plain_reads_allocated _ _ _ _ _ _ _ _ HC Hy) as (_ & e & He & _).
    assert (length (c_nodes s) < length (c_nodes s))%nat by (apply nth_error_Some; congruence). lia.
  - intros k E. destruct (ci_slots _ _ _ HC _ _ E) as (e & He & _).
    assert (length (c_nodes s) < length (c_nodes s))%nat by (apply nth_error_Some; congruence). lia.
  - intros j tj f p Hj Hpc. pose proof (ci_threads _ _ _ HC _ _ Hj) as [_ Hti]. rewrite Hpc in Hti.
    destruct Hti as [(h' & b' & p' & d' & sc' & m'' & rest' & Ho & Hf) Hq]. split.
    + intro E. subst f. assert (length (c_nodes s) < length (c_nodes s))%nat by (apply nth_error_Some; congruence). lia.
    + intro E. specialize (Hq _ E). lia.
Qed.

(** ** the code as found: the counter is raced on *)
Example counter_race_as_found :
  let s := crun false (c_init 2 racy_progs) [0;1;0;1;0]%nat in
  In (mkAcc LCounter Wr Plain) (accesses false s 0) /\ In (mkAcc LCounter Rd Plain) (accesses false s 1) /\
  race false s.
Proof.
  vm_compute accesses. split; [left; reflexivity|split; [left; reflexivity|]].
  exists 0%nat, 1%nat, (mkAcc LCounter Wr Plain), (mkAcc LCounter Rd Plain).
  split; [lia|]. vm_compute accesses. split; [left; reflexivity|split; [left; reflexivity|]].
  repeat split; auto.
Qed.

Example counter_write_write_race_as_found :
  let s := crun false (c_init 2 racy_progs) [0;1;0;1;0;1]%nat in
  In (mkAcc LCounter Wr Plain) (accesses false s 0) /\ In (mkAcc LCounter Wr Plain) (accesses false s 1).
Proof. vm_compute. split; left; reflexivity. Qed.

Theorem race_freedom_fails_as_found :
  ~ (forall n progs sched, (0 < n)%nat -> ~ race false (crun false (c_init n progs) sched)).
Proof.
  intro H. apply (H 2%nat racy_progs [0;1;0;1;0]%nat ltac:(lia)). apply counter_race_as_found.
Qed.

(** non-vacuity of [no_conflicting_access]: in the contended run of part 1 two threads do access the same slot
    at the same time (load by one, CAS by the other) -- both atomic, hence no race *)
Example same_slot_accessed_concurrently :
  let s := crun true (c_init 2 ex_progs) [0;1]%nat in
  In (mkAcc (LSlot 1) Wr Atomic) (accesses true s 0) /\ In (mkAcc (LSlot 1) Wr Atomic) (accesses true s 1) /\
  ~ race true s.
Proof.
  split; [vm_compute; right; left; reflexivity|split; [vm_compute; right; left; reflexivity|]].
  apply (no_conflicting_access 2 ex_progs [0;1]%nat). lia.
Qed.

(** ... and a node written by one thread is read plainly by the other after publication *)
Example node_read_by_other_thread :
  let s := crun true (c_init 2 ex_progs) [0;1;0;1]%nat in
  In (mkAcc (LNode 0) Rd Plain) (accesses true s 1) /\ ~ race true s.
Proof.
  split; [vm_compute; right; left; reflexivity|].
  apply (no_conflicting_access 2 ex_progs [0;1;0;1]%nat). lia.
Qed.

Print Assumptions accesses_iff_enabled.
Print Assumptions conflicts_only_on_counter.
Print Assumptions no_conflicting_access.
Print Assumptions plain_reads_allocated.
Print Assumptions alloc_is_private.
Print Assumptions counter_race_as_found.
Print Assumptions race_freedom_fails_as_found.
