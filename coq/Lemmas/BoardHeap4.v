(** C08, part 4 — non-vacuity examples for the theorems of BoardHeap3, and the counterexamples that
    force the side conditions ([castle_ok], "never pop below the fork point", [turn_ok], "up to the
    result field").  Everything is evaluated by [vm_compute] on concrete boards. *)
From Coq Require Import NArith ZArith List Bool Lia.
From Morlock.Model Require Import Bits Attacks Move Position Zobrist Board.
From Morlock.Lemmas Require Import BoardHeap1 BoardHeap2 BoardHeap3.
Import ListNotations.
Local Open Scope nat_scope.

Definition zt : ztable :=
  mkZt (fun c p s => c * 1000 + p * 100 + s + 1)%N (fun c => c + 7)%N
       (fun s => if (s =? 0)%N then 0%N else (s + 3)%N) (fun t => t + 11)%N.

Definition mk_pos (pls : list placement) (castling : N) : position :=
  match new_position pls castling 0 with Some p => p | None => empty_position 0 0 end.

(** White: Ke1, Ra1.  Black: Ke8.  ("4k3/8/8/8/8/8/8/R3K3 w - - 0 1") *)
Definition pos0 : position :=
  mk_pos [mkPlacement E1 White King; mkPlacement A1 White Rook; mkPlacement E8 Black King] 0.
Definition s0 := new_board zt [] pos0 White 0 1.
Definition h0 := fst s0.
Definition b0 := snd s0.

Definition A2 : N := 15. Definition D8' : N := 60. Definition D7 : N := 52.
Definition mRa2 : move := mkMove Normal A1 A2 Rook NoPiece NoPiece.     (* Ra1-a2 *)
Definition mKd8 : move := mkMove Normal E8 D8 King NoPiece NoPiece.     (* Ke8-d8 *)
Definition mRa1 : move := mkMove Normal A2 A1 Rook NoPiece NoPiece.     (* Ra2-a1 *)
Definition mKe8 : move := mkMove Normal D8 E8 King NoPiece NoPiece.     (* Kd8-e8 *)

Lemma wf0 : wf h0 b0.
Proof. apply (wf_new zt pos0 White 0%N 1%Z); [left; reflexivity|reflexivity]. Qed.

Definition s1 := push_move zt h0 b0 mRa2.
Definition h1 := fst (fst s1).
Definition b1 := snd (fst s1).

(** ** pop_push_id is not vacuous *)
Example push_succeeds : s1 = (h1, b1, true).
Proof. vm_compute. reflexivity. Qed.

Example pop_push_id_instance :
  exists h2 b2, pop_move h1 b1 = (h2, b2, mRa2, true) /\ wf h2 b2 /\
    view_eq_nr (view h2 b2) (view h0 b0) /\ b_result b2 = mkResult Undecided NoReason.
Proof.
  destruct (pop_push_id zt h0 b0 mRa2 h1 b1 wf0) as (h2 & b2 & H1 & H2 & H3 & H4 & _).
  - intro Hc. vm_compute in Hc. discriminate.
  - exact push_succeeds.
  - exists h2, b2. auto.
Qed.

(** the result field is *not* restored: a fresh board reports Unknown, after push+pop Undecided *)
Example result_not_restored :
  b_result b0 = mkResult Unknown NoReason /\
  b_result (snd (pop' h1 b1)) = mkResult Undecided NoReason.
Proof. vm_compute. split; reflexivity. Qed.

(** ** balanced_id is not vacuous: nested pushes and pops, an adjudication and a failed push inside *)
Definition ops1 : list bop :=
  [OPush mRa2; OPush mKd8; OPush mRa2 (* fails: no piece on a1 *); OPop; OPush mKd8; OPush mRa1; OAdj;
   OPush mKe8 (* fails: adjudicated as stalemate *); OPop; OPop; OPop].

Example balanced_run :
  match run true zt ops1 h0 b0 0 with Some (_, _, O) => true | _ => false end = true.
Proof. vm_compute. reflexivity. Qed.

Example balanced_id_instance :
  beq_nr (fst (run_plain zt ops1 h0 b0)) (snd (run_plain zt ops1 h0 b0)) h0 b0.
Proof.
  destruct (run true zt ops1 h0 b0 0) as [[[h2 b2] d]|] eqn:E.
  - assert (d = 0) by (pose proof balanced_run as B; rewrite E in B; destruct d; [reflexivity|discriminate]).
    subst d. destruct (balanced_id zt ops1 h0 b0 h2 b2 wf0 E) as (Hr & _ & Heq). rewrite Hr. exact Heq.
  - pose proof balanced_run as B. rewrite E in B. discriminate.
Qed.

(** threefold repetition is detected inside such a sequence (the draw machinery is really exercised) *)
Definition ops_rep : list bop :=
  [OPush mRa2; OPush mKd8; OPush mRa1; OPush mKe8; OPush mRa2; OPush mKd8; OPush mRa1; OPush mKe8].
Example repetition_detected :
  b_result (snd (run_plain zt ops_rep h0 b0)) = mkResult Draw Repetition3.
Proof. vm_compute. reflexivity. Qed.

(** ** fork theorems are not vacuous *)
Definition sf := fork h1 b1.
Definition hf := fst sf.
Definition f1 := snd sf.
Lemma wf1 : wf h1 b1.
Proof. apply (wf_push_move zt h0 b0 mRa2 h1 b1 true wf0). exact push_succeeds. Qed.

Definition ops_f : list bop := [OPush mKd8; OPush mRa1; OPop; OPop; OPush mKd8; OAdj].
Example fork_run_ok :
  match run false zt ops_f hf f1 0 with Some (_, _, 1) => true | _ => false end = true.
Proof. vm_compute. reflexivity. Qed.
Example orig_run_ok :
  match run false zt ops_f hf b1 0 with Some (_, _, 1) => true | _ => false end = true.
Proof. vm_compute. reflexivity. Qed.

Example fork_isolated_original_instance :
  beq (fst (run_plain zt ops_f hf f1)) b1 h1 b1.
Proof.
  destruct (run false zt ops_f hf f1 0) as [[[h2 f2] d]|] eqn:E.
  - destruct (fork_isolated_original zt h1 b1 hf f1 ops_f h2 f2 d wf1 eq_refl E) as (_ & _ & _ & H).
    rewrite (run_d_run_ops _ _ _ _ _ _ _ _ _ _ _ _ _ E). exact H.
  - pose proof fork_run_ok as B. rewrite E in B. discriminate.
Qed.

Example fork_isolated_fork_instance :
  beq (fst (run_plain zt ops_f hf b1)) f1 hf f1.
Proof.
  destruct (run false zt ops_f hf b1 0) as [[[h2 b2] d]|] eqn:E.
  - destruct (fork_isolated_fork zt h1 b1 hf f1 ops_f h2 b2 d wf1 eq_refl E) as (_ & _ & H).
    rewrite (run_d_run_ops _ _ _ _ _ _ _ _ _ _ _ _ _ E). exact H.
  - pose proof orig_run_ok as B. rewrite E in B. discriminate.
Qed.

(** the fork and the original both see the common past: [last_move] of the fork is Ra1-a2 *)
Example fork_last_move : last_move hf f1 = Some mRa2 /\ last_move hf b1 = Some mRa2.
Proof. vm_compute. split; reflexivity. Qed.

(** ** COUNTEREXAMPLE 1: popping below the fork point on the fork changes what the original reports.
    (Go: Fork's doc comment "the shared history should not be mutated (via PopMove)".) *)
Example fork_pop_below_breaks_original :
  last_move hf b1 = Some mRa2 /\
  last_move (fst (pop' hf f1)) b1 = Some no_move.
Proof. vm_compute. split; reflexivity. Qed.

(** ** COUNTEREXAMPLE 2: [castle_ok] is necessary, and can be violated with generator moves only.
    Position "4k3/8/8/8/8/8/4K3/7R w K - 0 1": castling right K although the king is on e2.
    The generator emits O-O from e2; [castling_rook_move] does not recognise it, the rook stays on h1
    and the right is kept, so White can "castle" a second time.  PopMove of the second castle
    clears hasCastled[White], which was true before that move was pushed. *)
Definition E2 : N := 11. Definition F2 : N := 10.
Definition posC : position :=
  mk_pos [mkPlacement E2 White King; mkPlacement H1 White Rook; mkPlacement E8 Black King] WhiteKingSideCastle.
Definition sC0 := new_board zt [] posC White 0 1.
Definition mC1 : move := mkMove KingSideCastle E2 G1 King NoPiece NoPiece.
Definition mKf2 : move := mkMove Normal G1 F2 King NoPiece NoPiece.
Definition mC2 : move := mkMove KingSideCastle F2 G1 King NoPiece NoPiece.

Definition is_pseudo_legal (h : heap) (b : board) (m : move) : bool :=
  existsb (move_eqb m) (pseudo_legal_moves (b_position h b) (b_turn b)).

(** push only generator moves; [None] as soon as a move is not pseudo-legal or not legal *)
Fixpoint play (ms : list move) (h : heap) (b : board) : option (heap * board) :=
  match ms with
  | [] => Some (h, b)
  | m :: r => if is_pseudo_legal h b m
              then let '(h', b', ok) := push_move zt h b m in if ok then play r h' b' else None
              else None
  end.

Definition sC4 := play [mC1; mKd8; mKf2; mKe8] (fst sC0) (snd sC0).

Example castle_twice_counterexample :
  match sC4 with
  | Some (h4, b4) =>
      is_pseudo_legal h4 b4 mC2 &&
      has_castled b4 White &&                                         (* reported before the push *)
      (let '(h5, b5, ok) := push_move zt h4 b4 mC2 in
       ok && has_castled b5 White &&
       (let '(h6, b6, m, ok') := pop_move h5 b5 in
        ok' && move_eqb m mC2 && negb (has_castled b6 White)))         (* not restored by the pop *)
  | None => false
  end = true.
Proof. vm_compute. reflexivity. Qed.

(** ** COUNTEREXAMPLE 3: [turn_ok] is necessary (a "colour" 2 comes back as Black) *)
Example turn_not_a_colour :
  let '(h, b) := new_board zt [] pos0 2%N 0 1 in
  let '(h', b', ok) := push_move zt h b mRa2 in
  let '(h'', b'', _, ok') := pop_move h' b' in
  (ok, ok', b_turn b, b_turn b'') = (true, true, 2%N, Black).
Proof. vm_compute. reflexivity. Qed.
