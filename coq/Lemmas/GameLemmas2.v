(** C05, part 2: insufficient material (model = specification), adjudication without legal moves,
    the half-move clock. *)
From Coq Require Import NArith ZArith List Bool Lia ZifyBool ZifyNat ZifyN Sorted.
From Morlock.Model Require Import Bits Attacks Move Position Abs Zobrist Board.
From Morlock.Spec Require Import Chess Game.
From Morlock.Lemmas Require Import AttackGeometry1 AttackGeometry3 AttackGeometry_Extra PositionLemmas
  MoveRefines1 MoveRefines2 MoveRefines3 MoveRefines4 MoveGen2 MoveGen3 MoveGen7 MoveGen10 MoveGen11 GameLemmas1.
Import ListNotations.
Open Scope N_scope.

(** * 6. insufficient material *)

Definition ncount (f : nat -> bool) : nat := length (filter f all_squares).

Lemma filter_map_length {A B} (g : A -> B) (f : B -> bool) l :
  length (filter f (map g l)) = length (filter (fun x => f (g x)) l).
Proof. induction l as [|a l IH]; [reflexivity|]. cbn. destruct (f (g a)); cbn; now rewrite IH. Qed.

Lemma cnt_ncount f : cnt f = ncount (fun s => f (N.of_nat s)).
Proof. unfold cnt, ncount, seqN, all_squares. apply filter_map_length. Qed.

Lemma ncount_ext f g : (forall s, (s < 64)%nat -> f s = g s) -> ncount f = ncount g.
Proof.
  intros H. unfold ncount. f_equal. apply filter_ext_in. intros s Hs. apply H. now apply in_all_squares.
Qed.

Lemma ncount_or f g : (forall s, (s < 64)%nat -> f s && g s = false) ->
  ncount (fun s => f s || g s) = (ncount f + ncount g)%nat.
Proof. intros H. unfold ncount. apply filter_length_or. intros x Hx. apply H. now apply in_all_squares. Qed.

Definition nk_cell (b : mboard) (s : nat) : list (nat * kind) :=
  match at_ b s with Some (_, K) => [] | Some (_, k) => [(s, k)] | None => [] end.

Lemma non_king_pieces_eq b : non_king_pieces b = flat_map (nk_cell b) all_squares.
Proof. reflexivity. Qed.

Definition nk_pred (b : mboard) (q : nat * kind -> bool) (s : nat) : bool :=
  match at_ b s with Some (_, K) => false | Some (_, k) => q (s, k) | None => false end.

Lemma nk_filter_count b q l :
  length (filter q (flat_map (nk_cell b) l)) = length (filter (nk_pred b q) l).
Proof.
  induction l as [|s l IH]; [reflexivity|]. cbn [flat_map filter].
  rewrite filter_app, app_length, IH. unfold nk_cell, nk_pred.
  destruct (at_ b s) as [[c []]|]; cbn; try reflexivity; destruct (q (s, _)); reflexivity.
Qed.

Lemma nk_filter_ncount b q : length (filter q (non_king_pieces b)) = ncount (nk_pred b q).
Proof. unfold ncount. rewrite non_king_pieces_eq. apply nk_filter_count. Qed.

Lemma filter_true {A} (l : list A) : filter (fun _ => true) l = l.
Proof. induction l as [|a l IH]; [reflexivity|]. cbn. now rewrite IH. Qed.

Lemma nk_in_lt b s k : In (s, k) (non_king_pieces b) -> (s < 64)%nat.
Proof.
  rewrite non_king_pieces_eq. intros H. apply in_flat_map in H as [x [Hx H]]. apply in_all_squares in Hx.
  unfold nk_cell in H. destruct (at_ b x) as [[c []]|]; cbn in H; try contradiction;
  destruct H as [H|[]]; inversion H; subst; exact Hx.
Qed.

Definition isk (k0 : kind) (b : mboard) (s : nat) : bool :=
  match at_ b s with Some (_, k) => kind_eqb k k0 | None => false end.
Definition is_ck (c0 : color) (k0 : kind) (b : mboard) (s : nat) : bool :=
  match at_ b s with Some (c, k) => color_eqb c c0 && kind_eqb k k0 | None => false end.

Lemma light_mask_ok : forallb (fun s => Bool.eqb (N.testbit whiteSquareMask (N.of_nat s)) (square_colour s =? 0)%Z)
                        all_squares = true.
Proof. vm_compute. reflexivity. Qed.

Lemma light_mask s : (s < 64)%nat -> N.testbit whiteSquareMask (N.of_nat s) = (square_colour s =? 0)%Z.
Proof.
  intros H. pose proof light_mask_ok as G. rewrite forallb_forall in G.
  specialize (G s (proj2 (in_all_squares s) H)). now apply eqb_prop in G.
Qed.

Lemma square_colour_01 s : (square_colour s = 0 \/ square_colour s = 1)%Z.
Proof. unfold square_colour. pose proof (Z.mod_pos_bound (file_of s + rank_of s) 2 ltac:(lia)). lia. Qed.

Section Insufficient.
  Variable pos : position.
  Hypothesis HI : Inv pos.
  Local Notation b := (brd (abs_pos pos)).

  Lemma tb_ck c k s : vcol c -> (s < 64)%nat ->
    N.testbit (pget pos c (code_of_kind k)) (N.of_nat s) = is_ck (color_of c) k b s.
  Proof.
    intros Hc Hs. apply bool_eq_iff. rewrite <- (at_piece pos (N.of_nat s) c k HI ltac:(lia) Hc).
    rewrite Nat2N.id. unfold is_ck. split.
    - intros ->. destruct (color_of c), k; reflexivity.
    - destruct (at_ b s) as [[c' k']|]; [|discriminate]. rewrite andb_true_iff, color_eqb_eq, kind_eqb_eq.
      now intros [-> ->].
  Qed.

  Lemma tb_k2 k s : (s < 64)%nat ->
    N.testbit (N.lor (pget pos White (code_of_kind k)) (pget pos Black (code_of_kind k))) (N.of_nat s) = isk k b s.
  Proof.
    intros Hs. rewrite N.lor_spec, (tb_ck White k s (or_introl eq_refl) Hs), (tb_ck Black k s (or_intror eq_refl) Hs).
    unfold is_ck, isk. cbn [color_of White Black N.eqb].
    destruct (at_ b s) as [[[] k']|]; cbn; try reflexivity; now rewrite orb_false_r.
  Qed.

  Lemma tb_occ s : N.testbit (all_bb pos) (N.of_nat s) = occupied b s.
  Proof. now rewrite (MoveGen2.occupied_abs pos HI s). Qed.

  Definition nonking (s : nat) : bool := nk_pred b (fun _ => true) s.

  Lemma nk_length : length (non_king_pieces b) = ncount nonking.
  Proof.
    rewrite <- (filter_true (non_king_pieces b)) at 1. apply nk_filter_ncount.
  Qed.

  Hypothesis HWK : popcount (pget pos White King) = 1.
  Hypothesis HBK : popcount (pget pos Black King) = 1.

  Lemma occ_count : popcount (all_bb pos) = N.of_nat (2 + length (non_king_pieces b)).
  Proof.
    rewrite (popcount_cnt _ (all_bb_word _ HI)), cnt_ncount. f_equal.
    rewrite (ncount_ext _ (fun s => isk K b s || nonking s)).
    2:{ intros s Hs. rewrite tb_occ. unfold occupied, isk, nonking, nk_pred.
        destruct (at_ b s) as [[c []]|]; reflexivity. }
    rewrite ncount_or.
    2:{ intros s Hs. unfold isk, nonking, nk_pred. destruct (at_ b s) as [[c []]|]; reflexivity. }
    rewrite <- nk_length. f_equal.
    rewrite (ncount_ext _ (fun s => is_ck Wh K b s || is_ck Bl K b s)).
    2:{ intros s Hs. unfold isk, is_ck. destruct (at_ b s) as [[[] []]|]; reflexivity. }
    rewrite ncount_or.
    2:{ intros s Hs. unfold is_ck. destruct (at_ b s) as [[[] []]|]; reflexivity. }
    rewrite (popcount_cnt _ (pget_word _ _ _ HI)), cnt_ncount in HWK.
    rewrite (popcount_cnt _ (pget_word _ _ _ HI)), cnt_ncount in HBK.
    rewrite (ncount_ext _ (is_ck Wh K b)) in HWK by (intros s Hs; exact (tb_ck White K s (or_introl eq_refl) Hs)).
    rewrite (ncount_ext _ (is_ck Bl K b)) in HBK by (intros s Hs; exact (tb_ck Black K s (or_intror eq_refl) Hs)).
    lia.
  Qed.

  Lemma pk2_point (q : nat -> bool) k s : k <> K ->
    q s && isk k b s = nk_pred b (fun sk => q (fst sk) && kind_eqb (snd sk) k) s.
  Proof.
    intros Hk. unfold isk, nk_pred. cbn [fst snd].
    destruct (at_ b s) as [[c k']|]; [|now rewrite andb_false_r].
    destruct k'; [reflexivity|reflexivity|reflexivity|reflexivity|reflexivity|].
    destruct k; cbn [kind_eqb]; try apply andb_false_r. now destruct Hk.
  Qed.

  Lemma popcount_k2 (q : nat -> bool) k x :
    x < 2 ^ 64 ->
    (forall s, (s < 64)%nat -> N.testbit x (N.of_nat s) = q s && isk k b s) -> k <> K ->
    popcount x = N.of_nat (length (filter (fun sk => q (fst sk) && kind_eqb (snd sk) k) (non_king_pieces b))).
  Proof.
    intros Hx H Hk. rewrite (popcount_cnt _ Hx), cnt_ncount. f_equal.
    rewrite nk_filter_ncount.
    apply ncount_ext. intros s Hs. rewrite (H s Hs). exact (pk2_point q k s Hk).
  Qed.

  Theorem insufficient_iff_sec : has_insufficient_material pos = insufficient b.
  Proof.
    unfold has_insufficient_material, has_insufficient_material_with.
    rewrite occ_count.
    (* minors *)
    assert (Hminor : popcount (N.lor (N.lor (pget pos White Knight) (pget pos Black Knight))
                                     (N.lor (pget pos White Bishop) (pget pos Black Bishop))) =
       N.of_nat (length (filter (fun sk => kind_eqb (snd sk) Kn || kind_eqb (snd sk) Bi) (non_king_pieces b)))).
    { rewrite popcount_cnt by (repeat apply lor_word; now apply pget_word). rewrite cnt_ncount. f_equal.
      rewrite nk_filter_ncount. apply ncount_ext. intros s Hs.
      rewrite N.lor_spec. change Knight with (code_of_kind Kn). change Bishop with (code_of_kind Bi).
      rewrite !tb_k2 by exact Hs. unfold isk, nk_pred. cbn [snd].
      destruct (at_ b s) as [[c []]|]; reflexivity. }
    assert (Hbish : popcount (N.lor (pget pos White Bishop) (pget pos Black Bishop)) =
       N.of_nat (length (filter (fun sk => true && kind_eqb (snd sk) Bi) (non_king_pieces b)))).
    { apply (popcount_k2 (fun _ => true)); [apply lor_word; now apply pget_word| |discriminate].
      intros s Hs. change Bishop with (code_of_kind Bi). now rewrite tb_k2. }
    assert (Hlight : popcount (N.land whiteSquareMask (N.lor (pget pos White Bishop) (pget pos Black Bishop))) =
       N.of_nat (length (filter (fun sk => (square_colour (fst sk) =? 0)%Z && kind_eqb (snd sk) Bi) (non_king_pieces b)))).
    { apply (popcount_k2 (fun s => (square_colour s =? 0)%Z)); [apply land_lt_pow2, lor_word; now apply pget_word| |discriminate].
      intros s Hs. change Bishop with (code_of_kind Bi). rewrite N.land_spec, tb_k2 by exact Hs. now rewrite light_mask. }
    rewrite Hminor, Hbish, Hlight. clear Hminor Hbish Hlight.
    pose proof (nk_in_lt b) as Hlt.
    unfold insufficient.
    destruct (non_king_pieces b) as [|[s1 k1] [|[s2 k2] [|x l]]].
    - reflexivity.
    - destruct k1; reflexivity.
    - cbn [length Nat.add]. change (N.of_nat 4 =? 2) with false. change (N.of_nat 4 =? 3) with false.
      change (N.of_nat 4 =? 4) with true. cbv iota.
      destruct k1, k2; try reflexivity.
      cbn [filter fst snd kind_eqb andb length].
      pose proof (square_colour_01 s1) as C1. pose proof (square_colour_01 s2) as C2.
      destruct (Z.eqb_spec (square_colour s1) 0) as [E1|E1]; destruct (Z.eqb_spec (square_colour s2) 0) as [E2|E2];
        cbn [filter fst snd kind_eqb andb length];
        destruct (Z.eqb_spec (square_colour s1) (square_colour s2)) as [E|E]; try reflexivity; exfalso; lia.
    - cbn [length].
      destruct (N.eqb_spec (N.of_nat (2 + S (S (S (length l))))) 2); [lia|].
      destruct (N.eqb_spec (N.of_nat (2 + S (S (S (length l))))) 3); [lia|].
      destruct (N.eqb_spec (N.of_nat (2 + S (S (S (length l))))) 4); [lia|].
      destruct k1, k2; reflexivity.
  Qed.
End Insufficient.

(** 6. [insufficient_iff]: on a position satisfying the representation invariant with exactly one king per side
    the bit-count test of the implementation is the specification's K v K / K+minor v K / same-coloured
    bishop pair. *)
Theorem insufficient_iff : forall pos, Inv pos ->
  popcount (pget pos White King) = 1 -> popcount (pget pos Black King) = 1 ->
  has_insufficient_material pos = insufficient (brd (abs_pos pos)).
Proof. intros pos HI HW HB. now apply insufficient_iff_sec. Qed.

Corollary insufficient_iff_wf : forall pos turn, wf_b pos turn = true ->
  has_insufficient_material pos = insufficient (brd (abs_pos pos)).
Proof.
  intros pos turn Hwf. pose proof (wf_b_WF _ _ Hwf) as W.
  apply insufficient_iff; [apply (wf_inv _ _ W)|apply (wf_wk _ _ W)|apply (wf_bk _ _ W)].
Qed.

(** a queen, rook or pawn on the board excludes insufficient material *)
Lemma insufficient_major b s c k : (s < 64)%nat -> at_ b s = Some (c, k) -> k = Q \/ k = R \/ k = P ->
  insufficient b = false.
Proof.
  intros Hs Hat Hk.
  assert (Hin : In (s, k) (non_king_pieces b)).
  { rewrite non_king_pieces_eq. apply in_flat_map. exists s. split; [now apply in_all_squares|].
    unfold nk_cell. rewrite Hat. destruct Hk as [->|[->| ->]]; now left. }
  unfold insufficient.
  destruct (non_king_pieces b) as [|[s1 k1] [|[s2 k2] [|x l]]].
  - destruct Hin.
  - destruct Hin as [E|[]]. inversion E; subst. destruct Hk as [->|[->| ->]]; reflexivity.
  - destruct Hin as [E|[E|[]]]; inversion E; subst; destruct Hk as [->|[->| ->]]; try reflexivity; destruct k1; reflexivity.
  - destruct k1, k2; reflexivity.
Qed.

(** * 9. adjudication with no legal move *)

Theorem adjudicate_spec : forall h b, Inv (b_position h b) -> (b_turn b = 0 \/ b_turn b = 1) ->
  let r := if in_check (brd (abs_pos (b_position h b))) (color_of (b_turn b))
           then mkResult (loss (b_turn b)) Checkmate else mkResult Draw Stalemate in
  adjudicate_no_legal_moves h b = (adjudicate b r, r).
Proof.
  intros h b HI Ht. cbv zeta. unfold adjudicate_no_legal_moves.
  rewrite (is_checked_iff_gen _ _ HI Ht). reflexivity.
Qed.

(** with no legal move: checkmate (loss of the side to move) iff the specification says checkmate, stalemate
    (draw) iff it says stalemate *)
Corollary adjudicate_spec_nomoves : forall h b, wf_b (b_position h b) (b_turn b) = true ->
  (b_turn b = 0 \/ b_turn b = 1) -> legal_moves (b_position h b) (b_turn b) = [] ->
  let sp := abs_pos (b_position h b) in let c := color_of (b_turn b) in
  spec_legal sp c = [] /\
  (checkmate sp c = true /\ snd (adjudicate_no_legal_moves h b) = mkResult (loss (b_turn b)) Checkmate \/
   stalemate sp c = true /\ snd (adjudicate_no_legal_moves h b) = mkResult Draw Stalemate) /\
  b_result (fst (adjudicate_no_legal_moves h b)) = snd (adjudicate_no_legal_moves h b).
Proof.
  intros h b Hwf Ht Hnil. cbv zeta.
  pose proof (wf_inv _ _ (wf_b_WF _ _ Hwf)) as HI.
  destruct (legal_moves_fide _ _ Hwf Ht) as [Hiff _]. rewrite Hnil in Hiff. cbn [map] in Hiff.
  assert (Hsl : spec_legal (abs_pos (b_position h b)) (color_of (b_turn b)) = []).
  { destruct (spec_legal _ _) as [|sm l]; [reflexivity|]. destruct (proj2 (Hiff sm) (or_introl eq_refl)). }
  split; [exact Hsl|].
  rewrite (adjudicate_spec h b HI Ht). cbn [fst snd adjudicate b_result]. split; [|reflexivity].
  unfold checkmate, stalemate. rewrite Hsl.
  destruct (in_check _ _); [left|right]; split; reflexivity.
Qed.

(** * 2. the half-move clock *)

Theorem clock_spec : forall p turn m old, wf_b p turn = true -> (turn = 0 \/ turn = 1) ->
  In m (pseudo_legal_moves p turn) ->
  let sp := abs_pos p in let sm := abs_move m in
  update_noprogress old m = (if is_capture_move sp sm || is_pawn_move sp sm then 0
                             else if old =? max_int then old else old + 1) /\
  (is_capture_move sp sm || is_pawn_move sp sm = negb ((mtype m =? Normal) || is_castle m)).
Proof.
  intros p turn m old Hwf Hc Hin. cbv zeta.
  assert (Hmain : is_capture_move (abs_pos p) (abs_move m) || is_pawn_move (abs_pos p) (abs_move m) =
                  negb ((mtype m =? Normal) || is_castle m)).
  { pose proof (Etype p turn m Hwf Hc Hin) as Et.
    destruct (from_cell p turn m Hwf Hc Hin) as [k [Eat _]].
    pose proof (F_cs p turn m Hwf Hc Hin) as Fc.
    unfold is_capture_move, is_pawn_move. unfold expected_type in Et.
    destruct (is_ep_move (abs_pos p) (abs_move m)) eqn:Eep.
    { rewrite orb_true_r. cbn [orb]. unfold is_castle. rewrite Et. reflexivity. }
    rewrite orb_false_r.
    destruct (is_castling_move (brd (abs_pos p)) (abs_move m)) eqn:Ecs.
    { destruct (Fc eq_refl) as [T [Oc [_ [_ Mv]]]]. rewrite Oc. rewrite T, orb_true_r.
      unfold moving in Mv. destruct (at_ (brd (abs_pos p)) (sfrom (abs_move m))) as [[c' k']|]; [|discriminate].
      inversion Mv; subst. reflexivity. }
    destruct (is_double_step (brd (abs_pos p)) (abs_move m)) eqn:Eds.
    { unfold is_castle. rewrite Et. unfold is_double_step in Eds.
      destruct (at_ (brd (abs_pos p)) (sfrom (abs_move m))) as [[c' []]|]; try discriminate.
      now rewrite orb_true_r. }
    unfold moving in Et. rewrite Eat in Et |- *. unfold is_castle. rewrite Et.
    destruct k; destruct (rank_of (sto (abs_move m)) =? last_rank (color_of turn))%Z;
      destruct (occupied (brd (abs_pos p)) (sto (abs_move m))); reflexivity. }
  split; [|exact Hmain]. rewrite Hmain. unfold update_noprogress.
  destruct ((mtype m =? Normal) || is_castle m); reflexivity.
Qed.

(** the clock of the board saturates at [max_int] (Go: math.MaxInt); the clock of the specification game
    is an unbounded integer.  The refinement relation between the two is [clk_rel]: the board carries the
    specification's clock capped at [max_int]. *)
Definition clk_rel (n : N) (gc : Z) : Prop := Z.of_N n = Z.min gc (Z.of_N max_int).

Lemma clk_rel_le n gc : clk_rel n gc -> n <= max_int.
Proof. unfold clk_rel. lia. Qed.

Lemma clk_rel_start np : np <= max_int -> clk_rel np (Z.of_N np).
Proof. unfold clk_rel. lia. Qed.

(** below saturation the two clocks are equal *)
Lemma clk_rel_exact n gc : clk_rel n gc -> (gc <= Z.of_N max_int)%Z -> Z.of_N n = gc.
Proof. unfold clk_rel. lia. Qed.
Lemma clk_rel_small n gc : clk_rel n gc -> n < max_int -> Z.of_N n = gc.
Proof. unfold clk_rel. lia. Qed.

(** the fifty-move test reads the same on both sides *)
Lemma clk_rel_limit n gc : clk_rel n gc -> (noprogressPlyLimit <=? n) = (100 <=? gc)%Z.
Proof.
  unfold clk_rel, noprogressPlyLimit. intros H. assert (M : (100 <= Z.of_N max_int)%Z) by (vm_compute; discriminate).
  destruct (N.leb_spec 100 n); destruct (Z.leb_spec 100 gc); try reflexivity; lia.
Qed.

(** one step of the saturating counter against one step of the unbounded one *)
Lemma clk_rel_succ n gc : clk_rel n gc -> clk_rel (if n =? max_int then n else n + 1) (gc + 1).
Proof. unfold clk_rel. intros H. destruct (N.eqb_spec n max_int) as [E|E]; lia. Qed.

Corollary clock_spec_Z : forall p turn m old gc, wf_b p turn = true -> (turn = 0 \/ turn = 1) ->
  In m (pseudo_legal_moves p turn) -> clk_rel old gc ->
  clk_rel (update_noprogress old m)
    (if is_capture_move (abs_pos p) (abs_move m) || is_pawn_move (abs_pos p) (abs_move m) then 0 else gc + 1)%Z.
Proof.
  intros p turn m old gc Hwf Hc Hin Hrel. destruct (clock_spec p turn m old Hwf Hc Hin) as [-> _].
  destruct (_ || _); [|now apply clk_rel_succ]. unfold clk_rel. vm_compute. reflexivity.
Qed.

(** no saturation reached: the counter is the plain successor (the statement before the repair) *)
Lemma update_noprogress_small old m : old < max_int ->
  update_noprogress old m = if (mtype m =? Normal) || is_castle m then old + 1 else 0.
Proof.
  intros H. unfold update_noprogress. destruct (N.eqb_spec old max_int) as [E|E]; [lia|reflexivity].
Qed.
Lemma update_noprogress_le old m : old <= max_int -> update_noprogress old m <= max_int.
Proof.
  intros H. unfold update_noprogress. destruct (_ || _); [|lia]. destruct (N.eqb_spec old max_int) as [E|E]; lia.
Qed.

Print Assumptions insufficient_iff.
Print Assumptions adjudicate_spec.
Print Assumptions adjudicate_spec_nomoves.
Print Assumptions clock_spec.
