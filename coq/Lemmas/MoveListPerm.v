(** The heap based MoveList of Model/Search.v returns a permutation of the moves it was given. *)
From Coq Require Import NArith ZArith List Bool Lia Permutation.
From Morlock.Model Require Import Bits Score Attacks Move Search.
Import ListNotations.

(** * upd *)
Lemma upd_length : forall {A} (l : list A) i v, length (upd l i v) = length l.
Proof.
  intros A l. induction l as [|x r IH]; intros i v.
  - reflexivity.
  - destruct i as [|i]; simpl; [reflexivity | now rewrite IH].
Qed.

Lemma upd_nth_perm : forall {A} (r : list A) j x d,
  (j < length r)%nat -> Permutation (nth j r d :: upd r j x) (x :: r).
Proof.
  intros A r. induction r as [|y r IH]; intros j x d Hj.
  - simpl in Hj. lia.
  - destruct j as [|j]; simpl.
    + apply perm_swap.
    + simpl in Hj.
      eapply perm_trans. { apply perm_swap. }
      eapply perm_trans. { apply perm_skip. apply IH. lia. }
      apply perm_swap.
Qed.

Lemma upd_swap_perm : forall {A} (h : list A) i j d,
  (i < length h)%nat -> (j < length h)%nat ->
  Permutation (upd (upd h i (nth j h d)) j (nth i h d)) h.
Proof.
  intros A h. induction h as [|x r IH]; intros i j d Hi Hj.
  - simpl in Hi. lia.
  - simpl in Hi, Hj. destruct i as [|i]; destruct j as [|j]; simpl.
    + apply Permutation_refl.
    + apply upd_nth_perm. lia.
    + apply upd_nth_perm. lia.
    + apply perm_skip. apply IH; lia.
Qed.

(** * swap *)
Lemma swap_length : forall h i j, length (swap h i j) = length h.
Proof. intros h i j. unfold swap. now rewrite !upd_length. Qed.

Lemma swap_perm : forall h i j, (i < length h)%nat -> (j < length h)%nat ->
  Permutation (swap h i j) h.
Proof. intros h i j Hi Hj. unfold swap. now apply upd_swap_perm. Qed.

(** * down *)
Lemma down_perm_len : forall fuel h i n, (n <= length h)%nat ->
  Permutation (down fuel h i n) h /\ length (down fuel h i n) = length h.
Proof.
  induction fuel as [|f IH]; intros h i n Hn.
  - simpl. split; [apply Permutation_refl | reflexivity].
  - cbn [down].
    destruct (n <=? 2 * i + 1)%nat eqn:E1.
    + split; [apply Permutation_refl | reflexivity].
    + apply Nat.leb_gt in E1.
      set (j := if ((2 * i + 1 + 1 <? n)%nat && hless h (2 * i + 1 + 1) (2 * i + 1))
                then (2 * i + 1 + 1)%nat else (2 * i + 1)%nat).
      assert (Hj : (j < n)%nat).
      { subst j. destruct (2 * i + 1 + 1 <? n)%nat eqn:E2; cbn [andb].
        - apply Nat.ltb_lt in E2. destruct (hless h (2 * i + 1 + 1) (2 * i + 1)); lia.
        - lia. }
      destruct (negb (hless h j i)).
      * split; [apply Permutation_refl | reflexivity].
      * destruct (IH (swap h i j) j n) as [P L].
        { rewrite swap_length. exact Hn. }
        split.
        -- eapply perm_trans; [exact P|]. apply swap_perm; lia.
        -- rewrite L. apply swap_length.
Qed.

(** * heap_init *)
Lemma fold_down_perm_len : forall n (is : list nat) h, (n <= length h)%nat ->
  Permutation (fold_left (fun h i => down n h i n) is h) h /\
  length (fold_left (fun h i => down n h i n) is h) = length h.
Proof.
  intros n is. induction is as [|i is IH]; intros h Hn.
  - simpl. split; [apply Permutation_refl | reflexivity].
  - simpl. destruct (down_perm_len n h i n Hn) as [P L].
    destruct (IH (down n h i n)) as [P2 L2]. { rewrite L. exact Hn. }
    split.
    + eapply perm_trans; [exact P2 | exact P].
    + rewrite L2. exact L.
Qed.

Lemma heap_init_perm : forall h, Permutation (heap_init h) h.
Proof. intros h. unfold heap_init. apply fold_down_perm_len. lia. Qed.

Lemma heap_init_length : forall h, length (heap_init h) = length h.
Proof. intros h. unfold heap_init. apply fold_down_perm_len. lia. Qed.

(** * heap_pop *)
Lemma firstn_last_split : forall {A} n (l : list A) d, length l = S n ->
  l = firstn n l ++ [nth n l d].
Proof.
  intros A n. induction n as [|n IH]; intros l d Hl.
  - destruct l as [|x [|y r]]; simpl in Hl; try discriminate. reflexivity.
  - destruct l as [|x r]; simpl in Hl; [discriminate|].
    simpl. f_equal. apply IH. lia.
Qed.

Lemma heap_pop_perm_len : forall h e h', h <> [] -> heap_pop h = (e, h') ->
  Permutation (e :: h') h /\ length h' = (length h - 1)%nat.
Proof.
  intros h e h' Hne E. unfold heap_pop in E.
  set (n := (length h - 1)%nat) in *.
  assert (Hlen : length h = S n).
  { destruct h as [|x r]; [congruence|]. subst n. simpl. lia. }
  set (h1 := down n (swap h 0 n) 0 n) in *.
  destruct (down_perm_len n (swap h 0 n) 0 n) as [P L].
  { rewrite swap_length. lia. }
  fold h1 in P, L. rewrite swap_length in L.
  assert (P1 : Permutation h1 h).
  { eapply perm_trans; [exact P|]. apply swap_perm; lia. }
  injection E as E1 E2. subst e h'.
  split.
  - eapply perm_trans; [apply Permutation_cons_append|].
    rewrite <- (firstn_last_split n h1 delm) by lia. exact P1.
  - rewrite firstn_length. lia.
Qed.

(** * drain *)
Lemma drain_perm : forall fuel h, (length h <= fuel)%nat ->
  Permutation (drain fuel h) (map fst h).
Proof.
  induction fuel as [|f IH]; intros h Hl.
  - destruct h as [|x r]; [apply Permutation_refl | simpl in Hl; lia].
  - cbn [drain]. destruct h as [|x r].
    + apply Permutation_refl.
    + destruct (heap_pop (x :: r)) as [e h'] eqn:E.
      apply heap_pop_perm_len in E; [|discriminate].
      destruct E as [P L]. simpl in L, Hl.
      eapply perm_trans.
      * apply perm_skip. apply IH. lia.
      * change (fst e :: map fst h') with (map fst (e :: h')).
        apply Permutation_map. exact P.
Qed.

(** * movelist *)
Theorem movelist_perm : forall (l : list move) (prio : move -> Z), Permutation (movelist l prio) l.
Proof.
  intros l prio. unfold movelist.
  eapply perm_trans.
  - apply drain_perm. rewrite heap_init_length, map_length. lia.
  - eapply perm_trans.
    + apply Permutation_map. apply heap_init_perm.
    + rewrite map_map. simpl. rewrite map_id. apply Permutation_refl.
Qed.

Lemma movelist_In : forall l prio m, In m (movelist l prio) <-> In m l.
Proof.
  intros l prio m. split; apply Permutation_in.
  - apply movelist_perm.
  - apply Permutation_sym, movelist_perm.
Qed.

Lemma movelist_length : forall l prio, length (movelist l prio) = length l.
Proof. intros l prio. apply Permutation_length, movelist_perm. Qed.

Print Assumptions movelist_perm.
Print Assumptions movelist_In.
Print Assumptions movelist_length.
