(** * The acceptor simulates the driver: the configuration [cfg_of s] computed from a model state is
      reached by the acceptor from [(script, MNone)] on exactly the observable output of [s]. *)
From Coq Require Import List Bool Arith PeanoNat Lia.
From Morlock.Model Require Import Driver.
From Morlock.Lemmas Require Import DriverLemmas1 DriverLemmas2 DriverLemmas3 DriverTrace1 DriverTrace2.
Import ListNotations.

(** ** The monitor state of a model state

    pending go = [active] holds the sequence number of the latest search (not superseded, not yet
    answered); MMustBest = the loop is inside the Halt of `stop` with a pending go, or inside the
    ensureInactive of a book go; MExited = the loop has returned or is on its way out (deferred
    ensureInactive), or is inside the ensureInactive of a command whose handler returns. *)
Definition mon_of (s : dstate) : mon :=
  match pc s with
  | PIdle => if active s =? 0 then MNone else MPending
  | PExited => MExited
  | PHaltInit _ k | PHaltDone _ k =>
      match k with
      | KIdle => MNone
      | KExit => MExited
      | KGo _ => MPending
      | KGoBook => MMustBest
      | KStop => if active s =? 0 then MNone else MMustBest
      | KExpired _ => if active s =? 0 then MNone else MPending
      | KClose => MExited
      end
  end.

Definition cfg_of (s : dstate) : cfg := (inp s, mon_of s).

(** one step of the model = a (possibly empty) path of the acceptor reading the new output *)
Definition sim_step (s s' : dstate) : Prop :=
  exists new, observed s' = observed s ++ new /\ mpath (cfg_of s) new (cfg_of s').

Lemma sim_frame : forall s s', pc s' = pc s -> active s' = active s -> inp s' = inp s ->
  emitted s' = emitted s -> sim_step s s'.
Proof.
  intros s s' E1 E2 E3 E4. exists []. unfold observed, cfg_of, mon_of.
  rewrite E1, E2, E3, E4, app_nil_r. split; auto. apply mp_refl.
Qed.

Lemma observed_cons : forall x l, map untag (rev (x :: l)) = map untag (rev l) ++ [untag x].
Proof. intros x l. simpl. rewrite map_app. reflexivity. Qed.

Ltac mpath_tac :=
  solve [ apply mp_refl
        | eapply mp_eps; [simpl; left; reflexivity | apply mp_refl]
        | eapply mp_obs; [simpl; left; reflexivity | apply mp_refl]
        | eapply mp_eps; [simpl; left; reflexivity | eapply mp_obs; [simpl; left; reflexivity | apply mp_refl]] ].

Ltac sim_tac :=
  first [ exists []; split; [rewrite app_nil_r; reflexivity | mpath_tac]
        | eexists [_]; split; [apply observed_cons | simpl; mpath_tac] ].

Ltac absurd_tac := solve [ exfalso; first [congruence | lia | tauto] ].

Section Sim.
  Variable cap : nat.

  Theorem step_sim : forall s s', InvA s -> InvB s -> step cap s s' -> sim_step s s'.
  Proof.
    intros s s' IA IB [l H]. apply fire_view in H.
    assert (A := a_act s IA). assert (K := a_cont s IA). assert (BA := b_active s IB).
    destruct H; try (apply sim_frame; reflexivity).
    - (* end of input *)
      unfold sim_step, observed, cfg_of, mon_of. rewrite H, H0.
      crush_loop; rewrite ?H0; sim_tac.
    - (* a command *)
      assert (O : out_closed s = false) by (apply closed_false; auto; rewrite H; discriminate).
      unfold sim_step, observed, cfg_of, mon_of. rewrite H, H0.
      destruct c as [| |ok|o| | | | |]; try destruct ok; crush_loop; try discriminate;
        try absurd_tac; try sim_tac;
        try (exfalso; match goal with Hb : active _ <> 0 |- _ => specialize (BA Hb); discriminate BA end).
    - (* an update *)
      assert (O : out_closed s = false) by (apply closed_false; auto; rewrite H; discriminate).
      assert (KU : upd_known (srchs s) u).
      { apply (c_ponder _ _ _ _ _ (b_core s IB)). rewrite H0. now left. }
      assert (NZ : forall q d, u = UInfo q d -> q <> 0).
      { intros q d ->. simpl in KU. destruct KU as [r [F _]].
        destruct (hok_of_find _ _ _ IB F) as [[Z _] [E _]]. congruence. }
      unfold sim_step, observed, cfg_of, mon_of. rewrite H.
      destruct u as [q d|q d|q]; [specialize (NZ q d eq_refl)| |]; crush_loop; try discriminate;
        try absurd_tac; try sim_tac.
    - (* Halt: init closed *)
      exists []. unfold observed, cfg_of, mon_of. rewrite H. simpl. rewrite app_nil_r. split; auto. apply mp_refl.
    - (* Halt returns *)
      assert (O : out_closed s = false) by (apply closed_false; auto; rewrite H; discriminate).
      rewrite H in K.
      unfold sim_step, observed, cfg_of, mon_of. rewrite H.
      destruct k; crush_loop; bool2prop'; try discriminate; try absurd_tac; try sim_tac.
  Qed.

  Variable script : list cmd.

  (** prefix form: whatever the driver has printed so far is a path of the acceptor that ends in the
      configuration of the current state *)
  Theorem obs_prefix_sound : forall s, reachable cap script s ->
    mpath (script, MNone) (observed s) (cfg_of s).
  Proof.
    intros s R. induction R.
    - apply mp_refl.
    - destruct (InvAB_reachable cap script s R) as [IA IB].
      destruct (step_sim s s' IA IB H) as [new [E P]]. rewrite E.
      eapply mpath_trans; eauto.
  Qed.

  Theorem obs_accepted : forall s, reachable cap script s -> pc s = PExited ->
    accepts (script, MNone) (observed s).
  Proof.
    intros s R E. apply (mpath_accepts _ _ (inp s)).
    assert (P := obs_prefix_sound s R). unfold cfg_of, mon_of in P. rewrite E in P. exact P.
  Qed.
End Sim.

Print Assumptions obs_prefix_sound.
