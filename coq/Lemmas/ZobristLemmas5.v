(** ZobristLemmas5 — C07, separation: the xor of two scratch hashes is the xor of the table entries on
    which the two (position, side to move) pairs differ; these entries are pairwise distinct, and there are
    none exactly when placement, castling rights, en-passant target and side to move all agree.  A collision
    between different positions therefore needs a non-empty set of distinct table entries to xor to zero
    (for a table of independent uniform 64-bit words: probability 2^-64; the generator math/rand is not
    modelled). *)
From Coq Require Import NArith List Bool Lia ZifyBool ZifyNat ZifyN Btauto.
From Morlock.Model Require Import Bits Attacks Move Position Abs Zobrist.
From Morlock.Lemmas Require Import PositionLemmas ZobristLemmas1.
Import ListNotations.
Open Scope N_scope.

(** * names of table entries *)

Inductive zkey : Type :=
| KPiece (c p s : N)
| KCastle (c : N)
| KEp (s : N)
| KTurn (t : N).

Definition zval (z : ztable) (k : zkey) : N :=
  match k with
  | KPiece c p s => z_piece z c p s
  | KCastle c => z_castling z c
  | KEp s => z_enpassant z s
  | KTurn t => z_turn z t
  end.

Definition xorl (l : list N) : N := fold_right N.lxor 0 l.

Lemma xorl_app l1 l2 : xorl (l1 ++ l2) = N.lxor (xorl l1) (xorl l2).
Proof. induction l1 as [|x l1 IH]; cbn [app xorl fold_right].
  - now rewrite N.lxor_0_l.
  - fold (xorl (l1 ++ l2)). fold (xorl l1). rewrite IH. now rewrite N.lxor_assoc. Qed.

(** * the entries on which two (position, turn) pairs differ *)

Definition okeys (o : option (N * N)) (s : N) : list zkey :=
  match o with Some (c, p) => [KPiece c p s] | None => [] end.

Definition cell_eqb (a b : option (N * N)) : bool :=
  match a, b with
  | Some (c, p), Some (c', p') => (c =? c') && (p =? p')
  | None, None => true
  | _, _ => false
  end.

Lemma cell_eqb_spec a b : reflect (a = b) (cell_eqb a b).
Proof. destruct a as [[c p]|], b as [[c' p']|]; cbn [cell_eqb]; try (constructor; congruence).
  destruct (N.eqb_spec c c'); destruct (N.eqb_spec p p'); cbn [andb]; constructor; congruence. Qed.

Definition sq_diff (p1 p2 : position) (s : N) : list zkey :=
  if cell_eqb (square p1 s) (square p2 s) then [] else okeys (square p1 s) s ++ okeys (square p2 s) s.

Definition ekeys (e : N) : list zkey := if e =? 0 then [] else [KEp e].

Definition diff_keys (p1 : position) (t1 : N) (p2 : position) (t2 : N) : list zkey :=
  flat_map (sq_diff p1 p2) (seqN 64) ++
  (if castling p1 =? castling p2 then [] else [KCastle (castling p1); KCastle (castling p2)]) ++
  (if enpassant p1 =? enpassant p2 then [] else ekeys (enpassant p1) ++ ekeys (enpassant p2)) ++
  (if t1 =? t2 then [] else [KTurn t1; KTurn t2]).

(** * the xor of two hashes *)

Lemma xorl_okeys z o s : xorl (map (zval z) (okeys o s)) = keyof z o s.
Proof. destruct o as [[c p]|]; cbn; [apply N.lxor_0_r | reflexivity]. Qed.

Lemma xorl_sq_diff z p1 p2 s :
  xorl (map (zval z) (sq_diff p1 p2 s)) = N.lxor (keyof z (square p1 s) s) (keyof z (square p2 s) s).
Proof. unfold sq_diff. destruct (cell_eqb_spec (square p1 s) (square p2 s)) as [E|_].
  - rewrite E, N.lxor_nilpotent. reflexivity.
  - now rewrite map_app, xorl_app, !xorl_okeys. Qed.

Lemma xorl_board z p1 p2 l :
  xorl (map (zval z) (flat_map (sq_diff p1 p2) l)) =
  N.lxor (xfold (fun s => keyof z (square p1 s) s) l 0) (xfold (fun s => keyof z (square p2 s) s) l 0).
Proof. induction l as [|s l IH]; [reflexivity|]. cbn [flat_map]. rewrite map_app, xorl_app, IH, xorl_sq_diff, !xfold_cons.
  xor_norm. Qed.

Lemma xorl_ekeys z e : xorl (map (zval z) (ekeys e)) = epkey z e.
Proof. unfold ekeys, epkey. destruct (e =? 0); cbn; [reflexivity | apply N.lxor_0_r]. Qed.

Theorem zobrist_separation z p1 t1 p2 t2 :
  N.lxor (zhash z p1 t1) (zhash z p2 t2) = xorl (map (zval z) (diff_keys p1 t1 p2 t2)).
Proof. rewrite !zhash_eq. unfold bhash, diff_keys. rewrite !map_app, !xorl_app, xorl_board.
  assert (EC : xorl (map (zval z) (if castling p1 =? castling p2 then [] else [KCastle (castling p1); KCastle (castling p2)]))
               = N.lxor (z_castling z (castling p1)) (z_castling z (castling p2))).
  { destruct (N.eqb_spec (castling p1) (castling p2)) as [->|_]; cbn; [now rewrite N.lxor_nilpotent | now rewrite N.lxor_0_r]. }
  assert (EE : xorl (map (zval z) (if enpassant p1 =? enpassant p2 then [] else ekeys (enpassant p1) ++ ekeys (enpassant p2)))
               = N.lxor (epkey z (enpassant p1)) (epkey z (enpassant p2))).
  { destruct (N.eqb_spec (enpassant p1) (enpassant p2)) as [->|_]; [cbn; now rewrite N.lxor_nilpotent|].
    now rewrite map_app, xorl_app, !xorl_ekeys. }
  assert (ET : xorl (map (zval z) (if t1 =? t2 then [] else [KTurn t1; KTurn t2])) = N.lxor (z_turn z t1) (z_turn z t2)).
  { destruct (N.eqb_spec t1 t2) as [->|_]; cbn; [now rewrite N.lxor_nilpotent | now rewrite N.lxor_0_r]. }
  rewrite EC, EE, ET. xor_norm. Qed.

(** * when there is no difference *)

Definition same_components (p1 : position) (t1 : N) (p2 : position) (t2 : N) : Prop :=
  (forall s, s < 64 -> square p1 s = square p2 s) /\ castling p1 = castling p2 /\ enpassant p1 = enpassant p2 /\ t1 = t2.

Lemma flat_map_nil {A B} (f : A -> list B) l : flat_map f l = [] <-> forall x, In x l -> f x = [].
Proof. induction l as [|a l IH]; cbn [flat_map].
  - split; [intros _ x [] | reflexivity].
  - split.
    + intros H. apply app_eq_nil in H as [H1 H2]. intros x [<-|Hx]; [assumption|]. now apply IH.
    + intros H. rewrite (H a) by now left. cbn [app]. apply IH. intros x Hx. apply H. now right. Qed.

Lemma sq_diff_nil p1 p2 s : sq_diff p1 p2 s = [] <-> square p1 s = square p2 s.
Proof. unfold sq_diff. destruct (cell_eqb_spec (square p1 s) (square p2 s)) as [E|Hn]; [tauto|].
  split; [|contradiction]. intros H. apply app_eq_nil in H as [H1 H2].
  destruct (square p1 s) as [[c p]|]; [discriminate|]. destruct (square p2 s) as [[c p]|]; [discriminate|]. reflexivity. Qed.

Theorem diff_keys_nil p1 t1 p2 t2 : diff_keys p1 t1 p2 t2 = [] <-> same_components p1 t1 p2 t2.
Proof. unfold diff_keys, same_components. split.
  - intros H. apply app_eq_nil in H as [H1 H]. apply app_eq_nil in H as [H2 H]. apply app_eq_nil in H as [H3 H4].
    split; [|split; [|split]].
    + intros s Hs. apply sq_diff_nil. apply (proj1 (flat_map_nil _ _) H1). now apply in_seqN64.
    + destruct (N.eqb_spec (castling p1) (castling p2)); [assumption | discriminate].
    + destruct (N.eqb_spec (enpassant p1) (enpassant p2)) as [|Hn]; [assumption|]. exfalso.
      apply app_eq_nil in H3 as [Ha Hb]. unfold ekeys in Ha, Hb.
      destruct (N.eqb_spec (enpassant p1) 0); [|discriminate]. destruct (N.eqb_spec (enpassant p2) 0); [|discriminate]. congruence.
    + destruct (N.eqb_spec t1 t2); [assumption | discriminate].
  - intros [H1 [H2 [H3 H4]]]. rewrite H2, H3, H4, !N.eqb_refl. cbn [app]. rewrite app_nil_r.
    apply flat_map_nil. intros s Hs. apply sq_diff_nil. apply H1. now apply in_seqN64. Qed.

(** * the entries are pairwise distinct *)

Lemma NoDup_app {A} (l1 l2 : list A) : NoDup l1 -> NoDup l2 -> (forall x, In x l1 -> In x l2 -> False) -> NoDup (l1 ++ l2).
Proof. induction l1 as [|a l1 IH]; intros N1 N2 H; [assumption|]. inversion N1 as [|x xs Hn N1']; subst. cbn [app]. constructor.
  - intros Hin. apply in_app_or in Hin as [Hin|Hin]; [contradiction|]. apply (H a); [now left | assumption].
  - apply IH; auto. intros x H1 H2. apply (H x); [now right | assumption]. Qed.

Lemma NoDup_flat_map {A B} (f : A -> list B) l : NoDup l -> (forall x, In x l -> NoDup (f x)) ->
  (forall x y b, In x l -> In y l -> x <> y -> In b (f x) -> In b (f y) -> False) -> NoDup (flat_map f l).
Proof. induction l as [|a l IH]; intros ND H1 H2; cbn [flat_map]; [constructor|].
  inversion ND as [|x xs Hn ND']; subst. apply NoDup_app.
  - apply H1. now left.
  - apply IH; auto. + intros x Hx. apply H1. now right. + intros x y b Hx Hy. apply H2; now right.
  - intros b Hb Hb'. apply in_flat_map in Hb' as [y [Hy Hby]].
    apply (H2 a y b); [now left | now right | | assumption | assumption]. intros ->. contradiction. Qed.

Lemma in_sq_diff p1 p2 s k : In k (sq_diff p1 p2 s) -> exists c p, k = KPiece c p s.
Proof. unfold sq_diff. destruct (cell_eqb (square p1 s) (square p2 s)); [intros []|]. intros H.
  apply in_app_or in H as [H|H]; [destruct (square p1 s) as [[c p]|] | destruct (square p2 s) as [[c p]|]];
  cbn [okeys In] in H; try contradiction; destruct H as [<-|[]]; eauto. Qed.

Lemma NoDup_sq_diff p1 p2 s : NoDup (sq_diff p1 p2 s).
Proof. unfold sq_diff. destruct (cell_eqb_spec (square p1 s) (square p2 s)) as [E|Hn]; [constructor|].
  destruct (square p1 s) as [[c p]|]; destruct (square p2 s) as [[c' p']|]; cbn [okeys app]; repeat constructor; cbn [In]; try tauto.
  intros [E|[]]. inversion E; subst. congruence. Qed.

Theorem diff_keys_nodup p1 t1 p2 t2 : NoDup (diff_keys p1 t1 p2 t2).
Proof. unfold diff_keys.
  assert (NC : NoDup (if castling p1 =? castling p2 then [] else [KCastle (castling p1); KCastle (castling p2)])).
  { destruct (N.eqb_spec (castling p1) (castling p2)) as [|Hn]; repeat constructor; cbn [In]; try tauto.
    intros [E|[]]. inversion E. congruence. }
  assert (NE : NoDup (if enpassant p1 =? enpassant p2 then [] else ekeys (enpassant p1) ++ ekeys (enpassant p2))).
  { destruct (N.eqb_spec (enpassant p1) (enpassant p2)) as [|Hn]; [constructor|]. unfold ekeys.
    destruct (enpassant p1 =? 0); destruct (enpassant p2 =? 0); cbn [app]; repeat constructor; cbn [In]; try tauto.
    intros [E|[]]. inversion E. congruence. }
  assert (NT : NoDup (if t1 =? t2 then [] else [KTurn t1; KTurn t2])).
  { destruct (N.eqb_spec t1 t2) as [|Hn]; repeat constructor; cbn [In]; try tauto.
    intros [E|[]]. inversion E. congruence. }
  assert (IC : forall k, In k (if castling p1 =? castling p2 then [] else [KCastle (castling p1); KCastle (castling p2)]) ->
                         exists c, k = KCastle c).
  { intros k. destruct (castling p1 =? castling p2); cbn [In]; intros H; [contradiction|]. destruct H as [<-|[<-|[]]]; eauto. }
  assert (IE : forall k, In k (if enpassant p1 =? enpassant p2 then [] else ekeys (enpassant p1) ++ ekeys (enpassant p2)) ->
                         exists e, k = KEp e).
  { intros k. unfold ekeys. destruct (enpassant p1 =? enpassant p2); [intros []|].
    destruct (enpassant p1 =? 0); destruct (enpassant p2 =? 0); cbn [app In]; intros H; try contradiction;
    repeat (destruct H as [<-|H]; [eauto|]); contradiction. }
  assert (IT : forall k, In k (if t1 =? t2 then [] else [KTurn t1; KTurn t2]) -> exists t, k = KTurn t).
  { intros k. destruct (t1 =? t2); cbn [In]; intros H; [contradiction|]. destruct H as [<-|[<-|[]]]; eauto. }
  apply NoDup_app; [|apply NoDup_app; [assumption| |]; [apply NoDup_app; assumption || idtac|]|].
  - apply NoDup_flat_map; [apply NoDup_seqN | intros; apply NoDup_sq_diff |].
    intros x y b _ _ Hne Hx Hy. apply in_sq_diff in Hx as [c [p ->]]. apply in_sq_diff in Hy as [c' [p' E]].
    inversion E. congruence.
  - intros k Hk Ht. apply IE in Hk as [e ->]. apply IT in Ht as [t E]. discriminate.
  - intros k Hk H. apply IC in Hk as [c ->]. apply in_app_or in H as [H|H]; [apply IE in H as [e E] | apply IT in H as [t E]]; discriminate.
  - intros k Hk H. apply in_flat_map in Hk as [s [_ Hk]]. apply in_sq_diff in Hk as [c [p ->]].
    apply in_app_or in H as [H|H]; [apply IC in H as [x E]; discriminate|].
    apply in_app_or in H as [H|H]; [apply IE in H as [e E] | apply IT in H as [t E]]; discriminate. Qed.

(** * consequences *)

(** equal components give equal hashes *)
Corollary zhash_same z p1 t1 p2 t2 : same_components p1 t1 p2 t2 -> zhash z p1 t1 = zhash z p2 t2.
Proof. intros H. apply N.lxor_eq. rewrite zobrist_separation. apply diff_keys_nil in H. now rewrite H. Qed.

(** a collision is exactly a vanishing xor of the (distinct) differing entries *)
Corollary zhash_collision_iff z p1 t1 p2 t2 :
  zhash z p1 t1 = zhash z p2 t2 <-> xorl (map (zval z) (diff_keys p1 t1 p2 t2)) = 0.
Proof. rewrite <- zobrist_separation. split; [intros ->; apply N.lxor_nilpotent | apply N.lxor_eq]. Qed.

(** positions differing in some component collide only if a non-empty list of pairwise distinct table
    entries xors to zero *)
Corollary zhash_collision z p1 t1 p2 t2 :
  ~ same_components p1 t1 p2 t2 -> zhash z p1 t1 = zhash z p2 t2 ->
  exists ks, ks <> [] /\ NoDup ks /\ xorl (map (zval z) ks) = 0.
Proof. intros Hd Hc. exists (diff_keys p1 t1 p2 t2). split; [|split].
  - intros E. apply Hd. now apply diff_keys_nil.
  - apply diff_keys_nodup.
  - now apply zhash_collision_iff. Qed.

Print Assumptions zobrist_separation.
Print Assumptions diff_keys_nil.
Print Assumptions diff_keys_nodup.
Print Assumptions zhash_same.
Print Assumptions zhash_collision.
