(** ZobristLemmas — C07, main statements.
    ZobristLemmas1: hash as a xor-fold, effect of [pos_xor];  ZobristLemmas2: shape of pseudo-legal moves;
    ZobristLemmas3: [zobrist_incremental];  ZobristLemmas4: sequences, non-vacuity, legacy refutation;
    ZobristLemmas5: separation.  This file discharges the closure hypothesis of ZobristLemmas4 with
    [MoveRefines.move_wf] and ties "same components" to equality of positions under the invariant. *)
From Coq Require Import NArith Arith List Bool Lia ZifyBool ZifyNat ZifyN.
From Morlock.Model Require Import Bits Attacks Move Position Abs Zobrist.
From Morlock.Lemmas Require Import PositionLemmas ZobristLemmas1 ZobristLemmas2 ZobristLemmas3 ZobristLemmas4 ZobristLemmas5.
From Morlock.Lemmas Require MoveRefines.
Import ListNotations.
Open Scope N_scope.

Lemma wf_closed_holds : wf_closed.
Proof. intros p t m p' Hwf Hin Hmv. destruct (wf_b_parts p t Hwf) as [HI _].
  exact (MoveRefines.move_wf p t m p' HI Hwf Hin Hmv). Qed.

(** the hash a board maintains along any legal line equals the scratch hash of the position reached *)
Theorem hash_run_scratch z p t ms q u : zt_ok z ->
  wf_b p t = true -> plays p t ms q u -> hash_run z (zhash z p t) p ms = zhash z q u.
Proof. intros Hz. apply hash_run_scratch_closed; [assumption | exact wf_closed_holds]. Qed.

(** two lines reaching the same position with the same side to move carry the same hash *)
Theorem path_independent z p1 t1 ms1 q1 p2 t2 ms2 q2 u : zt_ok z ->
  wf_b p1 t1 = true -> wf_b p2 t2 = true ->
  plays p1 t1 ms1 q1 u -> plays p2 t2 ms2 q2 u -> pos_eqb q1 q2 = true ->
  hash_run z (zhash z p1 t1) p1 ms1 = hash_run z (zhash z p2 t2) p2 ms2.
Proof. intros Hz. apply path_independent_closed; [assumption | exact wf_closed_holds]. Qed.

(** the same, asking only for equal placement, castling rights and en-passant target *)
Theorem path_independent_components z p1 t1 ms1 q1 u1 p2 t2 ms2 q2 u2 : zt_ok z ->
  wf_b p1 t1 = true -> wf_b p2 t2 = true ->
  plays p1 t1 ms1 q1 u1 -> plays p2 t2 ms2 q2 u2 -> same_components q1 u1 q2 u2 ->
  hash_run z (zhash z p1 t1) p1 ms1 = hash_run z (zhash z p2 t2) p2 ms2.
Proof. intros Hz W1 W2 P1 P2 E.
  rewrite (hash_run_scratch z _ _ _ _ _ Hz W1 P1), (hash_run_scratch z _ _ _ _ _ Hz W2 P2). now apply zhash_same. Qed.

(** under the representation invariant, equal components mean equal positions *)
Lemma pget_ext p1 p2 c p : Inv p1 -> Inv p2 -> (forall s, s < 64 -> square p1 s = square p2 s) ->
  (c = 0 \/ c = 1) -> 1 <= p <= 6 -> pget p1 c p = pget p2 c p.
Proof. intros I1 I2 H Hc Hp. apply N.bits_inj. intros i. destruct (N.lt_ge_cases i 64) as [Hi|Hi].
  - apply eq_iff_eq_true. rewrite (pbit_square p1 c p i I1 Hi Hc Hp), (pbit_square p2 c p i I2 Hi Hc Hp), (H i Hi). tauto.
  - rewrite (proj1 (word_bits _) (pget_word p1 c p I1) i Hi), (proj1 (word_bits _) (pget_word p2 c p I2) i Hi). reflexivity. Qed.

Lemma pget_ext0 p1 p2 c : Inv p1 -> Inv p2 -> (forall s, s < 64 -> square p1 s = square p2 s) ->
  (c = 0 \/ c = 1) -> pget p1 c NoPiece = pget p2 c NoPiece.
Proof. intros I1 I2 H Hc. pose proof I1 as [_ [_ [_ [U1 _]]]]. pose proof I2 as [_ [_ [_ [U2 _]]]].
  rewrite (U1 c Hc), (U2 c Hc).
  rewrite !(pget_ext p1 p2 c) by (auto; unfold Pawn, Bishop, Knight, Rook, Queen, King; lia). reflexivity. Qed.

Theorem Inv_ext p1 p2 : Inv p1 -> Inv p2 -> (forall s, s < 64 -> square p1 s = square p2 s) ->
  castling p1 = castling p2 -> enpassant p1 = enpassant p2 -> p1 = p2.
Proof. intros I1 I2 H HC HE.
  assert (G : forall c p, (c = 0 \/ c = 1) -> p <= 6 -> pget p1 c p = pget p2 c p).
  { intros c p Hc Hp. destruct (N.eq_dec p 0) as [->|Hn]; [now apply pget_ext0 | apply pget_ext; auto; lia]. }
  assert (EP : pieces p1 = pieces p2).
  { apply nth_ext with (d := 0) (d' := 0); [now rewrite (Inv_len _ I1), (Inv_len _ I2)|].
    intros n Hn. rewrite (Inv_len _ I1) in Hn.
    assert (E : exists c p, (c = 0 \/ c = 1) /\ p <= 6 /\ n = N.to_nat (pidx c p)).
    { destruct (Nat.lt_ge_cases n 7).
      - exists 0, (N.of_nat n). unfold pidx. split; [now left|]. split; lia.
      - exists 1, (N.of_nat (n - 7)). unfold pidx. split; [now right|]. split; lia. }
    destruct E as [c [p [Hc [Hp ->]]]]. exact (G c p Hc Hp). }
  assert (EA : all_bb p1 = all_bb p2).
  { pose proof I1 as [_ [_ [_ [_ [A1 _]]]]]. pose proof I2 as [_ [_ [_ [_ [A2 _]]]]]. rewrite A1, A2.
    rewrite (G White NoPiece), (G Black NoPiece); auto; unfold NoPiece; lia. }
  assert (ER : rotated_bb p1 = rotated_bb p2).
  { pose proof I1 as [_ [_ [_ [_ [_ [R1 _]]]]]]. pose proof I2 as [_ [_ [_ [_ [_ [R2 _]]]]]]. now rewrite R1, R2, EA. }
  destruct p1 as [a1 a2 a3 a4], p2 as [b1 b2 b3 b4]. cbn [pieces rotated_bb castling enpassant] in *. now subst. Qed.

Corollary same_components_eq p1 t1 p2 t2 : Inv p1 -> Inv p2 ->
  (same_components p1 t1 p2 t2 <-> p1 = p2 /\ t1 = t2).
Proof. intros I1 I2. split.
  - intros [H1 [H2 [H3 H4]]]. split; [now apply Inv_ext | assumption].
  - intros [-> ->]. repeat split; reflexivity. Qed.

(** different legal positions (or sides to move) collide only if a non-empty list of pairwise distinct
    table entries xors to zero *)
Corollary zhash_collision_positions z p1 t1 p2 t2 : Inv p1 -> Inv p2 -> (p1, t1) <> (p2, t2) ->
  zhash z p1 t1 = zhash z p2 t2 ->
  exists ks, ks <> [] /\ NoDup ks /\ xorl (map (zval z) ks) = 0.
Proof. intros I1 I2 Hne. apply zhash_collision. intros H. apply (same_components_eq _ _ _ _ I1 I2) in H as [-> ->]. now apply Hne. Qed.

Print Assumptions zobrist_incremental.
Print Assumptions hash_run_scratch.
Print Assumptions path_independent.
Print Assumptions path_independent_components.
Print Assumptions zobrist_separation.
Print Assumptions Inv_ext.
Print Assumptions zhash_collision_positions.
Print Assumptions zobrist_legacy_refuted.
