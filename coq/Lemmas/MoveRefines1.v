(** C02, part 1: a move is a short list of single-square edits; soundness of edit lists;
    [pos_move] expressed through its edit list; the shape of pseudo-legal moves (definition). *)
From Coq Require Import NArith ZArith List Bool Lia ZifyBool ZifyNat ZifyN.
From Morlock.Model Require Import Bits Attacks Move Position Abs.
From Morlock.Spec Require Import Chess.
From Morlock.Lemmas Require Import PositionLemmas.
Import ListNotations.
Open Scope N_scope.

(* ------------------------------------------------------------------ *)
(** * edits *)

Inductive edit := Rem (sq c p : N) | Add (sq c p : N).

Definition edit_pos (pos : position) (e : edit) : position :=
  match e with Rem sq c p | Add sq c p => pos_xor pos sq c p end.

Definition sqfun := N -> option (N * N).
Definition fupd (f : sqfun) (sq : N) (v : option (N * N)) : sqfun := fun s => if s =? sq then v else f s.

Definition edit_fun (f : sqfun) (e : edit) : sqfun :=
  match e with Rem sq _ _ => fupd f sq None | Add sq c p => fupd f sq (Some (c, p)) end.

Definition edit_ok (f : sqfun) (e : edit) : Prop :=
  match e with
  | Rem sq c p => sq < 64 /\ f sq = Some (c, p)
  | Add sq c p => sq < 64 /\ f sq = None /\ vcol c /\ vpc p
  end.

Fixpoint edits_ok (f : sqfun) (l : list edit) : Prop :=
  match l with [] => True | e :: r => edit_ok f e /\ edits_ok (edit_fun f e) r end.

Definition edit_cell (b : mboard) (e : edit) : mboard :=
  match e with
  | Rem sq _ _ => set_cell b (N.to_nat sq) None
  | Add sq c p => set_cell b (N.to_nat sq) (cell_of c p)
  end.

Lemma edits_ok_ext f g l : (forall s, s < 64 -> f s = g s) -> edits_ok f l -> edits_ok g l.
Proof. revert f g. induction l as [|e r IH]; intros f g Hfg H; [exact I|].
  destruct H as [H1 H2]. split.
  - destruct e as [sq c p|sq c p]; cbn in *.
    + destruct H1 as [Hs Hf]. split; [assumption|]. now rewrite <- Hfg.
    + destruct H1 as [Hs [Hf Hr]]. split; [assumption|]. split; [|assumption]. now rewrite <- Hfg.
  - eapply IH; [|exact H2]. intros s Hs. destruct e as [sq c p|sq c p]; cbn; unfold fupd; rewrite Hfg by assumption; reflexivity. Qed.

Lemma is_empty_square pos sq : Inv pos -> sq < 64 -> (is_empty pos sq = true <-> square pos sq = None).
Proof. intros HI Hsq. rewrite square_none by assumption. rewrite is_empty_tb by assumption.
  destruct (N.testbit (all_bb pos) sq); cbn; split; congruence. Qed.

Theorem edits_sound l : forall pos f, Inv pos -> (forall s, s < 64 -> square pos s = f s) -> edits_ok f l ->
  Inv (fold_left edit_pos l pos) /\
  (forall s, s < 64 -> square (fold_left edit_pos l pos) s = fold_left edit_fun l f s) /\
  brd (abs_pos (fold_left edit_pos l pos)) = fold_left edit_cell l (brd (abs_pos pos)).
Proof. induction l as [|e r IH]; intros pos f HI Hf Hok.
  - cbn. auto.
  - destruct Hok as [H1 H2]. cbn [fold_left].
    assert (G : Inv (edit_pos pos e) /\ (forall s, s < 64 -> square (edit_pos pos e) s = edit_fun f e s) /\
                brd (abs_pos (edit_pos pos e)) = edit_cell (brd (abs_pos pos)) e).
    { destruct e as [sq c p|sq c p]; cbn [edit_pos edit_fun edit_cell edit_ok] in *.
      - destruct H1 as [Hs Hq]. rewrite <- Hf in Hq by assumption.
        destruct (pos_xor_remove _ _ _ _ HI Hs Hq) as [A B]. split; [assumption|]. split.
        + intros s Hlt. rewrite B by assumption. unfold fupd. now rewrite Hf.
        + now apply abs_brd_xor_remove.
      - destruct H1 as [Hs [Hq [Hc Hp]]]. rewrite <- Hf in Hq by assumption.
        apply is_empty_square in Hq; try assumption.
        destruct (pos_xor_add _ _ _ _ HI Hs Hq Hc Hp) as [A B]. split; [assumption|]. split.
        + intros s Hlt. rewrite B by assumption. unfold fupd. now rewrite Hf.
        + now apply abs_brd_xor_add. }
    destruct G as [G1 [G2 G3]]. destruct (IH _ _ G1 G2 H2) as [I1 [I2 I3]].
    split; [assumption|]. split; [assumption|]. now rewrite I3, G3. Qed.

(* ------------------------------------------------------------------ *)
(** * Position.Move as an edit list *)

Definition move_edits (m : move) (turn piece0 : N) : list edit :=
  [Rem (mfrom m) turn piece0] ++
  (if is_capture m then [Rem (mto m) (opponent turn) (mcapture m)] else []) ++
  [Add (mto m) turn (if is_promotion m then mpromo m else piece0)] ++
  (if mtype m =? EnPassant then [Rem (fst (ep_capture m)) (opponent turn) Pawn]
   else if is_castle m then [Rem (fst (fst (castling_rook_move m))) turn Rook; Add (snd (fst (castling_rook_move m))) turn Rook]
   else []).

Definition move_fields (p ret : position) (m : move) : position :=
  mkPos (pieces ret) (rotated_bb ret) (andnot (castling p) (castling_rights_lost m)) (fst (ep_target m)).

Lemma pos_move_edits p m :
  pos_move p m =
  match square p (mfrom m) with
  | None => None
  | Some (turn, piece0) =>
    if negb (mtype m =? EnPassant) && is_castle m &&
       existsb (fun sq => is_attacked p turn sq) (safe_castling_squares turn (mtype m)) then None
    else let ret := move_fields p (fold_left edit_pos (move_edits m turn piece0) p) m in
         if is_checked ret turn then None else Some ret
  end.
Proof. unfold pos_move, move_edits, move_fields. destruct (square p (mfrom m)) as [[turn piece0]|]; [|reflexivity].
  destruct (mtype m =? EnPassant); cbn [negb andb].
  - destruct (is_capture m); reflexivity.
  - destruct (is_castle m); cbn [andb].
    + destruct (existsb (fun sq => is_attacked p turn sq) (safe_castling_squares turn (mtype m))); [reflexivity|].
      destruct (castling_rook_move m) as [[rf rt] ok]. cbn [fst snd].
      destruct (is_capture m); reflexivity.
    + destruct (is_capture m); reflexivity. Qed.

(* ------------------------------------------------------------------ *)
(** * the shape of a pseudo-legal move in a legal position *)

Definition pawn_push_rel (turn from to : N) : bool := if turn =? 0 then to =? from + 8 else from =? to + 8.
Definition pawn_jump_rel (turn from to : N) : bool :=
  if turn =? 0 then (to =? from + 16) && (8 <=? from) && (from <? 16)
  else (from =? to + 16) && (48 <=? from) && (from <? 56).
Definition pawn_cap_rel (turn from to : N) : bool := N.testbit (pawn_captureboard turn (bitmask from)) to.
Definition king_step (from to : N) : bool := N.testbit (king_attackboard from) to.
Definition last_rank_sq (turn to : N) : bool := if turn =? 0 then 56 <=? to else to <? 8.
Definition jump_mid (turn from to : N) : N := if turn =? 0 then from + 8 else to + 8.
Definition home_base (turn : N) : N := if turn =? 0 then 0 else 56.
Definition is_officer (pc : N) : Prop := pc = Queen \/ pc = Rook \/ pc = Knight \/ pc = Bishop.

Inductive move_kind (p : position) (turn : N) (m : move) : Prop :=
| MK_normal : mtype m = Normal -> vpc (mpiece m) -> mpiece m <> Pawn -> square p (mto m) = None ->
    (mpiece m = King -> king_step (mfrom m) (mto m) = true) -> move_kind p turn m
| MK_capture : mtype m = Capture -> vpc (mpiece m) -> square p (mto m) = Some (opponent turn, mcapture m) ->
    mcapture m <> King ->
    (mpiece m = King -> king_step (mfrom m) (mto m) = true) ->
    (mpiece m = Pawn -> pawn_cap_rel turn (mfrom m) (mto m) = true /\ last_rank_sq turn (mto m) = false) ->
    move_kind p turn m
| MK_push : mtype m = Push -> mpiece m = Pawn -> square p (mto m) = None ->
    pawn_push_rel turn (mfrom m) (mto m) = true -> last_rank_sq turn (mto m) = false -> move_kind p turn m
| MK_jump : mtype m = Jump -> mpiece m = Pawn -> square p (mto m) = None ->
    pawn_jump_rel turn (mfrom m) (mto m) = true -> square p (jump_mid turn (mfrom m) (mto m)) = None ->
    move_kind p turn m
| MK_promo : mtype m = Promotion -> mpiece m = Pawn -> square p (mto m) = None ->
    pawn_push_rel turn (mfrom m) (mto m) = true -> last_rank_sq turn (mto m) = true -> is_officer (mpromo m) ->
    move_kind p turn m
| MK_cpromo : mtype m = CapturePromotion -> mpiece m = Pawn ->
    square p (mto m) = Some (opponent turn, mcapture m) -> mcapture m <> King ->
    pawn_cap_rel turn (mfrom m) (mto m) = true -> last_rank_sq turn (mto m) = true -> is_officer (mpromo m) ->
    move_kind p turn m
| MK_ep : mtype m = EnPassant -> mpiece m = Pawn -> mto m = enpassant p -> enpassant p <> 0 ->
    square p (mto m) = None -> pawn_cap_rel turn (mfrom m) (mto m) = true ->
    (if turn =? 0 then (40 <=? mto m) && (mto m <? 48) else (16 <=? mto m) && (mto m <? 24)) = true ->
    square p (if turn =? 0 then mto m - 8 else mto m + 8) = Some (opponent turn, Pawn) ->
    move_kind p turn m
| MK_ksc : mtype m = KingSideCastle -> mpiece m = King -> mfrom m = home_base turn + 3 -> mto m = home_base turn + 1 ->
    square p (home_base turn + 1) = None -> square p (home_base turn + 2) = None ->
    square p (home_base turn) = Some (turn, Rook) -> move_kind p turn m
| MK_qsc : mtype m = QueenSideCastle -> mpiece m = King -> mfrom m = home_base turn + 3 -> mto m = home_base turn + 5 ->
    square p (home_base turn + 5) = None -> square p (home_base turn + 4) = None ->
    square p (home_base turn + 7) = Some (turn, Rook) -> move_kind p turn m.

Record Shape (p : position) (turn : N) (m : move) : Prop := mkShape {
  sh_turn : vcol turn;
  sh_from : mfrom m < 64;
  sh_to : mto m < 64;
  sh_orig : square p (mfrom m) = Some (turn, mpiece m);
  sh_kind : move_kind p turn m
}.

(* ------------------------------------------------------------------ *)
(** * finite-domain helper *)

Lemma forall64 (P : N -> bool) : forallb P (seqN 64) = true -> forall s, s < 64 -> P s = true.
Proof. intros H s Hs. rewrite forallb_forall in H. apply H. now apply in_seqN64. Qed.

Lemma forall64_2 (P : N -> N -> bool) :
  forallb (fun a => forallb (P a) (seqN 64)) (seqN 64) = true -> forall a b, a < 64 -> b < 64 -> P a b = true.
Proof. intros H a b Ha Hb. apply (forall64 (P a)); [|assumption]. now apply (forall64 (fun a => forallb (P a) (seqN 64))). Qed.

Definition ep_cap_sq (to : N) : N :=
  if sq_rank to =? 2 then new_square (sq_file to) 3 else new_square (sq_file to) 4.

Lemma ep_capture_sq m : mtype m = EnPassant -> fst (ep_capture m) = ep_cap_sq (mto m).
Proof. intros H. unfold ep_capture, ep_cap_sq. rewrite H. cbn [N.eqb EnPassant Pos.eqb negb].
  destruct (sq_rank (mto m) =? 2); reflexivity. Qed.

Lemma ep_cap_sq_val turn to : vcol turn -> to < 64 ->
  (if turn =? 0 then (40 <=? to) && (to <? 48) else (16 <=? to) && (to <? 24)) = true ->
  ep_cap_sq to = if turn =? 0 then to - 8 else to + 8.
Proof. intros Ht Hto H.
  assert (G : forallb (fun t => (negb ((40 <=? t) && (t <? 48)) || (ep_cap_sq t =? t - 8)) &&
                               (negb ((16 <=? t) && (t <? 24)) || (ep_cap_sq t =? t + 8))) (seqN 64) = true)
    by (vm_compute; reflexivity).
  pose proof (forall64 _ G to Hto) as G'. cbv beta in G'. apply andb_true_iff in G' as [G1 G2].
  destruct Ht as [->| ->]; cbn [N.eqb] in *; rewrite H in *; cbn [negb orb] in *; now apply N.eqb_eq. Qed.

Lemma opponent_neq turn : vcol turn -> opponent turn <> turn.
Proof. intros [->| ->]; discriminate. Qed.
Lemma opponent_vcol turn : vcol (opponent turn).
Proof. unfold opponent, vcol, White, Black. destruct (turn =? 0); auto. Qed.
Lemma opponent_invol turn : vcol turn -> opponent (opponent turn) = turn.
Proof. intros [->| ->]; reflexivity. Qed.

Lemma officer_vpc pc : is_officer pc -> vpc pc.
Proof. unfold is_officer, vpc, Queen, Rook, Knight, Bishop. lia. Qed.

Ltac fupd_solve :=
  unfold fupd;
  repeat match goal with
  | |- context [?a =? ?b] => destruct (N.eqb_spec a b); try lia; try congruence
  end.

Theorem shape_edits_ok p turn m : Inv p -> Shape p turn m ->
  edits_ok (square p) (move_edits m turn (mpiece m)).
Proof. intros HI [Ht Hf Hto Ho Hk]. destruct m as [ty fr to pc pr cap]. cbn [mtype mfrom mto mpiece mpromo mcapture] in *.
  pose proof (opponent_neq _ Ht) as Hopp. pose proof (opponent_vcol turn) as Hvo.
  assert (Hvp : vpc pc) by (apply square_some in Ho; tauto).
  destruct Hk as [Hty Hvpc Hnp Hd Hks | Hty Hvpc Hd Hnk Hks Hpw | Hty Hpc Hd Hrel Hlr | Hty Hpc Hd Hrel Hmid
                 | Hty Hpc Hd Hrel Hlr Hoff | Hty Hpc Hd Hnk Hrel Hlr Hoff | Hty Hpc Hte Hne Hd Hrel Hrk Hcap
                 | Hty Hpc Hfr Htoe H1 H2 H3 | Hty Hpc Hfr Htoe H1 H2 H3];
  cbn [mtype mfrom mto mpiece mpromo mcapture] in *; subst ty;
  unfold move_edits, is_capture, is_promotion, is_castle; cbn [mtype mfrom mto mpiece mpromo mcapture];
  cbn [N.eqb Pos.eqb Normal Push Jump EnPassant QueenSideCastle KingSideCastle Capture Promotion CapturePromotion orb app].
  - cbn [edits_ok edit_ok edit_fun]. repeat split; try assumption; try apply Hvp. fupd_solve.
  - cbn [edits_ok edit_ok edit_fun]. repeat split; try assumption; try apply Hvp; fupd_solve.
  - cbn [edits_ok edit_ok edit_fun]. repeat split; try assumption; try apply Hvp. fupd_solve.
  - cbn [edits_ok edit_ok edit_fun]. repeat split; try assumption; try apply Hvp. fupd_solve.
  - pose proof (officer_vpc _ Hoff) as Hv. cbn [edits_ok edit_ok edit_fun]. repeat split; try assumption; try apply Hv. fupd_solve.
  - pose proof (officer_vpc _ Hoff) as Hv. cbn [edits_ok edit_ok edit_fun]. repeat split; try assumption; try apply Hv; fupd_solve.
  - rewrite ep_capture_sq by reflexivity. cbn [mto]. rewrite (ep_cap_sq_val turn to Ht Hto Hrk).
    cbn [edits_ok edit_ok edit_fun]. repeat split; try assumption; try apply Hvp.
    + fupd_solve.
    + destruct Ht as [->| ->]; cbn [N.eqb Pos.eqb] in *; lia.
    + destruct Ht as [->| ->]; cbn [N.eqb Pos.eqb] in *; fupd_solve.
  - subst fr to pc. destruct Ht as [->| ->]; cbn [home_base N.eqb Pos.eqb] in *; cbn [castling_rook_move mtype mfrom fst snd];
    cbn [edits_ok edit_ok edit_fun]; unfold vpc, Rook, King; repeat split; try assumption; try lia; try (now left); try (now right); fupd_solve.
  - subst fr to pc. destruct Ht as [->| ->]; cbn [home_base N.eqb Pos.eqb] in *; cbn [castling_rook_move mtype mfrom fst snd];
    cbn [edits_ok edit_ok edit_fun]; unfold vpc, Rook, King; repeat split; try assumption; try lia; try (now left); try (now right); fupd_solve.
Qed.

(* ------------------------------------------------------------------ *)
(** * castling rights: model vs specification (finite check) *)

Definition rights_cond (ca t : N) : bool :=
  negb ((t =? E1) && (is_allowed ca WhiteKingSideCastle || is_allowed ca WhiteQueenSideCastle)) &&
  negb ((t =? E8) && (is_allowed ca BlackKingSideCastle || is_allowed ca BlackQueenSideCastle)).

Lemma rights_eqb_eq a b : rights_eqb a b = true -> a = b.
Proof. destruct a as [a1 a2 a3 a4], b as [b1 b2 b3 b4]. unfold rights_eqb. cbn [wk wq bk bq].
  rewrite !andb_true_iff. intros [[[H1 H2] H3] H4]. apply eqb_prop in H1, H2, H3, H4. now subst. Qed.

Lemma castling_rights_lost_ft m : castling_rights_lost m = castling_rights_lost (mkMove 0 (mfrom m) (mto m) 0 0 0).
Proof. reflexivity. Qed.

Lemma rights_refine ca m : ca < 16 -> mfrom m < 64 -> mto m < 64 -> rights_cond ca (mto m) = true ->
  abs_rights (andnot ca (castling_rights_lost m)) =
  drop_rights (drop_rights (abs_rights ca) (N.to_nat (mfrom m))) (N.to_nat (mto m)).
Proof. intros Hca Hf Ht Hc. rewrite castling_rights_lost_ft.
  assert (G : forallb (fun ca => forallb (fun f => forallb (fun t =>
    negb (rights_cond ca t) ||
    rights_eqb (abs_rights (andnot ca (castling_rights_lost (mkMove 0 f t 0 0 0))))
               (drop_rights (drop_rights (abs_rights ca) (N.to_nat f)) (N.to_nat t))) (seqN 64)) (seqN 64)) (seqN 16) = true)
    by (vm_compute; reflexivity).
  rewrite forallb_forall in G. specialize (G ca). rewrite in_seqN in G. specialize (G ltac:(lia)).
  pose proof (forall64_2 _ G (mfrom m) (mto m) Hf Ht) as G'. cbv beta in G'. rewrite Hc in G'. cbn [negb orb] in G'.
  now apply rights_eqb_eq. Qed.

Lemma andnot_castling_lt ca x : ca < 16 -> andnot ca x < 16.
Proof. intros H. unfold andnot. change 16 with (2 ^ 4). destruct (N.eq_dec (N.ldiff ca x) 0) as [->|Hn]; [reflexivity|].
  apply N.log2_lt_pow2; [lia|]. destruct (N.lt_ge_cases (N.log2 (N.ldiff ca x)) 4) as [L|L]; [assumption|]. exfalso.
  pose proof (N.bit_log2 _ Hn) as T. rewrite N.ldiff_spec in T. apply andb_true_iff in T as [T _].
  destruct (N.eq_dec ca 0) as [->|Hc]; [now rewrite N.bits_0 in T|].
  rewrite N.bits_above_log2 in T; [discriminate|]. eapply N.lt_le_trans; [|exact L].
  apply N.log2_lt_pow2; [lia|]. exact H. Qed.

Lemma ep_target_lt m : fst (ep_target m) < 64.
Proof. unfold ep_target. destruct (negb (mtype m =? Jump)); [reflexivity|].
  assert (G : forall f r, r < 8 -> new_square f r < 64).
  { intros f r Hr. unfold new_square. change 64 with (2 ^ 6). 
    assert (Hb : forall i, 6 <= i -> N.testbit (N.lor (shl64 (N.land r 7) 3) (N.land f 7)) i = false).
    { intros i Hi. rewrite N.lor_spec, tb_shl64, !N.land_spec. change 7 with (N.ones 3).
      rewrite !N.ones_spec_high by lia. now rewrite !andb_false_r. }
    destruct (N.eq_dec (N.lor (shl64 (N.land r 7) 3) (N.land f 7)) 0) as [->|Hn]; [reflexivity|].
    apply N.log2_lt_pow2; [lia|]. destruct (N.lt_ge_cases (N.log2 (N.lor (shl64 (N.land r 7) 3) (N.land f 7))) 6) as [L|L]; [assumption|].
    pose proof (N.bit_log2 _ Hn) as T. rewrite Hb in T by assumption. discriminate. }
  destruct (sq_rank (mto m) =? 3); cbn [fst]; apply G; lia. Qed.

(* ------------------------------------------------------------------ *)
(** * specification-side helpers *)

Lemma apply_move_unfold sp c sm c0 k : at_ (brd sp) (sfrom sm) = Some (c0, k) ->
  apply_move sp c sm =
  let b := brd sp in
  let placed := match spromo sm with Some pk => pk | None => k end in
  let b1 := set_cell (set_cell b (sfrom sm) None) (sto sm) (Some (c, placed)) in
  let isep := match k, eps sp with
              | P, Some e => Nat.eqb e (sto sm) && negb (file_of (sfrom sm) =? file_of (sto sm))%Z && negb (occupied b (sto sm))
              | _, _ => false end in
  let iscas := match k with K => (Z.abs (file_of (sfrom sm) - file_of (sto sm)) =? 2)%Z | _ => false end in
  let isdbl := match k with P => (Z.abs (rank_of (sfrom sm) - rank_of (sto sm)) =? 2)%Z | _ => false end in
  let b2 := if isep then set_cell b1 (sq_of (file_of (sto sm)) (rank_of (sfrom sm))) None else b1 in
  let b3 := if iscas then
              if (file_of (sto sm) <? file_of (sfrom sm))%Z
              then set_cell (set_cell b2 (sq_of 0 (rank_of (sfrom sm))) None) (sq_of 2 (rank_of (sfrom sm))) (Some (c, R))
              else set_cell (set_cell b2 (sq_of 7 (rank_of (sfrom sm))) None) (sq_of 4 (rank_of (sfrom sm))) (Some (c, R))
            else b2 in
  let e := if isdbl then Some (sq_of (file_of (sfrom sm)) ((rank_of (sfrom sm) + rank_of (sto sm)) / 2)) else None in
  mkSpos b3 (drop_rights (drop_rights (rts sp) (sfrom sm)) (sto sm)) e.
Proof. intros H. unfold apply_move, is_ep_move, is_castling_move, is_double_step. rewrite H.
  destruct k; reflexivity. Qed.

Lemma set_cell_twice b s v1 v2 : set_cell (set_cell b s v1) s v2 = set_cell b s v2.
Proof. revert s. induction b as [|x r IH]; intros [|s]; cbn; auto. now rewrite IH. Qed.

Lemma kind_of_vpc pc : vpc pc -> exists k, kind_of pc = Some k /\ code_of_kind k = pc.
Proof. unfold vpc. intros H.
  assert (E : pc = 1 \/ pc = 2 \/ pc = 3 \/ pc = 4 \/ pc = 5 \/ pc = 6) by lia.
  destruct E as [->|[->|[->|[->|[->| ->]]]]]; eexists; split; reflexivity. Qed.

Lemma occupied_abs p s : Inv p -> s < 64 ->
  occupied (brd (abs_pos p)) (N.to_nat s) = match square p s with Some _ => true | None => false end.
Proof. intros HI Hs. unfold occupied. rewrite at_abs_pos by assumption.
  destruct (square p s) as [[c pc]|] eqn:E; [|reflexivity].
  apply square_some in E as [_ [Hp _]]; try assumption. destruct (kind_of_vpc _ Hp) as [k [-> _]]. reflexivity. Qed.

(* ------------------------------------------------------------------ *)
(** * geometry of origin/destination pairs (finite checks over 64 x 64) *)

Definition zfile (s : N) : Z := file_of (N.to_nat s).
Definition zrank (s : N) : Z := rank_of (N.to_nat s).
Definition file_diff2 (f t : N) : bool := (Z.abs (zfile f - zfile t) =? 2)%Z.
Definition rank_diff2 (f t : N) : bool := (Z.abs (zrank f - zrank t) =? 2)%Z.
Definition same_file (f t : N) : bool := (zfile f =? zfile t)%Z.

Definition imp (a b : bool) : bool := negb a || b.
Lemma imp_true a b : imp a b = true -> a = true -> b = true.
Proof. intros H ->. exact H. Qed.

Lemma vcol_in turn : vcol turn -> In turn [0;1].
Proof. intros [->| ->]; cbn; auto. Qed.

Lemma king_step_geom f t : f < 64 -> t < 64 -> king_step f t = true -> file_diff2 f t = false.
Proof. intros Hf Ht.
  assert (G : forallb (fun f => forallb (fun t => imp (king_step f t) (negb (file_diff2 f t))) (seqN 64)) (seqN 64) = true)
    by (vm_compute; reflexivity).
  intros H. pose proof (imp_true _ _ (forall64_2 _ G f t Hf Ht) H) as G'. now apply negb_true_iff in G'. Qed.

Lemma push_geom turn f t : vcol turn -> f < 64 -> t < 64 -> pawn_push_rel turn f t = true ->
  rank_diff2 f t = false /\ same_file f t = true.
Proof. intros Hc Hf Ht.
  assert (G : forallb (fun c => forallb (fun f => forallb (fun t =>
     imp (pawn_push_rel c f t) (negb (rank_diff2 f t) && same_file f t)) (seqN 64)) (seqN 64)) [0;1] = true)
    by (vm_compute; reflexivity).
  intros H. rewrite forallb_forall in G. specialize (G turn). cbn [In] in G. specialize (G (vcol_in _ Hc)).
  pose proof (imp_true _ _ (forall64_2 _ G f t Hf Ht) H) as G'. apply andb_true_iff in G' as [G1 G2].
  apply negb_true_iff in G1. auto. Qed.

Lemma cap_geom turn f t : vcol turn -> f < 64 -> t < 64 -> pawn_cap_rel turn f t = true ->
  rank_diff2 f t = false /\ same_file f t = false /\
  ((if turn =? 0 then 8 <=? t else t <? 56) = true ->
   sq_of (zfile t) (zrank f) = N.to_nat (if turn =? 0 then t - 8 else t + 8)).
Proof. intros Hc Hf Ht.
  assert (G : forallb (fun c => forallb (fun f => forallb (fun t =>
     imp (pawn_cap_rel c f t) (negb (rank_diff2 f t) && negb (same_file f t) &&
        imp (if c =? 0 then 8 <=? t else t <? 56)
            (Nat.eqb (sq_of (zfile t) (zrank f)) (N.to_nat (if c =? 0 then t - 8 else t + 8))))) (seqN 64)) (seqN 64)) [0;1] = true)
    by (vm_compute; reflexivity).
  intros H. rewrite forallb_forall in G. specialize (G turn). cbn [In] in G. specialize (G (vcol_in _ Hc)).
  pose proof (imp_true _ _ (forall64_2 _ G f t Hf Ht) H) as G'. apply andb_true_iff in G' as [G1 G3].
  apply andb_true_iff in G1 as [G1 G2]. apply negb_true_iff in G1, G2. repeat split; auto.
  intros Hr. apply Nat.eqb_eq. exact (imp_true _ _ G3 Hr). Qed.

Definition jump_ep (t : N) : N := if sq_rank t =? 3 then new_square (sq_file t) 2 else new_square (sq_file t) 5.

Lemma jump_geom turn f t : vcol turn -> f < 64 -> t < 64 -> pawn_jump_rel turn f t = true ->
  rank_diff2 f t = true /\ same_file f t = true /\
  sq_of (zfile f) ((zrank f + zrank t) / 2) = N.to_nat (jump_ep t) /\ jump_ep t <> 0 /\
  jump_ep t = jump_mid turn f t.
Proof. intros Hc Hf Ht.
  assert (G : forallb (fun c => forallb (fun f => forallb (fun t =>
     imp (pawn_jump_rel c f t) (rank_diff2 f t && same_file f t &&
        Nat.eqb (sq_of (zfile f) ((zrank f + zrank t) / 2)) (N.to_nat (jump_ep t)) && negb (jump_ep t =? 0) &&
        (jump_ep t =? jump_mid c f t))) (seqN 64)) (seqN 64)) [0;1] = true)
    by (vm_compute; reflexivity).
  intros H. rewrite forallb_forall in G. specialize (G turn). cbn [In] in G. specialize (G (vcol_in _ Hc)).
  pose proof (imp_true _ _ (forall64_2 _ G f t Hf Ht) H) as G'.
  apply andb_true_iff in G' as [G' G5]. apply andb_true_iff in G' as [G' G4]. apply andb_true_iff in G' as [G' G3].
  apply andb_true_iff in G' as [G1 G2]. apply negb_true_iff in G4. apply N.eqb_neq in G4. apply N.eqb_eq in G5.
  apply Nat.eqb_eq in G3. auto. Qed.

Lemma ep_target_jump m : mtype m = Jump -> fst (ep_target m) = jump_ep (mto m).
Proof. intros H. unfold ep_target, jump_ep. rewrite H. cbn [N.eqb Jump Pos.eqb negb].
  destruct (sq_rank (mto m) =? 3); reflexivity. Qed.

Lemma ep_target_nojump m : mtype m <> Jump -> fst (ep_target m) = 0.
Proof. intros H. unfold ep_target. destruct (N.eqb_spec (mtype m) Jump); [contradiction|reflexivity]. Qed.
