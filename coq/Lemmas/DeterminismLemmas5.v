(** C18, part 5: what [zrel] says in terms of heap nodes ([zrel_spelled_out]); other boards living on the heap
    a search works on are not disturbed ([search_passive_unchanged]); the one clause that is NOT a theorem as
    it stands - repeating a search on the very board the first search handed back - with its counterexample
    and the part that holds. *)
From Coq Require Import NArith ZArith List Bool Lia.
From Morlock.Model Require Import Bits Score Attacks Move Position Abs Zobrist Board Search TT SearchBoard.
From Morlock.Spec Require Import Chess Game.
From Morlock.Lemmas Require Import PositionLemmas BoardHeap1 BoardHeap2 BoardHeap3 GameLemmas3 GameLemmas4 GameLemmas6
  SearchBoardInst1 SearchBoardInst4 SearchBoardInst5
  DeterminismLemmas1 DeterminismLemmas2 DeterminismLemmas3 DeterminismLemmas4.
Import ListNotations.
Open Scope N_scope.

(** * 1. the relation, node by node *)
Lemma map_eq_nth {A B} (f : A -> B) l1 l2 j a b :
  map f l1 = map f l2 -> nth_error l1 j = Some a -> nth_error l2 j = Some b -> f a = f b.
Proof.
  intros E H1 H2. pose proof (f_equal (fun l => nth_error l j) E) as H. cbn beta in H.
  rewrite !nth_error_map, H1, H2 in H. cbn in H. now inversion H.
Qed.

Theorem zrel_spelled_out z1 z2 h1 b1 h2 b2 : zrel z1 z2 (h1, b1) (h2, b2) ->
  let c1 := chain h1 (b_current b1) in let c2 := chain h2 (b_current b2) in
  wf h1 b1 /\ wf h2 b2 /\
  length c1 = length c2 /\
  (forall j n1 n2, nth_error c1 j = Some n1 -> nth_error c2 j = Some n2 ->
     let t := turn_at (b_turn b1) j in
     n_pos n1 = n_pos n2 /\ n_noprogress n1 = n_noprogress n2 /\
     (t = 0 \/ t = 1) /\ wf_b (n_pos n1) t = true /\
     n_hash n1 = zhash z1 (n_pos n1) t /\ n_hash n2 = zhash z2 (n_pos n2) t) /\
  map n_next (tl c1) = map n_next (tl c2) /\
  b_turn b1 = b_turn b2 /\ b_ply b1 = b_ply b2 /\ b_moves b1 = b_moves b2 /\
  b_castled_w b1 = b_castled_w b2 /\ b_castled_b b1 = b_castled_b b2 /\ b_result b1 = b_result b2 /\
  (forall k, rep_get (b_reps b1) k = Z.of_nat (length (filter (fun n => n_hash n =? k) c1))) /\
  (forall k, rep_get (b_reps b2) k = Z.of_nat (length (filter (fun n => n_hash n =? k) c2))).
Proof.
  intros ((W1 & Hh1 & Hr1) & (W2 & Hh2 & Hr2) & Hnh). cbv zeta. cbn [fst snd] in W1, W2.
  destruct (nohash_fields _ _ Hnh) as (Hd & Hn & Ht & Hcw & Hcb & Hply & Hmv & Hres).
  cbn [gabs fst snd abs a_data a_nexts a_turn a_cw a_cb a_ply a_moves a_result a_reps] in *.
  unfold strip, data in Hd. rewrite !map_map in Hd.
  split; [exact W1|]. split; [exact W2|]. split.
  { pose proof (f_equal (@length _) Hd) as L. now rewrite !map_length in L. }
  split.
  { intros j n1 n2 J1 J2.
    pose proof (map_eq_nth _ _ _ j n1 n2 Hd J1 J2) as E. cbn in E.
    pose proof (f_equal fst E) as Ep. pose proof (f_equal snd E) as Ec. cbn [fst snd] in Ep, Ec. clear E.
    assert (D1 : nth_error (data h1 b1) j = Some (ndata n1)) by (unfold data; now rewrite nth_error_map, J1).
    assert (D2 : nth_error (data h2 b2) j = Some (ndata n2)) by (unfold data; now rewrite nth_error_map, J2).
    destruct (hash_consistent_list z1 _ _ Hh1 j _ D1) as (V1 & Wf1 & H1).
    destruct (hash_consistent_list z2 _ _ Hh2 j _ D2) as (_ & _ & H2).
    unfold ndata, epos, ehash in *. cbn [fst snd] in *. rewrite <- Ht in H2.
    split; [exact Ep|]. split; [exact Ec|]. split; [exact V1|]. split; [exact Wf1|]. split; [exact H1|exact H2]. }
  split; [exact Hn|]. split; [exact Ht|]. split; [exact Hply|]. split; [exact Hmv|].
  split; [exact Hcw|]. split; [exact Hcb|]. split; [exact Hres|]. split.
  - intros k. rewrite Hr1. unfold count_hash, data. now rewrite filter_map_len.
  - intros k. rewrite Hr2. unfold count_hash, data. now rewrite filter_map_len.
Qed.

(** * 2. boards sharing the heap with the board being searched *)
Theorem search_passive_unchanged z explore qexplore leaf cancel use_q qfuel h a q t ponder depth low high st nodes sc pv halted :
  wf h a -> wf h q -> ~ In (b_current a) (cids h (b_current q)) ->
  search_board z explore qexplore leaf cancel use_q qfuel (h, a) t ponder depth low high = (st, nodes, sc, pv, halted) ->
  let h' := fst (s_g gboard ttv st) in wf h' q /\ abs h' q = abs h q /\ beq h' q h q.
Proof.
  intros Ha Hq Hnot E. cbv zeta. pose proof Ha as (Hw & Hc & _).
  assert (Hinv0 : finv h (b_current a) h a 0).
  { unfold finv. split; [exact Ha|]. split; [lia|]. split; [auto|]. split; [left; reflexivity|]. split.
    - intros i j Hi Hp. rewrite hnode_beyond in Hp by auto. discriminate.
    - reflexivity. }
  pose proof (search_frame z explore qexplore leaf cancel use_q qfuel h (b_current a) (h, a) t ponder depth low high
                st nodes sc pv halted 0 Hinv0 E) as HF.
  destruct (finv_passive h (b_current a) _ _ _ q Hw HF Hq Hnot) as (Wq & Aq).
  split; [exact Wq|]. split; [exact Aq|]. apply view_eq_abs; auto. rewrite Aq. apply aeq_refl.
Qed.

(** * 3. repeating a search on the board the first search handed back *)

(** Without further hypotheses this is false: a search writes to the result field of the board it is given
    (PopMove resets it to Undecided, AdjudicateNoLegalMoves sets it), and PushMove and the root of the search
    read it.  On a board that was (wrongly) adjudicated "checkmate" although the side to move has a move, the
    first search finds every push refused, reports stalemate and leaves the result Draw/Stalemate behind; the
    second search clears that draw at the root and finds the mate in one. *)
Definition run_kr (g : gboard) := search_board z0 full_exploration captures_only material never false 0 g NoTT [] 2 neginf_score inf_score.
Definition returned (r : sst gboard ttv * N * score * list move * bool) : gboard := let '(st, _, _, _, _) := r in s_g gboard ttv st.

Example returned_board_needs_rootflag :
  answer (run_kr kr_lied) = (1, zero_score, [], false) /\
  b_result (snd (returned (run_kr kr_lied))) = mkResult Draw Stalemate /\
  answer (run_kr (returned (run_kr kr_lied))) = (38, mate_in 1, [ra8], false).
Proof. vm_compute. auto. Qed.

Lemma kr_lied_ZOK : ZOK z0 kr_lied.
Proof.
  destruct (new_board z0 [] kr_pos White 0 1) as [h b] eqn:E.
  pose proof (Game_ZOK _ _ _ _ (proj1 (Game_new z0 kr_pos White 0 1 h b kr_pos_wf (or_introl eq_refl) ltac:(vm_compute; discriminate) E))) as [Hwf HI].
  unfold kr_lied, kr_board. rewrite E. cbn [fst snd] in *. split; [apply wf_adjudicate; exact Hwf|exact HI].
Qed.

(** the statement with the hypotheses that exclude such boards ([BAt]: castled flags consistent with the
    castling rights; [RootFlag]: a "no legal moves" result only where there are none), for the policies of
    the engine: NOT proved here.  What is missing is a one-board invariant through [ab] that tracks the result
    field (it ends as the entry result, as Undecided after a pop, or as the adjudication of a node without
    legal moves) together with the restoration of the castled flags by pop-after-push ([BAt], available from
    SearchBoardInst1 only under the side conditions of [board_search_spec]); with these the returned board is
    related to the entry board up to a result field that pushes and draw tests cannot tell apart. *)
Definition search_repeat_on_returned_board_statement : Prop :=
  forall z, zt_ok z -> forall cancel use_q qfuel g p ponder depth low high st nodes sc pv halted,
    ZOK z g -> BAt p g -> RootFlag p g ->
    search_board z full_exploration captures_only material cancel use_q qfuel g NoTT ponder depth low high
      = (st, nodes, sc, pv, halted) ->
    answer (search_board z full_exploration captures_only material cancel use_q qfuel (s_g gboard ttv st) NoTT ponder depth low high)
      = (nodes, sc, pv, halted).

(** what holds: the returned board is a board of the same game at the same node, so every theorem about such
    boards applies to it, and any board related to it (in particular itself, a fork of it, a replay of its
    game under another key table) gives the answer it gives *)
Theorem search_repeat_on_returned_board_partial z (Hz : zt_ok z) explore qexplore leaf cancel use_q qfuel
  (Hex : explore_blind z z explore) (Hqex : explore_blind z z qexplore) (Hleaf : leaf_blind z z leaf)
  g ponder depth low high st nodes sc pv halted :
  ZOK z g ->
  search_board z explore qexplore leaf cancel use_q qfuel g NoTT ponder depth low high = (st, nodes, sc, pv, halted) ->
  let g' := s_g gboard ttv st in
  ZOK z g' /\ node_of g' = node_of g /\
  forall g'' ponder' depth' low' high', zrel z z g' g'' ->
    answer (search_board z explore qexplore leaf cancel use_q qfuel g'' NoTT ponder' depth' low' high') =
    answer (search_board z explore qexplore leaf cancel use_q qfuel g' NoTT ponder' depth' low' high').
Proof.
  intros HZ E. cbv zeta.
  destruct (search_hands_back z Hz explore qexplore leaf cancel use_q qfuel Hex Hqex Hleaf g ponder depth low high
              st nodes sc pv halted HZ E) as (A & B & _).
  split; [exact A|]. split; [exact B|].
  intros g'' ponder' depth' low' high' K. symmetry.
  apply (search_function_of_state z Hz explore qexplore leaf cancel use_q qfuel Hex Hqex Hleaf). exact K.
Qed.

Print Assumptions zrel_spelled_out.
Print Assumptions search_passive_unchanged.
Print Assumptions returned_board_needs_rootflag.
Print Assumptions search_repeat_on_returned_board_partial.
