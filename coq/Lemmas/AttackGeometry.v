(** AttackGeometry — summary of the attack-board geometry theorems (C06 core).
    The proofs live in AttackGeometry1 (rotation = bit permutation, lockstep), AttackGeometry2 (sliders)
    and AttackGeometry3 (king, knight, pawn captures); this file restates the main theorems. *)
From Coq Require Import NArith ZArith List Bool.
From Morlock.Model Require Import Bits Attacks.
From Morlock.Spec Require Import Chess.
From Morlock.Lemmas Require Export AttackGeometry1 AttackGeometry2 AttackGeometry3.
Import ListNotations.
Open Scope N_scope.

Module Statements.
  Definition occ_of (occ : N) : nat -> bool := fun s => N.testbit occ (N.of_nat s).

  Theorem rook_attack_geometric : forall occ sq t, sq < 64 ->
    N.testbit (rook_attackboard (new_rotated occ) sq) t =
    (t <? 64) && mem_nat (N.to_nat t) (attacks_from (occ_of occ) Wh R (N.to_nat sq)).
  Proof. exact AttackGeometry2.rook_attack_geometric. Qed.

  Theorem bishop_attack_geometric : forall occ sq t, sq < 64 ->
    N.testbit (bishop_attackboard (new_rotated occ) sq) t =
    (t <? 64) && mem_nat (N.to_nat t) (attacks_from (occ_of occ) Wh Bi (N.to_nat sq)).
  Proof. exact AttackGeometry2.bishop_attack_geometric. Qed.

  Theorem queen_attack_geometric : forall occ sq t, sq < 64 ->
    N.testbit (queen_attackboard (new_rotated occ) sq) t =
    (t <? 64) && mem_nat (N.to_nat t) (attacks_from (occ_of occ) Wh Q (N.to_nat sq)).
  Proof. exact AttackGeometry2.queen_attack_geometric. Qed.

  Theorem king_attack_geometric : forall sq t, sq < 64 ->
    N.testbit (king_attackboard sq) t =
    (t <? 64) && mem_nat (N.to_nat t) (attacks_from (fun _ => false) Wh K (N.to_nat sq)).
  Proof. exact AttackGeometry3.king_attack_geometric. Qed.

  Theorem knight_attack_geometric : forall sq t, sq < 64 ->
    N.testbit (knight_attackboard sq) t =
    (t <? 64) && mem_nat (N.to_nat t) (attacks_from (fun _ => false) Wh Kn (N.to_nat sq)).
  Proof. exact AttackGeometry3.knight_attack_geometric. Qed.

  Theorem pawn_capture_geometric : forall c pawns t, (c = 0 \/ c = 1) -> pawns < 2 ^ 64 ->
    N.testbit (pawn_captureboard c pawns) t =
    (t <? 64) && existsb (fun s => N.testbit pawns (N.of_nat s) &&
       mem_nat (N.to_nat t) (attacks_from (fun _ => false) (if c =? 0 then Wh else Bl) P s)) all_squares.
  Proof. exact AttackGeometry3.pawn_capture_geometric. Qed.

  Theorem rotated_xor_lockstep : forall occ sq, sq < 64 ->
    rot_xor (new_rotated occ) sq = new_rotated (N.lxor occ (bitmask sq)).
  Proof. exact AttackGeometry1.rotated_xor_lockstep. Qed.

  Theorem new_rotated_r0 : forall occ, r0 (new_rotated occ) = mask64 occ.
  Proof. exact AttackGeometry1.new_rotated_r0. Qed.
End Statements.

Print Assumptions Statements.rook_attack_geometric.
Print Assumptions Statements.bishop_attack_geometric.
Print Assumptions Statements.queen_attack_geometric.
Print Assumptions Statements.king_attack_geometric.
Print Assumptions Statements.knight_attack_geometric.
Print Assumptions Statements.pawn_capture_geometric.
Print Assumptions Statements.rotated_xor_lockstep.
Print Assumptions Statements.new_rotated_r0.
