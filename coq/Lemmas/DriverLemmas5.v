(** * Driver transition system: answer bookkeeping invariant [InvC] and
      exactly_one_bestmove (C04) as a quiescence property. *)
From Coq Require Import List Bool Arith PeanoNat Lia.
From Morlock.Model Require Import Driver.
From Morlock.Lemmas Require Import DriverLemmas1 DriverLemmas2 DriverLemmas3.
Import ListNotations.

(** a finished forwarder of a non-infinite search has posted its `done` update, which is still
    queued unless [active] has already moved away from the search *)
Definition c5P (l : list srch) (p : list upd) (a : nat) : Prop :=
  forall r, In r l -> h_fwd r = FFin -> g_inf (h_opt r) = false ->
    (exists d, In (UDone (h_id r) d) p) \/ a <> h_id r.

Lemma c5_weaken : forall l p p' a, c5P l p a -> (forall u, In u p -> In u p') -> c5P l p' a.
Proof.
  intros l p p' a H Hp r Hr Hf Hi. destruct (H r Hr Hf Hi) as [[d Hd]|Hn]; auto.
  left. exists d. auto.
Qed.

Lemma c5_zero : forall l p', (forall r, In r l -> h_id r <> 0) -> c5P l p' 0.
Proof. intros l p' H r Hr _ _. right. apply H in Hr. auto. Qed.

Lemma c5_new : forall l p' n o, (forall r, In r l -> h_id r <= n) -> c5P (new_srch (S n) o :: l) p' (S n).
Proof.
  intros l p' n o H r [<-|Hr] Hf Hi; [discriminate|]. right. apply H in Hr. lia.
Qed.

Lemma c5_fresh : forall l p' n, (forall r, In r l -> h_id r <= n) -> c5P l p' (S n).
Proof. intros l p' n H r Hr _ _. right. apply H in Hr. lia. Qed.

Lemma c5_pop : forall l u rest a, c5P l (u :: rest) a ->
  upd_seq u <> a \/ (forall q d, u <> UDone q d) -> c5P l rest a.
Proof.
  intros l u rest a H Hu r Hr Hf Hi. destruct (H r Hr Hf Hi) as [[d [Hd|Hd]]|Hn]; auto.
  - subst u. destruct Hu as [Hu|Hu].
    + right. simpl in Hu. auto.
    + exfalso. eapply Hu; eauto.
  - left; eauto.
Qed.

Lemma c5_upd : forall l p p' a h f,
  c5P l p a -> (forall r, h_id (f r) = h_id r /\ h_opt (f r) = h_opt r) ->
  (forall r, In r l -> h_id r = h -> h_fwd (f r) = FFin -> g_inf (h_opt r) = false ->
     h_fwd r = FFin \/ (exists d, In (UDone h d) p') \/ a <> h) ->
  (forall u, In u p -> In u p') -> c5P (upd_h h f l) p' a.
Proof.
  intros l p p' a h f H Hf Hnew Hp r' Hr' Hfin Hinf.
  apply In_upd_h in Hr'. destruct Hr' as [r [Hr [[Hne ->]|[He ->]]]].
  - destruct (H r Hr Hfin Hinf) as [[d Hd]|Hn]; auto. left; exists d; auto.
  - destruct (Hf r) as [F1 F2]. rewrite F1. rewrite F2 in Hinf.
    destruct (Hnew r Hr He Hfin Hinf) as [X|[X|X]].
    + destruct (H r Hr X Hinf) as [[d Hd]|Hn]; auto. left; exists d; auto.
    + left. rewrite He. exact X.
    + right. rewrite He. exact X.
Qed.

Record InvC (s : dstate) : Prop := {
  c_answer : g_super s = false -> searches s <> 0 ->
             active s = searches s \/ exists d, In (LBest (searches s) d) (emitted s);
  c_stop : g_stopped s = true ->
           active s = 0 \/ exists h, pc s = PHaltInit h KStop \/ pc s = PHaltDone h KStop;
  c_fin : c5P (srchs s) (ponder s) (active s);
  c_exit : pc s = PExited -> active s = 0 /\ g_super s = true;
  c_close : match pc s with PHaltInit _ KClose | PHaltDone _ KClose => g_super s = true | _ => True end
}.

Lemma ids_nz : forall s, InvB s -> forall r, In r (srchs s) -> h_id r <> 0.
Proof. intros s [C _ _] r Hr. destruct (c_hok _ _ _ _ _ C r Hr) as [[H _] _]. exact H. Qed.

Lemma ids_le : forall s, InvB s -> forall r, In r (srchs s) -> h_id r <= searches s.
Proof. intros s [C _ _] r Hr. destruct (c_hok _ _ _ _ _ C r Hr) as [_ H]. exact H. Qed.

Lemma InvC_frame_upd : forall s s' h f, InvC s ->
  pc s' = pc s -> searches s' = searches s -> active s' = active s -> emitted s' = emitted s ->
  g_super s' = g_super s -> g_stopped s' = g_stopped s ->
  srchs s' = upd_h h f (srchs s) ->
  (forall r, h_id (f r) = h_id r /\ h_opt (f r) = h_opt r) ->
  (forall r, In r (srchs s) -> h_id r = h -> h_fwd (f r) = FFin -> g_inf (h_opt r) = false ->
     h_fwd r = FFin \/ (exists d, In (UDone h d) (ponder s')) \/ active s <> h) ->
  (forall u, In u (ponder s) -> In u (ponder s')) -> InvC s'.
Proof.
  intros s s' h f [C1 C2 C3 C4 C5] E1 E2 E3 E4 E5 E6 E7 Hf Hnew Hp.
  constructor; rewrite ?E1, ?E2, ?E3, ?E4, ?E5, ?E6, ?E7; auto.
  eapply c5_upd; eauto.
Qed.

Lemma InvC_frame_post : forall s s', InvC s ->
  pc s' = pc s -> searches s' = searches s -> active s' = active s -> emitted s' = emitted s ->
  g_super s' = g_super s -> g_stopped s' = g_stopped s -> srchs s' = srchs s ->
  (forall u, In u (ponder s) -> In u (ponder s')) -> InvC s'.
Proof.
  intros s s' [C1 C2 C3 C4 C5] E1 E2 E3 E4 E5 E6 E7 Hp.
  constructor; rewrite ?E1, ?E2, ?E3, ?E4, ?E5, ?E6, ?E7; auto.
  eapply c5_weaken; eauto.
Qed.

Lemma same_rec : forall s h r r0, InvB s -> find_h h (srchs s) = Some r -> In r0 (srchs s) -> h_id r0 = h -> r0 = r.
Proof.
  intros s h r r0 [C _ _] F Hin He.
  assert (X := In_find_h (srchs s) r0 (c_nodup _ _ _ _ _ C) Hin). rewrite He in X. congruence.
Qed.

Lemma iter_keeps : forall k b r, h_id (srch_iter k b r) = h_id r /\ h_opt (srch_iter k b r) = h_opt r
  /\ h_fwd (srch_iter k b r) = h_fwd r.
Proof. intros k b r. unfold srch_iter, srch_exit. destruct (b || h_quit r); simpl; auto. Qed.

Section InvCStep.
  Variable cap : nat.

  Ltac c5tac C3 IB :=
    first
    [ apply c5_zero; apply (ids_nz _ IB)
    | match goal with Hz : active ?s = 0 |- c5P _ _ (active ?s) => rewrite Hz; apply c5_zero; apply (ids_nz _ IB) end
    | apply c5_new; apply (ids_le _ IB)
    | apply c5_fresh; apply (ids_le _ IB)
    | exact C3
    | eapply c5_pop; [exact C3 | first [left; simpl; congruence | left; simpl; lia | right; intros; discriminate]]
    | eapply c5_weaken; [exact C3 | intros ? ?; auto ] ].

  Ltac c1tac C1 :=
    let Hs := fresh "Hs" in let Hn := fresh "Hn" in
    intros Hs Hn; simpl in *; try discriminate;
    first [ left; reflexivity | left; lia
          | right; eexists; left; reflexivity
          | right; eexists; left; f_equal; lia
          | destruct (C1 Hs Hn) as [?|[? ?]]; [left; lia | right; eexists; simpl; eauto] ].

  Ltac finC C1 C2 C3 C4 IB BA :=
    constructor; simpl;
    repeat match goal with Hp : pc _ = _ |- _ => rewrite Hp end;
    [ try solve [c1tac C1]
    | try solve [ exact C2
                | let X := fresh "X" in let Z := fresh "Z" in
                  intros X; destruct (C2 X) as [Z|[? [Z|Z]]]; [left; exact Z | discriminate Z | discriminate Z]
                | intros; try discriminate;
                  first [ left; reflexivity | left; lia | solve [right; eexists; eauto] | solve [auto]
                        | left; match goal with |- active ?x = 0 =>
                            destruct (Nat.eq_dec (active x) 0) as [Z|Z]; [exact Z | apply BA in Z; discriminate] end ] ]
    | try solve [c5tac C3 IB]
    | try solve [ intros; try discriminate; auto; split; auto; lia ]
    | try solve [ exact I | reflexivity | assumption ] ].

  Theorem InvC_step : forall s s', InvA s -> InvB s -> InvC s -> step cap s s' -> InvC s'.
  Proof.
    intros s s' IA IB IC [l H]. apply fire_view in H.
    assert (A := a_act s IA). assert (K := a_cont s IA). assert (BA := b_active s IB).
    destruct IC as [C1 C2 C3 C4 C5].
    destruct H.
    - (* eof *) rewrite H in *. crush_loop; finC C1 C2 C3 C4 IB BA.
    - (* command *)
      assert (O : out_closed s = false) by (apply closed_false; auto; rewrite H; discriminate).
      rewrite H in *.
      destruct c as [| |ok|o| | | | |]; try destruct ok; crush_loop; bool2prop'; try discriminate;
        finC C1 C2 C3 C4 IB BA.
    - (* update *)
      assert (O : out_closed s = false) by (apply closed_false; auto; rewrite H; discriminate).
      rewrite H in *. rewrite H0 in C3.
      destruct u; crush_loop; bool2prop'; try discriminate; subst; finC C1 C2 C3 C4 IB BA.
    - (* Halt: init closed *)
      constructor; simpl; auto.
      + intros X. destruct (C2 X) as [Z|[h' [Z|Z]]]; auto; rewrite H in Z; inversion Z; subst.
        right. exists h'. auto.
      + eapply c5_upd; eauto; intros r0 _ _ Hf _; left; exact Hf.
      + discriminate.
      + rewrite H in C5. exact C5.
    - (* Halt returns *)
      assert (O : out_closed s = false) by (apply closed_false; auto; rewrite H; discriminate).
      rewrite H in *.
      destruct k; crush_loop; bool2prop'; try discriminate; subst; finC C1 C2 C3 C4 IB BA.
    - (* iter *)
      apply (InvC_frame_upd s _ h (srch_iter k stop) (Build_InvC s C1 C2 C3 C4 C5)); try reflexivity.
      + intros r0. destruct (iter_keeps k stop r0) as [X [Y Z]]. auto.
      + intros r0 _ _ Hf _. left. destruct (iter_keeps k stop r0) as [X [Y Z]]. congruence.
      + auto.
    - apply (InvC_frame_upd s _ h srch_exit (Build_InvC s C1 C2 C3 C4 C5)); try reflexivity; auto.
    - apply (InvC_frame_upd s _ h (srch_frecv d) (Build_InvC s C1 C2 C3 C4 C5)); try reflexivity; auto.
      intros r0 _ _ Hf. discriminate.
    - apply (InvC_frame_upd s _ h (srch_set_fwd FRead) (Build_InvC s C1 C2 C3 C4 C5)); try reflexivity; auto.
      + intros r0 _ _ Hf. discriminate.
      + simpl. intros u Hu. apply in_or_app. auto.
    - apply (InvC_frame_upd s _ h (srch_set_fwd (if g_inf (h_opt r) then FFin else FPostDone)) (Build_InvC s C1 C2 C3 C4 C5)); try reflexivity; auto.
      intros r0 Hr0 He Hf Hi. assert (r0 = r) by (eapply same_rec; eauto). subst r0.
      simpl in Hf. rewrite Hi in Hf. discriminate.
    - apply (InvC_frame_upd s _ h (srch_set_fwd FFin) (Build_InvC s C1 C2 C3 C4 C5)); try reflexivity; auto.
      + intros r0 _ _ _ _. right. left. simpl. eexists. apply in_or_app. right. left. reflexivity.
      + simpl. intros u Hu. apply in_or_app. auto.
    - apply (InvC_frame_post s _ (Build_InvC s C1 C2 C3 C4 C5)); try reflexivity; auto.
      simpl. intros u Hu. apply in_or_app. auto.
    - apply (InvC_frame_upd s _ h srch_set_quit (Build_InvC s C1 C2 C3 C4 C5)); try reflexivity; auto.
  Qed.
End InvCStep.

Section ExactlyOne.
  Variable cap : nat.
  Variable script : list cmd.

  Lemma InvC_init : InvC (init_state script).
  Proof.
    constructor; simpl; auto; try discriminate.
    intros r Hr. destruct Hr.
  Qed.

  Theorem InvABC_reachable : forall s, reachable cap script s -> InvA s /\ InvB s /\ InvC s.
  Proof.
    intros s R. induction R.
    - split; [apply InvA_init | split; [apply InvB_init | apply InvC_init]].
    - destruct IHR as [IA [IB IC]]. split; [|split].
      + eapply InvA_step; eauto.
      + eapply InvB_step; eauto.
      + eapply InvC_step; eauto.
  Qed.

  (** no internal step (anything but the consumption of input) is enabled *)
  Definition quiescent (s : dstate) : Prop :=
    forall l s', is_internal l = true -> fire cap l s <> Some s'.

  Definition search_inf (s : dstate) (q : nat) : bool :=
    match find_h q (srchs s) with Some r => g_inf (h_opt r) | None => false end.

  (** the go with sequence number q is owed an answer: it is the latest go, nothing superseded
      it (no position / ucinewgame / go / exit since), and it is not `infinite` or a stop was
      consumed after it. *)
  Definition owed (s : dstate) (q : nat) : Prop :=
    q = searches s /\ q <> 0 /\ g_super s = false /\ (search_inf s q = false \/ g_stopped s = true).

  (** C04, liveness as a quiescence property: when all goroutines have finished or are blocked
      for good and the loop sits at its select (or has exited), every owed go has its bestmove -
      exactly one by [at_most_one_bestmove]. *)
  Theorem exactly_one_bestmove : forall s q, 1 <= cap -> reachable cap script s -> quiescent s ->
    pc s = PIdle \/ pc s = PExited -> owed s q ->
    (exists d, In (LBest q d) (emitted s)) /\ count_best q (emitted s) = 1.
  Proof.
    intros s q Hcap R Q Hpc [Eq [Hq [Hs Hw]]].
    destruct (InvABC_reachable s R) as [IA [IB IC]].
    assert (E : exists d, In (LBest q d) (emitted s)).
    { subst q. destruct (c_answer s IC Hs Hq) as [Act|Ans]; auto. exfalso.
      destruct Hpc as [Hpc|Hpc]; [|destruct (c_exit s IC Hpc); congruence].
      (* the latest search is still [active]: it cannot be, in a quiescent state *)
      assert (Ea : eactive s = Some (searches s)) by (rewrite <- Act; apply (b_active s IB); lia).
      destruct (c_eact _ _ _ _ _ (b_core s IB) _ Ea) as [_ [r F]].
      destruct Hw as [Hw|Hw].
      - unfold search_inf in Hw. rewrite F in Hw.
        assert (Pn : ponder s = []).
        { destruct (ponder s) eqn:Hp; auto. exfalso. eapply (Q LRecv); [reflexivity|].
          apply view_fire. eapply V_recv; eauto. }
        destruct (find_h_In _ _ _ F) as [Hin Hid].
        destruct (c_hok _ _ _ _ _ (b_core s IB) r Hin) as [[H1 [H2 [H3 [H4 [H5 [H6 [H7 [HP H8]]]]]]]] _].
        destruct (h_proc r) eqn:Hproc.
        { eapply (Q (LIter (searches s) false)); [reflexivity|]. apply view_fire. eapply V_iter; eauto. discriminate. }
        destruct H8 as [_ [_ Hoc]].
        destruct (h_fwd r) eqn:Hfw.
        + destruct (h_out r) eqn:Ho.
          * eapply (Q (LFRecv (searches s))); [reflexivity|]. apply view_fire. eapply V_frecv; eauto.
          * eapply (Q (LFClosed (searches s))); [reflexivity|]. apply view_fire. eapply V_fclosed; eauto.
        + eapply (Q (LFPost (searches s))); [reflexivity|]. apply view_fire. eapply V_fpost; eauto.
          rewrite Pn. simpl. lia.
        + eapply (Q (LFPostDone (searches s))); [reflexivity|]. apply view_fire. eapply V_fpostdone; eauto.
          rewrite Pn. simpl. lia.
        + destruct (c_fin s IC r Hin Hfw Hw) as [[d Hd]|Hn].
          * rewrite Pn in Hd. destruct Hd.
          * congruence.
      - destruct (c_stop s IC Hw) as [Z|[h [Z|Z]]]; try congruence; lia. }
    split; auto.
    destruct E as [d Hd].
    assert (L := a_one s IA q).
    assert (0 < count_best q (emitted s)).
    { unfold count_best. clear L. induction (emitted s) as [|a l IH]; [destruct Hd|].
      simpl. destruct Hd as [->|Hd].
      - simpl. rewrite Nat.eqb_refl. simpl. lia.
      - destruct (is_best q a); simpl; auto. apply IH in Hd. lia. }
    lia.
  Qed.

  (** the converse bound: a search that was not started has no bestmove, a superseded or
      unanswered one keeps what it has (see [no_stale_bestmove]) *)
  Theorem bestmove_only_for_go : forall s q d, reachable cap script s -> In (LBest q d) (emitted s) ->
    q <> 0 /\ q <= searches s /\ active s <> q.
  Proof. intros s q d R H. destruct (InvABC_reachable s R) as [IA _]. apply (a_best s IA _ _ H). Qed.
End ExactlyOne.

Print Assumptions exactly_one_bestmove.
