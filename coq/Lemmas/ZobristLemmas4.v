(** ZobristLemmas4 — C07: sequences of moves (path independence), non-vacuity, refutation of the legacy code. *)
From Coq Require Import NArith List Bool Lia ZifyBool ZifyNat ZifyN.
From Morlock.Model Require Import Bits Attacks Move Position Abs Zobrist.
From Morlock.Lemmas Require Import PositionLemmas ZobristLemmas1 ZobristLemmas2 ZobristLemmas3.
Import ListNotations.
Open Scope N_scope.

(** * structural equality of positions *)

Lemma listN_eqb_eq a : forall b, listN_eqb a b = true -> a = b.
Proof. induction a as [|x a IH]; intros [|y b] H; cbn [listN_eqb] in H; try discriminate; [reflexivity|].
  apply andb_true_iff in H as [H1 H2]. apply N.eqb_eq in H1. subst. f_equal. now apply IH. Qed.

Lemma pos_eqb_eq a b : pos_eqb a b = true -> a = b.
Proof. unfold pos_eqb. rewrite !andb_true_iff, !N.eqb_eq, rot_eqb_eq. intros [[[H1 H2] H3] H4].
  apply listN_eqb_eq in H1. destruct a as [a1 a2 a3 a4], b as [b1 b2 b3 b4]. cbn [pieces rotated_bb castling enpassant] in *. subst. reflexivity. Qed.

(** * playing a sequence of moves; the hash maintained along it *)

Inductive plays : position -> N -> list move -> position -> N -> Prop :=
| plays_nil p t : plays p t [] p t
| plays_cons p t m p1 ms q u :
    In m (pseudo_legal_moves p t) -> pos_move p m = Some p1 -> plays p1 (opponent t) ms q u ->
    plays p t (m :: ms) q u.

(** what a board does: start from some hash, update it with [zmove] at every move *)
Fixpoint hash_run (z : ztable) (h : N) (pos : position) (ms : list move) : N :=
  match ms with
  | [] => h
  | m :: r => match pos_move pos m with
              | Some p' => hash_run z (zmove z h pos m) p' r
              | None => h
              end
  end.

(** closure of legality under moves (proved as [move_wf] in MoveRefines; discharged in ZobristLemmas) *)
Definition wf_closed : Prop :=
  forall p t m p', wf_b p t = true -> In m (pseudo_legal_moves p t) -> pos_move p m = Some p' ->
                   wf_b p' (opponent t) = true.

Theorem hash_run_scratch_closed z : zt_ok z -> wf_closed -> forall p t ms q u,
  wf_b p t = true -> plays p t ms q u -> hash_run z (zhash z p t) p ms = zhash z q u.
Proof. intros Hz Hcl p t ms q u Hwf Hpl. induction Hpl as [p t | p t m p1 ms q u Hin Hmv Hpl IH].
  - reflexivity.
  - cbn [hash_run]. rewrite Hmv. rewrite (zobrist_incremental z p t m p1 Hz Hwf Hin Hmv).
    apply IH. exact (Hcl p t m p1 Hwf Hin Hmv). Qed.

(** two lines of play, from possibly different legal starting positions, ending in the same position with the
    same side to move: the two boards carry the same hash *)
Theorem path_independent_closed z : zt_ok z -> wf_closed -> forall p1 t1 ms1 q1 p2 t2 ms2 q2 u,
  wf_b p1 t1 = true -> wf_b p2 t2 = true ->
  plays p1 t1 ms1 q1 u -> plays p2 t2 ms2 q2 u -> pos_eqb q1 q2 = true ->
  hash_run z (zhash z p1 t1) p1 ms1 = hash_run z (zhash z p2 t2) p2 ms2.
Proof. intros Hz Hcl p1 t1 ms1 q1 p2 t2 ms2 q2 u W1 W2 P1 P2 E.
  rewrite (hash_run_scratch_closed z Hz Hcl _ _ _ _ _ W1 P1), (hash_run_scratch_closed z Hz Hcl _ _ _ _ _ W2 P2).
  apply pos_eqb_eq in E. now subst. Qed.

(** * non-vacuity and the legacy code *)

Definition zback_rank : list N := [Rook; Knight; Bishop; King; Queen; Bishop; Knight; Rook].
Definition zrow (c base : N) (l : list N) : list placement :=
  map (fun ip => mkPlacement (base + fst ip) c (snd ip)) (combine (seqN 8) l).
Definition zinitial_placements : list placement :=
  zrow White 0 zback_rank ++ zrow White 8 (repeat Pawn 8) ++ zrow Black 48 (repeat Pawn 8) ++ zrow Black 56 zback_rank.
Definition ze2e4 : move := mkMove Jump 11 27 Pawn NoPiece NoPiece.

(** a concrete table satisfying [zt_ok] *)
Definition z0 : ztable :=
  mkZt (fun c p s => N.shiftl 1 (c * 7 + p) + s * 1000 + 1)
       (fun c => c * 77 + 5)
       (fun s => if (sq_rank s =? 2) || (sq_rank s =? 5) then s * 13 + 3 else 0)
       (fun t => t * 1001 + 9).

Lemma z0_ok : zt_ok z0.
Proof. intros sq H2 H5. unfold z0. cbn [z_enpassant].
  destruct (N.eqb_spec (sq_rank sq) 2); [contradiction|]. destruct (N.eqb_spec (sq_rank sq) 5); [contradiction|]. reflexivity. Qed.

Lemma zmove_eqb_eq a b : move_eqb a b = true -> a = b.
Proof. destruct a as [a1 a2 a3 a4 a5 a6], b as [b1 b2 b3 b4 b5 b6]. unfold move_eqb.
  cbn [mtype mfrom mto mpiece mpromo mcapture]. rewrite !andb_true_iff, !N.eqb_eq.
  intros [[[[[-> ->] ->] ->] ->] ->]. reflexivity. Qed.

Lemma zin_of_existsb m l : existsb (move_eqb m) l = true -> In m l.
Proof. intros H. apply existsb_exists in H as [x [Hx E]]. apply zmove_eqb_eq in E. now subst. Qed.

(** the hypotheses of [zobrist_incremental] hold for the initial position and 1. e2-e4 *)
Example zobrist_incremental_nonvacuous :
  exists p0 p1, new_position zinitial_placements 15 0 = Some p0 /\
    zt_ok z0 /\ wf_b p0 White = true /\ In ze2e4 (pseudo_legal_moves p0 White) /\ pos_move p0 ze2e4 = Some p1 /\
    zmove z0 (zhash z0 p0 White) p0 ze2e4 = zhash z0 p1 (opponent White).
Proof. eexists. eexists. split; [vm_compute; reflexivity|]. split; [exact z0_ok|].
  split; [vm_compute; reflexivity|]. split; [apply zin_of_existsb; vm_compute; reflexivity|].
  split; [vm_compute; reflexivity|]. vm_compute. reflexivity. Qed.

(** the code as found ([castling[old & lost]]) does not maintain the scratch hash *)
Definition zobrist_incremental_statement (zm : ztable -> N -> position -> move -> N) : Prop :=
  forall z pos turn m pos',
  zt_ok z -> wf_b pos turn = true -> In m (pseudo_legal_moves pos turn) -> pos_move pos m = Some pos' ->
  zm z (zhash z pos turn) pos m = zhash z pos' (opponent turn).

Example zobrist_legacy_refuted :
  exists p0 p1, new_position zinitial_placements 15 0 = Some p0 /\
    zt_ok z0 /\ wf_b p0 White = true /\ In ze2e4 (pseudo_legal_moves p0 White) /\ pos_move p0 ze2e4 = Some p1 /\
    zmove_legacy z0 (zhash z0 p0 White) p0 ze2e4 <> zhash z0 p1 (opponent White).
Proof. eexists. eexists. split; [vm_compute; reflexivity|]. split; [exact z0_ok|].
  split; [vm_compute; reflexivity|]. split; [apply zin_of_existsb; vm_compute; reflexivity|].
  split; [vm_compute; reflexivity|]. vm_compute. discriminate. Qed.

Corollary zobrist_legacy_violates : ~ zobrist_incremental_statement zmove_legacy.
Proof. intros H. destruct zobrist_legacy_refuted as [p0 [p1 [_ [Hz [Hwf [Hin [Hmv Hne]]]]]]].
  apply Hne. exact (H z0 p0 White ze2e4 p1 Hz Hwf Hin Hmv). Qed.

Corollary zobrist_repaired_satisfies : zobrist_incremental_statement zmove.
Proof. exact zobrist_incremental. Qed.

Print Assumptions hash_run_scratch_closed.
Print Assumptions path_independent_closed.
Print Assumptions zobrist_incremental_nonvacuous.
Print Assumptions zobrist_legacy_refuted.
Print Assumptions zobrist_legacy_violates.
