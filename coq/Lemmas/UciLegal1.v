(** C04, legality of the answer, part 1: the iteration loop of `go depth` on the real board.

    [direct_keeps_gen]: a full-window root search that is never halted hands the board back at the same
    node WITH a truthful root flag ([RootFlag] again - the published contract [board_search_spec] only
    gives [BAt]), keeps the table invariant, and its principal variation is "good" for the node:

      [pv_good z p pv] : the PV starts with a pseudo-legal move that PushMove accepts at the node of the
                         board (flag reset: [norm p]), or it is empty and NO move is accepted there.

    [stream_good]: the same for every entry of the reported stream of [UciSeq.iterate]
    (Lemmas/IterateLemmas.v [stream]): the board and the table are threaded from one depth to the next, so
    the invariant ([BAt], [RootFlag], the table property, [TTInv]) is carried along.

    Nothing here assumes [gb_draw g = false]: at a root where a draw can be claimed the search clears the
    flag ([root_board]), searches the node [norm p], and restores the flag afterwards. *)
From Coq Require Import NArith ZArith List Bool Lia.
From Morlock.Model Require Import Bits Score Attacks Move Position Zobrist Board Search TT SearchBoard Abs UciSeq.
From Morlock.Lemmas Require Import ScoreLemmas SearchScore SearchStep BoardHeap1 BoardHeap2 BoardHeap3
     SearchContract SearchBoardInst1 SearchBoardInst2 SearchBoardInst3 SearchBoardInst4 SearchBoardInst IterateLemmas.
Import ListNotations.
Open Scope Z_scope.

(** the cancellation oracle of a run that is never halted *)
Definition never_halt : nat -> bool := fun _ => false.
Lemma never_halt_mono : forall n, never_halt n = true -> never_halt (S n) = true.
Proof. intros n H. discriminate H. Qed.

Section Good.
  Variable z : ztable.

  (** the head of the PV is an accepted pseudo-legal move of the node; empty only if there is none *)
  Definition pv_good (p : aboard) (pv : list move) : Prop :=
    match pv with
    | m :: _ => In m (bmoves (norm p)) /\ exists c, bchild z (norm p) m = Some c
    | [] => forall m c, bchild z (norm p) m = Some c -> False
    end.

  Lemma bchild_some_in p m c : bchild z p m = Some c -> In m (bmoves p).
  Proof.
    unfold bchild. destruct (move_mem m (bmoves p)) eqn:E; [|intros H; discriminate H].
    intros _. apply move_mem_in. exact E.
  Qed.
End Good.

Section Keep.
  Variable z : ztable.
  Variable use_q : bool.
  Variable qfuel : nat.

  Notation leaves1 := (leaves_ok use_q qfuel aboard bmoves (bchild z) bdrawn bex bqex).
  Notation HashValue1 := (HashValue use_q qfuel aboard bmoves (bchild z) bdrawn bmated bleaf bex bqex bhash).
  Notation TTInv1 rd := (TTInv ttv rd use_q qfuel aboard bmoves (bchild z) bdrawn bmated bleaf bex bqex bhash).
  Notation s_g := (s_g gboard ttv).
  Notation s_tt := (s_tt gboard ttv).
  Notation s_polls := (s_polls gboard ttv).

  Lemma direct_is_search g t d :
    direct z use_q qfuel g t d =
    search_board z full_exploration captures_only material never_halt use_q qfuel g t [] d neginf_score inf_score.
  Proof. reflexivity. Qed.

  Section Table.
    Variable rd : ttv -> N -> option (N * Z * score * move).
    Variable P : ttv -> Prop.
    Hypothesis Hread : forall t h, P t -> rd t h = ttv_read t h.
    Hypothesis Hwrite : forall t h b ply d sc m, P t -> P (ttv_write t h b ply d sc m).
    Hypothesis Htab : NoTable ttv rd \/ (TTLaw ttv rd ttv_write /\ HashValue1).

    (** the state handed on to the next iteration *)
    Definition Thread (p : aboard) (g : gboard) (t : ttv) : Prop :=
      BAt p g /\ RootFlag p g /\ P t /\ TTInv1 rd t.

    Lemma direct_keeps_gen g t d' st nodes sc pv halted p :
      qh use_q qfuel + Z.of_nat (S d') <= 127 -> Thread p g t -> leaves1 (S d') true (norm p) ->
      direct z use_q qfuel g t (S d') = (st, nodes, sc, pv, halted) ->
      halted = false /\ Thread p (s_g st) (s_tt st) /\ pv_good z p pv /\ (length pv <= S d')%nat.
    Proof.
      intros Hd (HB & HR & HP & HT) HL Heq. rewrite direct_is_search in Heq.
      destruct (board_search_gen z never_halt use_q qfuel never_halt_mono rd P Hread Hwrite Htab
                  g t (S d') neginf_score inf_score st nodes sc pv halted p Hd HP HT HB HR HL eq_refl eq_refl Heq)
        as (K1 & K2 & K3 & K4 & K5 & _ & _).
      assert (Hh : halted = false) by (rewrite K5; reflexivity).
      split; [exact Hh|]. subst halted.
      (* the root flag after the search *)
      assert (HR' : RootFlag p (s_g st)).
      { destruct (search_run z never_halt use_q qfuel rd P Hread Hwrite g t (S d') _ _ st nodes sc pv false HP Heq)
          as (st1 & sc1 & pv1 & Eab & P1 & Ett & Epo & Eg & Eh & _ & _).
        destruct (root_At p g HB HR) as [HAt0 Hdr0].
        assert (HI0 : SearchContract.Inv gboard ttv rd use_q qfuel aboard bmoves (bchild z) bdrawn bmated bleaf bex bqex bhash
                        (mkSst gboard ttv (root_board g) t 0%N 0%nat [])) by (split; [exact HT|reflexivity]).
        assert (HF : FlagOK gboard gb_draw use_q aboard bdrawn (S d') true (norm p) (root_board g)) by (right; exact Hdr0).
        destruct (specM z never_halt use_q qfuel never_halt_mono rd Htab (S d') true Hd _ neginf_score inf_score st1 sc1 pv1 (norm p)
                    HI0 HAt0 HF HL (fun _ => conj eq_refl eq_refl) Eab) as (_ & [_ KF] & _).
        rewrite Eg. unfold RootFlag. destruct (gb_draw g) eqn:Ed.
        - intros Hnd. exfalso. destruct g as [h b]. destruct (s_g st1) as [h1 b1].
          unfold gb_restore, gb_draw in Hnd, Ed. cbn [fst snd adjudicate b_result] in Hnd, Ed.
          rewrite Ed in Hnd. discriminate Hnd.
        - intros _ Hb. exact (KF Hb). }
      split; [exact (conj K1 (conj HR' (conj K3 K4)))|].
      destruct (board_pv_sound_gen z never_halt use_q qfuel never_halt_mono rd P Hread Hwrite Htab
                  g t d' st nodes sc pv p Hd HP HT HB HR HL Heq) as [[Hlen Hpath] Hne].
      split; [|exact Hlen].
      unfold pv_good. destruct pv as [|m rem].
      - intros m c Hc. destruct Hne as (m1 & rem1 & c1 & E & _).
        + exists m, c. split; [eapply bchild_some_in; exact Hc|]. split; [exact Hc|reflexivity].
        + discriminate E.
      - cbn [path] in Hpath. destruct Hpath as [Hin (c & Hc & _)]. split; [exact Hin|]. exists c. exact Hc.
    Qed.

    (** every entry of the reported stream, and the state at the end *)
    Lemma stream_good : forall d lim g t new g' t' fin,
      stream z use_q qfuel d lim g t new g' t' fin ->
      forall p l, lim = Some l -> (1 <= d)%nat -> (d <= l)%nat -> qh use_q qfuel + Z.of_nat l <= 127 ->
      Thread p g t -> (forall k, (d <= k <= l)%nat -> leaves1 k true (norm p)) ->
      Forall (fun i : pvinfo => pv_good z p (snd i) /\ (length (snd i) <= fst (fst (fst i)))%nat) new /\ Thread p g' t'.
    Proof.
      intros d lim g t new g' t' fin H.
      induction H as [d lim g t | d lim g t st nodes sc pv halted E Hs
                     | d lim g t st nodes sc pv halted rest g' t' fin E Hs Hr IH];
        intros p l Hl H1 Hdl Hq HTh HLs.
      - split; [constructor|exact HTh].
      - destruct d as [|d']; [lia|].
        destruct (direct_keeps_gen g t d' st nodes sc pv halted p ltac:(lia) HTh (HLs (S d') ltac:(lia)) E) as (_ & HTh' & Hg & Hlen).
        split; [|exact HTh']. constructor; [|constructor]. cbn [snd fst]. split; assumption.
      - destruct d as [|d']; [lia|].
        destruct (direct_keeps_gen g t d' st nodes sc pv halted p ltac:(lia) HTh (HLs (S d') ltac:(lia)) E) as (_ & HTh' & Hg & Hlen).
        assert (Hne : S d' <> l).
        { intro Eq. subst lim. unfold stops in Hs. rewrite Eq, PeanoNat.Nat.eqb_refl in Hs. discriminate Hs. }
        destruct (IH p l Hl ltac:(lia) ltac:(lia) Hq HTh' (fun k Hk => HLs k ltac:(lia))) as [F HT'].
        split; [|exact HT']. constructor; [|exact F]. cbn [snd fst]. split; assumption.
    Qed.
  End Table.
End Keep.

(** ** the two instances: no table / a table under [b_HashValue] *)
Section Inst.
  Variable z : ztable.
  Variable use_q : bool.
  Variable qfuel : nat.

  Definition ThreadNoTT (p : aboard) (g : gboard) (t : ttv) : Prop :=
    BAt p g /\ RootFlag p g /\ t = NoTT.
  Definition ThreadTT (p : aboard) (g : gboard) (t : ttv) : Prop :=
    BAt p g /\ RootFlag p g /\ b_TTInv z use_q qfuel t.

  Theorem stream_good_nott d g new g' t' fin p l :
    stream z use_q qfuel d (Some l) g NoTT new g' t' fin ->
    (1 <= d)%nat -> (d <= l)%nat -> qh use_q qfuel + Z.of_nat l <= 127 ->
    BAt p g -> RootFlag p g -> (forall k, (d <= k <= l)%nat -> b_leaves_ok z use_q qfuel k true (norm p)) ->
    Forall (fun i : pvinfo => pv_good z p (snd i) /\ (length (snd i) <= fst (fst (fst i)))%nat) new /\
    BAt p g' /\ RootFlag p g' /\ t' = NoTT.
  Proof.
    intros Hs H1 Hdl Hq HB HR HL.
    destruct (stream_good z use_q qfuel rd0 (fun t => t = NoTT) (P0_read) (P0_write) (rd0_tab z use_q qfuel)
                d (Some l) g NoTT new g' t' fin Hs p l eq_refl H1 Hdl Hq
                (conj HB (conj HR (conj eq_refl (rd0_TTInv z use_q qfuel NoTT)))) HL) as [F (A & B & C & _)].
    auto.
  Qed.

  Theorem stream_good_table d g t new g' t' fin p l :
    b_HashValue z use_q qfuel ->
    stream z use_q qfuel d (Some l) g t new g' t' fin ->
    (1 <= d)%nat -> (d <= l)%nat -> qh use_q qfuel + Z.of_nat l <= 127 ->
    BAt p g -> RootFlag p g -> b_TTInv z use_q qfuel t ->
    (forall k, (d <= k <= l)%nat -> b_leaves_ok z use_q qfuel k true (norm p)) ->
    Forall (fun i : pvinfo => pv_good z p (snd i) /\ (length (snd i) <= fst (fst (fst i)))%nat) new /\
    BAt p g' /\ RootFlag p g' /\ b_TTInv z use_q qfuel t'.
  Proof.
    intros Hh Hs H1 Hdl Hq HB HR HT HL.
    destruct (stream_good z use_q qfuel ttv_read (fun _ => True) (fun _ _ _ => eq_refl) (fun _ _ _ _ _ _ _ _ => I)
                (or_intror (conj board_tt_law Hh))
                d (Some l) g t new g' t' fin Hs p l eq_refl H1 Hdl Hq
                (conj HB (conj HR (conj I HT))) HL) as [F (A & B & _ & D)].
    auto.
  Qed.
End Inst.

Print Assumptions stream_good_nott.
Print Assumptions stream_good_table.
