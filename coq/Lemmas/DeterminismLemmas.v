(** C18 - determinism of the search: summary of Lemmas/DeterminismLemmas1-5.v.

    "With evaluation noise off and no hash table carried over, what a search returns (score, principal
    variation, node count) depends only on the game state and the depth: repeating it, running other searches
    before or alongside it on other engines, or using a different hash seed does not change it ...  Analysing
    a position never alters the engine's own game state."

    1  generic: two runs of Model/Search.v on two games related by a simulation return the same numbers
       ([ab_search_sim], DeterminismLemmas1);
    2  [zrel z1 z2 g1 g2] (DeterminismLemmas3; node by node: [zrel_spelled_out]): two heap boards carrying the
       same legal game, hashed with key tables [z1] and [z2], equal in everything but the hashes;
       [push_zrel], [pop_zrel], [mated_zrel], [adjudicate_zrel]: the operations of the search keep it and answer
       alike - in particular PushMove reports the SAME result on both sides, hash collisions notwithstanding;
    3  [search_independent_of_zobrist]: a search without table gives the same node count, score, principal
       variation, halted flag and poll count on [zrel] boards, and hands back [zrel] boards;
    4  [search_function_of_state] (one table): the answer is a function of the [zrel] class, i.e. of the
       hash-free game state; new boards, replayed games, forks are in one class ([new_board_zrel],
       [played_zrel], [fork_zrel]); [analysis_repeatable]: fork-and-search twice gives the same answer,
       whatever was searched in between;
    5  [analysis_isolated], [search_passive_unchanged]: a search (any table, policy, cancellation) on a fork
       leaves the view of the engine's own board - of any board on the heap whose history does not run through
       the head node of the searched board - unchanged.
    Not a theorem: repeating a search on the very board the first one handed back
    ([returned_board_needs_rootflag]; [search_repeat_on_returned_board_statement] / [_partial]). *)
From Coq Require Import NArith ZArith List Bool.
From Morlock.Model Require Import Bits Score Attacks Move Position Abs Zobrist Board Search TT SearchBoard.
From Morlock.Lemmas Require Import BoardHeap1 BoardHeap2 GameLemmas6.
From Morlock.Lemmas Require Export DeterminismLemmas1 DeterminismLemmas2 DeterminismLemmas3 DeterminismLemmas4
  DeterminismLemmas5.
Import ListNotations.
Open Scope N_scope.

Section C18.
Variables z1 z2 : ztable.
Hypothesis Hz1 : zt_ok z1.
Hypothesis Hz2 : zt_ok z2.

(** 2 *)
Theorem C18_push g1 g2 m : zrel z1 z2 g1 g2 -> In m (gb_moves g1) ->
  (gb_push z1 g1 m = None /\ gb_push z2 g2 m = None) \/
  exists a b, gb_push z1 g1 m = Some a /\ gb_push z2 g2 m = Some b /\ zrel z1 z2 a b /\
              b_result (snd a) = b_result (snd b) /\
              exists e, node_of a = (e :: fst (node_of g1), opponent (snd (node_of g1))).
Proof. exact (push_zrel z1 z2 Hz1 Hz2 g1 g2 m). Qed.

Theorem C18_pop g1 g2 : zrel z1 z2 g1 g2 -> zrel z1 z2 (gb_pop g1) (gb_pop g2).
Proof. exact (pop_zrel z1 z2 g1 g2). Qed.

Theorem C18_mated g1 g2 : zrel z1 z2 g1 g2 ->
  snd (gb_mated g1) = snd (gb_mated g2) /\ zrel z1 z2 (fst (gb_mated g1)) (fst (gb_mated g2)) /\
  node_of (fst (gb_mated g1)) = node_of g1.
Proof. exact (mated_zrel z1 z2 g1 g2). Qed.

Theorem C18_adjudicate g1 g2 r : zrel z1 z2 g1 g2 ->
  zrel z1 z2 (fst g1, adjudicate (snd g1) r) (fst g2, adjudicate (snd g2) r) /\
  node_of (fst g1, adjudicate (snd g1) r) = node_of g1.
Proof. exact (adjudicate_zrel z1 z2 g1 g2 r). Qed.

(** 3 *)
Theorem C18_seed_independent explore qexplore leaf cancel use_q qfuel :
  explore_blind z1 z2 explore -> explore_blind z1 z2 qexplore -> leaf_blind z1 z2 leaf ->
  forall g1 g2 ponder depth low high, zrel z1 z2 g1 g2 ->
  exists st1 st2 nodes sc pv halted,
    search_board z1 explore qexplore leaf cancel use_q qfuel g1 NoTT ponder depth low high = (st1, nodes, sc, pv, halted) /\
    search_board z2 explore qexplore leaf cancel use_q qfuel g2 NoTT ponder depth low high = (st2, nodes, sc, pv, halted) /\
    zrel z1 z2 (s_g gboard ttv st1) (s_g gboard ttv st2) /\
    node_of (s_g gboard ttv st1) = node_of g1 /\
    s_polls gboard ttv st1 = s_polls gboard ttv st2 /\
    s_tt gboard ttv st1 = NoTT /\ s_tt gboard ttv st2 = NoTT.
Proof. exact (search_independent_of_zobrist z1 z2 Hz1 Hz2 explore qexplore leaf cancel use_q qfuel). Qed.

(** the engine's policies qualify *)
Theorem C18_policies_blind :
  explore_blind z1 z2 full_exploration /\ explore_blind z1 z2 captures_only /\ leaf_blind z1 z2 material.
Proof. split; [apply full_exploration_blind|split; [apply captures_only_blind|apply material_blind]]. Qed.

(** the same game under two seeds *)
Theorem C18_same_game pos turn np fm ms h1 b1 h2 b2 : wf_b pos turn = true -> (turn = 0 \/ turn = 1) ->
  np <= max_int ->
  played_board z1 pos turn np fm ms h1 b1 -> played_board z2 pos turn np fm ms h2 b2 ->
  zrel z1 z2 (h1, b1) (h2, b2).
Proof. intros Hw Ht Hnp. exact (played_zrel z1 z2 Hz1 Hz2 pos turn np fm Hw Ht Hnp ms h1 b1 h2 b2). Qed.
End C18.

(** 4 *)
Theorem C18_function_of_state z (Hz : zt_ok z) explore qexplore leaf cancel use_q qfuel :
  explore_blind z z explore -> explore_blind z z qexplore -> leaf_blind z z leaf ->
  forall g1 g2 ponder depth low high, zrel z z g1 g2 ->
  answer (search_board z explore qexplore leaf cancel use_q qfuel g1 NoTT ponder depth low high) =
  answer (search_board z explore qexplore leaf cancel use_q qfuel g2 NoTT ponder depth low high).
Proof. exact (search_function_of_state z Hz explore qexplore leaf cancel use_q qfuel). Qed.

(** 5 *)
Theorem C18_analysis_isolated z explore qexplore leaf cancel use_q qfuel h b h1 f t ponder depth low high st nodes sc pv halted :
  wf h b -> fork h b = (h1, f) ->
  search_board z explore qexplore leaf cancel use_q qfuel (h1, f) t ponder depth low high = (st, nodes, sc, pv, halted) ->
  let h' := fst (s_g gboard ttv st) in
  wf h' b /\ abs h' b = abs h b /\ beq h' b h b /\ wf h' (snd (s_g gboard ttv st)).
Proof. exact (analysis_isolated z explore qexplore leaf cancel use_q qfuel h b h1 f t ponder depth low high st nodes sc pv halted). Qed.

Print Assumptions C18_push.
Print Assumptions C18_pop.
Print Assumptions C18_mated.
Print Assumptions C18_adjudicate.
Print Assumptions C18_seed_independent.
Print Assumptions C18_policies_blind.
Print Assumptions C18_same_game.
Print Assumptions C18_function_of_state.
Print Assumptions C18_analysis_isolated.
Print Assumptions analysis_repeatable.
Print Assumptions search_passive_unchanged.
Print Assumptions ab_search_sim.
